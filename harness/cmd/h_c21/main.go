// h_c21: correspondence harness for C21 (tsdb.CircularExemplarStorage).
// Runs generated histories of AddExemplar / ValidateExemplar / Resize / SetOutOfOrderTimeWindow /
// Select / IterateExemplars on the real storage, records every returned value and dumps of the
// internal ring (slots with prev/next, nextIndex, index entries) and writes them as Gallina cases.
package main

import (
	"context"
	"errors"
	"fmt"
	"math"
	"math/big"
	"os"
	"sort"
	"strings"
	"unicode/utf8"

	"github.com/prometheus/prometheus/model/exemplar"
	"github.com/prometheus/prometheus/model/labels"
	"github.com/prometheus/prometheus/storage"
	"github.com/prometheus/prometheus/tsdb"

	"verif/harness/internal/gallina"
	"verif/harness/internal/gen"
)

// ---------------------------------------------------------------- universes
var series []labels.Labels // id = position; labels.Compare order = id order (checked)
var seriesID = map[string]int{}

var exLabs []labels.Labels // exemplar label sets; id = position; 0 = empty
var exLabID = map[string]int{}

func internSeries(l labels.Labels) { seriesID[l.String()] = len(series); series = append(series, l) }
func internLab(l labels.Labels) int {
	if id, ok := exLabID[l.String()]; ok {
		return id
	}
	exLabID[l.String()] = len(exLabs)
	exLabs = append(exLabs, l)
	return len(exLabs) - 1
}

func initUniverses() {
	for i := 0; i < 6; i++ {
		g := "a"
		if i%2 == 1 {
			g = "b"
		}
		internSeries(labels.FromStrings("__name__", "m", "g", g, "s", fmt.Sprintf("s%02d", i)))
	}
	// labels.Compare compares label by label: __name__ equal, then g, then s -> order (a,s00)(a,s02)(a,s04)(b,s01)...
	// so sort the universe by labels.Compare and renumber
	sort.Slice(series, func(i, j int) bool { return labels.Compare(series[i], series[j]) < 0 })
	for i, s := range series {
		seriesID[s.String()] = i
		if i > 0 && labels.Compare(series[i-1], s) >= 0 {
			panic("series universe not strictly ordered")
		}
	}
	internLab(labels.EmptyLabels())
	for _, v := range []string{"a", "b", "c", "d", "zz", "ü"} {
		internLab(labels.FromStrings("trace_id", v))
	}
	internLab(labels.FromStrings("span", "1", "trace_id", "a"))
	// boundary of the 128-rune rule: name "trace_id" is 8 runes
	internLab(labels.FromStrings("trace_id", strings.Repeat("x", 119)))           // 127
	internLab(labels.FromStrings("trace_id", strings.Repeat("x", 120)))           // 128: allowed
	internLab(labels.FromStrings("trace_id", strings.Repeat("x", 121)))           // 129: rejected
	internLab(labels.FromStrings("trace_id", strings.Repeat("é", 120)))           // 128 runes, 248 bytes: allowed
	internLab(labels.FromStrings("trace_id", strings.Repeat("é", 121)))           // 129 runes
	internLab(labels.FromStrings("a", strings.Repeat("y", 63), "b", strings.Repeat("z", 63))) // 128 over two labels
	internLab(labels.FromStrings("a", strings.Repeat("y", 63), "b", strings.Repeat("z", 64))) // 129 over two labels
	internLab(labels.FromStrings("a", strings.Repeat("y", 130), "b", "z"))                   // first label already too long
	// label sets with empty-valued labels (only reach the store through the head appenders, which
	// must drop them with WithoutEmpty before validation)
	for _, l := range []labels.Labels{
		labels.FromStrings("span_id", "", "trace_id", "a"),
		labels.FromStrings("span_id", "", "trace_id", "b"),
		labels.FromStrings("trace_id", "c", "zz", ""),
		labels.FromStrings("a", "", "b", ""),
		labels.FromStrings("span_id", "", "trace_id", strings.Repeat("x", 120)),                             // 128 + empty label
		labels.FromStrings("span_id", "", "trace_id", strings.Repeat("x", 119)),                             // 127 + empty label
		labels.FromStrings("span_id", "", "trace_id", strings.Repeat("x", 121)),                             // 129 + empty label
		labels.FromStrings("a", strings.Repeat("y", 63), "b", strings.Repeat("z", 63), "c", ""),             // 128 over two + empty
		labels.FromStrings("span_id", "", "trace_id", strings.Repeat("é", 120)),                             // 128 runes multibyte + empty
	} {
		if l.Len() == l.WithoutEmpty().Len() {
			panic("labels.FromStrings dropped the empty-valued label")
		}
		id := internLab(l)
		base := internLab(l.WithoutEmpty())
		rawOf[base] = append(rawOf[base], id)
		emptyVariants = append(emptyVariants, id)
	}
}

var rawOf = map[int][]int{} // normalised label id -> ids of label sets with extra empty-valued labels
var emptyVariants []int

func z(v int64) string {
	if v < 0 {
		return fmt.Sprintf("(%d)", v)
	}
	return fmt.Sprintf("%d", v)
}

func preamble() string {
	var sb strings.Builder
	sb.WriteString("From Coq Require Import List ZArith.\nFrom Verif Require Import lib.Int64 model.Exemplar corr.CorrC21.\nImport ListNotations.\nOpen Scope Z_scope.\n")
	sb.WriteString("Definition lab_lens (i : Z) : list (Z * Z) :=\n  match i with\n")
	for id, l := range exLabs {
		var it []string
		l.Range(func(lb labels.Label) {
			it = append(it, fmt.Sprintf("(%d, %d)", utf8.RuneCountInString(lb.Name), utf8.RuneCountInString(lb.Value)))
		})
		sb.WriteString(fmt.Sprintf("  | %d => %s\n", id, gallina.List(it)))
	}
	sb.WriteString("  | _ => []\n  end.\nDefinition lab_hash (i : Z) : Z :=\n  match i with\n")
	for id, l := range exLabs {
		sb.WriteString(fmt.Sprintf("  | %d => %d\n", id, l.Hash()))
	}
	sb.WriteString("  | _ => 0\n  end.\n")
	sb.WriteString("Definition X (lab : Z) (v : option Z) (ts : Z) (h : bool) : exemplar := mkEx lab (lab_lens lab) (lab_hash lab) v ts h.\n")
	sb.WriteString("Definition S (e : exemplar) (n p : Z) (r : option Z) : slot := mkSlot e n p r.\n")
	// oracle: id of Labels.WithoutEmpty() (computed by calling labels.WithoutEmpty directly)
	sb.WriteString("Definition lab_ne (i : Z) : Z :=\n  match i with\n")
	for id, l := range exLabs {
		ne, ok := exLabID[l.WithoutEmpty().String()]
		if !ok {
			panic("normalised label set not in the universe")
		}
		if ne != id {
			sb.WriteString(fmt.Sprintf("  | %d => %d\n", id, ne))
		}
	}
	sb.WriteString("  | _ => i\n  end.\n")
	sb.WriteString("Definition HE (e : exemplar) : exemplar * (Z * Z) := (e, (lab_ne (e_lab e), lab_hash (lab_ne (e_lab e)))).\n")
	return sb.String()
}

// ---------------------------------------------------------------- printing
func valStr(f float64) string {
	if math.IsNaN(f) {
		return "None"
	}
	if f != math.Trunc(f) || math.Abs(f) > 1e15 {
		panic("harness only uses integer-valued floats")
	}
	return "(Some " + z(int64(f)) + ")"
}

func exStr(e exemplar.Exemplar) string {
	id, ok := exLabID[e.Labels.String()]
	if !ok {
		panic("unknown exemplar labels " + e.Labels.String())
	}
	return fmt.Sprintf("(X %d %s %s %s)", id, valStr(e.Value), z(e.Ts), gallina.Bool(e.HasTs))
}

func errStr(err error) string {
	switch {
	case err == nil:
		return "VOk"
	case errors.Is(err, storage.ErrExemplarsDisabled):
		return "VDisabled"
	case errors.Is(err, storage.ErrExemplarLabelLength):
		return "VLabelLen"
	case errors.Is(err, storage.ErrDuplicateExemplar):
		return "VDup"
	case errors.Is(err, storage.ErrOutOfOrderExemplar):
		return "VOOO"
	}
	panic("unexpected error: " + err.Error())
}

func sid(l labels.Labels) int {
	id, ok := seriesID[l.String()]
	if !ok {
		panic("unknown series " + l.String())
	}
	return id
}

type dump struct {
	next  int
	slots []tsdb.VerifExSlot
	index []tsdb.VerifExIndex
}

func takeDump(ce *tsdb.CircularExemplarStorage) dump {
	n, s, i := tsdb.VerifExemplarDump(ce)
	sort.Slice(i, func(a, b int) bool { return sid(i[a].Series) < sid(i[b].Series) })
	return dump{n, s, i}
}

func (d dump) String() string {
	sl := make([]string, len(d.slots))
	for i, s := range d.slots {
		ref := "None"
		if s.Live {
			ref = fmt.Sprintf("(Some %d)", sid(s.Series))
		}
		sl[i] = fmt.Sprintf("S %s %s %s %s", exStr(s.Ex), z(int64(s.Next)), z(int64(s.Prev)), ref)
	}
	ix := make([]string, len(d.index))
	for i, e := range d.index {
		ix[i] = fmt.Sprintf("(%d, (%s, %s))", sid(e.Series), z(int64(e.Oldest)), z(int64(e.Newest)))
	}
	return fmt.Sprintf("BDump %d %s %s", d.next, gallina.List(sl), gallina.List(ix))
}

// corrupt reports whether some per-series list is not a finite, in-range chain (Select or
// findInsertionIndex would panic or never return).
func (d dump) corrupt() string {
	n := len(d.slots)
	for _, e := range d.index {
		steps := 0
		for i := e.Oldest; i != -1; steps++ {
			if i < 0 || i >= n {
				return fmt.Sprintf("series %d: next-chain leaves the ring at %d", sid(e.Series), i)
			}
			if steps > n {
				return fmt.Sprintf("series %d: next-chain is cyclic", sid(e.Series))
			}
			i = d.slots[i].Next
		}
		steps = 0
		for i := e.Newest; i != -1; steps++ {
			if i < 0 || i >= n {
				return fmt.Sprintf("series %d: prev-chain leaves the ring at %d", sid(e.Series), i)
			}
			if steps > n {
				return fmt.Sprintf("series %d: prev-chain is cyclic", sid(e.Series))
			}
			i = d.slots[i].Prev
		}
	}
	return ""
}

func (d dump) chain(s int) []tsdb.VerifExSlot {
	for _, e := range d.index {
		if sid(e.Series) == s {
			var r []tsdb.VerifExSlot
			for i := e.Oldest; i != -1 && len(r) <= len(d.slots); i = d.slots[i].Next {
				r = append(r, d.slots[i])
			}
			return r
		}
	}
	return nil
}

// ---------------------------------------------------------------- matcher sets
type mset struct {
	name string
	ms   [][]*labels.Matcher
}

var msets []mset

func initMatchers() {
	m := labels.MustNewMatcher
	msets = []mset{
		{"all", [][]*labels.Matcher{{m(labels.MatchEqual, "__name__", "m")}}},
		{"s01", [][]*labels.Matcher{{m(labels.MatchEqual, "s", "s01")}}},
		{"g=a", [][]*labels.Matcher{{m(labels.MatchEqual, "g", "a")}}},
		{"s=~s0[12]", [][]*labels.Matcher{{m(labels.MatchRegexp, "s", "s0[12]")}}},
		{"s00|g=b", [][]*labels.Matcher{{m(labels.MatchEqual, "s", "s00")}, {m(labels.MatchEqual, "g", "b")}}},
		{"s!=s00,g=a", [][]*labels.Matcher{{m(labels.MatchNotEqual, "s", "s00"), m(labels.MatchEqual, "g", "a")}}},
		{"none", nil},
		{"nomatch", [][]*labels.Matcher{{m(labels.MatchEqual, "s", "zzz")}}},
	}
}

// matched evaluates the matcher sets on the series universe (oracle for the model).
func (s mset) matched() []int64 {
	var r []int64
	for id, l := range series {
		ok := false
		for _, conj := range s.ms {
			all := true
			for _, mm := range conj {
				if !mm.Matches(l.Get(mm.Name)) {
					all = false
				}
			}
			if all {
				ok = true
			}
		}
		if ok {
			r = append(r, int64(id))
		}
	}
	return r
}

// ---------------------------------------------------------------- a history
type opDesc struct {
	Op  string `json:"op"`
	Obs string `json:"obs,omitempty"`
}
type desc struct {
	Len    int64    `json:"len"`
	Win    int64    `json:"win"`
	Ops    []opDesc `json:"ops"`
	Shape  string   `json:"shape"`
	Stream string   `json:"stream"`
	Corpus string   `json:"corpus,omitempty"`
}

type hist struct {
	ce      *tsdb.CircularExemplarStorage
	ops     []string
	obs     []string
	d       desc
	classes map[string]bool
	dead    bool
	win     int64
	goViol  string
	wrap    bool
	maxTs   map[int]int64
	tried   []tried
	head    *tsdb.Head // head stream only
	dir     string
	sampleT int64
}
type tried struct {
	s int
	e exemplar.Exemplar
}

func newHist(l, w int64, stream string) *hist {
	es, err := tsdb.NewCircularExemplarStorage(l, tsdb.NewExemplarMetrics(nil), w)
	if err != nil {
		panic(err)
	}
	h := &hist{ce: es.(*tsdb.CircularExemplarStorage), classes: map[string]bool{}, maxTs: map[int]int64{}}
	h.d = desc{Len: l, Win: w, Stream: stream}
	h.win = w
	if w < 0 {
		h.win = 0
	}
	return h
}

func (h *hist) record(op, obs string) {
	if !strings.HasPrefix(op, "HHead") {
		op = "HPlain (" + op + ")"
	}
	h.ops = append(h.ops, op)
	h.obs = append(h.obs, obs)
	h.d.Ops = append(h.d.Ops, opDesc{op, obs})
}

// do runs f, turning a panic into BPanic (the history ends there).
func (h *hist) do(op string, f func() string) {
	if h.dead {
		return
	}
	obs := func() (o string) {
		defer func() {
			if r := recover(); r != nil {
				o = "BPanic"
				h.dead = true
				h.classes["impl-panic"] = true
			}
		}()
		return f()
	}()
	h.record(op, obs)
}

// guard checks the linked lists before an operation that walks them.
func (h *hist) guard() bool {
	if h.dead {
		return false
	}
	d := takeDump(h.ce)
	if c := d.corrupt(); c != "" {
		h.record("ODump", d.String())
		h.dead = true
		h.goViol = c
		return false
	}
	return true
}

func exOp(kind string, s int, e exemplar.Exemplar) string {
	return fmt.Sprintf("%s %d %s", kind, s, exStr(e))
}

func (h *hist) classifyAdd(s int, e exemplar.Exemplar, d dump, err error, after dump) {
	if err != nil {
		h.classes["add-"+errStr(err)] = true
	}
	ch := d.chain(s)
	if len(ch) > 0 {
		newest := ch[len(ch)-1].Ex
		// does the int64 subtraction newest.Ts - window wrap, and does it decide?
		diff := new(big.Int).Sub(big.NewInt(newest.Ts), big.NewInt(h.win))
		if !diff.IsInt64() && e.Ts < newest.Ts {
			h.wrap = true
		}
	}
	if err != nil {
		return
	}
	liveBefore, liveAfter := 0, 0
	for _, sl := range d.slots {
		if sl.Live {
			liveBefore++
		}
	}
	for _, sl := range after.slots {
		if sl.Live {
			liveAfter++
		}
	}
	stored := after.next != d.next || (len(d.slots) == 1 && !(len(ch) > 0 && ch[len(ch)-1].Ex.Equals(e)))
	if !stored {
		if len(ch) > 0 && ch[len(ch)-1].Ex.Equals(e) {
			h.classes["add-duplicate-noop"] = true
		} else {
			h.classes["add-mid-equal-ts-drop"] = true
		}
		return
	}
	ev := d.slots[d.next]
	if ev.Live {
		h.classes["evict"] = true
		if sid(ev.Series) == s {
			h.classes["evict-same-series"] = true
			if len(ch) == 1 {
				h.classes["evict-last-of-same-series"] = true
			}
		} else if len(d.chain(sid(ev.Series))) == 1 {
			h.classes["evict-empties-other-series"] = true
		}
	}
	switch {
	case len(ch) == 0:
		h.classes["add-new-series"] = true
	case e.Ts >= ch[len(ch)-1].Ex.Ts:
		if e.Ts == ch[len(ch)-1].Ex.Ts {
			h.classes["add-equal-ts-tip"] = true
		} else {
			h.classes["add-in-order"] = true
		}
	case e.Ts < ch[0].Ex.Ts:
		h.classes["add-ooo-before-oldest"] = true
	default:
		h.classes["add-ooo-middle"] = true
		// anchor = last element with Ts <= e.Ts; is it the evicted slot?
		if ev.Live && sid(ev.Series) == s {
			anchor := ch[0]
			for _, c := range ch {
				if c.Ex.Ts <= e.Ts {
					anchor = c
				}
			}
			if anchor.Ex.Equals(ev.Ex) && anchor.Next == ev.Next && anchor.Prev == ev.Prev {
				h.classes["add-ooo-anchor-evicted"] = true
			}
		}
	}
}

func (h *hist) add(s int, e exemplar.Exemplar) {
	if !h.guard() {
		return
	}
	before := takeDump(h.ce)
	var err error
	h.do(exOp("OAdd", s, e), func() string {
		err = h.ce.AddExemplar(series[s], e)
		return "BErr " + errStr(err)
	})
	if h.dead {
		return
	}
	h.tried = append(h.tried, tried{s, e})
	if err == nil && e.Ts > h.maxTs[s] {
		h.maxTs[s] = e.Ts
	}
	h.classifyAdd(s, e, before, err, takeDump(h.ce))
}

func (h *hist) validate(s int, e exemplar.Exemplar) {
	if !h.guard() {
		return
	}
	before := takeDump(h.ce)
	h.do(exOp("OValidate", s, e), func() string {
		err := h.ce.ValidateExemplar(series[s], e)
		if ch := before.chain(s); len(ch) > 0 {
			newest := ch[len(ch)-1].Ex
			if !new(big.Int).Sub(big.NewInt(newest.Ts), big.NewInt(h.win)).IsInt64() && e.Ts < newest.Ts {
				h.wrap = true
			}
		}
		h.classes["validate-"+errStr(err)] = true
		return "BErr " + errStr(err)
	})
}

func (h *hist) resize(l int64) {
	if !h.guard() {
		return
	}
	old := int64(len(takeDump(h.ce).slots))
	h.do("OResize "+z(l), func() string {
		m := h.ce.Resize(l)
		return "BInt " + z(int64(m))
	})
	ll := l
	if ll < 0 {
		ll = 0
	}
	switch {
	case ll == old:
		h.classes["resize-same"] = true
	case ll > old:
		h.classes["resize-grow"] = true
	case ll == 0:
		h.classes["resize-to-zero"] = true
	default:
		h.classes["resize-shrink"] = true
	}
}

func (h *hist) setWin(d int64) {
	h.do("OSetWin "+z(d), func() string {
		h.ce.SetOutOfOrderTimeWindow(d)
		h.win = d
		return "BUnit"
	})
}

func (h *hist) sel(lo, hi int64, m mset) {
	if !h.guard() {
		return
	}
	h.do(fmt.Sprintf("OSelect %s %s %s", z(lo), z(hi), gallina.List(mapZ(m.matched()))), func() string {
		res, err := h.ce.Select(lo, hi, m.ms...)
		if err != nil {
			panic(err)
		}
		it := make([]string, len(res))
		for i, r := range res {
			ex := make([]string, len(r.Exemplars))
			for j, e := range r.Exemplars {
				ex[j] = exStr(e)
			}
			it[i] = fmt.Sprintf("(%d, %s)", sid(r.SeriesLabels), gallina.List(ex))
			if len(r.Exemplars) > 1 {
				h.classes["select-multi"] = true
			}
		}
		if len(res) > 0 {
			h.classes["select-nonempty"] = true
		} else {
			h.classes["select-empty"] = true
		}
		return "BSel " + gallina.List(it)
	})
}

func mapZ(v []int64) []string {
	r := make([]string, len(v))
	for i, x := range v {
		r[i] = z(x)
	}
	return r
}

func (h *hist) iter() {
	if h.dead {
		return
	}
	h.do("OIter", func() string {
		var it []string
		err := h.ce.IterateExemplars(func(l labels.Labels, e exemplar.Exemplar) error {
			it = append(it, fmt.Sprintf("(%d, %s)", sid(l), exStr(e)))
			return nil
		})
		if err != nil {
			panic(err)
		}
		return "BIter " + gallina.List(it)
	})
}

func (h *hist) dump() {
	if h.dead {
		return
	}
	h.do("ODump", func() string { return takeDump(h.ce).String() })
}

func (h *hist) finish() {
	h.dump()
	h.iter()
	if h.guard() {
		h.sel(math.MinInt64, math.MaxInt64, msets[0])
	}
	if h.head != nil {
		h.head.Close()
		os.RemoveAll(h.dir)
	}
}

// ---------------------------------------------------------------- head appender entry points
var outDir string

// newHeadHist opens a real Head (no WAL) with exemplar storage enabled and creates nser series.
func newHeadHist(l, w int64, nser int, stream string) *hist {
	dir, err := os.MkdirTemp(outDir, "head")
	if err != nil {
		panic(err)
	}
	opts := tsdb.DefaultHeadOptions()
	opts.ChunkRange = 1_000_000_000
	opts.ChunkDirRoot = dir
	opts.EnableExemplarStorage = true
	opts.MaxExemplars.Store(l)
	opts.OutOfOrderTimeWindow.Store(w)
	hd, err := tsdb.NewHead(nil, nil, nil, nil, opts, nil)
	if err != nil {
		panic(err)
	}
	if err := hd.Init(0); err != nil {
		panic(err)
	}
	q, err := hd.ExemplarQuerier(context.Background())
	if err != nil {
		panic(err)
	}
	h := &hist{ce: q.(*tsdb.CircularExemplarStorage), classes: map[string]bool{}, maxTs: map[int]int64{}}
	h.head, h.dir, h.sampleT = hd, dir, 2000
	h.d = desc{Len: l, Win: w, Stream: stream}
	h.win = w
	app := hd.Appender(context.Background())
	for s := 0; s < nser; s++ {
		if _, err := app.Append(0, series[s], 1000, 1); err != nil {
			panic(err)
		}
	}
	if err := app.Commit(); err != nil {
		panic(err)
	}
	return h
}

// headAdd sends the exemplars through one head appender (v1: AppendExemplar per exemplar,
// v2: one Append of a sample with AOptions.Exemplars) and commits.
func (h *hist) headAdd(v2 bool, s int, es []exemplar.Exemplar) {
	if !h.guard() {
		return
	}
	it := make([]string, len(es))
	for i, e := range es {
		it[i] = "HE " + exStr(e)
		if e.Labels.Len() != e.Labels.WithoutEmpty().Len() {
			h.classes["head-empty-valued-label"] = true
		}
	}
	before := takeDump(h.ce)
	if ch := before.chain(s); len(ch) > 0 {
		for _, e := range es {
			n := e
			n.Labels = e.Labels.WithoutEmpty()
			if ch[len(ch)-1].Ex.Equals(n) {
				h.classes["head-duplicate-of-newest"] = true
				if n.Labels.Len() != e.Labels.Len() {
					h.classes["head-duplicate-of-newest-with-empty-label"] = true
				}
			}
		}
	}
	var accepted []exemplar.Exemplar
	h.do(fmt.Sprintf("HHead %s %d %s", gallina.Bool(v2), s, gallina.List(it)), func() string {
		var errs []string
		ctx := context.Background()
		if v2 {
			h.classes["head-v2"] = true
			app := h.head.AppenderV2(ctx)
			h.sampleT++
			_, err := app.Append(0, series[s], 0, h.sampleT, 1, nil, nil, storage.AOptions{Exemplars: es})
			if err != nil {
				var pe *storage.AppendPartialError
				if !errors.As(err, &pe) {
					panic(err)
				}
				for _, x := range pe.ExemplarErrors {
					errs = append(errs, errStr(x))
				}
			}
			if err := app.Commit(); err != nil {
				panic(err)
			}
		} else {
			h.classes["head-v1"] = true
			app := h.head.Appender(ctx)
			for _, e := range es {
				if _, err := app.AppendExemplar(0, series[s], e); err != nil {
					errs = append(errs, errStr(err))
				}
			}
			if err := app.Commit(); err != nil {
				panic(err)
			}
		}
		for _, x := range errs {
			h.classes["head-err-"+x] = true
		}
		if len(errs) == 0 {
			accepted = es
		}
		return "BErrs " + gallina.List(errs)
	})
	if h.dead {
		return
	}
	for _, e := range es {
		n := e
		n.Labels = e.Labels.WithoutEmpty()
		h.tried = append(h.tried, tried{s, n})
	}
	for _, e := range accepted {
		if e.Ts > h.maxTs[s] {
			h.maxTs[s] = e.Ts
		}
	}
	after := takeDump(h.ce)
	if after.next != before.next && before.slots[before.next].Live {
		h.classes["evict"] = true
	}
}

// withEmpty replaces the label set by one with an extra empty-valued label, when the universe has one.
func withEmpty(r *gen.Rand, e exemplar.Exemplar) exemplar.Exemplar {
	if v := rawOf[exLabID[e.Labels.String()]]; len(v) > 0 {
		e.Labels = exLabs[gen.Pick(r, v)]
	}
	return e
}

func genHead(r *gen.Rand) *hist {
	l := gen.Pick(r, []int64{1, 2, 3, 3, 4, 6})
	w := gen.Pick(r, []int64{0, 10, 30, 100})
	nser := 1 + r.Intn(3)
	h := newHeadHist(l, w, nser, "head")
	n := int(r.Range(12, 40))
	for i := 0; i < n && !h.dead; i++ {
		switch k := r.Intn(100); {
		case k < 76:
			cnt := 1
			if r.Chance(1, 4) {
				cnt = 2 + r.Intn(2)
			}
			s := r.Intn(nser)
			var es []exemplar.Exemplar
			for j := 0; j < cnt; j++ {
				var e exemplar.Exemplar
				ch := takeDump(h.ce).chain(s)
				switch m := r.Intn(10); {
				case m < 2 && len(ch) > 0: // exact duplicate of the newest retained exemplar
					e = ch[len(ch)-1].Ex
				case m < 3 && len(es) > 0: // duplicate inside the batch
					e = es[len(es)-1]
				case m < 5: // label set at the limit
					_, e = h.nextAdd(r, nser, h.win)
					e.Labels = exLabs[gen.Pick(r, []int{8, 9, 10, 11, 13})]
				default:
					_, e = h.nextAdd(r, nser, h.win)
				}
				if r.Chance(1, 2) {
					e = withEmpty(r, e)
				} else if r.Chance(1, 8) {
					e.Labels = exLabs[gen.Pick(r, emptyVariants)]
				}
				es = append(es, e)
			}
			h.headAdd(r.Bool(), s, es)
		case k < 86:
			lo := r.Range(60, 140)
			hi := lo + r.Range(-2, 40)
			if r.Chance(1, 3) {
				lo, hi = math.MinInt64, math.MaxInt64
			}
			h.sel(lo, hi, gen.Pick(r, msets))
		case k < 90:
			h.iter()
		case k < 95:
			h.dump()
		default:
			h.resize(r.Range(1, 6))
		}
	}
	h.finish()
	return h
}

func corpusHead() []*hist {
	var out []*hist
	E := func(lab labels.Labels, v float64, ts int64) exemplar.Exemplar {
		return exemplar.Exemplar{Labels: lab, Value: v, Ts: ts, HasTs: true}
	}
	b := labels.FromStrings("trace_id", "b")
	bE := labels.FromStrings("span_id", "", "trace_id", "b")
	x128 := labels.FromStrings("trace_id", strings.Repeat("x", 120))
	x128E := labels.FromStrings("span_id", "", "trace_id", strings.Repeat("x", 120))
	for _, v2 := range []bool{false, true} {
		// duplicate of the newest with an extra empty-valued label: silent no-op through either entry point
		h := newHeadHist(2, 10, 1, "corpus")
		h.d.Corpus = fmt.Sprintf("head-empty-label-duplicate-v2=%v", v2)
		h.headAdd(v2, 0, []exemplar.Exemplar{E(labels.FromStrings("trace_id", "a"), 1, 90)})
		h.headAdd(v2, 0, []exemplar.Exemplar{E(b, 1, 100)})
		h.headAdd(v2, 0, []exemplar.Exemplar{E(bE, 1, 100)})
		h.headAdd(!v2, 0, []exemplar.Exemplar{E(bE, 1, 100)})
		h.sel(0, 200, msets[0])
		// exactly 128 runes plus an empty-valued label: accepted, stored without the empty label
		h.headAdd(v2, 0, []exemplar.Exemplar{E(x128E, 1, 110)})
		h.headAdd(v2, 0, []exemplar.Exemplar{E(x128, 1, 110), E(x128E, 2, 111), E(x128E, 2, 111)})
		h.finish()
		out = append(out, h)
	}
	return out
}

// ---------------------------------------------------------------- generators
var nan = math.NaN()

func randEx(r *gen.Rand, ts int64) exemplar.Exemplar {
	lab := exLabs[1+r.Intn(6)]
	switch r.Intn(14) {
	case 0:
		lab = exLabs[0]
	case 1:
		lab = exLabs[7+r.Intn(len(exLabs)-7)] // around the length limit
	}
	v := float64(r.Range(0, 3))
	if r.Chance(1, 25) {
		v = nan
	}
	return exemplar.Exemplar{Labels: lab, Value: v, Ts: ts, HasTs: !r.Chance(1, 6)}
}

// nextAdd chooses a series and an exemplar steered towards the case splits of validate/add.
func (h *hist) nextAdd(r *gen.Rand, nser int, win int64) (int, exemplar.Exemplar) {
	s := r.Intn(nser)
	base := h.maxTs[s]
	if _, ok := h.maxTs[s]; !ok {
		base = r.Range(90, 110)
	}
	k := r.Intn(100)
	switch {
	case k < 30: // in order
		return s, randEx(r, base+r.Range(0, 6))
	case k < 45 && len(h.tried) > 0: // variation of something tried before
		t := h.tried[r.Intn(len(h.tried))]
		e := t.e
		switch r.Intn(6) {
		case 0: // exact duplicate
		case 1:
			e.Value += float64(r.Range(-1, 1))
		case 2:
			e.Labels = exLabs[1+r.Intn(6)]
		case 3:
			e.Ts += r.Range(-1, 1)
		case 4:
			e.HasTs = !e.HasTs
		case 5:
			e.Ts += r.Range(-3, 3)
			e.HasTs = false
		}
		return t.s, e
	case k < 75: // out of order, inside the window
		w := win
		if w < 2 {
			w = 2
		}
		return s, randEx(r, base-r.Range(1, w-1))
	case k < 85: // around the window edge
		return s, randEx(r, base-win+r.Range(-1, 1))
	case k < 90: // far too old
		return s, randEx(r, base-win-r.Range(1, 50))
	default: // equal timestamp as the newest
		return s, randEx(r, base)
	}
}

func genHistory(r *gen.Rand, stream string) *hist {
	caps := []int64{0, 1, 2, 3, 3, 4, 4, 5, 6, 8, 12, -1}
	wins := []int64{0, 1, 3, 10, 10, 30, 30, 100, 1000, -5}
	l, w := gen.Pick(r, caps), gen.Pick(r, wins)
	h := newHist(l, w, stream)
	nser := 1 + r.Intn(4)
	if r.Chance(1, 3) {
		nser = 1 // long single-series lists exercise the linked list most
	}
	n := int(r.Range(15, 70))
	for i := 0; i < n && !h.dead; i++ {
		k := r.Intn(100)
		switch {
		case k < 68:
			s, e := h.nextAdd(r, nser, h.win)
			h.add(s, e)
			if r.Chance(1, 4) {
				h.dump()
			}
		case k < 74:
			s, e := h.nextAdd(r, nser, h.win)
			h.validate(s, e)
		case k < 82:
			cur := int64(len(takeDump(h.ce).slots))
			var nl int64
			switch r.Intn(7) {
			case 0:
				nl = 0
			case 1:
				nl = cur - 1
			case 2:
				nl = cur + 1
			case 3:
				nl = cur
			case 4:
				nl = -3
			default:
				nl = r.Range(0, 12)
			}
			h.resize(nl)
			h.dump()
		case k < 84:
			h.setWin(gen.Pick(r, wins))
		case k < 94:
			lo := r.Range(60, 140)
			hi := lo + r.Range(-2, 40)
			if r.Chance(1, 5) {
				lo, hi = math.MinInt64, math.MaxInt64
			}
			h.sel(lo, hi, gen.Pick(r, msets))
		case k < 97:
			h.iter()
		default:
			h.dump()
		}
	}
	h.finish()
	return h
}

// long stream: one or two series, larger ring, many out-of-order insertions (long linked lists)
func genLong(r *gen.Rand) *hist {
	l := r.Range(8, 24)
	h := newHist(l, gen.Pick(r, []int64{50, 200, 1000}), "long")
	nser := 1 + r.Intn(2)
	n := int(r.Range(80, 160))
	for i := 0; i < n && !h.dead; i++ {
		switch k := r.Intn(100); {
		case k < 85:
			s, e := h.nextAdd(r, nser, h.win)
			h.add(s, e)
		case k < 90:
			h.resize(r.Range(4, 28))
		case k < 97:
			lo := r.Range(0, 200)
			h.sel(lo, lo+r.Range(0, 100), msets[0])
		default:
			h.dump()
		}
	}
	h.finish()
	return h
}

// boundary stream: timestamps and windows at the int64 extremes
func genBoundary(r *gen.Rand) *hist {
	l := r.Range(1, 4)
	wins := []int64{0, 1, 10, math.MaxInt64, math.MaxInt64 - 1, 1 << 62}
	h := newHist(l, gen.Pick(r, wins), "boundary")
	pts := []int64{math.MinInt64, math.MinInt64 + 1, math.MinInt64 + 5, -1, 0, 1, math.MaxInt64 - 5, math.MaxInt64 - 1, math.MaxInt64}
	lowOnly := r.Chance(1, 2) // half of the histories stay clear of MinInt64+window (no int64 wrap possible)
	n := int(r.Range(6, 25))
	for i := 0; i < n && !h.dead; i++ {
		ts := gen.Pick(r, pts)
		if lowOnly && ts < -1 {
			ts = r.Range(-3, 3)
		}
		switch r.Intn(10) {
		case 0:
			h.sel(gen.Pick(r, pts), gen.Pick(r, pts), msets[0])
		case 1:
			h.validate(0, randEx(r, ts))
		case 2:
			h.resize(r.Range(0, 5))
		default:
			h.add(r.Intn(2), randEx(r, ts))
		}
	}
	h.finish()
	return h
}

// corpus: fixed histories, always first
func corpus() []*hist {
	var out []*hist
	E := func(lab int, v float64, ts int64) exemplar.Exemplar {
		return exemplar.Exemplar{Labels: exLabs[lab], Value: v, Ts: ts, HasTs: true}
	}
	// 1. out-of-order insertion whose anchor is the slot being evicted (self-loop regression)
	h := newHist(3, 100, "corpus")
	h.d.Corpus = "ooo-anchor-evicted"
	h.add(0, E(1, 1, 100))
	h.add(0, E(1, 1, 110))
	h.add(0, E(1, 1, 120))
	h.add(0, E(1, 1, 105)) // evicts ts=100 which is the anchor
	h.dump()
	h.add(0, E(1, 1, 115))
	h.finish()
	out = append(out, h)
	// 2. index overwrite: a series loses its last exemplar to another series and comes back
	h = newHist(2, 0, "corpus")
	h.d.Corpus = "index-overwrite"
	h.add(0, E(1, 1, 1))
	h.add(1, E(1, 1, 2))
	h.add(1, E(1, 1, 3))
	h.add(0, E(1, 1, 4))
	h.sel(0, 10, msets[0])
	h.finish()
	out = append(out, h)
	// 3. resize: not full, shrink, grow, shrink to zero, grow again
	h = newHist(5, 10, "corpus")
	h.d.Corpus = "resize-sequence"
	for i := int64(0); i < 3; i++ {
		h.add(int(i%2), E(1, float64(i), 100+i))
	}
	h.resize(2)
	h.dump()
	h.add(0, E(2, 1, 104))
	h.resize(6)
	h.dump()
	h.add(1, E(2, 1, 101))
	h.resize(0)
	h.add(1, E(2, 1, 102))
	h.resize(3)
	h.add(1, E(2, 1, 103))
	h.finish()
	out = append(out, h)
	// 4. equal timestamps ordered by value then label hash; duplicates; middle equal-ts drop
	h = newHist(8, 50, "corpus")
	h.d.Corpus = "equal-timestamps"
	h.add(0, E(1, 1, 100))
	h.add(0, E(1, 2, 100))
	h.add(0, E(2, 2, 100))
	h.add(0, E(1, 2, 100))
	h.add(0, E(3, 2, 100))
	h.add(0, E(1, 1, 100))
	h.add(0, E(1, 5, 120))
	h.add(0, E(4, 9, 100)) // strictly inside, same ts as retained ones -> dropped silently
	h.add(0, E(4, 9, 110))
	h.add(0, E(5, 9, 110)) // dropped silently
	h.add(0, E(4, 9, 90))
	h.finish()
	out = append(out, h)
	// 5. regression (fixed defect): newest.Ts - window is below MinInt64; the exemplar is inside the window
	h = newHist(3, 10, "corpus")
	h.d.Corpus = "window-near-minint64"
	h.add(0, E(1, 1, math.MinInt64+5))
	h.add(0, E(1, 1, math.MinInt64+2))
	h.add(0, E(1, 1, math.MinInt64+5))
	h.finish()
	out = append(out, h)
	// 6. same with a negative window set later, and a huge window
	h = newHist(3, math.MaxInt64, "corpus")
	h.d.Corpus = "window-extremes"
	h.add(0, E(1, 1, math.MaxInt64))
	h.add(0, E(1, 1, math.MinInt64))
	h.add(0, E(1, 1, 0))
	h.setWin(-7)
	h.add(0, E(2, 1, math.MaxInt64-1))
	h.setWin(math.MinInt64)
	h.add(0, E(2, 1, math.MaxInt64-2))
	h.finish()
	out = append(out, h)
	return out
}

func main() {
	f := gallina.ParseFlags()
	outDir = f.Out
	initUniverses()
	initMatchers()
	meta := gallina.NewMeta("C21", f.Seed, f.Tier)
	meta.Rule = "one evaluation = one history (15-70 operations) on a real CircularExemplarStorage; streams: fixed corpus, head (a real Head with exemplar storage: exemplars sent through Appender.AppendExemplar+Commit and AppenderV2.Append(AOptions.Exemplars)+Commit, 1-3 per appender, label sets with empty-valued labels, at 127/128/129 runes with and without an extra empty label, duplicates of the newest with/without an extra empty label), long (1-2 series, ring 8-24, 80-160 operations), bounded-exhaustive (thorough tier: all 4-operation histories over a 6-symbol alphabet for capacities 2 and 3), structured (adds steered to in-order / equal timestamp / out-of-order inside, at the edge of and beyond the window / duplicates / variations of earlier exemplars / label sets around 128 runes, resize to 0, -1, +-1, random, window changes, selects with several matcher sets, iterate, dumps), boundary (timestamps and windows at the int64 extremes); non-trivial = the history stores an exemplar out of order or evicts or resizes a non-empty ring; distinct by the printed operation list"
	cf := &gallina.CaseFile{Dir: f.Out, Type: "case", PerShard: 40, Preamble: preamble(), Footer: gallina.StdFooter}
	id := 0
	seen := map[string]bool{}
	emit := func(h *hist) {
		key := fmt.Sprint(h.d.Len, h.d.Win, h.ops)
		if seen[key] {
			return
		}
		seen[key] = true
		for c := range h.classes {
			meta.Hit(c)
		}
		meta.Hit("stream-" + h.d.Stream)
		if h.classes["add-ooo-middle"] || h.classes["add-ooo-before-oldest"] || h.classes["evict"] || h.classes["resize-shrink"] || h.classes["resize-grow"] {
			meta.Nontrivial++
		}
		h.d.Shape = "history"
		if h.wrap {
			// newest.Ts - window is not an int64 and the age rule decided (regression class of the
			// fixed defect "window check overflows near MinInt64"); an ordinary case
			meta.Hit("window-beyond-int64")
		}
		if h.goViol != "" {
			h.d.Shape = "corrupt-list"
			meta.GoViol = append(meta.GoViol, gallina.GoViolation{ID: fmt.Sprint(id), Shape: "corrupt-list", What: h.goViol})
		}
		cf.Add(fmt.Sprintf("mkCase %d %s %s\n %s\n %s", id, z(h.d.Len), z(h.d.Win), gallina.List(h.ops), gallina.List(h.obs)))
		meta.Case(id, h.d)
		meta.Evaluations++
		id++
	}
	for _, h := range corpus() {
		emit(h)
	}
	for _, h := range corpusHead() {
		emit(h)
	}
	n := f.Count(300, 1000)
	for i := 0; i < n; i++ {
		r := gen.Fork(f.Seed, i)
		switch {
		case i%10 == 9:
			emit(genBoundary(r))
		case i%25 == 7:
			emit(genLong(r))
		case i%5 == 3:
			emit(genHead(r))
		default:
			emit(genHistory(r, "structured"))
		}
	}
	if f.Tier == "thorough" {
		// bounded-exhaustive: every history of 4 operations over a 6-symbol alphabet, capacities 2 and 3
		E := func(ts int64) exemplar.Exemplar {
			return exemplar.Exemplar{Labels: exLabs[1], Value: 1, Ts: ts, HasTs: true}
		}
		syms := []func(h *hist){
			func(h *hist) { h.add(0, E(1)) }, func(h *hist) { h.add(0, E(2)) }, func(h *hist) { h.add(0, E(3)) },
			func(h *hist) { h.add(1, E(2)) }, func(h *hist) { h.resize(1) }, func(h *hist) { h.resize(3) },
		}
		for _, c := range []int64{2, 3} {
			for code := 0; code < 6*6*6*6; code++ {
				h := newHist(c, 10, "exhaustive")
				for k, x := 0, code; k < 4; k, x = k+1, x/6 {
					syms[x%6](h)
				}
				h.finish()
				emit(h)
			}
		}
	}
	cf.Flush()
	meta.Write(f.Out)
}

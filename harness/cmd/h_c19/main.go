// h_c19: correspondence harness for C19 (storage/merge.go).
// Drives the real storage.ChainedSeriesMerge / NewMergeSeriesSet / NewCompactingChunkSeriesMerger /
// NewConcatenatingChunkSeriesMerger on generated inputs (list series from storage.NewListSeries,
// real XOR / histogram / float-histogram chunks from chunks.ChunkFromSamples), records every
// observation (value type, timestamp, value id, chunk boundaries, panics) and writes the cases
// for Coq (corr/CorrC19.v).
package main

import (
	"fmt"
	"math"
	"sort"
	"strings"

	"github.com/prometheus/prometheus/model/histogram"
	"github.com/prometheus/prometheus/model/labels"
	"github.com/prometheus/prometheus/storage"
	"github.com/prometheus/prometheus/tsdb/chunkenc"
	"github.com/prometheus/prometheus/tsdb/chunks"
	"github.com/prometheus/prometheus/util/annotations"

	"verif/harness/internal/gallina"
	"verif/harness/internal/gen"
)

// ---------------------------------------------------------------- samples

// S is a model sample: timestamp, value type (1 float, 2 histogram, 3 float histogram), value id.
type S struct {
	T int64 `json:"t"`
	K int   `json:"k"`
	V int64 `json:"v"`
}

type smp struct {
	t  int64
	f  float64
	h  *histogram.Histogram
	fh *histogram.FloatHistogram
}

func (s smp) T() int64                      { return s.t }
func (s smp) ST() int64                     { return 0 }
func (s smp) F() float64                    { return s.f }
func (s smp) H() *histogram.Histogram       { return s.h }
func (s smp) FH() *histogram.FloatHistogram { return s.fh }
func (s smp) Type() chunkenc.ValueType {
	switch {
	case s.h != nil:
		return chunkenc.ValHistogram
	case s.fh != nil:
		return chunkenc.ValFloatHistogram
	}
	return chunkenc.ValFloat
}
func (s smp) Copy() chunks.Sample { return s }

// gauge histograms of one fixed bucket layout: appending never cuts a chunk by itself and the
// chain iterator leaves the counter-reset hint alone; the value id is carried by Sum.
func mkH(id int64) *histogram.Histogram {
	return &histogram.Histogram{CounterResetHint: histogram.GaugeType, Schema: 0, Count: uint64(id) + 1, Sum: float64(id),
		ZeroThreshold: 0.001, ZeroCount: uint64(id),
		PositiveSpans: []histogram.Span{{Offset: 0, Length: 1}}, PositiveBuckets: []int64{1}}
}

func mkFH(id int64) *histogram.FloatHistogram {
	return &histogram.FloatHistogram{CounterResetHint: histogram.GaugeType, Schema: 0, Count: float64(id) + 1, Sum: float64(id),
		ZeroThreshold: 0.001, ZeroCount: float64(id),
		PositiveSpans: []histogram.Span{{Offset: 0, Length: 1}}, PositiveBuckets: []float64{1}}
}

// counter (non-gauge) float histogram: a lower id after a higher one is a counter reset, at which
// the float histogram appender starts a new chunk.
func mkCounterFH(id int64) *histogram.FloatHistogram {
	h := mkFH(id)
	h.CounterResetHint = histogram.UnknownCounterReset
	return h
}

func toSamplesCounter(l []S) []chunks.Sample {
	r := make([]chunks.Sample, len(l))
	for i, s := range l {
		r[i] = smp{t: s.T, fh: mkCounterFH(s.V)}
	}
	return r
}

func toSample(s S) chunks.Sample {
	switch s.K {
	case 2:
		return smp{t: s.T, h: mkH(s.V)}
	case 3:
		return smp{t: s.T, fh: mkFH(s.V)}
	}
	return smp{t: s.T, f: float64(s.V)}
}

func toSamples(l []S) []chunks.Sample {
	r := make([]chunks.Sample, len(l))
	for i, s := range l {
		r[i] = toSample(s)
	}
	return r
}

func readCur(it chunkenc.Iterator, vt chunkenc.ValueType) S {
	switch vt {
	case chunkenc.ValHistogram:
		t, h := it.AtHistogram(nil)
		return S{t, 2, int64(h.Sum)}
	case chunkenc.ValFloatHistogram:
		t, h := it.AtFloatHistogram(nil)
		return S{t, 3, int64(h.Sum)}
	}
	t, f := it.At()
	return S{t, 1, int64(f)}
}

// ---------------------------------------------------------------- scripts and observations

type Op struct {
	Seek bool  `json:"seek,omitempty"`
	T    int64 `json:"t,omitempty"`
}

// Ob: "none", "panic" or a sample.
type Ob struct {
	Kind string `json:"o"`
	S    *S     `json:"s,omitempty"`
}

func runOp(it chunkenc.Iterator, o Op) (ob Ob) {
	defer func() {
		if r := recover(); r != nil {
			ob = Ob{Kind: "panic"}
		}
	}()
	var vt chunkenc.ValueType
	if o.Seek {
		vt = it.Seek(o.T)
	} else {
		vt = it.Next()
	}
	if vt == chunkenc.ValNone {
		return Ob{Kind: "none"}
	}
	s := readCur(it, vt)
	if at := it.AtT(); at != s.T {
		panic(fmt.Sprintf("AtT %d differs from At %d", at, s.T))
	}
	return Ob{Kind: "sample", S: &s}
}

func runScript(it chunkenc.Iterator, script []Op) []Ob {
	r := make([]Ob, 0, len(script))
	for _, o := range script {
		r = append(r, runOp(it, o))
	}
	return r
}

// ---------------------------------------------------------------- Gallina printers

func gS(s S) string { return fmt.Sprintf("mkS %s %d %s", gallina.Z(s.T), s.K, gallina.Z(s.V)) }
func gSL(l []S) string {
	it := make([]string, len(l))
	for i, s := range l {
		it[i] = gS(s)
	}
	return gallina.List(it)
}
func gSLL(l [][]S) string {
	it := make([]string, len(l))
	for i, s := range l {
		it[i] = gSL(s)
	}
	return gallina.List(it)
}
func gOps(l []Op) string {
	it := make([]string, len(l))
	for i, o := range l {
		if o.Seek {
			it[i] = "OSeek " + gallina.Z(o.T)
		} else {
			it[i] = "ONext"
		}
	}
	return gallina.List(it)
}
func gObs(l []Ob) string {
	it := make([]string, len(l))
	for i, o := range l {
		switch o.Kind {
		case "none":
			it[i] = "ObNone"
		case "panic":
			it[i] = "ObPanic"
		default:
			it[i] = "ObS (" + gS(*o.S) + ")"
		}
	}
	return gallina.List(it)
}

type Ser struct {
	L int `json:"l"` // rank of the label set under labels.Compare
	S []S `json:"s"`
}

type Chk struct {
	Min int64 `json:"min"`
	Max int64 `json:"max"`
	S   []S   `json:"s"`
}

func gChunks(l []Chk) string {
	it := make([]string, len(l))
	for i, c := range l {
		it[i] = fmt.Sprintf("mkC %s %s %s", gallina.Z(c.Min), gallina.Z(c.Max), gSL(c.S))
	}
	return gallina.List(it)
}

// ---------------------------------------------------------------- generators

type tsDom struct {
	lo, hi int64
	extra  []int64
}

// sorted timestamps (strictly increasing unless dupInside), n of them
func genTs(r *gen.Rand, d tsDom, n int, dupInside bool) []int64 {
	set := map[int64]int{}
	for i := 0; i < n; i++ {
		var t int64
		if len(d.extra) > 0 && r.Chance(1, 5) {
			t = gen.Pick(r, d.extra)
		} else {
			t = r.Range(d.lo, d.hi)
		}
		set[t]++
	}
	var ts []int64
	for t, c := range set {
		ts = append(ts, t)
		if dupInside && c > 1 {
			ts = append(ts, t)
		}
	}
	sort.Slice(ts, func(i, j int) bool { return ts[i] < ts[j] })
	return ts
}

func genKind(r *gen.Rand, mixed bool) int {
	if !mixed {
		return 1
	}
	return 1 + r.Intn(3)
}

func genSeries(r *gen.Rand, d tsDom, n int, mixed, dupInside bool) []S {
	ts := genTs(r, d, n, dupInside)
	l := make([]S, len(ts))
	k := genKind(r, mixed)
	for i, t := range ts {
		if mixed && r.Chance(1, 3) {
			k = genKind(r, true)
		}
		l[i] = S{T: t, K: k, V: int64(r.Intn(6))}
	}
	return l
}

func genScript(r *gen.Rand, d tsDom, n int, seekPct int) []Op {
	ops := make([]Op, 0, n)
	for i := 0; i < n; i++ {
		if r.Intn(100) < seekPct {
			var t int64
			switch {
			case len(d.extra) > 0 && r.Chance(1, 4):
				t = gen.Pick(r, d.extra)
				if r.Chance(1, 3) && t > math.MinInt64 {
					t--
				}
			case r.Chance(1, 12):
				t = r.PickI64(math.MinInt64, math.MaxInt64, math.MinInt64+1, math.MaxInt64-1)
			default:
				t = r.Range(d.lo-2, d.hi+2)
			}
			ops = append(ops, Op{Seek: true, T: t})
		} else {
			ops = append(ops, Op{})
		}
	}
	return ops
}

func drain(n int) []Op { return make([]Op, n) }

func union(inputs [][]S) []int64 {
	set := map[int64]bool{}
	for _, l := range inputs {
		for _, s := range l {
			set[s.T] = true
		}
	}
	ts := make([]int64, 0, len(set))
	for t := range set {
		ts = append(ts, t)
	}
	sort.Slice(ts, func(i, j int) bool { return ts[i] < ts[j] })
	return ts
}

// minInt64Dropped decides the known-finding shape from the input and the result: some input
// sample sits at MinInt64 and the ONLY timestamp missing from a Next-only drain is MinInt64.
func minInt64Dropped(inputs [][]S, nextOnly bool, got []int64) bool {
	if !nextOnly {
		return false
	}
	want := union(inputs)
	if len(want) == 0 || want[0] != math.MinInt64 {
		return false
	}
	rest := want[1:]
	if len(rest) != len(got) {
		return false
	}
	for i := range rest {
		if rest[i] != got[i] {
			return false
		}
	}
	return true
}

func obsTs(obs []Ob) []int64 {
	var ts []int64
	for _, o := range obs {
		if o.Kind == "sample" {
			ts = append(ts, o.S.T)
		}
	}
	return ts
}

func nextOnly(script []Op) bool {
	for _, o := range script {
		if o.Seek {
			return false
		}
	}
	return true
}

// ---------------------------------------------------------------- label pool

var labelPool []labels.Labels // sorted by labels.Compare: index = rank

func init() {
	pool := []labels.Labels{
		labels.EmptyLabels(),
		labels.FromStrings("a", "1"),
		labels.FromStrings("a", "1", "b", "x"),
		labels.FromStrings("a", "10"),
		labels.FromStrings("a", "2"),
		labels.FromStrings("b", "1"),
		labels.FromStrings("__name__", "m", "a", "1"),
		labels.FromStrings("aa", "1"),
		labels.FromStrings("a", "1", "b", "y"),
		labels.FromStrings("a", ""),
	}
	sort.Slice(pool, func(i, j int) bool { return labels.Compare(pool[i], pool[j]) < 0 })
	// drop label sets that compare equal (e.g. a="" is the empty set)
	for _, l := range pool {
		if len(labelPool) > 0 && labels.Compare(labelPool[len(labelPool)-1], l) == 0 {
			continue
		}
		labelPool = append(labelPool, l)
	}
}

func rankOf(l labels.Labels) int {
	for i, p := range labelPool {
		if labels.Equal(p, l) {
			return i
		}
	}
	return -1
}

// ---------------------------------------------------------------- a list-backed SeriesSet

type listSet struct {
	s []storage.Series
	i int
}

func (l *listSet) Next() bool                      { l.i++; return l.i <= len(l.s) }
func (l *listSet) At() storage.Series              { return l.s[l.i-1] }
func (*listSet) Err() error                        { return nil }
func (*listSet) Warnings() annotations.Annotations { return nil }

type listChunkSet struct {
	s []storage.ChunkSeries
	i int
}

func (l *listChunkSet) Next() bool                      { l.i++; return l.i <= len(l.s) }
func (l *listChunkSet) At() storage.ChunkSeries         { return l.s[l.i-1] }
func (*listChunkSet) Err() error                        { return nil }
func (*listChunkSet) Warnings() annotations.Annotations { return nil }

// ---------------------------------------------------------------- case kinds

type chainDesc struct {
	Kind   string `json:"kind"`
	Inputs [][]S  `json:"inputs"`
	Script []Op   `json:"script"`
	Obs    []Ob   `json:"obs"`
	Shape  string `json:"shape"`
	Corpus string `json:"corpus,omitempty"`
}

type setsDesc struct {
	Kind   string  `json:"kind"`
	Sets   [][]Ser `json:"sets"`
	Limit  int     `json:"limit"`
	Script []Op    `json:"script"`
	Labels []int   `json:"out_labels"`
	Shape  string  `json:"shape"`
	Corpus string  `json:"corpus,omitempty"`
	Reuse  int     `json:"reuse,omitempty"`
}

type chunksDesc struct {
	Kind       string  `json:"kind"`
	Compacting bool    `json:"compacting"`
	Its        [][]Chk `json:"its"`
	Out        []Chk   `json:"out"`
	Err        string  `json:"err,omitempty"`
	Shape      string  `json:"shape"`
	Corpus     string  `json:"corpus,omitempty"`
}

type H struct {
	meta *gallina.Meta
	cf   *gallina.CaseFile
	id   int
	seen map[string]bool
}

func (h *H) emit(term string, desc any, key string, nontrivial bool) {
	if h.seen[key] {
		h.meta.Hit("duplicate-skipped")
		return
	}
	h.seen[key] = true
	h.cf.Add(fmt.Sprintf("mkCase %s (%s)", gallina.Z(int64(h.id)), term))
	h.meta.Case(h.id, desc)
	h.meta.Evaluations++
	if nontrivial {
		h.meta.Nontrivial++
	}
	h.id++
}

func hasTies(inputs [][]S) (ties, mixedTies bool) {
	seen := map[int64]int{}
	for _, l := range inputs {
		for _, s := range l {
			if k, ok := seen[s.T]; ok {
				ties = true
				if k != s.K {
					mixedTies = true
				}
			} else {
				seen[s.T] = s.K
			}
		}
	}
	return
}

// chainSeq runs consecutive merged series on ONE iterator object:
// it = ChainedSeriesMerge(stage k ...).Iterator(it). Every stage is emitted as its own KChain
// case (the specification and the model know nothing about the object being reused).
type stage struct {
	inputs [][]S
	script []Op
}

func (h *H) chainSeq(stages []stage, corpus string) {
	var it chunkenc.Iterator
	ctx := ""
	for k, st := range stages {
		script := st.script
		if k > 0 {
			script = noMinSeekFirst(script)
		}
		ctx += fmt.Sprint(st.inputs, script, "|")
		name := ""
		if corpus != "" {
			name = fmt.Sprintf("%s#stage%d", corpus, k)
		}
		h.chainCaseOn(st.inputs, script, name, &it, ctx)
	}
}

func (h *H) chainCase(inputs [][]S, script []Op, corpus string) {
	h.chainCaseOn(inputs, script, corpus, nil, "")
}

func (h *H) chainCaseOn(inputs [][]S, script []Op, corpus string, reuse *chunkenc.Iterator, ctx string) {
	var it chunkenc.Iterator
	if len(inputs) == 0 {
		// ChainedSeriesMerge() of nothing is nil; the iterator itself can still be built empty.
		it = storage.ChainSampleIteratorFromIterators(nil, nil)
	} else {
		series := make([]storage.Series, len(inputs))
		for i, l := range inputs {
			series[i] = storage.NewListSeries(labels.FromStrings("a", "1"), toSamples(l))
		}
		var prev chunkenc.Iterator
		if reuse != nil {
			prev = *reuse
		}
		it = storage.ChainedSeriesMerge(series...).Iterator(prev)
		if reuse != nil {
			if prev != nil && it == prev {
				h.meta.Hit("chain-iterator-reused")
			}
			*reuse = it
		}
	}
	obs := runScript(it, script)
	ties, mixed := hasTies(inputs)
	class := fmt.Sprintf("chain-n%d", len(inputs))
	h.meta.Hit(class)
	if ties {
		h.meta.Hit("chain-ties")
	}
	if mixed {
		h.meta.Hit("chain-mixed-type-ties")
	}
	if !nextOnly(script) {
		h.meta.Hit("chain-with-seek")
	}
	shape := class
	if minInt64Dropped(inputs, nextOnly(script), obsTs(obs)) {
		shape = "chain-minint64-dropped"
		h.meta.Hit(shape)
	}
	term := fmt.Sprintf("KChain %s %s %s", gSLL(inputs), gOps(script), gObs(obs))
	h.emit(term, chainDesc{"chain", inputs, script, obs, shape, corpus}, "chain"+fmt.Sprint(inputs, script)+ctx, len(inputs) >= 2 && len(union(inputs)) > 1)
}

// isChain tells whether it is the storage package's chainSampleIterator (unexported type).
func isChain(it chunkenc.Iterator) bool {
	return fmt.Sprintf("%T", it) == "*storage.chainSampleIterator"
}

// noMinSeekFirst: a reused chainSampleIterator keeps its stale curr; a first Seek(MinInt64) would hit
// the no-op check against the MinInt64 sentinel (see notes) — kept out of the reuse scripts.
func noMinSeekFirst(script []Op) []Op {
	if len(script) > 0 && script[0].Seek && script[0].T == math.MinInt64 {
		c := append([]Op{}, script...)
		c[0].T = math.MinInt64 + 1
		return c
	}
	return script
}

func (h *H) setsCase(sets [][]Ser, limit int, script []Op, corpus string) {
	h.setsCaseReuse(sets, limit, script, corpus, 0)
}

// reuse: 0 = every merged series gets a fresh iterator (Iterator(nil)); 1 = the consumer passes the
// previous iterator back (it = s.Iterator(it), as the PromQL engine and remote read do);
// 2 = the last chainSampleIterator seen is passed back (reuse across interleaved single series).
func (h *H) setsCaseReuse(sets [][]Ser, limit int, script []Op, corpus string, reuse int) {
	if reuse != 0 {
		script = noMinSeekFirst(script)
	}
	ss := make([]storage.SeriesSet, len(sets))
	for i, set := range sets {
		ls := &listSet{}
		for _, s := range set {
			ls.s = append(ls.s, storage.NewListSeries(labelPool[s.L], toSamples(s.S)))
		}
		ss[i] = ls
	}
	m := storage.NewMergeSeriesSet(ss, limit, storage.ChainedSeriesMerge)
	var outs []string
	var outLabels []int
	shape := fmt.Sprintf("sets-n%d", len(sets))
	allMinDropped, anyFail := true, false
	var prevIt, chainIt chunkenc.Iterator
	reused := 0
	for m.Next() {
		s := m.At()
		rk := rankOf(s.Labels())
		var cur chunkenc.Iterator
		switch reuse {
		case 1:
			cur = s.Iterator(prevIt)
			if prevIt != nil && cur == prevIt {
				reused++
			}
			prevIt = cur
		case 2:
			cur = s.Iterator(chainIt)
			if chainIt != nil && cur == chainIt {
				reused++
			}
			if isChain(cur) {
				chainIt = cur
			}
		default:
			cur = s.Iterator(nil)
		}
		obs := runScript(cur, script)
		outs = append(outs, gallina.Pair(gallina.Z(int64(rk)), gObs(obs)))
		outLabels = append(outLabels, rk)
		// inputs of this label, for the known-finding shape
		var group [][]S
		for _, set := range sets {
			for _, x := range set {
				if x.L == rk {
					group = append(group, x.S)
				}
			}
		}
		want := union(group)
		got := obsTs(obs)
		if nextOnly(script) && len(script) > len(want) && fmt.Sprint(want) != fmt.Sprint(got) {
			anyFail = true
			if !minInt64Dropped(group, true, got) {
				allMinDropped = false
			}
		}
	}
	if m.Err() != nil {
		panic(m.Err())
	}
	if anyFail && allMinDropped {
		shape = "chain-minint64-dropped"
		h.meta.Hit(shape)
	}
	h.meta.Hit(fmt.Sprintf("sets-n%d", len(sets)))
	if limit > 0 {
		h.meta.Hit("sets-limit")
	}
	if reuse != 0 {
		h.meta.Hit("sets-iterator-passed-back")
	}
	if reused > 0 {
		h.meta.Hit("sets-chain-iterator-reused")
	}
	overlap := false
	seen := map[int]bool{}
	for _, set := range sets {
		for _, x := range set {
			if seen[x.L] {
				overlap = true
			}
			seen[x.L] = true
		}
	}
	if overlap {
		h.meta.Hit("sets-overlapping-labels")
	}
	var gsets []string
	for _, set := range sets {
		var it []string
		for _, s := range set {
			it = append(it, fmt.Sprintf("mkSer %d %s", s.L, gSL(s.S)))
		}
		gsets = append(gsets, gallina.List(it))
	}
	term := fmt.Sprintf("KSets %s %s %s %s", gallina.List(gsets), gallina.Z(int64(limit)), gOps(script), gallina.List(outs))
	h.emit(term, setsDesc{"sets", sets, limit, script, outLabels, shape, corpus, reuse}, "sets"+fmt.Sprint(sets, limit, script, reuse), overlap)
}

func decodeChunk(m chunks.Meta) Chk {
	c := Chk{Min: m.MinTime, Max: m.MaxTime}
	it := m.Chunk.Iterator(nil)
	for vt := it.Next(); vt != chunkenc.ValNone; vt = it.Next() {
		c.S = append(c.S, readCur(it, vt))
	}
	if it.Err() != nil {
		panic(it.Err())
	}
	return c
}

func (h *H) chunksCase(its [][]Chk, compacting bool, corpus string) {
	h.chunksCaseOpt(its, compacting, corpus, false)
}

// counterFH: all samples are float histograms (K = 3) encoded as counter histograms.
func (h *H) chunksCaseOpt(its [][]Chk, compacting bool, corpus string, counterFH bool) {
	h.chunksCaseFull(its, compacting, corpus, counterFH, false, nil)
}

// viaSet: the same inputs go through NewMergeChunkSeriesSet (one chunk series set per input,
// compacting merger) instead of the bare merger function, and additionally — as a companion
// KChain case — through the SAMPLE series sets of the same inputs
// (NewMergeSeriesSet over NewSeriesSetFromChunkSeriesSet(...), ChainedSeriesMerge), driven by script.
func (h *H) chunksCaseFull(its [][]Chk, compacting bool, corpus string, counterFH, viaSet bool, script []Op) {
	series := make([]storage.ChunkSeries, len(its))
	for i, l := range its {
		metas := make([]chunks.Meta, len(l))
		for j, c := range l {
			smpls := toSamples(c.S)
			if counterFH {
				smpls = toSamplesCounter(c.S)
			}
			m, err := chunks.ChunkFromSamples(smpls)
			if err != nil {
				panic(err)
			}
			// MinTime/MaxTime as ChunkFromSamples sets them (first/last sample)
			if m.MinTime != c.Min || m.MaxTime != c.Max {
				panic("chunk meta differs from the generated bounds")
			}
			metas[j] = m
		}
		ms := metas
		series[i] = &storage.ChunkSeriesEntry{Lset: labels.FromStrings("a", "1"),
			ChunkIteratorFn: func(chunks.Iterator) chunks.Iterator { return storage.NewListChunkSeriesIterator(ms...) }}
	}
	var out []Chk
	errS := ""
	func() {
		defer func() {
			if r := recover(); r != nil {
				errS = fmt.Sprint("panic: ", r)
			}
		}()
		var merged storage.ChunkSeries
		if len(series) == 0 {
			return
		}
		if compacting && viaSet {
			sets := make([]storage.ChunkSeriesSet, len(series))
			for i, cs := range series {
				sets[i] = &listChunkSet{s: []storage.ChunkSeries{cs}}
			}
			ms := storage.NewMergeChunkSeriesSet(sets, 0, storage.NewCompactingChunkSeriesMerger(storage.ChainedSeriesMerge))
			n := 0
			for ms.Next() {
				n++
				it := ms.At().Iterator(nil)
				for it.Next() {
					out = append(out, decodeChunk(it.At()))
				}
				if it.Err() != nil {
					errS = it.Err().Error()
				}
			}
			if ms.Err() != nil {
				errS = ms.Err().Error()
			}
			if n != 1 {
				errS = fmt.Sprintf("merged chunk series set returned %d series for one label set", n)
			}
			h.meta.Hit("chunks-via-merge-chunk-series-set")
			return
		}
		if compacting {
			merged = storage.NewCompactingChunkSeriesMerger(storage.ChainedSeriesMerge)(series...)
		} else {
			merged = storage.NewConcatenatingChunkSeriesMerger()(series...)
		}
		it := merged.Iterator(nil)
		for it.Next() {
			out = append(out, decodeChunk(it.At()))
		}
		if it.Err() != nil {
			errS = it.Err().Error()
		}
	}()
	class := "chunks-concat"
	if compacting {
		class = fmt.Sprintf("chunks-compact-n%d", len(its))
	}
	h.meta.Hit(class)
	nin := 0
	var all [][]S
	for _, l := range its {
		nin += len(l)
		for _, c := range l {
			all = append(all, c.S)
			if len(c.S) > 120 {
				h.meta.Hit("chunks-over-120-samples")
			}
		}
	}
	if compacting && errS == "" {
		switch {
		case len(out) < nin:
			h.meta.Hit("chunks-merged-or-collapsed")
		case len(out) > nin:
			h.meta.Hit("chunks-split-by-reencode")
		}
	}
	shape := class
	var got []int64
	for _, c := range out {
		for _, s := range c.S {
			got = append(got, s.T)
		}
	}
	if compacting && minInt64Dropped(all, true, got) {
		shape = "chain-minint64-dropped"
		h.meta.Hit(shape)
	}
	var gits []string
	for _, l := range its {
		gits = append(gits, gChunks(l))
	}
	obs := "None"
	if errS == "" {
		obs = gallina.Some(gChunks(out))
	} else {
		h.meta.Hit("chunks-error")
	}
	if counterFH {
		h.meta.Hit("chunks-counter-reset-float-histograms")
	}
	term := fmt.Sprintf("KChunks %s %s %s %s", gallina.Bool(compacting), gallina.Bool(!counterFH), gallina.List(gits), obs)
	h.emit(term, chunksDesc{"chunks", compacting, its, out, errS, shape, corpus}, "chunks"+fmt.Sprint(its, compacting, counterFH, viaSet), compacting && len(its) >= 2 && len(out) != nin)
	if viaSet && len(series) > 0 {
		// the sample series sets of the same inputs
		ssets := make([]storage.SeriesSet, len(series))
		inputs := make([][]S, len(its))
		for i, cs := range series {
			ssets[i] = storage.NewSeriesSetFromChunkSeriesSet(&listChunkSet{s: []storage.ChunkSeries{cs}})
			for _, c := range its[i] {
				inputs[i] = append(inputs[i], c.S...)
			}
		}
		ms := storage.NewMergeSeriesSet(ssets, 0, storage.ChainedSeriesMerge)
		if !ms.Next() {
			panic("merged sample series set is empty")
		}
		// Chunk-backed inputs: an exhausted XOR/histogram chunk iterator answers a later Seek(t) with
		// t <= its last timestamp by showing its last sample again (chunkenc, outside C19's anchors;
		// see notes), so the script stops at the first ValNone — callers do not use an iterator after it.
		cit := ms.At().Iterator(nil)
		var obs []Ob
		for k, o := range script {
			ob := runOp(cit, o)
			obs = append(obs, ob)
			if ob.Kind != "sample" {
				script = script[:k+1]
				break
			}
		}
		if ms.Next() || ms.Err() != nil {
			panic("merged sample series set: more than one series or error")
		}
		h.meta.Hit("chain-from-chunk-series-sets")
		cterm := fmt.Sprintf("KChain %s %s %s", gSLL(inputs), gOps(script), gObs(obs))
		h.emit(cterm, chainDesc{"chain-from-chunks", inputs, script, obs, "chain-from-chunk-series-sets", corpus}, "chainfromchunks"+fmt.Sprint(inputs, script), len(inputs) >= 2)
	}
}

// ---------------------------------------------------------------- chunk generators

func mkChk(samples []S) Chk {
	return Chk{Min: samples[0].T, Max: samples[len(samples)-1].T, S: samples}
}

// a well-formed chunk iterator: disjoint, time-ordered chunks, each of one value type
func genChunkIter(r *gen.Rand, start int64, nchunks int, mixed bool, big bool) []Chk {
	var l []Chk
	t := start
	for c := 0; c < nchunks; c++ {
		n := 1 + r.Intn(4)
		if big && r.Chance(1, 3) {
			n = 118 + r.Intn(12)
		}
		k := genKind(r, mixed)
		var ss []S
		for i := 0; i < n; i++ {
			t += 1 + int64(r.Intn(3))
			ss = append(ss, S{T: t, K: k, V: int64(r.Intn(4))})
		}
		l = append(l, mkChk(ss))
		t += int64(r.Intn(4))
	}
	return l
}

// chunk with the given bounds and some interior samples
func spanChk(r *gen.Rand, lo, hi int64, k int) Chk {
	set := map[int64]bool{lo: true, hi: true}
	for i := 0; i < 3 && hi-lo > 1; i++ {
		if r.Chance(2, 3) {
			set[r.Range(lo+1, hi-1)] = true
		}
	}
	var ts []int64
	for t := range set {
		ts = append(ts, t)
	}
	sort.Slice(ts, func(i, j int) bool { return ts[i] < ts[j] })
	ss := make([]S, len(ts))
	for i, t := range ts {
		ss[i] = S{T: t, K: k, V: int64(r.Intn(4))}
	}
	return mkChk(ss)
}

// random disjoint, ordered chunks over [lo,hi] (consecutive pairs of sorted random points;
// equal points give one-sample chunks; different inputs touch at equal timestamps often)
func genSpans(r *gen.Rand, lo, hi int64, maxChunks int, k int) []Chk {
	n := 2 * (1 + r.Intn(maxChunks))
	set := map[int64]bool{}
	for i := 0; i < n; i++ {
		set[r.Range(lo, hi)] = true
	}
	var ps []int64
	for t := range set {
		ps = append(ps, t)
	}
	sort.Slice(ps, func(i, j int) bool { return ps[i] < ps[j] })
	var l []Chk
	for i := 0; i < len(ps); i += 2 {
		if i+1 < len(ps) && r.Chance(4, 5) {
			l = append(l, spanChk(r, ps[i], ps[i+1], k))
		} else {
			l = append(l, spanChk(r, ps[i], ps[i], k))
			i--
		}
	}
	return l
}

// genNested: 3-5 inputs of one series with containment: a long chunk L, successive chunks nested
// inside it (N1 in one input, N2 from another input overlapping N1 and ending later but inside L,
// optionally N3 nested in N2), a tail chunk T starting after the nested ones but not after L's end
// (or touching it), plus free inputs.
func genNested(r *gen.Rand) [][]Chk {
	n := 3 + r.Intn(3)
	its := make([][]Chk, n)
	k := 1
	a := int64(r.Intn(5))
	b := a + 12 + int64(r.Intn(12)) // L = [a,b]
	its[0] = []Chk{spanChk(r, a, b, k)}
	n1lo := a + 1 + int64(r.Intn(4))
	n1hi := n1lo + int64(r.Intn(4))
	n2lo := n1lo + int64(r.Intn(int(n1hi-n1lo)+1)) // overlaps N1 (or touches its end)
	n2hi := n1hi + 1 + int64(r.Intn(3))
	if n2hi >= b {
		n2hi = b - 1
	}
	if n2hi < n2lo {
		n2lo = n2hi
	}
	its[1] = []Chk{spanChk(r, n1lo, n1hi, k)}
	its[2] = []Chk{spanChk(r, n2lo, n2hi, k)}
	// tail chunk: after everything nested so far, starting inside L's tail / at its end / just after
	tlo := n2hi + 1 + int64(r.Intn(int(b-n2hi)+1))
	if tlo > n1hi {
		who := 1 + r.Intn(2)
		last := its[who][len(its[who])-1]
		if tlo > last.Max {
			its[who] = append(its[who], spanChk(r, tlo, tlo+int64(r.Intn(8)), k))
		}
	}
	if r.Chance(1, 2) && n2hi-n2lo >= 2 && n > 3 { // nested in nested
		its[3] = []Chk{spanChk(r, n2lo+1, n2hi-1, k)}
	}
	if r.Chance(1, 3) { // L continues: a chunk touching / following L in input 0
		its[0] = append(its[0], spanChk(r, b+1+int64(r.Intn(2)), b+4+int64(r.Intn(4)), k))
	}
	for j := 3; j < n; j++ {
		if its[j] == nil {
			its[j] = genSpans(r, a-2, b+8, 3, k)
		}
	}
	// shuffle the inputs (heap insertion order)
	for i := n - 1; i > 0; i-- {
		j := r.Intn(i + 1)
		its[i], its[j] = its[j], its[i]
	}
	return its
}

func cloneIter(l []Chk) []Chk {
	r := make([]Chk, len(l))
	for i, c := range l {
		r[i] = Chk{c.Min, c.Max, append([]S{}, c.S...)}
	}
	return r
}

func main() {
	f := gallina.ParseFlags()
	meta := gallina.NewMeta("C19", f.Seed, f.Tier)
	meta.Rule = "corpus + seeded generation; distinct by full input (inputs/sets/chunk lists, limit, script); non-trivial = chain: >=2 inputs and >=2 distinct timestamps; sets: some label set occurs in >=2 sets; chunks: compacting, >=2 iterators and the number of output chunks differs from the number of input chunks (something was merged, collapsed or split)"
	cf := &gallina.CaseFile{Dir: f.Out, Type: "case", PerShard: 260,
		Preamble: "From Coq Require Import List ZArith.\nFrom Verif Require Import lib.Int64 model.Merge corr.CorrC19.\nImport ListNotations.\nOpen Scope Z_scope.\n",
		Footer:   gallina.StdFooter}
	h := &H{meta: meta, cf: cf, seen: map[string]bool{}}

	// ---------------- corpus (fixed reproducers first)
	fl := func(ts ...int64) []S {
		l := make([]S, len(ts))
		for i, t := range ts {
			l[i] = S{T: t, K: 1, V: int64(i % 5)}
		}
		return l
	}
	// finding: a sample at MinInt64 is dropped by chainSampleIterator.Next (lastT sentinel)
	h.chainCase([][]S{{{math.MinInt64, 1, 1}, {0, 1, 2}}, {{5, 1, 3}}}, drain(5), "minint64-dropped")
	h.setsCase([][]Ser{{{1, []S{{math.MinInt64, 1, 1}, {0, 1, 2}}}}, {{1, []S{{5, 1, 3}}}}}, 0, drain(5), "minint64-dropped-sets")
	h.chunksCase([][]Chk{{mkChk([]S{{math.MinInt64, 1, 1}, {0, 1, 2}})}, {mkChk([]S{{-3, 1, 3}, {4, 1, 0}})}}, true, "minint64-dropped-chunks")
	// the same sample IS found by Seek on a fresh iterator
	h.chainCase([][]S{{{math.MinInt64, 1, 1}, {0, 1, 2}}, {{5, 1, 3}}}, []Op{{Seek: true, T: math.MinInt64}}, "minint64-seek")
	// zero iterators: Next panics (index out of range), then the iterator is exhausted
	h.chainCase(nil, []Op{{}, {}, {Seek: true, T: 0}}, "no-iterators")
	h.chainCase(nil, []Op{{Seek: true, T: 0}, {}}, "no-iterators-seek-first")
	h.chainCase([][]S{fl(1, 2, 3), fl(1, 2, 3), fl(2, 3, 4)}, drain(6), "replicas")
	h.chainCase([][]S{fl(math.MaxInt64-1, math.MaxInt64), fl(math.MaxInt64)}, []Op{{}, {Seek: true, T: math.MaxInt64}, {}, {}}, "maxint64")
	h.chainCase([][]S{{{1, 1, 0}, {2, 2, 1}}, {{1, 2, 5}, {2, 3, 2}}, {{2, 1, 4}}}, drain(4), "mixed-type-ties")
	h.chainCase([][]S{fl(1, 5, 9), fl(2, 5, 7)}, []Op{{Seek: true, T: 5}, {Seek: true, T: 3}, {}, {Seek: true, T: 100}, {}, {Seek: true, T: 0}}, "seek-back-and-past-end")
	h.setsCase([][]Ser{{{0, fl(1, 2)}, {2, fl(1)}}, {{0, fl(2, 3)}, {1, fl(7)}}, {}}, 0, drain(4), "sets-basic")
	h.setsCase([][]Ser{{{0, fl(1, 2)}, {2, fl(1)}}}, 1, drain(3), "single-set-ignores-limit")
	h.setsCase(nil, 0, drain(1), "no-sets")
	// iterator reuse: the next merged series starts exactly at the previous one's last timestamp
	h.chainSeq([]stage{{[][]S{fl(1, 2, 3), fl(2, 3)}, drain(5)}, {[][]S{fl(3), fl(3, 4)}, drain(4)},
		{[][]S{fl(4), fl(4)}, drain(3)}, {[][]S{fl(1, 9), fl(2)}, drain(5)}, {[][]S{fl(9, 10), fl(9)}, []Op{{Seek: true, T: 0}, {}, {}}}}, "reuse-chain")
	for _, mode := range []int{1, 2} {
		h.setsCaseReuse([][]Ser{{{0, fl(1, 2, 5)}, {1, fl(5)}, {3, fl(6, 7)}}, {{0, fl(2, 5)}, {1, fl(5, 6)}, {2, fl(6)}, {3, fl(7)}}}, 0, drain(6), "reuse-sets-next-starts-at-last", mode)
		h.setsCaseReuse([][]Ser{{{0, fl(1, 2, 5)}, {1, fl(3)}, {3, fl(9)}}, {{0, fl(2, 5)}, {1, fl(3, 6)}, {3, fl(8)}}}, 0, drain(6), "reuse-sets-below-above", mode)
	}
	{
		a := genChunkIter(gen.Fork(7, 0), 0, 2, false, false)
		h.chunksCase([][]Chk{a, cloneIter(a), cloneIter(a)}, true, "replica-chunks")
		big := mkChk(fl(func() []int64 {
			var ts []int64
			for i := int64(0); i < 130; i++ {
				ts = append(ts, i*2)
			}
			return ts
		}()...))
		h.chunksCase([][]Chk{{big}, {big}}, true, "identical-130-sample-chunks-collapse")
		h.chunksCase([][]Chk{{big}, {mkChk(fl(1, 3, 301))}}, true, "reencode-splits-at-120-and-repushes")
		h.chunksCase([][]Chk{{big}, {mkChk(fl(1, 3, 241)), mkChk(fl(250, 300))}, {mkChk(fl(245, 246))}}, true, "repushed-remainder-overlaps-again")
		h.chunksCase([][]Chk{a, cloneIter(a)}, false, "concat")
		fh := func(p ...int64) Chk {
			var ss []S
			for i := 0; i < len(p); i += 2 {
				ss = append(ss, S{T: p[i], K: 3, V: p[i+1]})
			}
			return mkChk(ss)
		}
		// two replicas at different counter levels: every merged neighbour is a counter reset
		h.chunksCaseOpt([][]Chk{{fh(0, 10, 10, 20, 20, 30)}, {fh(5, 1, 15, 2)}}, true, "fh-counter-reset-inside-overlap", true)
		h.chunksCaseOpt([][]Chk{{fh(0, 10, 10, 20), fh(30, 40, 40, 50)}, {fh(5, 1, 35, 2)}, {fh(7, 3, 50, 60)}}, true, "fh-counter-reset-two-overlaps", true)
		h.chunksCase(nil, true, "no-series")
		sp := func(ts ...int64) Chk { return mkChk(fl(ts...)) }
		// a later chunk overlaps only the TAIL of a long chunk that contains two successive nested chunks
		nested := [][]Chk{{sp(2, 8, 14, 18, 20)}, {sp(10, 15), sp(19, 22, 25)}, {sp(12, 18)}}
		h.chunksCaseFull(nested, true, "tail-overlap-after-nested-chunks", false, false, nil)
		h.chunksCaseFull(nested, true, "tail-overlap-after-nested-chunks-sets", false, true, drain(12))
		h.chunksCaseFull([][]Chk{{sp(0, 30)}, {sp(5, 6), sp(8, 9), sp(29, 31)}, {sp(6, 8), sp(10, 12)}, {sp(9, 10), sp(30, 40)}}, true, "successive-nested-touching", false, true, drain(16))
		h.chunksCaseFull([][]Chk{{sp(0, 10, 20)}, {sp(2, 18)}, {sp(4, 16)}, {sp(6, 8), sp(17, 19), sp(20, 21)}}, true, "nested-in-nested-then-tail", false, true, []Op{{}, {Seek: true, T: 17}, {}, {}, {}, {}, {}})
	}

	// ---------------- generated
	nChain := f.Count(230, 6000)
	nSets := f.Count(80, 2000)
	nChunks := f.Count(90, 2000)
	base := 0
	for i := 0; i < nChain; i++ {
		r := gen.Fork(f.Seed, base+i)
		d := tsDom{lo: -4, hi: 24}
		switch r.Intn(10) {
		case 0: // boundary stream: int64 extremes (MinInt64 itself only in Next-only drains, see notes)
			d = tsDom{lo: -2, hi: 6, extra: []int64{math.MaxInt64, math.MaxInt64 - 1, math.MinInt64 + 1, math.MinInt64 + 2}}
		case 1:
			d = tsDom{lo: 0, hi: 8} // dense: many ties
		}
		n := r.Intn(7) // 0..6 inputs
		if n == 0 && r.Chance(2, 3) {
			n = 2 + r.Intn(3)
		}
		mixed := r.Chance(1, 2)
		dupInside := r.Chance(1, 10)
		inputs := make([][]S, n)
		for j := range inputs {
			switch {
			case j > 0 && r.Chance(1, 5): // replica of an earlier input
				inputs[j] = append([]S{}, inputs[r.Intn(j)]...)
			case r.Chance(1, 12):
				inputs[j] = []S{}
			default:
				inputs[j] = genSeries(r, d, 1+r.Intn(7), mixed, dupInside)
			}
		}
		var script []Op
		switch r.Intn(4) {
		case 0:
			script = drain(len(union(inputs)) + 2)
		case 1:
			script = genScript(r, d, 4+r.Intn(10), 70)
		default:
			script = genScript(r, d, 4+r.Intn(14), 30)
		}
		h.chainCase(inputs, script, "")
	}
	base += nChain
	nSeq := f.Count(40, 1500)
	for i := 0; i < nSeq; i++ {
		r := gen.Fork(f.Seed, base+i)
		mixed := r.Chance(1, 3)
		var stages []stage
		last := int64(r.Intn(5))
		for k := 0; k < 2+r.Intn(3); k++ {
			// first timestamp of this stage relative to the previous stage's last one
			start := last + int64(r.Intn(3)) - 1 // below / equal / above
			if r.Chance(1, 5) {
				start = int64(r.Intn(6))
			}
			n := 2 + r.Intn(3)
			inputs := make([][]S, n)
			for j := range inputs {
				d := tsDom{lo: start, hi: start + 5}
				inputs[j] = genSeries(r, d, 1+r.Intn(4), mixed, false)
				if r.Chance(1, 2) { // make sure some input starts exactly at start
					kd := 1
					if len(inputs[j]) > 0 {
						kd = inputs[j][0].K
					}
					if len(inputs[j]) == 0 || inputs[j][0].T > start {
						inputs[j] = append([]S{{T: start, K: kd, V: int64(r.Intn(6))}}, inputs[j]...)
					}
				}
			}
			u := union(inputs)
			script := drain(len(u) + 1)
			if r.Chance(1, 5) {
				script = genScript(r, tsDom{lo: start, hi: start + 5}, 4+r.Intn(6), 40)
			}
			stages = append(stages, stage{inputs, script})
			if len(u) > 0 {
				last = u[len(u)-1]
			}
		}
		h.chainSeq(stages, "")
	}
	base += nSeq
	for i := 0; i < nSets; i++ {
		r := gen.Fork(f.Seed, base+i)
		d := tsDom{lo: 0, hi: 12}
		n := r.Intn(7)
		mixed := r.Chance(1, 2)
		sets := make([][]Ser, n)
		for j := range sets {
			for l := range labelPool {
				if r.Chance(2, 5) {
					sets[j] = append(sets[j], Ser{L: l, S: genSeries(r, d, r.Intn(5), mixed, false)})
				}
			}
			if j > 0 && r.Chance(1, 6) {
				sets[j] = sets[r.Intn(j)]
			}
		}
		limit := 0
		if r.Chance(1, 5) {
			limit = 1 + r.Intn(4)
		}
		var script []Op
		if r.Bool() {
			script = drain(8)
		} else {
			script = genScript(r, d, 3+r.Intn(6), 40)
		}
		reuse := r.Intn(3)
		if reuse != 0 {
			script = drain(16) // drain each series to its end so that lastT is its last timestamp
			if r.Chance(1, 4) {
				script = genScript(r, d, 8+r.Intn(6), 30)
			}
		}
		h.setsCaseReuse(sets, limit, script, "", reuse)
	}
	base += nSets
	for i := 0; i < nChunks; i++ {
		r := gen.Fork(f.Seed, base+i)
		n := 1 + r.Intn(6)
		if r.Chance(1, 20) {
			n = 0
		}
		mixed := r.Chance(1, 2)
		big := r.Chance(1, 12)
		its := make([][]Chk, n)
		for j := range its {
			switch {
			case j > 0 && r.Chance(1, 3): // identical replica (perfect duplicates)
				its[j] = cloneIter(its[r.Intn(j)])
			case j > 0 && r.Chance(1, 4) && len(its[j-1]) > 0: // shares some chunks, differs in others
				src := its[j-1]
				var l []Chk
				for _, c := range src {
					if r.Bool() {
						l = append(l, c)
					}
				}
				its[j] = l
			default:
				its[j] = genChunkIter(r, int64(r.Intn(12))-3, r.Intn(4), mixed, big)
			}
		}
		if r.Chance(1, 12) && n > 0 && len(its[0]) >= 2 { // malformed: an iterator whose chunks are out of order
			its[0][0], its[0][1] = its[0][1], its[0][0]
			meta.Hit("chunks-malformed-iterator")
		}
		h.chunksCase(its, !r.Chance(1, 8), "")
	}
	base += nChunks
	nNest := f.Count(60, 2500)
	for i := 0; i < nNest; i++ {
		r := gen.Fork(f.Seed, base+i)
		var its [][]Chk
		if r.Chance(2, 3) {
			its = genNested(r)
		} else { // free layouts over a small domain: containment, touching and tail overlaps by chance
			n := 3 + r.Intn(3)
			its = make([][]Chk, n)
			for j := range its {
				its[j] = genSpans(r, 0, 24, 3, 1+r.Intn(2)*r.Intn(2))
			}
			if r.Chance(1, 2) {
				its[0] = []Chk{spanChk(r, 0, 20+int64(r.Intn(5)), 1)}
			}
		}
		meta.Hit(fmt.Sprintf("chunks-nested-n%d", len(its)))
		viaSet := r.Chance(1, 2)
		var all [][]S
		for _, l := range its {
			for _, c := range l {
				all = append(all, c.S)
			}
		}
		script := drain(len(union(all)) + 1)
		if r.Chance(1, 4) {
			script = genScript(r, tsDom{lo: 0, hi: 30}, 6+r.Intn(8), 35)
		}
		h.chunksCaseFull(its, true, "", false, viaSet, script)
	}
	base += nNest
	nFH := f.Count(25, 800)
	for i := 0; i < nFH; i++ {
		r := gen.Fork(f.Seed, base+i)
		n := 2 + r.Intn(3)
		its := make([][]Chk, n)
		for j := range its {
			level := int64(1 + r.Intn(40)) // each replica counts from its own level: resets when merged
			t := int64(r.Intn(6))
			for c := 0; c < 1+r.Intn(3); c++ {
				var ss []S
				for k := 0; k < 1+r.Intn(4); k++ {
					t += 1 + int64(r.Intn(4))
					level += int64(r.Intn(3))
					ss = append(ss, S{T: t, K: 3, V: level})
				}
				its[j] = append(its[j], mkChk(ss))
				t += int64(r.Intn(3))
			}
		}
		h.chunksCaseOpt(its, true, "", true)
	}

	cf.Flush()
	meta.Notes = append(meta.Notes, "labels are ranked by labels.Compare over the pool: "+func() string {
		var s []string
		for _, l := range labelPool {
			s = append(s, l.String())
		}
		return strings.Join(s, " < ")
	}())
	meta.Write(f.Out)
}

// h_c23: correspondence harness for C23 (restart from a memory snapshot equals restart from the WAL).
//
// For every generated history (float appends in and out of order, exemplars, deletions, head and
// out-of-order compactions, restarts with the snapshot option switched on and off) the real
// tsdb.DB is closed cleanly with EnableMemorySnapshotOnShutdown.  The data directory is then
// copied and reopened
//
//	a   with the snapshot,
//	b   with the snapshot directory removed,
//	off with the snapshot option disabled,
//	c   with one byte of the snapshot altered (or the snapshot file truncated inside a record),
//	d1  with the snapshot renamed to a WAL index beyond the last segment ("WAL behind snapshot"),
//	d2  with every WAL segment (and checkpoint) before the snapshot's segment removed,
//	e/e2 with one byte of a head chunk file altered, with and without the snapshot,
//
// and the full-range query result (and the exemplars) of every variant is written out together
// with a decoded dump of the durable state (WAL records, head chunk files, snapshot content),
// from which the Coq model computes its own answer for a, b, off, c, d1, d2.
package main

import (
	"context"
	"encoding/json"
	"fmt"
	"io"
	"log/slog"
	"math"
	"os"
	"path/filepath"
	"sort"
	"strings"
	"sync"
	"time"

	"github.com/prometheus/prometheus/model/exemplar"
	"github.com/prometheus/prometheus/model/labels"
	"github.com/prometheus/prometheus/storage"
	"github.com/prometheus/prometheus/tsdb"
	"github.com/prometheus/prometheus/tsdb/chunkenc"
	"github.com/prometheus/prometheus/tsdb/chunks"
	"github.com/prometheus/prometheus/tsdb/record"
	"github.com/prometheus/prometheus/tsdb/wlog"

	"verif/harness/internal/gallina"
	"verif/harness/internal/gen"
)

// ---------------------------------------------------------------- database handling

type logBuf struct {
	mu   sync.Mutex
	msgs []string
}

func (l *logBuf) Enabled(context.Context, slog.Level) bool { return true }
func (l *logBuf) Handle(_ context.Context, r slog.Record) error {
	l.mu.Lock()
	l.msgs = append(l.msgs, r.Message)
	l.mu.Unlock()
	return nil
}
func (l *logBuf) WithAttrs([]slog.Attr) slog.Handler { return l }
func (l *logBuf) WithGroup(string) slog.Handler      { return l }
func (l *logBuf) has(sub string) bool {
	l.mu.Lock()
	defer l.mu.Unlock()
	for _, m := range l.msgs {
		if strings.Contains(m, sub) {
			return true
		}
	}
	return false
}

type cfgT struct {
	BlockRange int64 `json:"block_range"`
	OOOWindow  int64 `json:"ooo_window"`
	SPC        int   `json:"samples_per_chunk"`
	MaxEx      int64 `json:"max_exemplars"`
	NSeries    int   `json:"series"`
}

func open(dir string, c cfgT, snap bool) (*tsdb.DB, *logBuf, error) {
	o := tsdb.DefaultOptions()
	o.MinBlockDuration = c.BlockRange
	o.MaxBlockDuration = c.BlockRange * 27
	o.RetentionDuration = 0
	o.MaxBytes = 0
	o.OutOfOrderTimeWindow = c.OOOWindow
	o.OutOfOrderCapMax = 4
	o.SamplesPerChunk = c.SPC
	o.EnableMemorySnapshotOnShutdown = snap
	o.EnableExemplarStorage = c.MaxEx > 0
	o.MaxExemplars = c.MaxEx
	o.NoLockfile = true
	o.StripeSize = 64
	o.BlockReloadInterval = 24 * time.Hour
	o.WALSegmentSize = 1 << 20
	o.HeadChunksWriteBufferSize = 64 * 1024
	o.EnableDelayedCompaction = false
	lb := &logBuf{}
	db, err := tsdb.Open(dir, slog.New(lb), nil, o, nil)
	if err != nil {
		return nil, lb, err
	}
	db.DisableCompactions()
	return db, lb, nil
}

func lset(i int) labels.Labels { return labels.FromStrings("a", fmt.Sprintf("s%d", i)) }

func lblOf(l labels.Labels) int {
	v := l.Get("a")
	var i int
	if _, err := fmt.Sscanf(v, "s%d", &i); err != nil {
		return -1
	}
	return i
}

type smp struct {
	T int64
	V int64
}
type answer map[int][]smp // lbl -> samples in query order

func matchAll() *labels.Matcher { return labels.MustNewMatcher(labels.MatchRegexp, "a", ".+") }

func selectAll(q storage.Querier) (answer, error) {
	out := answer{}
	ss := q.Select(context.Background(), true, nil, matchAll())
	for ss.Next() {
		s := ss.At()
		l := lblOf(s.Labels())
		it := s.Iterator(nil)
		for it.Next() == chunkenc.ValFloat {
			t, v := it.At()
			out[l] = append(out[l], smp{t, int64(v)})
		}
		if it.Err() != nil {
			return nil, it.Err()
		}
	}
	return out, ss.Err()
}

func query(db *tsdb.DB) (answer, error) {
	q, err := db.Querier(math.MinInt64, math.MaxInt64)
	if err != nil {
		return nil, err
	}
	defer q.Close()
	return selectAll(q)
}

type exm struct {
	L  int
	T  int64
	ID int64
}

func exemplars(db *tsdb.DB) ([]exm, error) {
	eq, err := db.ExemplarQuerier(context.Background())
	if err != nil {
		return nil, err
	}
	res, err := eq.Select(math.MinInt64, math.MaxInt64, []*labels.Matcher{matchAll()})
	if err != nil {
		return nil, err
	}
	var out []exm
	for _, r := range res {
		for _, e := range r.Exemplars {
			out = append(out, exm{lblOf(r.SeriesLabels), e.Ts, int64(e.Value)})
		}
	}
	sort.Slice(out, func(i, j int) bool {
		if out[i].L != out[j].L {
			return out[i].L < out[j].L
		}
		if out[i].T != out[j].T {
			return out[i].T < out[j].T
		}
		return out[i].ID < out[j].ID
	})
	return out, nil
}

func copyDir(src, dst string) error {
	return filepath.Walk(src, func(p string, info os.FileInfo, err error) error {
		if err != nil {
			return err
		}
		rel, _ := filepath.Rel(src, p)
		t := filepath.Join(dst, rel)
		if info.IsDir() {
			return os.MkdirAll(t, 0o755)
		}
		in, err := os.Open(p)
		if err != nil {
			return err
		}
		defer in.Close()
		out, err := os.Create(t)
		if err != nil {
			return err
		}
		if _, err := io.Copy(out, in); err != nil {
			out.Close()
			return err
		}
		return out.Close()
	})
}

// ---------------------------------------------------------------- histories

type opT struct {
	K    string `json:"k"` // tx, del, compact, compactooo, restart
	App  []appT `json:"app,omitempty"`
	Mint int64  `json:"mint,omitempty"`
	Maxt int64  `json:"maxt,omitempty"`
	Sel  int    `json:"sel,omitempty"` // series index, -1 = all
	Snap bool   `json:"snap,omitempty"`
	Roll bool   `json:"rollback,omitempty"`
}
type appT struct {
	S  int   `json:"s"`
	T  int64 `json:"t"`
	V  int64 `json:"v"`
	Ex bool  `json:"ex,omitempty"`
}

type histT struct {
	OOOOnly   int   `json:"ooo_only_series"`
	Idle      int   `json:"idle_series"`
	Cfg       cfgT  `json:"cfg"`
	FirstSnap bool  `json:"first_snap"`
	Ops       []opT `json:"ops"`
}

func genHistory(r *gen.Rand) histT {
	var h histT
	h.Cfg.BlockRange = 1000
	h.Cfg.OOOWindow = r.PickI64(0, 300, 2500, 100000)
	h.Cfg.SPC = int(r.PickI64(2, 3, 5, 120))
	h.Cfg.MaxEx = r.PickI64(0, 3, 8, 50)
	h.Cfg.NSeries = 1 + r.Intn(3)
	h.FirstSnap = r.Bool()
	n := 4 + r.Intn(22)
	now := r.PickI64(-1700, -300, 0, 100, 5000)
	step := r.PickI64(20, 150, 400)
	last := map[int]int64{}
	used := map[int]map[int64]bool{}
	for i := 0; i < h.Cfg.NSeries; i++ {
		used[i] = map[int64]bool{}
	}
	// series classes: an out-of-order-only series (created by samples older than
	// headMaxt - chunkRange/2 inside the window, never an in-order head chunk; with
	// OutOfOrderCapMax = 4 its fifth sample m-maps an OOO chunk) and a series that is idle from the
	// first third of the history on (its chunks get m-mapped / compacted away around it)
	oooOnly, idle := -1, -1
	if h.Cfg.NSeries >= 2 && r.Chance(3, 5) {
		oooOnly = h.Cfg.NSeries - 1
		if h.Cfg.OOOWindow < 2500 {
			h.Cfg.OOOWindow = r.PickI64(2500, 100000)
		}
		if h.Cfg.SPC > 5 {
			h.Cfg.SPC = int(r.PickI64(2, 3, 5))
		}
	}
	if h.Cfg.NSeries >= 2 && r.Chance(1, 3) {
		idle = 0
	}
	h.OOOOnly, h.Idle = oooOnly, idle
	headData := false
	val := int64(0)
	type delT struct {
		sel  int
		a, b int64
	}
	var dels []delT
	underDelete := func(s int, t int64) bool {
		for _, d := range dels {
			if (d.sel < 0 || d.sel == s) && d.a <= t && t <= d.b {
				return true
			}
		}
		return false
	}
	for i := 0; i < n; i++ {
		x := r.Intn(100)
		switch {
		case x < 58:
			var o opT
			o.K = "tx"
			o.Roll = r.Chance(1, 15)
			k := 1 + r.Intn(4)
			for j := 0; j < k; j++ {
				s := r.Intn(h.Cfg.NSeries)
				if oooOnly >= 0 && r.Chance(1, 3) {
					s = oooOnly
				}
				if s == idle && i > n/3 {
					s = (s + 1) % h.Cfg.NSeries
				}
				if s == oooOnly && !headData {
					s = 0 // an OOO-only series needs a head max time to be behind
				}
				var t int64
				if s == oooOnly {
					back := r.Range(h.Cfg.BlockRange/2+50, 2400)
					t = now - back
					for used[s][t] || underDelete(s, t) {
						t++
					}
					if t >= now-h.Cfg.BlockRange/2 {
						continue
					}
					// a burst: with OutOfOrderCapMax = 4 the fifth sample m-maps an OOO chunk
					for b := 1 + r.Intn(4); b > 0; b-- {
						for used[s][t] || underDelete(s, t) {
							t++
						}
						if t >= now-h.Cfg.BlockRange/2 {
							break
						}
						used[s][t] = true
						val++
						o.App = append(o.App, appT{S: s, T: t, V: val, Ex: false})
						t += r.Range(1, 30)
					}
					continue
				}
				headData = true
				if r.Chance(3, 4) {
					now += r.Range(1, step)
					t = now
				} else if l, ok := last[s]; ok {
					// out of order: inside / at the edge of / beyond the window
					back := r.PickI64(1, 10, 100, h.Cfg.OOOWindow-1, h.Cfg.OOOWindow, h.Cfg.OOOWindow+1, 700, 1500)
					if back < 0 {
						back = 1
					}
					t = l - back
				} else {
					t = now
				}
				for used[s][t] {
					t++
				}
				if l, ok := last[s]; ok && t <= l && underDelete(s, t) {
					// an out-of-order sample under an older head tombstone stays hidden (C01 finding
					// "ooo-append-under-head-tombstone"); not this property's business
					now += r.Range(1, step)
					t = now
					for used[s][t] {
						t++
					}
				}
				used[s][t] = true
				if t > last[s] || last[s] == 0 {
					if _, ok := last[s]; !ok || t > last[s] {
						last[s] = t
					}
				}
				if t > now {
					now = t
				}
				val++
				o.App = append(o.App, appT{S: s, T: t, V: val, Ex: h.Cfg.MaxEx > 0 && r.Chance(1, 3)})
			}
			h.Ops = append(h.Ops, o)
		case x < 64:
			// a sample exactly on / next to a block boundary b (it starts a new chunk), the next
			// sample of the series beyond the following boundary (cuts again: the short chunk
			// ending at b, b+-1 gets m-mapped), then a head compaction so that the newest block
			// may end exactly at b (= minValidTime of the next start)
			s := r.Intn(h.Cfg.NSeries)
			if s == oooOnly || (s == idle && i > n/3) {
				s = 0
			}
			br := h.Cfg.BlockRange
			b := (now/br + 1) * br
			if now < 0 {
				b = -((-now) / br) * br
				if b <= now {
					b += br
				}
			}
			t1 := b + r.PickI64(-1, 0, 0, 1)
			if t1 <= now {
				t1 = b
			}
			t2 := b + br + r.Range(20, 300)
			t3 := t2 + r.Range(1, 250)
			for _, t := range []int64{t1, t2, t3} {
				for used[s][t] {
					t++
				}
				used[s][t] = true
				val++
				h.Ops = append(h.Ops, opT{K: "tx", App: []appT{{S: s, T: t, V: val}}})
				last[s] = t
				now = t
			}
			headData = true
			h.Ops = append(h.Ops, opT{K: "compact"})
		case x < 70:
			a := now - r.Range(0, 1200)
			b := a + r.Range(0, 600)
			sel := r.Intn(h.Cfg.NSeries+1) - 1
			dels = append(dels, delT{sel, a, b})
			h.Ops = append(h.Ops, opT{K: "del", Mint: a, Maxt: b, Sel: sel})
		case x < 80:
			h.Ops = append(h.Ops, opT{K: "compact"})
		case x < 85:
			h.Ops = append(h.Ops, opT{K: "compactooo"})
		default:
			h.Ops = append(h.Ops, opT{K: "restart", Snap: r.Chance(2, 3)})
		}
	}
	return h
}

// ---------------------------------------------------------------- durable state dump

type wentry struct {
	CP   bool
	Seg  int
	Off  int64
	Kind string // s (sample), t (tombstone), e (exemplar)
	L    int
	A, B int64
}

type dumpT struct {
	LastSeg  int
	CPIdx    int
	WAL      []wentry
	Chunks   map[int][][]smp // in-order chunk files per lbl, file order
	ChunksOK bool
	Snap     *snapT
	Unknown  int
	MultiRef bool // some label set has more than one series record / ref
	HistRecs int
}
type snapT struct {
	Idx, Off int
	HC       map[int][]smp
	Has      map[int]bool
	Tomb     map[int][][2]int64
	Ex       []exm // L = -1: ref unknown in the snapshot
}

func dump(dir string) (*dumpT, error) {
	d := &dumpT{CPIdx: -1, LastSeg: -1, Chunks: map[int][][]smp{}, ChunksOK: true}
	walDir := filepath.Join(dir, "wal")
	refs := map[uint64]int{}
	seenL := map[int]uint64{}
	dec := record.NewDecoder(labels.NewSymbolTable(), slog.New(slog.DiscardHandler))
	handle := func(rec []byte, cp bool, seg int, off int64) error {
		switch dec.Type(rec) {
		case record.Series:
			ss, err := dec.Series(rec, nil)
			if err != nil {
				return err
			}
			for _, s := range ss {
				l := lblOf(s.Labels)
				refs[uint64(s.Ref)] = l
				if r0, ok := seenL[l]; ok && r0 != uint64(s.Ref) {
					d.MultiRef = true
				}
				seenL[l] = uint64(s.Ref)
			}
		case record.Samples:
			ss, err := dec.Samples(rec, nil)
			if err != nil {
				return err
			}
			for _, s := range ss {
				l, ok := refs[uint64(s.Ref)]
				if !ok {
					d.Unknown++
					continue
				}
				d.WAL = append(d.WAL, wentry{cp, seg, off, "s", l, s.T, int64(s.V)})
			}
		case record.Tombstones:
			ts, err := dec.Tombstones(rec, nil)
			if err != nil {
				return err
			}
			for _, s := range ts {
				l, ok := refs[uint64(s.Ref)]
				if !ok {
					d.Unknown++
					continue
				}
				for _, iv := range s.Intervals {
					d.WAL = append(d.WAL, wentry{cp, seg, off, "t", l, iv.Mint, iv.Maxt})
				}
			}
		case record.Exemplars:
			es, err := dec.Exemplars(rec, nil)
			if err != nil {
				return err
			}
			for _, e := range es {
				l, ok := refs[uint64(e.Ref)]
				if !ok {
					d.Unknown++
					continue
				}
				d.WAL = append(d.WAL, wentry{cp, seg, off, "e", l, e.T, int64(e.V)})
			}
		case record.HistogramSamples, record.FloatHistogramSamples, record.CustomBucketsHistogramSamples, record.CustomBucketsFloatHistogramSamples:
			d.HistRecs++
		}
		return nil
	}
	cpDir, cpIdx, err := wlog.LastCheckpoint(walDir)
	if err == nil {
		d.CPIdx = cpIdx
		sr, err := wlog.NewSegmentsReader(cpDir)
		if err != nil {
			return nil, err
		}
		r := wlog.NewReader(sr)
		for r.Next() {
			if err := handle(r.Record(), true, cpIdx, 0); err != nil {
				return nil, err
			}
		}
		sr.Close()
		if r.Err() != nil {
			return nil, r.Err()
		}
	}
	first, lastSeg, err := wlog.Segments(walDir)
	if err != nil {
		return nil, err
	}
	d.LastSeg = lastSeg
	for i := first; i <= lastSeg && i >= 0; i++ {
		s, err := wlog.OpenReadSegment(wlog.SegmentName(walDir, i))
		if err != nil {
			return nil, err
		}
		sr := wlog.NewSegmentBufReader(s)
		r := wlog.NewReader(sr)
		for r.Next() {
			if err := handle(r.Record(), false, i, r.Offset()); err != nil {
				return nil, err
			}
		}
		sr.Close()
		if r.Err() != nil {
			return nil, r.Err()
		}
	}
	// snapshot
	sn, err := tsdb.VerifC23ReadChunkSnapshot(dir)
	if err != nil {
		return nil, fmt.Errorf("snapshot: %w", err)
	}
	if sn != nil {
		st := &snapT{Idx: sn.Idx, Off: sn.Offset, HC: map[int][]smp{}, Has: map[int]bool{}, Tomb: map[int][][2]int64{}}
		srefs := map[uint64]int{}
		for _, s := range sn.Series {
			l := lblOf(s.Labels)
			srefs[s.Ref] = l
			if r0, ok := refs[s.Ref]; !ok || r0 != l {
				refs[s.Ref] = l
			}
			st.Has[l] = true
			for _, x := range s.Samples {
				st.HC[l] = append(st.HC[l], smp{x.T, int64(x.V)})
			}
		}
		for ref, ivs := range sn.Tombstones {
			l, ok := srefs[ref]
			if !ok {
				continue // a tombstone of a series the snapshot does not restore never matches a sample
			}
			st.Tomb[l] = append(st.Tomb[l], ivs...)
		}
		for _, e := range sn.Exemplars {
			l, ok := srefs[e.Ref]
			if !ok {
				l = -1
			}
			st.Ex = append(st.Ex, exm{l, e.T, int64(e.V)})
		}
		d.Snap = st
	}
	// head chunk files
	cdir := filepath.Join(dir, "chunks_head")
	if _, err := os.Stat(cdir); err == nil {
		cdm, err := chunks.NewChunkDiskMapper(nil, cdir, chunkenc.NewPool(), chunks.DefaultWriteBufferSize, chunks.DefaultWriteQueueSize)
		if err != nil {
			return nil, err
		}
		type ent struct {
			ref  chunks.HeadSeriesRef
			cref chunks.ChunkDiskMapperRef
		}
		var ents []ent
		err = cdm.IterateAllChunks(func(seriesRef chunks.HeadSeriesRef, chunkRef chunks.ChunkDiskMapperRef, mint, maxt int64, numSamples uint16, encoding chunkenc.Encoding, isOOO bool) error {
			if !isOOO {
				ents = append(ents, ent{seriesRef, chunkRef})
			}
			return nil
		})
		if err != nil {
			d.ChunksOK = false
		}
		for _, e := range ents {
			l, ok := refs[uint64(e.ref)]
			if !ok {
				d.Unknown++
				continue
			}
			c, err := cdm.Chunk(e.cref)
			if err != nil {
				d.ChunksOK = false
				continue
			}
			var ss []smp
			it := c.Iterator(nil)
			for it.Next() == chunkenc.ValFloat {
				t, v := it.At()
				ss = append(ss, smp{t, int64(v)})
			}
			d.Chunks[l] = append(d.Chunks[l], ss)
		}
		cdm.Close()
	}
	return d, nil
}

// ---------------------------------------------------------------- one variant

type obsT struct {
	Q        answer
	E        []exm
	Loaded   bool // "chunk snapshot loaded"
	Failed   bool // "Failed to load chunk snapshot"
	Behind   bool // "Last WAL file is behind snapshot"
	ChunkErr bool // "Loading on-disk chunks failed"
	MV       int64
	HS       answer // head state: per series the in-order samples >= minValidTime and the OOO samples, sorted
	HSok     bool
	OOO      map[int][]smp
	Blk      map[int][]smp
	Err      string
	Panic    bool
	// classes of series present after the restart (reported for variant a)
	OOOOnlyMmapped bool // a series without in-order chunk but with an m-mapped out-of-order chunk
	NoHeadChunk    bool // a series whose in-order chunks are all m-mapped (no head chunk)
}

func observe(dir string, c cfgT, snap bool, full bool) (o *obsT) {
	o = &obsT{}
	defer func() {
		if p := recover(); p != nil {
			o.Err = fmt.Sprintf("panic: %v", p)
			o.Panic = true
		}
	}()
	db, lb, err := open(dir, c, snap)
	if err != nil {
		o.Err = "open: " + err.Error()
		return o
	}
	defer db.Close()
	o.Loaded = lb.has("chunk snapshot loaded")
	o.Failed = lb.has("Failed to load chunk snapshot")
	o.Behind = lb.has("Last WAL file is behind snapshot")
	o.ChunkErr = lb.has("Loading on-disk chunks failed")
	if os.Getenv("C23_DEBUG") != "" && os.Getenv("C23_ONLY") != "" {
		fmt.Fprintf(os.Stderr, "  observe %s: mint %d maxt %d mv %d tomb %v ooo [%d %d]\n", filepath.Base(dir), db.Head().MinTime(), db.Head().MaxTime(), db.Head().VerifMinValidTime(), db.Head().VerifTombstones(), db.Head().MinOOOTime(), db.Head().MaxOOOTime())
		for _, s := range db.Head().VerifDump() {
			fmt.Fprintf(os.Stderr, "    series %d %s io %v ooo %v\n", s.Ref, s.Labels, s.InOrder, s.OOO)
		}
		for _, b := range db.Blocks() {
			bm := b.Meta()
			fmt.Fprintf(os.Stderr, "    block %d %d ooo=%v n=%d\n", bm.MinTime, bm.MaxTime, bm.Compaction.FromOutOfOrder(), bm.Stats.NumSamples)
		}
		lb.mu.Lock()
		for _, m := range lb.msgs {
			if strings.Contains(m, "napshot") || strings.Contains(m, "ailed") || strings.Contains(m, "orrupt") {
				fmt.Fprintf(os.Stderr, "    log: %s\n", m)
			}
		}
		lb.mu.Unlock()
	}
	if o.Q, err = query(db); err != nil {
		o.Err = "query: " + err.Error()
		return o
	}
	if c.MaxEx > 0 {
		if o.E, err = exemplars(db); err != nil {
			o.Err = "exemplars: " + err.Error()
			return o
		}
	}
	{
		o.Blk = map[int][]smp{}
		for _, b := range db.Blocks() {
			q, err := tsdb.NewBlockQuerier(b, math.MinInt64, math.MaxInt64)
			if err != nil {
				o.Err = "block querier: " + err.Error()
				return o
			}
			a, err := selectAll(q)
			q.Close()
			if err != nil {
				o.Err = "block query: " + err.Error()
				return o
			}
			for l, ss := range a {
				o.Blk[l] = append(o.Blk[l], ss...)
			}
		}
	}
	{
		mv := db.Head().VerifMinValidTime()
		o.HS = answer{}
		for _, s := range db.Head().VerifDump() {
			l := lblOf(s.Labels)
			seen := map[smp]bool{}
			var ss []smp
			add := func(x smp) {
				if !seen[x] {
					seen[x] = true
					ss = append(ss, x)
				}
			}
			// out-of-order samples that are already in a block are left out: after an OOO
			// compaction the m-mapped OOO chunk stays in chunks_head and a WAL restart attaches it
			// again to a series re-created from its series record (C01 finding
			// restart-reloads-compacted-ooo-chunk), a snapshot restart does not
			inBlk := map[smp]bool{}
			for _, x := range o.Blk[l] {
				inBlk[x] = true
			}
			for _, ch := range s.InOrder {
				for _, x := range ch.Samples {
					// (the WAL also logs out-of-order samples; a WAL restart appends those above the
					// series' newest in-order sample as IN-ORDER samples, a snapshot restart keeps
					// them out of order only: once they are in an OOO block the two heads differ in
					// representation only)
					if y := (smp{x.T, int64(x.V)}); x.T >= mv && !inBlk[y] {
						add(y)
					}
				}
			}
			for _, ch := range s.OOO {
				for _, x := range ch.Samples {
					if y := (smp{x.T, int64(x.V)}); !inBlk[y] {
						add(y)
					}
				}
			}
			sort.Slice(ss, func(i, j int) bool {
				if ss[i].T != ss[j].T {
					return ss[i].T < ss[j].T
				}
				return ss[i].V < ss[j].V
			})
			if len(ss) > 0 {
				o.HS[l] = ss
			}
		}
		for _, s := range db.Head().VerifDump() {
			mm := false
			for _, ch := range s.OOO {
				mm = mm || ch.Mmapped
			}
			if len(s.InOrder) == 0 && mm {
				o.OOOOnlyMmapped = true
			}
			if len(s.InOrder) > 0 && !s.InOrder[len(s.InOrder)-1].Mmapped {
				continue
			}
			if len(s.InOrder) > 0 {
				o.NoHeadChunk = true
			}
		}
		o.HSok = true
	}
	if full {
		o.MV = db.Head().VerifMinValidTime()
		o.OOO = map[int][]smp{}
		for _, s := range db.Head().VerifDump() {
			l := lblOf(s.Labels)
			for _, ch := range s.OOO {
				for _, x := range ch.Samples {
					o.OOO[l] = append(o.OOO[l], smp{x.T, int64(x.V)})
				}
			}
		}
	}
	return o
}

// ---------------------------------------------------------------- damage

func snapshotDir(dir string) string {
	s, _, _, err := tsdb.LastChunkSnapshot(dir)
	if err != nil {
		return ""
	}
	return s
}

// usedLen returns the length of the file without its trailing zero bytes.
func usedLen(b []byte) int {
	n := len(b)
	for n > 0 && b[n-1] == 0 {
		n--
	}
	return n
}

func firstFile(dir string) string {
	es, err := os.ReadDir(dir)
	if err != nil {
		return ""
	}
	var names []string
	for _, e := range es {
		if !e.IsDir() {
			names = append(names, e.Name())
		}
	}
	sort.Strings(names)
	if len(names) == 0 {
		return ""
	}
	return filepath.Join(dir, names[len(names)-1])
}

// damageFile flips one byte inside the used part of the file (kind 0) or truncates the file
// inside its used part (kind 1). It returns a description, or "" if the file is too small.
func damageFile(fn string, r *gen.Rand, kind int, skip int) string {
	b, err := os.ReadFile(fn)
	if err != nil {
		return ""
	}
	n := usedLen(b)
	if n <= skip+1 {
		return ""
	}
	pos := skip + r.Intn(n-skip)
	if kind == 0 {
		bit := byte(1) << uint(r.Intn(8))
		b[pos] ^= bit
		if err := os.WriteFile(fn, b, 0o644); err != nil {
			return ""
		}
		return fmt.Sprintf("flip %s@%d^%d", filepath.Base(fn), pos, bit)
	}
	if err := os.WriteFile(fn, b[:pos], 0o644); err != nil {
		return ""
	}
	return fmt.Sprintf("truncate %s@%d", filepath.Base(fn), pos)
}

// recordEnds returns the offsets at which the records of a one-segment wlog file end.
func recordEnds(fn string) []int64 {
	s, err := wlog.OpenReadSegment(fn)
	if err != nil {
		return nil
	}
	sr := wlog.NewSegmentBufReader(s)
	defer sr.Close()
	r := wlog.NewReader(sr)
	var out []int64
	for r.Next() {
		out = append(out, r.Offset())
	}
	return out
}

// ---------------------------------------------------------------- Gallina printing

// gz prints an int64 through a primitive 63-bit integer literal (parsed natively by coqc; a Z
// literal costs milliseconds each): z / zn are defined in corr/CorrC23.v.
func gz(v int64) string {
	switch {
	case v == math.MinInt64:
		return "minInt64"
	case v < 0:
		return fmt.Sprintf("(zn %d%%uint63)", -v)
	default:
		return fmt.Sprintf("(z %d%%uint63)", v)
	}
}

func gSmp(ss []smp) string {
	it := make([]string, len(ss))
	for i, s := range ss {
		it[i] = "(" + gz(s.T) + "," + gz(s.V) + ")"
	}
	return gallina.List(it)
}

func gAssoc(m map[int][]smp) string {
	var ks []int
	for k := range m {
		ks = append(ks, k)
	}
	sort.Ints(ks)
	var it []string
	for _, k := range ks {
		it = append(it, "("+gz(int64(k))+","+gSmp(m[k])+")")
	}
	return gallina.List(it)
}

func gAnswer(o *obsT) string {
	if o == nil || o.Err != "" {
		return "None"
	}
	return "(Some " + gAssoc(o.Q) + ")"
}

func gEx(es []exm) string {
	it := make([]string, len(es))
	for i, e := range es {
		it[i] = "(" + gz(int64(e.L)) + ",(" + gz(e.T) + "," + gz(e.ID) + "))"
	}
	return gallina.List(it)
}

func gDump(d *dumpT, mv int64, ooo, blk map[int][]smp, nser int) string {
	var w []string
	for _, e := range d.WAL {
		var rec string
		switch e.Kind {
		case "s":
			rec = fmt.Sprintf("WSample %s (%s,%s)", gz(int64(e.L)), gz(e.A), gz(e.B))
		case "t":
			rec = fmt.Sprintf("WTomb %s (%s,%s)", gz(int64(e.L)), gz(e.A), gz(e.B))
		default:
			rec = fmt.Sprintf("WEx %s (%s,%s)", gz(int64(e.L)), gz(e.A), gz(e.B))
		}
		w = append(w, fmt.Sprintf("mkW %s %s %s (%s)", gallina.Bool(e.CP), gz(int64(e.Seg)), gz(e.Off), rec))
	}
	var ch []string
	var ks []int
	for k := range d.Chunks {
		ks = append(ks, k)
	}
	sort.Ints(ks)
	for _, k := range ks {
		var cs []string
		for _, c := range d.Chunks[k] {
			cs = append(cs, gSmp(c))
		}
		ch = append(ch, "("+gz(int64(k))+","+gallina.List(cs)+")")
	}
	snap := "None"
	if s := d.Snap; s != nil {
		var has []string
		var hk []int
		for k := range s.Has {
			hk = append(hk, k)
		}
		sort.Ints(hk)
		for _, k := range hk {
			has = append(has, gz(int64(k)))
		}
		var tb []string
		var tk []int
		for k := range s.Tomb {
			tk = append(tk, k)
		}
		sort.Ints(tk)
		for _, k := range tk {
			var iv []string
			for _, x := range s.Tomb[k] {
				iv = append(iv, "("+gz(x[0])+","+gz(x[1])+")")
			}
			tb = append(tb, "("+gz(int64(k))+","+gallina.List(iv)+")")
		}
		snap = fmt.Sprintf("(Some (mkSnR %s %s true %s %s %s %s))", gz(int64(s.Idx)), gz(int64(s.Off)),
			gAssoc(s.HC), gallina.List(has), gallina.List(tb), gEx(s.Ex))
	}
	var univ []string
	for i := 0; i < nser; i++ {
		univ = append(univ, gz(int64(i)))
	}
	return fmt.Sprintf("(mkDR %s %s %s %s %s %s %s %s %s %s)", gz(mv), gz(int64(d.LastSeg)), gz(int64(d.CPIdx)),
		gallina.List(w), gallina.List(ch), gallina.Bool(d.ChunksOK), snap, gAssoc(ooo), gAssoc(blk), gallina.List(univ))
}

// ---------------------------------------------------------------- one case

type descT struct {
	Hist    histT             `json:"history"`
	Shape   string            `json:"shape"`
	Damage  map[string]string `json:"damage,omitempty"`
	Flags   []string          `json:"flags,omitempty"`
	Corpus  string            `json:"corpus,omitempty"`
	Seed    uint64            `json:"seed"`
	Index   int               `json:"index"`
	Problem string            `json:"problem,omitempty"`
}

func eqAnswer(a, b answer) bool {
	if len(a) != len(b) {
		return false
	}
	for k, x := range a {
		y, ok := b[k]
		if !ok || len(x) != len(y) {
			return false
		}
		for i := range x {
			if x[i] != y[i] {
				return false
			}
		}
	}
	return true
}

// staleNonPos: some Open loaded a snapshot older than the end of the WAL while the WAL records
// behind it contain a sample with a timestamp <= 0 (known finding: such samples are skipped).
var staleNonPos bool

func runHistory(dir string, h histT) (pre answer, preE []exm, err error) {
	staleNonPos = false
	haveSnap, nonPosSince := false, false
	closed := func(snap bool) {
		if snap {
			haveSnap, nonPosSince = true, false
		}
	}
	opened := func(snap bool) {
		if snap && haveSnap && nonPosSince {
			staleNonPos = true
		}
	}
	snap := h.FirstSnap
	db, _, err := open(dir, h.Cfg, snap)
	if err != nil {
		return nil, nil, err
	}
	exid := int64(1000)
	for _, o := range h.Ops {
		switch o.K {
		case "tx":
			app := db.Appender(context.Background())
			for _, a := range o.App {
				ref, aerr := app.Append(0, lset(a.S), a.T, float64(a.V))
				if aerr == nil && a.T <= 0 && !o.Roll {
					nonPosSince = true
				}
				if aerr == nil && a.Ex {
					exid++
					_, _ = app.AppendExemplar(ref, lset(a.S), exemplar.Exemplar{Labels: labels.FromStrings("trace_id", fmt.Sprint(exid)), Value: float64(exid), Ts: a.T, HasTs: true})
				}
			}
			if o.Roll {
				_ = app.Rollback()
			} else if cerr := app.Commit(); cerr != nil {
				db.Close()
				return nil, nil, fmt.Errorf("commit: %w", cerr)
			}
		case "del":
			var m *labels.Matcher
			if o.Sel < 0 {
				m = matchAll()
			} else {
				m = labels.MustNewMatcher(labels.MatchEqual, "a", fmt.Sprintf("s%d", o.Sel))
			}
			if derr := db.Delete(context.Background(), o.Mint, o.Maxt, m); derr != nil {
				db.Close()
				return nil, nil, fmt.Errorf("delete: %w", derr)
			}
		case "compact":
			if cerr := db.Compact(context.Background()); cerr != nil {
				db.Close()
				return nil, nil, fmt.Errorf("compact: %w", cerr)
			}
		case "compactooo":
			if cerr := db.CompactOOOHead(context.Background()); cerr != nil {
				db.Close()
				return nil, nil, fmt.Errorf("compactooo: %w", cerr)
			}
		case "restart":
			if cerr := db.Close(); cerr != nil {
				return nil, nil, fmt.Errorf("close: %w", cerr)
			}
			closed(snap)
			snap = o.Snap
			opened(snap)
			db, _, err = open(dir, h.Cfg, snap)
			if err != nil {
				return nil, nil, fmt.Errorf("reopen: %w", err)
			}
		}
	}
	if !snap {
		if cerr := db.Close(); cerr != nil {
			return nil, nil, fmt.Errorf("close: %w", cerr)
		}
		closed(false)
		opened(true)
		db, _, err = open(dir, h.Cfg, true)
		if err != nil {
			return nil, nil, fmt.Errorf("reopen: %w", err)
		}
	}
	pre, err = query(db)
	if err != nil {
		db.Close()
		return nil, nil, err
	}
	if h.Cfg.MaxEx > 0 {
		preE, err = exemplars(db)
		if err != nil {
			db.Close()
			return nil, nil, err
		}
	}
	if cerr := db.Close(); cerr != nil {
		return nil, nil, fmt.Errorf("final close: %w", cerr)
	}
	return pre, preE, nil
}

func main() {
	f := gallina.ParseFlags()
	meta := gallina.NewMeta("C23", f.Seed, f.Tier)
	meta.Rule = "one evaluation = one generated history closed with a snapshot and reopened in up to 9 variants; non-trivial = the snapshot was really loaded in variant a, it carried at least one head chunk, and the WAL-only reopen replayed at least one sample record; distinct by history"
	cf := &gallina.CaseFile{Dir: f.Out, Type: "case", PerShard: 40,
		Preamble: "From Coq Require Import List ZArith Bool Uint63.\nFrom Verif Require Import model.Snapshot corr.CorrC23.\nImport ListNotations.\nOpen Scope Z_scope.\n",
		Footer:   gallina.StdFooter}
	n := f.Count(6, 76)
	debug := os.Getenv("C23_DEBUG") != ""
	scratch, err := os.MkdirTemp(f.Out, "c23_")
	if err != nil {
		panic(err)
	}
	defer os.RemoveAll(scratch)
	nontrivial := 0
	corpus := corpusHistories()
	only := -1
	if v := os.Getenv("C23_ONLY"); v != "" {
		fmt.Sscanf(v, "%d", &only)
	}
	for i := 0; i < n+len(corpus); i++ {
		if only >= 0 && i != only {
			continue
		}
		r := gen.Fork(f.Seed, i)
		var h histT
		cname := ""
		if i < len(corpus) {
			h, cname = corpus[i].h, corpus[i].name
		} else {
			h = genHistory(r)
		}
		desc := descT{Hist: h, Shape: "ok", Damage: map[string]string{}, Seed: f.Seed, Index: i, Corpus: cname}
		base := filepath.Join(scratch, fmt.Sprintf("h%d", i))
		os.MkdirAll(base, 0o755)
		pre, preE, err := runHistory(base, h)
		if debug && only >= 0 {
			hb, _ := json.Marshal(h)
			fmt.Fprintf(os.Stderr, "history %s\n", hb)
			filepath.Walk(base, func(p string, info os.FileInfo, err error) error {
				if err == nil && !info.IsDir() {
					fmt.Fprintf(os.Stderr, "  %s %d\n", p, info.Size())
				}
				return nil
			})
		}
		if err != nil {
			desc.Problem = err.Error()
			desc.Shape = "history-error"
			meta.Hit("history-error")
			meta.GoViol = append(meta.GoViol, gallina.GoViolation{ID: fmt.Sprint(i), Shape: "history-error", What: err.Error()})
			meta.Case(i, desc)
			os.RemoveAll(base)
			continue
		}
		_ = pre
		var variant func(name string, prep func(dir string) bool, snap bool, full bool) *obsT
		variant = func(name string, prep func(dir string) bool, snap bool, full bool) *obsT {
			d := filepath.Join(scratch, fmt.Sprintf("h%d_%s", i, name))
			defer os.RemoveAll(d)
			if err := copyDir(base, d); err != nil {
				panic(err)
			}
			if prep != nil && !prep(d) {
				return nil
			}
			return observe(d, h.Cfg, snap, full)
		}
		// the dump of the durable state (on its own copy: the chunk disk mapper opens files for writing)
		dd := filepath.Join(scratch, fmt.Sprintf("h%d_dump", i))
		if err := copyDir(base, dd); err != nil {
			panic(err)
		}
		dmp, derr := dump(dd)
		os.RemoveAll(dd)
		if derr != nil {
			desc.Problem = "dump: " + derr.Error()
			desc.Shape = "dump-error"
			meta.Hit("dump-error")
			meta.GoViol = append(meta.GoViol, gallina.GoViolation{ID: fmt.Sprint(i), Shape: "dump-error", What: derr.Error()})
			meta.Case(i, desc)
			os.RemoveAll(base)
			continue
		}
		// quick tier: a and b always, the corpus histories get every variant, a generated history
		// one of three groups of the remaining variants; thorough tier: everything
		allVariants := f.Tier == "thorough" || i < len(corpus)
		grp := i % 3
		want := func(g int) bool { return allVariants || grp == g }
		inner := variant
		variant = func(name string, prep func(dir string) bool, snap bool, full bool) *obsT {
			g := map[string]int{"a": -1, "b": -1, "off": 0, "c": 0, "d1": 1, "d2": 1, "e": 2, "e2": 2, "cp": 0}[name]
			if g >= 0 && !want(g) {
				return nil
			}
			return inner(name, prep, snap, full)
		}
		oa := variant("a", nil, true, false)
		ob := variant("b", func(d string) bool { return os.RemoveAll(snapshotDir(d)) == nil }, true, true)
		ooff := variant("off", nil, false, false)
		// cp: the snapshot file cut one byte behind a record boundary (only the type byte of the
		// next record survives; the segment reader pads a short file with zeros up to the page
		// boundary, which turns that byte into a valid header of an EMPTY record)
		ocp := variant("cp", func(d string) bool {
			fn := firstFile(snapshotDir(d))
			if fn == "" {
				return false
			}
			ends := recordEnds(fn)
			if len(ends) < 2 {
				return false
			}
			k := r.Intn(len(ends) - 1) // not behind the last record: nothing follows it
			cut := int64(0)
			if k > 0 || r.Bool() {
				cut = ends[k]
			}
			desc.Damage["cp"] = fmt.Sprintf("truncate %s@%d (record boundary + 1)", filepath.Base(fn), cut+1)
			return os.Truncate(fn, cut+1) == nil
		}, true, false)
		if ocp != nil {
			switch {
			case ocp.Panic:
				desc.Shape = "damaged-snapshot-panics"
				meta.Hit("cp-panic")
				meta.GoViol = append(meta.GoViol, gallina.GoViolation{ID: fmt.Sprint(i), Shape: "damaged-snapshot-panics", What: ocp.Err + "; " + desc.Damage["cp"]})
			case ocp.Err != "":
				meta.Hit("cp-error")
				meta.GoViol = append(meta.GoViol, gallina.GoViolation{ID: fmt.Sprint(i), Shape: "variant-cp-error", What: ocp.Err + "; " + desc.Damage["cp"]})
			case ob != nil && ob.Err == "" && !eqAnswer(ocp.Q, ob.Q):
				meta.Hit("cp-differs-from-b")
				meta.GoViol = append(meta.GoViol, gallina.GoViolation{ID: fmt.Sprint(i), Shape: "damaged-snapshot-changes-answer", What: fmt.Sprintf("cp %v b %v; %s", ocp.Q, ob.Q, desc.Damage["cp"])})
			default:
				meta.Hit("cp-falls-back")
			}
		}
		kind := r.Intn(3)
		if kind == 2 {
			kind = 0
		}
		oc := variant("c", func(d string) bool {
			fn := firstFile(snapshotDir(d))
			if fn == "" {
				return false
			}
			s := damageFile(fn, r, kind, 0)
			desc.Damage["c"] = s
			return s != ""
		}, true, false)
		od1 := variant("d1", func(d string) bool {
			s := snapshotDir(d)
			if s == "" || dmp.Snap == nil {
				return false
			}
			nn := filepath.Join(filepath.Dir(s), fmt.Sprintf("chunk_snapshot.%06d.%010d", dmp.LastSeg+2+r.Intn(3), dmp.Snap.Off))
			desc.Damage["d1"] = filepath.Base(nn)
			return os.Rename(s, nn) == nil
		}, true, false)
		od2 := variant("d2", func(d string) bool {
			if dmp.Snap == nil {
				return false
			}
			wd := filepath.Join(d, "wal")
			es, _ := os.ReadDir(wd)
			removed := 0
			for _, e := range es {
				var k int
				if strings.HasPrefix(e.Name(), "checkpoint.") {
					os.RemoveAll(filepath.Join(wd, e.Name()))
					removed++
					continue
				}
				if _, err := fmt.Sscanf(e.Name(), "%d", &k); err == nil && k < dmp.Snap.Idx {
					os.Remove(filepath.Join(wd, e.Name()))
					removed++
				}
			}
			desc.Damage["d2"] = fmt.Sprintf("removed %d wal files below segment %d", removed, dmp.Snap.Idx)
			return true
		}, true, false)
		var oe, oe2 *obsT
		var edmg string
		damageChunks := func(d string) bool {
			fn := firstFile(filepath.Join(d, "chunks_head"))
			if fn == "" {
				return false
			}
			if edmg == "" {
				er := gen.Fork(f.Seed^0xC23, i)
				edmg = damageFile(fn, er, 0, 8)
				desc.Damage["e"] = edmg
				return edmg != ""
			}
			// replay the same damage on the second copy
			var name string
			var pos int
			var bit byte
			fmt.Sscanf(strings.ReplaceAll(strings.ReplaceAll(edmg, "@", " "), "^", " "), "flip %s %d %d", &name, &pos, &bit)
			b, err := os.ReadFile(fn)
			if err != nil || pos >= len(b) {
				return false
			}
			b[pos] ^= bit
			return os.WriteFile(fn, b, 0o644) == nil
		}
		oe = variant("e", damageChunks, true, false)
		if oe != nil {
			oe2 = variant("e2", damageChunks, false, false)
		}

		// ---- classification
		flags := []string{}
		flag := func(c bool, s string) {
			if c {
				flags = append(flags, s)
				meta.Hit(s)
			}
		}
		flag(oa != nil && oa.Loaded, "a-snapshot-loaded")
		flag(oa != nil && !oa.Loaded, "a-snapshot-not-loaded")
		flag(oa != nil && oa.ChunkErr, "a-chunk-files-rejected")
		flag(oc != nil && oc.Failed, "c-damage-detected")
		flag(oc != nil && !oc.Failed, "c-damage-unnoticed")
		flag(od1 != nil && od1.Behind, "d1-wal-behind-detected")
		flag(oe != nil && oe.ChunkErr, "e-chunk-damage-detected")
		flag(oe != nil && !oe.ChunkErr, "e-chunk-damage-unnoticed")
		flag(dmp.MultiRef, "series-with-several-refs")
		flag(dmp.CPIdx >= 0, "wal-checkpoint")
		flag(dmp.Snap != nil && len(dmp.Snap.Tomb) > 0, "snapshot-tombstones")
		flag(dmp.Snap != nil && len(dmp.Snap.Ex) > 0, "snapshot-exemplars")
		flag(ob != nil && len(ob.OOO) > 0, "ooo-head-data")
		flag(ob != nil && len(ob.Blk) > 0, "blocks")
		flag(len(dmp.Chunks) > 0, "mmapped-chunks")
		onMV := false
		if ob != nil {
			for _, cs := range dmp.Chunks {
				for _, c := range cs {
					if len(c) > 0 && c[len(c)-1].T == ob.MV {
						onMV = true
					}
				}
			}
		}
		flag(onMV, "mmapped-chunk-ending-at-minValidTime")
		flag(oa != nil && oa.OOOOnlyMmapped, "ooo-only-series-with-mmapped-chunk")
		flag(oa != nil && oa.NoHeadChunk, "series-without-head-chunk")
		nsamp := 0
		for _, e := range dmp.WAL {
			if e.Kind == "s" {
				nsamp++
			}
		}
		if oa != nil && oa.Loaded && dmp.Snap != nil && len(dmp.Snap.HC) > 0 && nsamp > 0 {
			nontrivial++
		}
		desc.Flags = flags
		// an unnoticed truncation of the snapshot file (cut exactly between two records) is not a
		// usable "damaged snapshot" variant: drop the variant
		if oc != nil && !oc.Failed && kind == 1 {
			oc = nil
			meta.Hit("c-truncation-at-record-boundary-dropped")
		}
		// an unnoticed flip in the head chunk file (e.g. inside unused space) : keep (results must still agree)
		if dmp.MultiRef {
			// known finding: a series re-created under a new ref keeps its first ref after a WAL
			// replay; chunk files / WBL records written under the new ref cannot be resolved by a
			// later start from the snapshot (no series record is replayed then)
			desc.Shape = "snapshot-drops-data-of-recreated-series"
		}
		if staleNonPos {
			// regression class of the fixed defect (/repo 5693077124): WAL records with
			// timestamps <= 0 replayed behind an outdated snapshot
			meta.Hit("outdated-snapshot-with-nonpositive-timestamps")
		}
		// without readable head chunk files Init needs the whole WAL: d2 is not applicable
		if od2 != nil && (oa == nil || oa.ChunkErr || !oa.Loaded) {
			od2 = nil
			meta.Hit("d2-dropped-snapshot-not-used")
		}
		for name, o := range map[string]*obsT{"a": oa, "b": ob, "off": ooff, "c": oc, "d1": od1, "d2": od2, "e": oe, "e2": oe2} {
			if o != nil && o.Err != "" {
				meta.Hit("variant-error-" + name)
				shape := "variant-" + name + "-error"
				if o.Panic {
					shape = "damaged-input-panics-" + name
					desc.Shape = shape
				}
				meta.GoViol = append(meta.GoViol, gallina.GoViolation{ID: fmt.Sprint(i), Shape: shape, What: o.Err + " damage " + fmt.Sprint(desc.Damage)})
				desc.Problem += name + ": " + o.Err + "; "
				if debug {
					fmt.Fprintf(os.Stderr, "case %d: variant %s error %s dmg %v\n", i, name, o.Err, desc.Damage)
				}
			}
		}
		if debug {
			rep := func(name string, x, y *obsT) {
				if x == nil || y == nil || x.Err != "" || y.Err != "" {
					return
				}
				if !eqAnswer(x.Q, y.Q) {
					fmt.Fprintf(os.Stderr, "case %d: %s differ\n  %v\n  %v\n  flags %v dmg %v\n", i, name, x.Q, y.Q, flags, desc.Damage)
				}
			}
			rep("a/b", oa, ob)
			rep("off/b", ooff, ob)
			rep("c/b", oc, ob)
			rep("d1/b", od1, ob)
			rep("d2/a", od2, oa)
			rep("e/e2", oe, oe2)
			rep("e/b", oe, ob)
			if oa != nil && !eqAnswer(pre, oa.Q) {
				fmt.Fprintf(os.Stderr, "case %d: pre/a differ\n  %v\n  %v\n", i, pre, oa.Q)
			}
		}
		if ob == nil || ob.Err != "" {
			meta.Case(i, desc)
			os.RemoveAll(base)
			continue
		}
		var ea, eb []exm
		if oa != nil {
			ea = oa.E
		}
		eb = ob.E
		// identical answers are written once (let-bound) so that Coq parses their literals once;
		// the comparison itself stays in Coq
		var lets []string
		names := map[string]string{}
		share := func(o *obsT) string {
			g := gAnswer(o)
			if g == "None" {
				return g
			}
			if n, ok := names[g]; ok {
				return n
			}
			n := fmt.Sprintf("q%d", len(names))
			names[g] = n
			lets = append(lets, fmt.Sprintf("let %s : option answer := %s in", n, g))
			return n
		}
		hs := func(o *obsT) *obsT {
			if o == nil || o.Err != "" || !o.HSok {
				return nil
			}
			return &obsT{Q: o.HS}
		}
		qs := []string{share(oa), share(ob), share(ooff), share(oc), share(od1), share(od2), share(oe), share(oe2), share(hs(oa)), share(hs(ob))}
		term := fmt.Sprintf("(%s\n mkCase %s %s %s\n  %s\n  %s %s %s)", strings.Join(lets, "\n "),
			gz(int64(i)), gallina.Bool(dmp.MultiRef), gDump(dmp, ob.MV, ob.OOO, ob.Blk, h.Cfg.NSeries),
			strings.Join(qs, " "),
			gEx(preE), gEx(ea), gEx(eb))
		cf.Add(term)
		meta.Evaluations++
		meta.Case(i, desc)
		os.RemoveAll(base)
	}
	cf.Flush()
	meta.Nontrivial = nontrivial
	meta.Write(f.Out)
}

type corpusT struct {
	name string
	h    histT
}

func corpusHistories() []corpusT {
	c := cfgT{BlockRange: 1000, OOOWindow: 2500, SPC: 3, MaxEx: 8, NSeries: 2}
	tx := func(as ...appT) opT { return opT{K: "tx", App: as} }
	return []corpusT{
		{"plain", histT{Cfg: c, FirstSnap: true, Ops: []opT{
			tx(appT{0, 100, 1, true}, appT{1, 110, 2, false}), tx(appT{0, 200, 3, false}), tx(appT{0, 300, 4, true}, appT{0, 400, 5, false}),
			tx(appT{0, 250, 6, false}), {K: "del", Mint: 150, Maxt: 260, Sel: 0}, tx(appT{1, 500, 7, true})}}},
		{"stale-snapshot", histT{Cfg: c, FirstSnap: true, Ops: []opT{
			tx(appT{0, 100, 1, false}, appT{0, 200, 2, false}), {K: "restart", Snap: false},
			tx(appT{0, 300, 3, false}, appT{0, 400, 4, false}, appT{0, 500, 5, false}, appT{0, 600, 6, false}),
			{K: "del", Mint: 0, Maxt: 150, Sel: 0}, {K: "restart", Snap: true}, tx(appT{0, 700, 7, false})}}},
		{"ooo-only-series", histT{OOOOnly: 1, Idle: -1, Cfg: cfgT{BlockRange: 1000, OOOWindow: 100000, SPC: 3, MaxEx: 8, NSeries: 2}, FirstSnap: true, Ops: []opT{
			tx(appT{0, 5000, 1, false}), tx(appT{0, 5100, 2, false}),
			tx(appT{1, 3000, 3, true}, appT{1, 3010, 4, false}, appT{1, 3020, 5, false}), tx(appT{1, 3030, 6, false}, appT{1, 3040, 7, false}),
			tx(appT{1, 3050, 8, false}, appT{1, 2990, 9, false}), tx(appT{0, 5200, 10, false})}}},
		{"sample-on-block-boundary", histT{OOOOnly: -1, Idle: -1, Cfg: cfgT{BlockRange: 1000, OOOWindow: 0, SPC: 120, MaxEx: 0, NSeries: 1}, FirstSnap: true, Ops: []opT{
			tx(appT{0, 1100, 1, false}), tx(appT{0, 2000, 2, false}), tx(appT{0, 3100, 3, false}), tx(appT{0, 3400, 4, false}), {K: "compact"}}}},
		{"outdated-snapshot-nonpositive", histT{Cfg: cfgT{BlockRange: 1000, OOOWindow: 0, SPC: 120, MaxEx: 0, NSeries: 1}, FirstSnap: true, Ops: []opT{
			tx(appT{0, -300, 1, false}), {K: "restart", Snap: false}, tx(appT{0, -200, 2, false}), tx(appT{0, 0, 3, false}), tx(appT{0, 1, 4, false})}}},
		{"recreated-series", histT{Cfg: cfgT{BlockRange: 1000, OOOWindow: 0, SPC: 2, MaxEx: 0, NSeries: 2}, FirstSnap: false, Ops: []opT{
			tx(appT{0, 100, 1, false}, appT{1, 110, 2, false}), tx(appT{0, 200, 3, false}), tx(appT{1, 900, 4, false}), tx(appT{1, 1700, 5, false}),
			tx(appT{1, 2700, 6, false}), tx(appT{1, 3200, 7, false}), {K: "compact"},
			tx(appT{0, 3300, 8, false}), tx(appT{0, 3400, 9, false}), tx(appT{0, 4100, 10, false}),
			{K: "restart", Snap: false}, tx(appT{0, 4200, 11, false})}}},
		{"compaction", histT{Cfg: c, FirstSnap: true, Ops: []opT{
			tx(appT{0, 100, 1, false}, appT{1, 150, 2, false}), tx(appT{0, 900, 3, false}), tx(appT{0, 1700, 4, false}, appT{1, 1800, 5, false}),
			tx(appT{0, 2700, 6, false}), {K: "compact"}, tx(appT{0, 2800, 7, false}), {K: "del", Mint: 2000, Maxt: 2750, Sel: -1},
			tx(appT{1, 1200, 8, false})}}},
	}
}

// h_c31: correspondence harness for C31 (native histogram arithmetic).
// Drives the real FloatHistogram.Add/Sub/KahanAdd/Compact/ReduceResolution/DetectReset and
// Histogram.ToFloat/Compact/ReduceResolution on generated histograms with integer-valued
// counts (exact in float64) and writes inputs + observed outputs as Gallina terms.
package main

import (
	"errors"
	"fmt"
	"math"
	"sort"
	"strings"

	"github.com/prometheus/prometheus/model/histogram"

	"verif/harness/internal/gallina"
	"verif/harness/internal/gen"
)

// ---------------------------------------------------------------- thresholds

func bound8(p int32) float64 { return histogram.VerifBoundC31(p, 8) }

const pLo, pHi = -260000, 261000

// thrFromCode: even code 2p = the schema-8 boundary p, odd code 2p+1 = the midpoint of the gap above it.
func thrFromCode(c int64) float64 {
	if c%2 == 0 {
		return bound8(int32(c / 2))
	}
	p := int32((c - 1) / 2)
	return (bound8(p) + bound8(p+1)) / 2
}

// thrCode returns the Gallina term for threshold t and whether t is exactly representable.
func thrCode(t float64) (string, int64, bool) {
	if t == 0 {
		return "T0", 0, true
	}
	lo, hi := int32(pLo), int32(pHi)
	if !(t >= bound8(lo) && t < bound8(hi)) {
		return "T0", 0, false
	}
	for hi-lo > 1 { // invariant bound8(lo) <= t < bound8(hi)
		m := lo + (hi-lo)/2
		if bound8(m) <= t {
			lo = m
		} else {
			hi = m
		}
	}
	c := int64(lo) * 2
	if bound8(lo) != t {
		c++
	}
	return "(TC " + gallina.Z(c) + ")", c, thrFromCode(c) == t
}

// onGrid: is threshold code c a bucket boundary of schema s?
func onGrid(c int64, s int32) bool {
	if c%2 != 0 {
		return false
	}
	step := int64(1) << uint(8-s)
	return (c/2)%step == 0
}

// doubleCounted is the exact input configuration of the known finding: the zero threshold t
// lies strictly inside a bucket of the lower schema lowS (so it is not one of its boundaries),
// and the higher-resolution histogram hi has a populated bucket wholly inside the zero bucket
// [-t,t] (its count goes to the zero count) whose merged bucket at schema lowS reaches above t
// (so it is not skipped and the count is used a second time).
func doubleCounted(lowS int32, t float64, hi *histogram.FloatHistogram) bool {
	if t == 0 || hi.Schema <= lowS {
		return false
	}
	if _, code, ok := thrCode(t); !ok || onGrid(code, lowS) {
		return false
	}
	k := uint(hi.Schema - lowS)
	side := func(sp []histogram.Span, bs []float64) bool {
		for _, b := range decode(sp, bs) {
			if b.c == 0 || histogram.VerifBoundC31(b.idx, hi.Schema) > t {
				continue
			}
			if histogram.VerifBoundC31(int32((int64(b.idx)-1)>>k)+1, lowS) > t {
				return true
			}
		}
		return false
	}
	return side(hi.PositiveSpans, hi.PositiveBuckets) || side(hi.NegativeSpans, hi.NegativeBuckets)
}

// ---------------------------------------------------------------- bucket lists <-> spans

type bk struct {
	idx int32
	c   float64
}

// encode turns a strictly increasing bucket list into spans + buckets. Consecutive indices
// are put into one span, or (sometimes) into adjacent spans with offset 0; when pathological is
// set, zero-length spans are sprinkled in.
func encode(r *gen.Rand, l []bk, pathological bool) ([]histogram.Span, []float64) {
	var spans []histogram.Span
	var bs []float64
	next := int32(0)
	for i, b := range l {
		if pathological && r.Chance(1, 8) {
			// zero-length span eating part of the gap (or an offset-0 empty span)
			gap := b.idx - next
			if i == 0 {
				off := b.idx - int32(r.Range(0, 3))
				spans = append(spans, histogram.Span{Offset: off, Length: 0})
				next = off
			} else {
				off := int32(r.Range(0, int64(gap)))
				spans = append(spans, histogram.Span{Offset: off, Length: 0})
				next += off
			}
		}
		if i > 0 && b.idx == next && len(spans) > 0 && spans[len(spans)-1].Length > 0 && !r.Chance(1, 10) {
			spans[len(spans)-1].Length++
		} else {
			spans = append(spans, histogram.Span{Offset: b.idx - next, Length: 1})
		}
		bs = append(bs, b.c)
		next = b.idx + 1
	}
	return spans, bs
}

func count(r *gen.Rand) float64 {
	switch r.Intn(10) {
	case 0, 1:
		return 0
	case 2:
		return float64(r.Range(1, 3))
	case 3:
		return float64(r.Range(1<<40, 1<<44))
	default:
		return float64(r.Range(1, 1000))
	}
}

// genList: n buckets starting near `start`, with gaps.
func genList(r *gen.Rand, start int32, n int) []bk {
	var l []bk
	idx := start
	for i := 0; i < n; i++ {
		l = append(l, bk{idx, count(r)})
		switch r.Intn(6) {
		case 0:
			idx += int32(r.Range(2, 4))
		case 1:
			idx += int32(r.Range(5, 40))
		default:
			idx++
		}
	}
	return l
}

func sumList(l []bk) float64 {
	s := 0.0
	for _, b := range l {
		s += b.c
	}
	return s
}

// ---------------------------------------------------------------- generators

var hints = []histogram.CounterResetHint{histogram.UnknownCounterReset, histogram.CounterReset, histogram.NotCounterReset, histogram.GaugeType}

// pos8 of exponent e (log2 of the value) on the schema-8 grid
func idxFor(e int64, s int32) int32 {
	// boundary index at schema s whose bound is 2^e (e must be a multiple of 2^-s for s<0)
	if s >= 0 {
		return int32(e << uint(s))
	}
	return int32(e >> uint(-s))
}

// genThreshold picks a threshold code near exponent e.
func genThreshold(r *gen.Rand, e int64) float64 {
	switch r.Intn(10) {
	case 0, 1:
		return 0
	case 2:
		return bound8(-128 * 256) // the usual 2^-128
	case 3, 4, 5:
		// a boundary of some coarser schema near e
		s := int32(r.Range(-2, 8))
		i := idxFor(e, s) + int32(r.Range(-2, 3))
		return histogram.VerifBoundC31(i, s)
	case 6:
		return thrFromCode((e*256+r.Range(-300, 300))*2 + 1) // strictly between two schema-8 boundaries
	default:
		return thrFromCode((e*256 + r.Range(-600, 600)) * 2)
	}
}

func makeWF(h *histogram.FloatHistogram) {
	fix := func(spans []histogram.Span, bs []float64) {
		idx := int32(0)
		k := 0
		for _, s := range spans {
			idx += s.Offset
			for j := 0; j < int(s.Length); j++ {
				if histogram.VerifBoundC31(idx, h.Schema) <= h.ZeroThreshold {
					bs[k] = 0
				}
				idx++
				k++
			}
		}
	}
	fix(h.PositiveSpans, h.PositiveBuckets)
	fix(h.NegativeSpans, h.NegativeBuckets)
}

func genExpAt(r *gen.Rand, s int32, e int64, pathological bool) *histogram.FloatHistogram {
	h := &histogram.FloatHistogram{Schema: s, CounterResetHint: hints[r.Intn(4)]}
	if r.Chance(1, 2) {
		h.CounterResetHint = histogram.UnknownCounterReset
	}
	h.ZeroThreshold = genThreshold(r, e)
	h.ZeroCount = count(r)
	width := int64(3)
	if s > 0 {
		width = int64(3) << uint(s)
		if width > 40 {
			width = 40
		}
	}
	np, nn := r.Intn(7), r.Intn(5)
	if r.Chance(1, 10) {
		np = 0
	}
	pl := inRange(genList(r, idxFor(e, s)+int32(r.Range(-width, width)), np), s)
	nl := inRange(genList(r, idxFor(e, s)+int32(r.Range(-width, width)), nn), s)
	h.PositiveSpans, h.PositiveBuckets = encode(r, pl, pathological)
	h.NegativeSpans, h.NegativeBuckets = encode(r, nl, pathological)
	if !r.Chance(1, 12) {
		makeWF(h)
	}
	h.Count = h.ZeroCount + sumF(h.PositiveBuckets) + sumF(h.NegativeBuckets)
	if r.Chance(1, 10) {
		h.Count += float64(r.Range(1, 5)) // NaN observations
	}
	h.Sum = float64(r.Range(-100000, 100000))
	return h
}

// inRange keeps the buckets whose bounds are ordinary float64 numbers (no under/overflow of
// 2^(idx*2^-schema)), so that bounds stay strictly monotone in the index.
func inRange(l []bk, s int32) []bk {
	var out []bk
	for _, b := range l {
		lo, hi := histogram.VerifBoundC31(b.idx-1, s), histogram.VerifBoundC31(b.idx, s)
		if lo > 1e-280 && hi < 1e280 {
			out = append(out, b)
		}
	}
	return out
}

func sumF(l []float64) float64 {
	s := 0.0
	for _, v := range l {
		s += v
	}
	return s
}

func genSchema(r *gen.Rand) int32 { return int32(r.Range(-4, 8)) }

func genExp(r *gen.Rand) *histogram.FloatHistogram {
	s := genSchema(r)
	e := r.Range(-3, 3) * 16
	return genExpAt(r, s, e, r.Chance(1, 10))
}

func genBounds(r *gen.Rand) []float64 {
	n := r.Intn(8)
	var b []float64
	v := float64(r.Range(-5, 5))
	for i := 0; i < n; i++ {
		b = append(b, v)
		v += float64(r.Range(1, 4))
	}
	return b
}

func mutateBounds(r *gen.Rand, b []float64) []float64 {
	var out []float64
	for i, v := range b {
		if r.Chance(1, 4) {
			continue // drop
		}
		if r.Chance(1, 5) && (i == 0 || b[i-1] < v-1) && (len(out) == 0 || out[len(out)-1] < v-1) {
			out = append(out, v-1) // extra bound just below (integers with gaps >= 2 only)
			if r.Chance(1, 2) {
				continue
			}
		}
		out = append(out, v)
	}
	if r.Chance(1, 4) {
		last := float64(40)
		if len(out) > 0 {
			last = out[len(out)-1] + float64(r.Range(1, 3))
		}
		out = append(out, last)
	}
	for i := 1; i < len(out); i++ {
		if out[i] <= out[i-1] {
			return b
		}
	}
	return out
}

func genCustom(r *gen.Rand, bounds []float64) *histogram.FloatHistogram {
	h := &histogram.FloatHistogram{Schema: histogram.CustomBucketsSchema, CustomValues: bounds, CounterResetHint: hints[r.Intn(4)]}
	if r.Chance(1, 2) {
		h.CounterResetHint = histogram.UnknownCounterReset
	}
	var l []bk
	for i := 0; i <= len(bounds); i++ {
		if r.Chance(2, 3) {
			l = append(l, bk{int32(i), count(r)})
		}
	}
	h.PositiveSpans, h.PositiveBuckets = encode(r, l, false)
	h.Count = sumF(h.PositiveBuckets)
	h.Sum = float64(r.Range(-1000, 1000))
	return h
}

func toInt(r *gen.Rand, f *histogram.FloatHistogram) *histogram.Histogram {
	h := &histogram.Histogram{Schema: f.Schema, CounterResetHint: f.CounterResetHint, ZeroThreshold: f.ZeroThreshold,
		ZeroCount: uint64(f.ZeroCount), Count: uint64(f.Count), Sum: f.Sum, CustomValues: f.CustomValues,
		PositiveSpans: append([]histogram.Span(nil), f.PositiveSpans...), NegativeSpans: append([]histogram.Span(nil), f.NegativeSpans...)}
	d := func(bs []float64) []int64 {
		var out []int64
		prev := int64(0)
		for _, v := range bs {
			out = append(out, int64(v)-prev)
			prev = int64(v)
		}
		return out
	}
	h.PositiveBuckets, h.NegativeBuckets = d(f.PositiveBuckets), d(f.NegativeBuckets)
	return h
}

// ---------------------------------------------------------------- printing

type printer struct {
	nonInt    bool
	inexact   bool // an output threshold is off the grid family
	inexactIn bool // an input threshold is off the grid family: the case is skipped
	outputs   bool // set once the inputs have been printed
}

func (p *printer) zi(v float64) string {
	if v != math.Trunc(v) || math.Abs(v) >= 1<<53 || math.IsNaN(v) {
		p.nonInt = true
		return gallina.Z(0)
	}
	return gallina.Z(int64(v))
}

func (p *printer) spans(sp []histogram.Span) string {
	it := make([]string, len(sp))
	for i, s := range sp {
		it[i] = fmt.Sprintf("mkSpan %s %s", gallina.Z(int64(s.Offset)), gallina.Z(int64(s.Length)))
	}
	return gallina.List(it)
}

func (p *printer) floats(l []float64) string {
	it := make([]string, len(l))
	for i, v := range l {
		it[i] = p.zi(v)
	}
	return gallina.List(it)
}

func (p *printer) thr(t float64) string {
	s, _, ok := thrCode(t)
	if !ok {
		if p.outputs {
			p.inexact = true
		} else {
			p.inexactIn = true
		}
	}
	return s
}

func (p *printer) fh(h *histogram.FloatHistogram) string {
	return fmt.Sprintf("(mkRF %d %s %s %s %s %s %s %s %s %s %s)", h.CounterResetHint, gallina.Z(int64(h.Schema)),
		p.thr(h.ZeroThreshold), p.zi(h.ZeroCount), p.zi(h.Count), p.zi(h.Sum),
		p.spans(h.PositiveSpans), p.floats(h.PositiveBuckets), p.spans(h.NegativeSpans), p.floats(h.NegativeBuckets),
		p.floats(h.CustomValues))
}

func (p *printer) ih(h *histogram.Histogram) string {
	return fmt.Sprintf("(mkRI %d %s %s %s %s %s %s %s %s %s %s)", h.CounterResetHint, gallina.Z(int64(h.Schema)),
		p.thr(h.ZeroThreshold), gallina.ZU(h.ZeroCount), gallina.ZU(h.Count), p.zi(h.Sum),
		p.spans(h.PositiveSpans), gallina.ListZ(h.PositiveBuckets), p.spans(h.NegativeSpans), gallina.ListZ(h.NegativeBuckets),
		p.floats(h.CustomValues))
}

func errTerm(err error) string {
	switch {
	case errors.Is(err, histogram.ErrHistogramSpanNegativeOffset):
		return "ESpanNegOffset"
	case errors.Is(err, histogram.ErrHistogramSpansBucketsMismatch):
		return "ESpansBucketsMismatch"
	case errors.Is(err, histogram.ErrHistogramsIncompatibleSchema):
		return "EIncompatible"
	default:
		return "EReduceArgs"
	}
}

func short(h *histogram.FloatHistogram) string {
	return fmt.Sprintf("schema=%d zt=%g zc=%g count=%g sum=%g hint=%d +spans=%v +b=%v -spans=%v -b=%v cv=%v",
		h.Schema, h.ZeroThreshold, h.ZeroCount, h.Count, h.Sum, h.CounterResetHint, h.PositiveSpans, h.PositiveBuckets, h.NegativeSpans, h.NegativeBuckets, h.CustomValues)
}

func shortI(h *histogram.Histogram) string {
	return fmt.Sprintf("schema=%d zt=%g zc=%d count=%d sum=%g hint=%d +spans=%v +d=%v -spans=%v -d=%v cv=%v",
		h.Schema, h.ZeroThreshold, h.ZeroCount, h.Count, h.Sum, h.CounterResetHint, h.PositiveSpans, h.PositiveBuckets, h.NegativeSpans, h.NegativeBuckets, h.CustomValues)
}

type desc struct {
	Op     string `json:"op"`
	A      string `json:"a,omitempty"`
	B      string `json:"b,omitempty"`
	Arg    int    `json:"arg,omitempty"`
	Obs    string `json:"obs"`
	Shape  string `json:"shape"`
	Corpus string `json:"corpus,omitempty"`
}

// ---------------------------------------------------------------- main

type H struct {
	f    gallina.Flags
	meta *gallina.Meta
	cf   *gallina.CaseFile
	id   int
	seen map[string]bool
}

func (x *H) emit(body string, d desc, nontrivial bool, p *printer, classes ...string) {
	if p.inexactIn {
		x.meta.Hit("skipped-input-threshold-off-grid-family")
		return
	}
	if x.seen[body] {
		x.meta.Hit("duplicate-skipped")
		return
	}
	x.seen[body] = true
	for _, c := range classes {
		x.meta.Hit(c)
	}
	if nontrivial {
		x.meta.Nontrivial++
	}
	x.cf.Add(fmt.Sprintf("mkCase %s (%s)", gallina.Z(int64(x.id)), body))
	x.meta.Case(x.id, d)
	if p.nonInt {
		x.meta.GoViol = append(x.meta.GoViol, gallina.GoViolation{ID: fmt.Sprint(x.id), Shape: d.Shape, What: "non-integer, NaN or >= 2^53 value in an output on integer inputs"})
	}
	if p.inexact {
		x.meta.GoViol = append(x.meta.GoViol, gallina.GoViolation{ID: fmt.Sprint(x.id), Shape: d.Shape, What: "zero threshold in an output is neither an input threshold nor a bucket boundary"})
	}
	x.meta.Evaluations++
	x.id++
}

func hasEmptySpan(h *histogram.FloatHistogram) bool {
	for _, s := range h.PositiveSpans {
		if s.Length == 0 {
			return true
		}
	}
	for _, s := range h.NegativeSpans {
		if s.Length == 0 {
			return true
		}
	}
	return false
}

func populated(h *histogram.FloatHistogram) int {
	n := 0
	for _, v := range h.PositiveBuckets {
		if v != 0 {
			n++
		}
	}
	for _, v := range h.NegativeBuckets {
		if v != 0 {
			n++
		}
	}
	return n
}

func allZero(c *histogram.FloatHistogram) bool {
	if c == nil {
		return false
	}
	if c.ZeroCount != 0 || c.Count != 0 || c.Sum != 0 {
		return false
	}
	for _, v := range c.PositiveBuckets {
		if v != 0 {
			return false
		}
	}
	for _, v := range c.NegativeBuckets {
		if v != 0 {
			return false
		}
	}
	return true
}

// op: 0 Add, 1 Sub, 2 KahanAdd
func (x *H) arith(op int, a, b *histogram.FloatHistogram, corpus string) {
	p := &printer{}
	as, bs := p.fh(a), p.fh(b)
	p.outputs = true
	recv := a.Copy()
	bBefore := b.Copy()
	var (
		res          *histogram.FloatHistogram
		c            *histogram.FloatHistogram
		coll, recon  bool
		err          error
		panicked     any
	)
	func() {
		defer func() { panicked = recover() }()
		switch op {
		case 0:
			res, coll, recon, err = recv.Add(b)
		case 1:
			res, coll, recon, err = recv.Sub(b)
		default:
			c, coll, recon, err = recv.KahanAdd(b, nil)
			res = recv
		}
	}()
	sgn, kahan := "1", "false"
	name := "Add"
	if op == 1 {
		sgn, name = "(-1)", "Sub"
	}
	if op == 2 {
		kahan, name = "true", "KahanAdd"
	}
	var obs, obsS string
	czero := true
	switch {
	case panicked != nil:
		obs, obsS = "(OErr EPanic)", fmt.Sprint("panic: ", panicked)
	case err != nil:
		obs, obsS = "(OErr "+errTerm(err)+")", err.Error()
	default:
		obs = fmt.Sprintf("(OHist %s %s %s)", p.fh(res), gallina.Bool(coll), gallina.Bool(recon))
		obsS = short(res)
		if op == 2 {
			czero = allZero(c)
		}
	}
	classes := []string{"op:" + name}
	shape := "arith"
	if a.UsesCustomBuckets() != b.UsesCustomBuckets() {
		classes = append(classes, "arith:incompatible")
	} else if a.UsesCustomBuckets() {
		if histogram.CustomBucketBoundsMatch(a.CustomValues, b.CustomValues) {
			classes = append(classes, "arith:custom-same-bounds")
		} else {
			classes = append(classes, "arith:custom-mismatched-bounds")
		}
	} else {
		switch {
		case a.Schema == b.Schema:
			classes = append(classes, "arith:schema-same")
		case a.Schema > b.Schema:
			classes = append(classes, "arith:receiver-higher-res")
		default:
			classes = append(classes, "arith:other-higher-res")
		}
		if res != nil && err == nil && panicked == nil {
			switch {
			case a.ZeroThreshold == b.ZeroThreshold:
				classes = append(classes, "zero:same-threshold")
			case res.ZeroThreshold == math.Max(a.ZeroThreshold, b.ZeroThreshold):
				if a.ZeroThreshold > b.ZeroThreshold {
					classes = append(classes, "zero:other-widened")
				} else {
					classes = append(classes, "zero:receiver-widened")
				}
			default:
				classes = append(classes, "zero:threshold-moved-to-bucket-bound")
			}
			if b.Schema > a.Schema && doubleCounted(a.Schema, res.ZeroThreshold, b) {
				// known finding: buckets of `other` already counted in the zero bucket are
				// counted again in the merged lower-resolution bucket that the threshold cuts
				shape = "arith-other-higher-res-threshold-off-grid"
				classes = append(classes, "arith:finding-double-count-configuration")
			}
		}
	}
	if hasEmptySpan(a) {
		// known finding: addBuckets adds to bucketsA[0] / walks spansA without checking Length > 0
		if shape == "arith" {
			shape = "arith-receiver-zero-length-span"
		}
		classes = append(classes, "arith:receiver-has-zero-length-span")
	}
	if !b.Equals(bBefore) || b.CounterResetHint != bBefore.CounterResetHint {
		x.meta.GoViol = append(x.meta.GoViol, gallina.GoViolation{ID: fmt.Sprint(x.id), Shape: shape, What: name + " modified the other histogram"})
	}
	body := fmt.Sprintf("BArith %s %s %s %s %s %s", sgn, kahan, as, bs, obs, gallina.Bool(czero))
	x.emit(body, desc{Op: name, A: short(a), B: short(b), Obs: obsS, Shape: shape, Corpus: corpus},
		populated(a) > 0 && populated(b) > 0, p, classes...)
}

func (x *H) compact(a *histogram.FloatHistogram, k int) {
	p := &printer{}
	as := p.fh(a)
	p.outputs = true
	out := a.Copy().Compact(k)
	body := fmt.Sprintf("BCompact %s %s %s", gallina.Z(int64(k)), as, p.fh(out))
	cl := "compact:unchanged"
	if len(out.PositiveBuckets) != len(a.PositiveBuckets) || len(out.NegativeBuckets) != len(a.NegativeBuckets) {
		cl = "compact:buckets-changed"
	} else if len(out.PositiveSpans) != len(a.PositiveSpans) || len(out.NegativeSpans) != len(a.NegativeSpans) {
		cl = "compact:spans-changed"
	}
	x.emit(body, desc{Op: "Compact", A: short(a), Arg: k, Obs: short(out), Shape: "compact"}, cl != "compact:unchanged", p,
		"op:Compact", cl, fmt.Sprintf("compact:max-empty-%d", k))
}

func (x *H) reduce(a *histogram.FloatHistogram, t int32) {
	p := &printer{}
	as := p.fh(a)
	p.outputs = true
	cp := a.Copy()
	err := cp.ReduceResolution(t)
	var obs, obsS, cl string
	if err != nil {
		obs, obsS, cl = "(OErr "+errTerm(err)+")", err.Error(), "reduce:error-"+errTerm(err)
	} else {
		obs, obsS, cl = fmt.Sprintf("(OHist %s false false)", p.fh(cp)), short(cp), "reduce:ok"
	}
	body := fmt.Sprintf("BReduce %s %s %s", gallina.Z(int64(t)), as, obs)
	x.emit(body, desc{Op: "ReduceResolution", A: short(a), Arg: int(t), Obs: obsS, Shape: "reduce"}, err == nil && populated(a) > 1, p, "op:ReduceResolution", cl)
}

func (x *H) detect(cur, prev *histogram.FloatHistogram, how, corpus string) {
	p := &printer{}
	cs, ps := p.fh(cur), p.fh(prev)
	p.outputs = true
	before := prev.Copy()
	var out bool
	var panicked any
	func() {
		defer func() { panicked = recover() }()
		out = cur.DetectReset(prev)
	}()
	if panicked != nil {
		x.meta.GoViol = append(x.meta.GoViol, gallina.GoViolation{ID: fmt.Sprint(x.id), Shape: "detect", What: fmt.Sprint("DetectReset panicked: ", panicked)})
	}
	shape := "detect"
	if !cur.UsesCustomBuckets() && !prev.UsesCustomBuckets() && prev.Schema > cur.Schema && cur.ZeroThreshold > prev.ZeroThreshold &&
		doubleCounted(cur.Schema, cur.ZeroThreshold, prev) {
		shape = "detect-prev-higher-res-threshold-off-grid"
	}
	if !prev.Equals(before) {
		x.meta.GoViol = append(x.meta.GoViol, gallina.GoViolation{ID: fmt.Sprint(x.id), Shape: shape, What: "DetectReset modified the previous histogram"})
	}
	body := fmt.Sprintf("BDetect %s %s %s", cs, ps, gallina.Bool(out))
	x.emit(body, desc{Op: "DetectReset", A: short(cur), B: short(prev), Obs: fmt.Sprint(out), Shape: shape, Corpus: corpus},
		populated(prev) > 0, p, "op:DetectReset", "detect:"+how, fmt.Sprintf("detect:result-%v", out))
}

func (x *H) toFloat(h *histogram.Histogram, reuse *histogram.FloatHistogram) {
	p := &printer{}
	hs := p.ih(h)
	p.outputs = true
	out := h.ToFloat(reuse)
	body := fmt.Sprintf("BToFloat %s %s", hs, p.fh(out))
	cl := "tofloat:fresh"
	if reuse != nil {
		cl = "tofloat:reused-target"
	}
	x.emit(body, desc{Op: "ToFloat", A: shortI(h), Obs: short(out), Shape: "tofloat"}, len(h.PositiveBuckets)+len(h.NegativeBuckets) > 1, p, "op:ToFloat", cl)
}

func (x *H) icompact(h *histogram.Histogram, k int) {
	p := &printer{}
	hs := p.ih(h)
	p.outputs = true
	out := h.Copy().Compact(k)
	body := fmt.Sprintf("BICompact %s %s %s", gallina.Z(int64(k)), hs, p.ih(out))
	cl := "icompact:unchanged"
	if len(out.PositiveBuckets) != len(h.PositiveBuckets) || len(out.NegativeBuckets) != len(h.NegativeBuckets) || len(out.PositiveSpans) != len(h.PositiveSpans) || len(out.NegativeSpans) != len(h.NegativeSpans) {
		cl = "icompact:changed"
	}
	x.emit(body, desc{Op: "Histogram.Compact", A: shortI(h), Arg: k, Obs: shortI(out), Shape: "icompact"}, cl == "icompact:changed", p, "op:Histogram.Compact", cl)
}

func (x *H) ireduce(h *histogram.Histogram, t int32) {
	p := &printer{}
	hs := p.ih(h)
	p.outputs = true
	cp := h.Copy()
	err := cp.ReduceResolution(t)
	var obs, obsS, cl string
	if err != nil {
		obs, obsS, cl = "(OIErr "+errTerm(err)+")", err.Error(), "ireduce:error-"+errTerm(err)
	} else {
		obs, obsS, cl = "(OIHist "+p.ih(cp)+")", shortI(cp), "ireduce:ok"
	}
	body := fmt.Sprintf("BIReduce %s %s %s", gallina.Z(int64(t)), hs, obs)
	x.emit(body, desc{Op: "Histogram.ReduceResolution", A: shortI(h), Arg: int(t), Obs: obsS, Shape: "ireduce"}, err == nil && len(h.PositiveBuckets) > 1, p, "op:Histogram.ReduceResolution", cl)
}

// decode spans/buckets into a sorted bucket list
func decode(sp []histogram.Span, bs []float64) []bk {
	var l []bk
	idx := int32(0)
	k := 0
	for _, s := range sp {
		idx += s.Offset
		for j := 0; j < int(s.Length) && k < len(bs); j++ {
			l = append(l, bk{idx, bs[k]})
			idx++
			k++
		}
	}
	return l
}

// successor builds a "later scrape" of prev: lower or equal resolution, wider or equal zero
// bucket, counts grown; how says which perturbation (if any) was applied.
func successor(r *gen.Rand, prev *histogram.FloatHistogram) (*histogram.FloatHistogram, string) {
	cur := &histogram.FloatHistogram{Schema: prev.Schema, ZeroThreshold: prev.ZeroThreshold, ZeroCount: prev.ZeroCount, CounterResetHint: histogram.UnknownCounterReset}
	if r.Chance(1, 12) {
		cur.CounterResetHint = hints[r.Intn(4)]
	}
	how := "grown"
	if r.Chance(1, 2) && prev.Schema > -4 {
		cur.Schema = int32(r.Range(-4, int64(prev.Schema)-1))
		how = "grown-lower-res"
	}
	if r.Chance(1, 3) {
		// widen the zero bucket to some threshold near the buckets
		_, pc, _ := thrCode(prev.ZeroThreshold)
		var nt float64
		if r.Chance(1, 2) {
			// a boundary of the current schema near prev's first buckets
			l := decode(prev.PositiveSpans, prev.PositiveBuckets)
			if len(l) > 0 {
				i := l[r.Intn(len(l))].idx
				nt = histogram.VerifBoundC31(int32((int64(i)-1)>>uint(prev.Schema-cur.Schema))+1, cur.Schema)
			}
		} else if prev.ZeroThreshold != 0 {
			nt = thrFromCode(pc + r.Range(1, 2000))
		}
		if _, _, ok := thrCode(nt); ok && nt > prev.ZeroThreshold {
			cur.ZeroThreshold = nt
			how += "-wider-zero"
		}
	}
	k := uint(prev.Schema - cur.Schema)
	conv := func(sp []histogram.Span, bs []float64) []bk {
		m := map[int32]float64{}
		for _, b := range decode(sp, bs) {
			if cur.ZeroThreshold != prev.ZeroThreshold && histogram.VerifBoundC31(b.idx-1, prev.Schema) < cur.ZeroThreshold {
				cur.ZeroCount += b.c // moves into the zero bucket (a cut bucket too: that is a reset anyway)
				continue
			}
			t := int32((int64(b.idx)-1)>>k) + 1
			m[t] += b.c
		}
		var l []bk
		for i, c := range m {
			l = append(l, bk{i, c + float64(r.Range(0, 50))})
		}
		if r.Chance(1, 3) && len(l) > 0 {
			l = append(l, bk{l[r.Intn(len(l))].idx + int32(r.Range(1, 30)), count(r)})
		}
		sort.Slice(l, func(i, j int) bool { return l[i].idx < l[j].idx })
		var d []bk
		for i, b := range l {
			if i > 0 && b.idx == l[i-1].idx {
				continue
			}
			d = append(d, b)
		}
		return d
	}
	pl, nl := inRange(conv(prev.PositiveSpans, prev.PositiveBuckets), cur.Schema), inRange(conv(prev.NegativeSpans, prev.NegativeBuckets), cur.Schema)
	cur.ZeroCount += float64(r.Range(0, 20))
	perturb := r.Intn(10)
	switch {
	case perturb == 0 && len(pl) > 0:
		i := r.Intn(len(pl))
		if pl[i].c > 0 {
			pl[i].c--
			how += "-bucket-decremented"
		}
	case perturb == 1 && len(nl) > 0:
		i := r.Intn(len(nl))
		if nl[i].c > 0 {
			nl[i].c -= float64(r.Range(1, int64(nl[i].c)))
			how += "-bucket-decremented"
		}
	case (perturb == 2 || perturb == 5) && len(pl) > 0:
		i := r.Intn(len(pl))
		pl = append(pl[:i:i], pl[i+1:]...)
		how += "-bucket-removed"
	case perturb == 6 && len(nl) > 0:
		i := r.Intn(len(nl))
		nl = append(nl[:i:i], nl[i+1:]...)
		how += "-bucket-removed"
	case perturb == 3 && cur.ZeroCount > 0:
		cur.ZeroCount--
		how += "-zero-decremented"
	}
	cur.PositiveSpans, cur.PositiveBuckets = encode(r, pl, false)
	cur.NegativeSpans, cur.NegativeBuckets = encode(r, nl, false)
	makeWF(cur)
	cur.Count = math.Max(prev.Count, cur.ZeroCount+sumF(cur.PositiveBuckets)+sumF(cur.NegativeBuckets))
	if perturb == 4 && prev.Count > 0 {
		cur.Count = prev.Count - 1
		how += "-count-decremented"
	}
	cur.Sum = prev.Sum + float64(r.Range(-5, 100))
	return cur, how
}

func main() {
	f := gallina.ParseFlags()
	meta := gallina.NewMeta("C31", f.Seed, f.Tier)
	meta.Rule = "corpus + seeded random valid histograms (exponential schemas -4..8, custom buckets with integer bounds, positive/negative spans with gaps, zero thresholds 0 / 2^-128 / on and between bucket boundaries, integer counts incl. 0 and ~2^44) and pairs of them; for DetectReset the current histogram is derived from the previous one (grown, lower resolution, wider zero bucket, optionally one perturbation) or independent; non-trivial = arith: both operands have a populated bucket; compact/reduce: layout changed / >1 populated bucket; detect: previous has a populated bucket; distinct by the full printed case term"
	cf := &gallina.CaseFile{Dir: f.Out, Type: "case", PerShard: 1500,
		Preamble: "From Coq Require Import List ZArith.\nFrom Verif Require Import model.HistArith corr.CorrC31.\nImport ListNotations.\nOpen Scope Z_scope.\n",
		Footer:   gallina.StdFooter}
	x := &H{f: f, meta: meta, cf: cf, seen: map[string]bool{}}

	// ---- corpus: reproducers of the findings, always first
	{
		zt := histogram.VerifBoundC31(1, 3) // 2^(1/8): a boundary of schema 3 but not of schema 0
		a := &histogram.FloatHistogram{Schema: 0, ZeroThreshold: zt, ZeroCount: 1, Count: 4,
			PositiveSpans: []histogram.Span{{Offset: 2, Length: 1}}, PositiveBuckets: []float64{3}}
		b := &histogram.FloatHistogram{Schema: 3, ZeroCount: 0, Count: 12,
			PositiveSpans: []histogram.Span{{Offset: 1, Length: 2}}, PositiveBuckets: []float64{5, 7}}
		x.arith(0, a, b, "finding-add-double-count")
		x.arith(0, b, a, "finding-add-double-count-commuted-ok")
		x.arith(1, a, b, "finding-sub-double-count")
		x.arith(2, a, b, "finding-kahanadd-double-count")
		prev := &histogram.FloatHistogram{Schema: 3, Count: 5,
			PositiveSpans: []histogram.Span{{Offset: 1, Length: 1}}, PositiveBuckets: []float64{5}}
		cur := &histogram.FloatHistogram{Schema: 0, ZeroThreshold: zt, ZeroCount: 5, Count: 5}
		x.detect(cur, prev, "corpus", "finding-detect-spurious-reset")
		// zero-length first span in the receiver: b's bucket lands in the wrong bucket
		za := &histogram.FloatHistogram{Schema: 0, Count: 5, PositiveSpans: []histogram.Span{{Offset: 0, Length: 0}, {Offset: 2, Length: 1}}, PositiveBuckets: []float64{5}}
		zb := &histogram.FloatHistogram{Schema: 0, Count: 7, PositiveSpans: []histogram.Span{{Offset: 0, Length: 1}}, PositiveBuckets: []float64{7}}
		x.arith(0, za, zb, "finding-add-zero-length-span")
		x.arith(0, zb, za, "finding-add-zero-length-span-commuted-ok")
		x.arith(2, za, zb, "finding-kahanadd-zero-length-span")
	}

	nA := f.Count(420, 6000)
	for i := 0; i < nA; i++ {
		r := gen.Fork(f.Seed, i)
		var a, b *histogram.FloatHistogram
		switch k := r.Intn(20); {
		case k < 13: // two exponential histograms around a common region
			e := r.Range(-3, 3) * 16
			sa := genSchema(r)
			sb := genSchema(r)
			if r.Chance(1, 3) {
				sb = sa
			}
			a, b = genExpAt(r, sa, e, r.Chance(1, 25)), genExpAt(r, sb, e, false)
			if r.Chance(1, 3) {
				b.ZeroThreshold = a.ZeroThreshold
				makeWF(b)
				b.Count = b.ZeroCount + sumF(b.PositiveBuckets) + sumF(b.NegativeBuckets)
			}
		case k < 19: // custom
			ba := genBounds(r)
			bb := ba
			if r.Chance(2, 3) {
				bb = mutateBounds(r, ba)
			}
			if r.Chance(1, 10) {
				bb = genBounds(r)
			}
			a, b = genCustom(r, ba), genCustom(r, bb)
		default: // incompatible
			a, b = genExp(r), genCustom(r, genBounds(r))
			if r.Bool() {
				a, b = b, a
			}
		}
		x.arith(r.Intn(3), a, b, "")
	}

	nC := f.Count(130, 1500)
	for i := 0; i < nC; i++ {
		r := gen.Fork(f.Seed, 1000000+i)
		var a *histogram.FloatHistogram
		if r.Chance(1, 6) {
			a = genCustom(r, genBounds(r))
		} else {
			a = genExpAt(r, genSchema(r), r.Range(-3, 3)*16, r.Chance(1, 4))
		}
		x.compact(a, int(r.PickI64(0, 0, 1, 2, 3, 5)))
	}

	nR := f.Count(90, 1000)
	for i := 0; i < nR; i++ {
		r := gen.Fork(f.Seed, 2000000+i)
		a := genExpAt(r, genSchema(r), r.Range(-3, 3)*16, r.Chance(1, 4))
		t := int32(r.Range(-4, int64(a.Schema)))
		if r.Chance(1, 12) {
			t = int32(r.PickI64(int64(a.Schema), int64(a.Schema)+1, -53))
		}
		switch r.Intn(14) {
		case 0:
			if len(a.PositiveSpans) > 1 {
				a.PositiveSpans[1+r.Intn(len(a.PositiveSpans)-1)].Offset = -int32(r.Range(1, 3))
			}
		case 1:
			a.PositiveBuckets = append(a.PositiveBuckets, 7)
		case 2:
			if len(a.NegativeBuckets) > 0 {
				a.NegativeBuckets = a.NegativeBuckets[:len(a.NegativeBuckets)-1]
			}
		case 3:
			a = genCustom(r, genBounds(r))
		}
		x.reduce(a, t)
	}

	nD := f.Count(300, 4500)
	for i := 0; i < nD; i++ {
		r := gen.Fork(f.Seed, 3000000+i)
		switch k := r.Intn(20); {
		case k < 12:
			prev := genExpAt(r, genSchema(r), r.Range(-3, 3)*16, false)
			prev.CounterResetHint = histogram.UnknownCounterReset
			cur, how := successor(r, prev)
			x.detect(cur, prev, how, "")
		case k < 14: // independent exponential pair
			e := r.Range(-3, 3) * 16
			x.detect(genExpAt(r, genSchema(r), e, false), genExpAt(r, genSchema(r), e, false), "independent", "")
		case k < 19: // custom: grown, possibly other bounds
			ba := genBounds(r)
			prev := genCustom(r, ba)
			bb := ba
			how := "custom-same-bounds"
			if r.Chance(1, 2) {
				bb = mutateBounds(r, ba)
				how = "custom-mutated-bounds"
			}
			cur := genCustom(r, bb)
			cur.CounterResetHint = histogram.UnknownCounterReset
			if r.Chance(2, 3) {
				// make cur dominate prev: every prev bucket's count is added to the cur bucket covering it
				l := decode(cur.PositiveSpans, cur.PositiveBuckets)
				m := map[int32]float64{}
				for _, b := range l {
					m[b.idx] = b.c
				}
				for _, b := range decode(prev.PositiveSpans, prev.PositiveBuckets) {
					ub := math.Inf(1)
					if int(b.idx) < len(ba) {
						ub = ba[b.idx]
					}
					t := int32(len(bb))
					for j, v := range bb {
						if v >= ub {
							t = int32(j)
							break
						}
					}
					m[t] += b.c
				}
				l = l[:0]
				for i, c := range m {
					l = append(l, bk{i, c})
				}
				sort.Slice(l, func(i, j int) bool { return l[i].idx < l[j].idx })
				if r.Chance(1, 4) && len(l) > 0 {
					j := r.Intn(len(l))
					if l[j].c > 0 {
						l[j].c--
						how += "-decremented"
					}
				}
				cur.PositiveSpans, cur.PositiveBuckets = encode(r, l, false)
				cur.Count = math.Max(prev.Count, sumF(cur.PositiveBuckets))
				how += "-grown"
			}
			x.detect(cur, prev, how, "")
		default: // type change
			a, b := genExp(r), genCustom(r, genBounds(r))
			if r.Bool() {
				a, b = b, a
			}
			a.CounterResetHint = histogram.UnknownCounterReset
			if a.Count < b.Count {
				a.Count = b.Count
			}
			x.detect(a, b, "type-change", "")
		}
	}

	nI := f.Count(170, 2000)
	for i := 0; i < nI; i++ {
		r := gen.Fork(f.Seed, 4000000+i)
		var fh *histogram.FloatHistogram
		if r.Chance(1, 6) {
			fh = genCustom(r, genBounds(r))
		} else {
			fh = genExpAt(r, genSchema(r), r.Range(-3, 3)*16, r.Chance(1, 4))
		}
		h := toInt(r, fh)
		switch k := r.Intn(10); {
		case k < 3:
			var reuse *histogram.FloatHistogram
			if r.Bool() {
				reuse = genExp(r)
				if r.Bool() {
					reuse = genCustom(r, genBounds(r))
				}
			}
			x.toFloat(h, reuse)
		case k < 7:
			x.icompact(h, int(r.PickI64(0, 0, 1, 2, 3, 5)))
		default:
			t := int32(r.Range(-4, int64(h.Schema)))
			if h.UsesCustomBuckets() {
				t = 0
			}
			if r.Chance(1, 10) && len(h.PositiveSpans) > 1 {
				h.PositiveSpans[1].Offset = -1
			}
			x.ireduce(h, t)
		}
	}

	cf.Flush()
	var keys []string
	for k := range meta.Dist {
		keys = append(keys, k)
	}
	sort.Strings(keys)
	meta.Notes = append(meta.Notes, "classes: "+strings.Join(keys, ", "))
	meta.Write(f.Out)
}

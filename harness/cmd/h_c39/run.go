package main

import (
	"fmt"
	"strings"

	"github.com/cespare/xxhash/v2"

	"github.com/prometheus/prometheus/model/labels"
)

// K registers (must match K in coq/model/LabelsX.v).
const K = 4

// Op kinds (names match the Coq constructors).
type Op struct {
	K    string      `json:"k"`
	R    int         `json:"r,omitempty"`
	N    []byte      `json:"n,omitempty"`
	V    []byte      `json:"v,omitempty"`
	Ns   [][]byte    `json:"ns,omitempty"`
	Ls   [][2][]byte `json:"ls,omitempty"`
	Ctor string      `json:"ctor,omitempty"` // ONew: new|fromstrings|frommap
}

type Prog struct {
	Ops     []Op     `json:"ops"`
	Probes  [][]byte `json:"probes"`
	Prefill int      `json:"prefill"` // symbols put into the shared symbol table first (dedupelabels only; no effect elsewhere)
}

type Get struct {
	V []byte `json:"v"`
	H bool   `json:"h"`
}

type LObs struct {
	Range [][2][]byte `json:"range"`
	Len   int         `json:"len"`
	Empty bool        `json:"empty"`
	Str   []byte      `json:"str"`
	Bytes []byte      `json:"bytes"`
	Hash  uint64      `json:"hash"`
	// StableHash and its reference: xxhash64 over (name 0xff value 0xff)* of the Range output
	Stable    uint64 `json:"stable"`
	StableRef uint64 `json:"stable_ref"`
	Gets  []Get       `json:"gets"`
}

type Event struct {
	Get   []byte      `json:"get,omitempty"`
	Range [][2][]byte `json:"range,omitempty"`
	IsGet bool        `json:"isget"`
}

type Trans struct {
	Panic  string  `json:"panic,omitempty"`
	Events []Event `json:"events"`
	Regs   []LObs  `json:"regs"`
	Cmp    []int   `json:"cmp"`
	Eq     []bool  `json:"eq"`
}

func implName() string { return labels.ImplementationName }

func rangeOf(ls labels.Labels) [][2][]byte {
	out := [][2][]byte{}
	ls.Range(func(l labels.Label) {
		out = append(out, [2][]byte{[]byte(l.Name), []byte(l.Value)})
	})
	return out
}

func sign(x int) int {
	switch {
	case x < 0:
		return -1
	case x > 0:
		return 1
	}
	return 0
}

// runProg runs one program against the real labels package of this build.
func runProg(p *Prog) (t Trans) {
	defer func() {
		if r := recover(); r != nil {
			t = Trans{Panic: fmt.Sprint(r)}
		}
	}()
	st := labels.NewSymbolTable()
	if p.Prefill > 0 {
		// fill the shared symbol table through the public API (ScratchBuilder.Labels maps every
		// string to a number); crosses the 1024-entry growth and the 2/3-byte index boundary
		fb := labels.NewScratchBuilderWithSymbolTable(st, 0)
		for i := 0; i < p.Prefill; i += 2 {
			fb.Reset()
			fb.Add(fmt.Sprintf("\x01f%d", i), fmt.Sprintf("\x01f%d", i+1))
			_ = fb.Labels()
		}
	}
	var regs [K]labels.Labels
	for i := range regs {
		regs[i] = labels.EmptyLabels()
	}
	b := labels.NewBuilderWithSymbolTable(st)
	sb := labels.NewScratchBuilderWithSymbolTable(st, 0)
	for _, o := range p.Ops {
		switch o.K {
		case "OBReset":
			b.Reset(regs[o.R])
		case "OBSet":
			b.Set(string(o.N), string(o.V))
		case "OBDel":
			b.Del(strs(o.Ns)...)
		case "OBKeep":
			b.Keep(strs(o.Ns)...)
		case "OBLabels":
			regs[o.R] = b.Labels()
		case "OBGet":
			t.Events = append(t.Events, Event{IsGet: true, Get: []byte(b.Get(string(o.N)))})
		case "OBRange":
			out := [][2][]byte{}
			b.Range(func(l labels.Label) { out = append(out, [2][]byte{[]byte(l.Name), []byte(l.Value)}) })
			t.Events = append(t.Events, Event{Range: out})
		case "OSReset":
			sb.Reset()
		case "OSAdd":
			sb.Add(string(o.N), string(o.V))
		case "OSSort":
			sb.Sort()
		case "OSAssign":
			sb.Assign(regs[o.R])
		case "OSLabels":
			regs[o.R] = sb.Labels()
		case "ONew":
			regs[o.R] = construct(o)
		case "ORebuild":
			// as Head.RebuildSymbolTable (tsdb/head_dedupelabels.go): fresh table, every label set
			// re-added through a ScratchBuilder on it
			st = labels.NewSymbolTable()
			rb := labels.NewScratchBuilderWithSymbolTable(st, 0)
			for i := range regs {
				rb.Reset()
				regs[i].Range(func(l labels.Label) { rb.Add(l.Name, l.Value) })
				regs[i] = rb.Labels()
			}
			sb.SetSymbolTable(st)
		default:
			panic("unknown op " + o.K)
		}
	}
	for i := range regs {
		ls := regs[i]
		o := LObs{Range: rangeOf(ls), Len: ls.Len(), Empty: ls.IsEmpty(), Str: []byte(ls.String()),
			Bytes: append([]byte{}, ls.Bytes(nil)...), Hash: ls.Hash(), Stable: labels.StableHash(ls)}
		o.StableRef = stableRef(o.Range)
		for _, pr := range p.Probes {
			o.Gets = append(o.Gets, Get{V: []byte(ls.Get(string(pr))), H: ls.Has(string(pr))})
		}
		t.Regs = append(t.Regs, o)
	}
	for i := range regs {
		for j := range regs {
			t.Cmp = append(t.Cmp, sign(labels.Compare(regs[i], regs[j])))
			t.Eq = append(t.Eq, labels.Equal(regs[i], regs[j]))
		}
	}
	return t
}

// stableRef: the documented definition of StableHash, computed from the iteration only.
func stableRef(r [][2][]byte) uint64 {
	var b []byte
	for _, l := range r {
		b = append(b, l[0]...)
		b = append(b, 0xff)
		b = append(b, l[1]...)
		b = append(b, 0xff)
	}
	return xxhash.Sum64(b)
}

func strs(b [][]byte) []string {
	out := make([]string, len(b))
	for i, x := range b {
		out[i] = string(x)
	}
	return out
}

func construct(o Op) labels.Labels {
	switch o.Ctor {
	case "fromstrings":
		var ss []string
		for _, l := range o.Ls {
			ss = append(ss, string(l[0]), string(l[1]))
		}
		return labels.FromStrings(ss...)
	case "frommap":
		m := map[string]string{}
		for _, l := range o.Ls {
			m[string(l[0])] = string(l[1])
		}
		return labels.FromMap(m)
	default:
		ls := make([]labels.Label, 0, len(o.Ls))
		for _, l := range o.Ls {
			ls = append(ls, labels.Label{Name: string(l[0]), Value: string(l[1])})
		}
		return labels.New(ls...)
	}
}

// ---- the 16 MiB boundary
type bigSummary struct {
	Impl    string `json:"impl"`
	N       int    `json:"n"`
	Panic   string `json:"panic,omitempty"`
	Stage   string `json:"stage"` // where a panic happened: construct (FromStrings) or observe
	LenA    int    `json:"len_get_a"`
	Len     int    `json:"len"`
	GetB    string `json:"get_b"`
	RangeOK bool   `json:"range_ok"`
}

func runBig(n int) (s bigSummary) {
	s = bigSummary{Impl: implName(), N: n}
	defer func() {
		if r := recover(); r != nil {
			s.Panic = fmt.Sprint(r)
		}
	}()
	v := strings.Repeat("x", n)
	s.Stage = "construct"
	ls := labels.FromStrings("a", v, "b", "c")
	s.Stage = "observe"
	s.Len = ls.Len()
	s.GetB = ls.Get("b")
	s.LenA = len(ls.Get("a"))
	r := rangeOf(ls)
	s.RangeOK = len(r) == 2 && string(r[0][0]) == "a" && len(r[0][1]) == n && string(r[1][0]) == "b" && string(r[1][1]) == "c"
	s.Stage = "done"
	return s
}

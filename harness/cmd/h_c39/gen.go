package main

import (
	"bytes"
	"fmt"
	"sort"
	"strings"

	"verif/harness/internal/gen"
)

type corpusCase struct {
	name string
	p    Prog
}

func bs(s string) []byte { return []byte(s) }

func lbls(ss ...string) [][2][]byte {
	var out [][2][]byte
	for i := 0; i+1 < len(ss); i += 2 {
		out = append(out, [2][]byte{bs(ss[i]), bs(ss[i+1])})
	}
	return out
}

func names(ss ...string) [][]byte {
	var out [][]byte
	for _, s := range ss {
		out = append(out, bs(s))
	}
	return out
}

func oNew(r int, ctor string, ss ...string) Op { return Op{K: "ONew", R: r, Ctor: ctor, Ls: lbls(ss...)} }
func oSet(n, v string) Op                      { return Op{K: "OBSet", N: bs(n), V: bs(v)} }
func oAdd(n, v string) Op                      { return Op{K: "OSAdd", N: bs(n), V: bs(v)} }
func oR(k string, r int) Op                    { return Op{K: k, R: r} }
func o0(k string) Op                           { return Op{K: k} }

// corpus: fixed programs, always first.
func corpus() []corpusCase {
	x254, x255, x256 := strings.Repeat("x", 254), strings.Repeat("x", 255), strings.Repeat("x", 256)
	pr := names("", "a", "ab", "b", "c", "aa", "zz", "__name__")
	return []corpusCase{
		{"builder-basic", Prog{Probes: pr, Ops: []Op{
			oNew(0, "fromstrings", "b", "2", "a", "1", "c", "3"), oR("OBReset", 0), oSet("ab", "x"), {K: "OBDel", Ns: names("b")}, o0("OBRange"),
			{K: "OBGet", N: bs("ab")}, {K: "OBGet", N: bs("b")}, {K: "OBGet", N: bs("c")}, oR("OBLabels", 1), oSet("b", "again"), oR("OBLabels", 2),
			{K: "OBKeep", Ns: names("a", "zz")}, oR("OBLabels", 3)}}},
		{"builder-set-empty-and-base-empty-values", Prog{Probes: pr, Ops: []Op{
			oNew(0, "new", "a", "", "b", "2", "c", ""), oR("OBReset", 0), o0("OBRange"), oR("OBLabels", 1), oSet("b", ""), oSet("zz", "9"), oSet("zz", ""), oR("OBLabels", 2)}}},
		{"keep-does-not-touch-added", Prog{Probes: pr, Ops: []Op{
			oNew(0, "frommap", "a", "1", "b", "2"), oR("OBReset", 0), oSet("a", "new"), oSet("c", "3"), {K: "OBKeep", Ns: names("b")}, o0("OBRange"), oR("OBLabels", 1)}}},
		{"scratch-protocol", Prog{Probes: pr, Ops: []Op{
			o0("OSReset"), oAdd("b", "2"), oAdd("a", "1"), oAdd("ab", ""), o0("OSSort"), oR("OSLabels", 0), oR("OSLabels", 1),
			o0("OSReset"), oR("OSAssign", 0), oR("OSLabels", 2), o0("OSReset"), oR("OSLabels", 3)}}},
		{"size-prefix-boundary-254-255-256", Prog{Probes: append(pr, bs(x255)), Ops: []Op{
			oNew(0, "fromstrings", "a", x254, "b", "1"), oNew(1, "fromstrings", "a", x255, "b", "1"), oNew(2, "fromstrings", "a", x256, "b", "1"),
			oNew(3, "fromstrings", x255, "v", "a", x254+"y")}}},
		{"compare-prefix-and-length-prefix-bytes", Prog{Probes: pr, Ops: []Op{
			oNew(0, "fromstrings", "a", "b"), oNew(1, "fromstrings", "a", "bc"), oNew(2, "fromstrings", "a", "b", "b", ""), oNew(3, "fromstrings", "ab", "1")}}},
		{"compare-value-vs-next-name", Prog{Probes: pr, Ops: []Op{
			oNew(0, "fromstrings", "a", "", "b", "x"), oNew(1, "fromstrings", "a", "\x01b", "c", "x"), oNew(2, "fromstrings", "a", "\x01"), oNew(3, "fromstrings", "a", "\x01", "b", "\x01")}}},
		{"rebuild", Prog{Probes: pr, Prefill: 1100, Ops: []Op{
			oNew(0, "fromstrings", "a", "1", "b", "2"), o0("OSReset"), oAdd("a", "1"), oAdd("b", "2"), oR("OSLabels", 1), oR("OBReset", 1), oSet("c", "3"), oR("OBLabels", 2),
			o0("ORebuild"), oR("OBReset", 2), oSet("aa", "4"), oR("OBLabels", 3), o0("OSReset"), oAdd("a", "1"), oAdd("b", "2"), oR("OSLabels", 0)}}},
		{"symbol-index-3-bytes", Prog{Probes: pr, Prefill: 33000, Ops: []Op{
			o0("OSReset"), oAdd("a", "1"), oAdd("b", "2"), oR("OSLabels", 0), oR("OBReset", 0), oSet("ab", "3"), {K: "OBDel", Ns: names("b")}, oR("OBLabels", 1),
			oNew(2, "fromstrings", "a", "1", "ab", "3")}}}, // R1 (shared table, 3-byte indexes) and R2 (own table) hold the same set
		{"equal-across-symbol-tables-index-width", Prog{Probes: pr, Prefill: 32766, Ops: []Op{
			// shared table: a=32766, "1"=32767 (2 bytes), b=32768, "2"=32769 (3 bytes); New/FromMap: own tables, all 2 bytes
			o0("OSReset"), oAdd("a", "1"), oAdd("b", "2"), oR("OSLabels", 0), oNew(1, "fromstrings", "a", "1", "b", "2"),
			oR("OBReset", 3), oSet("b", "2"), oSet("a", "1"), oR("OBLabels", 2), oNew(3, "frommap", "a", "1", "b", "3")}}},
		// outside the protocol: the builds differ by design (each only compared with its own model)
		{"nonprotocol-add-then-assign-empty", Prog{Probes: pr, Ops: []Op{o0("OSReset"), oAdd("a", "1"), oR("OSAssign", 3), oR("OSLabels", 0)}}},
		{"nonprotocol-add-after-labels", Prog{Probes: pr, Ops: []Op{o0("OSReset"), oAdd("a", "1"), oR("OSLabels", 0), oAdd("b", "2"), oR("OSLabels", 1)}}},
		{"nonprotocol-unsorted-and-duplicates", Prog{Probes: pr, Ops: []Op{
			o0("OSReset"), oAdd("c", "1"), oAdd("a", "2"), oAdd("c", "3"), oR("OSLabels", 0), o0("OSSort"), oR("OSLabels", 1), oR("OBReset", 0), oSet("b", "x"), oR("OBLabels", 2),
			oNew(3, "new", "b", "1", "a", "2", "b", "3")}}},
		{"nonprotocol-empty-name", Prog{Probes: pr, Ops: []Op{oNew(0, "new", "", "v", "a", "1"), oNew(1, "fromstrings", "a", "1")}}},
	}
}

var baseNames = []string{"a", "ab", "abc", "b", "ba", "c", "le", "job", "__name__", "_x", "z", "instance", "aa"}
var oddNames = []string{"a.b", "0a", "a\"b", "ü", "a b", "a\\", "日本", "A"}
var baseValues = []string{"", "", "1", "x", "xy", "0.5", "a\"q", "back\\slash", "new\nline", "é", "tab\t", "\x01", "v"}

func longStr(r *gen.Rand, tier string) string {
	c := string(rune('a' + r.Intn(3)))
	n := int(gen.Pick(r, []int64{254, 255, 256, 257, 300, 509, 510, 511}))
	if r.Chance(1, 40) || (tier == "thorough" && r.Chance(1, 12)) {
		n = int(gen.Pick(r, []int64{65535, 65536, 65537, 70000}))
	}
	s := strings.Repeat(c, n)
	if r.Bool() { // make the tail distinct so that equal-length strings differ late
		s = s[:n-1] + string(rune('p'+r.Intn(3)))
	}
	return s
}

// symbol-table sizes around the index-width boundaries of dedupelabels (2 bytes below 2^15,
// 3 bytes below 2^22, then 4)
var crossKs = []int{0, 100, 200, 32758, 32760, 32762, 32764, 32766, 32768, 32770, 32800, 32900}

// crossTableProg: content-identical (and nearly identical) label sets living in DIFFERENT symbol
// tables: R0 = FromStrings (own fresh table), R1 = ScratchBuilder on the shared table pre-filled
// with k symbols, R2 = Builder on the shared table, R3 = FromMap/New (own table; sometimes one
// value changed).  Equal / Compare / Hash must not depend on how wide the indexes are.
func crossTableProg(seed uint64, i int, tier string) Prog {
	r := gen.Fork(seed^0xC39C39, i)
	k := crossKs[i%len(crossKs)]
	if i >= len(crossKs) {
		switch {
		case tier == "thorough" && i == len(crossKs): // once: the 3/4-byte boundary
			k = 1<<22 - 2
		case r.Bool():
			k = int(r.Range(32740, 32790))
		default:
			k = int(r.Range(0, 40000))
		}
	}
	nn := 1 + r.Intn(4)
	var ns []string
	for len(ns) < nn {
		s := gen.Pick(r, baseNames)
		dup := false
		for _, x := range ns {
			dup = dup || x == s
		}
		if !dup {
			ns = append(ns, s)
		}
	}
	sort.Strings(ns)
	var flat []string
	p := Prog{Prefill: k}
	p.Ops = append(p.Ops, o0("OSReset"))
	for _, n := range ns {
		v := gen.Pick(r, baseValues[2:]) // non-empty: the Builder drops empty values
		if r.Chance(1, 5) {
			v = n // a value equal to a name shares its symbol
		}
		flat = append(flat, n, v)
		p.Ops = append(p.Ops, oAdd(n, v))
	}
	p.Ops = append(p.Ops, oR("OSLabels", 1), oNew(0, "fromstrings", flat...), oR("OBReset", 3))
	for j := len(ns) - 1; j >= 0; j-- {
		p.Ops = append(p.Ops, oSet(flat[2*j], flat[2*j+1]))
	}
	p.Ops = append(p.Ops, oR("OBLabels", 2))
	last := append([]string{}, flat...)
	switch r.Intn(4) {
	case 0:
		last[len(last)-1] += "x" // differs in the last value only
	case 1:
		last = last[:len(last)-2] // a proper prefix
	}
	p.Ops = append(p.Ops, oNew(3, gen.Pick(r, []string{"frommap", "new"}), last...))
	if r.Chance(1, 4) { // and through a ScratchBuilder Assign of a set from another table
		p.Ops = append(p.Ops, o0("OSReset"), oR("OSAssign", 0), oR("OSLabels", 3))
	}
	for _, s := range append(append([]string{}, ns...), "", "nosuch") {
		p.Probes = append(p.Probes, bs(s))
	}
	return p
}

// bigSetProg: label sets whose hash input (sum of len(name)+len(value)+2) lies around the 1 KiB
// buffer of Hash/StableHash, where the implementations switch from a one-shot xxhash of a buffer to
// a streaming hasher: totals 1000..1100 incl. exactly 1022..1026, one huge value, many medium
// labels, and the switch falling at each label position.  R0 = the set, R1 = the same set with
// one byte of the label that triggers the switch changed, R2 = the set again through a
// ScratchBuilder, R3 = Builder(R0) with that label set to a third value.
var bigTotals = []int{1023, 1024, 1025, 1000, 1022, 1026, 1010, 1030, 1050, 1100, 1020, 2048}

func bigSetProg(seed uint64, i int, tier string) Prog {
	r := gen.Fork(seed^0xB16B16, i)
	T := bigTotals[(i/3)%len(bigTotals)]
	if i >= 3*len(bigTotals) {
		T = int(r.Range(990, 1110))
	}
	type nv struct{ n, v string }
	var set []nv
	size := func(x nv) int { return len(x.n) + len(x.v) + 2 }
	total := func() int {
		t := 0
		for _, x := range set {
			t += size(x)
		}
		return t
	}
	rep := func(c byte, n int) string { return strings.Repeat(string(rune(c)), n) }
	switch i % 3 {
	case 0: // many medium labels; the last one is sized to hit T exactly
		m := 8 + r.Intn(6)
		L := T/m - 5
		for j := 0; j < m-1; j++ {
			set = append(set, nv{fmt.Sprintf("m%02d", j), rep(byte('a'+j), L)})
		}
		set = append(set, nv{fmt.Sprintf("m%02d", m-1), rep('q', T-total()-5)})
	case 1: // a single label
		set = append(set, nv{"a", rep('x', T-3)})
	default: // k small labels, one big label making the running total reach T, two labels after it
		k := (i / 3) % 6
		for j := 0; j < k; j++ {
			set = append(set, nv{fmt.Sprintf("a%d", j), "v"})
		}
		set = append(set, nv{"m", rep('y', T-total()-3)})
		set = append(set, nv{"z0", "tail"}, nv{"z1", rep('t', 1+r.Intn(40))})
	}
	// the label that triggers the switch to the streaming hasher (else the last one)
	trig, run := len(set)-1, 0
	for j, x := range set {
		if run+size(x) >= 1024 {
			trig = j
			break
		}
		run += size(x)
	}
	flat := func(mod string) []string {
		var out []string
		for j, x := range set {
			v := x.v
			if j == trig && mod != "" {
				v = v[:len(v)-1] + mod
			}
			out = append(out, x.n, v)
		}
		return out
	}
	p := Prog{}
	p.Ops = append(p.Ops, oNew(0, "fromstrings", flat("")...), oNew(1, "new", flat("#")...), o0("OSReset"))
	for _, x := range set {
		p.Ops = append(p.Ops, oAdd(x.n, x.v))
	}
	v3 := set[trig].v
	p.Ops = append(p.Ops, oR("OSLabels", 2), oR("OBReset", 0), oSet(set[trig].n, v3[:len(v3)-1]+"%"), oR("OBLabels", 3))
	p.Probes = [][]byte{bs(set[trig].n), bs(""), bs("nosuch")}
	return p
}

// genProg: program i of the seeded stream.
func genProg(seed uint64, i int, tier string) Prog {
	r := gen.Fork(seed, i)
	protocol := !r.Chance(1, 4)
	// name / value pools of this program
	nn := 3 + r.Intn(6)
	if !protocol {
		// duplicates are possible here: keep every sort at <= 12 elements, where Go's
		// slices.SortFunc is a (stable) insertion sort and the model's stable sort is exact
		nn = 3 + r.Intn(4)
	}
	var ns []string
	for len(ns) < nn {
		var s string
		switch {
		case r.Chance(1, 8):
			s = gen.Pick(r, oddNames)
		case r.Chance(1, 14):
			s = longStr(r, "quick")
		default:
			s = gen.Pick(r, baseNames)
		}
		dup := false
		for _, x := range ns {
			dup = dup || x == s
		}
		if !dup {
			ns = append(ns, s)
		}
	}
	val := func() string {
		if r.Chance(1, 10) {
			return longStr(r, tier)
		}
		return gen.Pick(r, baseValues)
	}
	name := func() string { return gen.Pick(r, ns) }
	someNames := func() [][]byte {
		var out [][]byte
		for k := r.Intn(4); k >= 0; k-- {
			out = append(out, bs(name()))
		}
		if r.Chance(1, 6) {
			out = append(out, bs("nosuch"))
		}
		return out
	}
	var p Prog
	switch r.Intn(12) {
	case 0:
		p.Prefill = int(r.Range(1000, 1100))
	case 1:
		if tier == "thorough" || r.Chance(1, 4) {
			p.Prefill = int(r.Range(32700, 32800))
		}
	}
	// scratch-builder phase tracking (mirrors proto_step of the Coq model)
	phase := 0 // 0 clean, 1 adding, 2 done
	var adds []string
	sortedAdds := func() bool {
		for k := 1; k < len(adds); k++ {
			if !(adds[k-1] < adds[k]) {
				return false
			}
		}
		return true
	}
	nops := 6 + r.Intn(22)
	for len(p.Ops) < nops {
		switch r.Intn(16) {
		case 0, 1: // constructor
			var ls [][2][]byte
			used := map[string]bool{}
			for k := r.Intn(6); k > 0; k-- {
				n := name()
				if used[n] && (protocol || len(ls) > 6) {
					continue
				}
				used[n] = true
				ls = append(ls, [2][]byte{bs(n), bs(val())})
			}
			ctor := gen.Pick(r, []string{"new", "fromstrings", "frommap"})
			if !protocol && ctor == "frommap" {
				ctor = "new" // a map cannot carry duplicate names
			}
			p.Ops = append(p.Ops, Op{K: "ONew", R: r.Intn(K), Ctor: ctor, Ls: ls})
		case 2:
			p.Ops = append(p.Ops, oR("OBReset", r.Intn(K)))
		case 3, 4, 5:
			p.Ops = append(p.Ops, oSet(name(), val()))
		case 6:
			p.Ops = append(p.Ops, Op{K: "OBDel", Ns: someNames()})
		case 7:
			if r.Chance(1, 2) {
				p.Ops = append(p.Ops, Op{K: "OBKeep", Ns: someNames()})
			} else {
				p.Ops = append(p.Ops, Op{K: "OBGet", N: bs(name())}, o0("OBRange"))
			}
		case 8, 9:
			p.Ops = append(p.Ops, oR("OBLabels", r.Intn(K)))
		case 10:
			p.Ops = append(p.Ops, o0("OSReset"))
			phase, adds = 0, nil
		case 11, 12: // Add
			n := name()
			if protocol {
				if phase == 2 {
					p.Ops = append(p.Ops, o0("OSReset"))
					phase, adds = 0, nil
				}
				dup := false
				for _, x := range adds {
					dup = dup || x == n
				}
				if dup {
					continue
				}
			} else if len(adds) >= 5 {
				continue
			}
			p.Ops = append(p.Ops, oAdd(n, val()))
			adds = append(adds, n)
			if phase == 0 {
				phase = 1
			}
		case 13:
			p.Ops = append(p.Ops, o0("OSSort"))
			sort.Strings(adds)
		case 14: // Assign
			if protocol && phase != 0 {
				p.Ops = append(p.Ops, o0("OSReset"))
				adds = nil
			}
			p.Ops = append(p.Ops, oR("OSAssign", r.Intn(K)))
			phase = 2
		case 15: // Labels
			if protocol && !sortedAdds() {
				p.Ops = append(p.Ops, o0("OSSort"))
				sort.Strings(adds)
			}
			p.Ops = append(p.Ops, oR("OSLabels", r.Intn(K)))
			if protocol || phase != 0 {
				phase = 2
			}
			if r.Chance(1, 10) {
				p.Ops = append(p.Ops, o0("ORebuild"))
			}
		}
	}
	// probes: every name of the pool, the empty name, an absent one, prefixes / extensions
	seen := map[string]bool{}
	for _, s := range append(append([]string{}, ns...), "", "nosuch", ns[0]+"a", ns[len(ns)-1][:1]) {
		if !seen[s] {
			seen[s] = true
			p.Probes = append(p.Probes, bs(s))
		}
	}
	return p
}

type class struct {
	hits       []string
	shape      string
	protocol   bool
	nontrivial bool
}

// protocolOK mirrors protocol_ok of the Coq model (only used for the statistics; Coq decides).
func protocolOK(p *Prog) bool {
	phase := 0
	var adds []string
	for _, o := range p.Ops {
		switch o.K {
		case "OBSet":
			if len(o.N) == 0 {
				return false
			}
		case "OSReset":
			phase, adds = 0, nil
		case "OSAdd":
			if len(o.N) == 0 || phase == 2 {
				return false
			}
			phase = 1
			adds = append(adds, string(o.N))
		case "OSSort":
			sort.Strings(adds)
		case "OSAssign":
			if phase != 0 {
				return false
			}
			phase = 2
		case "OSLabels":
			for k := 1; k < len(adds); k++ {
				if !(adds[k-1] < adds[k]) {
					return false
				}
			}
			phase = 2
		case "ONew":
			seen := map[string]bool{}
			for _, l := range o.Ls {
				if len(l[0]) == 0 || seen[string(l[0])] {
					return false
				}
				seen[string(l[0])] = true
			}
		}
	}
	return true
}

func classify(p *Prog, tS, tL, tD *Trans) class {
	c := class{protocol: protocolOK(p)}
	hit := func(s string) { c.hits = append(c.hits, s) }
	if c.protocol {
		hit("protocol")
		c.shape = "protocol"
	} else {
		hit("non-protocol")
		c.shape = "non-protocol"
	}
	maxLen := 0
	kinds := map[string]bool{}
	builderWork := false
	pendAdd, pendDel := false, false
	for _, o := range p.Ops {
		kinds[o.K] = true
		for _, b := range append([][]byte{o.N, o.V}, o.Ns...) {
			maxLen = max(maxLen, len(b))
		}
		for _, l := range o.Ls {
			maxLen = max(maxLen, len(l[0]), len(l[1]))
		}
		switch o.K {
		case "OBReset":
			pendAdd, pendDel = false, false
		case "OBSet":
			if len(o.V) > 0 {
				pendAdd = true
			} else {
				pendDel = true
			}
		case "OBDel", "OBKeep":
			pendDel = true
		case "OBLabels":
			if pendAdd || pendDel {
				builderWork = true
			}
			if pendAdd && pendDel {
				hit("builder-labels-add+del")
			} else if pendAdd {
				hit("builder-labels-add")
			} else if pendDel {
				hit("builder-labels-del")
			} else {
				hit("builder-labels-unmodified")
			}
		}
	}
	for k := range kinds {
		hit("op-" + k[1:])
	}
	switch {
	case maxLen >= 65535:
		hit("string>=65535")
	case maxLen >= 255:
		hit("string>=255")
	case maxLen == 254:
		hit("string=254")
	}
	if strings.HasPrefix(c.shape, "protocol") && len(p.Ops) > 0 && p.Ops[0].K == "OSReset" && len(p.Ops) > 3 && tS.Panic == "" && tD.Panic == "" {
		// content-identical sets in different symbol tables whose index widths differ
		for i := 0; i < K; i++ {
			for j := 0; j < K; j++ {
				if i != j && tD.Eq[i*K+j] && tD.Regs[i].Len > 0 && p.Prefill >= 32700 {
					hit("equal-sets-different-symbol-tables-near-width-boundary")
					i, j = K, K
				}
			}
		}
	}
	if tS.Panic == "" {
		for _, o := range tS.Regs {
			t := 0
			for _, l := range o.Range {
				t += len(l[0]) + len(l[1]) + 2
			}
			switch {
			case t >= 1024 && len(o.Range) == 1:
				hit("hash-input>=1024-single-label")
			case t >= 1024:
				hit("hash-input>=1024")
			case t >= 990:
				hit("hash-input-990..1023")
			}
		}
	}
	if p.Prefill >= 1<<22-8 {
		hit("symbols>=2^22")
	} else if p.Prefill >= 32768 {
		hit("symbols>=32768")
	} else if p.Prefill >= 1024 {
		hit("symbols>=1024")
	}
	if tS.Panic != "" || tL.Panic != "" || tD.Panic != "" {
		hit("panic-in-some-build")
	}
	nonEmpty := 0
	cmpClasses := map[int]bool{}
	if tS.Panic == "" {
		for _, o := range tS.Regs {
			if o.Len > 0 {
				nonEmpty++
			}
		}
		for i, x := range tS.Cmp {
			if i/K != i%K {
				cmpClasses[x] = true
			}
		}
		// ordering decided inside a value that is a proper prefix of the other / by label count
		for i := 0; i < K; i++ {
			for j := 0; j < K; j++ {
				a, b := tS.Regs[i].Bytes, tS.Regs[j].Bytes
				if i != j && len(a) > 0 && len(a) < len(b) && bytes.HasPrefix(b, a) {
					hit("compare-data-prefix")
				}
			}
		}
	}
	if cmpClasses[0] {
		hit("compare-equal-pair")
	}
	if cmpClasses[-1] {
		hit("compare-unequal-pair")
	}
	if !c.protocol && tS.Panic == "" && tL.Panic == "" && !transEq(tS, tL) {
		hit("non-protocol-builds-differ")
	}
	c.nontrivial = c.protocol && nonEmpty >= 2 && builderWork
	return c
}

// transEq: equality of two transcripts except Bytes and Hash.
func transEq(a, b *Trans) bool {
	if len(a.Regs) != len(b.Regs) || len(a.Events) != len(b.Events) {
		return false
	}
	for i := range a.Regs {
		x, y := a.Regs[i], b.Regs[i]
		if x.Len != y.Len || !bytes.Equal(x.Str, y.Str) || len(x.Gets) != len(y.Gets) {
			return false
		}
		for k := range x.Gets {
			if !bytes.Equal(x.Gets[k].V, y.Gets[k].V) || x.Gets[k].H != y.Gets[k].H {
				return false
			}
		}
	}
	for i := range a.Cmp {
		if a.Cmp[i] != b.Cmp[i] || a.Eq[i] != b.Eq[i] {
			return false
		}
	}
	return true
}

package main

import (
	"fmt"
	"sort"
	"strconv"
	"strings"

	"github.com/prometheus/common/model"
)

// pool: every distinct string of a shard becomes one Gallina definition sN : str; the cases
// refer to the names (keeps the case files small and fast to parse).
type pool struct {
	ids   map[string]int
	order []string
}

func newPool() *pool { return &pool{ids: map[string]int{}} }

func (p *pool) s(b []byte) string {
	if len(b) == 0 {
		return "[]"
	}
	k := string(b)
	id, ok := p.ids[k]
	if !ok {
		id = len(p.order)
		p.ids[k] = id
		p.order = append(p.order, k)
	}
	return "s" + strconv.Itoa(id)
}

// lit prints bytes as a Gallina str; runs of >= 24 equal bytes become (rep n c).
func lit(s string) string {
	var parts []string
	var cur []string
	flushCur := func() {
		if len(cur) > 0 {
			parts = append(parts, "["+strings.Join(cur, ";")+"]")
			cur = nil
		}
	}
	for i := 0; i < len(s); {
		j := i
		for j < len(s) && s[j] == s[i] {
			j++
		}
		if j-i >= 24 {
			flushCur()
			parts = append(parts, fmt.Sprintf("rep %d %d", j-i, s[i]))
		} else {
			for k := i; k < j; k++ {
				cur = append(cur, strconv.Itoa(int(s[k])))
			}
		}
		i = j
	}
	flushCur()
	if len(parts) == 0 {
		return "[]"
	}
	return strings.Join(parts, " ++ ")
}

func (p *pool) defs() string {
	var sb strings.Builder
	for i, k := range p.order {
		fmt.Fprintf(&sb, "Definition s%d : str := %s.\n", i, lit(k))
	}
	return sb.String()
}

func strList(p *pool, l [][]byte) string {
	it := make([]string, len(l))
	for i, x := range l {
		it[i] = p.s(x)
	}
	return "[" + strings.Join(it, "; ") + "]"
}

func labelsTerm(p *pool, l [][2][]byte) string {
	it := make([]string, len(l))
	for i, x := range l {
		it[i] = "(" + p.s(x[0]) + ", " + p.s(x[1]) + ")"
	}
	return "[" + strings.Join(it, "; ") + "]"
}

func opsTerm(p *pool, ops []Op) string {
	it := make([]string, len(ops))
	for i, o := range ops {
		switch o.K {
		case "OBReset", "OBLabels", "OSAssign", "OSLabels":
			it[i] = fmt.Sprintf("%s %d", o.K, o.R)
		case "OBSet", "OSAdd":
			it[i] = fmt.Sprintf("%s %s %s", o.K, p.s(o.N), p.s(o.V))
		case "OBDel", "OBKeep":
			it[i] = fmt.Sprintf("%s %s", o.K, strList(p, o.Ns))
		case "OBGet":
			it[i] = fmt.Sprintf("OBGet %s", p.s(o.N))
		case "ONew":
			it[i] = fmt.Sprintf("ONew %d %s", o.R, labelsTerm(p, o.Ls))
		default:
			it[i] = o.K
		}
	}
	return "[" + strings.Join(it, "; ") + "]"
}

func boolT(b bool) string {
	if b {
		return "true"
	}
	return "false"
}

func transTerm(p *pool, t *Trans) string {
	if t.Panic != "" {
		return "panicT"
	}
	ev := make([]string, len(t.Events))
	for i, e := range t.Events {
		if e.IsGet {
			ev[i] = "EGet " + p.s(e.Get)
		} else {
			ev[i] = "ERange " + labelsTerm(p, e.Range)
		}
	}
	regs := make([]string, len(t.Regs))
	for i, o := range t.Regs {
		gets := make([]string, len(o.Gets))
		for j, g := range o.Gets {
			gets[j] = "(" + p.s(g.V) + ", " + boolT(g.H) + ")"
		}
		regs[i] = fmt.Sprintf("mkO %s %d %s %s %s %s %s %s [%s]", labelsTerm(p, o.Range), o.Len, boolT(o.Empty), p.s(o.Str), p.s(o.Bytes),
			strconv.FormatUint(o.Hash, 10), strconv.FormatUint(o.Stable, 10), strconv.FormatUint(o.StableRef, 10), strings.Join(gets, "; "))
	}
	cmp := make([]string, len(t.Cmp))
	for i, c := range t.Cmp {
		cmp[i] = strconv.Itoa(c)
		if c < 0 {
			cmp[i] = "(" + cmp[i] + ")"
		}
	}
	eq := make([]string, len(t.Eq))
	for i, e := range t.Eq {
		eq[i] = boolT(e)
	}
	return fmt.Sprintf("(mkT false [%s]\n    [%s]\n    [%s] [%s])", strings.Join(ev, "; "), strings.Join(regs, ";\n     "), strings.Join(cmp, ";"), strings.Join(eq, ";"))
}

// every string of the program, for the strconv.Quote / IsValidLabelName oracle table
func progStrings(p *Prog) []string {
	set := map[string]bool{}
	add := func(b []byte) { set[string(b)] = true }
	for _, o := range p.Ops {
		add(o.N)
		add(o.V)
		for _, n := range o.Ns {
			add(n)
		}
		for _, l := range o.Ls {
			add(l[0])
			add(l[1])
		}
	}
	out := make([]string, 0, len(set))
	for k := range set {
		out = append(out, k)
	}
	sort.Strings(out)
	return out
}

func qtableTerm(p *pool, pr *Prog) string {
	ss := progStrings(pr)
	it := make([]string, len(ss))
	for i, s := range ss {
		it[i] = fmt.Sprintf("(%s, (%s, %s))", p.s([]byte(s)), p.s([]byte(strconv.Quote(s))), boolT(model.LegacyValidation.IsValidLabelName(s)))
	}
	return "[" + strings.Join(it, "; ") + "]"
}

func short(b []byte, n int) string {
	if len(b) > n {
		return strconv.Quote(string(b[:n])) + fmt.Sprintf("..(%d)", len(b))
	}
	return strconv.Quote(string(b))
}

// progText: a readable, replayable rendering of a program.
func progText(p *Prog, n int) string {
	var sb strings.Builder
	if p.Prefill > 0 {
		fmt.Fprintf(&sb, "prefill %d; ", p.Prefill)
	}
	for _, o := range p.Ops {
		switch o.K {
		case "OBReset", "OBLabels", "OSAssign", "OSLabels":
			fmt.Fprintf(&sb, "%s R%d; ", o.K[1:], o.R)
		case "OBSet", "OSAdd":
			fmt.Fprintf(&sb, "%s %s=%s; ", o.K[1:], short(o.N, n), short(o.V, n))
		case "OBDel", "OBKeep":
			fmt.Fprintf(&sb, "%s", o.K[1:])
			for _, x := range o.Ns {
				fmt.Fprintf(&sb, " %s", short(x, n))
			}
			sb.WriteString("; ")
		case "OBGet":
			fmt.Fprintf(&sb, "BGet %s; ", short(o.N, n))
		case "ONew":
			fmt.Fprintf(&sb, "R%d=%s(", o.R, o.Ctor)
			for _, l := range o.Ls {
				fmt.Fprintf(&sb, "%s=%s,", short(l[0], n), short(l[1], n))
			}
			sb.WriteString("); ")
		default:
			sb.WriteString(o.K[1:] + "; ")
		}
	}
	return sb.String()
}

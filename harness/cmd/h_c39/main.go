// h_c39: correspondence harness for C39 (label sets behave as canonical sorted maps in every build).
//
// The same source is built three times by the driver (tags verif / verif,slicelabels /
// verif,dedupelabels) and the binaries are passed as -variants p1,p2,p3 (first = this process,
// the default stringlabels build).  The primary process generates programs over a
// labels.Builder, a labels.ScratchBuilder and K label-set registers, runs them itself against
// the REAL model/labels package, runs every other variant binary as a child (-mode child) on the
// same programs, and writes cases holding the three transcripts for Coq.
package main

import (
	"encoding/json"
	"flag"
	"fmt"
	"os"
	"os/exec"
	"path/filepath"
	"strconv"
	"strings"

	"verif/harness/internal/gallina"
)

func main() {
	// -mode / -in / -res are ours; the rest is the standard harness command line.
	mode := flag.String("mode", "primary", "primary|child|big")
	in := flag.String("in", "", "child: programs file")
	res := flag.String("res", "", "child: transcripts file")
	bigN := flag.Int("n", 0, "big: string length")
	f := gallina.ParseFlags()
	switch *mode {
	case "child":
		child(*in, *res)
	case "big":
		b, _ := json.Marshal(runBig(*bigN))
		fmt.Println(string(b))
	default:
		primary(f)
	}
}

type childOut struct {
	Impl  string  `json:"impl"`
	Trans []Trans `json:"trans"`
}

func child(in, res string) {
	b, err := os.ReadFile(in)
	if err != nil {
		panic(err)
	}
	var progs []Prog
	if err := json.Unmarshal(b, &progs); err != nil {
		panic(err)
	}
	out := childOut{Impl: implName()}
	for i := range progs {
		out.Trans = append(out.Trans, runProg(&progs[i]))
	}
	ob, _ := json.Marshal(out)
	if err := os.WriteFile(res, ob, 0o644); err != nil {
		panic(err)
	}
}

var implOrder = []string{"stringlabels", "slicelabels", "dedupelabels"}

func primary(f gallina.Flags) {
	meta := gallina.NewMeta("C39", f.Seed, f.Tier)
	meta.Rule = "corpus of fixed programs + seeded random programs over Builder(Reset/Set/Del/Keep/Labels/Get/Range), ScratchBuilder(Reset/Add/Sort/Assign/Labels), New/FromStrings/FromMap and symbol-table rebuilds on 4 registers, plus a stream of content-identical label sets built in different (pre-filled) symbol tables around the dedupelabels index-width boundaries, plus a stream of label sets whose hash input is 1000..1100 bytes (exactly 1022..1026, single huge value, many medium labels, the 1 KiB switch at each label position) with one-byte variants of the switching label, StableHash compared across builds and with xxhash64 of (name 0xff value 0xff)* computed from Range; 75% follow the documented protocol (cross-build equality required), 25% do not (each build only compared with its own model); names share first bytes / prefixes, values include empty, quotes, UTF-8, lengths 254/255/256 and (rarely) >= 65535; non-trivial = protocol program in which at least two registers end non-empty and a Builder.Labels with pending add or del was executed; distinct by program text"
	if implName() != "stringlabels" {
		panic("primary must be the default (stringlabels) build, got " + implName())
	}
	vars := strings.Split(f.Variants, ",")
	if f.Variants == "" || len(vars) < 3 {
		panic("need -variants with the three builds (run through ./check C39)")
	}

	// ---- programs
	var progs []Prog
	var corpusName []string
	for _, c := range corpus() {
		progs = append(progs, c.p)
		corpusName = append(corpusName, c.name)
	}
	nx := f.Count(12, 150)
	for i := 0; i < nx; i++ {
		progs = append(progs, crossTableProg(f.Seed, i, f.Tier))
		corpusName = append(corpusName, "cross-table")
	}
	nb := f.Count(14, 150)
	for i := 0; i < nb; i++ {
		progs = append(progs, bigSetProg(f.Seed, i, f.Tier))
		corpusName = append(corpusName, "hash-buffer-boundary")
	}
	n := f.Count(60, 2000)
	for i := 0; i < n; i++ {
		progs = append(progs, genProg(f.Seed, i, f.Tier))
		corpusName = append(corpusName, "")
	}

	// ---- run: self + children
	tmp, err := os.MkdirTemp(f.Out, "c39_")
	if err != nil {
		panic(err)
	}
	defer os.RemoveAll(tmp)
	pb, _ := json.Marshal(progs)
	pfile := filepath.Join(tmp, "progs.json")
	if err := os.WriteFile(pfile, pb, 0o644); err != nil {
		panic(err)
	}
	trans := map[string][]Trans{}
	type cres struct {
		out childOut
		err error
	}
	ch := make(chan cres, len(vars))
	nchild := 0
	for i, v := range vars {
		if i == 0 {
			continue
		}
		nchild++
		go func(i int, v string) {
			rfile := filepath.Join(tmp, fmt.Sprintf("res%d.json", i))
			cmd := exec.Command(v, "-mode", "child", "-in", pfile, "-res", rfile, "-out", tmp)
			if o, err := cmd.CombinedOutput(); err != nil {
				ch <- cres{err: fmt.Errorf("child %s: %v\n%s", v, err, o)}
				return
			}
			var co childOut
			b, err := os.ReadFile(rfile)
			if err == nil {
				err = json.Unmarshal(b, &co)
			}
			ch <- cres{out: co, err: err}
		}(i, v)
	}
	self := make([]Trans, len(progs))
	for i := range progs {
		self[i] = runProg(&progs[i])
	}
	trans[implName()] = self
	for i := 0; i < nchild; i++ {
		r := <-ch
		if r.err != nil {
			panic(r.err)
		}
		trans[r.out.Impl] = r.out.Trans
	}
	for _, im := range implOrder {
		if len(trans[im]) != len(progs) {
			panic("missing transcripts of build " + im)
		}
	}

	// ---- cases
	const perShard = 56
	cf := &gallina.CaseFile{Dir: f.Out, Type: "case", PerShard: 0, Footer: gallina.StdFooter}
	pool := newPool()
	inShard := 0
	flush := func() {
		if inShard == 0 {
			return
		}
		cf.Preamble = "From Coq Require Import List ZArith.\nFrom Verif Require Import model.LabelsX corr.CorrC39.\nImport ListNotations.\nOpen Scope Z_scope.\n" + pool.defs()
		cf.Flush()
		pool = newPool()
		inShard = 0
	}
	seen := map[string]bool{}
	for id := range progs {
		p := &progs[id]
		tS, tL, tD := trans["stringlabels"][id], trans["slicelabels"][id], trans["dedupelabels"][id]
		term := fmt.Sprintf("mkCase %d %s %s %s\n  %s\n  %s\n  %s", id, opsTerm(pool, p.Ops), strList(pool, p.Probes), qtableTerm(pool, p),
			transTerm(pool, &tS), transTerm(pool, &tL), transTerm(pool, &tD))
		cf.Add(term)
		inShard++
		cls := classify(p, &tS, &tL, &tD)
		for _, c := range cls.hits {
			meta.Hit(c)
		}
		key := progText(p, 1<<30)
		if cls.nontrivial && !seen[key] {
			seen[key] = true
			meta.Nontrivial++
		}
		meta.Case(id, desc{Shape: cls.shape, Corpus: corpusName[id], Protocol: cls.protocol, Prefill: p.Prefill, Prog: progText(p, 48)})
		meta.Evaluations++
		if inShard >= perShard {
			flush()
		}
	}
	flush()
	if meta.Evaluations == 0 {
		cf.Flush()
	}

	// ---- the length limit of the stringlabels encoding (strings of 16 MiB cannot be shipped to Coq as
	// byte lists; judged here, the model side is C39_len_limit_rejected / C39_len_2pow24_old_refuted).
	// Below 2^24 bytes a string is in the domain common to the three builds: all must yield the map.
	// From 2^24 bytes on it is outside that domain: slicelabels/dedupelabels still accept it, and
	// stringlabels must reject it cleanly while constructing (panic "String too long to encode as
	// label.") - never hand out a corrupt label set (the regression of the fixed defect).
	const tooLong = "String too long to encode as label."
	for _, nlen := range []int{1<<24 - 1, 1 << 24, 1<<24 + 1} {
		var sums []bigSummary
		for i, v := range vars {
			var s bigSummary
			if i == 0 {
				s = runBig(nlen)
			} else {
				o, err := exec.Command(v, "-mode", "big", "-n", strconv.Itoa(nlen), "-out", tmp).Output()
				if err != nil {
					panic(fmt.Errorf("big child %s: %v", v, err))
				}
				if err := json.Unmarshal(o, &s); err != nil {
					panic(fmt.Errorf("big child %s: %v: %s", v, err, o))
				}
			}
			sums = append(sums, s)
		}
		id := fmt.Sprintf("big-%d", nlen)
		ok := true
		what := ""
		for _, s := range sums {
			good := s.Panic == "" && s.LenA == nlen && s.Len == 2 && s.GetB == "c" && s.RangeOK
			if s.Impl == "stringlabels" && nlen >= 1<<24 {
				good = s.Panic == tooLong && s.Stage == "construct"
				if !good {
					what = fmt.Sprintf("stringlabels must reject a %d byte value while constructing with %q; got panic=%q at stage %s, Len=%d", nlen, tooLong, s.Panic, s.Stage, s.Len)
				}
			} else if !good {
				what = fmt.Sprintf("%s: FromStrings with a value of %d bytes does not yield the map {a: x*%d, b: c}: %+v", s.Impl, nlen, nlen, s)
			}
			ok = ok && good
		}
		cls := "len-limit-common-domain"
		if nlen >= 1<<24 {
			cls = "len-limit-rejected-by-stringlabels"
		}
		meta.Hit(cls)
		meta.Evaluations++
		b, _ := json.Marshal(map[string]any{"shape": "stringlabels-len-2pow24", "prog": fmt.Sprintf("FromStrings(a, x*%d, b, c); Len; Get(b); Get(a); Range", nlen), "results": sums})
		meta.Cases[id] = b
		if !ok {
			meta.GoViol = append(meta.GoViol, gallina.GoViolation{ID: id, Shape: "stringlabels-len-2pow24", What: what})
		}
	}
	meta.Notes = append(meta.Notes, "each case holds three transcripts (stringlabels, slicelabels, dedupelabels builds of the same harness source)")
	meta.Write(f.Out)
}

type desc struct {
	Shape    string `json:"shape"`
	Corpus   string `json:"corpus,omitempty"`
	Protocol bool   `json:"protocol"`
	Prefill  int    `json:"prefill,omitempty"`
	Prog     string `json:"prog"`
}

package main

import (
	"context"
	"fmt"

	"go.opentelemetry.io/collector/pdata/pcommon"
	"go.opentelemetry.io/collector/pdata/pmetric"

	"github.com/prometheus/prometheus/model/histogram"
	"github.com/prometheus/prometheus/model/labels"
	"github.com/prometheus/prometheus/storage"
	prw "github.com/prometheus/prometheus/storage/remote/otlptranslator/prometheusremotewrite"
)

type rec struct {
	ls    labels.Labels
	st, t int64
	v     float64
	h     *histogram.Histogram
}
type app struct{ recs []rec }

func (a *app) Append(ref storage.SeriesRef, ls labels.Labels, st, t int64, v float64, h *histogram.Histogram, fh *histogram.FloatHistogram, opts storage.AppendV2Options) (storage.SeriesRef, error) {
	a.recs = append(a.recs, rec{ls, st, t, v, h})
	return 1, nil
}
func (a *app) Commit() error   { return nil }
func (a *app) Rollback() error { return nil }

func main() {
	s, d := prw.VerifConvertBucketsLayoutC43([]uint64{0, 0, 5, 7}, 0, 1, true)
	fmt.Println("direct:", s, d)

	md := pmetric.NewMetrics()
	m := md.ResourceMetrics().AppendEmpty().ScopeMetrics().AppendEmpty().Metrics().AppendEmpty()
	m.SetName("h")
	eh := m.SetEmptyExponentialHistogram()
	eh.SetAggregationTemporality(pmetric.AggregationTemporalityCumulative)
	dp := eh.DataPoints().AppendEmpty()
	dp.SetScale(9)
	dp.SetCount(12)
	dp.SetSum(100)
	dp.SetTimestamp(pcommon.Timestamp(5_000_000))
	dp.Positive().SetOffset(0)
	dp.Positive().BucketCounts().FromRaw([]uint64{0, 0, 5, 7})
	a := &app{}
	c := prw.NewPrometheusConverter(a)
	an, err := c.FromMetrics(context.Background(), md, prw.Settings{})
	fmt.Println(an, err)
	for _, r := range a.recs {
		fmt.Println(r.ls, r.st, r.t, r.v, r.h)
	}
}

// h_c43: correspondence harness for C43 (OTLP -> Prometheus conversion).
// Stream L drives the real convertBucketsLayout (export shim VerifConvertBucketsLayoutC43);
// stream M pushes one generated OTLP metric through the real PrometheusConverter.FromMetrics
// into a recording AppenderV2 and records every appended sample / native histogram.
package main

import (
	"context"
	"fmt"
	"math"
	"strconv"
	"strings"

	"go.opentelemetry.io/collector/pdata/pcommon"
	"go.opentelemetry.io/collector/pdata/pmetric"

	"github.com/prometheus/prometheus/model/histogram"
	"github.com/prometheus/prometheus/model/labels"
	"github.com/prometheus/prometheus/storage"
	prw "github.com/prometheus/prometheus/storage/remote/otlptranslator/prometheusremotewrite"

	"verif/harness/internal/gallina"
	"verif/harness/internal/gen"
)

const defectShape = "convert-buckets-empty-leading-target"

// ---------- recording appender ----------

type rec struct {
	name, le string
	hasLe    bool
	nLabels  int
	st, t    int64
	v        float64
	h        *histogram.Histogram
}
type app struct{ recs []rec }

func (a *app) Append(_ storage.SeriesRef, ls labels.Labels, st, t int64, v float64, h *histogram.Histogram, fh *histogram.FloatHistogram, _ storage.AppendV2Options) (storage.SeriesRef, error) {
	r := rec{name: ls.Get("__name__"), le: ls.Get("le"), hasLe: ls.Has("le"), nLabels: ls.Len(), st: st, t: t, v: v}
	if h != nil {
		r.h = h.Copy()
	}
	if fh != nil {
		panic("float histogram appended")
	}
	a.recs = append(a.recs, r)
	return 1, nil
}
func (a *app) Commit() error   { return nil }
func (a *app) Rollback() error { return nil }

// zs / zus print Z literals; large magnitudes in hexadecimal, because Coq 8.16 spends tens of
// milliseconds interpreting each 19-digit decimal literal.
func zs(v int64) string {
	if v > -1_000_000 && v < 1_000_000 {
		return gallina.Z(v)
	}
	if v < 0 {
		return "(-0x" + strconv.FormatUint(uint64(-v), 16) + ")%Z" // -MinInt64 wraps to 1<<63 as uint64: correct magnitude
	}
	return "0x" + strconv.FormatUint(uint64(v), 16) + "%Z"
}
func zus(v uint64) string {
	if v < 1_000_000 {
		return gallina.ZU(v)
	}
	return "0x" + strconv.FormatUint(v, 16) + "%Z"
}
func fb(f float64) string { return zus(math.Float64bits(f)) }
func listZ(vs []int64) string {
	it := make([]string, len(vs))
	for i, v := range vs {
		it[i] = zs(v)
	}
	return gallina.List(it)
}

// ---------- Gallina printers ----------

func zu(vs []uint64) string {
	it := make([]string, len(vs))
	for i, v := range vs {
		it[i] = zus(v)
	}
	return gallina.List(it)
}
func fbits(vs []float64) string {
	it := make([]string, len(vs))
	for i, v := range vs {
		it[i] = fb(v)
	}
	return gallina.List(it)
}
func spans(ss []histogram.Span) string {
	it := make([]string, len(ss))
	for i, s := range ss {
		it[i] = fmt.Sprintf("mkSpan %s %s", zs(int64(s.Offset)), zs(int64(s.Length)))
	}
	return gallina.List(it)
}
func layout(ss []histogram.Span, ds []int64) string {
	return "(" + spans(ss) + ", " + listZ(ds) + ")"
}
func histTerm(h *histogram.Histogram) string {
	return fmt.Sprintf("(mkH %s %s %s %s %s %s %s %s %s %s)", zs(int64(h.CounterResetHint)), zs(int64(h.Schema)),
		zus(h.ZeroCount), spans(h.PositiveSpans), listZ(h.PositiveBuckets), spans(h.NegativeSpans), listZ(h.NegativeBuckets),
		fb(h.Sum), zus(h.Count), fbits(h.CustomValues))
}

// ---------- input-determined trigger of the known defect ----------
// true iff, with scaleDown >= 1, a merged bucket that turned out empty is followed by a merged
// bucket one of whose source buckets other than the last is non-zero (see notes/C43.md).
func triggers(counts []uint64, off, sd int32) bool {
	if sd < 1 || len(counts) == 0 {
		return false
	}
	tg := func(i int) int32 { return (int32(i)+off)>>sd + 1 }
	bucketIdx := tg(0)
	var count uint64
	for i := range counts {
		n := tg(i)
		if bucketIdx == n {
			count += counts[i]
			continue
		}
		if count == 0 {
			count = counts[i]
			continue
		}
		if i > 0 && tg(i-1) == n { // flushed in the middle of a merged bucket
			return true
		}
		count = counts[i]
		bucketIdx = n
	}
	return false
}

func overflows(n int, off int32) bool { return int64(off)+int64(n) > math.MaxInt32 }

// ---------- generators ----------

func genCounts(r *gen.Rand, maxLen int) []uint64 {
	n := r.Intn(maxLen + 1)
	cs := make([]uint64, n)
	mode := r.Intn(6)
	for i := 0; i < n; {
		switch {
		case mode == 0: // dense
			cs[i] = uint64(r.Range(1, 9))
			i++
		case mode == 5 && r.Chance(1, 6): // huge values (int64 / uint64 wrap)
			cs[i] = gen.Pick(r, []uint64{math.MaxInt64, math.MaxUint64, 1 << 63, 1<<62 + 3, math.MaxInt64 - 1})
			i++
		case r.Chance(1, 3): // zero run
			k := int(r.Range(1, int64(1+r.Intn(9))))
			for j := 0; j < k && i < n; j++ {
				cs[i] = 0
				i++
			}
		default:
			cs[i] = uint64(r.Range(0, 12))
			i++
		}
	}
	return cs
}

func genOffset(r *gen.Rand) int32 {
	switch r.Intn(12) {
	case 0:
		return int32(r.PickI64(math.MinInt32, math.MinInt32+1, math.MinInt32+7))
	case 1:
		return int32(r.PickI64(math.MaxInt32, math.MaxInt32-1, math.MaxInt32-3, math.MaxInt32-30))
	case 2, 3:
		return int32(r.Range(-3, 3))
	default:
		return int32(r.Range(-70, 70))
	}
}

func genScale(r *gen.Rand) int32 {
	return int32(r.PickI64(-6, -5, -4, -3, 0, 3, 7, 8, 9, 9, 10, 10, 11, 12, 14, 20, 40, math.MaxInt32))
}

func genTS(r *gen.Rand) uint64 {
	switch r.Intn(10) {
	case 0:
		return gen.Pick(r, []uint64{0, 1, 999_999, 1_000_000, 1_000_001, 1_999_999})
	case 1:
		return gen.Pick(r, []uint64{math.MaxInt64, math.MaxInt64 - 1, 1 << 63, 1<<63 + 1_000_000, math.MaxUint64})
	default:
		return uint64(r.Range(0, 4_000_000_000_000_000_000))
	}
}

func genFloat(r *gen.Rand) float64 {
	switch r.Intn(8) {
	case 0:
		return gen.Pick(r, []float64{0, math.Copysign(0, -1), math.Inf(1), math.Inf(-1), math.NaN(), math.SmallestNonzeroFloat64, math.MaxFloat64})
	case 1:
		return math.Float64frombits(r.U64())
	default:
		return float64(r.Range(-100000, 100000)) / 8
	}
}

// ---------- main ----------

type layoutDesc struct {
	Kind   string   `json:"kind"`
	Counts []uint64 `json:"counts"`
	Off    int32    `json:"offset"`
	SD     int32    `json:"scaleDown"`
	Adjust bool     `json:"adjustOffset"`
	Obs    string   `json:"obs"`
	Shape  string   `json:"shape"`
	Corpus string   `json:"corpus,omitempty"`
}
type metricDesc struct {
	Kind   string `json:"kind"`
	Metric string `json:"metric"`
	Obs    string `json:"obs"`
	Shape  string `json:"shape"`
	Replay string `json:"replay"`
	Corpus string `json:"corpus,omitempty"`
}

func main() {
	f := gallina.ParseFlags()
	meta := gallina.NewMeta("C43", f.Seed, f.Tier)
	meta.Rule = "stream L: corpus + exhaustive enumeration of bucket-count arrays over {0,1,2} (quick: length<=4, thorough: <=5) x offsets -2..1 (thorough -4..3) x scaleDown 0..2 (thorough 0..3) through the real convertBucketsLayout, plus seeded random arrays with zero runs, negative / extreme offsets, scaleDown 0..6,31,40 and both adjustOffset values; stream M: seeded random OTLP metrics (gauge, sum, histogram classic/NHCB, exponential histogram; 1-3 data points; all temporalities; flags; scales -6..MaxInt32) through the real FromMetrics. Non-trivial = L: the array is non-empty and (scaleDown>=1 or it contains a zero); M: at least one sample was appended. Distinct by printed input."
	cf := &gallina.CaseFile{Dir: f.Out, Type: "case", PerShard: 800,
		Preamble: "From Coq Require Import List ZArith.\nFrom Verif Require Import lib.Int64 model.Otlp corr.CorrC43.\nImport ListNotations.\nOpen Scope Z_scope.\n",
		Footer:   gallina.StdFooter}
	id := 0
	seen := map[string]bool{}

	emitLayout := func(counts []uint64, off, sd int32, adjust bool, corpus string) {
		key := fmt.Sprint("L", counts, off, sd, adjust)
		if seen[key] {
			return
		}
		seen[key] = true
		in := append([]uint64{}, counts...)
		ss, ds := prw.VerifConvertBucketsLayoutC43(in, off, sd, adjust)
		class := "L-sd0"
		if sd >= 1 {
			class = "L-scaledown"
		}
		if !adjust {
			class += "-noadjust"
		}
		meta.Hit(class)
		if len(ss) > 1 {
			meta.Hit("L-multi-span")
		}
		if overflows(len(counts), off) {
			meta.Hit("L-int32-overflow")
		}
		hasZero := false
		for _, c := range counts {
			if c == 0 {
				hasZero = true
			}
		}
		if len(counts) > 0 && (sd >= 1 || hasZero) {
			meta.Nontrivial++
		}
		shape := class
		if triggers(counts, off, sd) {
			shape = defectShape
			meta.Hit("L-defect-trigger")
		}
		cf.Add(fmt.Sprintf("CLayout %s %s %s %s %s %s", zs(int64(id)), zu(counts), zs(int64(off)), zs(int64(sd)), gallina.Bool(adjust), layout(ss, ds)))
		meta.Case(id, layoutDesc{Kind: "layout", Counts: counts, Off: off, SD: sd, Adjust: adjust, Obs: fmt.Sprint(ss, ds), Shape: shape, Corpus: corpus})
		meta.Evaluations++
		id++
	}

	// runMetric builds the pmetric from a closure (so that it is described and replayable from
	// (seed, index)), runs FromMetrics and emits the case.
	type expPt struct {
		scale                  int32
		zero                   uint64
		poff, noff             int32
		pos, neg               []uint64
		count                  uint64
		hasSum                 bool
		sum                    float64
		norec                  bool
		ts, st                 uint64
	}
	type histPt struct {
		bounds []float64
		counts []uint64
		count  uint64
		hasSum bool
		sum    float64
		norec  bool
		ts, st uint64
	}
	type numPt struct {
		kind   int // 0 int, 1 double, 2 empty
		iv     int64
		dv     float64
		norec  bool
		ts, st uint64
	}
	tempTerm := func(t pmetric.AggregationTemporality) string {
		switch t {
		case pmetric.AggregationTemporalityDelta:
			return "TDelta"
		case pmetric.AggregationTemporalityCumulative:
			return "TCumul"
		}
		return "TUnspec"
	}
	flags := func(norec bool) pmetric.DataPointFlags {
		return pmetric.DefaultDataPointFlags.WithNoRecordedValue(norec)
	}

	emitMetric := func(kind string, temp pmetric.AggregationTemporality, allowDelta, nhcb bool, nums []numPt, hists []histPt, exps []expPt, replay, corpus string) {
		md := pmetric.NewMetrics()
		m := md.ResourceMetrics().AppendEmpty().ScopeMetrics().AppendEmpty().Metrics().AppendEmpty()
		m.SetName("m")
		var term string
		fillNum := func(dps pmetric.NumberDataPointSlice) string {
			it := []string{}
			for _, p := range nums {
				dp := dps.AppendEmpty()
				v := "EmptyV"
				switch p.kind {
				case 0:
					dp.SetIntValue(p.iv)
					v = "(IntV " + zs(p.iv) + ")"
				case 1:
					dp.SetDoubleValue(p.dv)
					v = "(DblV " + fb(p.dv) + ")"
				}
				dp.SetFlags(flags(p.norec))
				dp.SetTimestamp(pcommon.Timestamp(p.ts))
				dp.SetStartTimestamp(pcommon.Timestamp(p.st))
				it = append(it, fmt.Sprintf("mkNum %s %s %s %s", v, gallina.Bool(p.norec), zus(p.ts), zus(p.st)))
			}
			return gallina.List(it)
		}
		trig := false
		switch kind {
		case "gauge":
			term = "MGauge " + fillNum(m.SetEmptyGauge().DataPoints())
		case "sum":
			s := m.SetEmptySum()
			s.SetAggregationTemporality(temp)
			s.SetIsMonotonic(true)
			term = "MSum " + tempTerm(temp) + " " + fillNum(s.DataPoints())
		case "hist":
			h := m.SetEmptyHistogram()
			h.SetAggregationTemporality(temp)
			it := []string{}
			for _, p := range hists {
				dp := h.DataPoints().AppendEmpty()
				dp.ExplicitBounds().FromRaw(append([]float64{}, p.bounds...))
				dp.BucketCounts().FromRaw(append([]uint64{}, p.counts...))
				dp.SetCount(p.count)
				if p.hasSum {
					dp.SetSum(p.sum)
				}
				dp.SetFlags(flags(p.norec))
				dp.SetTimestamp(pcommon.Timestamp(p.ts))
				dp.SetStartTimestamp(pcommon.Timestamp(p.st))
				it = append(it, fmt.Sprintf("mkHist %s %s %s %s %s %s %s %s", fbits(p.bounds), zu(p.counts), zus(p.count),
					gallina.Bool(p.hasSum), fb(p.sum), gallina.Bool(p.norec), zus(p.ts), zus(p.st)))
			}
			term = "MHist " + tempTerm(temp) + " " + gallina.List(it)
		case "exp":
			h := m.SetEmptyExponentialHistogram()
			h.SetAggregationTemporality(temp)
			it := []string{}
			for _, p := range exps {
				dp := h.DataPoints().AppendEmpty()
				dp.SetScale(p.scale)
				dp.SetZeroCount(p.zero)
				dp.Positive().SetOffset(p.poff)
				dp.Positive().BucketCounts().FromRaw(append([]uint64{}, p.pos...))
				dp.Negative().SetOffset(p.noff)
				dp.Negative().BucketCounts().FromRaw(append([]uint64{}, p.neg...))
				dp.SetCount(p.count)
				if p.hasSum {
					dp.SetSum(p.sum)
				}
				dp.SetFlags(flags(p.norec))
				dp.SetTimestamp(pcommon.Timestamp(p.ts))
				dp.SetStartTimestamp(pcommon.Timestamp(p.st))
				it = append(it, fmt.Sprintf("mkExp %s %s (mkB %s %s) (mkB %s %s) %s %s %s %s %s %s", zs(int64(p.scale)), zus(p.zero),
					zs(int64(p.poff)), zu(p.pos), zs(int64(p.noff)), zu(p.neg), zus(p.count),
					gallina.Bool(p.hasSum), fb(p.sum), gallina.Bool(p.norec), zus(p.ts), zus(p.st)))
				if p.scale > 8 && (triggers(p.pos, p.poff, p.scale-8) || triggers(p.neg, p.noff, p.scale-8)) {
					trig = true
				}
			}
			term = "MExp " + tempTerm(temp) + " " + gallina.List(it)
		}
		key := fmt.Sprint("M", term, allowDelta, nhcb)
		if seen[key] {
			return
		}
		seen[key] = true

		a := &app{}
		c := prw.NewPrometheusConverter(a)
		annots, err := c.FromMetrics(context.Background(), md, prw.Settings{AllowDeltaTemporality: allowDelta, ConvertHistogramsToNHCB: nhcb})
		warnEmpty, warnZC := false, false
		for _, w := range annots {
			switch prw.WarningCategoryOf(w) {
			case prw.WarningCategoryEmptyDataPoints:
				warnEmpty = true
			case prw.WarningCategoryHistogramZeroCountNonZeroSum:
				warnZC = true
			default:
				meta.GoViol = append(meta.GoViol, gallina.GoViolation{ID: strconv.Itoa(id), Shape: "unexpected-annotation", What: w.Error()})
			}
		}
		it := []string{}
		for _, r := range a.recs {
			if r.h != nil {
				if r.name != "m" || r.nLabels != 1 {
					meta.GoViol = append(meta.GoViol, gallina.GoViolation{ID: strconv.Itoa(id), Shape: "histogram-series-labels", What: r.name})
				}
				wantZT := 1e-128
				if r.h.Schema == histogram.CustomBucketsSchema {
					wantZT = 0
				}
				if r.h.ZeroThreshold != wantZT {
					meta.GoViol = append(meta.GoViol, gallina.GoViolation{ID: strconv.Itoa(id), Shape: "zero-threshold", What: fmt.Sprint(r.h.ZeroThreshold)})
				}
				it = append(it, fmt.Sprintf("Hist %s %s %s", zs(r.st), zs(r.t), histTerm(r.h)))
				continue
			}
			series := "(SBucket (-7))" // unknown series: never equals the model
			switch {
			case r.name == "m" && !r.hasLe && r.nLabels == 1:
				series = "SPlain"
			case r.name == "m_sum" && !r.hasLe && r.nLabels == 1:
				series = "SSum"
			case r.name == "m_count" && !r.hasLe && r.nLabels == 1:
				series = "SCount"
			case r.name == "m_bucket" && r.hasLe && r.nLabels == 2:
				if r.le == "+Inf" {
					series = "(SBucket " + fb(math.Inf(1)) + ")"
				} else if b, e := strconv.ParseFloat(r.le, 64); e == nil {
					series = "(SBucket " + fb(b) + ")"
				}
			}
			it = append(it, fmt.Sprintf("Float %s %s %s %s", series, zs(r.st), zs(r.t), fb(r.v)))
		}
		obs := fmt.Sprintf("(mkRes %s %s %s %s)", gallina.List(it), gallina.Bool(err != nil), gallina.Bool(warnEmpty), gallina.Bool(warnZC))
		class := "M-" + kind
		if kind == "hist" && nhcb {
			class = "M-nhcb"
		}
		meta.Hit(class)
		if kind != "gauge" {
			meta.Hit("M-temp-" + tempTerm(temp) + fmt.Sprintf("-allow=%v", allowDelta))
		}
		if err != nil {
			meta.Hit("M-error")
		}
		if len(a.recs) > 0 {
			meta.Nontrivial++
		}
		shape := class
		if trig {
			shape = defectShape
			meta.Hit("M-defect-trigger")
		}
		cf.Add(fmt.Sprintf("CMetric %s (mkSet %s %s) (%s) %s", zs(int64(id)), gallina.Bool(allowDelta), gallina.Bool(nhcb), term, obs))
		obsS := strings.Join(it, "; ")
		if len(obsS) > 600 {
			obsS = obsS[:600] + "..."
		}
		meta.Case(id, metricDesc{Kind: "metric", Metric: term, Obs: obsS, Shape: shape, Replay: replay, Corpus: corpus})
		meta.Evaluations++
		id++
	}

	cum := pmetric.AggregationTemporalityCumulative
	// ---- corpus: reproducers of the confirmed defect and its neighbours, always first ----
	emitLayout([]uint64{0, 0, 5, 7}, 0, 1, true, "defect-leading-empty-target")
	emitLayout([]uint64{1, 0, 0, 0, 5, 7}, 0, 1, true, "defect-interior-empty-target")
	emitLayout([]uint64{0, 0, 0, 0, 5, 7}, 0, 1, true, "defect-two-empty-targets")
	emitLayout([]uint64{0, 0, 0, 0, 3, 0, 4, 5}, 0, 2, true, "defect-scaledown-2")
	emitLayout([]uint64{0, 0, 5, 7}, 0, 0, true, "no-scaledown")
	emitLayout([]uint64{0, 0, 0, 7}, 0, 1, true, "nonzero-only-in-last-source")
	emitLayout([]uint64{4, 2, 0, 2, 0, 0, 0, 0, 0, 0, 0, 0, 0, 0, 0, 0, 1}, 4, 1, true, "upstream-test-positive-offset")
	emitLayout([]uint64{0, 0, 0, 0, 5}, 0, 0, true, "leading-zero-length-span")
	emitLayout([]uint64{3, 0, 0, 9}, 2, 0, false, "custom-buckets")
	emitMetric("exp", cum, false, false, nil, nil, []expPt{{scale: 9, pos: []uint64{0, 0, 5, 7}, count: 12, hasSum: true, sum: 100, ts: 5_000_000}}, "corpus", "defect-public-path")
	emitMetric("exp", cum, false, false, nil, nil, []expPt{{scale: 10, neg: []uint64{0, 0, 0, 0, 3, 0, 4, 5}, noff: -8, count: 12, ts: 5_000_000}}, "corpus", "defect-public-path-negative")
	emitMetric("exp", cum, false, false, nil, nil, []expPt{{scale: 8, pos: []uint64{0, 0, 5, 7}, count: 12, ts: 5_000_000}}, "corpus", "max-scale-no-merge")

	// ---- stream L: exhaustive small arrays ----
	maxLen, offLo, offHi, sdHi := 4, int32(-2), int32(1), int32(2)
	if f.Tier == "thorough" {
		maxLen, offLo, offHi, sdHi = 5, -4, 3, 3
	}
	var rec func(cur []uint64)
	rec = func(cur []uint64) {
		if len(cur) > 0 {
			for off := offLo; off <= offHi; off++ {
				for sd := int32(0); sd <= sdHi; sd++ {
					emitLayout(cur, off, sd, true, "")
				}
			}
			emitLayout(cur, int32(len(cur)%3), 0, false, "")
		}
		if len(cur) == maxLen {
			return
		}
		for v := uint64(0); v <= 2; v++ {
			rec(append(append([]uint64{}, cur...), v))
		}
	}
	rec(nil)

	// ---- stream L: seeded random ----
	nL := f.Count(900, 8000)
	for i := 0; i < nL; i++ {
		r := gen.Fork(f.Seed, i)
		cs := genCounts(r, 40)
		off := genOffset(r)
		sd := int32(r.PickI64(0, 1, 1, 1, 2, 2, 3, 4, 5, 6, 31, 40))
		adjust := !r.Chance(1, 6)
		if !adjust && !r.Chance(1, 5) {
			sd = 0
		}
		emitLayout(cs, off, sd, adjust, "")
	}

	// ---- stream M: seeded random metrics ----
	nM := f.Count(450, 4000)
	for i := 0; i < nM; i++ {
		r := gen.Fork(f.Seed, 1_000_000+i)
		replay := fmt.Sprintf("seed=%d index=%d", f.Seed, 1_000_000+i)
		temp := gen.Pick(r, []pmetric.AggregationTemporality{cum, cum, cum, pmetric.AggregationTemporalityDelta, pmetric.AggregationTemporalityDelta, pmetric.AggregationTemporalityUnspecified})
		allowDelta := r.Bool()
		npts := 1 + r.Intn(3)
		if r.Chance(1, 25) {
			npts = 0
		}
		switch k := r.Intn(10); {
		case k < 2: // gauge / sum
			var nums []numPt
			for j := 0; j < npts; j++ {
				p := numPt{kind: r.Intn(3), norec: r.Chance(1, 5), ts: genTS(r), st: genTS(r)}
				if r.Chance(1, 3) {
					p.kind = 0
				}
				p.iv = r.PickI64(0, 1, -1, 1<<53, 1<<53+1, 1<<53+3, -(1<<53 + 1), math.MaxInt64, math.MinInt64, math.MaxInt64-511, 1<<62+1, r.Range(-1000, 1000), int64(r.U64()), int64(r.U64()>>8))
				p.dv = genFloat(r)
				nums = append(nums, p)
			}
			kind := "gauge"
			if r.Bool() {
				kind = "sum"
			}
			emitMetric(kind, temp, allowDelta, false, nums, nil, nil, replay, "")
		case k < 5: // explicit histogram, classic or NHCB
			var hs []histPt
			for j := 0; j < npts; j++ {
				nb := r.Intn(8)
				bounds := make([]float64, nb)
				b := float64(r.Range(-40, 40)) / 4
				for x := range bounds {
					bounds[x] = b
					b += float64(r.Range(1, 40)) / 8
					if r.Chance(1, 15) {
						b *= 1e12
					}
				}
				nc := nb + 1
				switch r.Intn(8) {
				case 0:
					nc = nb
				case 1:
					nc = nb + 2
				case 2:
					nc = 0
				}
				cs := make([]uint64, nc)
				var tot uint64
				for x := range cs {
					if !r.Chance(1, 3) {
						cs[x] = uint64(r.Range(0, 20))
					}
					if r.Chance(1, 40) {
						cs[x] = gen.Pick(r, []uint64{1 << 53, 1<<53 + 1, math.MaxInt64, math.MaxUint64, 1 << 63})
					}
					tot += cs[x]
				}
				if r.Chance(1, 4) { // all-zero / long leading zero run
					for x := 0; x < len(cs)-r.Intn(2); x++ {
						cs[x] = 0
					}
				}
				p := histPt{bounds: bounds, counts: cs, count: tot, hasSum: !r.Chance(1, 4), sum: genFloat(r), norec: r.Chance(1, 6), ts: genTS(r), st: genTS(r)}
				if r.Chance(1, 6) {
					p.count = uint64(r.PickI64(0, 0, 7, 1<<53+1, math.MaxInt64))
				}
				hs = append(hs, p)
			}
			emitMetric("hist", temp, allowDelta, r.Chance(3, 5), nil, hs, nil, replay, "")
		default: // exponential histogram
			var es []expPt
			for j := 0; j < npts; j++ {
				p := expPt{scale: genScale(r), zero: uint64(r.Range(0, 5)), poff: genOffset(r), noff: genOffset(r),
					pos: genCounts(r, 28), neg: genCounts(r, 12), hasSum: !r.Chance(1, 4), sum: genFloat(r), norec: r.Chance(1, 8), ts: genTS(r), st: genTS(r)}
				if r.Chance(1, 2) {
					p.neg = nil
				}
				if r.Chance(2, 3) { // favour scales around and above the maximum
					p.scale = int32(r.PickI64(8, 9, 9, 10, 10, 11, 12))
				}
				for _, c := range p.pos {
					p.count += c
				}
				for _, c := range p.neg {
					p.count += c
				}
				p.count += p.zero
				if r.Chance(1, 8) {
					p.count = 0
				}
				es = append(es, p)
			}
			emitMetric("exp", temp, allowDelta, r.Bool(), nil, nil, es, replay, "")
		}
	}
	cf.Flush()
	meta.Write(f.Out)
}

// h_c47: correspondence harness for C47 (discovery.Manager converges to the latest target groups).
//
// Det cases: single-threaded scripts against a real Manager (real ApplyConfig, real updater
// goroutines fed through fake Discoverers, trigger drained through the export shim), with
// allGroups()/m.targets/trigger observed after every operation.
// Conc cases: real Manager.Run (sender goroutine), fake Discoverers sending scripted batches on
// their own goroutines, a slow consumer on SyncCh and concurrent ApplyConfig reloads; every map
// received is recorded together with bounds on what had been sent / applied when it was taken.
package main

import (
	"context"
	"errors"
	"fmt"
	"sort"
	"strconv"
	"strings"
	"sync"
	"sync/atomic"
	"time"

	"github.com/prometheus/client_golang/prometheus"
	"github.com/prometheus/common/model"

	"github.com/prometheus/prometheus/discovery"
	"github.com/prometheus/prometheus/discovery/targetgroup"
	"github.com/prometheus/prometheus/util/verifhook"

	"verif/harness/internal/gallina"
	"verif/harness/internal/gen"
)

// ---------- groups ----------

type G struct {
	Nil bool `json:"nil,omitempty"`
	Src int  `json:"src"`
	Gid int  `json:"gid"`
	Nt  int  `json:"nt"`
}

func mkGroup(g G) *targetgroup.Group {
	if g.Nil {
		return nil
	}
	tg := &targetgroup.Group{
		Source: "s" + strconv.Itoa(g.Src),
		Labels: model.LabelSet{"gid": model.LabelValue(strconv.Itoa(g.Gid))},
	}
	for i := 0; i < g.Nt; i++ {
		tg.Targets = append(tg.Targets, model.LabelSet{model.AddressLabel: model.LabelValue(fmt.Sprintf("h%d:%d", g.Gid, i))})
	}
	return tg
}

func mkBatch(b []G) []*targetgroup.Group {
	if b == nil {
		return nil
	}
	out := make([]*targetgroup.Group, len(b))
	for i, g := range b {
		out[i] = mkGroup(g)
	}
	return out
}

func gidOf(tg *targetgroup.Group) int64 {
	n, err := strconv.Atoi(string(tg.Labels["gid"]))
	if err != nil {
		return -7 // foreign group (e.g. the static empty group): never matches
	}
	return int64(n)
}

func srcOf(s string) int64 {
	n, err := strconv.Atoi(strings.TrimPrefix(s, "s"))
	if err != nil {
		return -7
	}
	return int64(n)
}

func batchTerm(b []G) string {
	it := make([]string, len(b))
	for i, g := range b {
		if g.Nil {
			it[i] = "None"
		} else {
			it[i] = fmt.Sprintf("Some (mkG %s %s %s)", gallina.Z(int64(g.Src)), gallina.Z(int64(g.Gid)), gallina.Z(int64(g.Nt)))
		}
	}
	return gallina.List(it)
}

// ---------- canonical views ----------

type kv struct {
	K int64   `json:"k"`
	V []int64 `json:"v"`
}

func canon(m map[int64][]int64) []kv {
	out := make([]kv, 0, len(m))
	for k, v := range m {
		c := append([]int64{}, v...)
		sort.Slice(c, func(i, j int) bool { return c[i] < c[j] })
		out = append(out, kv{k, c})
	}
	sort.Slice(out, func(i, j int) bool { return out[i].K < out[j].K })
	return out
}

func viewTerm(v []kv) string {
	it := make([]string, len(v))
	for i, e := range v {
		it[i] = gallina.Pair(gallina.Z(e.K), gallina.ListZ(e.V))
	}
	return gallina.List(it)
}

func jobOf(set string) int64 {
	n, err := strconv.Atoi(strings.TrimPrefix(set, "j"))
	if err != nil {
		return -7
	}
	return int64(n)
}

func viewGroups(mp map[string][]*targetgroup.Group) []kv {
	m := map[int64][]int64{}
	for set, gs := range mp {
		l := []int64{}
		for _, g := range gs {
			l = append(l, gidOf(g))
		}
		m[jobOf(set)] = l
	}
	return canon(m)
}

// ---------- fake configs / discoverers ----------

type world struct {
	mu      sync.Mutex
	conc    bool
	seed    uint64
	insts   []*fakeDisc
	cur     map[int]*fakeDisc // config id -> live instance
	gens    map[int]int       // config id -> number of instances created so far
	nextGid int
}

type fakeCfg struct {
	ID   int
	Fail bool
	W    *world
}

func (fakeCfg) Name() string { return "fake" }
func (c fakeCfg) NewDiscoverer(discovery.DiscovererOptions) (discovery.Discoverer, error) {
	if c.Fail {
		return nil, errors.New("fake: cannot create")
	}
	return c.W.newInstance(c.ID), nil
}

func (fakeCfg) NewDiscovererMetrics(prometheus.Registerer, discovery.RefreshMetricsInstantiator) discovery.DiscovererMetrics {
	return &discovery.NoopDiscovererMetrics{}
}

type fakeDisc struct {
	w      *world
	id     int // instance number (1-based)
	cfgID  int
	epoch  int // epoch in which it was created (filled by the reloader)
	ready  chan struct{}
	up     chan<- []*targetgroup.Group
	script [][]G
	sent   atomic.Int64
	done   atomic.Bool
	lmu    sync.Mutex
	log    [][]G
}

func (w *world) newInstance(cfgID int) *fakeDisc {
	w.mu.Lock()
	defer w.mu.Unlock()
	d := &fakeDisc{w: w, id: len(w.insts) + 1, cfgID: cfgID, ready: make(chan struct{})}
	w.gens[cfgID]++
	if w.conc {
		d.script = genScript(gen.Fork(w.seed, 7000+cfgID*16+w.gens[cfgID]), d.id)
	}
	w.insts = append(w.insts, d)
	w.cur[cfgID] = d
	return d
}

// genScript: batches over sources id*100+{0..3}; gid = id*1000+seq.
func genScript(r *gen.Rand, id int) [][]G {
	n := 2 + r.Intn(8)
	seq := 0
	var out [][]G
	for i := 0; i < n; i++ {
		k := 1 + r.Intn(3)
		if r.Chance(1, 10) {
			k = 0
		}
		b := []G{}
		for j := 0; j < k; j++ {
			if r.Chance(1, 10) {
				b = append(b, G{Nil: true})
				continue
			}
			nt := r.Intn(3)
			if r.Chance(1, 4) {
				nt = 0
			}
			b = append(b, G{Src: id*100 + r.Intn(4), Gid: id*1000 + seq, Nt: nt})
			seq++
		}
		out = append(out, b)
	}
	return out
}

func (d *fakeDisc) Run(ctx context.Context, up chan<- []*targetgroup.Group) {
	d.up = up
	close(d.ready)
	if d.w.conc {
		r := gen.Fork(d.w.seed, 9000+d.id)
		// scripted batches, then one empty sentinel batch whose hand-off proves that the last
		// scripted batch has been fully applied by the updater
		all := append(append([][]G{}, d.script...), []G{})
		for _, b := range all {
			var pause time.Duration
			switch r.Intn(4) {
			case 0:
			case 1:
				pause = time.Duration(r.Intn(2000)) * time.Microsecond
			default:
				pause = time.Duration(r.Intn(25)) * time.Millisecond
			}
			if pause > 0 {
				select {
				case <-ctx.Done():
					return
				case <-time.After(pause):
				}
			}
			select {
			case <-ctx.Done():
				return
			case up <- mkBatch(b):
				d.lmu.Lock()
				d.log = append(d.log, b)
				d.lmu.Unlock()
				d.sent.Add(1)
			}
		}
		d.done.Store(true)
	}
	<-ctx.Done()
}

func newManager(ctx context.Context, updatert time.Duration) (*discovery.Manager, *prometheus.Registry) {
	reg := prometheus.NewRegistry()
	refresh := discovery.NewRefreshMetrics(reg)
	mech, err := discovery.RegisterSDMetrics(reg, refresh)
	if err != nil {
		panic(err)
	}
	m := discovery.NewManager(ctx, nil, reg, &discovery.SDMetrics{MechanismMetrics: mech, RefreshManager: refresh}, discovery.Updatert(updatert))
	if m == nil {
		panic("NewManager returned nil")
	}
	return m, reg
}

// ---------- configurations ----------

type cfgEntry struct {
	ID int  `json:"id"`
	OK bool `json:"ok"`
}
type jobCfg struct {
	Job  int        `json:"job"`
	Cfgs []cfgEntry `json:"cfgs"`
}

func genCfg(r *gen.Rand, atLeastOne bool) []jobCfg {
	var out []jobCfg
	for j := 1; j <= 3; j++ {
		if !r.Chance(2, 3) && !(atLeastOne && j == 3 && len(out) == 0) {
			continue
		}
		jc := jobCfg{Job: j}
		n := r.Intn(4)
		if r.Chance(1, 6) {
			n = 0
		}
		for i := 0; i < n; i++ {
			jc.Cfgs = append(jc.Cfgs, cfgEntry{ID: 1 + r.Intn(4), OK: true})
		}
		if r.Chance(1, 6) {
			jc.Cfgs = append(jc.Cfgs, cfgEntry{ID: 900 + j, OK: false})
		}
		out = append(out, jc)
	}
	return out
}

func (w *world) goCfg(c []jobCfg) map[string]discovery.Configs {
	m := map[string]discovery.Configs{}
	for _, jc := range c {
		cs := discovery.Configs{}
		for _, e := range jc.Cfgs {
			cs = append(cs, fakeCfg{ID: e.ID, Fail: !e.OK, W: w})
		}
		m["j"+strconv.Itoa(jc.Job)] = cs
	}
	return m
}

func cfgTerm(c []jobCfg) string {
	it := make([]string, len(c))
	for i, jc := range c {
		es := make([]string, len(jc.Cfgs))
		for k, e := range jc.Cfgs {
			es[k] = gallina.Pair(gallina.Z(int64(e.ID)), gallina.Bool(e.OK))
		}
		it[i] = gallina.Pair(gallina.Z(int64(jc.Job)), gallina.List(es))
	}
	return gallina.List(it)
}

// after ApplyConfig(c): drop instances whose config is no longer configured; return job -> live instances
func (w *world) settle(c []jobCfg) map[int][]int {
	w.mu.Lock()
	defer w.mu.Unlock()
	want := map[int]bool{}
	for _, jc := range c {
		for _, e := range jc.Cfgs {
			if e.OK {
				want[e.ID] = true
			}
		}
	}
	for id := range w.cur {
		if !want[id] {
			delete(w.cur, id)
		}
	}
	out := map[int][]int{}
	for _, jc := range c {
		seen := map[int]bool{}
		l := []int{}
		for _, e := range jc.Cfgs {
			if e.OK && !seen[e.ID] {
				seen[e.ID] = true
				l = append(l, w.cur[e.ID].id)
			}
		}
		out[jc.Job] = l
	}
	return out
}

// ---------- deterministic scripts ----------

type dop struct {
	Kind  string   `json:"kind"` // reload | update | drain
	Cfg   []jobCfg `json:"cfg,omitempty"`
	Cid   int      `json:"cid,omitempty"`
	Batch []G      `json:"batch,omitempty"`
}

func (o dop) term() string {
	switch o.Kind {
	case "reload":
		return "DReload " + cfgTerm(o.Cfg)
	case "update":
		return fmt.Sprintf("DUpdate %s %s", gallina.Z(int64(o.Cid)), batchTerm(o.Batch))
	}
	return "DDrain"
}

type dobs struct {
	Armed string `json:"armed"` // "t" "f" "?"
	AG    []kv   `json:"ag"`
	TG    []kv   `json:"tg"`
}

func (b dobs) term() string {
	a := "None"
	if b.Armed == "t" {
		a = "(Some true)"
	} else if b.Armed == "f" {
		a = "(Some false)"
	}
	return fmt.Sprintf("mkO %s %s %s", a, viewTerm(b.AG), viewTerm(b.TG))
}

func viewTargets(m *discovery.Manager) []kv {
	cfgOf := map[string]int64{}
	for _, p := range discovery.VerifProviders(m) {
		name, _ := discovery.VerifProviderInfo(p)
		switch c := p.Config().(type) {
		case fakeCfg:
			cfgOf[name] = int64(c.ID)
		default:
			cfgOf[name] = -1
		}
	}
	out := map[int64][]int64{}
	for k, inner := range discovery.VerifTargets(m) {
		if len(inner) == 0 {
			continue
		}
		c, ok := cfgOf[k[1]]
		if !ok {
			c = 99998
		}
		l := []int64{}
		for s, g := range inner {
			l = append(l, srcOf(s)*1000000+gidOf(g))
			if g.Source != s {
				l = append(l, -1) // keyed under a foreign source: never matches
			}
		}
		out[jobOf(k[0])*100000+c+1] = l
	}
	return canon(out)
}

type detDesc struct {
	Kind  string `json:"kind"`
	Ops   []dop  `json:"ops"`
	Obs   []dobs `json:"obs"`
	Shape string `json:"shape"`
}

func runDet(seed uint64, idx int, corpus []dop) (ops []dop, obs []dobs, classes []string, nontrivial bool) {
	r := gen.Fork(seed, idx)
	ctx, cancel := context.WithCancel(context.Background())
	defer cancel()
	m, _ := newManager(ctx, 10*time.Millisecond)
	w := &world{seed: seed, cur: map[int]*fakeDisc{}, gens: map[int]int{}}
	n := 5 + r.Intn(12)
	if corpus != nil {
		n = len(corpus)
	}
	gid := 1
	var live []int
	cleanArm := false // true when the trigger state is certainly "armed"
	changed := 0
	var lastAG string
	reloads := 0
	for i := 0; i < n; i++ {
		var o dop
		switch {
		case corpus != nil:
			o = corpus[i]
		case i == 0 || r.Chance(1, 5):
			o = dop{Kind: "reload", Cfg: genCfg(r, false)}
		case len(live) > 0 && r.Chance(3, 4):
			o = dop{Kind: "update", Cid: live[r.Intn(len(live))]}
			k := 1 + r.Intn(3)
			if r.Chance(1, 12) {
				k = 0
			}
			o.Batch = []G{}
			for j := 0; j < k; j++ {
				if r.Chance(1, 8) {
					o.Batch = append(o.Batch, G{Nil: true})
					continue
				}
				nt := r.Intn(3)
				if r.Chance(1, 5) {
					nt = 0
				}
				o.Batch = append(o.Batch, G{Src: r.Intn(3), Gid: gid, Nt: nt})
				gid++
			}
		default:
			o = dop{Kind: "drain"}
		}
		b := dobs{Armed: "?"}
		switch o.Kind {
		case "reload":
			if err := m.ApplyConfig(w.goCfg(o.Cfg)); err != nil {
				panic(err)
			}
			w.settle(o.Cfg)
			live = live[:0]
			for id, d := range w.cur {
				<-d.ready
				live = append(live, id)
			}
			sort.Ints(live)
			reloads++
			if len(o.Cfg) > 0 {
				cleanArm = true
				b.Armed = "t"
				if !discovery.VerifTriggerArmed(m) {
					b.Armed = "f"
				}
			}
			classes = append(classes, "det-reload")
		case "update":
			d := w.cur[o.Cid]
			// the second (empty) hand-off returns only after the updater has finished the
			// whole loop iteration of the first one, including arming triggerSend
			d.up <- mkBatch(o.Batch)
			d.up <- nil
			cleanArm = true
			b.Armed = "t"
			if !discovery.VerifTriggerArmed(m) {
				b.Armed = "f"
			}
			classes = append(classes, "det-update")
		default:
			took := discovery.VerifTakeTrigger(m)
			if cleanArm { // model: trigger was armed before the drain
				b.Armed = "t"
				if !took {
					b.Armed = "f"
				}
			}
			cleanArm = false
			classes = append(classes, "det-drain")
		}
		b.AG = viewGroups(discovery.VerifAllGroups(m))
		b.TG = viewTargets(m)
		if s := fmt.Sprint(b.AG); s != lastAG {
			lastAG = s
			changed++
		}
		ops = append(ops, o)
		obs = append(obs, b)
	}
	return ops, obs, classes, changed >= 3 && reloads >= 1
}

// ---------- concurrent runs ----------

type recvT struct {
	Elo, Ehi int
	Lo, Hi   map[int]int
	Map      []kv
}

type concOut struct {
	epochs   [][]jobCfg      // planned configs, index 0 = epoch 1
	epochIn  []map[int][]int // job -> instances, per epoch (index 0 = epoch 1)
	logs     map[int][][]G
	cfgOf    map[int]int
	epochOf  map[int]int
	recvs    []recvT
	final    []kv
	delayed  float64
	goViol   string
	received int
}

func counterValue(reg *prometheus.Registry, name string) float64 {
	mfs, err := reg.Gather()
	if err != nil {
		return -1
	}
	for _, mf := range mfs {
		if mf.GetName() == name {
			v := 0.0
			for _, m := range mf.GetMetric() {
				v += m.GetCounter().GetValue()
			}
			return v
		}
	}
	return -1
}

func runConc(seed uint64, idx int) concOut {
	r := gen.Fork(seed, idx)
	ctx, cancel := context.WithCancel(context.Background())
	m, reg := newManager(ctx, time.Duration(5+r.Intn(30))*time.Millisecond)
	w := &world{seed: seed ^ uint64(idx)*0x9E37, conc: true, cur: map[int]*fakeDisc{}, gens: map[int]int{}}
	out := concOut{logs: map[int][][]G{}, cfgOf: map[int]int{}, epochOf: map[int]int{}}
	E := 1 + r.Intn(4)
	gaps := make([]time.Duration, E)
	for e := 0; e < E; e++ {
		out.epochs = append(out.epochs, genCfg(r, e == 0))
		gaps[e] = time.Duration(r.Intn(120)) * time.Millisecond
		if e == 0 {
			gaps[e] = 0
		}
	}
	runDone := make(chan struct{})
	go func() { m.Run(); close(runDone) }()

	var begun, completed atomic.Int64
	var emu sync.Mutex
	reloadDone := make(chan struct{})
	go func() {
		defer close(reloadDone)
		for e := 0; e < E; e++ {
			time.Sleep(gaps[e])
			begun.Add(1)
			if err := m.ApplyConfig(w.goCfg(out.epochs[e])); err != nil {
				panic(err)
			}
			ji := w.settle(out.epochs[e])
			emu.Lock()
			out.epochIn = append(out.epochIn, ji)
			emu.Unlock()
			completed.Add(1)
		}
	}()

	type counters struct {
		sent map[int]int
		a, b int
	}
	read := func() counters {
		c := counters{sent: map[int]int{}}
		c.b = int(completed.Load())
		w.mu.Lock()
		for _, d := range w.insts {
			c.sent[d.id] = int(d.sent.Load())
		}
		w.mu.Unlock()
		c.a = int(begun.Load())
		return c
	}
	allDone := func() bool {
		select {
		case <-reloadDone:
		default:
			return false
		}
		w.mu.Lock()
		defer w.mu.Unlock()
		for _, d := range w.cur {
			if !d.done.Load() {
				return false
			}
		}
		return true
	}
	slow := r.Intn(3) // 0: eager consumer, 1: moderately slow, 2: very slow
	prev := counters{sent: map[int]int{}}
	quiet := 0
	deadline := time.Now().Add(20 * time.Second)
	ch := m.SyncCh()
	for {
		if time.Now().After(deadline) {
			out.goViol = "no quiescence within 20s"
			break
		}
		switch slow {
		case 1:
			time.Sleep(time.Duration(r.Intn(20)) * time.Millisecond)
		case 2:
			time.Sleep(time.Duration(r.Intn(80)) * time.Millisecond)
		}
		pre := read()
		select {
		case mp, ok := <-ch:
			if !ok {
				out.goViol = "SyncCh closed"
				break
			}
			post := read()
			rc := recvT{Elo: prev.b, Ehi: post.a, Lo: map[int]int{}, Hi: map[int]int{}, Map: viewGroups(mp)}
			for id, s := range post.sent {
				lo := prev.sent[id] - 1
				if lo < 0 {
					lo = 0
				}
				rc.Lo[id], rc.Hi[id] = lo, s+1
			}
			out.recvs = append(out.recvs, rc)
			out.received++
			prev = pre
			quiet = 0
		case <-time.After(350 * time.Millisecond):
			if allDone() && !discovery.VerifTriggerArmed(m) {
				quiet++
			} else {
				quiet = 0
			}
		}
		if quiet >= 3 || out.goViol != "" {
			break
		}
	}
	out.delayed = counterValue(reg, "prometheus_sd_updates_delayed_total")
	<-reloadDone
	cancel()
	<-runDone
	// collect
	w.mu.Lock()
	liveInst := map[int]bool{}
	for _, d := range w.cur {
		liveInst[d.id] = true
	}
	for _, d := range w.insts {
		d.lmu.Lock()
		out.logs[d.id] = append([][]G{}, d.log...)
		d.lmu.Unlock()
		out.cfgOf[d.id] = d.cfgID
	}
	w.mu.Unlock()
	// instance -> epoch of creation (first epoch in which it serves a job)
	for e, ji := range out.epochIn {
		for _, l := range ji {
			for _, id := range l {
				if _, ok := out.epochOf[id]; !ok {
					out.epochOf[id] = e + 1
				}
			}
		}
	}
	if len(out.recvs) > 0 {
		out.final = out.recvs[len(out.recvs)-1].Map
		fin := recvT{Elo: E, Ehi: E, Lo: map[int]int{}, Hi: map[int]int{}, Map: out.final}
		for id, l := range out.logs {
			fin.Lo[id], fin.Hi[id] = len(l), len(l)
		}
		out.recvs = append(out.recvs, fin)
	}
	// cap the upper bounds at what was really handed over
	for i := range out.recvs {
		for id, h := range out.recvs[i].Hi {
			if h > len(out.logs[id]) {
				out.recvs[i].Hi[id] = len(out.logs[id])
			}
			if out.recvs[i].Lo[id] > out.recvs[i].Hi[id] {
				out.recvs[i].Lo[id] = out.recvs[i].Hi[id]
			}
		}
	}
	return out
}

// ---------- re-arm race (pause point c47.sender.beforeRearm) ----------

// runRace: real Manager.Run, nobody receiving, so the sender's send attempt fails; at the pause
// point just before the sender puts the trigger back, a real update of the provider is pushed
// through its updater (which arms triggerSend), i.e. the 1-slot channel is already full when the
// sender re-arms. The put-back must not block: once the consumer starts receiving, the fold of
// everything sent must be delivered and the manager must quiesce. Runs must not overlap (the
// hook handler is process-global).
func runRace(seed uint64, idx int) concOut {
	r := gen.Fork(seed, idx)
	ctx, cancel := context.WithCancel(context.Background())
	m, reg := newManager(ctx, time.Duration(5+r.Intn(20))*time.Millisecond)
	w := &world{seed: seed, cur: map[int]*fakeDisc{}, gens: map[int]int{}}
	out := concOut{logs: map[int][][]G{}, cfgOf: map[int]int{}, epochOf: map[int]int{}}
	cfg := []jobCfg{{Job: 1, Cfgs: []cfgEntry{{ID: 1, OK: true}}}}
	if r.Bool() {
		cfg = append(cfg, jobCfg{Job: 2, Cfgs: []cfgEntry{{ID: 1, OK: true}}})
	}
	if r.Chance(1, 3) {
		cfg = append(cfg, jobCfg{Job: 3})
	}
	out.epochs = [][]jobCfg{cfg}
	var lmu sync.Mutex
	var log [][]G
	seq := 0
	var dp atomic.Pointer[fakeDisc]
	push := func() { // one real update through the updater; returns when fully applied and armed
		k := 1 + r.Intn(2)
		b := []G{}
		for i := 0; i < k; i++ {
			nt := r.Intn(3)
			b = append(b, G{Src: 100 + r.Intn(3), Gid: 1000 + seq, Nt: nt})
			seq++
		}
		d := dp.Load()
		d.up <- mkBatch(b)
		d.up <- nil
		lmu.Lock()
		log = append(log, b, []G{})
		lmu.Unlock()
	}
	nRace := 1 + r.Intn(3)
	var raced atomic.Int32
	var inHook atomic.Bool
	verifhook.SetHandler(func(site string, _ int) {
		if site != "c47.sender.beforeRearm" || dp.Load() == nil || int(raced.Load()) >= nRace {
			return
		}
		inHook.Store(true)
		push() // the updater arms triggerSend while the sender is between drain and put-back
		raced.Add(1)
		inHook.Store(false)
	})
	defer verifhook.SetHandler(nil)
	runDone := make(chan struct{})
	go func() { m.Run(); close(runDone) }()
	if err := m.ApplyConfig(w.goCfg(cfg)); err != nil {
		panic(err)
	}
	out.epochIn = append(out.epochIn, w.settle(cfg))
	dd := w.cur[1]
	<-dd.ready
	dp.Store(dd) // from now on the handler injects updates
	// phase 1: nobody receives; wait until the window has been raced nRace times
	t0 := time.Now()
	for int(raced.Load()) < nRace && time.Since(t0) < 5*time.Second {
		time.Sleep(5 * time.Millisecond)
	}
	if int(raced.Load()) < nRace {
		out.goViol = "pause point c47.sender.beforeRearm not reached"
	}
	for inHook.Load() {
		time.Sleep(time.Millisecond)
	}
	logLen := func() int { lmu.Lock(); defer lmu.Unlock(); return len(log) }
	// phase 2: the consumer shows up
	ch := m.SyncCh()
	prevLen := 0
	quiet := 0
	deadline := time.Now().Add(10 * time.Second)
	for out.goViol == "" {
		if time.Now().After(deadline) {
			out.goViol = "no quiescence within 10s after the re-arm window was raced (sender stuck?)"
			break
		}
		pre := logLen()
		select {
		case mp := <-ch:
			lo := prevLen - 1
			if lo < 0 {
				lo = 0
			}
			out.recvs = append(out.recvs, recvT{Elo: 1, Ehi: 1, Lo: map[int]int{1: lo}, Hi: map[int]int{1: logLen()}, Map: viewGroups(mp)})
			out.received++
			prevLen = pre
			quiet = 0
		case <-time.After(350 * time.Millisecond):
			if !discovery.VerifTriggerArmed(m) {
				quiet++
			} else {
				quiet = 0
			}
		}
		if quiet >= 3 {
			break
		}
	}
	verifhook.SetHandler(nil)
	out.delayed = counterValue(reg, "prometheus_sd_updates_delayed_total")
	cancel()
	<-runDone
	lmu.Lock()
	out.logs[1] = append([][]G{}, log...)
	lmu.Unlock()
	out.cfgOf[1] = 1
	out.epochOf[1] = 1
	n := len(out.logs[1])
	fin := recvT{Elo: 1, Ehi: 1, Lo: map[int]int{1: n}, Hi: map[int]int{1: n}}
	if len(out.recvs) > 0 {
		out.final = out.recvs[len(out.recvs)-1].Map
		fin.Map = out.final
	} else {
		// nothing was ever delivered: the exact-bounds check fails unless nothing was to be delivered
		out.final = []kv{}
		fin.Map = out.final
	}
	out.recvs = append(out.recvs, fin)
	return out
}

func (c concOut) term(id int) string {
	// epochs: index 0 = before any ApplyConfig
	eps := []string{"[]"}
	for _, ji := range c.epochIn {
		jobs := make([]int, 0, len(ji))
		for j := range ji {
			jobs = append(jobs, j)
		}
		sort.Ints(jobs)
		it := []string{}
		for _, j := range jobs {
			l := make([]int64, len(ji[j]))
			for k, v := range ji[j] {
				l[k] = int64(v)
			}
			it = append(it, gallina.Pair(gallina.Z(int64(j)), gallina.ListZ(l)))
		}
		eps = append(eps, gallina.List(it))
	}
	ids := make([]int, 0, len(c.logs))
	for i := range c.logs {
		ids = append(ids, i)
	}
	sort.Ints(ids)
	logs := []string{}
	for _, i := range ids {
		bs := make([]string, len(c.logs[i]))
		for k, b := range c.logs[i] {
			bs[k] = batchTerm(b)
		}
		logs = append(logs, gallina.Pair(gallina.Z(int64(i)), gallina.List(bs)))
	}
	rs := []string{}
	for _, rc := range c.recvs {
		bd := []string{}
		for _, i := range ids {
			if _, ok := rc.Hi[i]; !ok {
				continue
			}
			bd = append(bd, gallina.Pair(gallina.Z(int64(i)), gallina.Pair(gallina.Nat(rc.Lo[i]), gallina.Nat(rc.Hi[i]))))
		}
		rs = append(rs, fmt.Sprintf("mkR %s %s %s %s", gallina.Nat(rc.Elo), gallina.Nat(rc.Ehi), gallina.List(bd), viewTerm(rc.Map)))
	}
	// serialisation for the model: every reload in order, each followed by the complete logs of
	// the instances created by it
	ops := []string{}
	for e, cfg := range c.epochs {
		if e >= len(c.epochIn) {
			break
		}
		ops = append(ops, "DReload "+cfgTerm(cfg))
		for _, i := range ids {
			if c.epochOf[i] != e+1 {
				continue
			}
			for _, b := range c.logs[i] {
				ops = append(ops, fmt.Sprintf("DUpdate %s %s", gallina.Z(int64(c.cfgOf[i])), batchTerm(b)))
			}
		}
	}
	return fmt.Sprintf("Conc %s %s %s %s %s %s", gallina.Z(int64(id)), gallina.List(eps), gallina.List(logs),
		gallina.List(rs), gallina.List(ops), viewTerm(c.final))
}

type concDesc struct {
	Kind     string     `json:"kind"`
	Index    int        `json:"index"`
	Epochs   [][]jobCfg `json:"epochs"`
	Received int        `json:"received"`
	Delayed  float64    `json:"delayed_sends"`
	Final    []kv       `json:"final"`
	Shape    string     `json:"shape"`
}

func main() {
	f := gallina.ParseFlags()
	meta := gallina.NewMeta("C47", f.Seed, f.Tier)
	meta.Rule = "det: corpus + seeded scripts of reload/update/drain on a real Manager, non-trivial = allGroups() changed at least 3 times and at least one reload; conc: seeded concurrent runs (real sender, fake discoverers, slow consumer, concurrent ApplyConfig), non-trivial = at least 3 maps received and (a send found the consumer busy (prometheus_sd_updates_delayed_total > 0) or more than one reload); counted per case"
	cf := &gallina.CaseFile{Dir: f.Out, Type: "case", PerShard: 40,
		Preamble: "From Coq Require Import List ZArith.\nFrom Verif Require Import model.Discovery corr.CorrC47.\nImport ListNotations.\nOpen Scope Z_scope.\n",
		Footer:   gallina.StdFooter}
	id := 0

	emitDet := func(ops []dop, obs []dobs, classes []string, nt bool, corpus string) {
		ot := make([]string, len(ops))
		bt := make([]string, len(obs))
		for i := range ops {
			ot[i] = ops[i].term()
			bt[i] = obs[i].term()
		}
		cf.Add(fmt.Sprintf("Det %s %s %s", gallina.Z(int64(id)), gallina.List(ot), gallina.List(bt)))
		for _, c := range classes {
			meta.Hit(c)
		}
		shape := "det-script"
		if corpus != "" {
			shape = "det-corpus-" + corpus
		}
		meta.Case(id, detDesc{Kind: "det", Ops: ops, Obs: obs, Shape: shape})
		meta.Evaluations++
		if nt {
			meta.Nontrivial++
		}
		id++
	}

	// corpus of fixed scripts
	j := func(job int, ids ...int) jobCfg {
		jc := jobCfg{Job: job}
		for _, i := range ids {
			jc.Cfgs = append(jc.Cfgs, cfgEntry{ID: i, OK: i < 900})
		}
		return jc
	}
	g := func(src, gid, nt int) G { return G{Src: src, Gid: gid, Nt: nt} }
	corpus := map[string][]dop{
		// a source is emptied, then the provider is shared with a new job (refTargets copy), then dropped
		"empty-then-share": {
			{Kind: "reload", Cfg: []jobCfg{j(1, 1)}},
			{Kind: "update", Cid: 1, Batch: []G{g(0, 1, 2), g(1, 2, 1)}},
			{Kind: "drain"},
			{Kind: "update", Cid: 1, Batch: []G{g(0, 3, 0)}},
			{Kind: "reload", Cfg: []jobCfg{j(1, 1), j(2, 1)}},
			{Kind: "update", Cid: 1, Batch: []G{g(2, 4, 1)}},
			{Kind: "reload", Cfg: []jobCfg{j(2, 1)}},
			{Kind: "reload", Cfg: []jobCfg{j(2)}},
			{Kind: "drain"},
		},
		// job without any usable config gets the static empty provider; same source in two providers
		"static-empty-and-failing": {
			{Kind: "reload", Cfg: []jobCfg{j(1), j(2, 901), j(3, 1, 2, 1)}},
			{Kind: "update", Cid: 1, Batch: []G{g(0, 1, 1)}},
			{Kind: "update", Cid: 2, Batch: []G{g(0, 2, 1), {Nil: true}, g(0, 3, 2)}},
			{Kind: "reload", Cfg: []jobCfg{j(1, 2), j(3, 1)}},
			{Kind: "reload", Cfg: []jobCfg{}},
			{Kind: "drain"},
			{Kind: "reload", Cfg: []jobCfg{j(1, 2)}},
		},
		"empty-first-reload": {
			{Kind: "reload", Cfg: []jobCfg{}},
			{Kind: "drain"},
			{Kind: "reload", Cfg: []jobCfg{j(2, 3)}},
			{Kind: "update", Cid: 3, Batch: []G{}},
			{Kind: "update", Cid: 3, Batch: []G{g(1, 1, 0), g(1, 2, 1), g(1, 3, 0), g(2, 4, 1)}},
		},
	}
	names := make([]string, 0, len(corpus))
	for n := range corpus {
		names = append(names, n)
	}
	sort.Strings(names)
	for _, n := range names {
		ops, obs, cl, nt := runDet(f.Seed, 0, corpus[n])
		emitDet(ops, obs, cl, nt, n)
	}

	nDet := f.Count(150, 2500)
	for i := 0; i < nDet; i++ {
		ops, obs, cl, nt := runDet(f.Seed, 100+i, nil)
		emitDet(ops, obs, cl, nt, "")
	}

	// concurrent runs, `par` at a time
	nConc := f.Count(32, 800)
	par := 10
	if f.Tier == "thorough" {
		par = 16
	}
	outs := make([]concOut, nConc)
	var wg sync.WaitGroup
	sem := make(chan struct{}, par)
	for i := 0; i < nConc; i++ {
		wg.Add(1)
		sem <- struct{}{}
		go func(i int) {
			defer wg.Done()
			outs[i] = runConc(f.Seed, 100000+i)
			<-sem
		}(i)
	}
	wg.Wait()
	emitConc := func(o concOut, index int, kind string) {
		cf.Add(o.term(id))
		meta.Hit(kind + "-run")
		if o.delayed > 0 {
			meta.Hit(kind + "-send-found-consumer-busy")
		}
		if len(o.epochs) > 1 {
			meta.Hit(kind + "-multiple-reloads")
		}
		meta.Case(id, concDesc{Kind: kind, Index: index, Epochs: o.epochs, Received: o.received, Delayed: o.delayed, Final: o.final, Shape: kind + "-run"})
		if o.goViol != "" {
			meta.GoViol = append(meta.GoViol, gallina.GoViolation{ID: strconv.Itoa(id), Shape: kind + "-no-convergence", What: o.goViol})
		}
		meta.Evaluations++
		if o.received >= 3 && (o.delayed > 0 || len(o.epochs) > 1) || kind == "race" && o.received >= 1 {
			meta.Nontrivial++
		}
		id++
	}
	for i, o := range outs {
		emitConc(o, 100000+i, "conc")
	}
	// re-arm race runs, strictly one after the other (global hook handler), after the parallel
	// runs so that those never see a handler
	nRace := f.Count(4, 40)
	for i := 0; i < nRace; i++ {
		emitConc(runRace(f.Seed, 200000+i), 200000+i, "race")
	}
	cf.Flush()
	meta.Write(f.Out)
}

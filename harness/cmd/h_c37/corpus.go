package main

import "fmt"

// Fixed reproducers, run before the generated histories.

type cstep struct {
	*stepIn
	raw string // literal body instead of the one built from entries
}

type ccase struct {
	name  string
	cfg   caseCfg
	pool  []string
	steps []cstep
}

func en(met int, val int64) entry { return entry{met: met, val: val} }
func ent(met int, val, ts int64) entry {
	return entry{met: met, val: val, ts: &ts}
}

func body(k int, es ...entry) cstep {
	return cstep{stepIn: &stepIn{T: baseTime + int64(k)*15000, Kind: "body", entries: es}}
}

func badBody(k int, es ...entry) cstep {
	return cstep{stepIn: &stepIn{T: baseTime + int64(k)*15000, Kind: "body", entries: es, Bad: true}}
}

func rawBody(k int, raw string) cstep {
	return cstep{stepIn: &stepIn{T: baseTime + int64(k)*15000, Kind: "body"}, raw: raw}
}
func fail(k int) cstep { return cstep{stepIn: &stepIn{T: baseTime + int64(k)*15000, Kind: "fail"}} }
func gone() cstep      { return cstep{stepIn: &stepIn{T: endTime, Kind: "gone"}} }
func (c cstep) gc(ids ...int64) cstep {
	c.GC = ids
	return c
}

func corpus(thorough bool) []ccase {
	base := caseCfg{HonorTS: true, TimeoutS: 10}
	v2 := base
	v2.V2 = true
	lim2 := base
	lim2.SampleLimit = 2
	lim2v2 := lim2
	lim2v2.V2 = true
	track := base
	track.TrackTS = true
	extra := base
	extra.Extra = true
	extra.SampleLimit = 5
	ldrop := base
	ldrop.Rules = []string{"labeldrop-b"}
	ldropTrack := ldrop
	ldropTrack.TrackTS = true
	pool := []string{"m0", "m1", "m2", `m0{a="1"}`, `m1{a="1",b="x"}`, `m1{b="x",a="1"}`, `m1{a="1",b="y"}`}
	t1 := baseTime + 15000
	cs := []ccase{
		{"staleness-basic", base, pool, []cstep{body(1, en(0, 1), en(1, 2)), body(2, en(0, 3)), fail(3), body(4, en(0, 4), en(2, 5)), gone()}},
		{"staleness-basic-v2", v2, pool, []cstep{body(1, en(0, 1), en(1, 2)), body(2, en(0, 3)), fail(3), body(4, en(0, 4), en(2, 5)), gone()}},
		// the scrape at k=2 exceeds sample_limit=2 after m0 and m1 were appended: they get no marker
		{"sample-limit-after-samples", lim2, pool, []cstep{body(1, en(0, 1), en(1, 2)), body(2, en(0, 3), en(1, 4), en(2, 5)), body(3, en(0, 6), en(1, 7))}},
		{"sample-limit-after-samples-v2", lim2v2, pool, []cstep{body(1, en(0, 1), en(1, 2)), body(2, en(0, 3), en(1, 4), en(2, 5)), body(3, en(0, 6), en(1, 7))}},
		{"parse-failure-after-samples", base, pool, []cstep{body(1, en(0, 1), en(1, 2)), badBody(2, en(0, 3)), body(3, en(0, 6), en(1, 7)), gone()}},
		{"parse-failure-first-line", base, pool, []cstep{body(1, en(0, 1), en(1, 2)), badBody(2), body(3, en(0, 6), en(1, 7)), gone()}},
		// the storage garbage collects the series between scrapes: the reference changes, no marker
		{"ref-change", base, pool, []cstep{body(1, en(0, 1), en(1, 2)), body(2, en(0, 3), en(1, 4)).gc(1, 2), body(3, en(1, 5)).gc(2), body(4), gone()}},
		{"ref-change-v2", v2, pool, []cstep{body(1, en(0, 1), en(1, 2)), body(2, en(0, 3), en(1, 4)).gc(1, 2), body(3, en(1, 5)).gc(2), body(4), gone()}},
		// two metric texts, one label set
		{"alias-texts", base, pool, []cstep{body(1, en(4, 1), en(5, 2)), body(2, en(4, 3)), body(3, en(5, 4)).gc(5), body(4, en(6, 1))}},
		{"alias-by-labeldrop", ldrop, pool, []cstep{body(1, en(4, 1), en(6, 2)), body(2, en(6, 3)), body(3, en(4, 4)).gc(5), body(4)}},
		// the same with tracking of timestamped series: after the reference change the series is exposed
		// through the other text with an explicit timestamp and still gets a marker at the scrape time
		{"alias-ref-change-timestamped", ldropTrack, pool, []cstep{body(1, en(4, 1), en(6, 2)), body(2, ent(4, 3, t1+14000)).gc(5), body(3, en(4, 4))}},
		// explicit timestamps: not tracked unless track_timestamps_staleness
		{"explicit-ts", base, pool, []cstep{body(1, ent(0, 1, t1-5), en(1, 2)), body(2, en(1, 3)), body(3, en(0, 1)), body(4, ent(0, 1, t1+40000)), body(5)}},
		{"explicit-ts-tracked", track, pool, []cstep{body(1, ent(0, 1, t1-5), en(1, 2)), body(2, en(1, 3)), body(3, en(0, 1)), body(4, ent(0, 1, t1+40000)), body(5)}},
		{"duplicates", base, pool, []cstep{body(1, en(0, 1), en(0, 2), ent(1, 3, t1-1), en(1, 4)), body(2, ent(0, 1, t1), ent(0, 2, t1), en(1, 1)), body(3, en(1, 1), ent(1, 2, 5), en(1, 3))}},
		{"dup-after-rejected", base, pool, []cstep{body(1, ent(0, 1, 5), en(0, 2)), body(2, ent(0, 1, 5), en(0, 2), ent(1, 3, farTime), en(1, 4)), body(3, ent(0, 1, 5), en(0, 2))}},
		{"empty-and-comment-bodies", extra, pool, []cstep{body(1, en(0, 1), en(1, 2)), rawBody(2, "# nothing\n"), body(3, en(0, 1)), body(4), body(5, en(0, 1)), fail(6), gone()}},
	}
	if thorough {
		// scrapeCache.iterDone's forced flush: a failing scrape grows the cache beyond
		// 2*successfulCount+1000 entries, so entries not seen in it are deleted although the scrape
		// failed; the two series of scrape 1 are "new" again in scrape 3 (scrape_series_added = 2)
		big := []string{"m0", "m1"}
		var many []entry
		for i := 0; i < 1010; i++ {
			big = append(big, fmt.Sprintf(`m2{a="%d"}`, i))
			many = append(many, en(2+i, int64(i%100)))
		}
		cs = append(cs, ccase{"forced-cache-flush", base, big, []cstep{body(1, en(0, 1), en(1, 2)), badBody(2, many...), body(3, en(0, 3), en(1, 4)), body(4, en(0, 5))}})
		// the same without crossing the threshold: no flush, the series stay cached (series_added = 0)
		cs = append(cs, ccase{"no-forced-cache-flush", base, big, []cstep{body(1, en(0, 1), en(1, 2)), badBody(2, many[:900]...), body(3, en(0, 3), en(1, 4)), body(4, en(0, 5))}})
	}
	return cs
}

// h_c37: correspondence harness for C37 (scraping stores exactly the exposed samples and marks
// vanished series stale).
//
// Every case is one generated scrape history of one target: 10-50 scrapes of generated
// exposition bodies (series churn, duplicate series in a body, explicit timestamps that are
// recent / too old / far in the future, metric relabel rules, sample_limit, label_limit,
// unparsable tails, scrape errors, empty bodies) followed (mostly) by the end-of-run staleness
// pass.  The history is driven through the REAL scrape loop (scrape.newScrapeLoop,
// scrapeLoop.scrapeAndReport, scrapeLoop.endOfRunStaleness; Appender V1 and V2 paths) against a
// recording storage that hands out TSDB-like series references (and garbage collects series
// between scrapes, so references change).  The case records the inputs, the relabeling oracle
// tabulated through the loop's own sampleMutator, and every Append that reached the storage per
// appender with its Commit/Rollback.
package main

import (
	"context"
	"errors"
	"fmt"
	"math"
	"sort"
	"strings"
	"time"

	"github.com/prometheus/common/model"

	"github.com/prometheus/prometheus/config"
	"github.com/prometheus/prometheus/model/exemplar"
	"github.com/prometheus/prometheus/model/histogram"
	"github.com/prometheus/prometheus/model/labels"
	"github.com/prometheus/prometheus/model/metadata"
	"github.com/prometheus/prometheus/model/relabel"
	"github.com/prometheus/prometheus/model/textparse"
	"github.com/prometheus/prometheus/model/value"
	"github.com/prometheus/prometheus/scrape"
	"github.com/prometheus/prometheus/storage"

	"verif/harness/internal/gallina"
	"verif/harness/internal/gen"
)

const (
	baseTime = int64(1_000_000_000_000) // 2001-09-09, ms
	minValid = int64(500_000_000_000)   // recording storage rejects older samples (ErrOutOfBounds)
	maxValid = int64(1) << 45           // model's stand-in for now+10min (explicit timestamps avoid the gap)
	farTime  = int64(1) << 46           // "far future" explicit timestamp (year 4199)
	endTime  = int64(1) << 44           // wire value for the wall-clock time of the end-of-run pass
	refBase  = 1000
)

// ---------------------------------------------------------------- recording storage

type appObs struct {
	rin, lset, t int64
	v            float64
	rout         int64
}

type batchObs struct {
	commit bool
	done   bool
	apps   []appObs
}

type recStore struct {
	live    map[int64]int64 // label set id -> live ref
	gens    map[int64]int64
	lsetIDs map[string]int64
	lsets   []labels.Labels
	batches []*batchObs // of the current step
}

func newRecStore() *recStore {
	return &recStore{live: map[int64]int64{}, gens: map[int64]int64{}, lsetIDs: map[string]int64{}}
}

func (s *recStore) intern(l labels.Labels) int64 {
	k := l.String()
	if id, ok := s.lsetIDs[k]; ok {
		return id
	}
	id := int64(len(s.lsetIDs) + 1)
	s.lsetIDs[k] = id
	s.lsets = append(s.lsets, l.Copy())
	return id
}

func (s *recStore) append(b *batchObs, ref storage.SeriesRef, l labels.Labels, t int64, v float64) (storage.SeriesRef, error) {
	id := s.intern(l)
	r := int64(ref)
	out := int64(0)
	var err error
	switch {
	case t < minValid:
		err = storage.ErrOutOfBounds
	case r != 0 && s.live[r/refBase] == r:
		out = r
	default:
		if lr, ok := s.live[id]; ok {
			out = lr
		} else {
			s.gens[id]++
			out = id*refBase + s.gens[id]
			s.live[id] = out
		}
	}
	b.apps = append(b.apps, appObs{rin: r, lset: id, t: t, v: v, rout: out})
	return storage.SeriesRef(out), err
}

func (s *recStore) gc(ids []int64) {
	for _, id := range ids {
		delete(s.live, id)
	}
}

func (s *recStore) newBatch() *batchObs {
	b := &batchObs{}
	s.batches = append(s.batches, b)
	return b
}

type recAppV1 struct {
	s *recStore
	b *batchObs
}

func (s *recStore) Appender(context.Context) storage.Appender {
	return &recAppV1{s: s, b: s.newBatch()}
}

func (a *recAppV1) Append(ref storage.SeriesRef, l labels.Labels, t int64, v float64) (storage.SeriesRef, error) {
	return a.s.append(a.b, ref, l, t, v)
}
func (a *recAppV1) Commit() error                   { a.b.commit, a.b.done = true, true; return nil }
func (a *recAppV1) Rollback() error                 { a.b.commit, a.b.done = false, true; return nil }
func (*recAppV1) SetOptions(*storage.AppendOptions) {}
func (*recAppV1) AppendExemplar(r storage.SeriesRef, _ labels.Labels, _ exemplar.Exemplar) (storage.SeriesRef, error) {
	return r, nil
}

func histSum(h *histogram.Histogram, fh *histogram.FloatHistogram) float64 {
	if h != nil {
		return h.Sum
	}
	return fh.Sum
}

// native histograms are recorded like float samples, with their sum as the value
func (a *recAppV1) AppendHistogram(r storage.SeriesRef, l labels.Labels, t int64, h *histogram.Histogram, fh *histogram.FloatHistogram) (storage.SeriesRef, error) {
	return a.s.append(a.b, r, l, t, histSum(h, fh))
}

func (*recAppV1) AppendHistogramSTZeroSample(r storage.SeriesRef, _ labels.Labels, _, _ int64, _ *histogram.Histogram, _ *histogram.FloatHistogram) (storage.SeriesRef, error) {
	return r, nil
}

func (*recAppV1) UpdateMetadata(r storage.SeriesRef, _ labels.Labels, _ metadata.Metadata) (storage.SeriesRef, error) {
	return r, nil
}

func (*recAppV1) AppendSTZeroSample(r storage.SeriesRef, _ labels.Labels, _, _ int64) (storage.SeriesRef, error) {
	return r, nil
}

type recV2 struct{ s *recStore }

type recAppV2 struct {
	s *recStore
	b *batchObs
}

func (v recV2) AppenderV2(context.Context) storage.AppenderV2 {
	return &recAppV2{s: v.s, b: v.s.newBatch()}
}

func (a *recAppV2) Append(ref storage.SeriesRef, ls labels.Labels, _, t int64, v float64, h *histogram.Histogram, fh *histogram.FloatHistogram, _ storage.AOptions) (storage.SeriesRef, error) {
	if h != nil || fh != nil {
		v = histSum(h, fh)
	}
	return a.s.append(a.b, ref, ls, t, v)
}
func (a *recAppV2) Commit() error   { a.b.commit, a.b.done = true, true; return nil }
func (a *recAppV2) Rollback() error { a.b.commit, a.b.done = false, true; return nil }

// ---------------------------------------------------------------- case data

type entry struct {
	met int // pool index
	ts  *int64
	val int64
}

type stepIn struct {
	T        int64   `json:"t"`
	GC       []int64 `json:"gc,omitempty"`
	Kind     string  `json:"kind"` // body | fail | fail-body-size | gone
	Body     string  `json:"body,omitempty"`
	Bad      bool    `json:"bad_tail,omitempty"`
	BodyHex  string  `json:"protobuf_body_hex,omitempty"`
	raw      []byte  // protobuf body (delimited MetricFamily messages)
	entries  []entry
	batches  []*batchObs
	failBody bool
}

type rule struct {
	Name string `json:"name"`
}

type caseCfg struct {
	HonorLabels bool     `json:"honor_labels"`
	HonorTS     bool     `json:"honor_timestamps"`
	TrackTS     bool     `json:"track_timestamps_staleness"`
	SampleLimit int      `json:"sample_limit"`
	LabelLimit  int      `json:"label_limit"`
	Extra       bool     `json:"extra_metrics"`
	TimeoutS    int      `json:"timeout_s"`
	V2          bool     `json:"appender_v2"`
	Rules       []string `json:"metric_relabel"`
	TargetA     bool     `json:"target_label_a"`
	Proto       bool     `json:"protobuf,omitempty"` // protobuf exposition with native histograms
	BucketLimit int      `json:"native_histogram_bucket_limit,omitempty"`
}

type desc struct {
	Shape  string    `json:"shape"`
	Corpus string    `json:"corpus,omitempty"`
	Cfg    caseCfg   `json:"cfg"`
	Pool   []string  `json:"pool"`
	Steps  []*stepIn `json:"steps"`
}

func mkRule(name string) *relabel.Config {
	c := &relabel.Config{Separator: ";", Replacement: "$1", Regex: relabel.DefaultRelabelConfig.Regex, NameValidationScheme: model.UTF8Validation}
	switch name {
	case "drop-m3":
		c.SourceLabels, c.Regex, c.Action = model.LabelNames{"__name__"}, relabel.MustNewRegexp("m3"), relabel.Drop
	case "labeldrop-b":
		c.Regex, c.Action = relabel.MustNewRegexp("b"), relabel.LabelDrop
	case "unname-m5":
		c.SourceLabels, c.Regex, c.TargetLabel, c.Replacement, c.Action = model.LabelNames{"__name__"}, relabel.MustNewRegexp("m5"), "__name__", "", relabel.Replace
	case "drop-a3":
		c.SourceLabels, c.Regex, c.Action = model.LabelNames{"a"}, relabel.MustNewRegexp("3"), relabel.Drop
	case "copy-a-c":
		c.SourceLabels, c.Regex, c.TargetLabel, c.Replacement, c.Action = model.LabelNames{"a"}, relabel.MustNewRegexp("(.+)"), "c", "v$1", relabel.Replace
	default:
		panic(name)
	}
	return c
}

func (c caseCfg) scrapeConfig() *config.ScrapeConfig {
	sc := &config.ScrapeConfig{
		JobName:                    "j",
		HonorLabels:                c.HonorLabels,
		HonorTimestamps:            c.HonorTS,
		TrackTimestampsStaleness:   c.TrackTS,
		SampleLimit:                uint(c.SampleLimit),
		LabelLimit:                 uint(c.LabelLimit),
		MetricNameValidationScheme: model.UTF8Validation,
		ScrapeFallbackProtocol:     config.PrometheusText0_0_4,
	}
	if c.Extra {
		t := true
		sc.ExtraScrapeMetrics = &t
	}
	if c.Proto {
		t := true
		sc.ScrapeNativeHistograms = &t
		sc.NativeHistogramBucketLimit = uint(c.BucketLimit)
	}
	for _, r := range c.Rules {
		sc.MetricRelabelConfigs = append(sc.MetricRelabelConfigs, mkRule(r))
	}
	return sc
}

func (c caseCfg) targetLabels() labels.Labels {
	if c.TargetA {
		return labels.FromStrings("a", "T", "instance", "i:1", "job", "j")
	}
	return labels.FromStrings("instance", "i:1", "job", "j")
}

// ---------------------------------------------------------------- running a history on the real loop

type runner struct {
	cfg    caseCfg
	pool   []string
	metIdx map[string]int // protobuf histories: metric text -> pool index (pool grows as texts appear)
	store  *recStore
	loop   *scrape.VerifC37Loop
	mut    []int64 // per pool met: 0 drop, 1 reject, k+2 keep label set k
	rep    []int64
	wall   int64
}

func newRunner(cfg caseCfg, pool []string) *runner {
	st := newRecStore()
	o := scrape.VerifC37Options{
		Config:       cfg.scrapeConfig(),
		TargetLabels: cfg.targetLabels(),
		Interval:     time.Millisecond,
		Timeout:      time.Duration(cfg.TimeoutS) * time.Second,
	}
	if cfg.V2 {
		o.AppendableV2 = recV2{st}
	} else {
		o.Appendable = st
	}
	l, err := scrape.VerifC37NewLoop(o)
	if err != nil {
		panic(err)
	}
	r := &runner{cfg: cfg, pool: pool, store: st, loop: l, wall: time.Now().UnixMilli() - 1000, metIdx: map[string]int{}}
	// relabeling oracle: parse each metric text with the real parser, run the loop's own
	// sampleMutator and the checks of an uncached series
	for _, m := range pool {
		p, err := textparse.New([]byte(m+" 1\n"), "text/plain", nil, textparse.ParserOptions{})
		if err != nil || p == nil {
			panic(fmt.Sprint("oracle parser: ", err))
		}
		et, err := p.Next()
		if err != nil || et != textparse.EntrySeries {
			panic(fmt.Sprintf("oracle parse %q: %v %v", m, et, err))
		}
		met, _, _ := p.Series()
		if string(met) != m {
			panic(fmt.Sprintf("metric text %q parsed as %q", m, met))
		}
		var ls labels.Labels
		p.Labels(&ls)
		out, code := l.VerifC37MutateSample(ls)
		switch code {
		case 0:
			r.mut = append(r.mut, st.intern(out)+2)
		case 1:
			r.mut = append(r.mut, 0)
		default:
			r.mut = append(r.mut, 1)
		}
	}
	n := 5
	if cfg.Extra {
		n = 8
	}
	names := []string{"up", "scrape_duration_seconds", "scrape_samples_scraped", "scrape_samples_post_metric_relabeling", "scrape_series_added", "scrape_timeout_seconds", "scrape_sample_limit", "scrape_body_size_bytes"}
	for _, nm := range names[:n] {
		r.rep = append(r.rep, st.intern(l.VerifC37MutateReport(labels.FromStrings("__name__", nm))))
	}
	return r
}

func bodyOf(pool []string, es []entry, bad bool) string {
	var sb strings.Builder
	for _, e := range es {
		sb.WriteString(pool[e.met])
		fmt.Fprintf(&sb, " %d", e.val)
		if e.ts != nil {
			fmt.Fprintf(&sb, " %d", *e.ts)
		}
		sb.WriteByte('\n')
	}
	if bad {
		sb.WriteString("7&-\n")
	}
	return sb.String()
}

func (r *runner) step(s *stepIn) {
	r.store.gc(s.GC)
	r.store.batches = nil
	at := time.UnixMilli(s.T)
	switch s.Kind {
	case "body":
		if s.raw != nil {
			r.loop.ScrapeAndReport(at, s.raw, protoContentType, nil)
		} else {
			r.loop.ScrapeAndReport(at, []byte(s.Body), "text/plain", nil)
		}
	case "fail":
		r.loop.ScrapeAndReport(at, nil, "", errors.New("connection refused"))
	case "fail-body-size":
		r.loop.ScrapeAndReport(at, nil, "", fmt.Errorf("wrapped: %w", scrape.VerifC37ErrBodySizeLimit))
	case "gone":
		r.loop.EndOfRunStaleness(time.Now())
	}
	s.batches = r.store.batches
	for _, b := range s.batches {
		if !b.done {
			panic("appender neither committed nor rolled back")
		}
	}
}

// ---------------------------------------------------------------- printing

func wireVal(v float64, isDur bool) int64 {
	switch {
	case value.IsStaleNaN(v):
		return 0
	case isDur && v >= 0 && !math.IsInf(v, 0):
		return 1
	case v == math.Trunc(v) && v >= -9 && v < 1<<40:
		return int64(v) + 10
	}
	return 2
}

func (r *runner) wireT(t int64) int64 {
	if t >= r.wall {
		return endTime
	}
	if t < 0 {
		panic("negative timestamp")
	}
	return t
}

func ints(l []int64) string {
	it := make([]string, len(l))
	for i, v := range l {
		it[i] = fmt.Sprint(v)
	}
	return "[" + strings.Join(it, ";") + "]"
}

func (r *runner) term(id int, steps []*stepIn) string {
	var sb strings.Builder
	c := r.cfg
	fmt.Fprintf(&sb, "mk %d (cf %s %s %d %s %d %d %d) [", id, gallina.Bool(c.HonorTS), gallina.Bool(c.TrackTS),
		c.SampleLimit, gallina.Bool(c.Extra), c.TimeoutS, minValid, maxValid)
	for i, m := range r.mut {
		if i > 0 {
			sb.WriteString(";")
		}
		fmt.Fprintf(&sb, "mt %d %d", i+1, m)
	}
	sb.WriteString("] " + ints(r.rep) + "\n [")
	for i, s := range steps {
		if i > 0 {
			sb.WriteString(";\n  ")
		}
		t := s.T
		switch s.Kind {
		case "body":
			fmt.Fprintf(&sb, "sb %d %s [", t, ints(s.GC))
			for j, e := range s.entries {
				if j > 0 {
					sb.WriteString(";")
				}
				ts := int64(0)
				if e.ts != nil {
					ts = *e.ts + 1
				}
				fmt.Fprintf(&sb, "e %d %d %d", e.met+1, ts, e.val)
			}
			fmt.Fprintf(&sb, "] %s %d", gallina.Bool(s.Bad), len(s.Body)+len(s.raw))
		case "fail":
			fmt.Fprintf(&sb, "sf %d %s false", t, ints(s.GC))
		case "fail-body-size":
			fmt.Fprintf(&sb, "sf %d %s true", t, ints(s.GC))
		case "gone":
			fmt.Fprintf(&sb, "sg %d %s", endTime, ints(s.GC))
		}
	}
	sb.WriteString("]\n [")
	durLset := r.rep[1]
	for i, s := range steps {
		if i > 0 {
			sb.WriteString(";\n  ")
		}
		sb.WriteString("[")
		for j, b := range s.batches {
			if j > 0 {
				sb.WriteString("; ")
			}
			fmt.Fprintf(&sb, "b %s [", gallina.Bool(b.commit))
			for k, a := range b.apps {
				if k > 0 {
					sb.WriteString(";")
				}
				fmt.Fprintf(&sb, "a %d %d %d %d %d", a.rin, a.lset, r.wireT(a.t), wireVal(a.v, a.lset == durLset), a.rout)
			}
			sb.WriteString("]")
		}
		sb.WriteString("]")
	}
	sb.WriteString("]")
	return sb.String()
}

// ---------------------------------------------------------------- generation

func genPool(r *gen.Rand) []string {
	seen := map[string]bool{}
	var pool []string
	n := 6 + r.Intn(16)
	for len(pool) < n {
		name := fmt.Sprintf("m%d", r.Intn(6))
		var parts []string
		if r.Chance(2, 3) {
			parts = append(parts, fmt.Sprintf(`a="%d"`, 1+r.Intn(3)))
		}
		if r.Chance(1, 2) {
			parts = append(parts, fmt.Sprintf(`b="%s"`, gen.Pick(r, []string{"x", "y"})))
		}
		if r.Chance(1, 8) {
			parts = append(parts, `job="other"`)
		}
		if r.Chance(1, 10) {
			parts = append(parts, `d="long"`, `e="more"`)
		}
		if len(parts) > 1 && r.Chance(1, 3) { // another textual order: an alias of the same label set
			parts[0], parts[len(parts)-1] = parts[len(parts)-1], parts[0]
		}
		m := name
		if len(parts) > 0 {
			m += "{" + strings.Join(parts, ",") + "}"
		}
		if !seen[m] {
			seen[m] = true
			pool = append(pool, m)
		}
	}
	return pool
}

func genCfg(r *gen.Rand, id int) caseCfg {
	c := caseCfg{
		HonorLabels: r.Chance(3, 10),
		HonorTS:     r.Chance(8, 10),
		TrackTS:     r.Chance(3, 10),
		Extra:       r.Chance(3, 10),
		TimeoutS:    int(r.PickI64(5, 10, 30)),
		V2:          id%2 == 1,
		TargetA:     r.Chance(1, 4),
	}
	if r.Bool() {
		c.SampleLimit = 4 + r.Intn(12)
	}
	if r.Chance(3, 10) {
		c.LabelLimit = 4 + r.Intn(2)
	}
	for _, n := range []string{"drop-m3", "labeldrop-b", "unname-m5", "drop-a3", "copy-a-c"} {
		if r.Chance(1, 3) {
			c.Rules = append(c.Rules, n)
		}
	}
	return c
}

type stats struct {
	dist map[string]int
}

// genAndRun generates the history step by step (garbage collection picks from the storage's
// live series) and runs each step on the real loop as it goes.
func genAndRun(r *gen.Rand, run *runner, nsteps int, plain bool, m *gallina.Meta) []*stepIn {
	pool := run.pool
	active := map[int]bool{}
	for i := range pool {
		if r.Chance(1, 2) {
			active[i] = true
		}
	}
	var rejecting []int
	for i, c := range run.mut {
		if c == 1 {
			rejecting = append(rejecting, i)
		}
	}
	var steps []*stepIn
	t := baseTime + r.Range(0, 1000)
	for k := 0; k < nsteps; k++ {
		t += 15000 + r.Range(-20, 20)
		s := &stepIn{T: t}
		if r.Chance(15, 100) && len(run.store.live) > 0 {
			var ids []int64
			for id := range run.store.live {
				ids = append(ids, id)
			}
			sort.Slice(ids, func(i, j int) bool { return ids[i] < ids[j] })
			for n := 1 + r.Intn(3); n > 0; n-- {
				s.GC = append(s.GC, gen.Pick(r, ids))
			}
			m.Hit("step:gc")
		}
		// churn
		for i := range pool {
			if active[i] && r.Chance(15, 100) {
				delete(active, i)
			} else if !active[i] && r.Chance(10, 100) {
				active[i] = true
			}
		}
		switch x := r.Intn(100); {
		case x < 6:
			s.Kind = "fail"
		case x < 9:
			s.Kind = "fail-body-size"
		default:
			s.Kind = "body"
			var order []int
			for i := range pool {
				if active[i] && run.mut[i] != 1 {
					order = append(order, i)
				}
			}
			for i := len(order) - 1; i > 0; i-- {
				j := r.Intn(i + 1)
				order[i], order[j] = order[j], order[i]
			}
			mkEntry := func(i int) entry {
				e := entry{met: i, val: r.Range(0, 99)}
				if r.Chance(2, 10) {
					var ts int64
					switch y := r.Intn(100); {
					case y < 70:
						ts = t - r.Range(0, 5000)
						m.Hit("ts:recent")
					case y < 85:
						ts = r.Range(0, minValid-1)
						m.Hit("ts:too-old")
					default:
						ts = farTime + r.Range(0, 1000)
						m.Hit("ts:far-future")
					}
					e.ts = &ts
				}
				return e
			}
			for _, i := range order {
				s.entries = append(s.entries, mkEntry(i))
				if r.Chance(8, 100) { // the same series again, somewhere later
					s.entries = append(s.entries, mkEntry(i))
					j := len(s.entries) - 1 - r.Intn(2)
					s.entries[j], s.entries[len(s.entries)-1] = s.entries[len(s.entries)-1], s.entries[j]
					m.Hit("body:duplicate-series")
				}
			}
			switch y := r.Intn(100); {
			case y < 5:
				s.Bad = true
				if plain { // only bodies whose samples are all dropped may fail to parse
					var kept []entry
					for _, e := range s.entries {
						if run.mut[e.met] == 0 && r.Bool() {
							kept = append(kept, e)
						}
					}
					s.entries = kept
				}
				m.Hit("body:unparsable-tail")
			case y < 9 && len(rejecting) > 0:
				e := mkEntry(gen.Pick(r, rejecting))
				pos := r.Intn(len(s.entries) + 1)
				if plain {
					pos = 0
				}
				s.entries = append(s.entries[:pos], append([]entry{e}, s.entries[pos:]...)...)
				m.Hit("body:rejected-series")
			case y < 15:
				s.entries = nil
				m.Hit("body:empty")
			}
			s.Body = bodyOf(pool, s.entries, s.Bad)
			if len(s.entries) == 0 && !s.Bad && r.Bool() {
				s.Body = "# nothing here\n"
				m.Hit("body:comment-only")
			}
		}
		m.Hit("step:" + s.Kind)
		run.step(s)
		steps = append(steps, s)
	}
	if r.Chance(6, 10) {
		s := &stepIn{T: endTime, Kind: "gone"}
		m.Hit("step:gone")
		run.step(s)
		steps = append(steps, s)
	}
	return steps
}

// classify: does the history contain a non-empty body that fails after at least one of its
// samples was appended (the trigger of finding partial-append-failure)?
func classify(run *runner, steps []*stepIn, m *gallina.Meta) string {
	shape := "plain"
	// trigger of finding alias-ref-change-marker: the storage forgets a label set that two
	// metric texts of the pool map to
	texts := map[int64]int{}
	for _, c := range run.mut {
		if c >= 2 {
			texts[c-2]++
		}
	}
	for _, s := range steps {
		for _, id := range s.GC {
			if texts[id] >= 2 {
				shape = "alias-ref-change"
			}
		}
	}
	for _, s := range steps {
		if s.Kind != "body" || len(s.Body)+len(s.raw) == 0 {
			continue
		}
		kept, failed := 0, s.Bad // an unparsable tail fails after every line was processed
	entries:
		for _, e := range s.entries {
			switch run.mut[e.met] {
			case 0:
			case 1:
				failed = true
				break entries
			default:
				kept++
			}
		}
		if run.cfg.SampleLimit > 0 && kept > run.cfg.SampleLimit {
			failed = true
			m.Hit("body:sample-limit-exceeded")
		}
		if failed {
			m.Hit("body:failed")
			if kept > 0 {
				shape = "append-failure-after-samples"
			}
		}
	}
	return shape
}

func main() {
	f := gallina.ParseFlags()
	meta := gallina.NewMeta("C37", f.Seed, f.Tier)
	cf := &gallina.CaseFile{
		Dir:      f.Out,
		Preamble: "From Coq Require Import List ZArith Bool Uint63.\nFrom Verif Require Import model.Scrape corr.CorrC37.\nImport ListNotations.\nOpen Scope uint63_scope.\n",
		Type:     "case",
		Footer:   gallina.StdFooter,
		PerShard: 75,
	}
	n := f.Count(130, 1600)
	maxSteps := 25
	if f.Tier == "thorough" {
		maxSteps = 50
	}
	distinct := map[string]bool{}
	id := 0
	emit := func(run *runner, steps []*stepIn, corpus string) {
		shape := classify(run, steps, meta)
		limitCheck(run, steps, id, meta)
		cf.Add(run.term(id, steps))
		meta.Case(id, desc{Shape: shape, Corpus: corpus, Cfg: run.cfg, Pool: run.pool, Steps: steps})
		meta.Evaluations++
		meta.Hit("shape:" + shape)
		if run.cfg.V2 {
			meta.Hit("appender:v2")
		} else {
			meta.Hit("appender:v1")
		}
		markers, failures := 0, 0
		var key strings.Builder
		for _, s := range steps {
			key.WriteString(s.Kind + s.Body + s.BodyHex + fmt.Sprint(s.GC) + "|")
			if len(s.batches) > 1 || strings.HasPrefix(s.Kind, "fail") {
				failures++
			}
			for _, b := range s.batches {
				for _, a := range b.apps {
					if value.IsStaleNaN(a.v) && b.commit && s.Kind != "gone" {
						markers++
					}
				}
			}
		}
		if markers > 0 && failures > 0 && !distinct[key.String()] {
			distinct[key.String()] = true
		}
		run.loop.Close()
		id++
	}
	for _, c := range corpus(f.Tier == "thorough") {
		run := newRunner(c.cfg, c.pool)
		for _, s := range c.steps {
			if s.Kind == "body" {
				s.Body = bodyOf(c.pool, s.entries, s.Bad)
				if s.raw != "" {
					s.Body = s.raw
				}
			}
			meta.Hit("step:" + s.Kind)
			run.step(s.stepIn)
		}
		var steps []*stepIn
		for _, s := range c.steps {
			steps = append(steps, s.stepIn)
		}
		emit(run, steps, c.name)
	}
	for i := 0; i < n; i++ {
		r := gen.Fork(f.Seed, i)
		cfg := genCfg(r, id)
		pool := genPool(r)
		// plain histories avoid the trigger of finding append-failure-after-samples: no
		// sample_limit that can be exceeded, failing bodies fail before any sample is appended
		plain := r.Chance(6, 10)
		if plain && cfg.SampleLimit > 0 {
			cfg.SampleLimit = 100 + r.Intn(100)
		}
		run := newRunner(cfg, pool)
		steps := genAndRun(r, run, 10+r.Intn(maxSteps-9), plain, meta)
		emit(run, steps, "")
	}
	for i := 0; i < f.Count(40, 400); i++ {
		r := gen.Fork(f.Seed, 1000000+i)
		run, steps := genProtoCase(r, id, meta)
		emit(run, steps, "")
	}
	cf.Flush()
	meta.Nontrivial = len(distinct)
	meta.Rule = "distinct histories (step kinds + bodies + gc sets) in which at least one staleness marker of a scraped series was committed and at least one scrape failed"
	meta.Write(f.Out)
}

package main

// Protobuf scrape histories with native histograms (int and float), classic histograms and
// gauges, under a sample_limit of count-1 / count / count+1, plus the Go-side judgement of
// sample_limit acceptance (limitCheck).
//
// A native histogram goes through AppendHistogram (V1) / Append with h or fh (V2); the recording
// storage records it like a float sample whose value is the histogram's sum, so the model
// (which has one kind of sample) applies unchanged: limitAppender.AppendHistogram counts a
// histogram exactly like limitAppender.Append counts a float.  The entries of a protobuf body
// (metric text, timestamp, value) are obtained by running the real protobuf parser over the
// body (the parser is C35's subject, an oracle here).

import (
	"encoding/binary"
	"encoding/hex"
	"errors"
	"fmt"
	"io"
	"math"

	dto "github.com/prometheus/client_model/go"
	"google.golang.org/protobuf/proto"

	"github.com/prometheus/prometheus/model/labels"
	"github.com/prometheus/prometheus/model/textparse"
	"github.com/prometheus/prometheus/model/value"

	"verif/harness/internal/gallina"
	"verif/harness/internal/gen"
)

const protoContentType = "application/vnd.google.protobuf; proto=io.prometheus.client.MetricFamily; encoding=delimited"

const (
	kGauge = iota
	kIntHist
	kFloatHist
	kClassic
)

type pfamily struct {
	name string
	kind int
	as   []string // label a of each metric
}

type pmetric struct {
	fam, idx int
	sum      int64
	ts       *int64
}

func protoBody(fams []pfamily, ms []pmetric) []byte {
	var out []byte
	for fi, f := range fams {
		mf := &dto.MetricFamily{Name: proto.String(f.name), Help: proto.String("h")}
		for _, m := range ms {
			if m.fam != fi {
				continue
			}
			pm := &dto.Metric{Label: []*dto.LabelPair{{Name: proto.String("a"), Value: proto.String(f.as[m.idx])}}, TimestampMs: m.ts}
			s := float64(m.sum)
			switch f.kind {
			case kGauge:
				mf.Type = dto.MetricType_GAUGE.Enum()
				pm.Gauge = &dto.Gauge{Value: proto.Float64(s)}
			case kIntHist:
				mf.Type = dto.MetricType_HISTOGRAM.Enum()
				pm.Histogram = &dto.Histogram{
					SampleCount: proto.Uint64(4), SampleSum: proto.Float64(s), Schema: proto.Int32(0),
					ZeroThreshold: proto.Float64(0.001), ZeroCount: proto.Uint64(1),
					PositiveSpan:  []*dto.BucketSpan{{Offset: proto.Int32(0), Length: proto.Uint32(2)}},
					PositiveDelta: []int64{1, 1},
				}
			case kFloatHist:
				mf.Type = dto.MetricType_HISTOGRAM.Enum()
				pm.Histogram = &dto.Histogram{
					SampleCountFloat: proto.Float64(4), SampleSum: proto.Float64(s), Schema: proto.Int32(0),
					ZeroThreshold: proto.Float64(0.001), ZeroCountFloat: proto.Float64(1),
					PositiveSpan:  []*dto.BucketSpan{{Offset: proto.Int32(0), Length: proto.Uint32(2)}},
					PositiveCount: []float64{1, 2},
				}
			case kClassic:
				mf.Type = dto.MetricType_HISTOGRAM.Enum()
				pm.Histogram = &dto.Histogram{
					SampleCount: proto.Uint64(3), SampleSum: proto.Float64(s),
					Bucket: []*dto.Bucket{
						{CumulativeCount: proto.Uint64(1), UpperBound: proto.Float64(1)},
						{CumulativeCount: proto.Uint64(3), UpperBound: proto.Float64(math.Inf(1))},
					},
				}
			}
			mf.Metric = append(mf.Metric, pm)
		}
		if len(mf.Metric) == 0 {
			continue
		}
		b, err := proto.Marshal(mf)
		if err != nil {
			panic(err)
		}
		out = binary.AppendUvarint(out, uint64(len(b)))
		out = append(out, b...)
	}
	return out
}

// protoEntries runs the real protobuf parser (with the loop's options) over the body and
// interns every sample line as a pool metric text.
func (r *runner) protoEntries(body []byte) []entry {
	p, err := textparse.New(body, protoContentType, nil, textparse.ParserOptions{})
	if err != nil || p == nil {
		panic(fmt.Sprint("protobuf parser: ", err))
	}
	var es []entry
	for {
		et, err := p.Next()
		if errors.Is(err, io.EOF) {
			return es
		}
		if err != nil {
			panic(fmt.Sprint("protobuf parse: ", err))
		}
		var met []byte
		var ts *int64
		var v float64
		switch et {
		case textparse.EntrySeries:
			met, ts, v = p.Series()
		case textparse.EntryHistogram:
			m, t, h, fh := p.Histogram()
			met, ts, v = m, t, histSum(h, fh)
		default:
			continue
		}
		if v != math.Trunc(v) || v < 0 || value.IsStaleNaN(v) {
			panic(fmt.Sprintf("protobuf sample value %v not a small integer", v))
		}
		idx, ok := r.metIdx[string(met)]
		if !ok {
			var ls labels.Labels
			p.Labels(&ls)
			idx = len(r.pool)
			r.metIdx[string(met)] = idx
			r.pool = append(r.pool, string(met))
			out, code := r.loop.VerifC37MutateSample(ls)
			switch code {
			case 0:
				r.mut = append(r.mut, r.store.intern(out)+2)
			case 1:
				r.mut = append(r.mut, 0)
			default:
				r.mut = append(r.mut, 1)
			}
		}
		e := entry{met: idx, val: int64(v)}
		if ts != nil {
			t := *ts
			e.ts = &t
		}
		es = append(es, e)
	}
}

func genProtoCase(r *gen.Rand, id int, m *gallina.Meta) (*runner, []*stepIn) {
	// families
	var fams []pfamily
	nf := 3 + r.Intn(4)
	for i := 0; i < nf; i++ {
		kind := r.Intn(4)
		if i == 0 {
			kind = kFloatHist // always at least one float native histogram family
		}
		f := pfamily{name: fmt.Sprintf("p%d_%s", i, []string{"g", "ih", "fh", "ch"}[kind]), kind: kind}
		for k := 1 + r.Intn(3); k > 0; k-- {
			f.as = append(f.as, fmt.Sprint(len(f.as)+1))
		}
		fams = append(fams, f)
	}
	active := map[[2]int]bool{}
	for fi, f := range fams {
		for mi := range f.as {
			if r.Chance(3, 4) || (fi == 0 && mi == 0) {
				active[[2]int{fi, mi}] = true
			}
		}
	}
	cfg := caseCfg{
		HonorTS: r.Chance(8, 10), TrackTS: r.Chance(3, 10), Extra: r.Chance(2, 10), TimeoutS: 10,
		V2: id%2 == 1, Proto: true, HonorLabels: r.Chance(2, 10),
	}
	if r.Chance(1, 3) {
		cfg.BucketLimit = 100 // wrapper in the chain, never reached by these histograms
	}
	if r.Chance(1, 4) {
		cfg.Rules = []string{"drop-a3"}
	}
	if r.Chance(1, 10) {
		cfg.LabelLimit = 4 // __name__, a, instance, job: classic bucket series (le) are rejected
	}
	mkMetrics := func(t int64) []pmetric {
		var ms []pmetric
		for fi, f := range fams {
			for mi := range f.as {
				if !active[[2]int{fi, mi}] {
					continue
				}
				pm := pmetric{fam: fi, idx: mi, sum: r.Range(0, 99)}
				if r.Chance(15, 100) {
					ts := t - r.Range(1, 5000)
					pm.ts = &ts
				}
				ms = append(ms, pm)
			}
		}
		return ms
	}
	t := baseTime + r.Range(0, 1000) + 15000
	first := protoBody(fams, mkMetrics(t))
	// sample_limit around the number of samples the first body keeps (probe loop without limit)
	probe := newRunner(cfg, nil)
	kept := 0
	for _, e := range probe.protoEntries(first) {
		if probe.mut[e.met] >= 2 {
			kept++
		}
	}
	probe.loop.Close()
	switch x := r.Intn(10); {
	case x < 3:
		cfg.SampleLimit = kept - 1
		m.Hit("proto:limit-1")
	case x < 6:
		cfg.SampleLimit = kept
		m.Hit("proto:limit")
	case x < 9:
		cfg.SampleLimit = kept + 1
		m.Hit("proto:limit+1")
	default:
		m.Hit("proto:no-limit")
	}
	if cfg.SampleLimit < 0 {
		cfg.SampleLimit = 0
	}
	run := newRunner(cfg, nil)
	var steps []*stepIn
	n := 2 + r.Intn(3)
	body := first
	for k := 0; k < n; k++ {
		s := &stepIn{T: t}
		if k > 0 && r.Chance(1, 10) {
			s.Kind = "fail"
		} else {
			s.Kind = "body"
			if k > 0 {
				// churn: mostly the same series again (so they are cached), sometimes one more / one less
				var on, off [][2]int
				for fi, f := range fams {
					for mi := range f.as {
						if active[[2]int{fi, mi}] {
							on = append(on, [2]int{fi, mi})
						} else {
							off = append(off, [2]int{fi, mi})
						}
					}
				}
				if len(off) > 0 && r.Chance(1, 2) {
					active[gen.Pick(r, off)] = true
				}
				if len(on) > 1 && r.Chance(3, 10) {
					delete(active, gen.Pick(r, on))
				}
				body = protoBody(fams, mkMetrics(t))
			}
			s.raw = body
			s.BodyHex = hex.EncodeToString(body)
			s.entries = run.protoEntries(body)
		}
		m.Hit("step:proto-" + s.Kind)
		run.step(s)
		steps = append(steps, s)
		t += 15000 + r.Range(-20, 20)
	}
	if r.Chance(3, 10) {
		s := &stepIn{T: endTime, Kind: "gone"}
		run.step(s)
		steps = append(steps, s)
	}
	for _, f := range fams {
		m.Hit("proto:family-" + []string{"gauge", "int-histogram", "float-histogram", "classic-histogram"}[f.kind])
	}
	return run, steps
}

// limitCheck judges sample_limit acceptance on the Go side, per body, from the inputs and the
// reported `up` alone (independent of the shape tags used for the known findings):
//   - more kept, non-duplicate samples than sample_limit, yet up = 1  -> sample-limit-exceeded-accepted
//   - nothing wrong with the body and within sample_limit, yet up = 0 -> acceptable-body-rejected
//
// The duplicate corner (a line without timestamp after only storage-rejected lines of the same
// text) is counted both ways; a verdict is given only when both counts agree.
func limitCheck(run *runner, steps []*stepIn, id int, m *gallina.Meta) {
	for k, s := range steps {
		if s.Kind != "body" || len(s.Body)+len(s.raw) == 0 || len(s.batches) == 0 {
			continue
		}
		cmin, cmax, other := 0, 0, s.Bad
		ok, rej := map[int]bool{}, map[int]bool{}
		for _, e := range s.entries {
			c := run.mut[e.met]
			if c == 1 {
				other = true
				break
			}
			if c == 0 {
				continue
			}
			ts := e.ts
			if !run.cfg.HonorTS {
				ts = nil
			}
			switch {
			case ts == nil && ok[e.met]:
			case ts == nil && rej[e.met]:
				cmax++
			default:
				cmin++
				cmax++
				if ts == nil || (*ts >= minValid && *ts <= maxValid) {
					ok[e.met] = true
				} else {
					rej[e.met] = true
				}
			}
		}
		last := s.batches[len(s.batches)-1]
		up := math.NaN()
		for _, a := range last.apps {
			if a.lset == run.rep[0] && !value.IsStaleNaN(a.v) {
				up = a.v
			}
		}
		lim := run.cfg.SampleLimit
		what := ""
		shape := ""
		switch {
		case lim > 0 && cmin > lim && up == 1:
			shape = "sample-limit-exceeded-accepted"
			what = fmt.Sprintf("scrape %d: %d samples count against sample_limit %d, yet the scrape was accepted (up = 1)", k, cmin, lim)
		case !other && (lim == 0 || cmax <= lim) && up == 0:
			shape = "acceptable-body-rejected"
			what = fmt.Sprintf("scrape %d: parsable body with %d samples within sample_limit %d was rejected (up = 0)", k, cmax, lim)
		}
		if shape != "" {
			m.GoViol = append(m.GoViol, gallina.GoViolation{ID: fmt.Sprint(id), Shape: shape, What: what})
			return
		}
	}
}

package main

import (
	"fmt"
	"regexp"
	"strings"

	"github.com/prometheus/prometheus/model/labels"
)

func try(pat string, ss ...string) {
	m, err := labels.NewFastRegexMatcher(pat)
	if err != nil {
		fmt.Println("ERR", pat, err)
		return
	}
	re := regexp.MustCompile("^(?s:" + pat + ")$")
	for _, s := range ss {
		a, b := m.MatchString(s), re.MatchString(s)
		flag := ""
		if a != b {
			flag = "  <<<<<< DIVERGE"
		}
		fmt.Printf("%q on %q: fast=%v std=%v%s\n", pat, s, a, b, flag)
	}
}

func main() {
	var alts []string
	for i := 0; i < 16; i++ {
		alts = append(alts, fmt.Sprintf("v%d", i))
	}
	a := strings.Join(alts, "|")
	try("(?i:fi|"+a+")", "fi", "FI", "\ufb01", "Fi")
	try("(?i:\u00e9|"+a+")", "\u00e9", "e\u0301", "\u00c9", "E\u0301")
	try("(?i:e\u0301|"+a+")", "\u00e9", "e\u0301")
	try("(?i:k.*|"+a+")", "kx", "Kx", "\u212ax", "k", "\u212a")
	try("(?i:s.*|"+a+")", "sx", "\u017fx")
	try("(?i:\u212a.*|"+a+")", "kx", "Kx", "\u212ax")
	try("(?i:kelvin|"+a+")", "kelvin", "\u212aelvin", "KELVIN")
	try("(?i:\u017f|s1|"+a+")", "s", "S", "\u017f")
	try("(?i:ǆ|"+a+")", "ǆ", "ǅ", "Ǆ")
	try("(?i:ς|"+a+")", "ς", "σ", "Σ")
	try("(?i:µ|"+a+")", "µ", "μ", "Μ")
	try("(?i:ß|"+a+")", "ß", "ẞ", "ss")
	try("(?i:İ|"+a+")", "İ", "i", "i̇")
	try("(?i:ı|"+a+")", "ı", "I", "i")
	try("(?i:ǰ|"+a+")", "ǰ", "ǰ")
	try("(?i:Ω|"+a+")", "Ω", "ω", "Ω")
	try("(?i:é.*|"+a+")", "éx", "Éx")
	try("(?i:aé.*|b|"+a+")", "aéx", "AÉx", "b")
}

// h_c17: correspondence harness for C17 (labels.FastRegexMatcher = anchored regexp semantics).
// For generated patterns it builds the real FastRegexMatcher, dumps the optimised matcher
// (via the verif export shim), parses the pattern with regexp/syntax exactly as the code does
// and dumps that tree, and records MatchString / SetMatches and the answer of Go's standard
// regexp ^(?s:pattern)$ on strings derived from the pattern plus mutations.
package main

import (
	"fmt"
	"os"
	"regexp"
	"sort"
	"strings"
	"unicode"
	"unicode/utf8"

	gsyntax "github.com/grafana/regexp/syntax"
	"github.com/prometheus/prometheus/model/labels"

	"verif/harness/internal/gallina"
	"verif/harness/internal/gen"
)

type desc struct {
	Pattern string   `json:"pattern"`
	Strings []string `json:"strings"`
	Fast    []bool   `json:"fast"`
	Std     []bool   `json:"std"`
	Diverge []string `json:"diverging_strings,omitempty"`
	Path    string   `json:"path"`
	Shape   string   `json:"shape"`
	Corpus  string   `json:"corpus,omitempty"`
}

// ---------------------------------------------------------------- Gallina printing
func zs(vs []int64) string {
	it := make([]string, len(vs))
	for i, v := range vs {
		it[i] = fmt.Sprint(v)
	}
	if len(it) == 0 {
		return "[]"
	}
	return "[" + strings.Join(it, "; ") + "]"
}

func runesOf(s string) string {
	var v []int64
	for _, r := range s {
		v = append(v, int64(r))
	}
	return zs(v)
}

func bytesOf(s string) string {
	var v []int64
	for i := 0; i < len(s); i++ {
		v = append(v, int64(s[i]))
	}
	return zs(v)
}

func strList(ss []string, f func(string) string) string {
	it := make([]string, len(ss))
	for i, s := range ss {
		it[i] = f(s)
	}
	return gallina.List(it)
}

func dumpRe(r *gsyntax.Regexp) (string, bool) {
	fold := gallina.Bool(r.Flags&gsyntax.FoldCase != 0)
	subs := func() (string, bool) {
		it := make([]string, len(r.Sub))
		for i, s := range r.Sub {
			d, ok := dumpRe(s)
			if !ok {
				return "", false
			}
			it[i] = d
		}
		return gallina.List(it), true
	}
	one := func(c string) (string, bool) {
		d, ok := dumpRe(r.Sub[0])
		return "(" + c + " " + d + ")", ok
	}
	switch r.Op {
	case gsyntax.OpNoMatch:
		return "RNoMatch", true
	case gsyntax.OpEmptyMatch:
		return "(REmpty " + fold + ")", true
	case gsyntax.OpLiteral:
		var v []int64
		for _, c := range r.Rune {
			v = append(v, int64(c))
		}
		return "(RLit " + fold + " " + zs(v) + ")", true
	case gsyntax.OpCharClass:
		if len(r.Rune)%2 != 0 {
			return "", false
		}
		var it []string
		for i := 0; i+1 < len(r.Rune); i += 2 {
			it = append(it, fmt.Sprintf("(%d, %d)", r.Rune[i], r.Rune[i+1]))
		}
		return "(RClass " + fold + " " + gallina.List(it) + ")", true
	case gsyntax.OpAnyCharNotNL:
		return "RAnyNotNL", true
	case gsyntax.OpAnyChar:
		return "RAny", true
	case gsyntax.OpBeginText:
		return "RBeginText", true
	case gsyntax.OpEndText:
		return "REndText", true
	case gsyntax.OpCapture:
		return one("RCapture")
	case gsyntax.OpStar:
		return one("RStar")
	case gsyntax.OpPlus:
		return one("RPlus")
	case gsyntax.OpQuest:
		return one("RQuest")
	case gsyntax.OpRepeat:
		d, ok := dumpRe(r.Sub[0])
		return fmt.Sprintf("(RRepeat %d (%d) %s)", r.Min, r.Max, d), ok
	case gsyntax.OpConcat:
		d, ok := subs()
		return "(RConcat " + d + ")", ok
	case gsyntax.OpAlternate:
		d, ok := subs()
		return "(RAlt " + d + ")", ok
	}
	return "", false
}

func dumpSM(m *labels.VerifSM) (string, bool) {
	opt := func(x *labels.VerifSM) (string, bool) {
		if x == nil {
			return "None", true
		}
		d, ok := dumpSM(x)
		return "(Some " + d + ")", ok
	}
	switch m.Kind {
	case "equal":
		return "(SEqual " + runesOf(m.S) + " " + gallina.Bool(m.CS) + ")", true
	case "empty":
		return "SEmpty", true
	case "or":
		it := make([]string, len(m.Or))
		for i, x := range m.Or {
			d, ok := dumpSM(x)
			if !ok {
				return "", false
			}
			it[i] = d
		}
		return "(SOr " + gallina.List(it) + ")", true
	case "contains":
		l, ok1 := opt(m.Left)
		r, ok2 := opt(m.Right)
		return "(SContains " + l + " " + strList(m.Subs, runesOf) + " " + r + ")", ok1 && ok2
	case "prefix", "prefixi":
		r, ok := dumpSM(m.Right)
		return "(SPrefix " + gallina.Bool(m.CS) + " " + runesOf(m.S) + " " + r + ")", ok
	case "suffix":
		l, ok := dumpSM(m.Left)
		return "(SSuffix " + l + " " + runesOf(m.S) + " " + gallina.Bool(m.CS) + ")", ok
	case "anyne":
		return "(SAnyNonEmpty " + gallina.Bool(m.NL) + ")", true
	case "zero1":
		return "(SZeroOrOne " + gallina.Bool(m.NL) + ")", true
	case "nonl":
		return "SNoNL", true
	case "true":
		return "STrue", true
	case "mslice":
		return "(SMultiSlice " + gallina.Bool(m.CS) + " " + strList(m.Subs, runesOf) + ")", true
	case "mmap":
		f := bytesOf
		if m.CS {
			f = runesOf
		}
		it := make([]string, len(m.PrefixKeys))
		for i, k := range m.PrefixKeys {
			ms := make([]string, len(m.Prefixes[i]))
			for j, x := range m.Prefixes[i] {
				d, ok := dumpSM(x)
				if !ok {
					return "", false
				}
				ms[j] = d
			}
			it[i] = "(" + bytesOf(k) + ", " + gallina.List(ms) + ")"
		}
		return fmt.Sprintf("(SMultiMap %s %s %d %s)", gallina.Bool(m.CS), strList(m.Subs, f), m.MinPrefixLen, gallina.List(it)), true
	}
	return "", false
}

// findMap returns the (single) equalMultiStringMapMatcher in a dump, if any.
func findMap(m *labels.VerifSM) *labels.VerifSM {
	if m == nil {
		return nil
	}
	if m.Kind == "mmap" {
		return m
	}
	for _, x := range m.Or {
		if r := findMap(x); r != nil {
			return r
		}
	}
	if r := findMap(m.Left); r != nil {
		return r
	}
	return findMap(m.Right)
}

func collectLeaves(m *labels.VerifSM, eq, pre *[]string) {
	if m == nil {
		return
	}
	switch m.Kind {
	case "equal":
		*eq = append(*eq, m.S)
	case "prefix", "prefixi":
		*pre = append(*pre, m.S)
	}
	for _, x := range m.Or {
		collectLeaves(x, eq, pre)
	}
}

// hasFold reports whether any node of the tree carries the FoldCase flag (outside the
// case-sensitive fragment covered by the main theorem).
func hasFold(r *gsyntax.Regexp) bool {
	if r.Flags&gsyntax.FoldCase != 0 && (r.Op == gsyntax.OpLiteral || r.Op == gsyntax.OpCharClass || r.Op == gsyntax.OpEmptyMatch) {
		return true
	}
	for _, s := range r.Sub {
		if hasFold(s) {
			return true
		}
	}
	return false
}

func isASCII(s string) bool {
	for i := 0; i < len(s); i++ {
		if s[i] >= utf8.RuneSelf {
			return false
		}
	}
	return true
}

func orbit(r rune) []rune {
	o := []rune{r}
	for x := unicode.SimpleFold(r); x != r; x = unicode.SimpleFold(x) {
		o = append(o, x)
	}
	return o
}

// ---------------------------------------------------------------- generators
var words = []string{"foo", "bar", "baz", "a", "b", "ab", "k", "s", "K", "S", "fi", "Kelvin", "ss", "x1", "10", "-", "_", "prom", "é", "É",
	"ß", "σ", "ς", "Σ", "µ", "ǆ", "日本", "é", "K", "ſ", "ΑΣ", "I", "i", "ı", "İ", "aé", "zz", "foo-bar", "a.b", "q", "aa", "aba", "abab"}

var alphabet = []rune{'a', 'b', 'c', 'f', 'i', 'k', 's', 'x', 'o', 'r', 'z', 'A', 'B', 'K', 'S', 'F', 'O', '0', '1', '-', '_', ' ', '\n', '.',
	'é', 'É', 'ß', 'σ', 'ς', 'Σ', 'µ', 'μ', 'K', 'ſ', 'ǆ', 'ǅ', 'Ǆ', '日', 'ﬁ', '́', 'ẞ', 'İ', 'ı', '\U0001F600'}

func lit(r *gen.Rand) string {
	if r.Chance(1, 6) {
		n := 1 + r.Intn(3)
		var sb strings.Builder
		for i := 0; i < n; i++ {
			c := gen.Pick(r, alphabet)
			if c == '\n' {
				c = 'n'
			}
			sb.WriteRune(c)
		}
		return regexp.QuoteMeta(sb.String())
	}
	return regexp.QuoteMeta(gen.Pick(r, words))
}

func wild(r *gen.Rand) string {
	return gen.Pick(r, []string{".*", ".+", ".?", ".*", ".+", "(?-s:.*)", "(?-s:.+)", "(?-s:.?)", "(?s:.*)", "."})
}

func class(r *gen.Rand) string {
	return gen.Pick(r, []string{"[a-c]", "[ab]", "[^a]", "[0-9]", `\d`, "[kK]", "[a-cx]", "[σς]", "[é]", `\w`, "[^\\n]", "[a-zA-Z]", "[sSſ]", "[a-bA-B]"})
}

func altLits(r *gen.Rand, n int) string {
	it := make([]string, n)
	common := ""
	if r.Chance(1, 3) {
		common = lit(r)
	}
	for i := range it {
		switch {
		case r.Chance(1, 3):
			it[i] = common + lit(r)
		case r.Chance(1, 2):
			it[i] = common + fmt.Sprintf("v%d", r.Intn(400))
		default:
			it[i] = lit(r) + fmt.Sprintf("%d", r.Intn(30))
		}
	}
	return strings.Join(it, "|")
}

func genRe(r *gen.Rand, d int) string {
	if d <= 0 {
		switch r.Intn(6) {
		case 0:
			return wild(r)
		case 1:
			return class(r)
		default:
			return lit(r)
		}
	}
	switch r.Intn(16) {
	case 0, 1:
		return lit(r)
	case 2:
		return wild(r)
	case 3:
		return class(r)
	case 4, 5, 6:
		n := 2 + r.Intn(3)
		var sb strings.Builder
		for i := 0; i < n; i++ {
			sb.WriteString(genRe(r, d-1))
		}
		return sb.String()
	case 7, 8:
		n := 2 + r.Intn(3)
		it := make([]string, n)
		for i := range it {
			it[i] = genRe(r, d-1)
			if r.Chance(1, 12) {
				it[i] = ""
			}
		}
		g := "(?:"
		if r.Chance(1, 3) {
			g = "("
		}
		return g + strings.Join(it, "|") + ")"
	case 9:
		return "(" + genRe(r, d-1) + ")"
	case 10:
		return "(?i:" + genRe(r, d-1) + ")"
	case 11:
		x := genRe(r, d-1)
		return "(?:" + x + ")" + gen.Pick(r, []string{"*", "+", "?", "{2}", "{1,3}", "{2,}", "{0,2}", "*?", "??"})
	case 12:
		return "(?:" + altLits(r, 2+r.Intn(5)) + ")"
	case 13:
		return gen.Pick(r, []string{"^", "$", "", "^", "$"}) + genRe(r, d-1) + gen.Pick(r, []string{"$", "", "^"})
	case 14:
		return "((" + genRe(r, d-1) + "))"
	default:
		return lit(r) + wild(r)
	}
}

// templates shaped after the optimisation cases of regexp.go
func genTemplate(r *gen.Rand) string {
	L := func() string { return lit(r) }
	W := func() string { return wild(r) }
	A := func(n int) string { return altLits(r, n) }
	ci := func(s string) string {
		if r.Chance(1, 2) {
			return "(?i:" + s + ")"
		}
		return s
	}
	switch r.Intn(35) {
	case 0:
		return L() + W()
	case 1:
		return W() + L()
	case 2:
		return W() + L() + W()
	case 3:
		return L() + W() + L()
	case 4:
		return W() + L() + W() + L() + W()
	case 5:
		return ci(L()) + W()
	case 6:
		return W() + ci(L())
	case 7:
		return "(" + A(2+r.Intn(4)) + ")" + W()
	case 8:
		return W() + "(" + A(2+r.Intn(4)) + ")"
	case 9:
		return W() + "(" + A(2+r.Intn(4)) + ")" + W()
	case 10:
		return "(?i)(" + A(2+r.Intn(20)) + ")"
	case 11:
		return L() + "(" + A(2+r.Intn(3)) + ")"
	case 12:
		return "(" + A(2+r.Intn(3)) + ")(" + A(2+r.Intn(3)) + ")"
	case 13:
		return class(r) + L()
	case 14:
		n := 2 + r.Intn(3)
		it := make([]string, n)
		for i := range it {
			it[i] = ".*" + L() + ".*"
		}
		return strings.Join(it, "|")
	case 15:
		return "^" + L() + W() + "$"
	case 16:
		return A(2 + r.Intn(30))
	case 17:
		// many alternates with prefixes: the map + prefix path
		n := 14 + r.Intn(8)
		it := make([]string, n)
		for i := range it {
			if r.Chance(1, 3) {
				it[i] = L() + fmt.Sprint(i) + W()
			} else {
				it[i] = L() + fmt.Sprint(i)
			}
		}
		return ci(strings.Join(it, "|"))
	case 18:
		n := 14 + r.Intn(8)
		it := make([]string, n)
		for i := range it {
			it[i] = L() + gen.Pick(r, []string{"", "", "x", fmt.Sprint(i)})
			if r.Chance(1, 4) {
				it[i] += W()
			}
		}
		return ci("(" + strings.Join(it, "|") + ")")
	case 19:
		return "(?i:" + A(14+r.Intn(6)) + ")"
	case 20:
		return ci(L()) + "(" + A(2) + ")" + W()
	case 21:
		return W() + W()
	case 22:
		return L() + class(r) + W()
	case 23:
		return "(" + L() + "|" + L() + W() + "|" + W() + L() + ")"
	case 24:
		return ci(L() + W() + L())
	case 25:
		return L() + "|" + L() + "|"
	case 26:
		return A(250 + r.Intn(12))
	case 27:
		return class(r) + class(r) + gen.Pick(r, []string{"", class(r)})
	case 28:
		return W() + "(?i:" + L() + ")" + W()
	case 29:
		return ci(L()) + "(?:" + W() + L() + "|" + L() + ")"
	case 34:
		// a long literal among the alternatives: the lengthMask boundary at 63/64 bytes
		n := gen.Pick(r, []int{62, 63, 64, 65, 100, 200})
		a := longLit(n) + "|" + A(1+r.Intn(3))
		if r.Chance(1, 3) {
			a += "|" + manyAlts(14)
		}
		w := gen.Pick(r, [][2]string{{"", ""}, {"(", ")"}, {"x(", ")"}, {"(?:", ")"}})
		return w[0] + a + w[1]
	case 33:
		// second literal is a suffix of the first: containsInOrder must not re-use its runes
		l1 := gen.Pick(r, []string{"ab", "aa", "foo", "aba", "abab", "x1", "zz"})
		return ".*" + l1 + gen.Pick(r, []string{".*", ".+", "(?s:.*)"}) + l1[len(l1)-1-r.Intn(len(l1)-1):] + ".*"
	case 30:
		return W() + L() + "(" + L() + ")" + W()
	case 31:
		return W() + "(" + L() + ")(" + L() + ")" + W() + gen.Pick(r, []string{"", L() + W()})
	default:
		return L() + "(" + W() + "|" + L() + ")"
	}
}

// sample produces a string the tree is likely to match.
func sample(r *gen.Rand, re *gsyntax.Regexp, sb *strings.Builder) {
	anyRune := func(nl bool) rune {
		for {
			c := gen.Pick(r, alphabet)
			if nl || c != '\n' {
				return c
			}
		}
	}
	switch re.Op {
	case gsyntax.OpLiteral:
		for _, c := range re.Rune {
			if re.Flags&gsyntax.FoldCase != 0 && r.Chance(1, 2) {
				o := orbit(c)
				c = o[r.Intn(len(o))]
			}
			sb.WriteRune(c)
		}
	case gsyntax.OpCharClass:
		if len(re.Rune) >= 2 {
			i := 2 * r.Intn(len(re.Rune)/2)
			lo, hi := re.Rune[i], re.Rune[i+1]
			c := lo + rune(r.Intn(int(min(hi-lo, 3))+1))
			if c >= 0xD800 && c <= 0xDFFF || c > unicode.MaxRune {
				c = 'a'
			}
			sb.WriteRune(c)
		}
	case gsyntax.OpAnyChar:
		sb.WriteRune(anyRune(true))
	case gsyntax.OpAnyCharNotNL:
		sb.WriteRune(anyRune(false))
	case gsyntax.OpCapture:
		sample(r, re.Sub[0], sb)
	case gsyntax.OpStar:
		for i := r.Intn(3); i > 0; i-- {
			sample(r, re.Sub[0], sb)
		}
	case gsyntax.OpPlus:
		for i := 1 + r.Intn(2); i > 0; i-- {
			sample(r, re.Sub[0], sb)
		}
	case gsyntax.OpQuest:
		if r.Bool() {
			sample(r, re.Sub[0], sb)
		}
	case gsyntax.OpRepeat:
		n := re.Min
		if (re.Max < 0 || re.Max > re.Min) && r.Bool() {
			n++
		}
		for i := 0; i < n; i++ {
			sample(r, re.Sub[0], sb)
		}
	case gsyntax.OpConcat:
		for _, s := range re.Sub {
			sample(r, s, sb)
		}
	case gsyntax.OpAlternate:
		if len(re.Sub) > 0 {
			sample(r, re.Sub[r.Intn(len(re.Sub))], sb)
		}
	}
}

var compat = [][2]string{{"fi", "ﬁ"}, {"é", "é"}, {"É", "É"}, {"k", "K"}, {"K", "K"}, {"s", "ſ"}, {"S", "ſ"},
	{"σ", "ς"}, {"ς", "σ"}, {"ss", "ß"}, {"ß", "ẞ"}, {"µ", "μ"}, {"i", "İ"}, {"I", "ı"}, {"ǆ", "ǅ"}, {"é", "é"}}

func mutate(r *gen.Rand, s string) string {
	rs := []rune(s)
	switch r.Intn(12) {
	case 0:
		if len(rs) > 0 {
			i := r.Intn(len(rs))
			rs = append(rs[:i:i], rs[i+1:]...)
		}
	case 1:
		i := r.Intn(len(rs) + 1)
		rs = append(rs[:i:i], append([]rune{gen.Pick(r, alphabet)}, rs[i:]...)...)
	case 2:
		if len(rs) > 0 {
			rs[r.Intn(len(rs))] = gen.Pick(r, alphabet)
		}
	case 3:
		if len(rs) > 0 {
			i := r.Intn(len(rs))
			o := orbit(rs[i])
			rs[i] = o[r.Intn(len(o))]
		}
	case 4:
		for i := range rs {
			o := orbit(rs[i])
			rs[i] = o[r.Intn(len(o))]
		}
	case 5:
		i := r.Intn(len(rs) + 1)
		rs = append(rs[:i:i], append([]rune{'\n'}, rs[i:]...)...)
	case 6:
		rs = append(rs, gen.Pick(r, alphabet))
	case 7:
		rs = append([]rune{gen.Pick(r, alphabet)}, rs...)
	case 8, 9:
		c := gen.Pick(r, compat)
		return strings.Replace(s, c[0], c[1], 1)
	case 10:
		if len(rs) > 1 {
			i := r.Intn(len(rs) - 1)
			rs[i], rs[i+1] = rs[i+1], rs[i]
		}
	default:
		if len(rs) > 0 {
			i := r.Intn(len(rs))
			rs = append(rs[:i+1:i+1], rs[i:]...)
		}
	}
	return string(rs)
}

// ---------------------------------------------------------------- one pattern
type result struct {
	pat     string
	strs    []string
	fast    []bool
	std     []bool
	dump    labels.VerifFRM
	parsed  *gsyntax.Regexp
	astTerm string
}

func pathOf(d labels.VerifFRM) string {
	var p []string
	if !d.HasRe {
		p = append(p, "altlit")
	}
	if len(d.SetMatches) == 1 {
		p = append(p, "set1")
	} else if len(d.SetMatches) > 1 {
		p = append(p, "setN")
	}
	if d.SM != nil {
		k := d.SM.Kind
		if (k == "mmap" || k == "mslice" || k == "equal" || k == "prefix" || k == "suffix") && !d.SM.CS {
			k += "-ci"
		}
		if k == "mmap" || k == "mmap-ci" {
			if len(d.SM.PrefixKeys) > 0 {
				k += "-prefixes"
			}
		}
		p = append(p, "sm:"+k)
	}
	if d.Prefix != "" {
		if d.CaseInsensitivePrefix {
			p = append(p, "ciprefix")
		} else {
			p = append(p, "prefix")
		}
	}
	if d.Suffix != "" {
		p = append(p, "suffix")
	}
	if len(d.Contains) > 0 {
		p = append(p, "contains")
	}
	if d.SM != nil && d.SM.Kind == "nil" && d.HasRe {
		p = append(p, "re")
	}
	return strings.Join(p, "+")
}

func main() {
	f := gallina.ParseFlags()
	meta := gallina.NewMeta("C17", f.Seed, f.Tier)
	meta.Rule = "corpus of fixed patterns (regexp_test.go shapes + reproducers) first, then seeded patterns: half from templates shaped after the optimisation cases of regexp.go, half from a random regex grammar (literals incl. Unicode/fold-sensitive runes, wildcards with and without (?s), classes, captures, (?i:), repeats, anchors, empty branches, alternations of 2..260 literals); per pattern up to 24 strings: samples of the parsed tree, mutations of them (delete/insert/replace/fold-variant/compatibility-variant/newline), SetMatches members, fixed strings. Non-trivial = the matcher is optimised (not only the regexp fallback) and the strings contain both a match and a non-match; distinct by pattern text"
	goOnly := os.Getenv("C17_GOONLY") != ""
	cf := &gallina.CaseFile{Dir: f.Out, Type: "case", PerShard: 60,
		Preamble: "From Coq Require Import List ZArith.\nFrom Verif Require Import lib.Regex model.FastRegex corr.CorrC17.\nImport ListNotations.\nOpen Scope Z_scope.\n",
		Footer:   gallina.StdFooter}
	id := 0
	seen := map[string]bool{}
	skipped := map[string]int{}

	emit := func(r *gen.Rand, pat string, extra []string, corpus string) {
		if seen[pat] || !utf8.ValidString(pat) {
			return
		}
		seen[pat] = true
		m, err := labels.NewFastRegexMatcher(pat)
		if err != nil {
			skipped["rejected"]++
			return
		}
		std, err := regexp.Compile("^(?s:" + pat + ")$")
		if err != nil {
			skipped["std-rejected"]++
			return
		}
		parsed, err := gsyntax.Parse(pat, gsyntax.Perl|gsyntax.DotNL)
		if err != nil {
			skipped["parse"]++
			return
		}
		astTerm, ok := dumpRe(parsed)
		if !ok {
			skipped["unsupported-op"]++
			return
		}
		dump := m.VerifDump()
		// strings
		var strs []string
		sset := map[string]bool{}
		add := func(s string) {
			if !sset[s] && utf8.ValidString(s) && len(s) <= 260 {
				sset[s] = true
				strs = append(strs, s)
			}
		}
		for _, s := range extra {
			add(s)
		}
		nS := 7
		for i := 0; i < nS; i++ {
			var sb strings.Builder
			sample(r, parsed, &sb)
			s := sb.String()
			add(s)
			add(mutate(r, s))
			if r.Chance(1, 2) {
				add(mutate(r, mutate(r, s)))
			}
		}
		sm := dump.SetMatches
		for i := 0; i < len(sm) && i < 6; i++ {
			s := sm[r.Intn(len(sm))]
			add(s)
			add(mutate(r, s))
		}
		add("")
		add("\n")
		add(gen.Pick(r, words))
		maxStrs := 24
		if f.Tier != "thorough" {
			maxStrs = 16
		}
		if len(strs) > maxStrs {
			strs = strs[:maxStrs]
		}
		// partition by ASCII-ness when a case-insensitive map matcher is involved (shape keys)
		mp := findMap(dump.SM)
		groups := [][]string{strs}
		shapes := []string{"normal"}
		if mp != nil && !mp.CS {
			var a, n []string
			for _, s := range strs {
				if isASCII(s) {
					a = append(a, s)
				} else {
					n = append(n, s)
				}
			}
			groups = [][]string{a, n}
			if len(mp.PrefixKeys) > 0 {
				shapes = []string{"normal", "ci-map-prefixes-nonascii-input"}
			} else {
				shapes = []string{"normal", "ci-map-values-nonascii-input"}
			}
		}
		smTerm := "None"
		if dump.SM.Kind != "nil" {
			d, ok := dumpSM(dump.SM)
			if !ok {
				skipped["unsupported-sm"]++
				return
			}
			smTerm = "(Some " + d + ")"
		}
		reTerm := "None"
		if dump.HasRe {
			reTerm = "(Some RNoMatch)"
		}
		frmTerm := fmt.Sprintf("(mkFrm %s %s %s %s %s %s %s)", reTerm, strList(dump.SetMatches, runesOf), smTerm,
			gallina.Bool(dump.CaseInsensitivePrefix), runesOf(dump.Prefix), runesOf(dump.Suffix), strList(dump.Contains, runesOf))
		path := pathOf(dump)
		for gi, g := range groups {
			if len(g) == 0 {
				continue
			}
			// oracle tables
			orbs := map[rune]bool{}
			var orbTerms []string
			noteRunes := func(s string) {
				for _, c := range s {
					o := orbit(c)
					if len(o) > 1 {
						sort.Slice(o, func(i, j int) bool { return o[i] < o[j] })
						if !orbs[o[0]] {
							orbs[o[0]] = true
							v := make([]int64, len(o))
							for i, x := range o {
								v[i] = int64(x)
							}
							orbTerms = append(orbTerms, zs(v))
						}
					}
				}
			}
			noteRunes(pat)
			for _, s := range g {
				noteRunes(s)
			}
			// also runes of class ranges are covered by ranges themselves (folds are in the class)
			nl := map[string]string{}
			tl := map[string]string{}
			if mp != nil && !mp.CS {
				var eq, pre []string
				p2, _ := gsyntax.Parse(pat, gsyntax.Perl|gsyntax.DotNL)
				collectLeaves(labels.VerifDumpSM(labels.VerifUnoptimizedStringMatcher(p2)), &eq, &pre)
				p3, _ := gsyntax.Parse(pat, gsyntax.Perl|gsyntax.DotNL)
				tm, _ := labels.VerifTopSetMatches(p3)
				eq = append(eq, tm...)
				for _, s := range eq {
					if !isASCII(s) {
						nl[s] = labels.VerifToNormalisedLower(s)
					}
				}
				for _, p := range pre {
					if len(p) >= mp.MinPrefixLen {
						k := p[:mp.MinPrefixLen]
						if !isASCII(k) {
							tl[k] = strings.ToLower(k)
						}
					}
				}
				for _, s := range g {
					if !isASCII(s) {
						nl[s] = labels.VerifToNormalisedLower(s)
					}
					if mp.MinPrefixLen > 0 && len(s) >= mp.MinPrefixLen {
						k := s[:mp.MinPrefixLen]
						if !isASCII(k) {
							nl[k] = labels.VerifToNormalisedLower(k)
						}
					}
				}
			}
			tabTerm := func(t map[string]string) string {
				ks := make([]string, 0, len(t))
				for k := range t {
					ks = append(ks, k)
				}
				sort.Strings(ks)
				it := make([]string, len(ks))
				for i, k := range ks {
					it[i] = "(" + bytesOf(k) + ", " + bytesOf(t[k]) + ")"
				}
				return gallina.List(it)
			}
			fast := make([]bool, len(g))
			stdv := make([]bool, len(g))
			var div []string
			it := make([]string, len(g))
			anyT, anyF := false, false
			for i, s := range g {
				fast[i] = m.MatchString(s)
				stdv[i] = std.MatchString(s)
				if fast[i] != stdv[i] {
					div = append(div, s)
				}
				if stdv[i] {
					anyT = true
				} else {
					anyF = true
				}
				it[i] = fmt.Sprintf("(%s, %s, %s)", runesOf(s), gallina.Bool(fast[i]), gallina.Bool(stdv[i]))
			}
			if goOnly && len(div) > 0 {
				fmt.Printf("DIVERGE pat=%q path=%s shape=%s strings=%q\n", pat, path, shapes[gi], div)
			}
			cf.Add(fmt.Sprintf("mkCase %d %s %s %s %s %s %s %s", id, runesOf(pat), astTerm, gallina.List(orbTerms), tabTerm(nl), tabTerm(tl), frmTerm, gallina.List(it)))
			meta.Case(id, desc{Pattern: pat, Strings: g, Fast: fast, Std: stdv, Diverge: div, Path: path, Shape: shapes[gi], Corpus: corpus})
			meta.Evaluations += len(g)
			meta.Hit("path:" + path)
			switch {
			case !dump.HasRe:
				meta.Hit("theorem:alternating-literals")
			case hasFold(parsed):
				meta.Hit("theorem:outside-cs-fragment(case-insensitive)")
			default:
				meta.Hit("theorem:cs-fragment(main theorem applies)")
			}
			if shapes[gi] != "normal" {
				meta.Hit("shape:" + shapes[gi])
			}
			if anyT && anyF && path != "sm:nil+re" && path != "re" {
				meta.Nontrivial++
			}
			id++
		}
	}

	// corpus
	for i, c := range corpus {
		if (len(c.pat) > 600 || thoroughOnly[c.name]) && f.Tier != "thorough" {
			continue // the 256/257/300-alternative boundary cases: thorough tier only (case file size)
		}
		emit(gen.Fork(f.Seed, 1_000_000+i), c.pat, c.strs, c.name)
	}
	n := f.Count(95, 3000)
	for i := 0; i < n; i++ {
		r := gen.Fork(f.Seed, i)
		var pat string
		if r.Bool() {
			pat = genTemplate(r)
		} else {
			pat = genRe(r, 1+r.Intn(3))
		}
		if r.Chance(1, 15) {
			pat = "(?i)" + pat
		}
		if len(pat) > 3000 || (len(pat) > 600 && f.Tier != "thorough") {
			continue
		}
		emit(r, pat, nil, "")
	}
	for k, v := range skipped {
		meta.Dist["skipped:"+k] = v
	}
	if !goOnly {
		cf.Flush()
	}
	meta.Write(f.Out)
}

type corpusEntry struct {
	name, pat string
	strs      []string
}

// longLit is an ASCII literal of exactly n bytes (distinct per n): the lengthMask boundary
// (bit min(len,63)) needs values of 62, 63, 64, 65 and more bytes.
func longLit(n int) string {
	return fmt.Sprintf("L%dq", n) + strings.Repeat("x", n-len(fmt.Sprintf("L%dq", n)))
}

func longAlts(short int, ns ...int) (string, []string) {
	var it, probes []string
	for _, n := range ns {
		l := longLit(n)
		it = append(it, l)
		probes = append(probes, l) // every long literal itself first (the quick tier keeps 16 strings)
	}
	for _, n := range ns {
		if n == 63 || n == 64 {
			l := longLit(n)
			probes = append(probes, l+"x", l[:len(l)-1])
		}
	}
	for i := 0; i < short; i++ {
		it = append(it, fmt.Sprintf("v%d", i))
	}
	probes = append(probes, "v0")
	return strings.Join(it, "|"), probes
}

func init() {
	add := func(name, pre, post string, short int, ns ...int) {
		a, probes := longAlts(short, ns...)
		for i := range probes {
			if pre != "" && pre != "(" && pre != "(?:" {
				probes[i] = strings.TrimSuffix(pre, "(") + probes[i]
			}
		}
		corpus = append(corpus, corpusEntry{name, pre + a + post, probes})
	}
	add("lenmask-slice-text", "", "", 0, 62, 63, 64, 65, 100, 200)
	add("lenmask-map-text", "", "", 13, 63, 64, 65, 100)
	add("lenmask-map-text-200", "", "", 15, 200, 62)
	add("lenmask-slice-paren", "(", ")", 0, 63, 64, 65)
	add("lenmask-slice-prefixed", "x(", ")", 0, 63, 64, 100)
	add("lenmask-map-paren", "(", ")", 15, 64, 65)
	add("lenmask-map-prefixed", "x(", ")", 15, 64, 200)
	add("lenmask-slice-noncapture", "(?:", ")", 1, 62, 64)
}

// corpus entries left to the thorough tier (case-file size; their quick-tier siblings cover the
// same boundary)
var thoroughOnly = map[string]bool{"lenmask-map-text-200": true, "lenmask-slice-paren": true,
	"lenmask-map-prefixed": true, "lenmask-slice-noncapture": true}

func manyAlts(n int) string {
	it := make([]string, n)
	for i := range it {
		it[i] = fmt.Sprintf("v%d", i)
	}
	return strings.Join(it, "|")
}

var corpus = []corpusEntry{
	{"empty", "", []string{"", "a"}},
	{"literal", "foo", []string{"foo", "fo", "fooo", "Foo"}},
	{"alt-literals", "foo|bar|baz", []string{"foo", "bar", "baz", "ba", "foobar"}},
	{"alt-literals-empty-branch", "foo||bar", []string{"", "foo", "bar", "|"}},
	{"prefix-dotstar", "foo.*", []string{"foo", "foobar", "foo\n", "fo", "xfoo"}},
	{"suffix-dotstar", ".*foo", []string{"foo", "barfoo", "\nfoo", "foox"}},
	{"contains", ".*foo.*", []string{"foo", "afoob", "a\nfoo\nb", "fo"}},
	{"contains-plus", ".+foo.+", []string{"foo", "afoob", "afoo", "foob", "afoofoob", "foofoofoo"}},
	{"contains-repeat-occurrence", ".?foo.?", []string{"foo", "afoofoo", "foofoo", "afoob", "fooxfoo"}},
	{"contains-overlap", ".+aa.+", []string{"aaaa", "aaa", "xaay", "aaaaa", "aa"}},
	{"contains-overlap-2", ".?aba.?", []string{"ababa", "xabay", "abaaba", "aba", "xababa"}},
	{"contains-overlap-nonl", "(?-s:.+)abab(?-s:.*)", []string{"ababab", "xabab", "abab", "\nabab", "ab\nababab"}},
	{"ci-literal-then-matcher", "(?i:foo)(?:.*bar|baz)", []string{"foobaz", "FOObaz", "fooxbar", "FOOxbar", "fooBAZ", "foo"}},
	{"matcher-then-ci-literal", "(?:bar.*|baz)(?i:foo)", []string{"bazfoo", "bazFOO", "barxfoo", "barxFOO", "BAZfoo"}},
	{"simple-concat-adjacent-literals", ".*(foo)(bar).*", []string{"foobar", "fooxbar", "foo bar", "xfoobarx", "barfoo"}},
	{"simple-concat-adjacent-literals-2", ".*a(b).*", []string{"ab", "axb", "xabx", "ba"}},
	{"simple-concat-adjacent-literals-3", ".*foo(bar).*baz.*", []string{"foobarbaz", "fooxbarbaz", "foobar", "foobarxbaz"}},
	{"simple-concat-merged-literals", ".*foo(?:bar).*", []string{"foobar", "fooxbar", "xfoobarx"}},
	{"in-order-overlap", ".*ab.*b.*", []string{"ab", "abb", "abxb", "b", "bab"}},
	{"in-order-overlap-2", ".*aa.*a.*", []string{"aa", "aaa", "aaxa", "a"}},
	{"in-order-overlap-3", ".*foo.*oo.*", []string{"foo", "foooo", "fooxoo", "oofoo"}},
	{"in-order-overlap-prefilter", "x.*ab.*b.+", []string{"xab", "xabb", "xabbx", "xabxbx"}},
	{"prefix-suffix", "foo.*bar", []string{"foobar", "fooxbar", "foobarx", "fobar"}},
	{"in-order", ".*foo.*bar.*", []string{"foobar", "barfoo", "xfooybarz", "foo", "bar"}},
	{"ci-prefix", "(?i:foo).*", []string{"foo", "FOOx", "fOo\n", "fo"}},
	{"ci-suffix", ".*(?i:foo)", []string{"foo", "xFOO", "FoOx"}},
	{"ci-kelvin", "(?i:k).*", []string{"k", "K", "K", "Kx", "x"}},
	{"ci-kelvin-suffix", ".*(?i:k)", []string{"k", "K", "K", "xK", "x"}},
	{"ci-kelvin-suffix-plus", ".+(?i:k)", []string{"K", "xK", "k", "xk", "xK"}},
	{"ci-kelvin-suffix-quest", ".?(?i:k)", []string{"K", "xK", "k", "xk", "xxK"}},
	{"ci-longs-suffix-nonl", "(?-s:.+)(?i:s)", []string{"ſ", "xſ", "\nſ", "xs"}},
	{"ci-longs", "(?i:s)", []string{"s", "S", "ſ", "x"}},
	{"ci-alt", "(?i)(foo|bar)", []string{"foo", "FOO", "Bar", "baz"}},
	{"alt-prefix", "(foo|bar).*", []string{"foo", "barx", "baz"}},
	{"alt-suffix", ".*(foo|bar)", []string{"foo", "xbar", "barx"}},
	{"alt-contains", ".*(foo|bar).*", []string{"foo", "xbary", "baz"}},
	{"simple-contains-alt", ".*foo.*|.*bar.*", []string{"foo", "xbary", "baz", "a\nfoo"}},
	{"concat-alts", "(foo|bar)(baz|qux)", []string{"foobaz", "barqux", "fooqux", "foo", "baz"}},
	{"class", "[ab]c", []string{"ac", "bc", "cc", "c"}},
	{"anchors", "^foo$", []string{"foo", "fooo"}},
	{"anchors-wild", "^.*foo$", []string{"foo", "xfoo", "foox"}},
	{"anchor-middle", "foo^bar", []string{"foobar", "foo", "bar"}},
	{"anchor-alt", "(^foo|bar$)", []string{"foo", "bar", "baz"}},
	{"nl", "(?-s:.*)foo", []string{"foo", "xfoo", "\nfoo"}},
	{"nl-plus", "foo(?-s:.+)", []string{"foo", "foox", "foo\n", "foox\n"}},
	{"zero-or-one", "foo.?", []string{"foo", "foox", "foo\n", "fooxx", "foo日", "foo日本"}},
	{"zero-or-one-nonl", "foo(?-s:.?)", []string{"foo", "foox", "foo\n", "fooxx"}},
	{"map-16", manyAlts(16), []string{"v0", "v15", "v16", "v"}},
	{"map-300", manyAlts(300), []string{"v0", "v299", "v300"}},
	{"map-256-grouped", "(" + manyAlts(256) + ")", []string{"v0", "v255", "v256"}},
	{"map-257-grouped", "(" + manyAlts(257) + ")", []string{"v0", "v255", "v256", "v257"}},
	{"map-prefixes", "(" + manyAlts(15) + "|foo.*|bar.+)", []string{"v3", "foo", "foox", "bar", "barx", "ba"}},
	{"map-prefixes-short", "(" + manyAlts(15) + "|f.*|é.*|bar.+)", []string{"v3", "f", "fx", "é", "éx", "barx"}},
	{"ci-map-ascii", "(?i:" + manyAlts(16) + "|foo)", []string{"V3", "FOO", "foo", "fo"}},
	{"ci-map-nfkd-ligature", "(?i:fi|" + manyAlts(16) + ")", []string{"fi", "FI", "ﬁ", "Fi"}},
	{"ci-map-nfkd-decomposed", "(?i:é|" + manyAlts(16) + ")", []string{"é", "é", "É"}},
	{"ci-map-final-sigma", "(?i:ς|" + manyAlts(16) + ")", []string{"ς", "σ", "Σ"}},
	{"ci-map-prefix-kelvin", "(?i:k.*|" + manyAlts(16) + ")", []string{"kx", "Kx", "Kx", "K"}},
	{"ci-map-prefix-nonascii", "(?i:é.*|" + manyAlts(16) + ")", []string{"éx", "Éx", "é"}},
	{"ci-slice-unicode", "(?i:ς|fi|é)", []string{"ς", "σ", "Σ", "ﬁ", "é", "É"}},
	{"repeat", "(?:ab){2,3}", []string{"abab", "ababab", "ab", "abababab"}},
	{"star-of-group", "(?:a|b)*c", []string{"c", "abc", "abac", "d"}},
	{"captured-any", "(.)*", []string{"", "abc"}},
	{"true", ".*", []string{"", "a", "\n"}},
	{"plus", ".+", []string{"", "a", "\n"}},
	{"nonl-star", "(?-s:.*)", []string{"", "a", "a\nb"}},
	{"ip-like", "10\\.0\\.(1|2)\\.+", []string{"10.0.1.", "10.0.2...", "10.0.3."}},
	{"empty-alt", "(|foo)bar", []string{"bar", "foobar", "foo"}},
	{"begin-star", "(?:^)*foo", []string{"foo", "fo"}},
	{"dollar-only", "^$", []string{"", "a"}},
}

// h_c28: correspondence harness for C28 (selectors: lookback, staleness, range windows,
// offset / @, subquery step alignment).
//
// For every case it serves ONE generated series `m` (float / float-histogram / integer-histogram
// samples, stale markers of both kinds) from an in-memory storage.Queryable that, like the TSDB
// querier, returns only the samples inside the [hints.Start, hints.End] range the engine asked
// for (and a second time from a storage that ignores the hints and returns every sample), runs the
// REAL promql engine on one instant query of one of the modelled forms
//
//	m <mods>                      timestamp(m <mods>)
//	m[r] <mods>                   f(m[r] <mods>)                f in count/last/min_over_time
//	(inner)[r:s] <mods>           f((inner)[r:s] <mods>)        inner = m <mods> | timestamp(m <mods>)
//	(f1((inner)[r1:s1] <mods>))[r2:s2] <mods>   and f2 of it   (two nesting levels)
//
// (<mods> = offset, possibly negative, and/or @ <fixed time>) and writes the series, the query, the
// select hints the engine produced and the observed result as Gallina terms.
package main

import (
	"context"
	"fmt"
	"math"
	"os"
	"sort"
	"strconv"
	"strings"
	"time"

	"github.com/prometheus/prometheus/model/histogram"
	"github.com/prometheus/prometheus/model/labels"
	"github.com/prometheus/prometheus/model/value"
	"github.com/prometheus/prometheus/promql"
	"github.com/prometheus/prometheus/promql/parser"
	"github.com/prometheus/prometheus/storage"
	"github.com/prometheus/prometheus/tsdb/chunkenc"
	"github.com/prometheus/prometheus/tsdb/chunks"
	"github.com/prometheus/prometheus/util/annotations"

	"verif/harness/internal/gallina"
	"verif/harness/internal/gen"
)

// ---- samples -----------------------------------------------------------------------------------

// Kind: 0 float, 1 float histogram, 2 integer histogram.
type smp struct {
	T     int64 `json:"t"`
	Kind  int   `json:"kind"`
	Stale bool  `json:"stale,omitempty"`
	ID    int64 `json:"id"`
}

type fS struct {
	t int64
	f float64
}

func (s fS) T() int64                    { return s.t }
func (fS) ST() int64                     { return 0 }
func (s fS) F() float64                  { return s.f }
func (fS) H() *histogram.Histogram       { return nil }
func (fS) FH() *histogram.FloatHistogram { return nil }
func (fS) Type() chunkenc.ValueType      { return chunkenc.ValFloat }
func (s fS) Copy() chunks.Sample         { return s }

type fhS struct {
	t  int64
	fh *histogram.FloatHistogram
}

func (s fhS) T() int64                      { return s.t }
func (fhS) ST() int64                       { return 0 }
func (fhS) F() float64                      { panic("F on histogram") }
func (fhS) H() *histogram.Histogram         { panic("H on float histogram") }
func (s fhS) FH() *histogram.FloatHistogram { return s.fh.Copy() }
func (fhS) Type() chunkenc.ValueType        { return chunkenc.ValFloatHistogram }
func (s fhS) Copy() chunks.Sample           { return fhS{s.t, s.fh.Copy()} }

type hS struct {
	t int64
	h *histogram.Histogram
}

func (s hS) T() int64                      { return s.t }
func (hS) ST() int64                       { return 0 }
func (hS) F() float64                      { panic("F on histogram") }
func (s hS) H() *histogram.Histogram       { return s.h.Copy() }
func (s hS) FH() *histogram.FloatHistogram { return s.h.ToFloat(nil) }
func (hS) Type() chunkenc.ValueType        { return chunkenc.ValHistogram }
func (s hS) Copy() chunks.Sample           { return hS{s.t, s.h.Copy()} }

func toSample(s smp) chunks.Sample {
	switch s.Kind {
	case 0:
		f := float64(s.ID)
		if s.Stale {
			f = math.Float64frombits(value.StaleNaN)
		}
		return fS{s.T, f}
	case 1:
		sum := float64(s.ID)
		if s.Stale {
			sum = math.Float64frombits(value.StaleNaN)
		}
		return fhS{s.T, &histogram.FloatHistogram{Count: float64(s.ID), Sum: sum}}
	default:
		sum := float64(s.ID)
		if s.Stale {
			sum = math.Float64frombits(value.StaleNaN)
		}
		return hS{s.T, &histogram.Histogram{Count: uint64(s.ID), Sum: sum}}
	}
}

// ---- storage -----------------------------------------------------------------------------------

type selRec struct {
	QMin, QMax, HStart, HEnd int64
	NoHints                  bool
}

// memQueryable serves the one series. With all == false it returns exactly the samples inside the
// hinted range (as the TSDB block querier trims); with all == true it ignores the hints and returns
// every sample (as remote-read style storages and storage.MockQuerier based tests do).
type memQueryable struct {
	ss   []smp
	recs *[]selRec
	all  bool
}

type oneSet struct {
	s    storage.Series
	done bool
}

func (o *oneSet) Next() bool {
	if o.done || o.s == nil {
		return false
	}
	o.done = true
	return true
}
func (o *oneSet) At() storage.Series              { return o.s }
func (*oneSet) Err() error                        { return nil }
func (*oneSet) Warnings() annotations.Annotations { return nil }

func (q *memQueryable) Querier(mint, maxt int64) (storage.Querier, error) {
	lbls := labels.FromStrings("__name__", "m")
	return &storage.MockQuerier{SelectMockFunction: func(_ bool, h *storage.SelectHints, _ ...*labels.Matcher) storage.SeriesSet {
		lo, hi := mint, maxt
		rec := selRec{QMin: mint, QMax: maxt}
		if h != nil {
			// as the TSDB block querier: the hinted range restricts what is returned
			if h.Start > lo {
				lo = h.Start
			}
			if h.End < hi {
				hi = h.End
			}
			rec.HStart, rec.HEnd = h.Start, h.End
		} else {
			rec.NoHints = true
		}
		*q.recs = append(*q.recs, rec)
		var l []chunks.Sample
		for _, s := range q.ss {
			if q.all || (s.T >= lo && s.T <= hi) {
				l = append(l, toSample(s))
			}
		}
		return &oneSet{s: storage.NewListSeries(lbls, l)}
	}}, nil
}

// ---- queries -----------------------------------------------------------------------------------

type sel struct {
	Off int64  `json:"off"`
	At  *int64 `json:"at,omitempty"`
}

type query struct {
	Kind    string `json:"kind"` // inner | range | rangefn | sub | subfn
	Fn      string `json:"fn,omitempty"`
	InnerTs bool   `json:"inner_timestamp,omitempty"`
	In      sel    `json:"sel"`
	Range   int64  `json:"range,omitempty"`
	Step    int64  `json:"step,omitempty"` // 0 = default subquery step
	Sub     sel    `json:"sub"`
	// nested forms (kind sub2 | sub2fn): (Fn1((inner)[Range:Step] Sub))[Range2:Step2] Sub2, Fn of it
	Fn1     string `json:"fn1,omitempty"`
	Range2  int64  `json:"range2,omitempty"`
	Step2   int64  `json:"step2,omitempty"`
	Sub2    sel    `json:"sub2"`
	Paren   bool   `json:"paren,omitempty"`
	AtFirst bool   `json:"at_first,omitempty"` // print "@ .. offset .." instead of "offset .. @ .."
}

func dur(ms int64) string {
	if ms < 0 {
		return "-" + strconv.FormatInt(-ms, 10) + "ms"
	}
	return strconv.FormatInt(ms, 10) + "ms"
}

func atStr(ms int64) string {
	neg := ms < 0
	if neg {
		ms = -ms
	}
	s := fmt.Sprintf("%d.%03d", ms/1000, ms%1000)
	if neg {
		s = "-" + s
	}
	return s
}

func mods(s sel, atFirst bool) string {
	o, a := "", ""
	if s.Off != 0 {
		o = " offset " + dur(s.Off)
	}
	if s.At != nil {
		a = " @ " + atStr(*s.At)
	}
	if atFirst {
		return a + o
	}
	return o + a
}

func (q query) String() string {
	vs := "m" + mods(q.In, q.AtFirst)
	inner := vs
	if q.InnerTs {
		inner = "timestamp(" + vs + ")"
	}
	switch q.Kind {
	case "inner":
		return inner
	case "range":
		return "m[" + dur(q.Range) + "]" + mods(q.In, q.AtFirst)
	case "rangefn":
		return q.Fn + "_over_time(m[" + dur(q.Range) + "]" + mods(q.In, q.AtFirst) + ")"
	}
	if q.Paren || (!q.InnerTs && (q.In.Off != 0 || q.In.At != nil)) {
		inner = "(" + inner + ")"
	}
	st := ""
	if q.Step != 0 {
		st = dur(q.Step)
	}
	sq := inner + "[" + dur(q.Range) + ":" + st + "]" + mods(q.Sub, q.AtFirst)
	if q.Kind == "sub" {
		return sq
	}
	if q.Kind == "sub2" || q.Kind == "sub2fn" {
		st2 := ""
		if q.Step2 != 0 {
			st2 = dur(q.Step2)
		}
		sq2 := "(" + q.Fn1 + "_over_time(" + sq + "))[" + dur(q.Range2) + ":" + st2 + "]" + mods(q.Sub2, q.AtFirst)
		if q.Kind == "sub2" {
			return sq2
		}
		return q.Fn + "_over_time(" + sq2 + ")"
	}
	return q.Fn + "_over_time(" + sq + ")"
}

func optZ(p *int64) string {
	if p == nil {
		return "None"
	}
	return "(Some " + gallina.Z(*p) + ")"
}

func (q query) term() string {
	in := fmt.Sprintf("(IVSel %s %s)", gallina.Z(q.In.Off), optZ(q.In.At))
	if q.InnerTs {
		in = fmt.Sprintf("(ITs %s %s)", gallina.Z(q.In.Off), optZ(q.In.At))
	}
	fn := map[string]string{"count": "FCount", "last": "FLast", "min": "FMin"}[q.Fn]
	switch q.Kind {
	case "inner":
		return "(QInner " + in + ")"
	case "range":
		return fmt.Sprintf("(QRange %s %s %s)", gallina.Z(q.Range), gallina.Z(q.In.Off), optZ(q.In.At))
	case "rangefn":
		return fmt.Sprintf("(QRangeFn %s %s %s %s)", fn, gallina.Z(q.Range), gallina.Z(q.In.Off), optZ(q.In.At))
	case "sub":
		return fmt.Sprintf("(QSub %s %s %s %s %s)", in, gallina.Z(q.Range), gallina.Z(q.Step), gallina.Z(q.Sub.Off), optZ(q.Sub.At))
	case "sub2", "sub2fn":
		fn1 := map[string]string{"count": "FCount", "last": "FLast", "min": "FMin"}[q.Fn1]
		args := fmt.Sprintf("%s %s %s %s %s %s %s %s %s %s", fn1, in, gallina.Z(q.Range), gallina.Z(q.Step), gallina.Z(q.Sub.Off), optZ(q.Sub.At),
			gallina.Z(q.Range2), gallina.Z(q.Step2), gallina.Z(q.Sub2.Off), optZ(q.Sub2.At))
		if q.Kind == "sub2" {
			return "(QSub2 " + args + ")"
		}
		return "(QSub2Fn " + fn + " " + args + ")"
	default:
		return fmt.Sprintf("(QSubFn %s %s %s %s %s %s)", fn, in, gallina.Z(q.Range), gallina.Z(q.Step), gallina.Z(q.Sub.Off), optZ(q.Sub.At))
	}
}

// ---- running the engine ------------------------------------------------------------------------

var engines = map[int64]*promql.Engine{}

func engine(defStep int64) *promql.Engine {
	if e, ok := engines[defStep]; ok {
		return e
	}
	e := promql.NewEngine(promql.EngineOpts{
		MaxSamples:               10000000,
		Timeout:                  100 * time.Second,
		NoStepSubqueryIntervalFn: func(int64) int64 { return defStep },
		EnableAtModifier:         true,
		EnableNegativeOffset:     true,
		LookbackDelta:            5 * time.Minute,
		Parser:                   parser.NewParser(parser.Options{}),
	})
	engines[defStep] = e
	return e
}

// pt is one observed output point: time, kind (0 float, 1 histogram), integer payload.
type pt struct {
	T, V int64
	K    int
}

type result struct {
	Err string `json:"err,omitempty"`
	Vec bool   `json:"vector"`
	Pts []pt   `json:"points"`
}

// payload decodes a float result value: sample id / count (integral) or, for timestamp(), seconds.
func payload(f float64, isTs bool) (int64, bool) {
	if isTs {
		ms := math.Round(f * 1000)
		if math.Abs(ms/1000-f) > 1e-9*math.Max(1, math.Abs(f)) {
			return 0, false
		}
		return int64(ms), true
	}
	if f != math.Trunc(f) || math.Abs(f) > 1e15 {
		return 0, false
	}
	return int64(f), true
}

func hpayload(h *histogram.FloatHistogram) (int64, bool) {
	if h == nil || h.Count != math.Trunc(h.Count) {
		return 0, false
	}
	return int64(h.Count), true
}

func run(ss []smp, q query, ts, lookback, defStep int64, all bool) (res result, recs []selRec) {
	defer func() {
		if r := recover(); r != nil {
			res = result{Err: fmt.Sprintf("panic: %v", r)}
		}
	}()
	mq := &memQueryable{ss: ss, recs: &recs, all: all}
	qry, err := engine(defStep).NewInstantQuery(context.Background(), mq,
		promql.NewPrometheusQueryOpts(false, time.Duration(lookback)*time.Millisecond), q.String(), time.UnixMilli(ts))
	if err != nil {
		return result{Err: "parse: " + err.Error()}, recs
	}
	defer qry.Close()
	r := qry.Exec(context.Background())
	if r.Err != nil {
		return result{Err: "exec: " + r.Err.Error()}, recs
	}
	// the float payload is a timestamp (seconds) when a timestamp() value reaches the output
	isTs := q.InnerTs && !(q.Kind == "subfn" && q.Fn == "count")
	isTsF := isTs
	switch v := r.Value.(type) {
	case promql.Vector:
		res.Vec = true
		if len(v) > 1 {
			return result{Err: fmt.Sprintf("%d output series", len(v))}, recs
		}
		for _, s := range v {
			if s.H != nil {
				p, ok := hpayload(s.H)
				if !ok {
					return result{Err: "non-integral histogram payload"}, recs
				}
				res.Pts = append(res.Pts, pt{s.T, p, 1})
			} else {
				p, ok := payload(s.F, isTsF)
				if !ok {
					return result{Err: fmt.Sprintf("non-integral payload %v", s.F)}, recs
				}
				res.Pts = append(res.Pts, pt{s.T, p, 0})
			}
		}
	case promql.Matrix:
		if len(v) > 1 {
			return result{Err: fmt.Sprintf("%d output series", len(v))}, recs
		}
		for _, s := range v {
			for _, f := range s.Floats {
				p, ok := payload(f.F, isTsF)
				if !ok {
					return result{Err: fmt.Sprintf("non-integral payload %v", f.F)}, recs
				}
				res.Pts = append(res.Pts, pt{f.T, p, 0})
			}
			for _, h := range s.Histograms {
				p, ok := hpayload(h.H)
				if !ok {
					return result{Err: "non-integral histogram payload"}, recs
				}
				res.Pts = append(res.Pts, pt{h.T, p, 1})
			}
		}
		sort.SliceStable(res.Pts, func(i, j int) bool { return res.Pts[i].T < res.Pts[j].T })
	default:
		return result{Err: fmt.Sprintf("result type %T", r.Value)}, recs
	}
	return res, recs
}

// ---- printing ----------------------------------------------------------------------------------

func seriesTerm(ss []smp) string {
	if len(ss) == 0 {
		return "([] : list sample)"
	}
	it := make([]string, len(ss))
	for i, s := range ss {
		k := "KF"
		if s.Kind != 0 {
			k = "KH"
		}
		it[i] = fmt.Sprintf("mkS %s %s %s %s", gallina.Z(s.T), k, gallina.Bool(s.Stale), gallina.Z(s.ID))
	}
	return gallina.List(it)
}

func ptTerm(p pt) string {
	k := "KF"
	if p.K != 0 {
		k = "KH"
	}
	return fmt.Sprintf("mkP %s %s %s", gallina.Z(p.T), k, gallina.Z(p.V))
}

func resTerm(r result) string {
	if r.Err != "" {
		return "RErr"
	}
	if r.Vec {
		if len(r.Pts) == 0 {
			return "(RVec None)"
		}
		return "(RVec (Some (" + ptTerm(r.Pts[0]) + ")))"
	}
	if len(r.Pts) == 0 {
		return "(RMat [])"
	}
	it := make([]string, len(r.Pts))
	for i, p := range r.Pts {
		it[i] = ptTerm(p)
	}
	return "(RMat " + gallina.List(it) + ")"
}

type desc struct {
	Series   []smp  `json:"series"`
	Query    string `json:"query"`
	Q        query  `json:"q"`
	Ts       int64  `json:"ts"`
	Lookback int64  `json:"lookback_ms"`
	DefStep  int64  `json:"default_subquery_step_ms"`
	Hints    string `json:"hints"`
	Result   result `json:"result"`
	ResAll   result `json:"result_storage_ignoring_hints"`
	Shape    string `json:"shape"`
	Corpus   string `json:"corpus,omitempty"`
}

type tcase struct {
	ss                    []smp
	q                     query
	ts, lookback, defStep int64
	corpus                string
}

// ---- generators --------------------------------------------------------------------------------

func ip(v int64) *int64 { return &v }

// genSeries: strictly increasing timestamps starting anywhere (also negative), mixed kinds,
// stale markers (float and histogram), occasional empty series.
func genSeries(r *gen.Rand, unit int64) []smp {
	n := int(r.Range(0, 9))
	if r.Chance(1, 12) {
		n = int(r.Range(10, 24))
	}
	t := r.Range(-6, 30) * unit
	if r.Chance(1, 6) {
		t = r.Range(-40, -1) * unit
	}
	mix := r.Intn(5) // 0,1: floats only; 2: histograms only; 3,4: mixed
	ss := make([]smp, 0, n)
	for i := 0; i < n; i++ {
		k := 0
		switch mix {
		case 2:
			k = 1 + r.Intn(2)
		case 3, 4:
			k = r.Intn(3)
		}
		ss = append(ss, smp{T: t, Kind: k, Stale: r.Chance(1, 5), ID: int64(i + 1)})
		switch r.Intn(6) {
		case 0:
			t++
		case 1:
			t += r.Range(1, 3)
		case 2:
			t += unit * r.Range(2, 7)
		default:
			t += unit
		}
	}
	return ss
}

// edge returns a distance steered to a window edge of width w.
func edge(r *gen.Rand, w int64) int64 {
	switch r.Intn(10) {
	case 0, 1:
		return 0
	case 2:
		return w
	case 3:
		return w - 1
	case 4:
		return w + 1
	case 5:
		return 1
	case 6:
		return -1
	default:
		return r.Range(-2, w+2)
	}
}

// place chooses (ts, sel) such that the selector's effective time is te.
func place(r *gen.Rand, te int64, unit int64, ts *int64, fixTs bool) sel {
	var s sel
	switch r.Intn(6) {
	case 0, 1: // no modifiers: ts = te (only when ts is still free)
		if !fixTs {
			*ts = te
			return s
		}
		s.Off = *ts - te
	case 2: // positive or negative offset
		if !fixTs {
			*ts = te + r.Range(-4, 6)*unit + r.Range(-1, 1)
		}
		s.Off = *ts - te
	case 3: // @ only
		if !fixTs {
			*ts = te + r.Range(-10, 10)*unit
		}
		s.At = ip(te)
	default: // @ and offset
		if !fixTs {
			*ts = te + r.Range(-10, 10)*unit
		}
		o := r.Range(-4, 6)*unit + r.Range(-1, 1)
		s.At = ip(te + o)
		s.Off = o
	}
	return s
}

func genCase(r *gen.Rand) tcase {
	unit := r.PickI64(1, 1, 10, 1000, 15000)
	ss := genSeries(r, unit)
	lookback := r.PickI64(1, 2, 3, 5*unit, 5*unit, 20*unit, 300000)
	defStep := r.PickI64(1, 2, 7, 3*unit, 60000)
	c := tcase{ss: ss, lookback: lookback, defStep: defStep}
	// anchor: a sample time (or somewhere near the series)
	anchor := r.Range(-3, 30) * unit
	if len(ss) > 0 && !r.Chance(1, 8) {
		anchor = ss[r.Intn(len(ss))].T
	}
	q := query{Paren: r.Chance(1, 4), AtFirst: r.Chance(1, 3)}
	rng := r.PickI64(1, 2, 3, unit, 2*unit, 3*unit+1, 5*unit, 12*unit)
	if rng <= 0 {
		rng = 1
	}
	switch k := r.Intn(15); {
	case k >= 12: // nested subqueries: (f1((inner)[r1:s1] mods1))[r2:s2] mods2 [under f2]
		q.Kind = "sub2"
		if r.Chance(1, 3) {
			q.Kind = "sub2fn"
			q.Fn = gen.Pick(r, []string{"count", "last", "min"})
		}
		q.Fn1 = gen.Pick(r, []string{"count", "last", "last", "min"})
		small := func(w int64) int64 { // a step giving at most ~6 evaluations per window
			st := r.PickI64(w, w/2, w/3+1, w+1, w-1, unit, 2*unit)
			if st <= 0 || w/st > 6 {
				st = w/r.Range(1, 5) + 1
			}
			return st
		}
		q.Range = r.PickI64(2, 3, unit, 2*unit, 3*unit+1, 5*unit)
		q.Step = small(q.Range)
		q.Range2 = r.PickI64(2, 3, unit, 2*unit, 4*unit, 6*unit+1)
		q.Step2 = small(q.Range2)
		if r.Chance(1, 8) {
			q.Step = 0
		}
		// the inner subquery's effective time te1 lands on/near the series; the outer one is placed
		// so that its steps reach it: with an @ on the inner subquery the outer offset is free
		te1 := anchor + edge(r, lookback) + r.Range(0, 1)*q.Range
		if r.Chance(1, 2) { // inner subquery with @ (pins its window), own offset optional
			o1 := int64(0)
			if r.Chance(1, 2) {
				o1 = r.Range(-3, 4)*unit + r.Range(-1, 1)
			}
			q.Sub = sel{Off: o1, At: ip(te1 + o1)}
			c.ts = te1 + r.Range(-10, 10)*unit
			switch r.Intn(4) {
			case 0:
			case 1, 2: // outer offset of either sign: must not move the inner window
				q.Sub2.Off = r.Range(-6, 8)*unit + r.Range(-1, 1)
			default:
				q.Sub2 = place(r, c.ts+r.Range(-5, 5)*unit, unit, &c.ts, true)
			}
		} else { // relative inner subquery: the outer steps u2 in (te2-r2, te2], te1 = u2 - off1
			o1 := int64(0)
			if r.Chance(1, 2) {
				o1 = r.Range(-3, 4)*unit + r.Range(-1, 1)
			}
			q.Sub.Off = o1
			te2 := te1 + o1 + r.Range(0, q.Range2-1)
			q.Sub2 = place(r, te2, unit, &c.ts, false)
		}
		switch r.Intn(5) { // the selector: mostly plain / offset (its hints then depend on the path)
		case 0:
			q.In.Off = r.Range(-3, 4)*unit + r.Range(-1, 1)
		case 1:
			q.In.At = ip(anchor + edge(r, lookback))
		}
	case k < 3: // instant selector / timestamp(): anchor sample at distance `edge` behind te
		q.Kind = "inner"
		q.InnerTs = k == 2 || r.Chance(1, 4)
		te := anchor + edge(r, lookback)
		q.In = place(r, te, unit, &c.ts, false)
	case k < 5:
		q.Kind = "range"
		q.Range = rng
		te := anchor + edge(r, rng)
		q.In = place(r, te, unit, &c.ts, false)
	case k < 7:
		q.Kind = "rangefn"
		q.Fn = gen.Pick(r, []string{"count", "last", "min"})
		q.Range = rng
		te := anchor + edge(r, rng)
		q.In = place(r, te, unit, &c.ts, false)
	default:
		q.Kind = "sub"
		if k >= 10 {
			q.Kind = "subfn"
			q.Fn = gen.Pick(r, []string{"count", "last", "min"})
		}
		q.InnerTs = r.Chance(1, 3)
		q.Range = rng
		q.Step = r.PickI64(0, 1, 2, 3, unit, unit, 2*unit, rng, rng+1, rng-1)
		if q.Step < 0 {
			q.Step = 1
		}
		step := q.Step
		if step == 0 {
			step = defStep
		}
		if rng/step > 24 { // keep the number of subquery steps small
			q.Step = rng/r.Range(1, 12) + r.Range(0, 1)
			step = q.Step
		}
		// subquery window (te-range, te]: steer an edge onto a multiple of the step
		mult := step * r.Range(-5, 12)
		var te int64
		switch r.Intn(6) {
		case 0:
			te = mult
		case 1:
			te = mult + rng
		case 2:
			te = mult + rng - 1
		case 3:
			te = mult - 1
		case 4:
			te = anchor + edge(r, lookback)
		default:
			te = anchor + r.Range(-2, 2*rng)
		}
		q.Sub = place(r, te, unit, &c.ts, false)
		// inner selector: relative (offset only) or fixed (@)
		switch r.Intn(5) {
		case 0, 1:
		case 2:
			q.In.Off = r.Range(-3, 4)*unit + r.Range(-1, 1)
		case 3:
			q.In.At = ip(anchor + edge(r, lookback))
		default:
			o := r.Range(-3, 4)*unit + r.Range(-1, 1)
			q.In.At = ip(anchor + edge(r, lookback) + o)
			q.In.Off = o
		}
	}
	c.q = q
	return c
}

func corpus() []tcase {
	f := func(t int64, id int64) smp { return smp{T: t, ID: id} }
	ser := []smp{f(0, 1), f(10, 2), f(20, 3), f(30, 4), {T: 40, ID: 5, Stale: true}, f(50, 6), {T: 60, Kind: 1, ID: 7}, {T: 70, Kind: 2, ID: 8, Stale: true}, f(80, 9)}
	mk := func(name string, q query, ts, lb int64) tcase {
		return tcase{ss: ser, q: q, ts: ts, lookback: lb, defStep: 7, corpus: name}
	}
	return []tcase{
		mk("instant-at-sample", query{Kind: "inner"}, 30, 10),
		mk("instant-lookback-edge-excluded", query{Kind: "inner"}, 40, 10),
		mk("instant-stale-latest", query{Kind: "inner"}, 45, 10),
		mk("instant-neg-offset", query{Kind: "inner", In: sel{Off: -15}}, 10, 10),
		mk("instant-at", query{Kind: "inner", In: sel{At: ip(25)}}, 1000, 10),
		mk("timestamp-plain", query{Kind: "inner", InnerTs: true}, 35, 10),
		mk("regression-timestamp-at-drops-offset", query{Kind: "inner", InnerTs: true, In: sel{Off: 10, At: ip(35)}}, 1000, 10),
		mk("timestamp-offset", query{Kind: "inner", InnerTs: true, In: sel{Off: 10}}, 35, 10),
		mk("range-left-open", query{Kind: "range", Range: 20}, 50, 10),
		mk("range-stale-inside", query{Kind: "range", Range: 45}, 80, 10),
		mk("rangefn-count", query{Kind: "rangefn", Fn: "count", Range: 45, In: sel{Off: -10}}, 70, 10),
		mk("sub-plain", query{Kind: "sub", Range: 30, Step: 10}, 60, 10),
		mk("sub-left-edge-multiple", query{Kind: "sub", Range: 30, Step: 10, Sub: sel{Off: 5}}, 65, 10),
		mk("sub-inner-at", query{Kind: "sub", Range: 30, Step: 10, In: sel{At: ip(25)}}, 61, 10),
		// regressions (fixed defects): timestamp-at-offset above; subquery whose first aligned step
		// equals the query time under a non-zero effective offset, inner selector with @
		mk("regression-sub-start-eq-ts-neg-offset-inner-at", query{Kind: "sub", Range: 5, Step: 10, In: sel{At: ip(30)}, Sub: sel{Off: -2}}, 1000, 10),
		mk("regression-sub-start-eq-ts-sub-at-inner-at", query{Kind: "sub", Range: 300, Step: 600, In: sel{At: ip(30)}, Sub: sel{At: ip(1300)}}, 1200, 10),
		mk("regression-subfn-start-eq-ts", query{Kind: "subfn", Fn: "last", Range: 4, Step: 1, In: sel{At: ip(10)}, Sub: sel{Off: -3}}, 7, 5),
		mk("regression-timestamp-at-neg-offset-in-sub", query{Kind: "sub", InnerTs: true, Range: 2, Step: 1, In: sel{Off: -20, At: ip(21)}}, 2, 50),
		mk("subfn-min-timestamp", query{Kind: "subfn", Fn: "min", InnerTs: true, Range: 40, Step: 10}, 80, 10),
		mk("subfn-last-default-step", query{Kind: "subfn", Fn: "last", Range: 40, Step: 0}, 80, 10),
		// nested subqueries; the first three need the @-reset of subqueryTimes (inner subquery with
		// @, outer with a non-zero offset, selector without @)
		mk("nested-inner-at-outer-offset", query{Kind: "sub2fn", Fn: "last", Fn1: "last", Range: 20, Step: 10, Sub: sel{At: ip(50)}, Range2: 20, Step2: 10, Sub2: sel{Off: 30}}, 1000, 10),
		mk("nested-inner-at-outer-neg-offset", query{Kind: "sub2", Fn1: "count", Range: 25, Step: 5, Sub: sel{Off: 5, At: ip(65)}, Range2: 30, Step2: 10, Sub2: sel{Off: -40}}, 200, 10),
		mk("nested-inner-at-outer-at-offset", query{Kind: "sub2", Fn1: "min", Range: 30, Step: 10, In: sel{Off: 5}, Sub: sel{At: ip(60)}, Range2: 20, Step2: 10, Sub2: sel{Off: 100, At: ip(500)}}, 300, 10),
		mk("nested-relative", query{Kind: "sub2", Fn1: "last", Range: 20, Step: 10, Range2: 30, Step2: 10}, 60, 10),
		mk("nested-relative-offsets", query{Kind: "sub2fn", Fn: "count", Fn1: "last", Range: 20, Step: 10, Sub: sel{Off: 10}, Range2: 30, Step2: 10, Sub2: sel{Off: -20}}, 50, 10),
		mk("nested-outer-at", query{Kind: "sub2", Fn1: "count", Range: 20, Step: 5, Sub: sel{Off: -5}, Range2: 20, Step2: 10, Sub2: sel{At: ip(70)}}, 1000, 10),
		mk("nested-selector-at", query{Kind: "sub2", Fn1: "last", Range: 20, Step: 10, In: sel{At: ip(30)}, Range2: 20, Step2: 10, Sub2: sel{Off: 7}}, 100, 10),
		mk("sub-negative-times", query{Kind: "sub", Range: 25, Step: 10}, -5, 30),
	}
}

// subStart: first aligned step of a subquery (Go's truncating division, as the engine).
func subStart(ts, suboff, rng, interval int64) int64 {
	x := ts - suboff - rng
	s := interval * (x / interval)
	if s <= x {
		s += interval
	}
	return s
}

// class names the two input classes that exposed engine defects (fixed in /repo by f396586f2e and
// 39ad807544); they are counted in the distribution and seeded in the corpus as regressions.
func class(c tcase) string {
	q := c.q
	if q.InnerTs && q.In.At != nil && q.In.Off != 0 {
		return "timestamp-at-with-offset"
	}
	if (q.Kind == "sub" || q.Kind == "subfn") && !q.InnerTs && q.In.At != nil {
		suboff := q.Sub.Off
		if q.Sub.At != nil {
			suboff += c.ts - *q.Sub.At
		}
		step := q.Step
		if step == 0 {
			step = c.defStep
		}
		if suboff != 0 && subStart(c.ts, suboff, q.Range, step) == c.ts {
			return "subquery-first-step-at-query-time-inner-at"
		}
	}
	return ""
}

func shapeOf(c tcase, res result) string {
	if res.Err != "" {
		return "error"
	}
	return c.q.Kind
}

func main() {
	f := gallina.ParseFlags()
	meta := gallina.NewMeta("C28", f.Seed, f.Tier)
	meta.Rule = "corpus + seeded cases: one series (0..24 samples; float / float-histogram / integer-histogram, stale markers, ms- to 15s-scale spacing, negative times) and one instant query of the six modelled forms or the two nested-subquery forms whose window edges (lookback, range, subquery window, step grid) are steered onto sample timestamps / step multiples (0, +-1, w-1, w, w+1) through ts, offset (both signs) and @; non-trivial = the real engine returned a non-empty result (at least one selected point); distinct by (series, query text, ts, lookback, default step)"
	perShard := 420
	if f.Tier == "thorough" {
		perShard = 1000
	}
	cf := &gallina.CaseFile{Dir: f.Out, Type: "case", PerShard: perShard,
		Preamble: "From Coq Require Import List ZArith.\nFrom Verif Require Import lib.Int64 model.PromqlSelect corr.CorrC28.\nImport ListNotations.\nOpen Scope Z_scope.\n",
		Footer:   gallina.StdFooter}
	debug := os.Getenv("C28_DEBUG") != ""
	id := 0
	seen := map[string]bool{}
	emit := func(c tcase) {
		qs := c.q.String()
		key := fmt.Sprint(c.ss, qs, c.ts, c.lookback, c.defStep)
		if seen[key] {
			return
		}
		seen[key] = true
		res, recs := run(c.ss, c.q, c.ts, c.lookback, c.defStep, false)
		resAll, _ := run(c.ss, c.q, c.ts, c.lookback, c.defStep, true)
		hs, he := int64(0), int64(-1)
		hints := "none"
		if len(recs) == 1 && !recs[0].NoHints {
			hs, he = recs[0].HStart, recs[0].HEnd
			hints = fmt.Sprintf("[%d,%d] querier [%d,%d]", hs, he, recs[0].QMin, recs[0].QMax)
			if recs[0].QMin != hs || recs[0].QMax != he {
				meta.Hit("querier-range-differs-from-hints")
			}
		} else if res.Err == "" {
			res = result{Err: fmt.Sprintf("%d select calls", len(recs))}
		}
		shape := shapeOf(c, res)
		meta.Hit(c.q.Kind)
		if cl := class(c); cl != "" {
			meta.Hit(cl)
		}
		if resAll.Err != "" && res.Err == "" {
			meta.Hit("error-unfiltered")
			meta.Notes = append(meta.Notes, fmt.Sprintf("case %d: %s: (storage ignoring hints) %s", id, qs, resAll.Err))
		}
		if fmt.Sprint(res) != fmt.Sprint(resAll) {
			meta.Hit("hinted-differs-from-unfiltered")
		}
		if res.Err != "" {
			meta.Hit("error")
			meta.Notes = append(meta.Notes, fmt.Sprintf("case %d: %s: %s", id, qs, res.Err))
		}
		if c.q.In.At != nil {
			meta.Hit("sel-at")
		}
		if c.q.In.Off < 0 {
			meta.Hit("sel-neg-offset")
		}
		if c.q.Sub.At != nil {
			meta.Hit("sub-at")
		}
		if c.q.Sub.Off < 0 {
			meta.Hit("sub-neg-offset")
		}
		if c.q.Kind == "sub2" || c.q.Kind == "sub2fn" {
			if c.q.Sub.At != nil && c.q.Sub2.Off != 0 && c.q.In.At == nil {
				meta.Hit("nested-inner-at-outer-offset")
			}
			if c.q.Sub2.At != nil {
				meta.Hit("nested-outer-at")
			}
		}
		if len(res.Pts) == 0 {
			meta.Hit("empty-result")
		} else {
			meta.Hit("nonempty-result")
		}
		nontriv := len(res.Pts) > 0
		for _, s := range c.ss {
			if s.Stale {
				meta.Hit("series-with-stale")
				break
			}
		}
		if nontriv {
			meta.Nontrivial++
		}
		if debug {
			fmt.Printf("%d %-40s ts=%d lb=%d hints=%s -> %s %v\n", id, qs, c.ts, c.lookback, hints, res.Err, res.Pts)
		}
		cf.Add(fmt.Sprintf("mkCase %s (mkCfg %s %s %s) %s %s (%s, %s) %s %s",
			gallina.Z(int64(id)), gallina.Z(c.ts), gallina.Z(c.lookback), gallina.Z(c.defStep),
			seriesTerm(c.ss), c.q.term(), gallina.Z(hs), gallina.Z(he), resTerm(res), resTerm(resAll)))
		meta.Case(id, desc{Series: c.ss, Query: qs, Q: c.q, Ts: c.ts, Lookback: c.lookback, DefStep: c.defStep, Hints: hints, Result: res, ResAll: resAll, Shape: shape, Corpus: c.corpus})
		meta.Evaluations++
		id++
	}
	for _, c := range corpus() {
		emit(c)
	}
	n := f.Count(1200, 30000)
	for i := 0; i < n; i++ {
		emit(genCase(gen.Fork(f.Seed, i)))
	}
	cf.Flush()
	meta.Write(f.Out)
	_ = strings.Join
}

// h_c01: correspondence harness for C01 (queries return exactly the committed, undeleted samples).
//
// Every case is one seeded history driven against a real tsdb.DB (through harness/internal/tsdbx):
// transactions of float appends (commit / rollback), Delete, DB.Compact (head compaction loop +
// out-of-order compaction, block planner off), CompactOOOHead, CleanTombstones, Close+reopen,
// and queries (Querier.Select and ChunkQuerier.Select with decoded chunks).  After every
// operation the head times, the head's chunks per series and the block metas are recorded; after
// every query its answer.  Coq then checks `agree` (structured model model/Tsdb.v) and `holds`
// (flat specification model/TsdbSpec.v) — see coq/corr/CorrC01.v.
package main

import (
	"fmt"
	"math"
	"os"
	"path/filepath"
	"sort"
	"strings"
	"sync"

	"github.com/prometheus/prometheus/model/labels"

	"verif/harness/internal/gallina"
	"verif/harness/internal/gen"
	"verif/harness/internal/tsdbx"
)

const blockRange = 1000

// ---- history description ----

type opKind int

const (
	opTx opKind = iota
	opRollback
	opDelete
	opCompact
	opCompactOOO
	opClean
	opRestart
	opQuery
	opChunkQuery
	opTxOpen // Append (uncommitted) -> DB.Compact -> Commit
)

var opNames = [...]string{"tx", "rollback", "delete", "compact", "compact-ooo", "clean-tombstones", "restart", "query", "chunk-query", "tx-open-compact-commit"}

type smp struct {
	S int   `json:"s"`
	T int64 `json:"t"`
	V int64 `json:"v"`
}

type hop struct {
	Kind opKind
	Reqs []smp // tx / rollback
	Mint int64 // delete / query
	Maxt int64
	Sel  []int // delete / query: selected series
}

type hopDesc struct {
	Op   string `json:"op"`
	Reqs []smp  `json:"reqs,omitempty"`
	Mint *int64 `json:"mint,omitempty"`
	Maxt *int64 `json:"maxt,omitempty"`
	Sel  []int  `json:"sel,omitempty"`
	Note string `json:"note,omitempty"`
}

type caseDesc struct {
	Seed    uint64    `json:"seed"`
	Index   int       `json:"index"`
	Corpus  string    `json:"corpus,omitempty"`
	Series  int       `json:"series"`
	OOOWin  int64     `json:"ooo_window"`
	Ops     []hopDesc `json:"ops"`
	Shape   string    `json:"shape"`
	Pattern []string  `json:"patterns,omitempty"`
}

func lbl(i int) labels.Labels { return labels.FromStrings("a", fmt.Sprintf("s%d", i)) }
func lblName(i int) string    { return lbl(i).String() }

func matcherFor(sel []int, n int) *labels.Matcher {
	if len(sel) == n {
		return tsdbx.MatchAll("a")
	}
	if len(sel) == 1 {
		return tsdbx.MatchEq("a", fmt.Sprintf("s%d", sel[0]))
	}
	var names []string
	for _, i := range sel {
		names = append(names, fmt.Sprintf("s%d", i))
	}
	return labels.MustNewMatcher(labels.MatchRegexp, "a", strings.Join(names, "|"))
}

// ---- Gallina printers ----

func gSample(t, v int64) string { return fmt.Sprintf("mkS %s %s", gallina.Z(t), gallina.Z(v)) }

func gSel(sel []int) string {
	it := make([]string, len(sel))
	for i, s := range sel {
		it[i] = gallina.Z(int64(s))
	}
	return gallina.List(it)
}

type headView struct {
	io  map[int][]tsdbx.Chunk // oldest first
	ooo map[int][]tsdbx.Sample
	ref map[int]uint64 // memSeries ref of the series present in the head
}

func view(d *tsdbx.DB, n int) headView {
	hv := headView{io: map[int][]tsdbx.Chunk{}, ooo: map[int][]tsdbx.Sample{}, ref: map[int]uint64{}}
	names := map[string]int{}
	for i := 0; i < n; i++ {
		names[lblName(i)] = i
	}
	for _, s := range d.HeadDump() {
		i, ok := names[s.Labels]
		if !ok {
			panic("unknown series in head: " + s.Labels)
		}
		hv.io[i] = append(hv.io[i], s.InOrder...)
		hv.ref[i] = s.Ref
		for _, c := range s.OOO {
			hv.ooo[i] = append(hv.ooo[i], c.Samples...)
		}
	}
	return hv
}

func gObs(d *tsdbx.DB, n int) string {
	mi, ma, mv := d.HeadTimes()
	hv := view(d, n)
	var ser []string
	for i := 0; i < n; i++ {
		cs := hv.io[i]
		var chunks []string
		for k := len(cs) - 1; k >= 0; k-- { // newest first
			ts := make([]int64, len(cs[k].Samples))
			for j, x := range cs[k].Samples {
				ts[j] = x.T
			}
			chunks = append(chunks, fmt.Sprintf("(%s, %s, %s)", gallina.Z(cs[k].MinT), gallina.Z(cs[k].MaxT), gallina.ListZ(ts)))
		}
		seen := map[int64]bool{}
		var oo []int64
		for _, x := range hv.ooo[i] {
			if !seen[x.T] {
				seen[x.T] = true
				oo = append(oo, x.T)
			}
		}
		sort.Slice(oo, func(a, b int) bool { return oo[a] < oo[b] })
		if len(cs) == 0 && len(oo) == 0 {
			continue
		}
		ser = append(ser, fmt.Sprintf("(%s, %s, %s)", gallina.Z(int64(i)), gallina.List(chunks), gallina.ListZ(oo)))
	}
	var bl []string
	for _, b := range d.Blocks() {
		bl = append(bl, fmt.Sprintf("(%s, %s, %s, %s)", gallina.Z(b.MinT), gallina.Z(b.MaxT), gallina.Bool(b.OOO), gallina.Z(int64(b.NumSamples))))
	}
	return fmt.Sprintf("(mkObs %s %s %s %s %s)", gallina.Z(mi), gallina.Z(ma), gallina.Z(mv), gallina.List(ser), gallina.List(bl))
}

func gResult(res []tsdbx.Series, n int) (string, bool) {
	names := map[string]int{}
	for i := 0; i < n; i++ {
		names[lblName(i)] = i
	}
	var it []string
	ok := true
	for _, s := range res {
		i := names[s.Labels]
		var pts []string
		for _, x := range s.Samples {
			if x.V != math.Trunc(x.V) || math.Abs(x.V) > 1e15 {
				ok = false
			}
			pts = append(pts, fmt.Sprintf("(%s, %s)", gallina.Z(x.T), gallina.Z(int64(x.V))))
		}
		it = append(it, fmt.Sprintf("(%s, %s)", gallina.Z(int64(i)), gallina.List(pts)))
	}
	return gallina.List(it), ok
}

// ---- running one history ----

type runner struct {
	d       *tsdbx.DB
	n       int
	oooWin  int64
	steps   []string
	descs   []hopDesc
	pattern []string
	classes map[string]int
	goViol  []string
	lost    []string // acknowledged samples missing after 'compaction while an appender is open'
	queue   []hop    // scripted follow-up ops of the generator
	nextVal int64
	markers  map[int]int // series records written per series
	restarts int
	fixed   bool // corpus case
	stopped bool // the implementation went somewhere the model does not follow: no further steps
	// all timestamps ever acknowledged, per series (generator steering only)
	acked map[int][]int64
}

func (r *runner) notePattern(p string) {
	for _, q := range r.pattern {
		if q == p {
			return
		}
	}
	r.pattern = append(r.pattern, p)
}

type key struct {
	s   int
	ooo bool
	t   int64
	v   float64
}

func multiset(hv headView) map[key]int {
	m := map[key]int{}
	for i, cs := range hv.io {
		for _, c := range cs {
			for _, x := range c.Samples {
				m[key{i, false, x.T, x.V}]++
			}
		}
	}
	for i, xs := range hv.ooo {
		for _, x := range xs {
			m[key{i, true, x.T, x.V}]++
		}
	}
	return m
}

func covered(ivs [][2]int64, t int64) bool {
	for _, iv := range ivs {
		if iv[0] <= t && t <= iv[1] {
			return true
		}
	}
	return false
}

// apply performs one op on the real DB and appends the Coq step. It returns false when the
// history must stop here (an operation failed in a way the model does not cover).
func (r *runner) apply(o hop) bool {
	d := hopDesc{Op: opNames[o.Kind]}
	switch o.Kind {
	case opTx, opRollback:
		vBefore := view(r.d, r.n)
		before := multiset(vBefore)
		tombs := r.d.HeadTombstones()
		reqs := make([]tsdbx.AppendReq, len(o.Reqs))
		for i, q := range o.Reqs {
			reqs[i] = tsdbx.AppendReq{Labels: lbl(q.S), T: q.T, V: float64(q.V)}
		}
		res, err := r.d.Tx(reqs, o.Kind == opTx)
		if err != nil {
			r.goViol = append(r.goViol, fmt.Sprintf("%s returned %v", opNames[o.Kind], err))
			return false
		}
		vAfter := view(r.d, r.n)
		after := multiset(vAfter)
		// series records written by this appender: memSeries created by it (new ref)
		var logged []string
		for i := 0; i < r.n; i++ {
			if ref, ok := vAfter.ref[i]; ok {
				if old, was := vBefore.ref[i]; !was || old != ref {
					logged = append(logged, fmt.Sprintf("(%s, None)", gallina.Z(int64(i))))
					r.markers[i]++
					r.classes["series-created"]++
				}
			}
		}
		for k, c := range after {
			after[k] = c - before[k]
			delete(before, k)
		}
		for k, c := range before {
			if c > 0 {
				r.goViol = append(r.goViol, fmt.Sprintf("head sample %v vanished during %s", k, opNames[o.Kind]))
			}
		}
		d.Reqs = o.Reqs
		var accs []string
		for i, q := range o.Reqs {
			r.classes["append-"+res[i].String()]++
			cls := ""
			kio, kooo := key{q.S, false, q.T, float64(q.V)}, key{q.S, true, q.T, float64(q.V)}
			switch {
			case after[kio] > 0:
				after[kio]--
				cls = "false"
				r.classes["accepted-in-order"]++
			case after[kooo] > 0:
				after[kooo]--
				cls = "true"
				r.classes["accepted-ooo"]++
				if covered(tombs[lblName(q.S)], q.T) {
					r.notePattern("ooo-append-under-head-tombstone")
				}
			default:
				if res[i] == tsdbx.OK && o.Kind == opTx {
					r.classes["dropped-at-commit"]++
				}
			}
			if cls != "" {
				if res[i] != tsdbx.OK || o.Kind == opRollback {
					r.goViol = append(r.goViol, fmt.Sprintf("sample %v stored although append returned %v / %s", q, res[i], opNames[o.Kind]))
				}
				accs = append(accs, fmt.Sprintf("(%s, %s, %s)", gallina.Z(int64(q.S)), gSample(q.T, q.V), cls))
				r.acked[q.S] = append(r.acked[q.S], q.T)
			}
			if res[i] == tsdbx.OK && o.Kind == opTx {
				logged = append(logged, fmt.Sprintf("(%s, Some (%s))", gallina.Z(int64(q.S)), gSample(q.T, q.V)))
			}
		}
		for k, c := range after {
			if c > 0 {
				r.goViol = append(r.goViol, fmt.Sprintf("head gained sample %v not requested by the transaction", k))
			}
		}
		first := "None"
		if len(o.Reqs) > 0 {
			first = gallina.Some(gallina.Z(o.Reqs[0].T))
		}
		r.steps = append(r.steps, fmt.Sprintf("SOp (Commit %s %s %s) %s", gallina.List(accs), gallina.List(logged), first, gObs(r.d, r.n)))
	case opTxOpen:
		// An appender stays open across a head compaction: Append (uncommitted), DB.Compact, Commit.
		// Model: the Compact step, then the Commit step (the accepted samples are read from the head
		// as usual).  Go-side rule: a sample above everything the head had when the appender was
		// created, appended without error and committed without error, must be returned afterwards.
		vBefore := view(r.d, r.n)
		before := multiset(vBefore)
		_, hmaxBefore, _ := r.d.HeadTimes()
		otx := r.d.Begin(false)
		res := make([]tsdbx.ErrKind, len(o.Reqs))
		for i, q := range o.Reqs {
			res[i] = tsdbx.Kind(otx.Append(lbl(q.S), q.T, float64(q.V), tsdbx.KFloat))
		}
		if err := r.d.Compact(); err != nil {
			r.goViol = append(r.goViol, fmt.Sprintf("Compact (appender open) returned %v", err))
			return false
		}
		for _, xs := range view(r.d, r.n).ooo {
			if len(xs) > 0 { // see opCompact: truncateOOO left chunks behind; not modelled
				_ = otx.Rollback()
				r.classes["stopped-ooo-compaction-kept-head-chunks"]++
				r.stopped = true
				return false
			}
		}
		pendSet := map[int]bool{}
		var pend []int
		for i, q := range o.Reqs {
			if res[i] == tsdbx.OK && !pendSet[q.S] {
				pendSet[q.S] = true
				pend = append(pend, q.S)
			}
		}
		r.steps = append(r.steps, fmt.Sprintf("SOp (CompactPending %s) %s", gSel(pend), gObs(r.d, r.n)))
		if err := otx.Commit(); err != nil {
			r.goViol = append(r.goViol, fmt.Sprintf("Commit (after compaction) returned %v", err))
			return false
		}
		vAfter := view(r.d, r.n)
		after := multiset(vAfter)
		var logged, accs []string
		for i := 0; i < r.n; i++ {
			if ref, ok := vAfter.ref[i]; ok {
				if old, was := vBefore.ref[i]; !was || old != ref {
					logged = append(logged, fmt.Sprintf("(%s, None)", gallina.Z(int64(i))))
					r.markers[i]++
				}
			}
		}
		for k, c := range after {
			after[k] = c - before[k]
		}
		d.Reqs = o.Reqs
		seenMax := map[int]int64{}
		for i, q := range o.Reqs {
			r.classes["append-"+res[i].String()]++
			kio, kooo := key{q.S, false, q.T, float64(q.V)}, key{q.S, true, q.T, float64(q.V)}
			cls := ""
			switch {
			case after[kio] > 0:
				after[kio]--
				cls = "false"
				r.classes["accepted-in-order"]++
			case after[kooo] > 0:
				after[kooo]--
				cls = "true"
				r.classes["accepted-ooo"]++
			}
			if cls != "" {
				accs = append(accs, fmt.Sprintf("(%s, %s, %s)", gallina.Z(int64(q.S)), gSample(q.T, q.V), cls))
				r.acked[q.S] = append(r.acked[q.S], q.T)
			}
			if res[i] == tsdbx.OK {
				logged = append(logged, fmt.Sprintf("(%s, Some (%s))", gallina.Z(int64(q.S)), gSample(q.T, q.V)))
				prev, had := seenMax[q.S]
				if q.T > hmaxBefore && (!had || q.T > prev) {
					seenMax[q.S] = q.T
					got, err := r.d.SampleTimes(q.T, q.T, tsdbx.MatchEq("a", fmt.Sprintf("s%d", q.S)))
					if err != nil || len(got[lblName(q.S)]) != 1 {
						r.lost = append(r.lost, fmt.Sprintf("series s%d t=%d (float, Appender): appended and committed without error across a head compaction, but not returned by the following query", q.S, q.T))
					}
				}
			}
		}
		first := "None"
		if len(o.Reqs) > 0 {
			first = gallina.Some(gallina.Z(o.Reqs[0].T))
		}
		r.steps = append(r.steps, fmt.Sprintf("SOp (Commit %s %s %s) %s", gallina.List(accs), gallina.List(logged), first, gObs(r.d, r.n)))
	case opDelete:
		// finding pattern: a selected series has an out-of-order head sample inside the range
		hv := view(r.d, r.n)
		for _, i := range o.Sel {
			for _, x := range hv.ooo[i] {
				if x.T >= o.Mint && x.T <= o.Maxt {
					r.notePattern("delete-misses-ooo-head-sample")
				}
			}
		}
		// finding pattern: a selected series still has an in-order sample below Head.MinTime in a
		// head chunk (straddling the last truncation point) inside the range
		hmin, _, _ := r.d.HeadTimes()
		for _, i := range o.Sel {
			for _, c := range hv.io[i] {
				for _, x := range c.Samples {
					if x.T < hmin && x.T >= o.Mint && x.T <= o.Maxt {
						r.notePattern("delete-misses-dead-head-sample")
					}
				}
			}
		}
		if err := r.d.Delete(o.Mint, o.Maxt, matcherFor(o.Sel, r.n)); err != nil {
			r.goViol = append(r.goViol, fmt.Sprintf("Delete returned %v", err))
			return false
		}
		d.Mint, d.Maxt, d.Sel = &o.Mint, &o.Maxt, o.Sel
		r.steps = append(r.steps, fmt.Sprintf("SOp (Delete %s %s %s) %s", gallina.Z(o.Mint), gallina.Z(o.Maxt), gSel(o.Sel), gObs(r.d, r.n)))
	case opCompact, opCompactOOO, opClean:
		var err error
		name := ""
		inOrderBlocks := func() int {
			k := 0
			for _, b := range r.d.Blocks() {
				if !b.OOO {
					k++
				}
			}
			return k
		}
		nb := inOrderBlocks()
		nbAll := len(r.d.Blocks())
		hminBefore, _, _ := r.d.HeadTimes()
		switch o.Kind {
		case opCompact:
			err, name = r.d.Compact(), "Compact"
		case opCompactOOO:
			err, name = r.d.CompactOOOHead(), "CompactOOO"
		default:
			err, name = r.d.CleanTombstones(), "CleanTombstones"
		}
		if err != nil {
			r.goViol = append(r.goViol, fmt.Sprintf("%s returned %v", name, err))
			return false
		}
		hminAfter, _, _ := r.d.HeadTimes()
		if o.Kind == opCompactOOO || (o.Kind == opCompact && (inOrderBlocks() > nb || len(r.d.Blocks()) > nbAll || hminAfter != hminBefore)) {
			// Not modelled (see notes): compactOOOHead wrote its blocks but truncateOOO left the
			// out-of-order chunks in the head (chunks reloaded by an earlier restart whose refs are
			// not above Head.minOOOMmapRef).  The history ends before this op.
			for _, xs := range view(r.d, r.n).ooo {
				if len(xs) > 0 {
					r.classes["stopped-ooo-compaction-kept-head-chunks"]++
					r.stopped = true
					return false
				}
			}
		}
		r.steps = append(r.steps, fmt.Sprintf("SOp %s %s", name, gObs(r.d, r.n)))
	case opRestart:
		// Not modelled (see notes): a restart of a series that has several series records in the
		// WAL (it was garbage collected and created again): which head chunk file entries Head.Init
		// attaches to which record then depends on ref bookkeeping the model does not follow exactly.
		{
			for _, k := range r.markers {
				if k >= 2 {
					r.classes["stopped-restart-of-recreated-series"]++
					r.stopped = true
					return false
				}
			}
		}
		// Not modelled: WAL checkpoints.  If a checkpoint exists and the restart will compute a
		// minValidTime below the current one (a truncation happened without an in-order block up to
		// it: the block was empty or was deleted), what the WAL still holds in between decides the
		// outcome; the model replays the whole log.  The history ends before such a restart.
		// The same situation without a checkpoint also depends on head chunk files that were truncated
		// from memory but not yet deleted from disk (not modelled), so generated histories end before
		// ANY restart that will lower minValidTime; the fixed corpus cases of this kind are kept.
		if cps, _ := filepath.Glob(filepath.Join(r.d.Dir, "wal", "checkpoint.*")); len(cps) > 0 || !r.fixed {
			_, _, mvBefore := r.d.HeadTimes()
			b := int64(math.MinInt64)
			for _, bl := range r.d.Blocks() {
				if !bl.OOO && bl.MaxT > b {
					b = bl.MaxT
				}
			}
			if b < mvBefore {
				r.classes["stopped-restart-lowering-minvalidtime"]++
				r.stopped = true
				return false
			}
		}
		r.restarts++
		before := view(r.d, r.n)
		if err := r.d.Reopen(); err != nil {
			r.goViol = append(r.goViol, fmt.Sprintf("Close/Open returned %v", err))
			return false
		}
		for _, m := range r.d.Logs() {
			if strings.Contains(m, "on-disk chunks failed") {
				// Head.Init rejected the head chunk files (out-of-sequence m-mapped chunks left behind by
				// earlier truncations), reset the in-memory state and rebuilt the head from the WAL only.
				// Not modelled: the history ends before this restart.
				r.classes["stopped-restart-mmap-files-rejected"]++
				r.stopped = true
				return false
			}
		}
		after := view(r.d, r.n)
		var rl []string
		for i := 0; i < r.n; i++ {
			if len(after.ooo[i]) == 0 {
				continue
			}
			old := map[tsdbx.Sample]bool{}
			for _, x := range before.ooo[i] {
				old[x] = true
			}
			var xs []string
			for _, x := range after.ooo[i] {
				xs = append(xs, gSample(x.T, int64(x.V)))
				if !old[x] {
					r.notePattern("restart-reloads-compacted-ooo-chunk")
				}
			}
			rl = append(rl, fmt.Sprintf("(%s, %s)", gallina.Z(int64(i)), gallina.List(xs)))
		}
		// in-order samples replayed although they had left the head (compacted earlier)
		oldIO := map[key]bool{}
		for i, cs := range before.io {
			for _, c := range cs {
				for _, x := range c.Samples {
					oldIO[key{i, false, x.T, x.V}] = true
				}
			}
		}
		replays := false
		for i, cs := range after.io {
			for _, c := range cs {
				for _, x := range c.Samples {
					if !oldIO[key{i, false, x.T, x.V}] {
						replays = true
					}
				}
			}
		}
		if replays {
			r.notePattern("restart-replays-compacted-samples")
			// Not modelled: WAL checkpoints.  When compacted samples are replayed AND a checkpoint has
			// already dropped part of the log, the model (which replays the whole log) cannot follow.
			if cps, _ := filepath.Glob(filepath.Join(r.d.Dir, "wal", "checkpoint.*")); len(cps) > 0 {
				r.classes["stopped-restart-replay-after-wal-checkpoint"]++
				r.stopped = true
				return false
			}
		}
		r.steps = append(r.steps, fmt.Sprintf("SOp (Restart %s) %s", gallina.List(rl), gObs(r.d, r.n)))
	case opQuery, opChunkQuery:
		var res []tsdbx.Series
		var err error
		m := matcherFor(o.Sel, r.n)
		if o.Kind == opQuery {
			res, err = r.d.Query(o.Mint, o.Maxt, m)
		} else {
			res, err = r.d.ChunkQuery(o.Mint, o.Maxt, m)
			res = tsdbx.InRange(res, o.Mint, o.Maxt)
		}
		if err != nil {
			r.goViol = append(r.goViol, fmt.Sprintf("%s returned %v", opNames[o.Kind], err))
			return false
		}
		g, ok := gResult(res, r.n)
		if !ok {
			r.goViol = append(r.goViol, "query returned a value that is not one of the integer codes appended")
		}
		d.Mint, d.Maxt, d.Sel = &o.Mint, &o.Maxt, o.Sel
		r.steps = append(r.steps, fmt.Sprintf("SQuery %s %s %s %s", gallina.Z(o.Mint), gallina.Z(o.Maxt), gSel(o.Sel), g))
	}
	if os.Getenv("C01_TRACE") != "" {
		mi, ma, mv := r.d.HeadTimes()
		omi, oma := r.d.HeadOOOTimes()
		fmt.Fprintf(os.Stderr, "%-16s head=[%d,%d] minValid=%d ooo=[%d,%d] blocks=%v\n", opNames[o.Kind], mi, ma, mv, omi, oma, r.d.Blocks())
		for _, hs := range r.d.HeadDump() {
			fmt.Fprintf(os.Stderr, "      %s ref=%d io=%v ooo=%v\n", hs.Labels, hs.Ref, hs.InOrder, hs.OOO)
		}
		fmt.Fprintf(os.Stderr, "      tombs=%v logs=%v\n", r.d.HeadTombstones(), r.d.Logs())
	}
	r.classes["op-"+opNames[o.Kind]]++
	r.descs = append(r.descs, d)
	return true
}

// ---- generator ----

func (r *runner) val() int64 { r.nextVal++; return r.nextVal }

func pickSel(g *gen.Rand, n int) []int {
	switch {
	case g.Chance(1, 2):
		sel := make([]int, n)
		for i := range sel {
			sel[i] = i
		}
		return sel
	case g.Chance(1, 2) || n < 3:
		return []int{g.Intn(n)}
	default:
		a := g.Intn(n)
		b := (a + 1 + g.Intn(n-1)) % n
		if a > b {
			a, b = b, a
		}
		return []int{a, b}
	}
}

// interesting timestamps around the current head / data
func (r *runner) pickTime(g *gen.Rand, s int) int64 {
	mi, ma, mv := r.d.HeadTimes()
	if tsdbx.Unset(mi, ma) && mv == math.MinInt64 {
		return g.PickI64(-2600, -2001, -2000, -1500, -1001, -1000, -999, -5, -1, 0, 1, 500, 999, 1000, 1001, 4000)
	}
	if ma == math.MinInt64 {
		ma = mv
	}
	bnd := (ma / blockRange) * blockRange
	switch g.Intn(12) {
	case 0, 1, 2: // a little ahead
		return ma + g.Range(1, 400)
	case 3: // far ahead: makes the head compactable
		return ma + g.Range(900, 2700)
	case 4: // block boundary +-1
		return bnd + g.PickI64(-1001, -1000, -999, -1, 0, 1, 999, 1000, 1001)
	case 5: // equal to the head max (duplicate for one series, in-order for others)
		return ma
	case 6, 7: // inside the out-of-order window
		w := r.oooWin
		if w == 0 {
			w = 600
		}
		return ma - g.Range(0, w)
	case 8: // window edge
		return ma - r.oooWin + g.PickI64(-1, 0, 1)
	case 9: // re-use an acknowledged timestamp (duplicate / equal timestamp, other value)
		if ts := r.acked[s]; len(ts) > 0 {
			return ts[g.Intn(len(ts))]
		}
		return ma + 1
	case 10: // appendable window edge
		return ma - blockRange/2 + g.PickI64(-1, 0, 1)
	default: // way below
		return ma - g.Range(2000, 6000)
	}
}

// nextBlockMax is the MaxTime of the block the next head compaction would cut.
func (r *runner) nextBlockMax() (int64, bool) {
	mi, ma, _ := r.d.HeadTimes()
	if tsdbx.Unset(mi, ma) || mi == math.MaxInt64 {
		return 0, false
	}
	return (mi/blockRange)*blockRange + blockRange, true
}

func (r *runner) genOp(g *gen.Rand) hop {
	if len(r.queue) > 0 {
		o := r.queue[0]
		r.queue = r.queue[1:]
		return o
	}
	x := g.Intn(100)
	// boundary scenario: samples exactly on / next to the next block's MaxTime, a Delete whose bounds
	// land on / straddle it, THEN the head compaction, a restart and a query
	if R, ok := r.nextBlockMax(); ok && x < 9 {
		_, ma, _ := r.d.HeadTimes()
		s := g.Intn(r.n)
		all := make([]int, r.n)
		for i := range all {
			all[i] = i
		}
		var seq []hop
		var reqs []smp
		for _, t := range []int64{R + g.PickI64(-1, 0, 0, 1), R + g.PickI64(0, 1, 400)} {
			if t > ma {
				reqs = append(reqs, smp{S: s, T: t, V: r.val()})
				ma = t
			}
		}
		if len(reqs) > 0 {
			seq = append(seq, hop{Kind: opTx, Reqs: reqs})
		}
		far := R + 1400 + g.Range(0, 90) // not so far that a second block is cut
		if far > ma {
			seq = append(seq, hop{Kind: opTx, Reqs: []smp{{S: g.Intn(r.n), T: far, V: r.val()}}})
		}
		lo := R - g.PickI64(1, 300, 700, 5000)
		hi := R + g.PickI64(-1, 0, 0, 0, 1, 400)
		seq = append(seq, hop{Kind: opDelete, Mint: lo, Maxt: hi, Sel: all}, hop{Kind: opCompact}, hop{Kind: opRestart}, fullQuery(r.n, false))
		r.queue = seq[1:]
		return seq[0]
	}
	// compaction while an appender is open
	if _, ok := r.nextBlockMax(); ok && x >= 9 && x < 14 {
		_, ma, _ := r.d.HeadTimes()
		o := hop{Kind: opTxOpen}
		k := 1 + g.Intn(3)
		for i := 0; i < k; i++ {
			o.Reqs = append(o.Reqs, smp{S: g.Intn(r.n), T: ma + g.PickI64(0, 1, 30, 900, 1600, 2600), V: r.val()})
		}
		r.queue = []hop{fullQuery(r.n, false)}
		return o
	}
	switch {
	case x < 46:
		k := 1 + g.Intn(4)
		o := hop{Kind: opTx}
		if g.Chance(1, 12) {
			o.Kind = opRollback
		}
		for i := 0; i < k; i++ {
			s := g.Intn(r.n)
			t := r.pickTime(g, s)
			if i > 0 && g.Chance(1, 3) { // several samples of one series in one transaction
				s = o.Reqs[i-1].S
				t = o.Reqs[i-1].T + g.PickI64(-50, 0, 1, 30, 1000)
			}
			o.Reqs = append(o.Reqs, smp{S: s, T: t, V: r.val()})
		}
		return o
	case x < 58:
		mi, ma, _ := r.d.HeadTimes()
		if tsdbx.Unset(mi, ma) {
			mi, ma = -3000, 3000
		}
		lo := mi - 2500
		a := g.Range(lo, ma+200)
		b := a + g.PickI64(0, 1, 50, 300, 999, 1000, 2500, 10000)
		if g.Chance(1, 8) {
			a, b = math.MinInt64, g.Range(lo, ma)
		}
		if g.Chance(1, 8) {
			b = math.MaxInt64
		}
		return hop{Kind: opDelete, Mint: a, Maxt: b, Sel: pickSel(g, r.n)}
	case x < 66:
		return hop{Kind: opCompact}
	case x < 72:
		return hop{Kind: opCompactOOO}
	case x < 76:
		return hop{Kind: opClean}
	case x < 82:
		return hop{Kind: opRestart}
	default:
		mi, ma, _ := r.d.HeadTimes()
		if tsdbx.Unset(mi, ma) {
			mi, ma = -3000, 3000
		}
		o := hop{Kind: opQuery, Sel: pickSel(g, r.n)}
		if g.Chance(1, 3) {
			o.Kind = opChunkQuery
		}
		switch g.Intn(5) {
		case 0:
			o.Mint, o.Maxt = math.MinInt64, math.MaxInt64
		case 1:
			o.Mint, o.Maxt = -1<<40, 1<<40
		case 2: // block aligned
			b := (g.Range(mi-3000, ma) / blockRange) * blockRange
			o.Mint, o.Maxt = b+g.PickI64(-1, 0, 1), b+blockRange+g.PickI64(-2, -1, 0)
		case 3: // a point
			t := g.Range(mi-2000, ma+10)
			if ts := r.acked[o.Sel[0]]; len(ts) > 0 {
				t = ts[g.Intn(len(ts))]
			}
			o.Mint, o.Maxt = t, t
		default:
			a := g.Range(mi-3000, ma)
			o.Mint, o.Maxt = a, a+g.Range(0, 4000)
		}
		return o
	}
}

func fullQuery(n int, chunk bool) hop {
	sel := make([]int, n)
	for i := range sel {
		sel[i] = i
	}
	k := opQuery
	if chunk {
		k = opChunkQuery
	}
	return hop{Kind: k, Mint: math.MinInt64, Maxt: math.MaxInt64, Sel: sel}
}

// ---- corpus ----

type fixed struct {
	name   string
	n      int
	oooWin int64
	ops    []hop
}

func txs(reqs ...smp) hop { return hop{Kind: opTx, Reqs: reqs} }

func corpus() []fixed {
	all2 := []int{0, 1}
	return []fixed{
		{"fixed-defect-compactOOO-negative-range-start", 1, 100000, []hop{
			txs(smp{0, 100, 1}), txs(smp{0, 200, 2}), txs(smp{0, -5, 3}), txs(smp{0, -1500, 4}), txs(smp{0, 50, 5}),
			fullQuery(1, false), {Kind: opCompactOOO}, fullQuery(1, false), fullQuery(1, true), {Kind: opRestart}, fullQuery(1, false)}},
		{"fixed-defect-head-delete-inverted-interval", 2, 0, []hop{
			txs(smp{0, 100, 1}, smp{1, 100, 2}), txs(smp{0, 200, 3}, smp{1, 500, 4}),
			{Kind: opDelete, Mint: 300, Maxt: 400, Sel: all2}, fullQuery(2, false), {Kind: opRestart}, fullQuery(2, false),
			{Kind: opDelete, Mint: 150, Maxt: 450, Sel: all2}, fullQuery(2, false)}},
		{"negative-times-head-compaction-and-restart", 2, 0, []hop{
			txs(smp{0, -2500, 1}), txs(smp{1, -1500, 2}), txs(smp{1, -500, 3}), txs(smp{0, 100, 4}), txs(smp{0, 1700, 5}),
			{Kind: opCompact}, fullQuery(2, false), {Kind: opRestart}, fullQuery(2, true),
			txs(smp{0, 3500, 6}, smp{1, 3600, 7}), {Kind: opCompact}, {Kind: opRestart}, fullQuery(2, false)}},
		{"delete-across-head-and-blocks-then-clean", 2, 0, []hop{
			txs(smp{0, 100, 1}, smp{1, 150, 2}), txs(smp{0, 900, 3}, smp{1, 950, 4}), txs(smp{0, 1700, 5}, smp{1, 1800, 6}), txs(smp{0, 2700, 7}),
			{Kind: opCompact}, {Kind: opDelete, Mint: 120, Maxt: 1750, Sel: all2}, fullQuery(2, false),
			{Kind: opClean}, fullQuery(2, false), {Kind: opRestart}, fullQuery(2, true)}},
		// tombstone ending exactly on the first sample left in the head after the compaction (= the
		// block's MaxTime): the restart must keep it (loadWAL: itv.Maxt < minValidTime drops)
		{"tombstone-ends-on-block-maxtime-then-restart", 1, 0, []hop{
			txs(smp{0, 100, 1}), txs(smp{0, 1000, 2}), txs(smp{0, 2400, 3}),
			{Kind: opDelete, Mint: 500, Maxt: 1000, Sel: []int{0}}, fullQuery(1, false), {Kind: opCompact}, fullQuery(1, false),
			{Kind: opRestart}, fullQuery(1, false), fullQuery(1, true)}},
		// tombstone straddling the block boundary of the next compaction
		{"tombstone-straddles-block-maxtime-then-restart", 2, 0, []hop{
			txs(smp{0, 100, 1}, smp{1, 999, 2}), txs(smp{0, 600, 3}, smp{1, 1000, 4}), txs(smp{0, 1000, 5}, smp{1, 1001, 6}),
			txs(smp{0, 1400, 7}), txs(smp{0, 2400, 8}),
			{Kind: opDelete, Mint: 500, Maxt: 1500, Sel: []int{0}}, {Kind: opDelete, Mint: 999, Maxt: 1000, Sel: []int{1}},
			{Kind: opCompact}, fullQuery(2, false), {Kind: opRestart}, fullQuery(2, false), fullQuery(2, true)}},
		// an appender open across a head compaction that removes all chunks of its series
		{"appender-open-across-head-compaction", 2, 0, []hop{
			txs(smp{0, 100, 1}), txs(smp{0, 200, 2}), txs(smp{1, 2500, 3}),
			{Kind: opTxOpen, Reqs: []smp{{0, 2600, 4}, {1, 2601, 5}}}, fullQuery(2, false), {Kind: opRestart}, fullQuery(2, false)}},
		// ---- reproducers of the findings (see notes/C01.md) ----
		{"finding-delete-then-ooo-compaction-resurrects", 1, 100000, []hop{
			txs(smp{0, 100, 1}), txs(smp{0, 200, 2}), txs(smp{0, 300, 3}), txs(smp{0, 150, 4}),
			{Kind: opDelete, Mint: 120, Maxt: 180, Sel: []int{0}}, fullQuery(1, false), {Kind: opCompactOOO}, fullQuery(1, false)}},
		{"finding-delete-skips-ooo-sample-outside-in-order-range", 2, 100000, []hop{
			txs(smp{0, 1000, 1}), txs(smp{1, 500, 2}), txs(smp{1, 400, 3}),
			{Kind: opDelete, Mint: 0, Maxt: 2000, Sel: []int{1}}, fullQuery(2, false)}},
		{"finding-ooo-append-hidden-by-older-tombstone", 1, 100000, []hop{
			txs(smp{0, 100, 1}), txs(smp{0, 200, 2}), txs(smp{0, 300, 3}),
			{Kind: opDelete, Mint: 120, Maxt: 250, Sel: []int{0}}, txs(smp{0, 180, 9}), fullQuery(1, false), {Kind: opCompactOOO}, fullQuery(1, false)}},
		{"finding-restart-reloads-deleted-ooo-chunk", 1, 100000, []hop{
			txs(smp{0, 300, 1}), txs(smp{0, 150, 2}), {Kind: opCompactOOO},
			{Kind: opDelete, Mint: 140, Maxt: 160, Sel: []int{0}}, fullQuery(1, false), {Kind: opRestart}, fullQuery(1, false)}},
		{"finding-delete-skips-dead-head-sample-in-straddling-chunk", 1, 0, []hop{
			txs(smp{0, -2600, 1}, smp{0, -5, 2}), txs(smp{0, 203, 8}, smp{0, 1000, 9}), {Kind: opCompact}, {Kind: opRestart}, {Kind: opCompact},
			{Kind: opDelete, Mint: -2306, Maxt: 194, Sel: []int{0}}, fullQuery(1, false)}},
		{"finding-restart-replays-deleted-block-from-wal", 1, 0, []hop{
			txs(smp{0, 100, 1}), txs(smp{0, 200, 2}), txs(smp{0, 1700, 3}), {Kind: opCompact},
			{Kind: opDelete, Mint: 0, Maxt: 999, Sel: []int{0}}, {Kind: opClean}, fullQuery(1, false), {Kind: opRestart}, fullQuery(1, false)}},
	}
}

// ---- main ----

func main() {
	f := gallina.ParseFlags()
	meta := gallina.NewMeta("C01", f.Seed, f.Tier)
	meta.Rule = "corpus (fixed defects + finding reproducers) + seeded histories of 5-40 ops over 1-4 series on a real tsdb.DB (block range 1000, OOO window in {0,300,2500,100000}); every op is followed by a comparison of head times / head chunks / block metas, every query by a comparison of its answer; a history is non-trivial when it contains at least one acknowledged sample, one structural op (delete/compaction/restart) and one query returning data; distinct by the printed op list"
	cf := &gallina.CaseFile{Dir: f.Out, Type: "case", PerShard: 8,
		Preamble: "From Coq Require Import List ZArith.\nFrom Verif Require Import lib.Int64 model.TsdbSpec model.Tsdb corr.CorrC01.\nImport ListNotations.\nOpen Scope Z_scope.\n",
		Footer:   gallina.StdFooter}
	type outcome struct {
		term    string // with @ID@ placeholder
		sig     string
		cd      caseDesc
		classes map[string]int
		goViol  []string
	lost    []string // acknowledged samples missing after 'compaction while an appender is open'
	queue   []hop    // scripted follow-up ops of the generator
		n       int
		win     int64
	}

	runCase := func(idx int, fx *fixed) outcome {
		g := gen.Fork(f.Seed, idx)
		n, win := 1+g.Intn(4), gen.Pick(g, []int64{0, 0, 300, 2500, 100000, 100000})
		var ops []hop
		nops := 5 + g.Intn(36)
		if fx != nil {
			n, win, ops, nops = fx.n, fx.oooWin, fx.ops, len(fx.ops)
		}
		dir, err := os.MkdirTemp(f.Out, "db")
		if err != nil {
			panic(err)
		}
		defer os.RemoveAll(dir)
		d, err := tsdbx.Open(dir, tsdbx.Options{BlockRange: blockRange, OOOWindow: win, SamplesPerChunk: 1 << 20})
		if err != nil {
			panic(err)
		}
		r := &runner{d: d, n: n, oooWin: win, classes: map[string]int{}, acked: map[int][]int64{}, markers: map[int]int{}, fixed: fx != nil}
		defer func() { r.d.Close() }()
		for k := 0; k < nops; k++ {
			var o hop
			if fx != nil {
				o = ops[k]
			} else {
				o = r.genOp(g)
			}
			if !r.apply(o) {
				break
			}
		}
		if fx == nil && !r.stopped {
			r.apply(fullQuery(n, false))
			r.apply(fullQuery(n, true))
		}
		u := make([]string, n)
		for i := range u {
			u[i] = gallina.Z(int64(i))
		}
		term := fmt.Sprintf("mkCase @ID@ (mkCfg %s %s %s) %s", gallina.Z(blockRange), gallina.Z(win), gallina.List(u), gallina.List(r.steps))
		shape := "clean"
		if len(r.pattern) > 0 {
			shape = r.pattern[0]
		}
		cd := caseDesc{Seed: f.Seed, Index: idx, Series: n, OOOWin: win, Ops: r.descs, Shape: shape, Pattern: r.pattern}
		if fx != nil {
			cd.Corpus = fx.name
		}
		return outcome{term: term, sig: strings.Join(r.steps, ";"), cd: cd, classes: r.classes, goViol: r.goViol, lost: r.lost, n: n, win: win}
	}

	cp := corpus()
	if v := os.Getenv("C01_ONLY"); v != "" { // debugging aid: run one generated case
		var idx int
		fmt.Sscan(v, &idx)
		runCase(idx, nil)
		return
	}
	total := len(cp) + f.Count(24, 400)
	outs := make([]outcome, total)
	var wg sync.WaitGroup
	sem := make(chan struct{}, 12)
	for k := 0; k < total; k++ {
		wg.Add(1)
		sem <- struct{}{}
		go func(k int) {
			defer wg.Done()
			defer func() { <-sem }()
			if k < len(cp) {
				outs[k] = runCase(1000000+k, &cp[k])
			} else {
				outs[k] = runCase(k-len(cp), nil)
			}
		}(k)
	}
	wg.Wait()

	seen := map[string]bool{}
	id := 0
	for _, o := range outs {
		if seen[o.sig] {
			continue
		}
		seen[o.sig] = true
		for _, v := range o.goViol {
			meta.GoViol = append(meta.GoViol, gallina.GoViolation{ID: fmt.Sprint(id), Shape: "harness-" + o.cd.Shape, What: v})
		}
		for _, v := range o.lost {
			meta.GoViol = append(meta.GoViol, gallina.GoViolation{ID: fmt.Sprint(id), Shape: "open-appender-compaction-lost-sample", What: v})
		}
		cf.Add(strings.Replace(o.term, "@ID@", gallina.Z(int64(id)), 1))
		meta.Case(id, o.cd)
		meta.Evaluations++
		meta.Hit("shape-" + o.cd.Shape)
		meta.Hit(fmt.Sprintf("series-%d", o.n))
		meta.Hit(fmt.Sprintf("ooo-window-%d", o.win))
		for k, v := range o.classes {
			meta.Dist[k] += v
		}
		c := o.classes
		if c["accepted-in-order"]+c["accepted-ooo"] > 0 && c["op-query"]+c["op-chunk-query"] > 0 &&
			c["op-delete"]+c["op-compact"]+c["op-compact-ooo"]+c["op-restart"]+c["op-clean-tombstones"] > 0 {
			meta.Nontrivial++
		}
		id++
	}
	// ---- second stream: transactions of MIXED sample kinds, judged by Coq's holds on the flat spec ----
	fm := fixedMixed()
	nm := len(fm) + f.Count(14, 300)
	mouts := make([]mixedOutcome, nm)
	for k := 0; k < nm; k++ {
		wg.Add(1)
		sem <- struct{}{}
		go func(k int) {
			defer wg.Done()
			defer func() { <-sem }()
			if k < len(fm) {
				mouts[k] = runMixed(f, 3000000+k, &fm[k])
			} else {
				mouts[k] = runMixed(f, 2000000+k-len(fm), nil)
			}
		}(k)
	}
	wg.Wait()
	for _, o := range mouts {
		if seen[o.sig] {
			continue
		}
		seen[o.sig] = true
		for _, v := range o.goViol {
			meta.GoViol = append(meta.GoViol, gallina.GoViolation{ID: fmt.Sprint(id), Shape: "mixed-kinds-harness", What: v})
		}
		cf.Add(strings.Replace(o.term, "@ID@", gallina.Z(int64(id)), 1))
		meta.Case(id, o.desc)
		meta.Evaluations++
		meta.Nontrivial++
		meta.Hit("shape-" + o.desc.Shape)
		for k, v := range o.classes {
			meta.Dist[k] += v
		}
		id++
	}
	// "compaction while an appender is open" for every sample kind and both appender interfaces,
	// judged on the Go side (histograms are not in the Coq model)
	for _, v2 := range []bool{false, true} {
		for _, k := range []tsdbx.SampleKind{tsdbx.KFloat, tsdbx.KHistogram, tsdbx.KFloatHistogram} {
			iface := "Appender"
			if v2 {
				iface = "AppenderV2"
			}
			name := fmt.Sprintf("open-appender/%s/%s", k, iface)
			if what := openAppenderScenario(f.Out, k, v2); what != "" {
				meta.GoViol = append(meta.GoViol, gallina.GoViolation{ID: name, Shape: "open-appender-compaction-lost-sample", What: name + ": " + what})
			}
			meta.Hit("go-scenario-open-appender")
		}
	}
	cf.Flush()
	meta.Write(f.Out)
}

// openAppenderScenario: series s0 has (float) samples at 100 and 200, s1 at 2500; an appender is
// opened and appends a sample of the given kind to the EXISTING series s0 at 2600 (uncommitted);
// DB.Compact cuts block [100,1000) and truncates the head, which removes every in-memory chunk of
// s0; Commit; the sample at 2600 must be returned by a query, before and after a restart.
func openAppenderScenario(out string, k tsdbx.SampleKind, v2 bool) string {
	dir, err := os.MkdirTemp(out, "dbgo")
	if err != nil {
		panic(err)
	}
	defer os.RemoveAll(dir)
	d, err := tsdbx.Open(dir, tsdbx.Options{BlockRange: blockRange, SamplesPerChunk: 1 << 20})
	if err != nil {
		panic(err)
	}
	defer func() { d.Close() }()
	for _, q := range []tsdbx.AppendReq{{Labels: lbl(0), T: 100, V: 1}, {Labels: lbl(0), T: 200, V: 2}, {Labels: lbl(1), T: 2500, V: 3}} {
		if res, err := d.Tx([]tsdbx.AppendReq{q}, true); err != nil || res[0] != tsdbx.OK {
			return fmt.Sprintf("setup append failed: %v %v", res, err)
		}
	}
	otx := d.Begin(v2)
	if err := otx.Append(lbl(0), 2600, 4, k); err != nil {
		return fmt.Sprintf("Append returned %v", err)
	}
	if err := d.Compact(); err != nil {
		return fmt.Sprintf("Compact returned %v", err)
	}
	if len(d.Blocks()) != 1 {
		return fmt.Sprintf("expected one block after the compaction, got %d", len(d.Blocks()))
	}
	if err := otx.Commit(); err != nil {
		return fmt.Sprintf("Commit returned %v", err)
	}
	check := func(when string) string {
		got, err := d.SampleTimes(math.MinInt64, math.MaxInt64, tsdbx.MatchEq("a", "s0"))
		if err != nil {
			return fmt.Sprintf("query %s: %v", when, err)
		}
		ts := got[lblName(0)]
		if len(ts) != 3 || ts[0] != 100 || ts[1] != 200 || ts[2] != 2600 {
			return fmt.Sprintf("%s: series s0 returns timestamps %v, want [100 200 2600] (the sample committed after the compaction is lost)", when, ts)
		}
		return ""
	}
	if w := check("after Commit"); w != "" {
		return w
	}
	if err := d.Reopen(); err != nil {
		return fmt.Sprintf("Close/Open returned %v", err)
	}
	return check("after restart")
}


// ---------------------------------------------------------------------------------------------
// Mixed sample kinds.  One case = one history of committed transactions (Appender and AppenderV2
// alternately) carrying floats, integer / float histograms, integer / float custom-bucket
// histograms and float staleness markers with increasing timestamps, followed by full queries
// (Querier and ChunkQuerier) immediately, after DB.Compact and after Close+Open.  The expected
// answer is the flat specification: exactly the samples whose Append returned nil in committed
// transactions, with kind and value.  A sample is coded as kind*10^6 + id (id = float value or
// histogram Sum; a histogram whose Count is not 1 gets +500000; a staleness marker, stored as float
// or as histogram, is 5*10^6).  The cases carry SSpec steps: Coq's holds judges them, agree does not.

type msmp struct {
	S    int    `json:"s"`
	T    int64  `json:"t"`
	Kind string `json:"kind"`
	V    int64  `json:"v"`
	k    tsdbx.SampleKind
}

type mtx struct {
	V2   bool   `json:"appender_v2"`
	Reqs []msmp `json:"reqs"`
}

type mixedDesc struct {
	Seed   uint64 `json:"seed"`
	Index  int    `json:"index"`
	Corpus string `json:"corpus,omitempty"`
	Series int    `json:"series"`
	OOOWin int64  `json:"ooo_window"`
	Txs    []mtx  `json:"txs"`
	Shape  string `json:"shape"`
}

type mixedOutcome struct {
	term    string
	sig     string
	desc    mixedDesc
	classes map[string]int
	goViol  []string
}

type fixedMix struct {
	name string
	n    int
	win  int64
	txs  []mtx
}

func code(k tsdbx.SampleKind, digest, count float64) int64 {
	if k == tsdbx.KStale {
		return 5000000
	}
	c := int64(k)*1000000 + int64(digest)
	if k != tsdbx.KFloat && count != 1 {
		c += 500000
	}
	return c
}

func fixedMixed() []fixedMix {
	kinds := []tsdbx.SampleKind{tsdbx.KHistogram, tsdbx.KFloatHistogram, tsdbx.KNHCB, tsdbx.KFloatNHCB}
	var out []fixedMix
	for _, v2 := range []bool{false, true} {
		for _, k := range kinds {
			iface := "appender"
			if v2 {
				iface = "appender-v2"
			}
			// a histogram kind opens the batch, a float of the same series follows in the same appender
			out = append(out, fixedMix{fmt.Sprintf("mixed-%s-then-float-same-tx-%s", k, iface), 2, 0, []mtx{
				{V2: v2, Reqs: []msmp{{S: 0, T: 100, k: k, V: 1}, {S: 0, T: 200, k: tsdbx.KFloat, V: 2}, {S: 1, T: 210, k: tsdbx.KFloat, V: 3}, {S: 0, T: 300, k: k, V: 4}}},
				{V2: !v2, Reqs: []msmp{{S: 0, T: 400, k: tsdbx.KFloat, V: 5}, {S: 0, T: 500, k: k, V: 6}, {S: 0, T: 600, k: tsdbx.KStale}, {S: 1, T: 2300, k: k, V: 7}}}}})
		}
	}
	// FINDING (unchanged code): the series' last stored sample is a histogram; one appender appends a
	// float staleness marker and then another sample of the same series; Commit turns the marker into
	// a histogram marker and queues it BEHIND the later sample of the batch, where it is dropped as
	// out of order although Append and Commit returned nil
	out = append(out, fixedMix{"finding-stale-marker-dropped-before-sample-in-same-appender", 1, 0, []mtx{
		{V2: false, Reqs: []msmp{{S: 0, T: 100, k: tsdbx.KHistogram, V: 1}}},
		{V2: false, Reqs: []msmp{{S: 0, T: 300, k: tsdbx.KStale}, {S: 0, T: 400, k: tsdbx.KHistogram, V: 2}}}}})
	return out
}

func runMixed(f gallina.Flags, idx int, fx *fixedMix) mixedOutcome {
	g := gen.Fork(f.Seed, idx)
	n, win := 1+g.Intn(3), gen.Pick(g, []int64{0, 0, 100000})
	var txs []mtx
	if fx != nil {
		n, win, txs = fx.n, fx.win, fx.txs
	} else {
		allKinds := []tsdbx.SampleKind{tsdbx.KFloat, tsdbx.KHistogram, tsdbx.KFloatHistogram, tsdbx.KNHCB, tsdbx.KFloatNHCB, tsdbx.KStale}
		clock := g.PickI64(-1500, 0, 1, 990, 5000)
		val := int64(0)
		ntx := 2 + g.Intn(4)
		for ti := 0; ti < ntx; ti++ {
			tx := mtx{V2: (idx+ti)%2 == 1}
			k := 2 + g.Intn(6)
			staled := map[int]bool{} // series that already got a staleness marker in this transaction
			for i := 0; i < k; i++ {
				s := g.Intn(n)
				if len(tx.Reqs) > 0 && g.Chance(1, 2) { // same series again, usually with another kind
					s = tx.Reqs[len(tx.Reqs)-1].S
				}
				if staled[s] {
					// finding stale-marker-before-sample-in-same-appender (see notes): generated
					// transactions put nothing after a staleness marker of the same series; the
					// reproducer is a fixed case
					continue
				}
				clock += g.PickI64(1, 1, 7, 30, 60)
				val++
				kd := gen.Pick(g, allKinds)
				if kd == tsdbx.KStale {
					staled[s] = true
				}
				tx.Reqs = append(tx.Reqs, msmp{S: s, T: clock, k: kd, V: val})
			}
			if len(tx.Reqs) == 0 {
				continue
			}
			txs = append(txs, tx)
			if g.Chance(1, 3) {
				clock += g.PickI64(400, 1000, 1700)
			}
		}
	}
	o := mixedOutcome{classes: map[string]int{}}
	dir, err := os.MkdirTemp(f.Out, "dbm")
	if err != nil {
		panic(err)
	}
	defer os.RemoveAll(dir)
	d, err := tsdbx.Open(dir, tsdbx.Options{BlockRange: blockRange, OOOWindow: win, SamplesPerChunk: 1 << 20})
	if err != nil {
		panic(err)
	}
	defer func() { d.Close() }()
	names := map[string]int{}
	sel := make([]int, n)
	for i := 0; i < n; i++ {
		names[lblName(i)] = i
		sel[i] = i
	}
	var steps []string
	query := func(chunk bool) {
		var res []tsdbx.TypedSeries
		var err error
		if chunk {
			res, err = d.ChunkQueryTyped(math.MinInt64, math.MaxInt64, tsdbx.MatchAll("a"))
		} else {
			res, err = d.QueryTyped(math.MinInt64, math.MaxInt64, tsdbx.MatchAll("a"))
		}
		if err != nil {
			o.goViol = append(o.goViol, fmt.Sprintf("query returned %v", err))
			return
		}
		var it []string
		for _, sr := range res {
			var pts []string
			for _, x := range sr.Samples {
				pts = append(pts, fmt.Sprintf("(%s, %s)", gallina.Z(x.T), gallina.Z(code(x.Kind, x.Digest, x.Count))))
			}
			it = append(it, fmt.Sprintf("(%s, %s)", gallina.Z(int64(names[sr.Labels])), gallina.List(pts)))
		}
		steps = append(steps, fmt.Sprintf("SQuery %s %s %s %s", gallina.Z(math.MinInt64), gallina.Z(math.MaxInt64), gSel(sel), gallina.List(it)))
		o.classes["mixed-query"]++
	}
	for ti := range txs {
		tx := &txs[ti]
		otx := d.Begin(tx.V2)
		var acks []string
		for i := range tx.Reqs {
			q := &tx.Reqs[i]
			q.Kind = q.k.String()
			err := otx.Append(lbl(q.S), q.T, float64(q.V), q.k)
			o.classes["mixed-append-"+q.Kind]++
			if err != nil {
				o.classes["mixed-append-error"]++
				continue
			}
			acks = append(acks, fmt.Sprintf("(%s, %s)", gallina.Z(int64(q.S)), gSample(q.T, code(q.k, float64(q.V), 1))))
		}
		if err := otx.Commit(); err != nil {
			o.goViol = append(o.goViol, fmt.Sprintf("Commit returned %v", err))
			break
		}
		steps = append(steps, fmt.Sprintf("SSpec (SAck %s)", gallina.List(acks)))
		if fx != nil || g.Chance(1, 2) {
			query(ti%2 == 1)
		}
	}
	query(false)
	query(true)
	if err := d.Compact(); err != nil {
		o.goViol = append(o.goViol, fmt.Sprintf("Compact returned %v", err))
	}
	query(false)
	query(true)
	if err := d.Reopen(); err != nil {
		o.goViol = append(o.goViol, fmt.Sprintf("Close/Open returned %v", err))
	} else {
		query(false)
		query(true)
	}
	u := make([]string, n)
	for i := range u {
		u[i] = gallina.Z(int64(i))
	}
	o.term = fmt.Sprintf("mkCase @ID@ (mkCfg %s %s %s) %s", gallina.Z(blockRange), gallina.Z(win), gallina.List(u), gallina.List(steps))
	o.sig = "mixed;" + strings.Join(steps, ";")
	shape := "mixed-kinds"
	for _, tx := range txs {
		st := map[int]bool{}
		for _, q := range tx.Reqs {
			if st[q.S] {
				shape = "stale-marker-before-sample-in-same-appender"
			}
			if q.k == tsdbx.KStale {
				st[q.S] = true
			}
		}
	}
	o.desc = mixedDesc{Seed: f.Seed, Index: idx, Series: n, OOOWin: win, Txs: txs, Shape: shape}
	if fx != nil {
		o.desc.Corpus = fx.name
	}
	return o
}

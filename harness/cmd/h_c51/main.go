// h_c51: correspondence harness for C51 (query API JSON encodes values losslessly).
// Builds query results (promql.Vector / Matrix / Scalar with float and histogram samples), encodes
// them with the real API codec (v1.JSONCodec.Encode of a v1.Response, i.e. the jsoniter encoders
// registered in web/api/v1/json_codec.go calling util/jsonutil), cuts out the bytes of "result",
// decodes them independently (encoding/json with UseNumber + strconv.ParseFloat) and writes
// input, oracle tables (strconv.AppendFloat, getBoundExponential), bytes and decoded values for Coq.
package main

import (
	"bytes"
	"encoding/json"
	"fmt"
	"math"
	"sort"
	"strconv"
	"strings"

	"github.com/prometheus/prometheus/model/histogram"
	"github.com/prometheus/prometheus/model/labels"
	"github.com/prometheus/prometheus/promql"
	"github.com/prometheus/prometheus/promql/parser"
	v1 "github.com/prometheus/prometheus/web/api/v1"

	"verif/harness/internal/gallina"
	"verif/harness/internal/gen"
)

const (
	apiMinMs = (math.MinInt64/1000 + 62135596801) * 1000
	apiMaxMs = (math.MaxInt64/1000-62135596801)*1000 + 999
)

// bstr prints bytes as a Gallina [bytes] term packed 7 bytes per primitive int (see pk in CorrC51.v).
func bstr(b []byte) string {
	if len(b) == 0 {
		return "([] : bytes)"
	}
	var sb strings.Builder
	sb.WriteString("(pk [")
	for i := 0; i < len(b); i += 7 {
		var w uint64
		for j := i; j < i+7 && j < len(b); j++ {
			w = w<<8 | uint64(b[j])
		}
		if i > 0 {
			sb.WriteString(";")
		}
		sb.WriteString(strconv.FormatUint(w, 10))
	}
	sb.WriteString("]%uint63 ")
	sb.WriteString(strconv.Itoa(len(b)))
	sb.WriteString(")")
	return sb.String()
}

func zu(v uint64) string { return fmt.Sprintf("(zq %d %d)", v>>32, v&0xffffffff) }
func zz(v int64) string {
	if v < 0 {
		u := uint64(-v) // exact also for MinInt64
		return fmt.Sprintf("(zn %d %d)", u>>32, u&0xffffffff)
	}
	return zu(uint64(v))
}
func fbits(f float64) string { return zu(math.Float64bits(f)) }

func sstr(s string) string { return bstr([]byte(s)) }

// ---------------------------------------------------------------- oracle tables per document
type tables struct {
	floats map[uint64]bool
	bounds map[[2]int32]bool
}

func newTables() *tables { return &tables{map[uint64]bool{}, map[[2]int32]bool{}} }
func (t *tables) f(v float64) string {
	t.floats[math.Float64bits(v)] = true
	return fbits(v)
}

func (t *tables) fmtTerm() string {
	keys := make([]uint64, 0, len(t.floats))
	for k := range t.floats {
		keys = append(keys, k)
	}
	sort.Slice(keys, func(i, j int) bool { return keys[i] < keys[j] })
	it := make([]string, len(keys))
	for i, k := range keys {
		f := math.Float64frombits(k)
		it[i] = fmt.Sprintf("(%s, %s, %s)", zu(k),
			bstr(strconv.AppendFloat(nil, f, 'e', -1, 64)), bstr(strconv.AppendFloat(nil, f, 'f', -1, 64)))
	}
	return gallina.List(it)
}

func (t *tables) boundTerm() string {
	keys := make([][2]int32, 0, len(t.bounds))
	for k := range t.bounds {
		keys = append(keys, k)
	}
	sort.Slice(keys, func(i, j int) bool {
		if keys[i][0] != keys[j][0] {
			return keys[i][0] < keys[j][0]
		}
		return keys[i][1] < keys[j][1]
	})
	it := make([]string, len(keys))
	for i, k := range keys {
		b := histogram.VerifGetBoundExponentialC51(k[1], k[0])
		t.floats[math.Float64bits(b)] = true
		t.floats[math.Float64bits(-b)] = true
		it[i] = fmt.Sprintf("(%s, %s, %s)", zz(int64(k[0])), zz(int64(k[1])), fbits(b))
	}
	return gallina.List(it)
}

// ---------------------------------------------------------------- Gallina printers of the input
func spansTerm(ss []histogram.Span) string {
	it := make([]string, len(ss))
	for i, s := range ss {
		it[i] = fmt.Sprintf("mkSpan %s %s", zz(int64(s.Offset)), zz(int64(s.Length)))
	}
	return gallina.List(it)
}

func (t *tables) floatsTerm(fs []float64) string {
	it := make([]string, len(fs))
	for i, f := range fs {
		it[i] = t.f(f)
	}
	return gallina.List(it)
}

func (t *tables) noteBounds(schema int32, ss []histogram.Span) {
	if schema == histogram.CustomBucketsSchema {
		return
	}
	idx := int32(0)
	for i, s := range ss {
		if i == 0 {
			idx = s.Offset
		} else {
			idx += s.Offset
		}
		for j := uint32(0); j < s.Length; j++ {
			t.bounds[[2]int32{schema, idx}] = true
			t.bounds[[2]int32{schema, idx - 1}] = true
			idx++
		}
	}
}

func (t *tables) histTerm(h *histogram.FloatHistogram) string {
	t.noteBounds(h.Schema, h.PositiveSpans)
	t.noteBounds(h.Schema, h.NegativeSpans)
	t.f(-h.ZeroThreshold)
	if h.Schema == histogram.CustomBucketsSchema {
		t.f(math.Inf(1))
		t.f(math.Inf(-1))
		for _, c := range h.CustomValues {
			t.f(-c)
		}
	}
	return fmt.Sprintf("(mkHist %s %s %s %s %s %s %s %s %s %s)", zz(int64(h.Schema)), t.f(h.ZeroThreshold), t.f(h.ZeroCount),
		t.f(h.Count), t.f(h.Sum), spansTerm(h.PositiveSpans), spansTerm(h.NegativeSpans),
		t.floatsTerm(h.PositiveBuckets), t.floatsTerm(h.NegativeBuckets), t.floatsTerm(h.CustomValues))
}

func labelsTerm(l labels.Labels) string {
	var it []string
	l.Range(func(x labels.Label) {
		it = append(it, gallina.Pair(sstr(x.Name), sstr(x.Value)))
	})
	if len(it) == 0 {
		return "([] : labels)"
	}
	return gallina.List(it)
}

func (t *tables) docTerm(v parser.Value) string {
	switch d := v.(type) {
	case promql.Vector:
		it := make([]string, len(d))
		for i, s := range d {
			val := ""
			if s.H == nil {
				val = "(JFloat " + t.f(s.F) + ")"
			} else {
				val = "(JHist " + t.histTerm(s.H) + ")"
			}
			it[i] = fmt.Sprintf("mkSample %s %s %s", labelsTerm(s.Metric), zz(s.T), val)
		}
		return "(DVector " + gallina.List(it) + ")"
	case promql.Matrix:
		it := make([]string, len(d))
		for i, s := range d {
			fl := make([]string, len(s.Floats))
			for j, p := range s.Floats {
				fl[j] = gallina.Pair(zz(p.T), t.f(p.F))
			}
			hl := make([]string, len(s.Histograms))
			for j, p := range s.Histograms {
				hl[j] = gallina.Pair(zz(p.T), t.histTerm(p.H))
			}
			it[i] = fmt.Sprintf("mkSeries %s %s %s", labelsTerm(s.Metric), gallina.List(fl), gallina.List(hl))
		}
		return "(DMatrix " + gallina.List(it) + ")"
	case promql.Scalar:
		t.f(float64(d.T) / 1000) // the model computes these bits itself; the table only provides their formatting
		return fmt.Sprintf("(DScalar %s %s)", zz(d.T), t.f(d.V))
	}
	panic("unknown value type")
}

// ---------------------------------------------------------------- the real encoder
func encode(v parser.Value) (raw []byte, panicked bool, err error) {
	defer func() {
		if r := recover(); r != nil {
			panicked = true
		}
	}()
	resp := &v1.Response{Status: "success", Data: &v1.QueryData{ResultType: v.Type(), Result: v}}
	b, err := v1.JSONCodec{}.Encode(resp)
	if err != nil {
		return nil, false, err
	}
	pre := []byte(`{"status":"success","data":{"resultType":"` + string(v.Type()) + `","result":`)
	suf := []byte(`}}`)
	if !bytes.HasPrefix(b, pre) || !bytes.HasSuffix(b, suf) {
		return nil, false, fmt.Errorf("unexpected response envelope: %s", b)
	}
	return b[len(pre) : len(b)-len(suf)], false, nil
}

// ---------------------------------------------------------------- the independent decoder
type decErr struct{ s string }

func bad(s string) { panic(decErr{s}) }

func pf(t *tables, x any) string {
	s, ok := x.(string)
	if !ok {
		bad("float not a string")
	}
	f, err := strconv.ParseFloat(s, 64)
	if err != nil {
		bad("ParseFloat " + s)
	}
	_ = t
	return fbits(f)
}

func num(x any) string {
	n, ok := x.(json.Number)
	if !ok {
		bad("not a number")
	}
	return sstr(string(n))
}

func decLabels(x any) string {
	m, ok := x.(map[string]any)
	if !ok {
		bad("metric not an object")
	}
	names := make([]string, 0, len(m))
	for k := range m {
		names = append(names, k)
	}
	sort.Strings(names)
	it := make([]string, len(names))
	for i, k := range names {
		v, ok := m[k].(string)
		if !ok {
			bad("label value")
		}
		it[i] = gallina.Pair(sstr(k), sstr(v))
	}
	if len(it) == 0 {
		return "([] : labels)"
	}
	return gallina.List(it)
}

func decHist(t *tables, x any) string {
	m, ok := x.(map[string]any)
	if !ok {
		bad("histogram not an object")
	}
	for k := range m {
		if k != "count" && k != "sum" && k != "buckets" {
			bad("unknown histogram key " + k)
		}
	}
	var bs []string
	if b, ok := m["buckets"]; ok {
		arr, ok := b.([]any)
		if !ok {
			bad("buckets")
		}
		for _, e := range arr {
			q, ok := e.([]any)
			if !ok || len(q) != 4 {
				bad("bucket")
			}
			n, ok := q[0].(json.Number)
			if !ok {
				bad("bucket code")
			}
			code, err := strconv.ParseInt(string(n), 10, 64)
			if err != nil {
				bad("bucket code")
			}
			bs = append(bs, fmt.Sprintf("(%s, %s, %s, %s)", zz(code), pf(t, q[1]), pf(t, q[2]), pf(t, q[3])))
		}
	}
	return fmt.Sprintf("(mkDH %s %s %s)", pf(t, m["count"]), pf(t, m["sum"]), gallina.List(bs))
}

func pair(x any) []any {
	p, ok := x.([]any)
	if !ok || len(p) != 2 {
		bad("not a pair")
	}
	return p
}

func decode(t *tables, raw []byte, typ parser.ValueType) (term string, ok bool) {
	defer func() {
		if r := recover(); r != nil {
			if _, is := r.(decErr); is {
				term, ok = "None", false
				return
			}
			panic(r)
		}
	}()
	dec := json.NewDecoder(bytes.NewReader(raw))
	dec.UseNumber()
	var x any
	if err := dec.Decode(&x); err != nil {
		return "None", false
	}
	if dec.More() {
		return "None", false
	}
	switch typ {
	case parser.ValueTypeScalar:
		p := pair(x)
		return fmt.Sprintf("(Some (DDScalar %s %s))", num(p[0]), pf(t, p[1])), true
	case parser.ValueTypeVector:
		arr, isArr := x.([]any)
		if !isArr {
			bad("vector")
		}
		it := make([]string, len(arr))
		for i, e := range arr {
			m, isObj := e.(map[string]any)
			if !isObj || len(m) != 2 {
				bad("sample")
			}
			if v, has := m["value"]; has {
				p := pair(v)
				it[i] = fmt.Sprintf("mkDS %s %s (DVF %s)", decLabels(m["metric"]), num(p[0]), pf(t, p[1]))
			} else if v, has := m["histogram"]; has {
				p := pair(v)
				it[i] = fmt.Sprintf("mkDS %s %s (DVH %s)", decLabels(m["metric"]), num(p[0]), decHist(t, p[1]))
			} else {
				bad("sample without value")
			}
		}
		return "(Some (DDVector " + gallina.List(it) + "))", true
	case parser.ValueTypeMatrix:
		arr, isArr := x.([]any)
		if !isArr {
			bad("matrix")
		}
		it := make([]string, len(arr))
		for i, e := range arr {
			m, isObj := e.(map[string]any)
			if !isObj {
				bad("series")
			}
			for k := range m {
				if k != "metric" && k != "values" && k != "histograms" {
					bad("unknown series key")
				}
			}
			var fl, hl []string
			if v, has := m["values"]; has {
				a, isA := v.([]any)
				if !isA {
					bad("values")
				}
				for _, q := range a {
					p := pair(q)
					fl = append(fl, gallina.Pair(num(p[0]), pf(t, p[1])))
				}
			}
			if v, has := m["histograms"]; has {
				a, isA := v.([]any)
				if !isA {
					bad("histograms")
				}
				for _, q := range a {
					p := pair(q)
					hl = append(hl, gallina.Pair(num(p[0]), decHist(t, p[1])))
				}
			}
			it[i] = fmt.Sprintf("mkDSer %s %s %s", decLabels(m["metric"]), gallina.List(fl), gallina.List(hl))
		}
		return "(Some (DDMatrix " + gallina.List(it) + "))", true
	}
	return "None", false
}

// ---------------------------------------------------------------- generators
var (
	c1em6 = math.Float64bits(1e-6)
	c1e21 = math.Float64bits(1e21)
)

var boundaryFloats = []float64{
	0, math.Copysign(0, -1), 1, -1, 0.1, 1.234, 1e-6, math.Nextafter(1e-6, 0), math.Nextafter(1e-6, 1), -1e-6,
	-math.Nextafter(1e-6, 0), 1e21, math.Nextafter(1e21, 0), math.Nextafter(1e21, math.Inf(1)), -1e21, -math.Nextafter(1e21, 0),
	1e20, 123456789012345680000, 999999999999999900000, 1e-7, 9.999999999999999e-7, 1.0000000000000002e-6,
	math.NaN(), math.Float64frombits(0xFFF8000000000001), math.Float64frombits(0x7FF0000000000001), math.Inf(1), math.Inf(-1),
	math.MaxFloat64, -math.MaxFloat64, math.SmallestNonzeroFloat64, -math.SmallestNonzeroFloat64, 2.2250738585072014e-308,
	2.225073858507201e-308, 1 << 53, 1<<53 + 2, 0.30000000000000004, 5e-324, 1e22, 1e23, 8.41e21, 4.35e-6, 34593.34, 1435781451.781,
}

func genFloat(r *gen.Rand, m *gallina.Meta) float64 {
	switch r.Intn(10) {
	case 0, 1:
		return gen.Pick(r, boundaryFloats)
	case 2: // any bit pattern
		return math.Float64frombits(r.U64())
	case 3: // a few ulps around the format cut-offs
		base := c1em6
		if r.Bool() {
			base = c1e21
		}
		f := math.Float64frombits(uint64(int64(base) + r.Range(-3, 3)))
		if r.Bool() {
			f = -f
		}
		return f
	case 4: // short decimals of any magnitude
		f, _ := strconv.ParseFloat(fmt.Sprintf("%de%d", r.Range(-9999, 9999), r.Range(-30, 30)), 64)
		return f
	case 5: // magnitudes spread over the whole exponent range
		return math.Ldexp(r.Float()+0.5, int(r.Range(-1080, 1023))) * float64(1-2*r.Intn(2))
	case 6:
		return float64(r.Range(-1000, 100000))
	default:
		return float64(r.Range(-100000, 10000000)) / float64(r.PickI64(1, 10, 100, 1000, 3, 7))
	}
}

var boundaryTs = []int64{
	0, 1, -1, 9, 10, 99, 100, 101, 999, 1000, 1001, 1010, 1100, -9, -10, -99, -100, -999, -1000, -1001, -1010, 999999, 1000000,
	1435781451781, 1435781451000, 1435781451001, 1435781451010, 1435781451100, -1435781451781,
	apiMinMs, apiMinMs + 1, apiMaxMs, apiMaxMs - 1, apiMaxMs - 999, math.MaxInt64, math.MaxInt64 - 807, math.MinInt64 + 1, math.MinInt64 + 808,
	1 << 53, 1<<53 + 1, -(1 << 53) - 1, 9007199254741021,
}

func genTs(r *gen.Rand) int64 {
	switch r.Intn(8) {
	case 0, 1:
		return gen.Pick(r, boundaryTs)
	case 2: // any magnitude (random bit length), any sign; never MinInt64
		v := int64(r.U64() >> uint(1+r.Intn(63)))
		if r.Bool() {
			v = -v
		}
		return v
	case 3: // inside the API's range, uniformly
		return apiMinMs + int64(r.U64()%uint64(apiMaxMs/2-apiMinMs/2))*2 + int64(r.Intn(2))
	case 4: // whole seconds and small fractions
		return r.Range(-2000000000, 2000000000)*1000 + r.PickI64(0, 0, 1, 9, 10, 11, 99, 100, 101, 999)
	default: // realistic
		return r.Range(0, 4102444800000)
	}
}

func genScalarTs(r *gen.Rand) int64 {
	switch r.Intn(4) {
	case 0:
		return gen.Pick(r, []int64{0, 1, -1, 999, 1000, 1001, 1435781451781, -1435781451781, 1 << 40, 1<<50 - 1, -(1 << 50) + 1, 999999999999999, 1000000000000001})
	case 1:
		v := int64(r.U64() >> uint(14+r.Intn(50))) // < 2^50
		if r.Bool() {
			v = -v
		}
		return v
	default:
		return r.Range(0, 4102444800000)
	}
}

var labelPool = [][2]string{{"__name__", "up"}, {"job", "prometheus"}, {"instance", "localhost_9090"}, {"le", "0_5"}, {"a", ""}, {"Z9_", "x"}}

func genLabels(r *gen.Rand) labels.Labels {
	var kv []string
	for _, p := range labelPool {
		if r.Chance(1, 3) {
			kv = append(kv, p[0], p[1])
		}
	}
	return labels.FromStrings(kv...)
}

func genSpans(r *gen.Rand, first int32, maxIdx int32) ([]histogram.Span, int) {
	var ss []histogram.Span
	n := r.Intn(4)
	total := 0
	idx := first
	for i := 0; i < n; i++ {
		off := int32(r.Intn(4))
		if i == 0 {
			off = first
		}
		ln := uint32(r.Intn(4))
		if r.Chance(1, 10) {
			ln = 0 // pathological empty span
		}
		if i == 0 {
			idx = off
		} else {
			idx += off
		}
		if maxIdx >= 0 && idx+int32(ln) > maxIdx+1 {
			break
		}
		idx += int32(ln)
		ss = append(ss, histogram.Span{Offset: off, Length: ln})
		total += int(ln)
	}
	return ss, total
}

func genCounts(r *gen.Rand, n int) []float64 {
	var bs []float64
	for i := 0; i < n; i++ {
		switch r.Intn(8) {
		case 0, 1:
			bs = append(bs, 0)
		case 2:
			bs = append(bs, float64(r.Range(1, 50))/4)
		case 3:
			bs = append(bs, -float64(r.Range(1, 5)))
		case 4:
			bs = append(bs, gen.Pick(r, []float64{math.Copysign(0, -1), 1e-7, 1e21, math.NaN(), 0.1, math.Inf(1)}))
		default:
			bs = append(bs, float64(r.Range(1, 1000)))
		}
	}
	if bs == nil {
		bs = []float64{}
	}
	return bs
}

func genHist(r *gen.Rand, m *gallina.Meta) *histogram.FloatHistogram {
	h := &histogram.FloatHistogram{Count: genFloat(r, m), Sum: genFloat(r, m)}
	if r.Chance(1, 5) {
		m.Hit("hist-custom")
		h.Schema = histogram.CustomBucketsSchema
		n := r.Intn(5)
		v := float64(r.Range(-5, 5)) / 4
		for i := 0; i < n; i++ {
			h.CustomValues = append(h.CustomValues, v)
			v += float64(r.Range(1, 40)) / 8
		}
		var tot int
		h.PositiveSpans, tot = genSpans(r, int32(r.Intn(2)), int32(n))
		h.PositiveBuckets = genCounts(r, tot)
		return h
	}
	m.Hit("hist-exponential")
	h.Schema = int32(r.Range(-4, 8))
	switch r.Intn(5) {
	case 0:
	case 1:
		h.ZeroThreshold = 2.938735877055719e-39
	case 2:
		h.ZeroThreshold = gen.Pick(r, []float64{0.5, 0.75, 1, 1.5, 0.001, 3})
	default:
		h.ZeroThreshold = 0.001
	}
	if r.Chance(2, 3) {
		h.ZeroCount = float64(r.Range(1, 20))
	}
	var tot int
	lo := int32(r.Range(-6, 6))
	if r.Chance(1, 12) { // extreme indices: last regular bucket / overflow bucket / tiny bounds
		switch {
		case h.Schema >= 0:
			lo = int32(1024<<uint(h.Schema)) - int32(r.Intn(3))
		default:
			lo = int32(1024>>uint(-h.Schema)) - int32(r.Intn(3))
		}
		if r.Bool() {
			lo = -lo
		}
	}
	h.PositiveSpans, tot = genSpans(r, lo, -1)
	h.PositiveBuckets = genCounts(r, tot)
	if r.Chance(2, 3) {
		h.NegativeSpans, tot = genSpans(r, int32(r.Range(-6, 6)), -1)
		h.NegativeBuckets = genCounts(r, tot)
	}
	return h
}

func genValue(r *gen.Rand, m *gallina.Meta) parser.Value {
	switch r.Intn(7) {
	case 0:
		return promql.Scalar{T: genScalarTs(r), V: genFloat(r, m)}
	case 1, 2:
		var mat promql.Matrix
		for i, n := 0, r.Intn(3); i < n; i++ {
			s := promql.Series{Metric: genLabels(r)}
			for j, k := 0, r.Intn(4); j < k; j++ {
				s.Floats = append(s.Floats, promql.FPoint{T: genTs(r), F: genFloat(r, m)})
			}
			for j, k := 0, r.Intn(3)/2+r.Intn(2); j < k; j++ {
				s.Histograms = append(s.Histograms, promql.HPoint{T: genTs(r), H: genHist(r, m)})
			}
			mat = append(mat, s)
		}
		if mat == nil {
			mat = promql.Matrix{}
		}
		return mat
	default:
		vec := promql.Vector{}
		for i, n := 0, r.Intn(4); i < n; i++ {
			s := promql.Sample{Metric: genLabels(r), T: genTs(r)}
			if r.Chance(2, 5) {
				s.H = genHist(r, m)
			} else {
				s.F = genFloat(r, m)
			}
			vec = append(vec, s)
		}
		return vec
	}
}

// ---------------------------------------------------------------- classification
type stats struct {
	samples int
	shape   string
}

func classifyTs(t int64, m *gallina.Meta) {
	switch {
	case t == math.MinInt64:
		m.Hit("ts-minint64")
	case t < apiMinMs || t > apiMaxMs:
		m.Hit("ts-outside-api-range")
	case t < 0:
		m.Hit("ts-negative")
	default:
		m.Hit("ts-nonnegative")
	}
	a := t % 1000
	if a < 0 {
		a = -a
	}
	switch {
	case a == 0:
		m.Hit("ts-frac-0")
	case a < 10:
		m.Hit("ts-frac-1digit")
	case a < 100:
		m.Hit("ts-frac-2digit")
	default:
		m.Hit("ts-frac-3digit")
	}
}

func classifyFloat(f float64, m *gallina.Meta) {
	a := math.Abs(f)
	switch {
	case math.IsNaN(f):
		m.Hit("float-nan")
	case math.IsInf(f, 0):
		m.Hit("float-inf")
	case a == 0:
		m.Hit("float-zero")
	case a < 1e-6:
		m.Hit("float-fmt-e-small")
	case a >= 1e21:
		m.Hit("float-fmt-e-large")
	default:
		m.Hit("float-fmt-f")
	}
	b := math.Float64bits(a)
	if d := int64(b) - int64(c1em6); d >= -3 && d <= 3 {
		m.Hit("float-at-cutoff-1e-6")
	}
	if d := int64(b) - int64(c1e21); d >= -3 && d <= 3 {
		m.Hit("float-at-cutoff-1e21")
	}
}

func classifyHist(h *histogram.FloatHistogram, m *gallina.Meta, st *stats) {
	classifyFloat(h.Count, m)
	classifyFloat(h.Sum, m)
	if !(h.ZeroCount >= 0) {
		st.shape = "hist-zero-bucket-nonpositive-count"
		m.Hit("hist-zero-count-negative-or-nan")
	}
	if h.ZeroCount > 0 {
		m.Hit("hist-zero-bucket")
	}
	if len(h.NegativeBuckets) > 0 {
		m.Hit("hist-negative-buckets")
	}
	empties, nonempty := 0, 0
	for _, b := range append(append([]float64{}, h.PositiveBuckets...), h.NegativeBuckets...) {
		if b == 0 {
			empties++
		} else {
			nonempty++
		}
	}
	if empties > 0 {
		m.Hit("hist-empty-buckets-skipped")
	}
	if nonempty == 0 && !(h.ZeroCount > 0) {
		m.Hit("hist-no-buckets-member")
	}
	func() {
		defer func() { _ = recover() }() // invalid histograms may make the iterator panic
		it := h.AllBucketIterator()
		for it.Next() {
			b := it.At()
			if b.Count != 0 && h.ZeroThreshold != 0 && !(b.LowerInclusive && b.UpperInclusive) && (b.Upper == -h.ZeroThreshold || b.Lower == h.ZeroThreshold) {
				m.Hit("hist-bucket-touching-zero-threshold")
			}
			if math.IsInf(b.Upper, 0) || b.Upper == math.MaxFloat64 || math.IsInf(b.Lower, 0) {
				m.Hit("hist-extreme-bound")
			}
		}
	}()
}

func classify(v parser.Value, m *gallina.Meta) stats {
	st := stats{shape: "ok"}
	switch d := v.(type) {
	case promql.Vector:
		m.Hit("doc-vector")
		for _, s := range d {
			st.samples++
			classifyTs(s.T, m)
			if s.H != nil {
				classifyHist(s.H, m, &st)
			} else {
				classifyFloat(s.F, m)
			}
		}
	case promql.Matrix:
		m.Hit("doc-matrix")
		for _, s := range d {
			for _, p := range s.Floats {
				st.samples++
				classifyTs(p.T, m)
				classifyFloat(p.F, m)
			}
			for _, p := range s.Histograms {
				st.samples++
				classifyTs(p.T, m)
				classifyHist(p.H, m, &st)
			}
		}
	case promql.Scalar:
		m.Hit("doc-scalar")
		st.samples++
		classifyFloat(d.V, m)
		a := d.T
		if a < 0 {
			a = -a
		}
		if a >= 1<<50 {
			st.shape = "scalar-ts-float64-precision"
			m.Hit("scalar-ts-beyond-2^50")
		}
	}
	return st
}

type desc struct {
	Type   string `json:"type"`
	Value  string `json:"value"`
	JSON   string `json:"json"`
	Shape  string `json:"shape"`
	Corpus string `json:"corpus,omitempty"`
	Replay string `json:"replay,omitempty"`
}

func describe(v parser.Value) string {
	var sb strings.Builder
	switch d := v.(type) {
	case promql.Vector:
		for _, s := range d {
			if s.H != nil {
				fmt.Fprintf(&sb, "%s T=%d H=%#v; ", s.Metric.String(), s.T, *s.H)
			} else {
				fmt.Fprintf(&sb, "%s T=%d F=%s(bits %#x); ", s.Metric.String(), s.T, strconv.FormatFloat(s.F, 'g', -1, 64), math.Float64bits(s.F))
			}
		}
	case promql.Matrix:
		for _, s := range d {
			fmt.Fprintf(&sb, "%s floats[", s.Metric.String())
			for _, p := range s.Floats {
				fmt.Fprintf(&sb, "T=%d F=%s(bits %#x) ", p.T, strconv.FormatFloat(p.F, 'g', -1, 64), math.Float64bits(p.F))
			}
			sb.WriteString("] hists[")
			for _, p := range s.Histograms {
				fmt.Fprintf(&sb, "T=%d H=%#v ", p.T, *p.H)
			}
			sb.WriteString("]; ")
		}
	case promql.Scalar:
		fmt.Fprintf(&sb, "T=%d V=%s(bits %#x)", d.T, strconv.FormatFloat(d.V, 'g', -1, 64), math.Float64bits(d.V))
	}
	s := sb.String()
	if len(s) > 1500 {
		s = s[:1500] + "..."
	}
	return s
}

func main() {
	f := gallina.ParseFlags()
	meta := gallina.NewMeta("C51", f.Seed, f.Tier)
	meta.Rule = "corpus + every boundary timestamp/float as a one-sample vector + seeded random vectors, matrices and scalars with float and (valid) histogram samples; evaluations = documents encoded by the real codec; non-trivial = documents with at least one sample, distinct by the encoded bytes"
	cf := &gallina.CaseFile{Dir: f.Out, Type: "case", PerShard: f.Count(80, 500) / f.Scale,
		Preamble: "From Coq Require Import List ZArith NArith Uint63.\nFrom Verif Require Import lib.Int64 model.ApiJson corr.CorrC51.\nImport ListNotations.\nOpen Scope Z_scope.\n",
		Footer:   gallina.StdFooter}
	id := 0
	seen := map[string]bool{}
	emit := func(v parser.Value, corpus, replay string, forceShape string) {
		t := newTables()
		st := classify(v, meta)
		docT := t.docTerm(v)
		raw, panicked, err := encode(v)
		if err != nil {
			panic(err)
		}
		rawT, decT := "None", "None"
		if !panicked {
			rawT = gallina.Some(bstr(raw))
			var ok bool
			decT, ok = decode(t, raw, v.Type())
			if !ok {
				meta.Hit("undecodable-output")
			}
		} else {
			meta.Hit("encoder-panicked")
		}
		ebT := t.boundTerm() // adds the bounds' own formatting to the float table
		fmT := t.fmtTerm()
		cf.Add(fmt.Sprintf("mkCase %s %s\n %s\n %s\n %s\n %s", zz(int64(id)), docT, fmT, ebT, rawT, decT))
		shape := st.shape
		if forceShape != "" {
			shape = forceShape
		}
		meta.Case(id, desc{Type: string(v.Type()), Value: describe(v), JSON: string(raw), Shape: shape, Corpus: corpus, Replay: replay})
		meta.Evaluations++
		if st.samples > 0 && !seen[string(raw)] {
			seen[string(raw)] = true
			meta.Nontrivial++
		}
		id++
	}
	one := func(t int64, fl float64) promql.Vector {
		return promql.Vector{{Metric: labels.FromStrings("__name__", "up"), T: t, F: fl}}
	}

	// corpus: fixed reproducers first
	emit(one(1435781451781, 1), "doc-example", "", "")
	emit(promql.Vector{{Metric: labels.FromStrings("__name__", "h"), T: 1435781451781, H: &histogram.FloatHistogram{
		Schema: 1, ZeroThreshold: 0.25, ZeroCount: 3, Count: 42, Sum: 34593.34,
		PositiveSpans: []histogram.Span{{Offset: -2, Length: 2}, {Offset: 2, Length: 1}}, PositiveBuckets: []float64{12, 21, 6}}}}, "marshal.go-doc-histogram", "", "")
	emit(one(math.MinInt64, 1), "minint64-timestamp-outside-api-range", "", "")
	emit(promql.Scalar{T: 9007199254741021, V: 1}, "scalar-timestamp-loses-ms", "", "")
	emit(promql.Scalar{T: 9007199254741020, V: 1}, "scalar-timestamp-same-bytes-as-previous", "", "")
	emit(promql.Vector{{Metric: labels.EmptyLabels(), T: 1000, H: &histogram.FloatHistogram{
		Schema: 0, ZeroThreshold: 0.001, ZeroCount: -3, Count: -1, Sum: 2,
		PositiveSpans: []histogram.Span{{Offset: 0, Length: 1}}, PositiveBuckets: []float64{2}}}}, "negative-zero-bucket-dropped", "", "")
	emit(promql.Vector{{Metric: labels.EmptyLabels(), T: 1000, H: &histogram.FloatHistogram{
		Schema: histogram.CustomBucketsSchema, ZeroCount: 1, Count: 1, CustomValues: []float64{1, 2},
		PositiveSpans: []histogram.Span{{Offset: 0, Length: 1}}, PositiveBuckets: []float64{1}}}}, "invalid-custom-with-zero-count-panics", "", "")
	emit(promql.Vector{}, "empty-vector", "", "")
	emit(promql.Matrix{}, "empty-matrix", "", "")
	emit(promql.Matrix{{Metric: labels.EmptyLabels()}}, "series-without-points", "", "")

	// boundary stream
	for _, t := range boundaryTs {
		emit(one(t, 1), "", fmt.Sprintf("boundary ts %d", t), "")
	}
	for _, fl := range boundaryFloats {
		emit(one(1000, fl), "", fmt.Sprintf("boundary float bits %#x", math.Float64bits(fl)), "")
		emit(promql.Scalar{T: 1001, V: fl}, "", fmt.Sprintf("boundary scalar float bits %#x", math.Float64bits(fl)), "")
	}

	// seeded random stream
	n := f.Count(500, 12000)
	for i := 0; i < n; i++ {
		r := gen.Fork(f.Seed, i)
		emit(genValue(r, meta), "", fmt.Sprintf("seed %d index %d", f.Seed, i), "")
	}
	cf.Flush()
	meta.Write(f.Out)
}

// run.go: drives a real tsdb.DB head through Appender / AppenderV2 and records what it did.
package main

import (
	"context"
	"errors"
	"fmt"
	"math"
	"os"
	"sort"

	"github.com/prometheus/prometheus/model/histogram"
	"github.com/prometheus/prometheus/model/labels"
	"github.com/prometheus/prometheus/model/value"
	"github.com/prometheus/prometheus/storage"
	"github.com/prometheus/prometheus/tsdb"
	"github.com/prometheus/prometheus/tsdb/chunkenc"
	"github.com/prometheus/prometheus/tsdb/chunks"
)

// Val is a sample value: Kind 0 float (Bits), 1 integer histogram (ID), 2 float histogram (ID).
// Histogram ID 0 is the staleness-marker histogram {Sum: StaleNaN}; ID < 0 is a histogram with custom buckets (NHCB).
type Val struct {
	Kind int    `json:"k"`
	Bits uint64 `json:"b,omitempty"`
	ID   int64  `json:"id,omitempty"`
}

type Cfg struct {
	ChunkRange int64 `json:"chunk_range"`
	OOOWin     int64 `json:"ooo_window"`
	OOOCap     int64 `json:"ooo_cap"`
}

// Op kinds.
const (
	OpNew      = "new"      // create appender A (V2?)
	OpSetOpt   = "setopt"   // v1 SetOptions(DiscardOutOfOrder=Flag) on appender A
	OpApp      = "app"      // append (Sid,T,V) through appender A; Flag = AOptions.RejectOutOfOrder (v2)
	OpCommit   = "commit"   // Commit appender A, then query
	OpRollback = "rollback" // Rollback appender A, then query
	OpMinValid = "minvalid" // store head.minValidTime = T (what truncation / Init do)
)

type Op struct {
	Op   string `json:"op"`
	A    int    `json:"a,omitempty"`
	V2   bool   `json:"v2,omitempty"`
	Flag bool   `json:"flag,omitempty"`
	Sid  int    `json:"sid,omitempty"`
	T    int64  `json:"t,omitempty"`
	V    *Val   `json:"v,omitempty"`
}

type Sample struct {
	T int64
	V Val
}

type SeriesObs struct {
	Sid     int
	Samples []Sample
}

// Snap is the window snapshot of an appender (absent while an init appender is not initialised).
type Snap struct {
	OK                         bool
	MinValid, HeadMaxt, OOOWin int64
}

// Obs is what the implementation did for one op.
type Obs struct {
	Err   int  // error enum of Append / Commit / Rollback
	Snap  Snap // after new / app: the appender's window snapshot
	Query []SeriesObs
	HasQ  bool
}

const (
	EOK = iota
	EOOB
	EOOO
	ETooOld
	EDup
	EOther
)

func errEnum(err error) int {
	switch {
	case err == nil:
		return EOK
	case errors.Is(err, storage.ErrOutOfBounds):
		return EOOB
	case errors.Is(err, storage.ErrOutOfOrderSample):
		return EOOO
	case errors.Is(err, storage.ErrTooOldSample):
		return ETooOld
	case errors.Is(err, storage.ErrDuplicateSampleForTimestamp):
		return EDup
	}
	return EOther
}

func mkHist(id int64) *histogram.Histogram {
	if id == 0 {
		return &histogram.Histogram{Sum: math.Float64frombits(value.StaleNaN)}
	}
	if id < 0 { // custom buckets (NHCB)
		return &histogram.Histogram{Schema: histogram.CustomBucketsSchema, Count: uint64(-id), Sum: float64(-id),
			PositiveSpans: []histogram.Span{{Offset: 0, Length: 1}}, PositiveBuckets: []int64{-id}, CustomValues: []float64{1}}
	}
	return &histogram.Histogram{Count: uint64(id), ZeroCount: uint64(id), Sum: float64(id), ZeroThreshold: 0.001}
}

func mkFHist(id int64) *histogram.FloatHistogram {
	if id == 0 {
		return &histogram.FloatHistogram{Sum: math.Float64frombits(value.StaleNaN)}
	}
	if id < 0 { // custom buckets (NHCB)
		return &histogram.FloatHistogram{Schema: histogram.CustomBucketsSchema, Count: float64(-id), Sum: float64(-id),
			PositiveSpans: []histogram.Span{{Offset: 0, Length: 1}}, PositiveBuckets: []float64{float64(-id)}, CustomValues: []float64{1}}
	}
	return &histogram.FloatHistogram{Count: float64(id), ZeroCount: float64(id), Sum: float64(id), ZeroThreshold: 0.001}
}

func lset(sid int) labels.Labels {
	return labels.FromStrings("__name__", "m", "sid", fmt.Sprint(sid))
}

type anyApp struct {
	v1 storage.Appender
	v2 storage.AppenderV2
}

func (a anyApp) raw() any {
	if a.v1 != nil {
		return a.v1
	}
	return a.v2
}

func snapOf(a anyApp) Snap {
	mv, hm, ow, ok := tsdb.VerifC02Window(a.raw())
	if !ok {
		return Snap{}
	}
	return Snap{true, mv, hm, ow}
}

func query(db *tsdb.DB) ([]SeriesObs, error) {
	q, err := db.Querier(math.MinInt64, math.MaxInt64)
	if err != nil {
		return nil, err
	}
	defer q.Close()
	ss := q.Select(context.Background(), true, nil, labels.MustNewMatcher(labels.MatchEqual, "__name__", "m"))
	var out []SeriesObs
	var it chunkenc.Iterator
	for ss.Next() {
		s := ss.At()
		var sid int
		fmt.Sscan(s.Labels().Get("sid"), &sid)
		so := SeriesObs{Sid: sid}
		it = s.Iterator(it)
		for vt := it.Next(); vt != chunkenc.ValNone; vt = it.Next() {
			switch vt {
			case chunkenc.ValFloat:
				t, v := it.At()
				so.Samples = append(so.Samples, Sample{t, Val{Kind: 0, Bits: math.Float64bits(v)}})
			case chunkenc.ValHistogram:
				t, h := it.AtHistogram(nil)
				id := int64(h.Count)
				if h.UsesCustomBuckets() {
					id = -id
				}
				if value.IsStaleNaN(h.Sum) {
					id = 0
				}
				so.Samples = append(so.Samples, Sample{t, Val{Kind: 1, ID: id}})
			case chunkenc.ValFloatHistogram:
				t, h := it.AtFloatHistogram(nil)
				id := int64(h.Count)
				if h.UsesCustomBuckets() {
					id = -id
				}
				if value.IsStaleNaN(h.Sum) {
					id = 0
				}
				so.Samples = append(so.Samples, Sample{t, Val{Kind: 2, ID: id}})
			}
		}
		if it.Err() != nil {
			return nil, it.Err()
		}
		if len(so.Samples) > 0 {
			out = append(out, so)
		}
	}
	if ss.Err() != nil {
		return nil, ss.Err()
	}
	sort.Slice(out, func(i, j int) bool { return out[i].Sid < out[j].Sid })
	return out, nil
}

// runner drives one fresh DB op by op (generators may look at earlier observations).
type runner struct {
	dir  string
	db   *tsdb.DB
	apps map[int]anyApp
	Ops  []Op
	Obs  []Obs
}

func newRunner(dir string, cfg Cfg) (*runner, error) {
	d, err := os.MkdirTemp(dir, "db")
	if err != nil {
		return nil, err
	}
	o := tsdb.DefaultOptions()
	o.MinBlockDuration = cfg.ChunkRange
	o.MaxBlockDuration = cfg.ChunkRange
	o.OutOfOrderTimeWindow = cfg.OOOWin
	o.OutOfOrderCapMax = cfg.OOOCap
	o.StripeSize = 16
	o.NoLockfile = true
	o.HeadChunksWriteBufferSize = chunks.MinWriteBufferSize
	o.RetentionDuration = 0
	db, err := tsdb.Open(d, nil, nil, o, nil)
	if err != nil {
		os.RemoveAll(d)
		return nil, err
	}
	db.DisableCompactions()
	return &runner{dir: d, db: db, apps: map[int]anyApp{}}, nil
}

func (r *runner) Close() {
	// close whatever is still open so that db.Close does not hang
	for _, a := range r.apps {
		if a.v1 != nil {
			_ = a.v1.Rollback()
		} else {
			_ = a.v2.Rollback()
		}
	}
	r.db.Close()
	os.RemoveAll(r.dir)
}

// Do applies one op to the real DB and records the observation.
func (r *runner) Do(op Op) Obs {
	db, apps := r.db, r.apps
	ctx := context.Background()
	var ob Obs
	switch op.Op {
	case OpNew:
		if op.V2 {
			apps[op.A] = anyApp{v2: db.AppenderV2(ctx)}
		} else {
			apps[op.A] = anyApp{v1: db.Appender(ctx)}
		}
		ob.Snap = snapOf(apps[op.A])
	case OpSetOpt:
		if a := apps[op.A]; a.v1 != nil {
			a.v1.SetOptions(&storage.AppendOptions{DiscardOutOfOrder: op.Flag})
		}
	case OpApp:
		a := apps[op.A]
		var e error
		var h *histogram.Histogram
		var fh *histogram.FloatHistogram
		var f float64
		switch op.V.Kind {
		case 0:
			f = math.Float64frombits(op.V.Bits)
		case 1:
			h = mkHist(op.V.ID)
		case 2:
			fh = mkFHist(op.V.ID)
		}
		if a.v1 != nil {
			if op.V.Kind == 0 {
				_, e = a.v1.Append(0, lset(op.Sid), op.T, f)
			} else {
				_, e = a.v1.AppendHistogram(0, lset(op.Sid), op.T, h, fh)
			}
		} else {
			_, e = a.v2.Append(0, lset(op.Sid), 0, op.T, f, h, fh, storage.AOptions{RejectOutOfOrder: op.Flag})
		}
		ob.Err = errEnum(e)
		ob.Snap = snapOf(a)
	case OpCommit, OpRollback:
		a := apps[op.A]
		var e error
		switch {
		case a.v1 != nil && op.Op == OpCommit:
			e = a.v1.Commit()
		case a.v1 != nil:
			e = a.v1.Rollback()
		case op.Op == OpCommit:
			e = a.v2.Commit()
		default:
			e = a.v2.Rollback()
		}
		ob.Err = errEnum(e)
		delete(apps, op.A)
		q, qe := query(db)
		if qe != nil {
			panic(qe)
		}
		ob.Query, ob.HasQ = q, true
	case OpMinValid:
		db.Head().VerifC02SetMinValidTime(op.T)
	}
	r.Ops = append(r.Ops, op)
	r.Obs = append(r.Obs, ob)
	return ob
}

func runCase(dir string, cfg Cfg, ops []Op) ([]Obs, error) {
	r, err := newRunner(dir, cfg)
	if err != nil {
		return nil, err
	}
	defer r.Close()
	for _, op := range ops {
		r.Do(op)
	}
	return r.Obs, nil
}

package main

import (
	"fmt"
	"os"
)

const staleBits = uint64(0x7ff0000000000002)

func fl(x float64) *Val { return &Val{Kind: 0, Bits: f64bits(x)} }
func stale() *Val     { return &Val{Kind: 0, Bits: staleBits} }
func hi(id int64) *Val { return &Val{Kind: 1, ID: id} }
func fh(id int64) *Val { return &Val{Kind: 2, ID: id} }

type scenario struct {
	name string
	cfg  Cfg
	ops  []Op
}

// corpus: fixed reproducers, always first.
func corpus() []scenario {
	return []scenario{
		{"stale-float-then-hist-same-txn", Cfg{1000, 0, 32}, []Op{
			{Op: OpNew, A: 0}, {Op: OpApp, A: 0, Sid: 1, T: 100, V: hi(5)}, {Op: OpCommit, A: 0},
			{Op: OpNew, A: 1}, {Op: OpApp, A: 1, Sid: 1, T: 110, V: stale()}, {Op: OpApp, A: 1, Sid: 1, T: 120, V: hi(6)}, {Op: OpCommit, A: 1},
		}},
		{"stale-float-then-hist-same-txn-ooo", Cfg{1000, 500, 32}, []Op{
			{Op: OpNew, A: 0}, {Op: OpApp, A: 0, Sid: 1, T: 100, V: hi(5)}, {Op: OpCommit, A: 0},
			{Op: OpNew, A: 1, V2: true}, {Op: OpApp, A: 1, Sid: 1, T: 110, V: stale()}, {Op: OpApp, A: 1, Sid: 1, T: 120, V: hi(6)}, {Op: OpCommit, A: 1},
		}},
		{"stale-float-then-float-same-txn", Cfg{1000, 0, 32}, []Op{
			{Op: OpNew, A: 0}, {Op: OpApp, A: 0, Sid: 1, T: 100, V: hi(5)}, {Op: OpCommit, A: 0},
			{Op: OpNew, A: 1}, {Op: OpApp, A: 1, Sid: 1, T: 110, V: stale()}, {Op: OpApp, A: 1, Sid: 1, T: 120, V: fl(6)}, {Op: OpCommit, A: 1},
		}},
		{"stale-float-then-older-hist-same-txn", Cfg{1000, 0, 32}, []Op{
			{Op: OpNew, A: 0}, {Op: OpApp, A: 0, Sid: 1, T: 100, V: hi(5)}, {Op: OpCommit, A: 0},
			{Op: OpNew, A: 1}, {Op: OpApp, A: 1, Sid: 1, T: 110, V: stale()}, {Op: OpApp, A: 1, Sid: 1, T: 105, V: hi(6)}, {Op: OpCommit, A: 1},
		}},
		{"stale-float-then-hist-separate-txns", Cfg{1000, 0, 32}, []Op{
			{Op: OpNew, A: 0}, {Op: OpApp, A: 0, Sid: 1, T: 100, V: hi(5)}, {Op: OpCommit, A: 0},
			{Op: OpNew, A: 1}, {Op: OpApp, A: 1, Sid: 1, T: 110, V: stale()}, {Op: OpCommit, A: 1},
			{Op: OpNew, A: 2}, {Op: OpApp, A: 2, Sid: 1, T: 120, V: hi(6)}, {Op: OpCommit, A: 2},
		}},
		{"stale-float-deferred-hist-from-same-txn", Cfg{1000, 0, 32}, []Op{
			{Op: OpNew, A: 0, V2: true}, {Op: OpApp, A: 0, Sid: 1, T: 100, V: fh(2)}, {Op: OpApp, A: 0, Sid: 1, T: 50, V: fl(1)},
			{Op: OpApp, A: 0, Sid: 1, T: 110, V: stale()}, {Op: OpApp, A: 0, Sid: 1, T: 120, V: fh(3)}, {Op: OpCommit, A: 0},
		}},
		// v2 RejectOutOfOrder must be forwarded when a float staleness marker is converted at append
		// (typesInBatch says float histogram / histogram): below the series max, inside the window
		{"v2-reject-forwarded-stale-to-fhist", Cfg{1000, 500, 32}, []Op{
			{Op: OpNew, A: 0, V2: true}, {Op: OpApp, A: 0, Sid: 1, T: 1000, V: fh(1)}, {Op: OpCommit, A: 0},
			{Op: OpNew, A: 1, V2: true}, {Op: OpApp, A: 1, Flag: true, Sid: 1, T: 1010, V: fh(2)},
			{Op: OpApp, A: 1, Flag: true, Sid: 1, T: 900, V: stale()}, {Op: OpApp, A: 1, Sid: 1, T: 910, V: stale()},
			{Op: OpApp, A: 1, Flag: true, Sid: 1, T: 400, V: stale()}, {Op: OpApp, A: 1, Flag: true, Sid: 1, T: 1020, V: stale()}, {Op: OpCommit, A: 1},
		}},
		{"v2-reject-forwarded-stale-to-hist", Cfg{1000, 500, 32}, []Op{
			{Op: OpNew, A: 0, V2: true}, {Op: OpApp, A: 0, Sid: 1, T: 1000, V: hi(1)}, {Op: OpCommit, A: 0},
			{Op: OpNew, A: 1, V2: true}, {Op: OpApp, A: 1, Flag: true, Sid: 1, T: 1010, V: hi(2)},
			{Op: OpApp, A: 1, Flag: true, Sid: 1, T: 900, V: stale()}, {Op: OpApp, A: 1, Sid: 1, T: 910, V: stale()},
			{Op: OpApp, A: 1, Flag: true, Sid: 1, T: 400, V: stale()}, {Op: OpApp, A: 1, Flag: true, Sid: 1, T: 1020, V: stale()}, {Op: OpCommit, A: 1},
		}},
		// ... and when the marker stays a float at append (typed at commit by the series' last sample)
		{"v2-reject-stale-on-committed-fhist-series", Cfg{1000, 500, 32}, []Op{
			{Op: OpNew, A: 0, V2: true}, {Op: OpApp, A: 0, Sid: 1, T: 1000, V: fh(1)}, {Op: OpApp, A: 0, Sid: 2, T: 1000, V: hi(1)}, {Op: OpCommit, A: 0},
			{Op: OpNew, A: 1, V2: true}, {Op: OpApp, A: 1, Flag: true, Sid: 1, T: 900, V: stale()}, {Op: OpApp, A: 1, Sid: 1, T: 910, V: stale()},
			{Op: OpApp, A: 1, Flag: true, Sid: 2, T: 900, V: stale()}, {Op: OpApp, A: 1, Sid: 2, T: 910, V: stale()},
			{Op: OpApp, A: 1, Flag: true, Sid: 1, T: 1001, V: stale()}, {Op: OpCommit, A: 1},
		}},
		{"v1-discard-not-applied-to-converted-stale", Cfg{1000, 500, 32}, []Op{
			{Op: OpNew, A: 0}, {Op: OpApp, A: 0, Sid: 1, T: 1000, V: fh(1)}, {Op: OpCommit, A: 0},
			{Op: OpNew, A: 1}, {Op: OpSetOpt, A: 1, Flag: true}, {Op: OpApp, A: 1, Sid: 1, T: 1010, V: fh(2)},
			{Op: OpApp, A: 1, Sid: 1, T: 900, V: stale()}, {Op: OpApp, A: 1, Sid: 2, T: 900, V: stale()}, {Op: OpCommit, A: 1},
		}},
		// a custom-buckets float histogram opens the batch, a float of the same series follows
		{"fnhcb-then-float-same-txn", Cfg{1000, 0, 32}, []Op{
			{Op: OpNew, A: 0}, {Op: OpApp, A: 0, Sid: 1, T: 1000, V: fh(-1)}, {Op: OpApp, A: 0, Sid: 1, T: 2000, V: fl(2)}, {Op: OpCommit, A: 0},
			{Op: OpNew, A: 1, V2: true}, {Op: OpApp, A: 1, Sid: 2, T: 2100, V: hi(-1)}, {Op: OpApp, A: 1, Sid: 2, T: 2200, V: fl(2)},
			{Op: OpApp, A: 1, Sid: 2, T: 2300, V: fh(-2)}, {Op: OpApp, A: 1, Sid: 2, T: 2400, V: stale()}, {Op: OpApp, A: 1, Sid: 2, T: 2500, V: fh(3)}, {Op: OpCommit, A: 1},
		}},
		{"clash-inorder-ooo", Cfg{1000, 5000, 32}, []Op{
			{Op: OpNew, A: 0}, {Op: OpApp, A: 0, Sid: 1, T: 100, V: fl(1)}, {Op: OpApp, A: 0, Sid: 2, T: 2000, V: fl(1)}, {Op: OpCommit, A: 0},
			{Op: OpNew, A: 1}, {Op: OpApp, A: 1, Sid: 1, T: 100, V: fl(2)}, {Op: OpApp, A: 1, Sid: 1, T: 100, V: fl(3)}, {Op: OpApp, A: 1, Sid: 1, T: 50, V: fl(3)}, {Op: OpCommit, A: 1},
		}},
		{"init-rollback-window", Cfg{1000, 0, 32}, []Op{
			{Op: OpNew, A: 0}, {Op: OpApp, A: 0, Sid: 1, T: 5000, V: fl(1)}, {Op: OpRollback, A: 0},
			{Op: OpNew, A: 1}, {Op: OpApp, A: 1, Sid: 1, T: 100, V: fl(2)}, {Op: OpApp, A: 1, Sid: 1, T: 4500, V: fl(2)}, {Op: OpCommit, A: 1},
		}},
		{"intra-txn-ooo-and-dup", Cfg{1000, 0, 32}, []Op{
			{Op: OpNew, A: 0, V2: true}, {Op: OpApp, A: 0, Sid: 1, T: 100, V: fl(1)}, {Op: OpApp, A: 0, Sid: 1, T: 90, V: fl(2)}, {Op: OpApp, A: 0, Sid: 1, T: 100, V: fl(3)}, {Op: OpApp, A: 0, Sid: 1, T: 100, V: fl(1)}, {Op: OpApp, A: 0, Sid: 1, T: 101, V: fl(1)}, {Op: OpCommit, A: 0},
		}},
		{"intra-txn-ooo-enabled", Cfg{1000, 300, 2}, []Op{
			{Op: OpNew, A: 0}, {Op: OpApp, A: 0, Sid: 1, T: 1000, V: fl(1)}, {Op: OpApp, A: 0, Sid: 1, T: 900, V: fl(2)}, {Op: OpApp, A: 0, Sid: 1, T: 900, V: fl(3)}, {Op: OpApp, A: 0, Sid: 1, T: 950, V: hi(3)}, {Op: OpApp, A: 0, Sid: 1, T: 940, V: fl(3)}, {Op: OpApp, A: 0, Sid: 1, T: 900, V: fl(4)}, {Op: OpApp, A: 0, Sid: 1, T: 600, V: fl(4)}, {Op: OpCommit, A: 0},
		}},
		{"snapshot-older-than-other-commit", Cfg{1000, 0, 32}, []Op{
			{Op: OpNew, A: 0}, {Op: OpApp, A: 0, Sid: 1, T: 1000, V: fl(1)}, {Op: OpCommit, A: 0},
			{Op: OpNew, A: 1}, {Op: OpNew, A: 2, V2: true}, {Op: OpApp, A: 2, Sid: 2, T: 5000, V: fl(1)}, {Op: OpCommit, A: 2},
			{Op: OpApp, A: 1, Sid: 1, T: 1001, V: fl(2)}, {Op: OpApp, A: 1, Sid: 2, T: 900, V: fl(2)}, {Op: OpApp, A: 1, Sid: 2, T: 5000, V: fl(1)}, {Op: OpCommit, A: 1},
			{Op: OpNew, A: 3}, {Op: OpApp, A: 3, Sid: 1, T: 1002, V: fl(2)}, {Op: OpApp, A: 3, Sid: 1, T: 4500, V: fl(2)}, {Op: OpCommit, A: 3},
		}},
		{"lazy-setoptions-dropped", Cfg{1000, 5000, 32}, []Op{
			{Op: OpNew, A: 0}, {Op: OpSetOpt, A: 0, Flag: true}, {Op: OpApp, A: 0, Sid: 1, T: 1000, V: fl(1)}, {Op: OpApp, A: 0, Sid: 1, T: 900, V: fl(1)}, {Op: OpSetOpt, A: 0, Flag: true}, {Op: OpApp, A: 0, Sid: 1, T: 800, V: fl(1)}, {Op: OpApp, A: 0, Sid: 1, T: 700, V: hi(1)}, {Op: OpCommit, A: 0},
		}},
		{"dup-kinds", Cfg{1000, 0, 32}, []Op{
			{Op: OpNew, A: 0}, {Op: OpApp, A: 0, Sid: 1, T: 100, V: fl(1)}, {Op: OpCommit, A: 0},
			{Op: OpNew, A: 1}, {Op: OpApp, A: 1, Sid: 1, T: 100, V: hi(1)}, {Op: OpApp, A: 1, Sid: 1, T: 100, V: fh(1)}, {Op: OpApp, A: 1, Sid: 1, T: 100, V: fl(1)}, {Op: OpApp, A: 1, Sid: 1, T: 100, V: fl(2)}, {Op: OpApp, A: 1, Sid: 1, T: 200, V: hi(2)}, {Op: OpApp, A: 1, Sid: 1, T: 200, V: fl(2)}, {Op: OpApp, A: 1, Sid: 1, T: 200, V: stale()}, {Op: OpApp, A: 1, Sid: 1, T: 300, V: stale()}, {Op: OpApp, A: 1, Sid: 1, T: 300, V: hi(0)}, {Op: OpCommit, A: 1},
		}},
	}
}

func explore() {
	for _, s := range corpus() {
		obs, err := runCase(os.TempDir(), s.cfg, s.ops)
		fmt.Println("==", s.name, err)
		for i, o := range obs {
			fmt.Printf("  %-9s a=%d sid=%d t=%d v=%v -> err=%d snap=%v", s.ops[i].Op, s.ops[i].A, s.ops[i].Sid, s.ops[i].T, s.ops[i].V, o.Err, o.Snap)
			if o.HasQ {
				fmt.Printf(" Q=%v", o.Query)
			}
			fmt.Println()
		}
	}
}

// h_c02: correspondence harness for C02 (append admission and commit ordering rules).
// Drives a real tsdb.DB head through storage.Appender and storage.AppenderV2 with generated
// transactions and writes the ops and what the implementation did as Gallina terms.
package main

import (
	"fmt"
	"hash/fnv"
	"math"
	"os"
	"strings"
	"sync"

	"verif/harness/internal/gallina"
	"verif/harness/internal/gen"
)

func f64bits(x float64) uint64 { return math.Float64bits(x) }

// ---------------------------------------------------------------- Gallina printing
func gVal(v Val) string {
	switch v.Kind {
	case 0:
		return "(VF " + gallina.ZU(v.Bits) + ")"
	case 1:
		return "(VH " + gallina.Z(v.ID) + ")"
	}
	return "(VFH " + gallina.Z(v.ID) + ")"
}

func gSnap(s Snap) string {
	if !s.OK {
		return "None"
	}
	return fmt.Sprintf("(Some (mkSnap %s %s %s))", gallina.Z(s.MinValid), gallina.Z(s.HeadMaxt), gallina.Z(s.OOOWin))
}

func gOp(o Op) string {
	switch o.Op {
	case OpNew:
		return fmt.Sprintf("ONew %d %s", o.A, gallina.Bool(o.V2))
	case OpSetOpt:
		return fmt.Sprintf("OSetOpt %d %s", o.A, gallina.Bool(o.Flag))
	case OpApp:
		return fmt.Sprintf("OApp %d %s %d %s %s", o.A, gallina.Bool(o.Flag), o.Sid, gallina.Z(o.T), gVal(*o.V))
	case OpCommit:
		return fmt.Sprintf("OCommit %d", o.A)
	case OpRollback:
		return fmt.Sprintf("ORollback %d", o.A)
	}
	return "OMinValid " + gallina.Z(o.T)
}

func gObs(o Op, b Obs, prev *[]SeriesObs) string {
	switch o.Op {
	case OpNew:
		return "BSnap " + gSnap(b.Snap)
	case OpApp:
		return fmt.Sprintf("BApp %d %s", b.Err, gSnap(b.Snap))
	case OpCommit, OpRollback:
		if fmt.Sprint(*prev) == fmt.Sprint(b.Query) {
			return fmt.Sprintf("BEndSame %d", b.Err)
		}
		*prev = b.Query
		ss := make([]string, len(b.Query))
		for i, s := range b.Query {
			it := make([]string, len(s.Samples))
			for j, x := range s.Samples {
				it[j] = "(" + gallina.Z(x.T) + ", " + gVal(x.V)[1:len(gVal(x.V))-1] + ")"
			}
			ss[i] = fmt.Sprintf("(%d, %s)", s.Sid, gallina.List(it))
		}
		return fmt.Sprintf("BEnd %d %s", b.Err, gallina.List(ss))
	}
	return "BNone"
}

// ---------------------------------------------------------------- case description
type desc struct {
	Cfg    Cfg      `json:"cfg"`
	Ops    []Op     `json:"ops"`
	Errs   []int    `json:"errs"`
	Final  string   `json:"final"`
	Shape  string   `json:"shape"`
	Stream string   `json:"stream"`
	Corpus string   `json:"corpus,omitempty"`
	Class  []string `json:"classes"`
}

const (
	shapeStaleDeferred      = "stale-float-deferred-after-histogram"
	shapeStaleDeferredOlder = "stale-float-deferred-before-older-histogram"
)

// shape: a committed appender in which an accepted float staleness marker for a series whose
// newest stored sample is a histogram is followed by another accepted sample of that series
// (the marker is converted at commit and re-queued at the end of the batch's histograms, i.e.
// behind that later sample): "after-histogram" key when the later sample is newer than the
// marker (the marker is then rejected as out-of-order / stored as OOO), "before-older" key when
// it is older or equal (that sample is then stored in order although it was appended after a
// newer one).
func shapeOf(ops []Op, obs []Obs) string {
	type key struct{ a, sid int }
	type marker struct {
		t         int64
		histPrior bool // a histogram sample of the series was accepted earlier in the same appender
	}
	stale := map[key][]marker{} // accepted float staleness markers
	histSeen := map[key]bool{}
	// follow-ups of a marker: 1 = newer sample, 2 = older-or-equal sample; "P" variants: the marker had a prior histogram in the appender
	newer := map[key]bool{}
	older := map[key]bool{}
	newerP := map[key]bool{}
	olderP := map[key]bool{}
	var lastQ []SeriesObs
	for i, o := range ops {
		switch o.Op {
		case OpNew:
			for _, m := range []map[key]bool{newer, older, newerP, olderP, histSeen} {
				for k := range m {
					if k.a == o.A {
						delete(m, k)
					}
				}
			}
			for k := range stale {
				if k.a == o.A {
					delete(stale, k)
				}
			}
		case OpApp:
			if obs[i].Err != EOK {
				continue
			}
			k := key{o.A, o.Sid}
			if o.V.Kind == 0 && o.V.Bits == staleBits {
				stale[k] = append(stale[k], marker{o.T, histSeen[k]})
			} else {
				for _, st := range stale[k] {
					if o.T > st.t {
						newer[k] = true
						newerP[k] = newerP[k] || st.histPrior
					} else {
						older[k] = true
						olderP[k] = olderP[k] || st.histPrior
					}
				}
				if o.V.Kind != 0 {
					histSeen[k] = true
				}
			}
		case OpRollback:
			lastQ = obs[i].Query
		case OpCommit:
			// the marker is only re-queued when the last sample of the series is a histogram when
			// commitFloats reaches it: the newest stored sample is one, or the same appender
			// holds an earlier histogram sample of the series
			res := ""
			storedHist := map[int]bool{}
			for _, s := range lastQ {
				storedHist[s.Sid] = len(s.Samples) > 0 && s.Samples[len(s.Samples)-1].V.Kind != 0
			}
			for sid := 1; sid <= 400; sid++ {
				k := key{o.A, sid}
				if (newer[k] && storedHist[sid]) || newerP[k] {
					return shapeStaleDeferred
				}
				if (older[k] && storedHist[sid]) || olderP[k] {
					res = shapeStaleDeferredOlder
				}
			}
			if res != "" {
				return res
			}
			lastQ = obs[i].Query
		}
	}
	return "regular"
}

func finalStr(obs []Obs) string {
	for i := len(obs) - 1; i >= 0; i-- {
		if obs[i].HasQ {
			var sb strings.Builder
			for _, s := range obs[i].Query {
				fmt.Fprintf(&sb, "%d:", s.Sid)
				for _, x := range s.Samples {
					switch x.V.Kind {
					case 0:
						fmt.Fprintf(&sb, "(%d f%x)", x.T, x.V.Bits)
					case 1:
						fmt.Fprintf(&sb, "(%d h%d)", x.T, x.V.ID)
					default:
						fmt.Fprintf(&sb, "(%d fh%d)", x.T, x.V.ID)
					}
				}
				sb.WriteString(" ")
			}
			return sb.String()
		}
	}
	return ""
}

var errName = []string{"ok", "oob", "ooo", "tooold", "dup", "other"}
var kindName = []string{"float", "hist", "fhist"}

type emitter struct {
	cf   *gallina.CaseFile
	meta *gallina.Meta
	id   int
	seen map[uint64]bool
}

func (e *emitter) emit(cfg Cfg, r *runner, stream, corpus string) {
	ops, obs := r.Ops, r.Obs
	sidsSeen := map[int]bool{}
	var sids []string
	for s := 1; s <= 400; s++ {
		for _, o := range ops {
			if o.Op == OpApp && o.Sid == s && !sidsSeen[s] {
				sidsSeen[s] = true
				sids = append(sids, fmt.Sprint(s))
			}
		}
	}
	gops := make([]string, len(ops))
	gobs := make([]string, len(ops))
	errs := make([]int, 0, len(ops))
	classes := map[string]bool{}
	nontrivial := false
	accepted := map[int][]Op{}
	v2 := map[int]bool{}
	var prevQ []SeriesObs
	for i, o := range ops {
		gops[i] = gOp(o)
		gobs[i] = gObs(o, obs[i], &prevQ)
		switch o.Op {
		case OpNew:
			v2[o.A] = o.V2
			accepted[o.A] = nil
			if !obs[i].Snap.OK {
				classes["lazy-init-appender"] = true
			}
		case OpApp:
			errs = append(errs, obs[i].Err)
			api := "v1"
			if v2[o.A] {
				api = "v2"
			}
			c := fmt.Sprintf("append-%s-%s-%s", api, kindName[o.V.Kind], errName[obs[i].Err])
			classes[c] = true
			if o.V.Kind == 0 && o.V.Bits == staleBits {
				classes["stale-float"] = true
			}
			if obs[i].Err != EOK {
				nontrivial = true
			} else {
				accepted[o.A] = append(accepted[o.A], o)
			}
		case OpRollback:
			classes["rollback"] = true
			if len(accepted[o.A]) > 0 {
				nontrivial = true
			}
		case OpCommit:
			// accepted but not visible afterwards, or visible with another value
			for _, ao := range accepted[o.A] {
				found := false
				for _, s := range obs[i].Query {
					if s.Sid != ao.Sid {
						continue
					}
					for _, x := range s.Samples {
						if x.T == ao.T && x.V == *ao.V {
							found = true
						}
					}
				}
				if !found {
					classes["accepted-not-stored-as-is"] = true
					nontrivial = true
				}
			}
		case OpMinValid:
			classes["minvalid-set"] = true
		case OpSetOpt:
			classes["setoptions"] = true
		}
	}
	if cfg.OOOWin > 0 {
		classes["ooo-enabled"] = true
	} else {
		classes["ooo-disabled"] = true
	}
	hh := fnv.New64a()
	fmt.Fprint(hh, cfg, strings.Join(gops, ";"))
	if !e.seen[hh.Sum64()] {
		e.seen[hh.Sum64()] = true
		if nontrivial {
			e.meta.Nontrivial++
		}
	}
	var cl []string
	for c := range classes {
		e.meta.Hit(c)
		cl = append(cl, c)
	}
	shape := shapeOf(ops, obs)
	e.meta.Hit("shape:" + shape)
	e.meta.Hit("stream:" + stream)
	e.cf.Add(fmt.Sprintf("mkCase %d (mkCfg %s %s %s) %s\n %s\n %s", e.id,
		gallina.Z(cfg.ChunkRange), gallina.Z(cfg.OOOWin), gallina.Z(cfg.OOOCap),
		gallina.List(sids), gallina.List(gops), gallina.List(gobs)))
	e.meta.Case(e.id, desc{Cfg: cfg, Ops: ops, Errs: errs, Final: finalStr(obs), Shape: shape, Stream: stream, Corpus: corpus, Class: cl})
	e.meta.Evaluations += len(ops)
	e.id++
}

// ---------------------------------------------------------------- generators
var floatVals = []uint64{f64bits(1), f64bits(2), f64bits(3), f64bits(0), 0x8000000000000000, 0x7ff8000000000001, staleBits}

func genVal(r *gen.Rand, kind int) Val {
	switch kind {
	case 0:
		if r.Chance(1, 30) {
			return Val{Kind: 0, Bits: staleBits}
		}
		return Val{Kind: 0, Bits: floatVals[r.Intn(len(floatVals)-1)]}
	case 1:
		if r.Chance(1, 10) {
			return Val{Kind: 1, ID: 0}
		}
		if r.Chance(1, 4) {
			return Val{Kind: 1, ID: -r.Range(1, 3)}
		}
		return Val{Kind: 1, ID: r.Range(1, 3)}
	}
	if r.Chance(1, 10) {
		return Val{Kind: 2, ID: 0}
	}
	if r.Chance(1, 4) {
		return Val{Kind: 2, ID: -r.Range(1, 3)}
	}
	return Val{Kind: 2, ID: r.Range(1, 3)}
}

type appState struct {
	id      int
	v2      bool
	snap    Snap
	appends int
	hist    map[int]bool // series that got an accepted histogram sample through this appender
}

// random transactions: 1-3 appenders (interleaved), 1-12 appends each, 1-3 series
func genRandom(dir string, r *gen.Rand, boundary bool) (Cfg, *runner) {
	cfg := Cfg{ChunkRange: r.PickI64(1000, 1000, 2000, 7, 400), OOOWin: r.PickI64(0, 0, 0, 50, 300, 5000), OOOCap: r.PickI64(32, 32, 3, 2, 255)}
	base := r.PickI64(0, 10000, 10000, 100000, -5000)
	if boundary {
		base = r.PickI64(math.MinInt64+3000, math.MaxInt64-20000, -1, math.MinInt64+1, math.MaxInt64-3000)
		if r.Chance(1, 3) {
			cfg.OOOWin = r.PickI64(math.MaxInt64, math.MaxInt64-1, 1<<62)
		}
		if r.Chance(1, 4) {
			cfg.ChunkRange = r.PickI64(math.MaxInt64, 1<<62, 1)
		}
	}
	run, err := newRunner(dir, cfg)
	if err != nil {
		panic(err)
	}
	nSeries := int(r.Range(1, 3))
	homeKind := make([]int, nSeries+1)
	for i := range homeKind {
		homeKind[i] = []int{0, 0, 0, 1, 1, 2}[r.Intn(6)]
	}
	lastT := map[int]int64{}   // newest timestamp tried per series
	lastV := map[int]Val{}     // and its value
	curMax := base             // newest timestamp tried at all
	curMinValid := int64(math.MinInt64)
	var open []*appState
	nApp := int(r.Range(1, 3))
	created := 0
	budget := int(r.Range(1, 12))
	if nApp > 1 {
		budget += int(r.Range(1, 10))
	}
	clampAdd := func(a, b int64) int64 {
		if b > 0 && a > math.MaxInt64-b-1 {
			return math.MaxInt64 - 1
		}
		if b < 0 && a < math.MinInt64-b+1 {
			return math.MinInt64 + 1
		}
		return a + b
	}
	closeOne := func(i int) {
		a := open[i]
		op := OpCommit
		if r.Chance(1, 8) {
			op = OpRollback
		}
		run.Do(Op{Op: op, A: a.id})
		open = append(open[:i], open[i+1:]...)
	}
	for budget > 0 || len(open) > 0 {
		switch {
		case (len(open) == 0 && budget > 0) || (created < nApp && budget > 0 && r.Chance(1, 4)):
			a := &appState{id: created, v2: r.Bool()}
			created++
			ob := run.Do(Op{Op: OpNew, A: a.id, V2: a.v2})
			a.snap = ob.Snap
			open = append(open, a)
			if !a.v2 && r.Chance(1, 4) {
				run.Do(Op{Op: OpSetOpt, A: a.id, Flag: r.Chance(3, 4)})
			}
		case budget == 0 || (r.Chance(1, 7) && open[0].appends > 0):
			closeOne(r.Intn(len(open)))
		case r.Chance(1, 40) && !boundary:
			// raise minValidTime (what a head truncation does)
			nv := clampAdd(curMax, r.Range(-cfg.ChunkRange, 20))
			if nv > curMinValid {
				curMinValid = nv
				run.Do(Op{Op: OpMinValid, T: nv})
			}
		default:
			a := open[r.Intn(len(open))]
			sid := 1 + r.Intn(nSeries)
			kind := homeKind[sid]
			if r.Chance(1, 7) {
				kind = r.Intn(3)
			}
			v := genVal(r, kind)
			// landmarks
			mv, hm, ow := a.snap.MinValid, a.snap.HeadMaxt, a.snap.OOOWin
			if !a.snap.OK {
				mv, hm, ow = clampAdd(curMax, -cfg.ChunkRange/2), curMax, cfg.OOOWin
			}
			lt, has := lastT[sid]
			if !has {
				lt = curMax
			}
			var t int64
			switch c := r.Intn(20); {
			case c < 9:
				t = clampAdd(lt, r.Range(1, 40))
			case c < 11:
				t = lt
				if has && r.Bool() {
					v = lastV[sid]
				}
			case c < 12:
				t = clampAdd(lt, -r.Range(1, 30))
			case c < 14:
				t = clampAdd(mv, r.Range(-1, 1))
			case c < 16:
				if ow > 0 && hm > math.MinInt64+ow {
					t = clampAdd(hm-ow, r.Range(-1, 1))
				} else {
					t = clampAdd(mv, -r.Range(0, 3))
				}
			case c < 17:
				t = clampAdd(hm, r.Range(-1, 1))
			case c < 18:
				t = clampAdd(curMax, r.Range(1, 60))
			case c < 19:
				t = clampAdd(mv, -r.Range(2, 10*cfg.ChunkRange%100000+50))
			default:
				t = clampAdd(mv, r.Range(-60, cfg.ChunkRange%5000+60))
			}
			if t == math.MinInt64 {
				t++
			}
			if t == math.MaxInt64 {
				t--
			}
			if r.Chance(1, 25) { // a staleness marker as a float
				v = Val{Kind: 0, Bits: staleBits}
			}
			flag := a.v2 && r.Chance(1, 5)
			if a.hist[sid] { // the series got a histogram through this appender: markers are converted at append
				if r.Chance(1, 4) {
					v = Val{Kind: 0, Bits: staleBits}
					if ow > 0 && r.Chance(2, 3) && hm > math.MinInt64+ow { // below the series, inside the window
						t = clampAdd(hm-ow, r.Range(0, ow%1000))
					}
				}
				flag = a.v2 && r.Chance(1, 2)
			}
			ob := run.Do(Op{Op: OpApp, A: a.id, Flag: flag, Sid: sid, T: t, V: &v})
			a.snap = ob.Snap
			a.appends++
			budget--
			if ob.Err == EOK && v.Kind != 0 {
				if a.hist == nil {
					a.hist = map[int]bool{}
				}
				a.hist[sid] = true
			}
			if !has || t >= lt {
				lastT[sid], lastV[sid] = t, v
			}
			if t > curMax {
				curMax = t
			}
		}
	}
	return cfg, run
}

// decision table: a prepared head, then every probe through its own appender (rolled back)
func genTable(dir string, lastKind int, headAhead int64, oooWin int64, full bool) (Cfg, *runner) {
	cfg := Cfg{ChunkRange: 1000, OOOWin: oooWin, OOOCap: 32}
	run, err := newRunner(dir, cfg)
	if err != nil {
		panic(err)
	}
	const T0 = 10000
	mk := func(kind int, id int64) *Val {
		if kind == 0 {
			return &Val{Kind: 0, Bits: f64bits(float64(id))}
		}
		return &Val{Kind: kind, ID: id}
	}
	run.Do(Op{Op: OpNew, A: 0})
	run.Do(Op{Op: OpApp, A: 0, Sid: 1, T: T0 - 100, V: mk(lastKind, 1)})
	run.Do(Op{Op: OpApp, A: 0, Sid: 1, T: T0, V: mk(lastKind, 1)})
	if headAhead > 0 {
		run.Do(Op{Op: OpApp, A: 0, Sid: 2, T: T0 + headAhead, V: mk(0, 1)})
	}
	run.Do(Op{Op: OpCommit, A: 0})
	hm := int64(T0 + headAhead)
	mv := hm - 500
	grid := []int64{mv - 1, mv, mv + 1, T0 - 1, T0, T0 + 1, hm - oooWin - 1, hm - oooWin, hm + 1, T0 - 100, T0 - 5000}
	a := 1
	for _, t := range grid {
		for kind := 0; kind < 3; kind++ {
			for _, id := range []int64{1, 2, 0} {
				if id == 0 && !full {
					continue
				}
				v := mk(kind, id)
				if id == 0 && kind == 0 {
					v = &Val{Kind: 0, Bits: staleBits}
				}
				for mode := 0; mode < 4; mode++ {
					if !full && mode%2 == 1 && t != T0-1 && t != hm-oooWin-1 && t != mv-1 {
						continue
					}
					v2 := mode >= 2
					run.Do(Op{Op: OpNew, A: a, V2: v2})
					if mode == 1 {
						run.Do(Op{Op: OpSetOpt, A: a, Flag: true})
					}
					run.Do(Op{Op: OpApp, A: a, Flag: mode == 3, Sid: 1, T: t, V: v})
					run.Do(Op{Op: OpRollback, A: a})
					a++
				}
			}
		}
	}
	// float staleness markers converted at append: the appender first takes a sample of the
	// series' kind above everything (typesInBatch records the histogram type), then the marker
	if lastKind != 0 {
		for _, t := range grid {
			for mode := 0; mode < 4; mode++ {
				v2 := mode >= 2
				run.Do(Op{Op: OpNew, A: a, V2: v2})
				if mode == 1 {
					run.Do(Op{Op: OpSetOpt, A: a, Flag: true})
				}
				run.Do(Op{Op: OpApp, A: a, Flag: mode == 3, Sid: 1, T: hm + 1, V: mk(lastKind, 2)})
				run.Do(Op{Op: OpApp, A: a, Flag: mode == 3, Sid: 1, T: t, V: &Val{Kind: 0, Bits: staleBits}})
				run.Do(Op{Op: OpRollback, A: a})
				a++
			}
		}
	}
	return cfg, run
}

// the six sample kinds of the kind-sequence stream
var seqKinds = []func(id int64) Val{
	func(id int64) Val { return Val{Kind: 0, Bits: f64bits(float64(id))} }, // float
	func(id int64) Val { return Val{Kind: 1, ID: id} },                      // integer histogram
	func(id int64) Val { return Val{Kind: 2, ID: id} },                      // float histogram
	func(id int64) Val { return Val{Kind: 1, ID: -id} },                     // integer NHCB
	func(id int64) Val { return Val{Kind: 2, ID: -id} },                     // float NHCB
	func(id int64) Val { return Val{Kind: 0, Bits: staleBits} },             // float staleness marker
}

// kind sequences: every ordered pair (and the given triples) of sample kinds for one fresh series,
// ascending timestamps, appended through ONE appender and committed once; each sequence uses
// its own series, all in one DB. Every accepted sample must be stored where the rules say.
func genKindSeq(dir string, v2 bool, oooWin int64, seqs [][]int) (Cfg, *runner) {
	cfg := Cfg{ChunkRange: 1000, OOOWin: oooWin, OOOCap: 32}
	run, err := newRunner(dir, cfg)
	if err != nil {
		panic(err)
	}
	t := int64(1000)
	for i, sq := range seqs {
		run.Do(Op{Op: OpNew, A: i, V2: v2})
		for j, k := range sq {
			v := seqKinds[k](int64(j + 1))
			run.Do(Op{Op: OpApp, A: i, Sid: i + 1, T: t, V: &v})
			t += 3
		}
		run.Do(Op{Op: OpCommit, A: i})
	}
	return cfg, run
}

func main() {
	if os.Getenv("C02_EXPLORE") != "" {
		explore()
		return
	}
	f := gallina.ParseFlags()
	meta := gallina.NewMeta("C02", f.Seed, f.Tier)
	meta.Rule = "one case = one fresh tsdb.DB and a sequence of appender operations; evaluations = number of operations; corpus + decision-table stream (prepared head, every probe (t on the grid of window/series edges +-1) x (float, histogram, float histogram) x (equal, different, stale value) x (v1, v1+DiscardOutOfOrder, v2, v2+RejectOutOfOrder) through its own rolled-back appender) + kind-sequence stream (every ordered pair and triples of {float, histogram, float histogram, integer NHCB, float NHCB, float staleness marker} for one series in one transaction, v1 and v2, OOO window 0 and 500) + seeded random interleaved transactions (1-3 appenders, 1-12 appends each, 1-3 series) + boundary stream (timestamps next to MinInt64/MaxInt64, huge windows); non-trivial = a case with at least one rejected append, a rolled-back accepted sample, or an accepted sample that is not stored as appended (dropped, duplicate, converted); distinct by (cfg, ops)"
	cf := &gallina.CaseFile{Dir: f.Out, Type: "case", PerShard: 400,
		Preamble: "From Coq Require Import List ZArith.\nFrom Verif Require Import lib.Int64 model.Appendable corr.CorrC02.\nImport ListNotations.\nOpen Scope Z_scope.\n",
		Footer:   gallina.StdFooter}
	em := &emitter{cf: cf, meta: meta, seen: map[uint64]bool{}}
	tmp, err := os.MkdirTemp(f.Out, "c02tmp")
	if err != nil {
		panic(err)
	}
	defer os.RemoveAll(tmp)

	// corpus
	for _, s := range corpus() {
		run, err := newRunner(tmp, s.cfg)
		if err != nil {
			panic(err)
		}
		for _, o := range s.ops {
			run.Do(o)
		}
		run.Close()
		em.emit(s.cfg, run, "corpus", s.name)
	}
	// decision table
	for lastKind := 0; lastKind < 3; lastKind++ {
		for _, ahead := range []int64{0, 400, 2000} {
			for _, ow := range []int64{0, 300, 2500} {
				full := f.Tier == "thorough"
				if !full && (lastKind*9+int(ahead/400)%3*3+int(ow/300)%3)%9 != int(f.Seed%9) {
					continue
				}
				cfg, run := genTable(tmp, lastKind, ahead, ow, full)
				run.Close()
				em.emit(cfg, run, "table", "")
			}
		}
	}
	// kind sequences
	{
		var pairs, triples [][]int
		for a := 0; a < 6; a++ {
			for b := 0; b < 6; b++ {
				pairs = append(pairs, []int{a, b})
				for c := 0; c < 6; c++ {
					if f.Tier == "thorough" || (a*36+b*6+c)%7 == int(f.Seed%7) {
						triples = append(triples, []int{a, b, c})
					}
				}
			}
		}
		for _, v2 := range []bool{false, true} {
			for _, ow := range []int64{0, 500} {
				cfg, run := genKindSeq(tmp, v2, ow, pairs)
				run.Close()
				em.emit(cfg, run, "kindseq", "pairs")
				cfg, run = genKindSeq(tmp, v2, ow, triples)
				run.Close()
				em.emit(cfg, run, "kindseq", "triples")
			}
		}
	}
	// random + boundary (cases are independent: generated by a worker pool, emitted in order)
	n := f.Count(300, 8000)
	type res struct {
		cfg Cfg
		run *runner
	}
	const chunk = 256
	for lo := 0; lo < n; lo += chunk {
		hi := lo + chunk
		if hi > n {
			hi = n
		}
		out := make([]res, hi-lo)
		var wg sync.WaitGroup
		sem := make(chan struct{}, 8)
		for i := lo; i < hi; i++ {
			wg.Add(1)
			sem <- struct{}{}
			go func(i int) {
				defer wg.Done()
				defer func() { <-sem }()
				cfg, run := genRandom(tmp, gen.Fork(f.Seed, i), i%8 == 7)
				run.Close()
				out[i-lo] = res{cfg, run}
			}(i)
		}
		wg.Wait()
		for i := lo; i < hi; i++ {
			st := "random"
			if i%8 == 7 {
				st = "boundary"
			}
			em.emit(out[i-lo].cfg, out[i-lo].run, st, "")
		}
	}
	cf.Flush()
	meta.Write(f.Out)
}

// h_c42: correspondence harness for C42 (remote read returns the same data as a local query).
//
// Per storage: a real tsdb.DB (small chunks, optionally a persisted block + head, out-of-order
// samples, tombstones) filled with generated float / integer histogram / float histogram /
// mixed series.  Per case: one query (matchers, time range cutting through chunks, frame size,
// sample limit, external labels, sortSeries) served by the real remote.NewReadHandler behind
// httptest and read by the real remote.NewReadClient once with the SAMPLES and once with the
// STREAMED_XOR_CHUNKS response type; the streamed response is additionally read off the wire
// with remote.ChunkedReader.  Recorded next to it: what storage.Querier and
// storage.ChunkQuerier return directly on the same DB for the same range and matchers.
package main

import (
	"bytes"
	"context"
	"errors"
	"fmt"
	"hash/fnv"
	"io"
	"log/slog"
	"math"
	"net/http"
	"net/http/httptest"
	"net/url"
	"os"
	"sort"
	"strings"
	"time"
	"unicode/utf8"

	"github.com/gogo/protobuf/proto"
	"github.com/golang/snappy"
	config_util "github.com/prometheus/common/config"
	"github.com/prometheus/common/model"

	"github.com/prometheus/prometheus/config"
	"github.com/prometheus/prometheus/model/histogram"
	"github.com/prometheus/prometheus/model/labels"
	"github.com/prometheus/prometheus/prompb"
	"github.com/prometheus/prometheus/storage"
	"github.com/prometheus/prometheus/storage/remote"
	"github.com/prometheus/prometheus/tsdb/chunkenc"
	"github.com/prometheus/prometheus/tsdb/chunks"
	"github.com/prometheus/prometheus/util/annotations"

	"verif/harness/internal/gallina"
	"verif/harness/internal/gen"
	"verif/harness/internal/tsdbx"
)

// ---------------------------------------------------------------- observed values

type smp struct {
	T int64
	K int // 0 float, 1 integer histogram, 2 float histogram
	V uint64
}

type ser struct {
	L [][2]string
	S []smp
}

type chk struct {
	Min, Max int64
	Enc, Len int
	S        []smp
}

type cser struct {
	L [][2]string
	C []chk
}

type probeRec struct {
	All  []smp
	Skip int
	T    int64
	Got  []smp
	None bool
}

type obs struct {
	Kind   string // ok | limit | other
	Err    string
	L      []ser
	Seek   []string   // failed Seek probes
	Probes []probeRec // every Seek probe (recorded for the SAMPLES client)
}

func f64(h io.Writer, f float64) { u64(h, math.Float64bits(f)) }
func u64(h io.Writer, v uint64) {
	var b [8]byte
	for i := 0; i < 8; i++ {
		b[i] = byte(v >> (8 * i))
	}
	h.Write(b[:])
}

func spansDigest(h io.Writer, s []histogram.Span) {
	u64(h, uint64(len(s)))
	for _, x := range s {
		u64(h, uint64(int64(x.Offset)))
		u64(h, uint64(x.Length))
	}
}

// digestH: all fields of an integer histogram except the counter-reset hint (only "is gauge").
func digestH(x *histogram.Histogram) uint64 {
	h := fnv.New64a()
	if x.CounterResetHint == histogram.GaugeType {
		u64(h, 1)
	} else {
		u64(h, 0)
	}
	u64(h, uint64(int64(x.Schema)))
	f64(h, x.ZeroThreshold)
	u64(h, x.ZeroCount)
	u64(h, x.Count)
	f64(h, x.Sum)
	spansDigest(h, x.PositiveSpans)
	spansDigest(h, x.NegativeSpans)
	u64(h, uint64(len(x.PositiveBuckets)))
	for _, b := range x.PositiveBuckets {
		u64(h, uint64(b))
	}
	u64(h, uint64(len(x.NegativeBuckets)))
	for _, b := range x.NegativeBuckets {
		u64(h, uint64(b))
	}
	u64(h, uint64(len(x.CustomValues)))
	for _, b := range x.CustomValues {
		f64(h, b)
	}
	return h.Sum64()
}

func digestFH(x *histogram.FloatHistogram) uint64 {
	h := fnv.New64a()
	if x.CounterResetHint == histogram.GaugeType {
		u64(h, 1)
	} else {
		u64(h, 0)
	}
	u64(h, uint64(int64(x.Schema)))
	f64(h, x.ZeroThreshold)
	f64(h, x.ZeroCount)
	f64(h, x.Count)
	f64(h, x.Sum)
	spansDigest(h, x.PositiveSpans)
	spansDigest(h, x.NegativeSpans)
	u64(h, uint64(len(x.PositiveBuckets)))
	for _, b := range x.PositiveBuckets {
		f64(h, b)
	}
	u64(h, uint64(len(x.NegativeBuckets)))
	for _, b := range x.NegativeBuckets {
		f64(h, b)
	}
	u64(h, uint64(len(x.CustomValues)))
	for _, b := range x.CustomValues {
		f64(h, b)
	}
	return h.Sum64()
}

// clientResH / clientResFH: a histogram at a reserved higher resolution (schema 9..52) is
// compared in the form a Prometheus reader has to bring it to: reduced to schema 8
// (histogram.ReduceResolution is the oracle; the digests the model sees are taken after it).
// Everything the remote-read client hands out must already be in that form, so on the client
// side this is the identity; it matters for the direct query on a foreign serving storage.
func clientResH(h *histogram.Histogram) *histogram.Histogram {
	if h.Schema > histogram.ExponentialSchemaMax && h.Schema <= histogram.ExponentialSchemaMaxReserved {
		h = h.Copy()
		if err := h.ReduceResolution(histogram.ExponentialSchemaMax); err != nil {
			panic(err)
		}
	}
	return h
}

func clientResFH(h *histogram.FloatHistogram) *histogram.FloatHistogram {
	if h.Schema > histogram.ExponentialSchemaMax && h.Schema <= histogram.ExponentialSchemaMaxReserved {
		h = h.Copy()
		if err := h.ReduceResolution(histogram.ExponentialSchemaMax); err != nil {
			panic(err)
		}
	}
	return h
}

// drain reads a sample iterator to its end.
func drain(it chunkenc.Iterator) ([]smp, error) {
	var out []smp
	for vt := it.Next(); vt != chunkenc.ValNone; vt = it.Next() {
		switch vt {
		case chunkenc.ValFloat:
			t, v := it.At()
			out = append(out, smp{t, 0, math.Float64bits(v)})
		case chunkenc.ValHistogram:
			t, h := it.AtHistogram(nil)
			out = append(out, smp{t, 1, digestH(clientResH(h))})
		case chunkenc.ValFloatHistogram:
			t, h := it.AtFloatHistogram(nil)
			out = append(out, smp{t, 2, digestFH(clientResFH(h))})
		default:
			return out, fmt.Errorf("value type %v", vt)
		}
	}
	return out, it.Err()
}

func lblPairs(l labels.Labels) [][2]string {
	var out [][2]string
	l.Range(func(x labels.Label) { out = append(out, [2]string{x.Name, x.Value}) })
	return out
}

func pbPairs(l []prompb.Label) [][2]string {
	var out [][2]string
	for _, x := range l {
		out = append(out, [2]string{x.Name, x.Value})
	}
	return out
}

// drainSet reads a whole series set (re-using the sample iterator like the engine does).
func drainSet(ss storage.SeriesSet) ([]ser, error) {
	var out []ser
	var it chunkenc.Iterator
	for ss.Next() {
		s := ss.At()
		it = s.Iterator(it)
		sm, err := drain(it)
		if err != nil {
			return out, err
		}
		out = append(out, ser{lblPairs(s.Labels()), sm})
	}
	return out, ss.Err()
}

func drainChunkSet(ss storage.ChunkSeriesSet) ([]cser, error) {
	var out []cser
	for ss.Next() {
		s := ss.At()
		cs := cser{L: lblPairs(s.Labels())}
		it := s.Iterator(nil)
		for it.Next() {
			m := it.At()
			sm, err := drain(m.Chunk.Iterator(nil))
			if err != nil {
				return out, err
			}
			cs.C = append(cs.C, chk{m.MinTime, m.MaxTime, int(m.Chunk.Encoding()), len(m.Chunk.Bytes()), sm})
		}
		if it.Err() != nil {
			return out, it.Err()
		}
		out = append(out, cs)
	}
	return out, ss.Err()
}

// ---------------------------------------------------------------- Gallina printing

// dict: the strings the generators use, defined once in the preamble of every case file (a
// byte list literal costs Coq far more to parse than an identifier).
var dict = []string{"__name__", "job", "inst", "m0", "m1", "a", "b", "c", "0", "1", "22", "zone", "x", "zz", "aaa", "k", "", "zzz", "2",
	"service.name", "k8s-pod", "région", "my label", "9lives", "😀", "http.requests", "mé tric-1", "0up", "🔥", "é", "k8s.cluster", "dc.région"}

// label names / metric names that are valid only under the UTF-8 naming scheme (not "legacy")
var u8names = []string{"service.name", "k8s-pod", "région", "my label", "9lives", "😀"}
var u8metrics = []string{"http.requests", "mé tric-1", "0up", "🔥"}

func legacyName(s string) bool {
	for i, c := range []byte(s) {
		if !(c == '_' || (c >= 'a' && c <= 'z') || (c >= 'A' && c <= 'Z') || (i > 0 && c >= '0' && c <= '9')) {
			return false
		}
	}
	return s != ""
}

// nameClasses: does the result use non-legacy names, and names/values invalid under both schemes
func nameClasses(l []ser) (u8, bad bool) {
	for _, s := range l {
		for _, p := range s.L {
			v := p[1]
			if p[0] == "__name__" {
				// a metric name may also contain ':' under the legacy scheme
				if !legacyName(strings.ReplaceAll(v, ":", "_")) {
					u8 = true
				}
				if v == "" {
					bad = true
				}
			} else if !legacyName(p[0]) {
				u8 = true
			}
			if p[0] == "" || !utf8.ValidString(p[0]) || !utf8.ValidString(v) {
				bad = true
			}
		}
	}
	return u8, bad
}

func dictPreamble() string {
	var sb strings.Builder
	for i, s := range dict {
		fmt.Fprintf(&sb, "Definition S%d : str := %s.\n", i, gallina.Str(s))
	}
	return sb.String()
}

func gStr(s string) string {
	for i, d := range dict {
		if d == s {
			return fmt.Sprintf("S%d", i)
		}
	}
	return gallina.Str(s)
}

// interner: every distinct label set / sample list / chunk list / series list of a shard is
// defined once before `cases` and referred to by name (the same lists occur up to five times
// per case; Coq's parser is the bottleneck of the evaluation).
type interner struct {
	defs strings.Builder
	tab  map[string]string
	n    int
}

var intern = &interner{tab: map[string]string{}}

func (in *interner) get(typ, term string) string {
	if len(term) < 24 {
		return term
	}
	k := typ + "|" + term
	if id, ok := in.tab[k]; ok {
		return id
	}
	id := fmt.Sprintf("D%d", in.n)
	in.n++
	fmt.Fprintf(&in.defs, "Definition %s : %s := %s.\n", id, typ, term)
	in.tab[k] = id
	return id
}

func (in *interner) reset() {
	in.defs.Reset()
	in.tab = map[string]string{}
}

func gLabels(l [][2]string) string {
	it := make([]string, len(l))
	for i, p := range l {
		it[i] = gallina.Pair(gStr(p[0]), gStr(p[1]))
	}
	if len(it) == 0 {
		return "([] : labels)"
	}
	return intern.get("labels", gallina.List(it))
}

func gSamples(l []smp) string {
	it := make([]string, len(l))
	for i, s := range l {
		it[i] = fmt.Sprintf("mkS %s %s %s", gallina.Z(s.T), [...]string{"KF", "KH", "KFH"}[s.K], gallina.ZU(s.V))
	}
	return intern.get("list sample", gallina.List(it))
}

func gSeries(l []ser) string {
	it := make([]string, len(l))
	for i, s := range l {
		it[i] = fmt.Sprintf("mkSer %s %s", gLabels(s.L), gSamples(s.S))
	}
	return intern.get("list series", gallina.List(it))
}

func gChunks(l []chk) string {
	it := make([]string, len(l))
	for i, c := range l {
		it[i] = fmt.Sprintf("mkC %s %s %d %d %s", gallina.Z(c.Min), gallina.Z(c.Max), c.Enc, c.Len, gSamples(c.S))
	}
	return intern.get("list chunk", gallina.List(it))
}

func gCSeries(l []cser) string {
	it := make([]string, len(l))
	for i, s := range l {
		it[i] = fmt.Sprintf("mkCS %s %s", gLabels(s.L), gChunks(s.C))
	}
	return gallina.List(it)
}

func gFrames(l []cser) string {
	it := make([]string, len(l))
	for i, s := range l {
		it[i] = fmt.Sprintf("mkF %s %s", gLabels(s.L), gChunks(s.C))
	}
	return gallina.List(it)
}

func gProbes(l []probeRec) string {
	it := make([]string, len(l))
	for i, p := range l {
		o := "None"
		if !p.None {
			o = gallina.Some(gSamples(p.Got))
		}
		it[i] = fmt.Sprintf("mkProbe %s %s %s %s", gSamples(p.All), gallina.Nat(p.Skip), gallina.Z(p.T), o)
	}
	return gallina.List(it)
}

func gObs(o obs) string {
	switch o.Kind {
	case "ok":
		return "(ObsOk " + gSeries(o.L) + ")"
	case "limit":
		return "ObsErrLimit"
	case "invalid":
		return "ObsErrInvalid"
	case "skip":
		return "ObsSkip"
	}
	return "ObsErrOther"
}

// ---------------------------------------------------------------- the serving side and the client

type rig struct {
	srv     *httptest.Server
	handler http.Handler
	sampled remote.ReadClient
	chunked remote.ReadClient
}

func newRig() *rig {
	r := &rig{}
	r.srv = httptest.NewServer(http.HandlerFunc(func(w http.ResponseWriter, q *http.Request) { r.handler.ServeHTTP(w, q) }))
	u, err := url.Parse(r.srv.URL)
	if err != nil {
		panic(err)
	}
	mk := func(name string, rt prompb.ReadRequest_ResponseType) remote.ReadClient {
		c, err := remote.NewReadClient(name, &remote.ClientConfig{
			URL:                   &config_util.URL{URL: u},
			Timeout:               model.Duration(60 * time.Second),
			ChunkedReadLimit:      config.DefaultChunkedReadLimit,
			AcceptedResponseTypes: []prompb.ReadRequest_ResponseType{rt},
		})
		if err != nil {
			panic(err)
		}
		return c
	}
	r.sampled = mk("verif-sampled", prompb.ReadRequest_SAMPLES)
	r.chunked = mk("verif-chunked", prompb.ReadRequest_STREAMED_XOR_CHUNKS)
	return r
}

func (r *rig) serve(q storage.SampleAndChunkQueryable, ext labels.Labels, limit, maxBytes int) {
	r.handler = remote.NewReadHandler(slog.New(slog.NewTextHandler(io.Discard, nil)), nil, q, func() config.Config {
		return config.Config{GlobalConfig: config.GlobalConfig{ExternalLabels: ext}}
	}, limit, 4, maxBytes)
}

// seekRun checks chunkenc.Iterator.Seek of a client-side series against the sample list
// obtained with Next alone: a fresh iterator, `skip` calls of Next, then Seek(t) must stand on
// the first sample with timestamp >= t that is not before the current one, and Next must
// continue from there.
// seekRun additionally returns what was observed: the samples from the Seek position on, or
// none = Seek returned ValNone.
func seekRun(s storage.Series, all []smp, skip int, t int64) (msg string, got []smp, none bool) {
	defer func() {
		if r := recover(); r != nil {
			msg = fmt.Sprintf("Seek(%d) after %d Next: panic %v", t, skip, r)
		}
	}()
	it := s.Iterator(nil)
	pos := -1
	for i := 0; i < skip && i < len(all); i++ {
		if it.Next() == chunkenc.ValNone {
			return fmt.Sprintf("Next #%d returned ValNone early", i+1), nil, true
		}
		pos = i
	}
	want := pos
	if want < 0 {
		want = 0
	}
	for want < len(all) && all[want].T < t {
		want++
	}
	vt := it.Seek(t)
	if vt == chunkenc.ValNone {
		if want < len(all) {
			return fmt.Sprintf("Seek(%d) after %d Next: ValNone, want sample at %d (err %v)", t, skip, all[want].T, it.Err()), nil, true
		}
		return "", nil, true
	}
	switch vt {
	case chunkenc.ValFloat:
		ts, v := it.At()
		got = append(got, smp{ts, 0, math.Float64bits(v)})
	case chunkenc.ValHistogram:
		ts, h := it.AtHistogram(nil)
		got = append(got, smp{ts, 1, digestH(h)})
	case chunkenc.ValFloatHistogram:
		ts, h := it.AtFloatHistogram(nil)
		got = append(got, smp{ts, 2, digestFH(h)})
	}
	atT := it.AtT()
	rest, err := drain(it)
	got = append(got, rest...)
	if atT != got[0].T {
		return fmt.Sprintf("Seek(%d): AtT %d differs from At %d", t, atT, got[0].T), got, false
	}
	if err != nil {
		return fmt.Sprintf("Seek(%d) then Next: %v", t, err), got, false
	}
	if want >= len(all) {
		return fmt.Sprintf("Seek(%d) after %d Next: got a sample, want ValNone", t, skip), got, false
	}
	if len(got) != len(all)-want {
		return fmt.Sprintf("Seek(%d) after %d Next: %d samples from %d on, want %d from %d on", t, skip, len(got), got[0].T, len(all)-want, all[want].T), got, false
	}
	for i := range got {
		if got[i] != all[want+i] {
			return fmt.Sprintf("Seek(%d) after %d Next: sample %d is %v, want %v", t, skip, i, got[i], all[want+i]), got, false
		}
	}
	return "", got, false
}

// probes of the current case (set by runCase): random source and the query range
var probeRand *gen.Rand
var probeMint, probeMaxt int64
var fixedProbes [][2]int64 // (skip, t) probes of a corpus case, instead of random ones

func (r *rig) read(c remote.ReadClient, q *prompb.Query, sortSeries bool) obs {
	ss, err := c.Read(context.Background(), q, sortSeries)
	if err != nil {
		if strings.Contains(err.Error(), "exceeded sample limit") {
			return obs{Kind: "limit", Err: err.Error()}
		}
		return obs{Kind: "other", Err: err.Error()}
	}
	return r.readSet(ss)
}

// probeFresh runs each (skip, t) probe on the series of a response of its own: the iterator the
// probe uses is the first one ever taken from that series object.
func (r *rig) probeFresh(c remote.ReadClient, q *prompb.Query, sortSeries bool, o *obs, probes [][2]int64, record bool) {
	if o.Kind != "ok" {
		return
	}
	for _, p := range probes {
		ss, err := c.Read(context.Background(), q, sortSeries)
		if err != nil {
			o.Seek = append(o.Seek, "fresh Read: "+err.Error())
			return
		}
		j := 0
		for ss.Next() {
			if j >= len(o.L) {
				o.Seek = append(o.Seek, "fresh Read: more series than before")
				break
			}
			sm := o.L[j].S
			skip := int(p[0])
			if skip > len(sm) {
				skip = len(sm)
			}
			e, got, none := seekRun(ss.At(), sm, skip, p[1])
			if e != "" {
				o.Seek = append(o.Seek, e)
			}
			if record && (len(o.Probes) < 40 || e != "") {
				o.Probes = append(o.Probes, probeRec{All: sm, Skip: skip, T: p[1], Got: got, None: none})
			}
			j++
		}
		if ss.Err() != nil {
			o.Seek = append(o.Seek, "fresh Read: "+ss.Err().Error())
		}
	}
}

// readSet drains a client-side series set (with Seek probes when probeRand is set).
func (r *rig) readSet(ss storage.SeriesSet) obs {
	var err error
	var l []ser
	var seekErr []string
	var probes []probeRec
	var it chunkenc.Iterator
	for ss.Next() {
		s := ss.At()
		it = s.Iterator(it)
		sm, derr := drain(it)
		if derr != nil {
			err = derr
			break
		}
		l = append(l, ser{lblPairs(s.Labels()), sm})
		if probeRand != nil {
			for k := 0; k < 3; k++ {
				t := probeRand.Range(0, 3000)
				if len(sm) > 0 {
					t = sm[probeRand.Intn(len(sm))].T + probeRand.PickI64(-1, 0, 0, 1)
				}
				if t < probeMint { // Seek below the querier's mint is not what the engine does
					t = probeMint
				}
				skip := 0
				if probeRand.Chance(1, 2) {
					skip = probeRand.Intn(len(sm) + 1)
				}
				if fixedProbes != nil {
					if k >= len(fixedProbes) {
						break
					}
					skip, t = int(fixedProbes[k][0]), fixedProbes[k][1]
				}
				if skip > len(sm) {
					skip = len(sm)
				}
				e, got, none := seekRun(s, sm, skip, t)
				if e != "" {
					seekErr = append(seekErr, e)
				}
				if len(probes) < 4 || e != "" {
					probes = append(probes, probeRec{All: sm, Skip: skip, T: t, Got: got, None: none})
				}
			}
		}
	}
	if err == nil {
		err = ss.Err()
	}
	if err != nil {
		if strings.Contains(err.Error(), "exceeded sample limit") {
			return obs{Kind: "limit", Err: err.Error()}
		}
		if strings.Contains(err.Error(), "invalid label name") || strings.Contains(err.Error(), "invalid label value") || strings.Contains(err.Error(), "invalid metric name") {
			return obs{Kind: "invalid", Err: err.Error()}
		}
		return obs{Kind: "other", Err: err.Error(), L: l}
	}
	if len(seekErr) > 0 || len(probes) > 0 {
		return obs{Kind: "ok", L: l, Seek: seekErr, Probes: probes}
	}
	// a second Next after exhaustion must stay false
	if ss.Next() {
		return obs{Kind: "other", Err: "Next() true after exhaustion", L: l}
	}
	return obs{Kind: "ok", L: l}
}

// rawFrames performs the streamed request by hand and returns the frames on the wire.
func (r *rig) rawFrames(q *prompb.Query) ([]cser, error) {
	req := &prompb.ReadRequest{Queries: []*prompb.Query{q}, AcceptedResponseTypes: []prompb.ReadRequest_ResponseType{prompb.ReadRequest_STREAMED_XOR_CHUNKS}}
	data, err := proto.Marshal(req)
	if err != nil {
		return nil, err
	}
	hr, err := http.NewRequest(http.MethodPost, r.srv.URL, bytes.NewReader(snappy.Encode(nil, data)))
	if err != nil {
		return nil, err
	}
	hr.Header.Set("Content-Type", "application/x-protobuf")
	hr.Header.Add("Content-Encoding", "snappy")
	resp, err := r.srv.Client().Do(hr)
	if err != nil {
		return nil, err
	}
	defer resp.Body.Close()
	if resp.StatusCode != 200 {
		b, _ := io.ReadAll(resp.Body)
		return nil, fmt.Errorf("status %d: %s", resp.StatusCode, b)
	}
	if ct := resp.Header.Get("Content-Type"); !strings.HasPrefix(ct, "application/x-streamed-protobuf") {
		return nil, fmt.Errorf("content type %q", ct)
	}
	cr := remote.NewChunkedReader(resp.Body, config.DefaultChunkedReadLimit, nil)
	var out []cser
	for {
		var m prompb.ChunkedReadResponse
		err := cr.NextProto(&m)
		if errors.Is(err, io.EOF) {
			return out, nil
		}
		if err != nil {
			return out, err
		}
		if len(m.ChunkedSeries) != 1 || m.QueryIndex != 0 {
			return out, fmt.Errorf("frame with %d series, query index %d", len(m.ChunkedSeries), m.QueryIndex)
		}
		f := cser{L: pbPairs(m.ChunkedSeries[0].Labels)}
		for _, c := range m.ChunkedSeries[0].Chunks {
			dc, err := chunkenc.FromData(chunkenc.Encoding(c.Type), c.Data)
			if err != nil {
				return out, err
			}
			sm, err := drain(dc.Iterator(nil))
			if err != nil {
				return out, err
			}
			f.C = append(f.C, chk{c.MinTimeMs, c.MaxTimeMs, int(c.Type), len(c.Data), sm})
		}
		out = append(out, f)
	}
}

// ---------------------------------------------------------------- storage generation

type store struct {
	db    *tsdbx.DB
	qa    storage.SampleAndChunkQueryable // the serving storage: db.DB, or a mockQueryable (db == nil)
	hv    map[int]bool                    // genHist variants of the stored histogram series
	desc  string
	times []int64 // every stored timestamp, sorted
	names []string
	jobs  []string
}

type pend struct {
	l labels.Labels
	t int64
	k int
	i int64
	v float64
}

func genHist(k int, i int64, variant int) (*histogram.Histogram, *histogram.FloatHistogram) {
	h := &histogram.Histogram{
		Count: 12 + uint64(i*9), ZeroCount: 2 + uint64(i), ZeroThreshold: 0.001, Sum: 18.4 * float64(i+1), Schema: 1,
		PositiveSpans:   []histogram.Span{{Offset: 0, Length: 2}, {Offset: 1, Length: 2}},
		PositiveBuckets: []int64{i + 1, 1, -1, 0},
		NegativeSpans:   []histogram.Span{{Offset: 0, Length: 2}, {Offset: 1, Length: 2}},
		NegativeBuckets: []int64{i + 1, 1, -1, 0},
	}
	switch variant {
	case 1: // custom buckets
		h = &histogram.Histogram{
			Count: 5 + uint64(i*4), Sum: 18.4 * float64(i+1), Schema: histogram.CustomBucketsSchema,
			PositiveSpans:   []histogram.Span{{Offset: 0, Length: 2}, {Offset: 1, Length: 2}},
			PositiveBuckets: []int64{i + 1, 1, -1, 0},
			CustomValues:    []float64{0, 1, 2, 3, 4},
		}
	case 2: // gauge
		h.CounterResetHint = histogram.GaugeType
	case 3: // only positive buckets, other schema
		h.Schema = -2
		h.NegativeSpans, h.NegativeBuckets = nil, nil
		h.Count = 7 + uint64(i*5)
	case 4:
		h.Schema = -4 // histogram.ExponentialSchemaMin
	case 5:
		h.Schema = 0
	case 6:
		h.Schema = 3
	case 7:
		h.Schema = histogram.ExponentialSchemaMax // 8: the boundary of the resolution-reduction slow path
	default:
		// 9..52: reserved higher resolutions; the TSDB refuses them, only a foreign serving
		// storage (mockQueryable) can send them, and every decoder on the client side must
		// reduce them to schema 8
		if variant >= 9 && variant <= int(histogram.ExponentialSchemaMaxReserved) {
			h.Schema = int32(variant)
		}
	}
	if k == 1 {
		return h, nil
	}
	return nil, h.ToFloat(nil)
}

func openStore(dir string, r *gen.Rand) (*store, error) {
	spc := int(r.PickI64(3, 4, 5, 8, 20, 120))
	ooo := r.Chance(1, 5)
	opts := tsdbx.Options{BlockRange: 10_000_000, SamplesPerChunk: spc}
	if ooo {
		opts.OOOWindow = 5_000_000
		opts.OOOCapMax = r.PickI64(4, 8)
	}
	db, err := tsdbx.Open(dir, opts)
	if err != nil {
		return nil, err
	}
	st := &store{db: db, names: []string{"m0", "m1"}, jobs: []string{"a", "b", "c"}}
	if r.Chance(1, 2) { // a metric name that is valid only under the UTF-8 scheme
		st.names = append(st.names, gen.Pick(r, u8metrics))
	}
	nSeries := int(r.Range(1, 5))
	seen := map[string]bool{}
	var all []pend
	var oooPend []pend
	kinds := []string{}
	base := r.Range(0, 3) * 1000
	for len(seen) < nSeries {
		b := labels.NewBuilder(labels.EmptyLabels())
		b.Set("__name__", gen.Pick(r, st.names))
		b.Set("job", gen.Pick(r, st.jobs))
		if r.Chance(1, 2) {
			b.Set("inst", gen.Pick(r, []string{"0", "1", "22"}))
		}
		if r.Chance(1, 3) { // a label name that is valid only under the UTF-8 scheme
			b.Set(gen.Pick(r, u8names), gen.Pick(r, []string{"x", "1", "é"}))
		}
		l := b.Labels()
		if seen[l.String()] {
			continue
		}
		seen[l.String()] = true
		mode := r.Intn(6) // 0,1 float; 2 hist; 3 float hist; 4 mixed runs; 5 float with special values
		kinds = append(kinds, fmt.Sprint(mode))
		variant := r.Intn(8)
		if mode >= 2 && mode <= 4 {
			if st.hv == nil {
				st.hv = map[int]bool{}
			}
			st.hv[variant] = true
		}
		// see genHist: schemas 1, custom, gauge, -2, -4, 0, 3, 8
		n := int(r.Range(0, 14))
		if r.Chance(1, 4) {
			n = int(r.Range(15, 30))
		}
		t := base + r.Range(0, 400)
		k := 0
		if mode == 2 {
			k = 1
		} else if mode == 3 {
			k = 2
		}
		for j := 0; j < n; j++ {
			if mode == 4 && r.Chance(1, 4) {
				k = r.Intn(3)
			}
			p := pend{l: l, t: t, k: k, i: int64(j)}
			if variant != 2 && k != 0 && r.Chance(1, 6) {
				p.i = 0 // counter reset
			}
			p.v = float64(r.Range(-5, 50))
			if mode == 5 {
				switch r.Intn(6) {
				case 0:
					p.v = math.NaN()
				case 1:
					p.v = math.Float64frombits(0x7ff0000000000002) // stale marker
				case 2:
					p.v = math.Inf(-1)
				case 3:
					p.v = math.Copysign(0, -1)
				case 4:
					p.v = r.Float() * 1e-300
				}
			}
			p.i |= int64(variant) << 32
			if ooo && j > 2 && r.Chance(1, 6) {
				p.t = t - r.Range(1, 3) // lands before an already appended sample
				oooPend = append(oooPend, p)
			} else {
				all = append(all, p)
			}
			// steps of at least 4 keep an out-of-order timestamp (t-1..t-3) off every in-order one:
			// for a duplicate timestamp with different values the TSDB's sample querier and chunk
			// querier do not pick the same sample, which is not remote read's business
			t += r.Range(4, 60)
		}
	}
	sort.SliceStable(all, func(i, j int) bool { return all[i].t < all[j].t })
	appendAll := func(ps []pend) error {
		app := db.DB.Appender(context.Background())
		for _, p := range ps {
			var err error
			if p.k == 0 {
				_, err = app.Append(0, p.l, p.t, p.v)
			} else {
				h, fh := genHist(p.k, p.i&0xffffffff, int(p.i>>32))
				_, err = app.AppendHistogram(0, p.l, p.t, h, fh)
			}
			if err != nil && !errors.Is(err, storage.ErrDuplicateSampleForTimestamp) && !errors.Is(err, storage.ErrOutOfOrderSample) {
				return fmt.Errorf("append %v t=%d k=%d: %w", p.l, p.t, p.k, err)
			}
			if err == nil {
				st.times = append(st.times, p.t)
			}
		}
		return app.Commit()
	}
	// two or three transactions so that isolation / commit boundaries fall inside chunks
	cut := len(all) / 2
	if err := appendAll(all[:cut]); err != nil {
		return nil, err
	}
	if err := appendAll(all[cut:]); err != nil {
		return nil, err
	}
	if len(oooPend) > 0 {
		sort.SliceStable(oooPend, func(i, j int) bool { return oooPend[i].t < oooPend[j].t })
		if err := appendAll(oooPend); err != nil {
			return nil, err
		}
	}
	sort.Slice(st.times, func(i, j int) bool { return st.times[i] < st.times[j] })
	st.desc = fmt.Sprintf("spc=%d series=%d kinds=%s", spc, nSeries, strings.Join(kinds, ""))
	// optionally persist the older part as a block (the rest stays in the head)
	if len(st.times) > 4 && r.Chance(2, 5) {
		split := st.times[len(st.times)/2+r.Intn(len(st.times)/3)]
		if err := db.ForceCompactHead(st.times[0], split); err != nil {
			return nil, fmt.Errorf("compact head: %w", err)
		}
		st.desc += fmt.Sprintf(" block<=%d", split)
	}
	if ooo {
		st.desc += fmt.Sprintf(" ooo=%d", len(oooPend))
	}
	// optionally delete a window of one job
	if len(st.times) > 4 && r.Chance(1, 5) {
		a := st.times[r.Intn(len(st.times))]
		b := a + r.Range(0, 80)
		if err := db.Delete(a, b, labels.MustNewMatcher(labels.MatchEqual, "job", gen.Pick(r, st.jobs))); err != nil {
			return nil, err
		}
		st.desc += fmt.Sprintf(" del=[%d,%d]", a, b)
	}
	return st, nil
}

// ---------------------------------------------------------------- main

type desc struct {
	Store    string   `json:"store"`
	StoreIdx int      `json:"store_index"`
	Mint     int64    `json:"mint"`
	Maxt     int64    `json:"maxt"`
	Matchers []string `json:"matchers"`
	MaxBytes int      `json:"max_bytes_in_frame"`
	Limit    int      `json:"sample_limit"`
	Sort     bool     `json:"sort_series"`
	Ext      string   `json:"external_labels"`
	Series   int      `json:"direct_series"`
	Samples  int      `json:"direct_samples"`
	Frames   int      `json:"frames"`
	Sampled  string   `json:"sampled"`
	Chunked  string   `json:"chunked"`
	Shape    string   `json:"shape"`
	Querier  string   `json:"querier"`
	Corpus   string   `json:"corpus,omitempty"`
	Untrim   bool     `json:"untrimmed_chunks"`
}

func main() {
	f := gallina.ParseFlags()
	meta := gallina.NewMeta("C42", f.Seed, f.Tier)
	meta.Rule = "corpus of fixed reproducers first; then generated tsdb.DB storages (1-5 series; float / int histogram / float histogram / mixed / special float values; 3..120 samples per chunk; optionally block+head, out-of-order samples, a tombstone) x generated queries (matchers eq/neq/re/nre, ranges whose ends are stored timestamps +-1, point, full and empty ranges, frame sizes from 1 byte to 1 MiB, sample limits around the result size, external labels, sortSeries, trimmed or untrimmed chunks from the serving storage), each read through the SAMPLES client, the STREAMED_XOR_CHUNKS client, the raw wire and the read.go querier, with 3 Seek probes per series; non-trivial = the direct query returns at least one sample; distinct by (storage index, mint, maxt, matchers, frame size, limit, external labels, sort, trimming)"
	cf := &gallina.CaseFile{Dir: f.Out, Type: "case", PerShard: 0,
		Preamble: "From Coq Require Import List ZArith NArith.\nFrom Verif Require Import lib.Int64 model.RemoteRead corr.CorrC42.\nImport ListNotations.\nOpen Scope Z_scope.\n" + dictPreamble(),
		Footer:   gallina.StdFooter}
	basePreamble = cf.Preamble
	rg := newRig()
	defer rg.srv.Close()
	id0 := 0
	seen0 := map[string]bool{}

	runCorpus(f, meta, cf, rg, &id0, seen0)
	nStores := f.Count(16, 400)
	perStore := 8
	id := id0
	seen := seen0
	for si := 0; si < nStores; si++ {
		if v := os.Getenv("VERIF_C42_STORE"); v != "" && v != fmt.Sprint(si) { // debugging aid: one storage only
			continue
		}
		r := gen.Fork(f.Seed, si)
		dir, err := os.MkdirTemp(f.Out, "c42db")
		if err != nil {
			panic(err)
		}
		st, err := openStore(dir, r)
		if err != nil {
			panic(fmt.Sprintf("store %d: %v", si, err))
		}
		for qi := 0; qi < perStore; qi++ {
			runCase(f, meta, cf, rg, st, si, r, &id, seen, nil)
		}
		st.db.Close()
		os.RemoveAll(dir)
	}
	flushShard(cf)
	meta.Write(f.Out)
}

// untrimmedQueryable asks the DB's chunk querier for whole chunks (no re-encoding at the range ends).
type untrimmedQueryable struct {
	storage.SampleAndChunkQueryable
}

func (u untrimmedQueryable) ChunkQuerier(mint, maxt int64) (storage.ChunkQuerier, error) {
	q, err := u.SampleAndChunkQueryable.ChunkQuerier(mint, maxt)
	if err != nil {
		return nil, err
	}
	return untrimmedChunkQuerier{q, mint, maxt}, nil
}

type untrimmedChunkQuerier struct {
	storage.ChunkQuerier
	mint, maxt int64
}

func (u untrimmedChunkQuerier) Select(ctx context.Context, sortSeries bool, hints *storage.SelectHints, ms ...*labels.Matcher) storage.ChunkSeriesSet {
	h := storage.SelectHints{Start: u.mint, End: u.maxt}
	if hints != nil {
		h = *hints
	}
	h.DisableTrimming = true
	return u.ChunkQuerier.Select(ctx, sortSeries, &h, ms...)
}

func hasNegZero(l []ser) bool {
	for _, s := range l {
		for _, x := range s.S {
			if x.K == 0 && x.V == 1<<63 {
				return true
			}
		}
	}
	return false
}

// dropMaxT removes the samples with timestamp MaxInt64.
func dropMaxT(l []ser) []ser {
	out := make([]ser, len(l))
	for i, s := range l {
		out[i] = ser{L: s.L}
		for _, x := range s.S {
			if x.T != math.MaxInt64 {
				out[i].S = append(out[i].S, x)
			}
		}
	}
	return out
}

// posZero replaces float -0 by +0.
func posZero(l []ser) []ser {
	out := make([]ser, len(l))
	for i, s := range l {
		out[i] = ser{L: s.L, S: append([]smp(nil), s.S...)}
		for j := range out[i].S {
			if out[i].S[j].K == 0 && out[i].S[j].V == 1<<63 {
				out[i].S[j].V = 0
			}
		}
	}
	return out
}

// withExt attaches the serving side's external labels (a label of the series wins).
func withExt(l []ser, ext labels.Labels) []ser {
	out := make([]ser, len(l))
	for i, s := range l {
		// (MergeLabels keeps an external label with an empty value)
		m := map[string]string{}
		ext.Range(func(x labels.Label) { m[x.Name] = x.Value })
		for _, p := range s.L {
			m[p[0]] = p[1]
		}
		var names []string
		for n := range m {
			names = append(names, n)
		}
		sort.Strings(names)
		var ps [][2]string
		for _, n := range names {
			ps = append(ps, [2]string{n, m[n]})
		}
		out[i] = ser{L: ps, S: s.S}
	}
	return out
}

func lkey(l [][2]string) string { return fmt.Sprintf("%q", l) }

// canon: entries without samples dropped, sorted by label set.
func canon(l []ser) []ser {
	var out []ser
	for _, s := range l {
		if len(s.S) > 0 {
			out = append(out, s)
		}
	}
	sort.SliceStable(out, func(i, j int) bool { return lkey(out[i].L) < lkey(out[j].L) })
	return out
}

// glue joins neighbouring entries with the same label set.
func glue(l []ser) []ser {
	var out []ser
	for _, s := range l {
		if n := len(out); n > 0 && lkey(out[n-1].L) == lkey(s.L) {
			out[n-1].S = append(append([]smp(nil), out[n-1].S...), s.S...)
			continue
		}
		out = append(out, s)
	}
	return out
}

func equalSeries(a, b []ser) bool {
	if len(a) != len(b) {
		return false
	}
	for i := range a {
		if lkey(a[i].L) != lkey(b[i].L) || len(a[i].S) != len(b[i].S) {
			return false
		}
		for j := range a[i].S {
			if a[i].S[j] != b[i].S[j] {
				return false
			}
		}
	}
	return true
}

// runCorpus: fixed reproducers, always first (store indices -1, -2, ...).
func runCorpus(f gallina.Flags, meta *gallina.Meta, cf *gallina.CaseFile, rg *rig, id *int, seen map[string]bool) {
	all := []*labels.Matcher{labels.MustNewMatcher(labels.MatchRegexp, "__name__", ".+")}
	lset := labels.FromStrings("__name__", "m0", "job", "a")
	type fixed struct {
		desc    string
		spc     int
		samples []pend
		queries []qparams
	}
	var nine []pend
	for t := int64(1); t <= 9; t++ {
		nine = append(nine, pend{l: lset, t: t * 10, v: float64(t)})
	}
	fx := []fixed{
		{"corpus: one float series, 9 samples, 3 per chunk", 3, nine, []qparams{
			{name: "split-frames", mint: 0, maxt: 100, ms: all, maxBytes: 1},
			{name: "split-untrimmed-range-inside", mint: 25, maxt: 75, ms: all, maxBytes: 1, untrimmed: true},
			{name: "one-frame", mint: 0, maxt: 100, ms: all, maxBytes: 1 << 20},
			{name: "limit-exact", mint: 0, maxt: 100, ms: all, maxBytes: 1 << 20, limit: 9},
			{name: "limit-one-below", mint: 0, maxt: 100, ms: all, maxBytes: 1 << 20, limit: 8},
		}},
		{"corpus: float series with -0.0", 120, []pend{{l: lset, t: 1000, v: math.Copysign(0, -1)}, {l: lset, t: 2000, v: 0}}, []qparams{
			{name: "negative-zero", mint: 0, maxt: 5000, ms: all, maxBytes: 1 << 20},
		}},
		{"corpus: sample at MaxInt64", 120, []pend{{l: lset, t: 1000, v: 1}, {l: lset, t: math.MaxInt64, v: 2}}, []qparams{
			{name: "maxint64", mint: 0, maxt: math.MaxInt64, ms: all, maxBytes: 1 << 20},
		}},
	}
	mixedSamples := []pend{{l: lset, t: 10, v: 1}, {l: lset, t: 20, k: 1, i: 3}, {l: lset, t: 30, v: 2}, {l: lset, t: 40, k: 2, i: 4}}
	fx = append(fx, fixed{"corpus: one series float@10 hist@20 float@30 floathist@40", 120, mixedSamples, []qparams{
		{name: "seek-noop-mixed-series", mint: 0, maxt: 100, ms: all, maxBytes: 1 << 20, probes: [][2]int64{{1, 10}, {0, 20}, {2, 25}}},
	}})
	// every histogram schema class, integer (m0) and float (m1) histograms, through both
	// response types, Next and Seek: -4, 0, 3, 8 (= ExponentialSchemaMax, the boundary of the
	// client's resolution-reduction path) and custom buckets in a TSDB ...
	schemaSeries := func(variants []int) []pend {
		var out []pend
		combos := [][2]string{{"a", ""}, {"b", ""}, {"c", ""}, {"a", "0"}, {"b", "0"}, {"c", "0"}}
		for k := 1; k <= 2; k++ {
			for vi, v := range variants {
				b := labels.NewBuilder(labels.EmptyLabels())
				b.Set("__name__", []string{"", "m0", "m1"}[k])
				b.Set("job", combos[vi][0])
				if combos[vi][1] != "" {
					b.Set("inst", combos[vi][1])
				}
				l := b.Labels()
				for j := int64(0); j < 4; j++ {
					i := j
					if j == 2 {
						i = 0 // a counter reset
					}
					out = append(out, pend{l: l, t: 100 + 10*j + int64(vi), k: k, i: i | int64(v)<<32})
				}
			}
		}
		sort.SliceStable(out, func(i, j int) bool { return out[i].t < out[j].t })
		return out
	}
	schemaProbes := [][2]int64{{0, 110}, {1, 100}, {2, 125}}
	fx = append(fx, fixed{"corpus: int and float histograms with schemas -4, 0, 3, 8 and custom buckets", 3, schemaSeries([]int{4, 5, 6, 7, 1}), []qparams{
		{name: "schemas-tsdb", mint: 0, maxt: 1000, ms: all, maxBytes: 1 << 20, probes: schemaProbes},
		{name: "schemas-tsdb-untrimmed-cut", mint: 105, maxt: 125, ms: all, maxBytes: 1 << 20, untrimmed: true, probes: schemaProbes},
	}})
	// label names and metric names that are valid only under the UTF-8 naming scheme, and (second
	// storage) names / values that are invalid under both: the TSDB stores them all
	var u8s []pend
	for vi, n := range u8names {
		l := labels.FromStrings("__name__", "m0", "job", "a", n, []string{"x", "é"}[vi%2])
		u8s = append(u8s, pend{l: l, t: 10 + int64(vi), v: 1}, pend{l: l, t: 30 + int64(vi), v: 2})
	}
	for vi, n := range u8metrics {
		l := labels.FromStrings("__name__", n, "job", "b")
		u8s = append(u8s, pend{l: l, t: 20 + int64(vi), v: 3}, pend{l: l, t: 40 + int64(vi), v: 4})
	}
	sort.SliceStable(u8s, func(i, j int) bool { return u8s[i].t < u8s[j].t })
	fx = append(fx, fixed{"corpus: UTF-8-only label names and metric names", 120, u8s, []qparams{
		{name: "utf8-names", mint: 0, maxt: 100, ms: all, maxBytes: 1 << 20, sortSeries: true},
		{name: "utf8-names-matcher-ext", mint: 0, maxt: 100, ms: []*labels.Matcher{labels.MustNewMatcher(labels.MatchEqual, "service.name", "x")}, maxBytes: 1 << 20, ext: labels.FromStrings("k8s.cluster", "x")},
		{name: "utf8-metric-matcher", mint: 0, maxt: 100, ms: []*labels.Matcher{labels.MustNewMatcher(labels.MatchRegexp, "__name__", "http.+|mé.*|0up|🔥")}, maxBytes: 1, sortSeries: false},
	}})
	badS := []pend{
		{l: labels.FromStrings("__name__", "m0", "job", "a", "bad\xffname", "x"), t: 10, v: 1},
		{l: labels.FromStrings("__name__", "m0", "job", "b", "inst", "bad\xfe"), t: 20, v: 2},
		{l: labels.FromStrings("__name__", "m0", "job", "c"), t: 30, v: 3},
	}
	fx = append(fx, fixed{"corpus: label name / value that is not valid UTF-8", 120, badS, []qparams{
		{name: "invalid-utf8-name-and-value", mint: 0, maxt: 100, ms: all, maxBytes: 1 << 20},
		{name: "invalid-utf8-name-only", mint: 0, maxt: 100, ms: []*labels.Matcher{labels.MustNewMatcher(labels.MatchEqual, "job", "a")}, maxBytes: 1 << 20},
		{name: "invalid-utf8-not-selected", mint: 0, maxt: 100, ms: []*labels.Matcher{labels.MustNewMatcher(labels.MatchEqual, "job", "c")}, maxBytes: 1 << 20},
	}})
	for i, c := range fx {
		dir, err := os.MkdirTemp(f.Out, "c42corpus")
		if err != nil {
			panic(err)
		}
		db, err := tsdbx.Open(dir, tsdbx.Options{BlockRange: 10_000_000, SamplesPerChunk: c.spc})
		if err != nil {
			panic(err)
		}
		st := &store{db: db, desc: c.desc, names: []string{"m0"}, jobs: []string{"a"}}
		app := db.DB.Appender(context.Background())
		for _, p := range c.samples {
			var err error
			if p.k == 0 {
				_, err = app.Append(0, p.l, p.t, p.v)
			} else {
				h, fh := genHist(p.k, p.i&0xffffffff, int(p.i>>32))
				_, err = app.AppendHistogram(0, p.l, p.t, h, fh)
			}
			if err != nil {
				panic(fmt.Sprintf("%s: %v", c.desc, err))
			}
			st.times = append(st.times, p.t)
		}
		if err := app.Commit(); err != nil {
			panic(err)
		}
		for qi := range c.queries {
			q := c.queries[qi]
			if q.ext.IsEmpty() {
				q.ext = labels.EmptyLabels()
			}
			runCase(f, meta, cf, rg, st, -1-i, gen.Fork(f.Seed, 1_000_000+i), id, seen, &q)
		}
		db.Close()
		os.RemoveAll(dir)
	}
	// ... and the reserved higher resolutions 9, 12, 30, 52 (plus 8 and a float series) from a
	// foreign serving storage: the TSDB refuses them, the wire and the chunk format carry them,
	// and the client has to reduce them to schema 8 in both response types
	mq := &mockQueryable{}
	bySeries := map[string]*mockSeries{}
	hi := schemaSeries([]int{9, 12, 30, 52, 7})
	fl := labels.FromStrings("__name__", "m0", "job", "c", "inst", "22")
	for j := int64(0); j < 4; j++ {
		hi = append(hi, pend{l: fl, t: 100 + 10*j, v: float64(j) + 0.5})
	}
	var times []int64
	for _, p := range hi {
		ms := bySeries[p.l.String()]
		if ms == nil {
			ms = &mockSeries{l: p.l}
			bySeries[p.l.String()] = ms
			mq.series = append(mq.series, ms)
		}
		x := msample{t: p.t, f: p.v}
		if p.k != 0 {
			x.h, x.fh = genHist(p.k, p.i&0xffffffff, int(p.i>>32))
		}
		ms.s = append(ms.s, x)
		times = append(times, p.t)
	}
	sort.Slice(mq.series, func(i, j int) bool { return labels.Compare(mq.series[i].l, mq.series[j].l) < 0 })
	sort.Slice(times, func(i, j int) bool { return times[i] < times[j] })
	st := &store{qa: mq, desc: "corpus: foreign storage, int and float histograms with schemas 9, 12, 30, 52, 8", times: times, names: []string{"m0", "m1"}, jobs: []string{"a", "b", "c"}}
	for qi, q := range []qparams{
		{name: "schemas-above-8", mint: 0, maxt: 1000, ms: all, maxBytes: 1 << 20, probes: schemaProbes, freshProbes: true},
		{name: "schemas-above-8-untrimmed-cut", mint: 105, maxt: 125, ms: all, maxBytes: 400, untrimmed: true, probes: schemaProbes, freshProbes: true},
		{name: "schemas-above-8-ext", mint: 101, maxt: 1000, ms: []*labels.Matcher{labels.MustNewMatcher(labels.MatchEqual, "__name__", "m0")}, maxBytes: 1 << 20, ext: labels.FromStrings("zone", "x"), sortSeries: true, probes: schemaProbes, freshProbes: true},
		{name: "schemas-above-8-iterated-twice", mint: 0, maxt: 1000, ms: []*labels.Matcher{labels.MustNewMatcher(labels.MatchEqual, "job", "a")}, maxBytes: 1 << 20, probes: schemaProbes},
	} {
		if q.ext.IsEmpty() {
			q.ext = labels.EmptyLabels()
		}
		runCase(f, meta, cf, rg, st, -100, gen.Fork(f.Seed, 2_000_000+qi), id, seen, &q)
	}
}

// ---------------------------------------------------------------- a foreign serving storage

// mockQueryable is a storage.SampleAndChunkQueryable over fixed in-memory series: it can hold
// what a tsdb.DB refuses (histograms at the reserved resolutions 9..52).  The sample querier
// trims to the range; the chunk querier encodes the (trimmed, or with DisableTrimming the
// whole) series with storage.NewSeriesToChunkEncoder.
type mockQueryable struct{ series []*mockSeries }

type mockSeries struct {
	l labels.Labels
	s []msample
}

type msample struct {
	t  int64
	f  float64
	h  *histogram.Histogram
	fh *histogram.FloatHistogram
}

func (s msample) T() int64                      { return s.t }
func (s msample) ST() int64                     { return 0 }
func (s msample) F() float64                    { return s.f }
func (s msample) H() *histogram.Histogram       { return s.h }
func (s msample) FH() *histogram.FloatHistogram { return s.fh }
func (s msample) Type() chunkenc.ValueType {
	switch {
	case s.h != nil:
		return chunkenc.ValHistogram
	case s.fh != nil:
		return chunkenc.ValFloatHistogram
	}
	return chunkenc.ValFloat
}

func (s msample) Copy() chunks.Sample {
	c := msample{t: s.t, f: s.f}
	if s.h != nil {
		c.h = s.h.Copy()
	}
	if s.fh != nil {
		c.fh = s.fh.Copy()
	}
	return c
}

func (m *mockQueryable) Querier(mint, maxt int64) (storage.Querier, error) {
	return &mockQuerier{m: m, mint: mint, maxt: maxt}, nil
}

func (m *mockQueryable) ChunkQuerier(mint, maxt int64) (storage.ChunkQuerier, error) {
	return &mockChunkQuerier{mockQuerier{m: m, mint: mint, maxt: maxt}}, nil
}

type mockQuerier struct {
	m          *mockQueryable
	mint, maxt int64
}

func (q *mockQuerier) sel(whole bool, ms []*labels.Matcher) []storage.Series {
	var out []storage.Series
	for _, s := range q.m.series {
		ok := true
		for _, m := range ms {
			ok = ok && m.Matches(s.l.Get(m.Name))
		}
		var in []chunks.Sample
		overlap := false
		for _, x := range s.s {
			if x.t >= q.mint && x.t <= q.maxt {
				overlap = true
			}
			if whole || (x.t >= q.mint && x.t <= q.maxt) {
				in = append(in, x.Copy())
			}
		}
		if ok && overlap {
			out = append(out, storage.NewListSeries(s.l, in))
		}
	}
	return out
}

func (q *mockQuerier) Select(_ context.Context, _ bool, _ *storage.SelectHints, ms ...*labels.Matcher) storage.SeriesSet {
	return &listSeriesSet{l: q.sel(false, ms), i: -1}
}

func (*mockQuerier) LabelValues(context.Context, string, *storage.LabelHints, ...*labels.Matcher) ([]string, annotations.Annotations, error) {
	return nil, nil, nil
}

func (*mockQuerier) LabelNames(context.Context, *storage.LabelHints, ...*labels.Matcher) ([]string, annotations.Annotations, error) {
	return nil, nil, nil
}
func (*mockQuerier) Close() error { return nil }

type mockChunkQuerier struct{ mockQuerier }

func (q *mockChunkQuerier) Select(_ context.Context, _ bool, hints *storage.SelectHints, ms ...*labels.Matcher) storage.ChunkSeriesSet {
	whole := hints != nil && hints.DisableTrimming
	return storage.NewSeriesSetToChunkSet(&listSeriesSet{l: q.sel(whole, ms), i: -1})
}

type listSeriesSet struct {
	l []storage.Series
	i int
}

func (s *listSeriesSet) Next() bool                      { s.i++; return s.i < len(s.l) }
func (s *listSeriesSet) At() storage.Series              { return s.l[s.i] }
func (*listSeriesSet) Err() error                        { return nil }
func (*listSeriesSet) Warnings() annotations.Annotations { return nil }

func pickTime(r *gen.Rand, st *store) int64 {
	if len(st.times) == 0 {
		return r.Range(0, 3000)
	}
	return st.times[r.Intn(len(st.times))] + r.PickI64(-1, 0, 0, 0, 1)
}

// qparams is a fixed query of the corpus.
type qparams struct {
	name       string
	mint, maxt int64
	ms         []*labels.Matcher
	maxBytes   int
	limit      int
	sortSeries bool
	ext        labels.Labels
	untrimmed  bool
	probes     [][2]int64
	// freshProbes: every Seek probe runs on a series object of its own (one more Read per
	// probe), never on a series that was iterated before
	freshProbes bool
}

func runCase(f gallina.Flags, meta *gallina.Meta, cf *gallina.CaseFile, rg *rig, st *store, si int, r *gen.Rand, id *int, seen map[string]bool, preset *qparams) {
	// ---- the query
	var mint, maxt int64
	switch r.Intn(10) {
	case 0:
		mint, maxt = math.MinInt64, math.MaxInt64
	case 1:
		mint = pickTime(r, st)
		maxt = mint
	case 2:
		mint, maxt = 50_000, 60_000 // nothing there
	case 3:
		mint, maxt = math.MinInt64, pickTime(r, st)
	case 4:
		mint, maxt = pickTime(r, st), math.MaxInt64
	default:
		mint, maxt = pickTime(r, st), pickTime(r, st)
		if mint > maxt {
			mint, maxt = maxt, mint
		}
	}
	var ms []*labels.Matcher
	switch r.Intn(8) {
	case 0:
		ms = append(ms, labels.MustNewMatcher(labels.MatchEqual, "__name__", gen.Pick(r, st.names)))
	case 1:
		ms = append(ms, labels.MustNewMatcher(labels.MatchRegexp, "job", "a|b"))
	case 2:
		ms = append(ms, labels.MustNewMatcher(labels.MatchNotEqual, "job", gen.Pick(r, st.jobs)), labels.MustNewMatcher(labels.MatchRegexp, "__name__", "m.*"))
	case 3:
		ms = append(ms, labels.MustNewMatcher(labels.MatchEqual, "inst", ""), labels.MustNewMatcher(labels.MatchRegexp, "__name__", ".+"))
	case 4:
		ms = append(ms, labels.MustNewMatcher(labels.MatchNotRegexp, "inst", "0|1"), labels.MustNewMatcher(labels.MatchEqual, "__name__", gen.Pick(r, st.names)))
	case 5:
		ms = append(ms, labels.MustNewMatcher(labels.MatchEqual, "job", "nosuch"))
	default:
		ms = append(ms, labels.MustNewMatcher(labels.MatchRegexp, "__name__", ".+"))
	}
	maxBytes := int(r.PickI64(1, 1, 40, 60, 90, 150, 250, 400, 2000, 1<<20))
	sortSeries := r.Bool()
	ext := labels.EmptyLabels()
	switch r.Intn(8) {
	case 0:
		ext = labels.FromStrings("zone", "x")
	case 1:
		ext = labels.FromStrings("job", "zz") // clashes with a series label: the series' value wins
	case 2:
		ext = labels.FromStrings("aaa", "1", "k", "", "zzz", "2")
	case 3:
		// UTF-8-only names that no stored series uses: an external label name carried by only SOME
		// of the stored series would make two different series identical after MergeLabels
		// ({job=a} + région=1 and {job=a, région=1}), which is the configuration's fault
		ext = labels.FromStrings("dc.région", "1", "k8s.cluster", "x")
	}

	// the serving side's storage: the DB itself (its chunk querier trims the chunks to the
	// range by re-encoding them) or the DB behind a wrapper that asks for untrimmed chunks
	// (DisableTrimming), like a store that hands out whole chunks: then the client's own
	// trimming in chunkedSeriesIterator does the work
	untrimmed := r.Chance(1, 2)
	if preset != nil {
		mint, maxt, ms, maxBytes, sortSeries, ext, untrimmed = preset.mint, preset.maxt, preset.ms, preset.maxBytes, preset.sortSeries, preset.ext, preset.untrimmed
	}
	qa := st.qa
	if qa == nil {
		qa = st.db.DB
	}
	if untrimmed {
		qa = untrimmedQueryable{qa}
	}

	// ---- direct queries on the storage (what the handler itself will run: Select with
	// sortSeries=false for the sampled response, sorted chunk series for the streamed one)
	ctx := context.Background()
	q, err := qa.Querier(mint, maxt)
	if err != nil {
		panic(err)
	}
	direct, err := drainSet(q.Select(ctx, false, nil, ms...))
	q.Close()
	if err != nil {
		panic(fmt.Sprintf("direct query: %v", err))
	}
	cq, err := qa.ChunkQuerier(mint, maxt)
	if err != nil {
		panic(err)
	}
	chunks, err := drainChunkSet(cq.Select(ctx, true, nil, ms...))
	cq.Close()
	if err != nil {
		panic(fmt.Sprintf("direct chunk query: %v", err))
	}
	total := 0
	for _, s := range direct {
		total += len(s.S)
	}
	limit := 0
	if r.Chance(1, 5) {
		limit = total + int(r.Range(-2, 1))
		if limit < 0 {
			limit = 0
		}
	}
	if preset == nil && hasNegZero(direct) {
		maxBytes = 1 << 20 // keep the two known shapes (split series, -0.0) in separate cases
	}
	corpus := ""
	if preset != nil {
		limit, corpus = preset.limit, preset.name
	}

	var mstr []string
	for _, m := range ms {
		mstr = append(mstr, m.String())
	}
	key := fmt.Sprint(si, mint, maxt, mstr, maxBytes, limit, ext.String(), sortSeries, untrimmed)
	if seen[key] {
		return
	}
	seen[key] = true

	// ---- through the remote-read protocol
	rg.serve(qa, ext, limit, maxBytes)
	pq, err := remote.ToQuery(mint, maxt, ms, nil)
	if err != nil {
		panic(err)
	}
	probeRand, probeMint, probeMaxt, fixedProbes = r, mint, maxt, nil
	if preset != nil && preset.probes != nil {
		fixedProbes = preset.probes
	}
	fresh := preset != nil && preset.freshProbes
	if fresh {
		probeRand = nil
	}
	sampled := rg.read(rg.sampled, pq, sortSeries)
	chunked := rg.read(rg.chunked, pq, sortSeries)
	if fresh {
		rg.probeFresh(rg.sampled, pq, sortSeries, &sampled, preset.probes, true)
		rg.probeFresh(rg.chunked, pq, sortSeries, &chunked, preset.probes, false)
	}
	frames, err := rg.rawFrames(pq)
	if err != nil {
		panic(fmt.Sprintf("raw frames: %v", err))
	}
	// the querier of read.go on top of one of the two clients, configured with the same
	// external labels as the serving side (skipped when an external label name also occurs in
	// stored series: then the two sides legitimately talk about different series)
	qchunked := r.Bool()
	querier := obs{Kind: "skip"}
	if ext.Get("job") == "" {
		cl := rg.sampled
		if qchunked {
			cl = rg.chunked
		}
		qq, err := remote.NewSampleAndChunkQueryableClient(cl, ext, nil, true, nil).Querier(mint, maxt)
		if err != nil {
			panic(err)
		}
		probeRand = nil
		querier = rg.readSet(qq.Select(ctx, sortSeries, nil, ms...))
		qq.Close()
	}
	var mnames []string
	for _, m := range ms {
		mnames = append(mnames, gStr(m.Name))
	}

	// ---- classification
	hasH, hasFH, mixed, cuts, emptySeries, multiChunkFrame := false, false, false, false, false, false
	for _, s := range direct {
		ks := map[int]bool{}
		for _, x := range s.S {
			ks[x.K] = true
		}
		hasH = hasH || ks[1]
		hasFH = hasFH || ks[2]
		mixed = mixed || len(ks) > 1
		emptySeries = emptySeries || len(s.S) == 0
	}
	for _, s := range chunks {
		for _, c := range s.C {
			if len(c.S) > 0 && (c.S[0].T < mint || c.S[len(c.S)-1].T > maxt) {
				cuts = true
			}
		}
	}
	for _, fr := range frames {
		multiChunkFrame = multiChunkFrame || len(fr.C) > 1
	}
	split := len(frames) > len(chunks)
	hit := func(b bool, c string) {
		if b {
			meta.Hit(c)
		}
	}
	hit(hasH, "int-histograms")
	hit(hasFH, "float-histograms")
	hit(mixed, "mixed-kind-series")
	hit(cuts, "range-cuts-chunk")
	hit(emptySeries, "series-without-sample-in-range")
	hit(multiChunkFrame, "multi-chunk-frame")
	hit(split, "series-split-over-frames")
	hit(total == 0, "empty-result")
	hit(limit > 0 && total > limit, "limit-exceeded")
	hit(limit > 0 && total <= limit, "limit-not-exceeded")
	hit(!ext.IsEmpty(), "external-labels")
	hit(strings.Contains(st.desc, "block"), "block+head")
	hit(strings.Contains(st.desc, "ooo"), "ooo-storage")
	hit(strings.Contains(st.desc, "del"), "tombstone-storage")
	hit(len(direct) > 1, "multi-series")
	if total > 0 {
		meta.Nontrivial++
	}
	hit(untrimmed, "untrimmed-chunks-server")
	if hasH || hasFH {
		for v, name := range map[int]string{1: "custom-buckets", 4: "schema-4neg", 5: "schema-0", 6: "schema-3", 7: "schema-8"} {
			hit(st.hv[v], "hist-store-"+name)
		}
		hit(st.qa != nil, "hist-schema-above-8")
	}
	hit(hasNegZero(direct), "negative-zero-float")

	// ---- which half of the statement fails, and is it one of the explained shapes
	want := canon(withExt(direct, ext))
	u8, bad := nameClasses(withExt(direct, ext))
	hit(u8, "utf8-only-names")
	hit(bad, "names-invalid-under-both-schemes")
	var why []string
	if limit > 0 && total > limit {
		if sampled.Kind != "limit" {
			why = append(why, "sampled-limit-not-enforced")
		}
	} else if bad {
		if sampled.Kind != "invalid" {
			why = append(why, "sampled-invalid-labels-accepted")
		}
	} else if sampled.Kind != "ok" || !equalSeries(canon(sampled.L), want) {
		if sampled.Kind == "ok" && hasNegZero(direct) && equalSeries(canon(sampled.L), posZero(want)) {
			why = append(why, "sampled-negative-zero")
		} else if sampled.Kind == "ok" && equalSeries(canon(sampled.L), canon(dropMaxT(want))) {
			why = append(why, "sampled-maxint64-dropped")
		} else {
			why = append(why, "sampled-unexplained")
		}
	}
	if chunked.Kind != "ok" || !equalSeries(canon(chunked.L), want) {
		if chunked.Kind == "ok" && split && equalSeries(canon(glue(chunked.L)), want) {
			why = append(why, "chunked-series-split-across-frames")
		} else {
			why = append(why, "chunked-unexplained")
		}
	}
	if querier.Kind != "skip" {
		hit(true, "querier-path")
		wantQ := canon(direct)
		add := func(k string) {
			for _, w := range why {
				if w == k {
					return
				}
			}
			why = append(why, k)
		}
		switch {
		case !qchunked && limit > 0 && total > limit:
			if querier.Kind != "limit" {
				add("querier-limit-not-enforced")
			}
		case !qchunked && bad:
			if querier.Kind != "invalid" {
				add("querier-invalid-labels-accepted")
			}
		case querier.Kind == "ok" && equalSeries(canon(querier.L), wantQ):
		case querier.Kind == "ok" && qchunked && split && equalSeries(canon(glue(querier.L)), wantQ):
			add("chunked-series-split-across-frames")
		case querier.Kind == "ok" && !qchunked && hasNegZero(direct) && equalSeries(canon(querier.L), posZero(wantQ)):
			add("sampled-negative-zero")
		case querier.Kind == "ok" && !qchunked && equalSeries(canon(querier.L), canon(dropMaxT(wantQ))):
			add("sampled-maxint64-dropped")
		default:
			add("querier-unexplained")
		}
	}
	shape := "ok"
	if len(why) > 0 {
		shape = strings.Join(why, "+")
		meta.Hit("fails:" + shape)
	}
	// Seek probes are judged here (the model covers iteration with Next only)
	if strings.Contains(shape, "sampled-maxint64-dropped") {
		sampled.Seek, sampled.Probes = nil, nil // Seek does find the sample Next drops: the same finding seen from the other side
	}
	if len(sampled.Seek) > 0 {
		// known shape: a series with floats AND histograms; Seek's "no-op" exit has already moved
		// the cursor of the other value type from -1 to 0, so its first sample is skipped
		if mixed {
			why = append(why, "sampled-seek-mixed-series")
		} else if st.qa != nil && !fresh && strings.Contains(strings.Join(sampled.Seek, " "), "observations found in buckets") {
			// known shape: a second iterator over a series of the sampled response whose histograms
			// have a schema above 8: setCurrentHistogram reduces the resolution IN PLACE on slices
			// shared with the decoded protobuf message, so the second pass reduces already reduced
			// buckets and the result does not validate.  Aliasing is outside the model: judged here,
			// and these probes are not handed to Coq.
			why = append(why, "sampled-high-schema-reiteration")
			sampled.Probes = nil
			meta.GoViol = append(meta.GoViol, gallina.GoViolation{ID: fmt.Sprint(*id), Shape: strings.Join(why, "+"),
				What: fmt.Sprintf("second iteration over a sampled-response series with histogram schema > 8 fails: %q", sampled.Seek[0])})
		} else {
			why = append(why, "sampled-seek")
			if os.Getenv("VERIF_C42_DEBUG") != "" {
				fmt.Fprintf(os.Stderr, "case %d sampled seek: %q\n", *id, sampled.Seek)
			}
		}
	}
	if len(chunked.Seek) > 0 {
		why = append(why, "chunked-seek")
	}
	if len(sampled.Seek)+len(chunked.Seek) > 0 {
		meta.Hit("fails:seek")
		shape = strings.Join(why, "+")
	}
	if strings.Contains(shape, "unexplained") && os.Getenv("VERIF_C42_STORE") != "" {
		fmt.Fprintf(os.Stderr, "case %d shape %s\n direct  %v\n chunks  %v\n sampled %v\n chunked %v\n querier %v\n", *id, shape, direct, chunks, sampled.L, chunked.L, querier.L)
	}
	if len(chunked.Seek) > 0 { // chunkedSeriesIterator.Seek is not modelled: judged here
		meta.GoViol = append(meta.GoViol, gallina.GoViolation{ID: fmt.Sprint(*id), Shape: shape,
			What: fmt.Sprintf("Seek on the chunked client-side iterator disagrees with Next: %q", chunked.Seek)})
	}
	meta.Dist["seek-probes"] += len(sampled.Probes)

	cf.Add(fmt.Sprintf("mkCase %s %s %s %d %d %s %s\n %s\n %s\n %s\n %s\n %s\n %s %s %s\n %s %s",
		gallina.Z(int64(*id)), gallina.Z(mint), gallina.Z(maxt), maxBytes, limit, gallina.Bool(sortSeries), gLabels(lblPairs(ext)),
		gSeries(direct), gCSeries(chunks), gObs(sampled), gFrames(frames), gObs(chunked),
		gallina.Bool(qchunked), gallina.List(mnames), gObs(querier), gProbes(sampled.Probes), gallina.Bool(bad)))
	so := sampled.Kind
	if sampled.Err != "" {
		so += ": " + sampled.Err
	}
	co := chunked.Kind
	if chunked.Err != "" {
		co += ": " + chunked.Err
	}
	meta.Case(*id, desc{Store: st.desc, StoreIdx: si, Mint: mint, Maxt: maxt, Matchers: mstr, MaxBytes: maxBytes, Limit: limit,
		Sort: sortSeries, Ext: ext.String(), Series: len(direct), Samples: total, Frames: len(frames), Sampled: so, Chunked: co, Shape: shape, Corpus: corpus, Untrim: untrimmed,
		Querier: fmt.Sprintf("%s over chunked=%v %s", querier.Kind, qchunked, querier.Err)})
	meta.Evaluations++
	*id++
	if *id%perShard == 0 {
		flushShard(cf)
	}
}

const perShard = 400

var basePreamble string

// flushShard writes the cases collected so far, preceded by the definitions they refer to.
func flushShard(cf *gallina.CaseFile) {
	cf.Preamble = basePreamble + intern.defs.String()
	cf.Flush()
	intern.reset()
}

//go:build slicelabels

package main

import "github.com/prometheus/prometheus/model/labels"

const variantName = "slicelabels"

func slData(labels.Labels) ([]byte, bool) { return nil, false }

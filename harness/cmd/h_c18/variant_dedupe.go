//go:build dedupelabels

package main

import "github.com/prometheus/prometheus/model/labels"

const variantName = "dedupelabels"

func slData(labels.Labels) ([]byte, bool) { return nil, false }

//go:build !slicelabels && !dedupelabels

// select cases: only in the primary (default build) binary; the other build variants of this
// harness are hash-only children and do not link the TSDB.
package main

import (
	"context"
	"fmt"
	"log/slog"
	"math"
	"os"
	"path/filepath"
	"sort"
	"strings"
	"time"

	"github.com/cespare/xxhash/v2"

	"github.com/prometheus/prometheus/model/labels"
	"github.com/prometheus/prometheus/storage"
	"github.com/prometheus/prometheus/tsdb"

	"verif/harness/internal/gallina"
	"verif/harness/internal/gen"
)

// ---------------------------------------------------------------- select cases

type seriesT struct {
	set lset
	ls  labels.Labels
	key string
}

type oRes struct {
	Idx []int  `json:"idx,omitempty"`
	Err string `json:"err,omitempty"` // "", "disabled", "other"
}

func (o oRes) gallina() string {
	switch o.Err {
	case "":
		v := make([]int64, len(o.Idx))
		for i, x := range o.Idx {
			v[i] = int64(x)
		}
		return "(OOk " + gallina.ListZ(v) + ")"
	case "disabled":
		return "OErrDisabled"
	default:
		return "OErrOther"
	}
}

type srcT struct {
	Kind    int   `json:"kind"`
	Members []int `json:"members"`
}

type viewT struct {
	Name      string   `json:"name"`
	Sharding  bool     `json:"sharding"`
	Srcs      []srcT   `json:"srcs"`
	N         uint64   `json:"n"`
	Matchers  string   `json:"matchers"`
	API       string   `json:"api"`
	Unsharded oRes     `json:"unsharded"`
	Shards    []oRes   `json:"shards"`
	OobIdx    []uint64 `json:"oob_idx,omitempty"`
	Oob       []oRes   `json:"oob,omitempty"`
}

func (v viewT) gallina() string {
	srcs := make([]string, len(v.Srcs))
	for i, s := range v.Srcs {
		m := make([]int64, len(s.Members))
		for j, x := range s.Members {
			m[j] = int64(x)
		}
		srcs[i] = fmt.Sprintf("mkSrc %d %s", s.Kind, gallina.ListZ(m))
	}
	sh := make([]string, len(v.Shards))
	for i, o := range v.Shards {
		sh[i] = o.gallina()
	}
	oob := make([]string, len(v.Oob))
	for i, o := range v.Oob {
		oob[i] = gallina.Pair(gallina.ZU(v.OobIdx[i]), o.gallina())
	}
	return fmt.Sprintf("mkView %s %s %s %s %s %s", gallina.Bool(v.Sharding), gallina.List(srcs), gallina.ZU(v.N),
		v.Unsharded.gallina(), gallina.List(sh), gallina.List(oob))
}

type selector interface {
	sel(hints *storage.SelectHints, sorted bool, ms []*labels.Matcher) ([]labels.Labels, error)
	close()
}

type qSel struct{ q storage.Querier }

func (s qSel) sel(h *storage.SelectHints, sorted bool, ms []*labels.Matcher) ([]labels.Labels, error) {
	ss := s.q.Select(context.Background(), sorted, h, ms...)
	var out []labels.Labels
	for ss.Next() {
		out = append(out, ss.At().Labels().Copy())
	}
	return out, ss.Err()
}
func (s qSel) close() { s.q.Close() }

type cqSel struct{ q storage.ChunkQuerier }

func (s cqSel) sel(h *storage.SelectHints, sorted bool, ms []*labels.Matcher) ([]labels.Labels, error) {
	ss := s.q.Select(context.Background(), sorted, h, ms...)
	var out []labels.Labels
	for ss.Next() {
		out = append(out, ss.At().Labels().Copy())
	}
	return out, ss.Err()
}
func (s cqSel) close() { s.q.Close() }

const (
	tMin = int64(0)
	tMax = int64(100000)
)

func openDB(dir string, sharding bool) *tsdb.DB {
	o := tsdb.DefaultOptions()
	o.MinBlockDuration = 1000
	o.MaxBlockDuration = 27000
	o.RetentionDuration = 0
	o.NoLockfile = true
	o.StripeSize = 64
	o.BlockReloadInterval = 24 * time.Hour
	o.WALSegmentSize = 1 << 20
	o.HeadChunksWriteBufferSize = 64 * 1024
	o.EnableSharding = sharding
	db, err := tsdb.Open(dir, slog.New(slog.DiscardHandler), nil, o, nil)
	if err != nil {
		panic(err)
	}
	db.DisableCompactions()
	return db
}

func appendSeries(db *tsdb.DB, all []seriesT, members []int, t0 int64) {
	app := db.Appender(context.Background())
	for j, k := range members {
		if _, err := app.Append(0, all[k].ls, t0+int64(j%7), float64(k)); err != nil {
			panic(fmt.Sprintf("append %s: %v", all[k].ls, err))
		}
		if _, err := app.Append(0, all[k].ls, t0+10+int64(j%7), float64(k)+0.5); err != nil {
			panic(err)
		}
	}
	if err := app.Commit(); err != nil {
		panic(err)
	}
}

type selCtx struct {
	r      *gen.Rand
	all    []seriesT
	byKey  map[string]int
	ns     []uint64
	mss    [][]*labels.Matcher
	views  []viewT
	nQuery int
}

func (c *selCtx) toRes(lss []labels.Labels, err error) oRes {
	if err != nil {
		if strings.Contains(err.Error(), "sharding is disabled") {
			return oRes{Err: "disabled"}
		}
		return oRes{Err: "other:" + err.Error()}
	}
	o := oRes{Idx: []int{}}
	for _, l := range lss {
		k, ok := c.byKey[string(refBytes(asSet(l)))]
		if !ok {
			k = -1
		}
		o.Idx = append(o.Idx, k)
	}
	return o
}

// observe runs the unsharded query and all shard queries of one view for every n of the case.
func (c *selCtx) observe(name string, sharding bool, srcs []srcT, mk func(api string) selector, ns ...uint64) {
	for _, n := range ns {
		r := c.r
		api := "querier"
		if r.Chance(1, 3) {
			api = "chunkquerier"
		}
		ms := c.mss[r.Intn(len(c.mss))]
		s := mk(api)
		v := viewT{Name: name, Sharding: sharding, Srcs: srcs, N: n, API: api, Matchers: fmt.Sprint(ms)}
		sorted := r.Bool()
		var h0 *storage.SelectHints
		if r.Bool() {
			h0 = &storage.SelectHints{Start: tMin, End: tMax}
		}
		v.Unsharded = c.toRes(s.sel(h0, sorted, ms))
		fn := ""
		if api == "querier" && r.Chance(1, 4) {
			fn = "series"
		}
		for i := uint64(0); i < n; i++ {
			h := &storage.SelectHints{Start: tMin, End: tMax, ShardIndex: i, ShardCount: n, Func: fn}
			v.Shards = append(v.Shards, c.toRes(s.sel(h, sorted, ms)))
			c.nQuery++
		}
		for _, i := range []uint64{n, n + 1 + uint64(r.Intn(5)), math.MaxUint64} {
			h := &storage.SelectHints{Start: tMin, End: tMax, ShardIndex: i, ShardCount: n}
			v.OobIdx = append(v.OobIdx, i)
			v.Oob = append(v.Oob, c.toRes(s.sel(h, sorted, ms)))
		}
		s.close()
		c.views = append(c.views, v)
	}
}

func dbSelector(db *tsdb.DB) func(string) selector {
	return func(api string) selector {
		if api == "chunkquerier" {
			q, err := db.ChunkQuerier(tMin, tMax)
			if err != nil {
				panic(err)
			}
			return cqSel{q}
		}
		q, err := db.Querier(tMin, tMax)
		if err != nil {
			panic(err)
		}
		return qSel{q}
	}
}

func readerSelector(b tsdb.BlockReader) func(string) selector {
	return func(api string) selector {
		if api == "chunkquerier" {
			q, err := tsdb.NewBlockChunkQuerier(b, tMin, tMax)
			if err != nil {
				panic(err)
			}
			return cqSel{q}
		}
		q, err := tsdb.NewBlockQuerier(b, tMin, tMax)
		if err != nil {
			panic(err)
		}
		return qSel{q}
	}
}

func genSeriesSet(r *gen.Rand, m int, big bool) []seriesT {
	metrics := []string{"up", "http_rq", "cpu", "go_gc"}
	jobs := []string{"api", "db", "web"}
	seen := map[string]bool{}
	var out []seriesT
	for len(out) < m {
		s := lset{{[]byte("__name__"), []byte(metrics[r.Intn(len(metrics))])}}
		s = append(s, lpair{[]byte("job"), []byte(jobs[r.Intn(len(jobs))])})
		if r.Chance(3, 4) {
			s = append(s, lpair{[]byte("instance"), []byte(fmt.Sprintf("h%d", r.Intn(12)))})
		}
		if r.Chance(1, 3) {
			s = append(s, lpair{[]byte("env"), []byte(gen.Pick(r, []string{"prod", "dev", "staging"}))})
		}
		if r.Chance(1, 4) {
			s = append(s, lpair{[]byte("le"), []byte(gen.Pick(r, []string{"0.1", "1", "10", "+Inf"}))})
		}
		if r.Chance(1, 6) {
			s = append(s, lpair{[]byte("p"), []byte("é" + string(randBytes(r, r.Intn(3), 0)))})
		}
		if big && r.Chance(1, 3) {
			// a series whose serialisation exceeds 1 KB: StableHash takes the streaming path
			s = append(s, lpair{[]byte("trace"), runs(r, 900+r.Intn(400))})
		}
		ls := mkLabels(s)
		set := asSet(ls)
		key := string(refBytes(set))
		if seen[key] {
			continue
		}
		seen[key] = true
		out = append(out, seriesT{set: set, ls: ls, key: key})
	}
	return out
}

func genMatchers(r *gen.Rand) [][]*labels.Matcher {
	mss := [][]*labels.Matcher{
		{labels.MustNewMatcher(labels.MatchRegexp, "__name__", ".+")},
		{labels.MustNewMatcher(labels.MatchEqual, "", "")}, // AllPostingsKey
	}
	jobs := []string{"api", "db", "web"}
	switch r.Intn(4) {
	case 0:
		mss = append(mss, []*labels.Matcher{labels.MustNewMatcher(labels.MatchEqual, "job", jobs[r.Intn(3)])})
	case 1:
		mss = append(mss, []*labels.Matcher{labels.MustNewMatcher(labels.MatchNotEqual, "job", jobs[r.Intn(3)]),
			labels.MustNewMatcher(labels.MatchRegexp, "__name__", "up|http.*|go_.*")})
	case 2:
		mss = append(mss, []*labels.Matcher{labels.MustNewMatcher(labels.MatchRegexp, "instance", "h[0-5]"),
			labels.MustNewMatcher(labels.MatchEqual, "env", "")})
	default:
		mss = append(mss, []*labels.Matcher{labels.MustNewMatcher(labels.MatchEqual, "__name__", "no_such_metric")})
	}
	return mss
}

func pickNs(r *gen.Rand, caseIdx int) []uint64 {
	pool := []uint64{1, 2, 3, 4, 5, 7, 8, 16, 31, 32, 63, 64}
	a := pool[(caseIdx)%len(pool)]
	b := uint64(1 + r.Intn(64))
	if a == b {
		return []uint64{a}
	}
	return []uint64{a, b}
}

func perm(r *gen.Rand, n int) []int {
	p := make([]int, n)
	for i := range p {
		p[i] = i
	}
	for i := n - 1; i > 0; i-- {
		j := r.Intn(i + 1)
		p[i], p[j] = p[j], p[i]
	}
	return p
}

// runSelCase builds the databases for one generated series set and returns the observed views.
func runSelCase(r *gen.Rand, caseIdx int, tmp string) *selCtx {
	big := r.Chance(1, 5)
	m := 2 + r.Intn(23)
	if big {
		m = 2 + r.Intn(8)
	}
	all := genSeriesSet(r, m, big)
	c := &selCtx{r: r, all: all, byKey: map[string]int{}, ns: pickNs(r, caseIdx), mss: genMatchers(r)}
	for i, s := range all {
		c.byKey[s.key] = i
	}
	// H1: the series that go to the block; H2: appended afterwards (overlaps H1, plus the rest)
	order := perm(r, m)
	cut := 1 + r.Intn(m)
	h1 := order[:cut]
	var h2 []int
	for _, k := range order {
		inH1 := false
		for _, x := range h1 {
			if x == k {
				inH1 = true
			}
		}
		if !inH1 || r.Chance(1, 2) {
			h2 = append(h2, k)
		}
	}

	dir, err := os.MkdirTemp(tmp, "db")
	if err != nil {
		panic(err)
	}
	defer os.RemoveAll(dir)
	db := openDB(filepath.Join(dir, "a"), true)
	appendSeries(db, all, h1, 100)
	na, nb := c.ns[0], c.ns[len(c.ns)-1]
	c.observe("head", true, []srcT{{0, h1}}, readerSelector(tsdb.NewRangeHead(db.Head(), tMin, tMax)), c.ns...)
	if err := db.CompactHead(tsdb.NewRangeHead(db.Head(), 0, 999)); err != nil {
		panic(err)
	}
	if len(db.Blocks()) != 1 {
		panic("expected one block")
	}
	// block members in index order (sorted by labels)
	bm := append([]int{}, h1...)
	sort.Slice(bm, func(i, j int) bool { return labels.Compare(all[bm[i]].ls, all[bm[j]].ls) < 0 })
	c.observe("block", true, []srcT{{2, bm}}, readerSelector(db.Blocks()[0]), c.ns...)
	if len(h2) > 0 {
		appendSeries(db, all, h2, 2000)
		c.observe("head+block", true, []srcT{{0, h2}, {2, bm}}, dbSelector(db), na)
		if err := db.Close(); err != nil {
			panic(err)
		}
		db = openDB(filepath.Join(dir, "a"), true)
		c.observe("replayed-head+block", true, []srcT{{1, h2}, {2, bm}}, dbSelector(db), nb)
		c.observe("replayed-head", true, []srcT{{1, h2}}, readerSelector(tsdb.NewRangeHead(db.Head(), tMin, tMax)), na)
	}
	if err := db.Close(); err != nil {
		panic(err)
	}
	if r.Chance(1, 2) {
		// the same series created in another order (other refs) in a fresh head
		o2 := perm(r, m)
		db2 := openDB(filepath.Join(dir, "b"), true)
		appendSeries(db2, all, o2, 100)
		c.observe("head-other-order", true, []srcT{{0, o2}}, dbSelector(db2), nb)
		db2.Close()
	}
	if r.Chance(1, 6) {
		db3 := openDB(filepath.Join(dir, "c"), false)
		appendSeries(db3, all, h1, 100)
		c.observe("head-sharding-disabled", false, []srcT{{0, h1}}, dbSelector(db3), na)
		db3.Close()
	}
	return c
}

type selDesc struct {
	Kind   string   `json:"kind"`
	Series []string `json:"series"`
	Views  []viewT  `json:"views"`
	Shape  string   `json:"shape"`
}

func selCases(f gallina.Flags, meta *gallina.Meta, cf *gallina.CaseFile, tmp string, id int) int {
	// ---- select cases
	ns := f.Count(30, 300)
	for i := 0; i < ns; i++ {
		r := gen.Fork(f.Seed, 1_000_000+i)
		c := runSelCase(r, i, tmp)
		ser := make([]string, len(c.all))
		var desc []string
		for k, s := range c.all {
			key := []byte(s.key)
			ser[k] = fmt.Sprintf("mkS %s %s", gLabels(s.set), gallina.ZU(xxhash.Sum64(key)))
			desc = append(desc, s.ls.String())
		}
		vs := make([]string, len(c.views))
		shape := "select"
		for k, v := range c.views {
			vs[k] = v.gallina()
			meta.Hit("view:" + v.Name)
			meta.Hit("api:" + v.API)
			if v.Sharding && v.N >= 2 && len(v.Unsharded.Idx) >= 2 {
				meta.Nontrivial++
			}
			nonEmpty := 0
			for _, s := range v.Shards {
				if len(s.Idx) > 0 {
					nonEmpty++
				}
			}
			switch {
			case nonEmpty >= 2:
				meta.Hit("shards-nonempty:>=2")
			case nonEmpty == 1:
				meta.Hit("shards-nonempty:1")
			default:
				meta.Hit("shards-nonempty:0")
			}
		}
		for _, s := range c.all {
			if len(s.key) >= 1024 {
				meta.Hit("select:series>1KB")
			}
		}
		cf.Add(fmt.Sprintf("CSel %d %s %s", id, gallina.List(ser), gallina.List(vs)))
		if f.Tier == "thorough" {
			for k := range c.views {
				c.views[k].Shards, c.views[k].Oob = nil, nil
			}
		}
		meta.Case(id, selDesc{Kind: "select", Series: desc, Views: c.views, Shape: shape})
		meta.Evaluations += c.nQuery
		id++
	}
	return id
}

//go:build slicelabels || dedupelabels

package main

import "verif/harness/internal/gallina"

// the slicelabels / dedupelabels builds of this harness only serve `-mode child`
func selCases(_ gallina.Flags, _ *gallina.Meta, _ *gallina.CaseFile, _ string, id int) int { return id }

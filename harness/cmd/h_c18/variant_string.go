//go:build !slicelabels && !dedupelabels

package main

import "github.com/prometheus/prometheus/model/labels"

const variantName = "stringlabels"

// slData returns the internal encoding of the stringlabels variant (Labels.Bytes is a copy of ls.data).
func slData(ls labels.Labels) ([]byte, bool) { return ls.Bytes(nil), true }

// h_c18: correspondence harness for C18 (query sharding partitions series deterministically).
//
// Primary mode (default): generates
//   - hash cases: one label set each; labels.StableHash is computed by the real implementation
//     in this process and, through `-mode child` subprocesses, by the same harness built with
//     the slicelabels and dedupelabels tags; the harness' own serialisation name 0xff value 0xff
//     and xxhash.Sum64 of it form the tabulated oracle point;
//   - select cases: a generated series set is written to a real tsdb.DB (EnableSharding on),
//     and queried through Querier/ChunkQuerier.Select with storage.SelectHints{ShardIndex,
//     ShardCount} for every shard index, on the head, on the persisted block, on head+block
//     behind DB.Querier, after close+reopen (WAL replay), on a second DB that received the
//     series in another order, and (some cases) on a DB with sharding disabled.
//
// Child mode: reads label sets from -in, writes this build variant's StableHash values to -res.
package main

import (
	"context"
	"encoding/json"
	"flag"
	"fmt"
	"log/slog"
	"math"
	"os"
	"os/exec"
	"path/filepath"
	"sort"
	"strings"
	"time"

	"github.com/cespare/xxhash/v2"

	"github.com/prometheus/prometheus/model/labels"
	"github.com/prometheus/prometheus/storage"
	"github.com/prometheus/prometheus/tsdb"

	"verif/harness/internal/gallina"
	"verif/harness/internal/gen"
)

// ---------------------------------------------------------------- label sets

type lpair [2][]byte // name, value
type lset []lpair

func mkLabels(in lset) labels.Labels {
	ls := make([]labels.Label, len(in))
	for i, p := range in {
		ls[i] = labels.Label{Name: string(p[0]), Value: string(p[1])}
	}
	return labels.New(ls...)
}

// asSet reads the pairs back in the implementation's iteration order.
func asSet(ls labels.Labels) lset {
	var out lset
	ls.Range(func(l labels.Label) {
		out = append(out, lpair{[]byte(l.Name), []byte(l.Value)})
	})
	return out
}

// refBytes is the harness' own reference serialisation (independent of model/labels).
func refBytes(s lset) []byte {
	var b []byte
	for _, p := range s {
		b = append(b, p[0]...)
		b = append(b, 0xff)
		b = append(b, p[1]...)
		b = append(b, 0xff)
	}
	return b
}

func gLabels(s lset) string {
	it := make([]string, len(s))
	for i, p := range s {
		it[i] = "mkL " + gallina.Bytes(p[0]) + " " + gallina.Bytes(p[1])
	}
	if len(it) == 0 {
		return "([] : labels)"
	}
	return gallina.List(it)
}

// ---------------------------------------------------------------- child protocol

type childOut struct {
	Variant string   `json:"variant"`
	Hashes  []uint64 `json:"hashes"`
}

func childMain(in, res string) {
	b, err := os.ReadFile(in)
	if err != nil {
		panic(err)
	}
	var sets []lset
	if err := json.Unmarshal(b, &sets); err != nil {
		panic(err)
	}
	out := childOut{Variant: variantName}
	for _, s := range sets {
		out.Hashes = append(out.Hashes, labels.StableHash(mkLabels(s)))
	}
	ob, _ := json.Marshal(out)
	if err := os.WriteFile(res, ob, 0o644); err != nil {
		panic(err)
	}
}

func runChildren(bins []string, dir string, sets []lset) map[string][]uint64 {
	res := map[string][]uint64{}
	if len(bins) == 0 {
		return res
	}
	in := filepath.Join(dir, "child_in.json")
	b, _ := json.Marshal(sets)
	if err := os.WriteFile(in, b, 0o644); err != nil {
		panic(err)
	}
	for k, bin := range bins {
		rp := filepath.Join(dir, fmt.Sprintf("child_out_%d.json", k))
		cmd := exec.Command(bin, "-mode", "child", "-in", in, "-res", rp, "-out", dir)
		if out, err := cmd.CombinedOutput(); err != nil {
			panic(fmt.Sprintf("child %s failed: %v\n%s", bin, err, out))
		}
		ob, err := os.ReadFile(rp)
		if err != nil {
			panic(err)
		}
		var co childOut
		if err := json.Unmarshal(ob, &co); err != nil {
			panic(err)
		}
		if len(co.Hashes) != len(sets) {
			panic("child returned a different number of hashes")
		}
		res[co.Variant] = co.Hashes
	}
	return res
}

// ---------------------------------------------------------------- generators

var namePool = []string{"__name__", "job", "instance", "env", "zone", "le", "quantile", "pod", "a", "b", "c", "handler", "code", "z9", "_x"}

func randBytes(r *gen.Rand, n int, alphabet int) []byte {
	b := make([]byte, n)
	for i := range b {
		switch alphabet {
		case 0: // lower case ascii
			b[i] = byte('a' + r.Intn(26))
		case 1: // printable
			b[i] = byte(32 + r.Intn(95))
		default: // anything, including 0x00 and the separator 0xff
			b[i] = byte(r.Intn(256))
		}
	}
	return b
}

// uniqueNames returns k distinct label names.
func uniqueNames(r *gen.Rand, k int) [][]byte {
	seen := map[string]bool{}
	var out [][]byte
	for len(out) < k {
		var n string
		if r.Chance(2, 3) {
			n = namePool[r.Intn(len(namePool))]
		} else {
			n = string(randBytes(r, 1+r.Intn(12), 0))
		}
		if seen[n] {
			n = n + fmt.Sprint(len(out))
		}
		if seen[n] {
			continue
		}
		seen[n] = true
		out = append(out, []byte(n))
	}
	return out
}

// genHashSet produces one label set for a hash case; class names the partition class.
func genHashSet(r *gen.Rand, tier string) (lset, string) {
	switch c := r.Intn(12); c {
	case 0: // small typical
		k := 1 + r.Intn(8)
		var s lset
		for _, n := range uniqueNames(r, k) {
			s = append(s, lpair{n, randBytes(r, r.Intn(20), 1)})
		}
		return s, "small"
	case 1: // arbitrary bytes, separators inside names and values, empty values
		k := 1 + r.Intn(5)
		var s lset
		seen := map[string]bool{}
		for i := 0; i < k; i++ {
			n := randBytes(r, 1+r.Intn(6), 2)
			if r.Chance(1, 3) {
				n = append(n, 0xff)
			}
			if seen[string(n)] {
				continue
			}
			seen[string(n)] = true
			v := randBytes(r, r.Intn(8), 2)
			if r.Chance(1, 3) {
				v = append([]byte{0xff}, v...)
			}
			s = append(s, lpair{n, v})
		}
		return s, "raw-bytes"
	case 2, 3, 4, 5: // total size steered to the 1024 boundary: the last label decides fast/slow
		k := 1 + r.Intn(6)
		names := uniqueNames(r, k)
		var s lset
		for _, n := range names {
			s = append(s, lpair{n, randBytes(r, r.Intn(30), 0)})
		}
		sorted := asSet(mkLabels(s))
		// make the total exactly 1024+d by stretching one value
		d := int(r.Range(-3, 3))
		cur := len(refBytes(sorted))
		j := r.Intn(len(sorted))
		if r.Chance(1, 2) {
			j = len(sorted) - 1
		}
		want := 1024 + d - cur
		if want > 0 {
			sorted[j][1] = append(sorted[j][1], randBytes(r, want, 0)...)
		}
		return sorted, fmt.Sprintf("boundary%+d", d)
	case 6: // one huge first entry: overflow with an empty buffer
		var s lset
		big := 1020 + r.Intn(300)
		s = append(s, lpair{[]byte("__name__"), randBytes(r, big, 0)})
		for _, n := range uniqueNames(r, r.Intn(4)) {
			if string(n) != "__name__" {
				s = append(s, lpair{n, randBytes(r, r.Intn(300), 1)})
			}
		}
		return s, "big-first"
	case 7, 8: // many medium labels: overflow somewhere in the middle, several labels after it
		k := 8 + r.Intn(20)
		var s lset
		for _, n := range uniqueNames(r, k) {
			s = append(s, lpair{n, randBytes(r, 40+r.Intn(120), 0)})
		}
		return s, "overflow-mid"
	case 9: // value lengths around the stringlabels size-encoding switch (255)
		var s lset
		for i, n := range uniqueNames(r, 1+r.Intn(3)) {
			l := 253 + r.Intn(5)
			if i > 0 && r.Chance(1, 2) {
				l = r.Intn(10)
			}
			s = append(s, lpair{n, randBytes(r, l, 0)})
		}
		return s, "size255"
	case 10: // long name
		var s lset
		s = append(s, lpair{randBytes(r, 250+r.Intn(900), 0), randBytes(r, r.Intn(600), 0)})
		s = append(s, lpair{[]byte("zz"), randBytes(r, r.Intn(300), 0)})
		return s, "long-name"
	default:
		if tier == "thorough" && r.Chance(1, 6) {
			// a value longer than 65535 bytes: third size byte of the stringlabels encoding
			return lset{{[]byte("__name__"), []byte("m")}, {[]byte("big"), randBytes(r, 65530+r.Intn(12), 0)}}, "size64k"
		}
		k := r.Intn(4)
		var s lset
		for _, n := range uniqueNames(r, k) {
			s = append(s, lpair{n, randBytes(r, r.Intn(4), 0)})
		}
		return s, "tiny"
	}
}

// ---------------------------------------------------------------- select cases

type seriesT struct {
	set lset
	ls  labels.Labels
	key string
}

type oRes struct {
	Idx []int  `json:"idx,omitempty"`
	Err string `json:"err,omitempty"` // "", "disabled", "other"
}

func (o oRes) gallina() string {
	switch o.Err {
	case "":
		v := make([]int64, len(o.Idx))
		for i, x := range o.Idx {
			v[i] = int64(x)
		}
		return "(OOk " + gallina.ListZ(v) + ")"
	case "disabled":
		return "OErrDisabled"
	default:
		return "OErrOther"
	}
}

type srcT struct {
	Kind    int   `json:"kind"`
	Members []int `json:"members"`
}

type viewT struct {
	Name      string   `json:"name"`
	Sharding  bool     `json:"sharding"`
	Srcs      []srcT   `json:"srcs"`
	N         uint64   `json:"n"`
	Matchers  string   `json:"matchers"`
	API       string   `json:"api"`
	Unsharded oRes     `json:"unsharded"`
	Shards    []oRes   `json:"shards"`
	OobIdx    []uint64 `json:"oob_idx,omitempty"`
	Oob       []oRes   `json:"oob,omitempty"`
}

func (v viewT) gallina() string {
	srcs := make([]string, len(v.Srcs))
	for i, s := range v.Srcs {
		m := make([]int64, len(s.Members))
		for j, x := range s.Members {
			m[j] = int64(x)
		}
		srcs[i] = fmt.Sprintf("mkSrc %d %s", s.Kind, gallina.ListZ(m))
	}
	sh := make([]string, len(v.Shards))
	for i, o := range v.Shards {
		sh[i] = o.gallina()
	}
	oob := make([]string, len(v.Oob))
	for i, o := range v.Oob {
		oob[i] = gallina.Pair(gallina.ZU(v.OobIdx[i]), o.gallina())
	}
	return fmt.Sprintf("mkView %s %s %s %s %s %s", gallina.Bool(v.Sharding), gallina.List(srcs), gallina.ZU(v.N),
		v.Unsharded.gallina(), gallina.List(sh), gallina.List(oob))
}

type selector interface {
	sel(hints *storage.SelectHints, sorted bool, ms []*labels.Matcher) ([]labels.Labels, error)
	close()
}

type qSel struct{ q storage.Querier }

func (s qSel) sel(h *storage.SelectHints, sorted bool, ms []*labels.Matcher) ([]labels.Labels, error) {
	ss := s.q.Select(context.Background(), sorted, h, ms...)
	var out []labels.Labels
	for ss.Next() {
		out = append(out, ss.At().Labels().Copy())
	}
	return out, ss.Err()
}
func (s qSel) close() { s.q.Close() }

type cqSel struct{ q storage.ChunkQuerier }

func (s cqSel) sel(h *storage.SelectHints, sorted bool, ms []*labels.Matcher) ([]labels.Labels, error) {
	ss := s.q.Select(context.Background(), sorted, h, ms...)
	var out []labels.Labels
	for ss.Next() {
		out = append(out, ss.At().Labels().Copy())
	}
	return out, ss.Err()
}
func (s cqSel) close() { s.q.Close() }

const (
	tMin = int64(0)
	tMax = int64(100000)
)

func openDB(dir string, sharding bool) *tsdb.DB {
	o := tsdb.DefaultOptions()
	o.MinBlockDuration = 1000
	o.MaxBlockDuration = 27000
	o.RetentionDuration = 0
	o.NoLockfile = true
	o.StripeSize = 64
	o.BlockReloadInterval = 24 * time.Hour
	o.WALSegmentSize = 1 << 20
	o.HeadChunksWriteBufferSize = 64 * 1024
	o.EnableSharding = sharding
	db, err := tsdb.Open(dir, slog.New(slog.DiscardHandler), nil, o, nil)
	if err != nil {
		panic(err)
	}
	db.DisableCompactions()
	return db
}

func appendSeries(db *tsdb.DB, all []seriesT, members []int, t0 int64) {
	app := db.Appender(context.Background())
	for j, k := range members {
		if _, err := app.Append(0, all[k].ls, t0+int64(j%7), float64(k)); err != nil {
			panic(fmt.Sprintf("append %s: %v", all[k].ls, err))
		}
		if _, err := app.Append(0, all[k].ls, t0+10+int64(j%7), float64(k)+0.5); err != nil {
			panic(err)
		}
	}
	if err := app.Commit(); err != nil {
		panic(err)
	}
}

type selCtx struct {
	r      *gen.Rand
	all    []seriesT
	byKey  map[string]int
	ns     []uint64
	mss    [][]*labels.Matcher
	views  []viewT
	nQuery int
}

func (c *selCtx) toRes(lss []labels.Labels, err error) oRes {
	if err != nil {
		if strings.Contains(err.Error(), "sharding is disabled") {
			return oRes{Err: "disabled"}
		}
		return oRes{Err: "other:" + err.Error()}
	}
	o := oRes{Idx: []int{}}
	for _, l := range lss {
		k, ok := c.byKey[string(refBytes(asSet(l)))]
		if !ok {
			k = -1
		}
		o.Idx = append(o.Idx, k)
	}
	return o
}

// observe runs the unsharded query and all shard queries of one view for every n of the case.
func (c *selCtx) observe(name string, sharding bool, srcs []srcT, mk func(api string) selector) {
	for _, n := range c.ns {
		r := c.r
		api := "querier"
		if r.Chance(1, 3) {
			api = "chunkquerier"
		}
		ms := c.mss[r.Intn(len(c.mss))]
		s := mk(api)
		v := viewT{Name: name, Sharding: sharding, Srcs: srcs, N: n, API: api, Matchers: fmt.Sprint(ms)}
		sorted := r.Bool()
		var h0 *storage.SelectHints
		if r.Bool() {
			h0 = &storage.SelectHints{Start: tMin, End: tMax}
		}
		v.Unsharded = c.toRes(s.sel(h0, sorted, ms))
		fn := ""
		if api == "querier" && r.Chance(1, 4) {
			fn = "series"
		}
		for i := uint64(0); i < n; i++ {
			h := &storage.SelectHints{Start: tMin, End: tMax, ShardIndex: i, ShardCount: n, Func: fn}
			v.Shards = append(v.Shards, c.toRes(s.sel(h, sorted, ms)))
			c.nQuery++
		}
		for _, i := range []uint64{n, n + 1 + uint64(r.Intn(5)), math.MaxUint64} {
			h := &storage.SelectHints{Start: tMin, End: tMax, ShardIndex: i, ShardCount: n}
			v.OobIdx = append(v.OobIdx, i)
			v.Oob = append(v.Oob, c.toRes(s.sel(h, sorted, ms)))
		}
		s.close()
		c.views = append(c.views, v)
	}
}

func dbSelector(db *tsdb.DB) func(string) selector {
	return func(api string) selector {
		if api == "chunkquerier" {
			q, err := db.ChunkQuerier(tMin, tMax)
			if err != nil {
				panic(err)
			}
			return cqSel{q}
		}
		q, err := db.Querier(tMin, tMax)
		if err != nil {
			panic(err)
		}
		return qSel{q}
	}
}

func readerSelector(b tsdb.BlockReader) func(string) selector {
	return func(api string) selector {
		if api == "chunkquerier" {
			q, err := tsdb.NewBlockChunkQuerier(b, tMin, tMax)
			if err != nil {
				panic(err)
			}
			return cqSel{q}
		}
		q, err := tsdb.NewBlockQuerier(b, tMin, tMax)
		if err != nil {
			panic(err)
		}
		return qSel{q}
	}
}

func genSeriesSet(r *gen.Rand, m int, big bool) []seriesT {
	metrics := []string{"up", "http_requests_total", "node_cpu_seconds_total", "go_goroutines"}
	jobs := []string{"api", "db", "web"}
	seen := map[string]bool{}
	var out []seriesT
	for len(out) < m {
		s := lset{{[]byte("__name__"), []byte(metrics[r.Intn(len(metrics))])}}
		s = append(s, lpair{[]byte("job"), []byte(jobs[r.Intn(len(jobs))])})
		if r.Chance(3, 4) {
			s = append(s, lpair{[]byte("instance"), []byte(fmt.Sprintf("host-%d:9090", r.Intn(12)))})
		}
		if r.Chance(1, 3) {
			s = append(s, lpair{[]byte("env"), []byte(gen.Pick(r, []string{"prod", "dev", "staging"}))})
		}
		if r.Chance(1, 4) {
			s = append(s, lpair{[]byte("le"), []byte(gen.Pick(r, []string{"0.1", "1", "10", "+Inf"}))})
		}
		if r.Chance(1, 6) {
			s = append(s, lpair{[]byte("path"), []byte("/é/" + string(randBytes(r, r.Intn(6), 0)))})
		}
		if big && r.Chance(1, 3) {
			// a series whose serialisation exceeds 1 KB: StableHash takes the streaming path
			s = append(s, lpair{[]byte("trace"), randBytes(r, 900+r.Intn(400), 0)})
		}
		ls := mkLabels(s)
		set := asSet(ls)
		key := string(refBytes(set))
		if seen[key] {
			continue
		}
		seen[key] = true
		out = append(out, seriesT{set: set, ls: ls, key: key})
	}
	return out
}

func genMatchers(r *gen.Rand) [][]*labels.Matcher {
	mss := [][]*labels.Matcher{
		{labels.MustNewMatcher(labels.MatchRegexp, "__name__", ".+")},
		{labels.MustNewMatcher(labels.MatchEqual, "", "")}, // AllPostingsKey
	}
	jobs := []string{"api", "db", "web"}
	switch r.Intn(4) {
	case 0:
		mss = append(mss, []*labels.Matcher{labels.MustNewMatcher(labels.MatchEqual, "job", jobs[r.Intn(3)])})
	case 1:
		mss = append(mss, []*labels.Matcher{labels.MustNewMatcher(labels.MatchNotEqual, "job", jobs[r.Intn(3)]),
			labels.MustNewMatcher(labels.MatchRegexp, "__name__", "up|http.*|go_.*")})
	case 2:
		mss = append(mss, []*labels.Matcher{labels.MustNewMatcher(labels.MatchRegexp, "instance", "host-[0-5]:9090"),
			labels.MustNewMatcher(labels.MatchEqual, "env", "")})
	default:
		mss = append(mss, []*labels.Matcher{labels.MustNewMatcher(labels.MatchEqual, "__name__", "no_such_metric")})
	}
	return mss
}

func pickNs(r *gen.Rand, caseIdx int) []uint64 {
	pool := []uint64{1, 2, 3, 4, 5, 7, 8, 16, 31, 32, 63, 64}
	a := pool[(caseIdx)%len(pool)]
	b := uint64(1 + r.Intn(64))
	if a == b {
		return []uint64{a}
	}
	return []uint64{a, b}
}

func perm(r *gen.Rand, n int) []int {
	p := make([]int, n)
	for i := range p {
		p[i] = i
	}
	for i := n - 1; i > 0; i-- {
		j := r.Intn(i + 1)
		p[i], p[j] = p[j], p[i]
	}
	return p
}

// runSelCase builds the databases for one generated series set and returns the observed views.
func runSelCase(r *gen.Rand, caseIdx int, tmp string) *selCtx {
	big := r.Chance(1, 5)
	m := 2 + r.Intn(30)
	if big {
		m = 2 + r.Intn(8)
	}
	all := genSeriesSet(r, m, big)
	c := &selCtx{r: r, all: all, byKey: map[string]int{}, ns: pickNs(r, caseIdx), mss: genMatchers(r)}
	for i, s := range all {
		c.byKey[s.key] = i
	}
	// H1: the series that go to the block; H2: appended afterwards (overlaps H1, plus the rest)
	order := perm(r, m)
	cut := 1 + r.Intn(m)
	h1 := order[:cut]
	var h2 []int
	for _, k := range order {
		inH1 := false
		for _, x := range h1 {
			if x == k {
				inH1 = true
			}
		}
		if !inH1 || r.Chance(1, 2) {
			h2 = append(h2, k)
		}
	}

	dir, err := os.MkdirTemp(tmp, "db")
	if err != nil {
		panic(err)
	}
	defer os.RemoveAll(dir)
	db := openDB(filepath.Join(dir, "a"), true)
	appendSeries(db, all, h1, 100)
	c.observe("head", true, []srcT{{0, h1}}, readerSelector(tsdb.NewRangeHead(db.Head(), tMin, tMax)))
	if err := db.CompactHead(tsdb.NewRangeHead(db.Head(), 0, 999)); err != nil {
		panic(err)
	}
	if len(db.Blocks()) != 1 {
		panic("expected one block")
	}
	// block members in index order (sorted by labels)
	bm := append([]int{}, h1...)
	sort.Slice(bm, func(i, j int) bool { return labels.Compare(all[bm[i]].ls, all[bm[j]].ls) < 0 })
	c.observe("block", true, []srcT{{2, bm}}, readerSelector(db.Blocks()[0]))
	if len(h2) > 0 {
		appendSeries(db, all, h2, 2000)
		c.observe("head+block", true, []srcT{{0, h2}, {2, bm}}, dbSelector(db))
		if err := db.Close(); err != nil {
			panic(err)
		}
		db = openDB(filepath.Join(dir, "a"), true)
		c.observe("replayed-head+block", true, []srcT{{1, h2}, {2, bm}}, dbSelector(db))
		c.observe("replayed-head", true, []srcT{{1, h2}}, readerSelector(tsdb.NewRangeHead(db.Head(), tMin, tMax)))
	}
	if err := db.Close(); err != nil {
		panic(err)
	}
	if r.Chance(1, 2) {
		// the same series created in another order (other refs) in a fresh head
		o2 := perm(r, m)
		db2 := openDB(filepath.Join(dir, "b"), true)
		appendSeries(db2, all, o2, 100)
		c.observe("head-other-order", true, []srcT{{0, o2}}, dbSelector(db2))
		db2.Close()
	}
	if r.Chance(1, 6) {
		db3 := openDB(filepath.Join(dir, "c"), false)
		appendSeries(db3, all, h1, 100)
		c.ns = c.ns[:1]
		c.observe("head-sharding-disabled", false, []srcT{{0, h1}}, dbSelector(db3))
		db3.Close()
	}
	return c
}

// ---------------------------------------------------------------- main

type hashDesc struct {
	Kind   string   `json:"kind"`
	Class  string   `json:"class"`
	Labels []string `json:"labels"` // name=value, Go-quoted
	KeyLen int      `json:"key_len"`
	Sum64  uint64   `json:"sum64"`
	Obs    []int64  `json:"obs"`
	Shape  string   `json:"shape"`
	Corpus string   `json:"corpus,omitempty"`
}

type selDesc struct {
	Kind   string   `json:"kind"`
	Series []string `json:"series"`
	Views  []viewT  `json:"views"`
	Shape  string   `json:"shape"`
}

func quoteSet(s lset) []string {
	out := make([]string, len(s))
	for i, p := range s {
		v := string(p[1])
		if len(v) > 48 {
			v = v[:48] + fmt.Sprintf("...(%d bytes)", len(p[1]))
		}
		out[i] = fmt.Sprintf("%q=%q", string(p[0]), v)
	}
	return out
}

func main() {
	mode := flag.String("mode", "primary", "primary|child")
	in := flag.String("in", "", "child: input file")
	res := flag.String("res", "", "child: result file")
	f := gallina.ParseFlags()
	if *mode == "child" {
		childMain(*in, *res)
		return
	}
	meta := gallina.NewMeta("C18", f.Seed, f.Tier)
	meta.Rule = "hash cases: corpus + seeded label sets in classes (small, raw bytes incl. 0xff/0x00, total size 1024+d for d in -3..3, first entry > 1 KB, overflow mid-way, value lengths 253..257, long names, 64 KB value in thorough); non-trivial = at least one label, distinct by reference serialisation. select cases: seeded series sets (2..31 series, some with > 1 KB label sets) x two shard counts (one from {1,2,3,4,5,7,8,16,31,32,63,64} by case index, one uniform 1..64) x views (head, block, head+block, replayed head+block, replayed head, head in another creation order, sharding disabled); non-trivial = a view with n >= 2 whose unsharded result has >= 2 series, counted per distinct (series set, view, n)"
	cf := &gallina.CaseFile{Dir: f.Out, Type: "case", PerShard: 150,
		Preamble: "From Coq Require Import List NArith ZArith.\nFrom Verif Require Import lib.Bytes model.Sharding corr.CorrC18.\nImport ListNotations.\nOpen Scope Z_scope.\n",
		Footer:   gallina.StdFooter}
	tmp, err := os.MkdirTemp(f.Out, "scratch")
	if err != nil {
		panic(err)
	}
	defer os.RemoveAll(tmp)

	var others []string
	if f.Variants != "" {
		parts := strings.Split(f.Variants, ",")
		others = parts[1:] // the first one is this binary
	}
	if len(others) == 0 {
		meta.Notes = append(meta.Notes, "no -variants given: only the "+variantName+" StableHash is observed")
	}

	id := 0
	// ---- hash cases
	type hc struct {
		set    lset
		class  string
		corpus string
	}
	var hcs []hc
	corpus := []struct {
		name string
		s    lset
	}{
		{"empty", lset{}},
		{"upstream-test-small", lset{{[]byte("aaa"), []byte("111")}, {[]byte("bbb"), []byte("222")}}},
		{"sep-ambiguity-a", lset{{[]byte("a"), []byte("b\xffc")}}},
		{"sep-ambiguity-b", lset{{[]byte("a"), []byte("b")}, {[]byte("c"), []byte("")}}},
		{"exact-1023", lset{{[]byte("n"), []byte(strings.Repeat("x", 1023-3))}}},
		{"exact-1024", lset{{[]byte("n"), []byte(strings.Repeat("x", 1024-3))}}},
		{"exact-1024-second", lset{{[]byte("a"), []byte(strings.Repeat("y", 500))}, {[]byte("b"), []byte(strings.Repeat("x", 1024-503-3))}}},
		{"exact-1023-second", lset{{[]byte("a"), []byte(strings.Repeat("y", 500))}, {[]byte("b"), []byte(strings.Repeat("x", 1023-503-3))}}},
		{"overflow-then-more", lset{{[]byte("a"), []byte(strings.Repeat("y", 600))}, {[]byte("b"), []byte(strings.Repeat("x", 600))}, {[]byte("c"), []byte("1")}, {[]byte("d"), []byte("")}}},
	}
	for _, c := range corpus {
		hcs = append(hcs, hc{asSet(mkLabels(c.s)), "corpus", c.name})
	}
	nh := f.Count(220, 3000)
	for i := 0; i < nh; i++ {
		r := gen.Fork(f.Seed, i)
		s, class := genHashSet(r, f.Tier)
		hcs = append(hcs, hc{asSet(mkLabels(s)), class, ""})
	}
	sets := make([]lset, len(hcs))
	for i, h := range hcs {
		sets[i] = h.set
	}
	childRes := runChildren(others, tmp, sets)
	slot := map[string]int{"stringlabels": 0, "slicelabels": 1, "dedupelabels": 2}
	seenKey := map[string]bool{}
	for i, h := range hcs {
		ls := mkLabels(h.set)
		key := refBytes(h.set)
		sum := xxhash.Sum64(key)
		obs := []int64{-1, -1, -1}
		obsS := []string{"(-1)%Z", "(-1)%Z", "(-1)%Z"}
		own := labels.StableHash(ls)
		obs[slot[variantName]] = int64(own)
		obsS[slot[variantName]] = gallina.ZU(own)
		for v, hs := range childRes {
			obs[slot[v]] = int64(hs[i])
			obsS[slot[v]] = gallina.ZU(hs[i])
		}
		sl := "None"
		if d, ok := slData(ls); ok {
			sl = gallina.Some(gallina.Bytes(d))
		}
		shape := "hash-" + h.class
		for _, o := range obs {
			if o != -1 && uint64(o) != sum {
				shape = "hash-variant-differs"
			}
		}
		cf.Add(fmt.Sprintf("CHash %d %s %s %s %s %s", id, gLabels(h.set), gallina.Bytes(key), gallina.ZU(sum), gallina.List(obsS), sl))
		meta.Case(id, hashDesc{Kind: "hash", Class: h.class, Labels: quoteSet(h.set), KeyLen: len(key), Sum64: sum, Obs: obs, Shape: shape, Corpus: h.corpus})
		meta.Hit("hash:" + h.class)
		if len(key) >= 1024 {
			meta.Hit("hash:slow-path")
		} else {
			meta.Hit("hash:fast-path")
		}
		if len(h.set) > 0 && !seenKey[string(key)] {
			seenKey[string(key)] = true
			meta.Nontrivial++
		}
		meta.Evaluations++
		id++
	}

	// ---- select cases
	ns := f.Count(60, 1200)
	for i := 0; i < ns; i++ {
		r := gen.Fork(f.Seed, 1_000_000+i)
		c := runSelCase(r, i, tmp)
		ser := make([]string, len(c.all))
		var desc []string
		for k, s := range c.all {
			key := []byte(s.key)
			ser[k] = fmt.Sprintf("mkS %s %s %s", gLabels(s.set), gallina.Bytes(key), gallina.ZU(xxhash.Sum64(key)))
			desc = append(desc, s.ls.String())
		}
		vs := make([]string, len(c.views))
		shape := "select"
		for k, v := range c.views {
			vs[k] = v.gallina()
			meta.Hit("view:" + v.Name)
			meta.Hit("api:" + v.API)
			if v.Sharding && v.N >= 2 && len(v.Unsharded.Idx) >= 2 {
				meta.Nontrivial++
			}
			nonEmpty := 0
			for _, s := range v.Shards {
				if len(s.Idx) > 0 {
					nonEmpty++
				}
			}
			switch {
			case nonEmpty >= 2:
				meta.Hit("shards-nonempty:>=2")
			case nonEmpty == 1:
				meta.Hit("shards-nonempty:1")
			default:
				meta.Hit("shards-nonempty:0")
			}
		}
		for _, s := range c.all {
			if len(s.key) >= 1024 {
				meta.Hit("select:series>1KB")
			}
		}
		cf.Add(fmt.Sprintf("CSel %d %s %s", id, gallina.List(ser), gallina.List(vs)))
		meta.Case(id, selDesc{Kind: "select", Series: desc, Views: c.views, Shape: shape})
		meta.Evaluations += c.nQuery
		id++
	}
	cf.Flush()
	meta.Write(f.Out)
}

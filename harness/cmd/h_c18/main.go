// h_c18: correspondence harness for C18 (query sharding partitions series deterministically).
//
// Primary mode (default): generates
//   - hash cases: one label set each; labels.StableHash is computed by the real implementation
//     in this process and, through `-mode child` subprocesses, by the same harness built with
//     the slicelabels and dedupelabels tags; the harness' own serialisation name 0xff value 0xff
//     and xxhash.Sum64 of it form the tabulated oracle point;
//   - select cases: a generated series set is written to a real tsdb.DB (EnableSharding on),
//     and queried through Querier/ChunkQuerier.Select with storage.SelectHints{ShardIndex,
//     ShardCount} for every shard index, on the head, on the persisted block, on head+block
//     behind DB.Querier, after close+reopen (WAL replay), on a second DB that received the
//     series in another order, and (some cases) on a DB with sharding disabled.
//
// Child mode: reads label sets from -in, writes this build variant's StableHash values to -res.
package main

import (
	"encoding/json"
	"flag"
	"fmt"
	"os"
	"os/exec"
	"path/filepath"
	"strings"

	"github.com/cespare/xxhash/v2"

	"github.com/prometheus/prometheus/model/labels"

	"verif/harness/internal/gallina"
	"verif/harness/internal/gen"
)

// ---------------------------------------------------------------- label sets

type lpair [2][]byte // name, value
type lset []lpair

func mkLabels(in lset) labels.Labels {
	ls := make([]labels.Label, len(in))
	for i, p := range in {
		ls[i] = labels.Label{Name: string(p[0]), Value: string(p[1])}
	}
	return labels.New(ls...)
}

// asSet reads the pairs back in the implementation's iteration order.
func asSet(ls labels.Labels) lset {
	var out lset
	ls.Range(func(l labels.Label) {
		out = append(out, lpair{[]byte(l.Name), []byte(l.Value)})
	})
	return out
}

// refBytes is the harness' own reference serialisation (independent of model/labels).
func refBytes(s lset) []byte {
	var b []byte
	for _, p := range s {
		b = append(b, p[0]...)
		b = append(b, 0xff)
		b = append(b, p[1]...)
		b = append(b, 0xff)
	}
	return b
}

// gBytes prints a byte string as list N; runs of >= 6 equal bytes become `rp c n`
// (Coq's term construction costs ~0.1 ms per list element, so long strings are generated as
// runs and printed run-length encoded).
func gBytes(b []byte) string {
	var parts []string
	var lit []string
	flush := func() {
		if len(lit) > 0 {
			parts = append(parts, "["+strings.Join(lit, "; ")+"]%N")
			lit = nil
		}
	}
	for i := 0; i < len(b); {
		j := i
		for j < len(b) && b[j] == b[i] {
			j++
		}
		if j-i >= 6 {
			flush()
			parts = append(parts, fmt.Sprintf("rp %d %d", b[i], j-i))
		} else {
			for k := i; k < j; k++ {
				lit = append(lit, fmt.Sprint(b[k]))
			}
		}
		i = j
	}
	flush()
	if len(parts) == 0 {
		return "([] : list N)"
	}
	return "(" + strings.Join(parts, " ++ ") + " : list N)"
}

// runs returns n bytes made of runs of one lower-case letter each (20..200 long).
func runs(r *gen.Rand, n int) []byte {
	var b []byte
	for len(b) < n {
		l := 20 + r.Intn(181)
		if l > n-len(b) {
			l = n - len(b)
		}
		c := byte('a' + r.Intn(26))
		for i := 0; i < l; i++ {
			b = append(b, c)
		}
	}
	return b
}

func gLabels(s lset) string {
	it := make([]string, len(s))
	for i, p := range s {
		it[i] = "mkL " + gBytes(p[0]) + " " + gBytes(p[1])
	}
	if len(it) == 0 {
		return "([] : labels)"
	}
	return gallina.List(it)
}

// ---------------------------------------------------------------- child protocol

type childOut struct {
	Variant string   `json:"variant"`
	Hashes  []uint64 `json:"hashes"`
}

func childMain(in, res string) {
	b, err := os.ReadFile(in)
	if err != nil {
		panic(err)
	}
	var sets []lset
	if err := json.Unmarshal(b, &sets); err != nil {
		panic(err)
	}
	out := childOut{Variant: variantName}
	for _, s := range sets {
		out.Hashes = append(out.Hashes, labels.StableHash(mkLabels(s)))
	}
	ob, _ := json.Marshal(out)
	if err := os.WriteFile(res, ob, 0o644); err != nil {
		panic(err)
	}
}

func runChildren(bins []string, dir string, sets []lset) map[string][]uint64 {
	res := map[string][]uint64{}
	if len(bins) == 0 {
		return res
	}
	in := filepath.Join(dir, "child_in.json")
	b, _ := json.Marshal(sets)
	if err := os.WriteFile(in, b, 0o644); err != nil {
		panic(err)
	}
	for k, bin := range bins {
		rp := filepath.Join(dir, fmt.Sprintf("child_out_%d.json", k))
		cmd := exec.Command(bin, "-mode", "child", "-in", in, "-res", rp, "-out", dir)
		if out, err := cmd.CombinedOutput(); err != nil {
			panic(fmt.Sprintf("child %s failed: %v\n%s", bin, err, out))
		}
		ob, err := os.ReadFile(rp)
		if err != nil {
			panic(err)
		}
		var co childOut
		if err := json.Unmarshal(ob, &co); err != nil {
			panic(err)
		}
		if len(co.Hashes) != len(sets) {
			panic("child returned a different number of hashes")
		}
		res[co.Variant] = co.Hashes
	}
	return res
}

// ---------------------------------------------------------------- generators

var namePool = []string{"__name__", "job", "instance", "env", "zone", "le", "quantile", "pod", "a", "b", "c", "handler", "code", "z9", "_x"}

func randBytes(r *gen.Rand, n int, alphabet int) []byte {
	b := make([]byte, n)
	for i := range b {
		switch alphabet {
		case 0: // lower case ascii
			b[i] = byte('a' + r.Intn(26))
		case 1: // printable
			b[i] = byte(32 + r.Intn(95))
		default: // anything, including 0x00 and the separator 0xff
			b[i] = byte(r.Intn(256))
		}
	}
	return b
}

// uniqueNames returns k distinct label names.
func uniqueNames(r *gen.Rand, k int) [][]byte {
	seen := map[string]bool{}
	var out [][]byte
	for len(out) < k {
		var n string
		if r.Chance(2, 3) {
			n = namePool[r.Intn(len(namePool))]
		} else {
			n = string(randBytes(r, 1+r.Intn(12), 0))
		}
		if seen[n] {
			n = n + fmt.Sprint(len(out))
		}
		if seen[n] {
			continue
		}
		seen[n] = true
		out = append(out, []byte(n))
	}
	return out
}

// genHashSet produces one label set for a hash case; class names the partition class.
func genHashSet(r *gen.Rand, tier string) (lset, string) {
	switch c := r.Intn(12); c {
	case 0: // small typical
		k := 1 + r.Intn(8)
		var s lset
		for _, n := range uniqueNames(r, k) {
			s = append(s, lpair{n, randBytes(r, r.Intn(20), 1)})
		}
		return s, "small"
	case 1: // arbitrary bytes, separators inside names and values, empty values
		k := 1 + r.Intn(5)
		var s lset
		seen := map[string]bool{}
		for i := 0; i < k; i++ {
			n := randBytes(r, 1+r.Intn(6), 2)
			if r.Chance(1, 3) {
				n = append(n, 0xff)
			}
			if seen[string(n)] {
				continue
			}
			seen[string(n)] = true
			v := randBytes(r, r.Intn(8), 2)
			if r.Chance(1, 3) {
				v = append([]byte{0xff}, v...)
			}
			s = append(s, lpair{n, v})
		}
		return s, "raw-bytes"
	case 2, 3, 4, 5: // total size steered to the 1024 boundary: the last label decides fast/slow
		k := 1 + r.Intn(6)
		names := uniqueNames(r, k)
		var s lset
		for _, n := range names {
			s = append(s, lpair{n, randBytes(r, r.Intn(8), 0)})
		}
		sorted := asSet(mkLabels(s))
		// make the total exactly 1024+d by stretching one value
		d := int(r.Range(-3, 3))
		cur := len(refBytes(sorted))
		j := r.Intn(len(sorted))
		if r.Chance(1, 2) {
			j = len(sorted) - 1
		}
		want := 1024 + d - cur
		if want > 0 {
			sorted[j][1] = append(sorted[j][1], runs(r, want)...)
		}
		return sorted, fmt.Sprintf("boundary%+d", d)
	case 6: // one huge first entry: overflow with an empty buffer
		var s lset
		big := 1020 + r.Intn(300)
		s = append(s, lpair{[]byte("__name__"), runs(r, big)})
		for _, n := range uniqueNames(r, r.Intn(4)) {
			if string(n) != "__name__" {
				s = append(s, lpair{n, runs(r, r.Intn(300))})
			}
		}
		return s, "big-first"
	case 7, 8: // many medium labels: overflow somewhere in the middle, several labels after it
		k := 8 + r.Intn(20)
		var s lset
		for _, n := range uniqueNames(r, k) {
			s = append(s, lpair{n, runs(r, 40+r.Intn(120))})
		}
		return s, "overflow-mid"
	case 9: // value lengths around the stringlabels size-encoding switch (255)
		var s lset
		for i, n := range uniqueNames(r, 1+r.Intn(3)) {
			l := 253 + r.Intn(5)
			if i > 0 && r.Chance(1, 2) {
				l = r.Intn(10)
			}
			s = append(s, lpair{n, runs(r, l)})
		}
		return s, "size255"
	case 10: // long name
		var s lset
		s = append(s, lpair{runs(r, 250+r.Intn(900)), runs(r, r.Intn(600))})
		s = append(s, lpair{[]byte("zz"), runs(r, r.Intn(300))})
		return s, "long-name"
	default:
		if tier == "thorough" && r.Chance(1, 6) {
			// a value longer than 65535 bytes: third size byte of the stringlabels encoding
			return lset{{[]byte("__name__"), []byte("m")}, {[]byte("big"), runs(r, 65530+r.Intn(12))}}, "size64k"
		}
		k := r.Intn(4)
		var s lset
		for _, n := range uniqueNames(r, k) {
			s = append(s, lpair{n, randBytes(r, r.Intn(4), 0)})
		}
		return s, "tiny"
	}
}

// ---------------------------------------------------------------- main

type hashDesc struct {
	Kind   string   `json:"kind"`
	Class  string   `json:"class"`
	Labels []string `json:"labels"` // name=value, Go-quoted
	KeyLen int      `json:"key_len"`
	Sum64  uint64   `json:"sum64"`
	Obs    []int64  `json:"obs"`
	Shape  string   `json:"shape"`
	Corpus string   `json:"corpus,omitempty"`
}

func quoteSet(s lset) []string {
	out := make([]string, len(s))
	for i, p := range s {
		v := string(p[1])
		if len(v) > 48 {
			v = v[:48] + fmt.Sprintf("...(%d bytes)", len(p[1]))
		}
		out[i] = fmt.Sprintf("%q=%q", string(p[0]), v)
	}
	return out
}

func main() {
	mode := flag.String("mode", "primary", "primary|child")
	in := flag.String("in", "", "child: input file")
	res := flag.String("res", "", "child: result file")
	f := gallina.ParseFlags()
	if *mode == "child" {
		childMain(*in, *res)
		return
	}
	meta := gallina.NewMeta("C18", f.Seed, f.Tier)
	meta.Rule = "hash cases: corpus + seeded label sets in classes (small, raw bytes incl. 0xff/0x00, total size 1024+d for d in -3..3, first entry > 1 KB, overflow mid-way, value lengths 253..257, long names, 64 KB value in thorough); non-trivial = at least one label, distinct by reference serialisation. select cases: seeded series sets (2..24 series, some with > 1 KB label sets) x two shard counts (one from {1,2,3,4,5,7,8,16,31,32,63,64} by case index, one uniform 1..64) x views (head, block, head+block, replayed head+block, replayed head, head in another creation order, sharding disabled); non-trivial = a view with n >= 2 whose unsharded result has >= 2 series, counted per distinct (series set, view, n)"
	cf := &gallina.CaseFile{Dir: f.Out, Type: "case", PerShard: 90,
		Preamble: "From Coq Require Import List NArith ZArith.\nFrom Verif Require Import lib.Bytes model.Sharding corr.CorrC18.\nImport ListNotations.\nOpen Scope Z_scope.\n",
		Footer:   gallina.StdFooter}
	tmp, err := os.MkdirTemp(f.Out, "scratch")
	if err != nil {
		panic(err)
	}
	defer os.RemoveAll(tmp)

	var others []string
	if f.Variants != "" {
		parts := strings.Split(f.Variants, ",")
		others = parts[1:] // the first one is this binary
	}
	if len(others) == 0 {
		meta.Notes = append(meta.Notes, "no -variants given: only the "+variantName+" StableHash is observed")
	}

	id := 0
	// ---- hash cases
	type hc struct {
		set    lset
		class  string
		corpus string
	}
	var hcs []hc
	corpus := []struct {
		name string
		s    lset
	}{
		{"empty", lset{}},
		{"upstream-test-small", lset{{[]byte("aaa"), []byte("111")}, {[]byte("bbb"), []byte("222")}}},
		{"sep-ambiguity-a", lset{{[]byte("a"), []byte("b\xffc")}}},
		{"sep-ambiguity-b", lset{{[]byte("a"), []byte("b")}, {[]byte("c"), []byte("")}}},
		{"exact-1023", lset{{[]byte("n"), []byte(strings.Repeat("x", 1023-3))}}},
		{"exact-1024", lset{{[]byte("n"), []byte(strings.Repeat("x", 1024-3))}}},
		{"exact-1024-second", lset{{[]byte("a"), []byte(strings.Repeat("y", 500))}, {[]byte("b"), []byte(strings.Repeat("x", 1024-503-3))}}},
		{"exact-1023-second", lset{{[]byte("a"), []byte(strings.Repeat("y", 500))}, {[]byte("b"), []byte(strings.Repeat("x", 1023-503-3))}}},
		{"overflow-then-more", lset{{[]byte("a"), []byte(strings.Repeat("y", 600))}, {[]byte("b"), []byte(strings.Repeat("x", 600))}, {[]byte("c"), []byte("1")}, {[]byte("d"), []byte("")}}},
	}
	for _, c := range corpus {
		hcs = append(hcs, hc{asSet(mkLabels(c.s)), "corpus", c.name})
	}
	nh := f.Count(130, 1200)
	for i := 0; i < nh; i++ {
		r := gen.Fork(f.Seed, i)
		s, class := genHashSet(r, f.Tier)
		hcs = append(hcs, hc{asSet(mkLabels(s)), class, ""})
	}
	sets := make([]lset, len(hcs))
	for i, h := range hcs {
		sets[i] = h.set
	}
	childRes := runChildren(others, tmp, sets)
	slot := map[string]int{"stringlabels": 0, "slicelabels": 1, "dedupelabels": 2}
	seenKey := map[string]bool{}
	for i, h := range hcs {
		ls := mkLabels(h.set)
		key := refBytes(h.set)
		sum := xxhash.Sum64(key)
		obs := []int64{-1, -1, -1}
		obsS := []string{"(-1)%Z", "(-1)%Z", "(-1)%Z"}
		own := labels.StableHash(ls)
		obs[slot[variantName]] = int64(own)
		obsS[slot[variantName]] = gallina.ZU(own)
		for v, hs := range childRes {
			obs[slot[v]] = int64(hs[i])
			obsS[slot[v]] = gallina.ZU(hs[i])
		}
		sl := "None"
		if d, ok := slData(ls); ok && (h.corpus != "" || i%2 == 0) {
			sl = gallina.Some(gBytes(d))
		}
		shape := "hash-" + h.class
		for _, o := range obs {
			if o != -1 && uint64(o) != sum {
				shape = "hash-variant-differs"
			}
		}
		cf.Add(fmt.Sprintf("CHash %d %s %s %s %s %s", id, gLabels(h.set), gBytes(key), gallina.ZU(sum), gallina.List(obsS), sl))
		meta.Case(id, hashDesc{Kind: "hash", Class: h.class, Labels: quoteSet(h.set), KeyLen: len(key), Sum64: sum, Obs: obs, Shape: shape, Corpus: h.corpus})
		meta.Hit("hash:" + h.class)
		if len(key) >= 1024 {
			meta.Hit("hash:slow-path")
		} else {
			meta.Hit("hash:fast-path")
		}
		if len(h.set) > 0 && !seenKey[string(key)] {
			seenKey[string(key)] = true
			meta.Nontrivial++
		}
		meta.Evaluations++
		id++
	}

	id = selCases(f, meta, cf, tmp, id)
	cf.Flush()
	meta.Write(f.Out)
}

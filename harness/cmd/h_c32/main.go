// h_c32: correspondence harness for C32 (histogram query functions).
//
// Native cases: a generated histogram.FloatHistogram (standard exponential schemas with
// negative / zero / positive buckets, or custom bounds) is (a) iterated with the real
// AllBucketIterator / AllReverseBucketIterator, (b) passed to the real promql.HistogramQuantile
// on an ascending grid of quantiles and to promql.HistogramFraction on a family of nested
// intervals, and (c) served from an in-memory storage.Queryable to the real PromQL engine for
// histogram_count / histogram_sum / histogram_avg / histogram_quantile / histogram_fraction
// instant queries (the engine's quantile/fraction values must be bit-identical to the direct
// calls).  Classic cases: a generated bucket set (shuffled, duplicate bounds, non-monotonic
// counts, tiny deltas, NaN counts) goes through promql.BucketQuantile and through
// histogram_quantile(q, m_bucket) in the engine.  Everything observed is written as exact
// rationals for Coq.
package main

import (
	"context"
	"fmt"
	"math"
	"sort"
	"strconv"
	"strings"
	"time"

	"github.com/prometheus/prometheus/model/histogram"
	"github.com/prometheus/prometheus/model/labels"
	"github.com/prometheus/prometheus/promql"
	"github.com/prometheus/prometheus/promql/parser"
	"github.com/prometheus/prometheus/promql/parser/posrange"
	"github.com/prometheus/prometheus/storage"
	"github.com/prometheus/prometheus/tsdb/chunkenc"
	"github.com/prometheus/prometheus/tsdb/chunks"
	"github.com/prometheus/prometheus/util/annotations"

	"verif/harness/internal/gallina"
	"verif/harness/internal/gen"
)

// ---- in-memory series ------------------------------------------------------------------------

type smp struct {
	t  int64
	f  float64
	fh *histogram.FloatHistogram
	h  *histogram.Histogram
}

func (s smp) T() int64                      { return s.t }
func (s smp) ST() int64                     { return 0 }
func (s smp) F() float64                    { return s.f }
func (s smp) H() *histogram.Histogram       { return s.h }
func (s smp) FH() *histogram.FloatHistogram {
	if s.h != nil {
		return s.h.ToFloat(nil)
	}
	return s.fh
}
func (s smp) Type() chunkenc.ValueType {
	if s.h != nil {
		return chunkenc.ValHistogram
	}
	if s.fh != nil {
		return chunkenc.ValFloatHistogram
	}
	return chunkenc.ValFloat
}
func (s smp) Copy() chunks.Sample {
	if s.h != nil {
		return smp{t: s.t, h: s.h.Copy()}
	}
	if s.fh != nil {
		return smp{t: s.t, fh: s.fh.Copy()}
	}
	return s
}

// sliceIter is a chunkenc.Iterator over a sample slice that behaves like the TSDB chunk
// iterators at the end of the data: once exhausted, AtT keeps returning the last timestamp
// (storage's list iterator panics there instead).
type sliceIter struct {
	ss  []smp
	idx int // -1 before the first Next/Seek
	t   int64
}

func (it *sliceIter) cur() smp { return it.ss[it.idx] }
func (it *sliceIter) Next() chunkenc.ValueType {
	if it.idx+1 >= len(it.ss) {
		it.idx = len(it.ss)
		return chunkenc.ValNone
	}
	it.idx++
	it.t = it.cur().t
	return it.cur().Type()
}
func (it *sliceIter) Seek(t int64) chunkenc.ValueType {
	if it.idx >= len(it.ss) {
		return chunkenc.ValNone
	}
	if it.idx < 0 {
		if vt := it.Next(); vt == chunkenc.ValNone {
			return vt
		}
	}
	for it.cur().t < t {
		if vt := it.Next(); vt == chunkenc.ValNone {
			return vt
		}
	}
	return it.cur().Type()
}
func (it *sliceIter) At() (int64, float64) { return it.cur().t, it.cur().f }
func (it *sliceIter) AtHistogram(*histogram.Histogram) (int64, *histogram.Histogram) {
	return it.cur().t, it.cur().h.Copy()
}
func (it *sliceIter) AtFloatHistogram(fh *histogram.FloatHistogram) (int64, *histogram.FloatHistogram) {
	src := it.cur().FH()
	if fh == nil {
		return it.cur().t, src.Copy()
	}
	src.CopyTo(fh)
	return it.cur().t, fh
}
func (it *sliceIter) AtT() int64  { return it.t }
func (it *sliceIter) AtST() int64 { return 0 }
func (*sliceIter) Err() error     { return nil }

// queryableMulti serves one series with several samples.
func queryableMulti(l labels.Labels, ss []smp) storage.Queryable {
	return &storage.MockQueryable{MockQuerier: &storage.MockQuerier{
		SelectMockFunction: func(bool, *storage.SelectHints, ...*labels.Matcher) storage.SeriesSet {
			sr := &storage.SeriesEntry{Lset: l, SampleIteratorFn: func(chunkenc.Iterator) chunkenc.Iterator {
				return &sliceIter{ss: ss, idx: -1, t: math.MinInt64}
			}}
			return &listSet{ss: []storage.Series{sr}}
		}}}
}

// runRange evaluates expr as a range query; returns value per step timestamp (absent steps missing).
func runRange(ng *promql.Engine, q storage.Queryable, expr string, start, end, step int64) (out map[int64]float64, err error) {
	defer func() {
		if r := recover(); r != nil {
			err = fmt.Errorf("panic: %v", r)
		}
	}()
	qry, err := ng.NewRangeQuery(context.Background(), q, nil, expr, time.UnixMilli(start), time.UnixMilli(end), time.Duration(step)*time.Millisecond)
	if err != nil {
		return nil, err
	}
	defer qry.Close()
	res := qry.Exec(context.Background())
	if res.Err != nil {
		return nil, res.Err
	}
	mat, err := res.Matrix()
	if err != nil {
		return nil, err
	}
	out = map[int64]float64{}
	if len(mat) > 1 {
		return nil, fmt.Errorf("%d result series", len(mat))
	}
	for _, sr := range mat {
		if len(sr.Histograms) > 0 {
			return nil, fmt.Errorf("histogram result")
		}
		for _, p := range sr.Floats {
			out[p.T] = p.F
		}
	}
	return out, nil
}

// runAt evaluates expr as an instant query at ts; present=false when the result is empty.
func runAt(ng *promql.Engine, q storage.Queryable, expr string, ts int64) (v float64, present bool, err error) {
	defer func() {
		if r := recover(); r != nil {
			err = fmt.Errorf("panic: %v", r)
		}
	}()
	qry, err := ng.NewInstantQuery(context.Background(), q, nil, expr, time.UnixMilli(ts))
	if err != nil {
		return 0, false, err
	}
	defer qry.Close()
	res := qry.Exec(context.Background())
	if res.Err != nil {
		return 0, false, res.Err
	}
	vec, err := res.Vector()
	if err != nil {
		return 0, false, err
	}
	switch len(vec) {
	case 0:
		return 0, false, nil
	case 1:
		if vec[0].H != nil {
			return 0, false, fmt.Errorf("histogram result")
		}
		return vec[0].F, true, nil
	}
	return 0, false, fmt.Errorf("%d result samples", len(vec))
}

type listSet struct {
	ss []storage.Series
	i  int
}

func (l *listSet) Next() bool                       { l.i++; return l.i <= len(l.ss) }
func (l *listSet) At() storage.Series               { return l.ss[l.i-1] }
func (*listSet) Err() error                         { return nil }
func (*listSet) Warnings() annotations.Annotations  { return nil }

type ser struct {
	l labels.Labels
	s smp
}

func queryable(series []ser) storage.Queryable {
	return &storage.MockQueryable{MockQuerier: &storage.MockQuerier{
		SelectMockFunction: func(bool, *storage.SelectHints, ...*labels.Matcher) storage.SeriesSet {
			out := make([]storage.Series, len(series))
			for i, s := range series {
				out[i] = storage.NewListSeries(s.l, []chunks.Sample{s.s})
			}
			sort.Slice(out, func(a, b int) bool { return labels.Compare(out[a].Labels(), out[b].Labels()) < 0 })
			return &listSet{ss: out}
		}}}
}

func newEngine() *promql.Engine {
	return promql.NewEngine(promql.EngineOpts{
		MaxSamples:               1000000,
		Timeout:                  100 * time.Second,
		NoStepSubqueryIntervalFn: func(int64) int64 { return 60000 },
		EnableAtModifier:         true,
		EnableNegativeOffset:     true,
		LookbackDelta:            5 * time.Minute,
		Parser:                   parser.NewParser(parser.Options{}),
	})
}

// engine with experimental functions (histogram_quantiles)
func newEngineExp() *promql.Engine {
	return promql.NewEngine(promql.EngineOpts{
		MaxSamples:               1000000,
		Timeout:                  100 * time.Second,
		NoStepSubqueryIntervalFn: func(int64) int64 { return 60000 },
		EnableAtModifier:         true,
		EnableNegativeOffset:     true,
		LookbackDelta:            5 * time.Minute,
		Parser:                   parser.NewParser(parser.Options{EnableExperimentalFunctions: true}),
	})
}

// shape key: histogram_quantiles (plural) re-uses the bucket slice that BucketQuantile sorted and
// coalesced in place; with duplicate upper bounds the later quantiles see a stale tail
const shapePluralDup = "plural-quantiles-duplicate-le-stale-tail"

// runPlural evaluates histogram_quantiles(<metric>, "q", qs...) in chunks of at most 8 quantiles
// (in the given order) and returns the result per quantile.
func runPlural(ng *promql.Engine, qbl storage.Queryable, metric string, qs []float64) (out []float64, err error) {
	defer func() {
		if r := recover(); r != nil {
			err = fmt.Errorf("panic: %v", r)
		}
	}()
	for start := 0; start < len(qs); start += 8 {
		end := start + 8
		if end > len(qs) {
			end = len(qs)
		}
		var args []string
		for _, q := range qs[start:end] {
			args = append(args, lit(q))
		}
		expr := fmt.Sprintf("histogram_quantiles(%s, \"q\", %s)", metric, strings.Join(args, ", "))
		qry, err := ng.NewInstantQuery(context.Background(), qbl, nil, expr, time.UnixMilli(evalTs))
		if err != nil {
			return nil, err
		}
		res := qry.Exec(context.Background())
		if res.Err != nil {
			qry.Close()
			return nil, res.Err
		}
		vec, err := res.Vector()
		if err != nil {
			qry.Close()
			return nil, err
		}
		byQ := map[string]float64{}
		for _, s := range vec {
			if s.H != nil {
				qry.Close()
				return nil, fmt.Errorf("histogram result")
			}
			byQ[s.Metric.Get("q")] = s.F
		}
		qry.Close()
		if len(byQ) != end-start || len(vec) != end-start {
			return nil, fmt.Errorf("%s: %d result samples for %d quantiles", expr, len(vec), end-start)
		}
		for _, q := range qs[start:end] {
			v, ok := byQ[labels.FormatOpenMetricsFloat(q)]
			if !ok {
				return nil, fmt.Errorf("%s: no sample with q=%s", expr, labels.FormatOpenMetricsFloat(q))
			}
			out = append(out, v)
		}
	}
	return out, nil
}

const evalTs = 1000

// run evaluates expr as an instant query and returns the single float result.
func run(ng *promql.Engine, q storage.Queryable, expr string) (v float64, err error) {
	defer func() {
		if r := recover(); r != nil {
			err = fmt.Errorf("panic: %v", r)
		}
	}()
	qry, err := ng.NewInstantQuery(context.Background(), q, nil, expr, time.UnixMilli(evalTs))
	if err != nil {
		return 0, err
	}
	defer qry.Close()
	res := qry.Exec(context.Background())
	if res.Err != nil {
		return 0, res.Err
	}
	vec, err := res.Vector()
	if err != nil {
		return 0, err
	}
	if len(vec) != 1 {
		return 0, fmt.Errorf("%d result samples", len(vec))
	}
	if vec[0].H != nil {
		return 0, fmt.Errorf("histogram result")
	}
	return vec[0].F, nil
}

func sameFloat(a, b float64) bool {
	if math.IsNaN(a) || math.IsNaN(b) {
		return math.IsNaN(a) && math.IsNaN(b)
	}
	return a == b
}

func lit(f float64) string {
	switch {
	case math.IsNaN(f):
		return "NaN"
	case math.IsInf(f, 1):
		return "Inf"
	case math.IsInf(f, -1):
		return "-Inf"
	}
	return strconv.FormatFloat(f, 'g', -1, 64)
}

// ---- printing (exact) --------------------------------------------------------------------------

// mantExp: |f| = m * 2^e with m odd (or 0).
func mantExp(f float64) (neg bool, m uint64, e int) {
	if f == 0 {
		return false, 0, 0
	}
	if f < 0 {
		neg, f = true, -f
	}
	fr, ex := math.Frexp(f)
	m = uint64(fr * (1 << 53))
	e = ex - 53
	for m&1 == 0 {
		m >>= 1
		e++
	}
	return neg, m, e
}

func qTerm(f float64) string {
	if math.IsNaN(f) || math.IsInf(f, 0) {
		panic("qTerm: non-finite")
	}
	neg, m, e := mantExp(f)
	c := "qp"
	if neg {
		c = "qn"
	}
	return fmt.Sprintf("(%s %d %d)", c, m, e+1100)
}

func extTerm(f float64) string {
	switch {
	case math.IsInf(f, 1):
		return "PInf"
	case math.IsInf(f, -1):
		return "NInf"
	case math.IsNaN(f):
		panic("extTerm: NaN")
	}
	return "(Fin " + qTerm(f) + ")"
}

func resTerm(f float64) string {
	if math.IsNaN(f) {
		return "RNaN"
	}
	return "(R " + extTerm(f) + ")"
}

func list(items []string, ty string) string {
	if len(items) == 0 {
		return "([] : list (" + ty + "))"
	}
	return "[" + strings.Join(items, "; ") + "]"
}

// ---- generators --------------------------------------------------------------------------------

func dy(r *gen.Rand, lo, hi int64, den int64) float64 { return float64(r.Range(lo*den, hi*den)) / float64(den) }

func genCount(r *gen.Rand, style int) float64 {
	if r.Chance(3, 10) {
		return 0
	}
	switch style {
	case 0:
		return float64(r.Range(1, 12))
	case 1:
		return float64(r.Range(1, 40)) / 4
	default:
		return float64(r.Range(1, 3000))
	}
}

func genSpans(r *gen.Rand, first int32, maxBuckets int) ([]histogram.Span, int) {
	var spans []histogram.Span
	n := 0
	ns := r.Intn(3) + 1
	off := first
	for i := 0; i < ns && n < maxBuckets; i++ {
		l := r.Intn(3) + 1
		if n+l > maxBuckets {
			l = maxBuckets - n
		}
		spans = append(spans, histogram.Span{Offset: off, Length: uint32(l)})
		n += l
		off = int32(r.Intn(3))
	}
	return spans, n
}

type ncase struct {
	h      *histogram.FloatHistogram
	corpus string
	kind   string
}

func finishCounts(r *gen.Rand, h *histogram.FloatHistogram, kind *string) {
	var tot float64
	for _, c := range h.PositiveBuckets {
		tot += c
	}
	for _, c := range h.NegativeBuckets {
		tot += c
	}
	tot += h.ZeroCount
	h.Count = tot
	h.Sum = dy(r, -1000, 1000, 8)
	switch x := r.Intn(20); {
	case x == 0: // NaN observations: count exceeds the buckets, sum NaN
		h.Count = tot + float64(r.Range(1, 5))
		h.Sum = math.NaN()
		*kind += "+nan-obs"
	case x == 1: // +Inf and -Inf observed: sum NaN, count consistent
		h.Sum = math.NaN()
		*kind += "+nan-sum"
	case x == 2: // inconsistent: count above the buckets (the "should not happen" branch)
		h.Count = tot + float64(r.Range(1, 3))
		*kind += "+count-high"
	case x == 3 && tot > 2: // inconsistent: count below the buckets (the clamp)
		h.Count = tot - 1
		*kind += "+count-low"
	case x == 4:
		h.Sum = math.Inf(1 - 2*r.Intn(2))
		*kind += "+inf-sum"
	}
}

func genExp(r *gen.Rand) ncase {
	h := &histogram.FloatHistogram{}
	h.Schema = int32(r.Range(-2, 3))
	kind := fmt.Sprintf("exp%d", h.Schema)
	zts := []float64{0, 1.0 / 1024, 0.5, 0.75, 1}
	h.ZeroThreshold = zts[r.Intn(len(zts))]
	style := r.Intn(3)
	lowIdx := func() int32 {
		if h.ZeroThreshold == 0 {
			return int32(r.Range(-6, 4))
		}
		// smallest index whose upper bound exceeds the zero threshold, plus a gap
		x := math.Log2(h.ZeroThreshold)
		var base float64
		if h.Schema >= 0 {
			base = x * float64(int(1)<<uint(h.Schema))
		} else {
			base = x / float64(int(1)<<uint(-h.Schema))
		}
		return int32(math.Floor(base)) + 1 + int32(r.Intn(3))
	}
	side := r.Intn(8) // 0: pos only, 1: neg only, 2: zero only, else both
	if side != 1 && side != 2 {
		sp, n := genSpans(r, lowIdx(), 6)
		h.PositiveSpans = sp
		for i := 0; i < n; i++ {
			h.PositiveBuckets = append(h.PositiveBuckets, genCount(r, style))
		}
	}
	if side != 0 && side != 2 {
		sp, n := genSpans(r, lowIdx(), 6)
		h.NegativeSpans = sp
		for i := 0; i < n; i++ {
			h.NegativeBuckets = append(h.NegativeBuckets, genCount(r, style))
		}
	}
	if r.Chance(6, 10) || side == 2 {
		h.ZeroCount = genCount(r, style)
	}
	switch side {
	case 0:
		kind += "/pos"
	case 1:
		kind += "/neg"
	case 2:
		kind += "/zero"
	default:
		kind += "/both"
	}
	if h.ZeroCount > 0 {
		kind += "+z"
	}
	finishCounts(r, h, &kind)
	return ncase{h: h, kind: kind}
}

func genCustom(r *gen.Rand) ncase {
	h := &histogram.FloatHistogram{Schema: histogram.CustomBucketsSchema}
	k := r.Intn(7)
	set := map[float64]bool{}
	allNeg := r.Chance(1, 6) // all bounds negative: the +Inf overflow bucket straddles zero
	for len(set) < k {
		var v float64
		sel := r.Intn(4)
		if allNeg {
			set[-dy(r, 1, 32, 4)] = true
			continue
		}
		switch sel {
		case 0:
			v = dy(r, -8, 2, 4)
		case 1:
			v = float64(r.Range(0, 3))
		default:
			v = dy(r, 0, 64, 8)
		}
		set[v] = true
	}
	for v := range set {
		h.CustomValues = append(h.CustomValues, v)
	}
	sort.Float64s(h.CustomValues)
	style := r.Intn(3)
	// spans over the k+1 buckets from a presence mask
	var spans []histogram.Span
	n := 0
	gap := 0
	dense := r.Chance(1, 2)
	for idx := 0; idx <= k; idx++ {
		if !dense && r.Chance(1, 4) {
			gap++
			continue
		}
		if len(spans) > 0 && gap == 0 {
			spans[len(spans)-1].Length++
		} else {
			spans = append(spans, histogram.Span{Offset: int32(gap), Length: 1})
		}
		gap = 0
		n++
	}
	h.PositiveSpans = spans
	for i := 0; i < n; i++ {
		h.PositiveBuckets = append(h.PositiveBuckets, genCount(r, style))
	}
	kind := "custom"
	if k == 0 {
		kind = "custom/nobounds"
	} else if allNeg {
		kind = "custom/allneg"
	}
	finishCounts(r, h, &kind)
	return ncase{h: h, kind: kind}
}

func genNative(r *gen.Rand) ncase {
	if r.Chance(2, 5) {
		return genCustom(r)
	}
	return genExp(r)
}

func nativeCorpus() []ncase {
	var l []ncase
	// issue-16578 style: NaN observations
	l = append(l, ncase{corpus: "nan-obs", h: &histogram.FloatHistogram{Schema: 0, Count: 10, Sum: math.NaN(),
		PositiveSpans: []histogram.Span{{Offset: 0, Length: 2}}, PositiveBuckets: []float64{3, 4}}})
	// regression (fixed by e11e8e804f): witness of C32_quantile_old_refuted — custom buckets (0,1]:3,
	// (1,2]:4, three NaN observations; the old code interpolated in the last bucket
	l = append(l, ncase{corpus: "nan-sum-old-witness", h: &histogram.FloatHistogram{Schema: histogram.CustomBucketsSchema, Count: 10, Sum: math.NaN(),
		CustomValues: []float64{0, 1, 2}, PositiveSpans: []histogram.Span{{Offset: 1, Length: 2}}, PositiveBuckets: []float64{3, 4}}})
	// same with an empty trailing bucket (the old code returned +Inf)
	l = append(l, ncase{corpus: "nan-sum-old-empty-tail", h: &histogram.FloatHistogram{Schema: 0, Count: 12, Sum: math.NaN(),
		PositiveSpans: []histogram.Span{{Offset: 0, Length: 3}}, PositiveBuckets: []float64{3, 4, 0}}})
	// empty leading and trailing buckets, queried at q = 0 and q = 1 (the search must skip them)
	l = append(l, ncase{corpus: "empty-edge-buckets", h: &histogram.FloatHistogram{Schema: 0, Count: 7, Sum: 10,
		PositiveSpans: []histogram.Span{{Offset: 0, Length: 4}}, PositiveBuckets: []float64{0, 3, 4, 0}}})
	l = append(l, ncase{corpus: "empty-edge-buckets-neg", h: &histogram.FloatHistogram{Schema: 1, Count: 6, Sum: -10,
		NegativeSpans: []histogram.Span{{Offset: -1, Length: 4}}, NegativeBuckets: []float64{0, 1, 5, 0}}})
	l = append(l, ncase{corpus: "empty-edge-buckets-custom", h: &histogram.FloatHistogram{Schema: histogram.CustomBucketsSchema, Count: 5, Sum: 10,
		CustomValues: []float64{1, 2, 4}, PositiveSpans: []histogram.Span{{Offset: 0, Length: 4}}, PositiveBuckets: []float64{0, 2, 3, 0}}})
	// custom bounds all negative, observations in the (-5,+Inf) overflow bucket (it has Lower < 0 < Upper
	// but is not a zero bucket)
	l = append(l, ncase{corpus: "custom-all-negative-overflow", h: &histogram.FloatHistogram{Schema: histogram.CustomBucketsSchema, Count: 9, Sum: -3,
		CustomValues: []float64{-10, -5}, PositiveSpans: []histogram.Span{{Offset: 0, Length: 3}}, PositiveBuckets: []float64{2, 3, 4}}})
	l = append(l, ncase{corpus: "custom-all-negative-only-overflow", h: &histogram.FloatHistogram{Schema: histogram.CustomBucketsSchema, Count: 4, Sum: 3,
		CustomValues: []float64{-2}, PositiveSpans: []histogram.Span{{Offset: 1, Length: 1}}, PositiveBuckets: []float64{4}}})
	// gap between populated buckets, rank exactly at the boundary (forward / reverse tie)
	l = append(l, ncase{corpus: "gap-tie", h: &histogram.FloatHistogram{Schema: 0, Count: 8, Sum: 20,
		PositiveSpans: []histogram.Span{{Offset: 1, Length: 1}, {Offset: 1, Length: 1}}, PositiveBuckets: []float64{4, 4}}})
	// only negative buckets + zero bucket
	l = append(l, ncase{corpus: "neg-zero", h: &histogram.FloatHistogram{Schema: 1, Count: 9, Sum: -5, ZeroThreshold: 0.5, ZeroCount: 3,
		NegativeSpans: []histogram.Span{{Offset: 0, Length: 3}}, NegativeBuckets: []float64{1, 2, 3}}})
	// custom buckets with a boundary at 0 and negative boundaries
	l = append(l, ncase{corpus: "custom-neg-bounds", h: &histogram.FloatHistogram{Schema: histogram.CustomBucketsSchema, Count: 10, Sum: 3,
		CustomValues: []float64{-10, -1, 0, 5}, PositiveSpans: []histogram.Span{{Offset: 0, Length: 5}}, PositiveBuckets: []float64{1, 2, 3, 2, 2}}})
	// custom bucket straddling zero
	l = append(l, ncase{corpus: "custom-straddle", h: &histogram.FloatHistogram{Schema: histogram.CustomBucketsSchema, Count: 8, Sum: 3,
		CustomValues: []float64{-10, 5, 20}, PositiveSpans: []histogram.Span{{Offset: 0, Length: 4}}, PositiveBuckets: []float64{2, 2, 2, 2}}})
	// custom histogram with no bounds: the only bucket is (-Inf, +Inf)
	l = append(l, ncase{corpus: "custom-nobounds", h: &histogram.FloatHistogram{Schema: histogram.CustomBucketsSchema, Count: 4, Sum: 3,
		PositiveSpans: []histogram.Span{{Offset: 0, Length: 1}}, PositiveBuckets: []float64{4}}})
	// empty histogram
	l = append(l, ncase{corpus: "empty", h: &histogram.FloatHistogram{Schema: 0, Count: 0, Sum: 0}})
	// all buckets empty but a count
	l = append(l, ncase{corpus: "no-buckets-count", h: &histogram.FloatHistogram{Schema: 0, Count: 3, Sum: math.NaN()}})
	// zero bucket only
	l = append(l, ncase{corpus: "zero-only", h: &histogram.FloatHistogram{Schema: 0, Count: 5, Sum: 0, ZeroThreshold: 0.25, ZeroCount: 5}})
	return l
}

type bk struct{ lo, up, c float64 }

func iterate(it histogram.BucketIterator[float64]) []bk {
	var out []bk
	for it.Next() {
		b := it.At()
		out = append(out, bk{b.Lower, b.Upper, b.Count})
	}
	return out
}

var qGrid = func() []float64 {
	g := []float64{-0.5}
	for i := 0; i <= 16; i++ {
		g = append(g, float64(i)/16)
	}
	return append(g, 1.5)
}()

func quantiles(r *gen.Rand) []float64 {
	g := append([]float64(nil), qGrid...)
	for i := 0; i < 4; i++ {
		g = append(g, float64(r.Range(0, 256))/256)
	}
	sort.Float64s(g)
	out := g[:1]
	for _, v := range g[1:] {
		if v != out[len(out)-1] {
			out = append(out, v)
		}
	}
	return out
}

// ---- classic -----------------------------------------------------------------------------------

type cb struct {
	le string
	ub float64
	c  float64
}

type ccase struct {
	bs     []cb
	corpus string
	kind   string
}

func genClassic(r *gen.Rand) ccase {
	k := r.Intn(8) + 1
	set := map[float64]bool{}
	for len(set) < k {
		switch r.Intn(4) {
		case 0:
			set[dy(r, -4, 1, 2)] = true
		default:
			set[dy(r, 0, 32, 4)] = true
		}
	}
	var ubs []float64
	for v := range set {
		ubs = append(ubs, v)
	}
	sort.Float64s(ubs)
	kind := "classic"
	big := r.Chance(1, 3)
	var cum float64
	if big {
		cum = float64(r.Range(100000, 4000000))
	}
	var bs []cb
	add := func(ub, c float64, alt int) {
		le := lit(ub)
		if math.IsInf(ub, 1) {
			le = "+Inf"
		}
		switch alt {
		case 1:
			if math.IsInf(ub, 1) {
				le = "Inf"
			} else {
				le = strconv.FormatFloat(ub, 'e', -1, 64)
			}
		}
		bs = append(bs, cb{le: le, ub: ub, c: c})
	}
	for i := 0; i <= k; i++ {
		ub := math.Inf(1)
		if i < k {
			ub = ubs[i]
		}
		if !r.Chance(3, 10) {
			cum += float64(r.Range(1, 10))
		}
		add(ub, cum, 0)
	}
	if r.Chance(1, 10) { // no +Inf bucket
		bs = bs[:len(bs)-1]
		kind += "+noinf"
	}
	// perturbations
	if r.Chance(1, 2) && len(bs) > 1 { // non-monotonic dip / bump
		i := r.Intn(len(bs))
		d := float64(r.Range(1, 8))
		if r.Bool() && bs[i].c >= d {
			bs[i].c -= d
		} else {
			bs[i].c += d
		}
		kind += "+nonmono"
	}
	if big && r.Chance(1, 2) { // numerically insignificant delta (relative ~1e-14)
		i := r.Intn(len(bs))
		bs[i].c = bs[i].c * (1 + float64(1-2*r.Intn(2))*math.Ldexp(1, -46))
		kind += "+tiny"
	}
	if big && r.Chance(1, 4) { // small but significant delta (relative ~1e-10)
		i := r.Intn(len(bs))
		bs[i].c = bs[i].c * (1 - math.Ldexp(1, -33))
		kind += "+small"
	}
	if r.Chance(1, 3) { // duplicate upper bound under another spelling
		i := r.Intn(len(bs))
		add(bs[i].ub, float64(r.Range(1, 5)), 1)
		kind += "+dup"
	}
	if r.Chance(1, 10) {
		bs[r.Intn(len(bs))].c = math.NaN()
		kind += "+nan"
	}
	// shuffle
	for i := len(bs) - 1; i > 0; i-- {
		j := r.Intn(i + 1)
		bs[i], bs[j] = bs[j], bs[i]
	}
	return ccase{bs: bs, kind: kind}
}

func classicCorpus() []ccase {
	mk := func(name string, v ...float64) ccase {
		var bs []cb
		seen := map[float64]bool{}
		for i := 0; i+1 < len(v); i += 2 {
			le := lit(v[i])
			if math.IsInf(v[i], 1) {
				le = "+Inf"
			}
			if seen[v[i]] { // a duplicate bound needs another spelling of the le label
				le = strconv.FormatFloat(v[i], 'e', -1, 64)
				if math.IsInf(v[i], 1) {
					le = "Inf"
				}
			}
			seen[v[i]] = true
			bs = append(bs, cb{le: le, ub: v[i], c: v[i+1]})
		}
		return ccase{bs: bs, corpus: name}
	}
	inf := math.Inf(1)
	return []ccase{
		mk("plain", 1, 2, 2, 5, 4, 9, inf, 10),
		mk("empty-first-bucket", 1, 0, 2, 5, inf, 10), // q=0 -> 0/0
		mk("nonmono", 1, 6, 2, 4, 4, 9, inf, 8),
		mk("neg-bound-first", -2, 3, 0, 4, 3, 9, inf, 9),
		mk("only-inf", inf, 5),
		mk("dup-bounds", 1, 2, 2, 5, 2, 3, inf, 10, inf, 2),
		mk("all-zero", 1, 0, 2, 0, inf, 0),
		mk("nan-middle", 1, 1, 2, math.NaN(), 3, 5, inf, 10),
		mk("nan-last", 1, 1, 2, 3, inf, math.NaN()),
	}
}

// ---- range cases -------------------------------------------------------------------------------

type rsmp struct {
	t  int64
	h  *histogram.Histogram
	fh *histogram.FloatHistogram
}

type rcase struct {
	ss               []rsmp
	start, end, step int64
	kind, corpus     string
}

func intHist(counts []int64, zero uint64, sum float64) *histogram.Histogram {
	h := &histogram.Histogram{Schema: 0, ZeroThreshold: 0.001, ZeroCount: zero, Sum: sum,
		PositiveSpans: []histogram.Span{{Offset: 0, Length: uint32(len(counts))}}}
	var prev int64
	tot := zero
	for _, c := range counts {
		h.PositiveBuckets = append(h.PositiveBuckets, c-prev)
		prev = c
		tot += uint64(c)
	}
	h.Count = tot
	return h
}

// mkRange builds a series from per-sample totals: the k-th sample has buckets [base, 2*base, base+1] scaled.
func mkRangeSeries(r *gen.Rand, times []int64, style int) []rsmp {
	var out []rsmp
	level := r.Range(1, 5)
	for i, t := range times {
		if i > 0 {
			if r.Chance(1, 4) { // counter reset
				level = r.Range(0, 2)
			} else {
				level += r.Range(0, 6)
			}
		}
		counts := []int64{level, 2*level + 1, level / 2}
		sum := float64(level)*2.5 + float64(r.Range(-8, 8))/4
		h := intHist(counts, uint64(level%3), sum)
		isInt := style == 0 || (style == 2 && r.Bool())
		if isInt {
			out = append(out, rsmp{t: t, h: h})
		} else {
			out = append(out, rsmp{t: t, fh: h.ToFloat(nil)})
		}
	}
	return out
}

func genRange(r *gen.Rand) rcase {
	n := int(r.Range(2, 8))
	ivs := []int64{60000, 240000, 300000, 360000, 420000, 660000}
	var times []int64
	t := int64(600000) + r.Range(0, 5)*15000
	sparse := r.Intn(3) // 0: all > lookback, 1: mixed, 2: dense
	for i := 0; i < n; i++ {
		times = append(times, t)
		switch sparse {
		case 0:
			t += ivs[3+r.Intn(3)]
		case 1:
			t += ivs[r.Intn(len(ivs))]
		default:
			t += ivs[r.Intn(2)]
		}
	}
	steps := []int64{30000, 60000, 120000, 300000, 360000, 420000, 780000}
	step := steps[r.Intn(len(steps))]
	start := times[0] - r.Range(0, 2)*step
	if r.Chance(1, 3) || start < 0 {
		start = times[0] // a step exactly on a sample
	}
	end := times[len(times)-1] + 2*step + 360000
	for (end-start)/step > 60 {
		end -= step
	}
	style := r.Intn(3)
	kind := []string{"sparse", "mixed", "dense"}[sparse] + "/" + []string{"int", "float", "int+float"}[style]
	return rcase{ss: mkRangeSeries(r, times, style), start: start, end: end, step: step, kind: kind}
}

func rangeCorpus() []rcase {
	r := gen.New(7)
	mk := func(name string, style int, start, end, step int64, times ...int64) rcase {
		return rcase{ss: mkRangeSeries(r, times, style), start: start, end: end, step: step, kind: "corpus", corpus: name}
	}
	return []rcase{
		// 6m scrape interval, steps aligned with the samples: every step needs a Seek beyond the lookback
		mk("sparse-6m-aligned", 0, 600000, 2400000, 360000, 600000, 960000, 1320000, 1680000, 2040000),
		mk("sparse-6m-aligned-float", 1, 600000, 2400000, 360000, 600000, 960000, 1320000, 1680000, 2040000),
		// 6m interval, 1m steps: the Seek lands on a sample in the future of the step
		mk("sparse-6m-step-1m", 0, 600000, 2400000, 60000, 600000, 960000, 1320000, 1680000, 2040000),
		mk("sparse-11m-step-2m", 2, 540000, 3300000, 120000, 600000, 1260000, 1920000, 2580000),
		mk("dense-1m-step-1m", 0, 600000, 1200000, 60000, 600000, 660000, 720000, 780000, 840000, 900000),
	}
}

// ---- main --------------------------------------------------------------------------------------

type desc struct {
	Kind   string   `json:"kind"`
	Hist   string   `json:"hist,omitempty"`
	Bks    []string `json:"buckets,omitempty"`
	Qs     []string `json:"quantiles"`
	Fs     []string `json:"fractions,omitempty"`
	Shape  string   `json:"shape"`
	Corpus string   `json:"corpus,omitempty"`
}

func main() {
	f := gallina.ParseFlags()
	meta := gallina.NewMeta("C32", f.Seed, f.Tier)
	meta.Rule = "corpus + seeded cases; native: FloatHistogram with schema -2..3 or custom bounds, spans with gaps, empty buckets, zero bucket, count/sum inconsistencies (NaN observations, NaN/Inf sum, count above/below the buckets); classic: 1..8 finite bounds (+Inf mostly present), shuffled, duplicates, non-monotonic counts, tiny/small relative deltas, NaN counts; each queried on an ascending quantile grid (k/16, 4 random k/256, -0.5, 1.5) and (native) on all intervals between 7 sorted points incl. +-Inf; non-trivial = histogram has >= 2 populated buckets (native) or >= 2 distinct bounds incl. +Inf with positive total (classic); distinct by (histogram, grid)"
	cf := &gallina.CaseFile{Dir: f.Out, Type: "case", PerShard: 400,
		Preamble: "From Coq Require Import List ZArith QArith Uint63.\nFrom Verif Require Import model.Quantile corr.CorrC32.\nImport ListNotations.\nOpen Scope uint63_scope.\n",
		Footer:   gallina.StdFooter}
	ng := newEngine()
	ngx := newEngineExp()
	id := 0
	seen := map[string]bool{}
	goViol := func(shape, what string) {
		meta.GoViol = append(meta.GoViol, gallina.GoViolation{ID: fmt.Sprint(id), Shape: shape, What: what})
	}

	emitNative := func(c ncase, r *gen.Rand) {
		h := c.h
		if err := h.Validate(); err != nil {
			panic(fmt.Sprintf("generator produced an invalid histogram: %v (%v)", err, h))
		}
		fw := iterate(h.AllBucketIterator())
		rv := iterate(h.AllReverseBucketIterator())
		revOK := len(fw) == len(rv)
		for i := 0; revOK && i < len(fw); i++ {
			o := rv[len(rv)-1-i]
			revOK = sameFloat(fw[i].lo, o.lo) && sameFloat(fw[i].up, o.up) && sameFloat(fw[i].c, o.c)
		}
		qbl := queryable([]ser{{l: labels.FromStrings("__name__", "m", "job", "j"), s: smp{t: evalTs, fh: h}}})
		shape := "ok"
		eng := func(expr string, direct float64, check bool) float64 {
			v, err := run(ng, qbl, expr)
			if err != nil {
				shape = "engine-error"
				goViol(shape, expr+": "+err.Error())
				return math.NaN()
			}
			if check && !sameFloat(v, direct) {
				shape = "engine-differs"
				goViol(shape, fmt.Sprintf("%s = %v but direct call = %v", expr, v, direct))
			}
			return v
		}
		cnt := eng("histogram_count(m)", 0, false)
		sum := eng("histogram_sum(m)", 0, false)
		avg := eng("histogram_avg(m)", 0, false)

		var qTerms, qS []string
		populated := 0
		for _, b := range fw {
			if b.c > 0 {
				populated++
			}
		}
		ngrid := quantiles(r)
		var nsing []float64
		for _, q := range ngrid {
			v, _ := promql.HistogramQuantile(q, h.Copy(), "m", posrange.PositionRange{})
			nsing = append(nsing, v)
			eng(fmt.Sprintf("histogram_quantile(%s, m)", lit(q)), v, true)
			qTerms = append(qTerms, "("+qTerm(q)+", "+resTerm(v)+")")
			qS = append(qS, fmt.Sprintf("%v:%v", q, v))
			if math.IsNaN(v) && q >= 0 && q <= 1 && h.Count != 0 {
				meta.Hit("native-quantile-nan")
			}
		}
		if pl, err := runPlural(ngx, qbl, "m", ngrid); err != nil {
			shape = "engine-error"
			goViol(shape, "histogram_quantiles: "+err.Error())
		} else {
			for i, q := range ngrid {
				if !sameFloat(pl[i], nsing[i]) {
					shape = "plural-differs"
					goViol(shape, fmt.Sprintf("histogram_quantiles(m, \"q\", ..., %v, ...) gives %v but HistogramQuantile = %v", q, pl[i], nsing[i]))
					break
				}
			}
		}
		// interval end points: +-Inf, bucket boundaries, interior points, zero
		pts := map[float64]bool{math.Inf(-1): true, math.Inf(1): true}
		var cand []float64
		for _, b := range fw {
			for _, x := range []float64{b.lo, b.up} {
				if !math.IsInf(x, 0) {
					cand = append(cand, x)
				}
			}
			if !math.IsInf(b.lo, 0) && !math.IsInf(b.up, 0) {
				cand = append(cand, (b.lo+b.up)/2, b.lo+(b.up-b.lo)/4)
			} else if !math.IsInf(b.up, 0) {
				cand = append(cand, b.up-1, b.up/2)
			} else if !math.IsInf(b.lo, 0) {
				cand = append(cand, b.lo+1)
			}
		}
		cand = append(cand, 0, dy(r, -16, 64, 4))
		for i := 0; i < 5; i++ {
			pts[cand[r.Intn(len(cand))]] = true
		}
		var ps []float64
		for p := range pts {
			ps = append(ps, p)
		}
		sort.Float64s(ps)
		var fTerms, fS []string
		addF := func(lo, up float64) {
			v, _ := promql.HistogramFraction(lo, up, h.Copy(), "m", posrange.PositionRange{})
			eng(fmt.Sprintf("histogram_fraction(%s, %s, m)", lit(lo), lit(up)), v, true)
			fTerms = append(fTerms, "("+extTerm(lo)+", "+extTerm(up)+", "+resTerm(v)+")")
			fS = append(fS, fmt.Sprintf("[%v,%v]:%v", lo, up, v))
		}
		for i := range ps {
			for j := i + 1; j < len(ps); j++ {
				addF(ps[i], ps[j])
			}
		}
		addF(ps[len(ps)/2], ps[len(ps)/2]) // empty interval
		addF(ps[len(ps)-1], ps[0])          // reversed interval

		var bTerms, bS []string
		for _, b := range fw {
			bTerms = append(bTerms, fmt.Sprintf("mkB %s %s %s", extTerm(b.lo), extTerm(b.up), qTerm(b.c)))
			bS = append(bS, fmt.Sprintf("(%v,%v]:%v", b.lo, b.up, b.c))
		}
		hTerm := fmt.Sprintf("(mkH %s %s %s %s %s %s)", qTerm(h.Count), resTerm(h.Sum),
			gallina.Bool(h.UsesCustomBuckets()), gallina.Bool(len(h.PositiveBuckets) > 0), gallina.Bool(len(h.NegativeBuckets) > 0),
			list(bTerms, "bucket"))
		cf.Add(fmt.Sprintf("CN (mkN (zi %d) %s %s %s %s %s %s %s)", id, hTerm, gallina.Bool(revOK),
			resTerm(cnt), resTerm(sum), resTerm(avg), list(qTerms, "Q * res"), list(fTerms, "ext * ext * res")))
		kind := c.kind
		if c.corpus != "" {
			kind = "corpus"
		}
		meta.Hit("native")
		for _, part := range strings.Split(kind, "+") {
			meta.Hit("native:" + part)
		}
		key := h.String() + fmt.Sprint(qS)
		if populated >= 2 && !seen[key] {
			meta.Nontrivial++
		}
		seen[key] = true
		if !revOK {
			meta.Hit("reverse-iterator-differs")
		}
		meta.Case(id, desc{Kind: "native:" + kind, Hist: h.String(), Bks: bS, Qs: qS, Fs: fS, Shape: shape, Corpus: c.corpus})
		meta.Evaluations++
		id++
	}

	emitClassic := func(c ccase, r *gen.Rand) {
		var series []ser
		hasNaN := false
		for _, b := range c.bs {
			series = append(series, ser{l: labels.FromStrings("__name__", "m_bucket", "job", "j", "le", b.le), s: smp{t: evalTs, f: b.c}})
			if math.IsNaN(b.c) {
				hasNaN = true
			}
		}
		qbl := queryable(series)
		shape := "ok"
		var qTerms, qS []string
		grid := quantiles(r)
		var singular []float64
		for _, q := range grid {
			bs := make(promql.Buckets, len(c.bs))
			for i, b := range c.bs {
				bs[i] = promql.Bucket{UpperBound: b.ub, Count: b.c}
			}
			v, forced, _, _, _, _ := promql.BucketQuantile(q, bs)
			ev, err := run(ng, qbl, fmt.Sprintf("histogram_quantile(%s, m_bucket)", lit(q)))
			if err != nil {
				shape = "engine-error"
				goViol(shape, err.Error())
			} else if !sameFloat(ev, v) {
				shape = "engine-differs"
				goViol(shape, fmt.Sprintf("histogram_quantile(%v, m_bucket) = %v but BucketQuantile = %v", q, ev, v))
			}
			singular = append(singular, v)
			qTerms = append(qTerms, "("+qTerm(q)+", "+resTerm(v)+", "+gallina.Bool(forced)+")")
			qS = append(qS, fmt.Sprintf("%v:%v", q, v))
			if math.IsNaN(v) && q >= 0 && q <= 1 {
				meta.Hit("classic-quantile-nan")
			}
			if forced {
				meta.Hit("classic-forced-monotonic-eval")
			}
		}
		// histogram_quantiles (plural) must give, for every quantile, what histogram_quantile gives
		dupLe := false
		{
			seenUb := map[float64]bool{}
			for _, b := range c.bs {
				if seenUb[b.ub] {
					dupLe = true
				}
				seenUb[b.ub] = true
			}
		}
		if pl, err := runPlural(ngx, qbl, "m_bucket", grid); err != nil {
			if shape == "ok" {
				shape = "engine-error"
			}
			goViol("engine-error", "histogram_quantiles: "+err.Error())
		} else {
			for i, q := range grid {
				if !sameFloat(pl[i], singular[i]) {
					sh := "plural-differs"
					if dupLe {
						sh = shapePluralDup
					}
					if shape == "ok" {
						shape = sh
					}
					goViol(sh, fmt.Sprintf("histogram_quantiles(m_bucket, \"q\", ..., %v, ...) gives %v but histogram_quantile(%v, m_bucket) = %v", q, pl[i], q, singular[i]))
					meta.Hit("classic-plural-differs")
					break
				}
			}
		}
		var bTerms, bS []string
		ubs := map[float64]bool{}
		var maxc float64
		for _, b := range c.bs {
			cnt := "None"
			if !math.IsNaN(b.c) {
				cnt = "(Some " + qTerm(b.c) + ")"
				maxc = math.Max(maxc, b.c)
			}
			bTerms = append(bTerms, "("+extTerm(b.ub)+", "+cnt+")")
			bS = append(bS, fmt.Sprintf("%s:%v", b.le, b.c))
			ubs[b.ub] = true
		}
		cf.Add(fmt.Sprintf("CC (mkC (zi %d) %s %s)", id, list(bTerms, "ext * option Q"), list(qTerms, "Q * res * bool")))
		kind := c.kind
		if c.corpus != "" {
			kind = "corpus"
		}
		meta.Hit("classic")
		for _, part := range strings.Split(kind, "+") {
			meta.Hit("classic:" + part)
		}
		if hasNaN {
			meta.Hit("classic-not-modelled(NaN count)")
		}
		key := fmt.Sprint(bS, qS)
		if len(ubs) >= 2 && ubs[math.Inf(1)] && maxc > 0 && !seen[key] {
			meta.Nontrivial++
		}
		seen[key] = true
		meta.Case(id, desc{Kind: "classic:" + kind, Bks: bS, Qs: qS, Shape: shape, Corpus: c.corpus})
		meta.Evaluations++
		id++
	}

	// ---- range queries over a sparse histogram series (stats-only decoding path) ----
	const lookback = 300000
	emitRange := func(c rcase) {
		l := labels.FromStrings("__name__", "r", "job", "j")
		var ss []smp
		var sTerms, sS []string
		for _, x := range c.ss {
			if x.h != nil {
				ss = append(ss, smp{t: x.t, h: x.h})
			} else {
				ss = append(ss, smp{t: x.t, fh: x.fh})
			}
			fh := smp{h: x.h, fh: x.fh}.FH()
			sTerms = append(sTerms, fmt.Sprintf("(zi %d, %s, %s)", x.t, qTerm(fh.Count), resTerm(fh.Sum)))
			kind := "f"
			if x.h != nil {
				kind = "i"
			}
			sS = append(sS, fmt.Sprintf("%d:%s{count:%v,sum:%v}", x.t, kind, fh.Count, fh.Sum))
		}
		qbl := queryableMulti(l, ss)
		shape := "ok"
		fail := func(sh, what string) {
			if shape == "ok" {
				shape = sh
			}
			goViol(sh, what)
		}
		fns := []string{"histogram_count", "histogram_sum", "histogram_avg", "histogram_stddev", "histogram_stdvar"}
		obs := map[string]map[int64]float64{}
		for _, fn := range fns {
			m, err := runRange(ng, qbl, fn+"(r)", c.start, c.end, c.step)
			if err != nil {
				fail("engine-error", fn+"(r) range: "+err.Error())
				m = map[int64]float64{}
			}
			obs[fn] = m
		}
		optTerm := func(m map[int64]float64, t int64) string {
			if v, ok := m[t]; ok {
				return "(Some " + resTerm(v) + ")"
			}
			return "None"
		}
		var stTerms, stS []string
		for t := c.start; t <= c.end; t += c.step {
			// every step of the range query equals the instant query at that time
			for _, fn := range fns {
				iv, ip, err := runAt(ng, qbl, fn+"(r)", t)
				if err != nil {
					fail("engine-error", fn+"(r) instant: "+err.Error())
					continue
				}
				rv, rp := obs[fn][t]
				if ip != rp || (ip && !sameFloat(iv, rv)) {
					fail("range-step-differs-from-instant", fmt.Sprintf("%s(r) at step %d of range [%d,%d] step %d: range query %v (present %v), instant query %v (present %v)", fn, t, c.start, c.end, c.step, rv, rp, iv, ip))
				}
			}
			stTerms = append(stTerms, fmt.Sprintf("(zi %d, %s, %s, %s)", t, optTerm(obs["histogram_count"], t), optTerm(obs["histogram_sum"], t), optTerm(obs["histogram_avg"], t)))
			stS = append(stS, fmt.Sprintf("%d:%s/%s/%s", t, optTerm(obs["histogram_count"], t), optTerm(obs["histogram_sum"], t), optTerm(obs["histogram_avg"], t)))
		}
		cf.Add(fmt.Sprintf("CR (mkR (zi %d) (zi %d) %s %s)", id, lookback, list(sTerms, "Z * Q * res"), list(stTerms, "Z * option res * option res * option res")))
		meta.Hit("range")
		meta.Hit("range:" + c.kind)
		if len(c.ss) >= 2 {
			meta.Nontrivial++
		}
		meta.Case(id, desc{Kind: "range:" + c.kind, Bks: sS, Qs: []string{fmt.Sprintf("start=%d end=%d step=%d", c.start, c.end, c.step)}, Fs: stS, Shape: shape, Corpus: c.corpus})
		meta.Evaluations++
		id++
	}
	for _, c := range rangeCorpus() {
		emitRange(c)
	}
	for i := 0; i < f.Count(40, 1200); i++ {
		emitRange(genRange(gen.Fork(f.Seed, 3000000+i)))
	}

	for i, c := range nativeCorpus() {
		emitNative(c, gen.Fork(f.Seed, 1000000+i))
	}
	for i, c := range classicCorpus() {
		emitClassic(c, gen.Fork(f.Seed, 2000000+i))
	}
	n := f.Count(140, 4000)
	for i := 0; i < n; i++ {
		r := gen.Fork(f.Seed, i)
		if i%5 < 3 {
			emitNative(genNative(r), r)
		} else {
			emitClassic(genClassic(r), r)
		}
	}
	cf.Flush()
	meta.Write(f.Out)
}

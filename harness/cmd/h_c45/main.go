// h_c45: correspondence harness for C45 (recording rules write their results and staleness
// markers).
//
// Every case is a history over ONE real TSDB (util/teststorage) shared by up to three real
// rules.Group objects whose rules are real rules.RecordingRule values evaluated through the
// real PromQL engine (rules.EngineQueryFunc): scraped samples and scrape staleness markers are
// appended directly, groups are (re)loaded with rules.NewGroup + Group.CopyState(old) exactly
// as Manager.Update does, evaluated with Group.Eval at generated timestamps, and removed through
// the markStale path of Group.run (export shims VerifRun + VerifMarkStaleAndStop = markStale; stop(), as
// Manager.Update does).
// The harness wraps the Appendable handed to the groups and records every Append call of every
// appender (labels, timestamp, value, error class), attributes the appenders to rule evaluations
// (the QueryFunc is wrapped to count rule queries) or to cleanupStaleSeries, and finally dumps
// the complete storage contents.  Everything is printed as Gallina terms (primitive integers).
package main

import (
	"context"
	"errors"
	"fmt"
	"math"
	"os"
	"path/filepath"
	"runtime/pprof"
	"sort"
	"strconv"
	"strings"
	"sync"
	"time"

	"github.com/prometheus/prometheus/model/labels"
	"github.com/prometheus/prometheus/model/value"
	"github.com/prometheus/prometheus/promql"
	"github.com/prometheus/prometheus/promql/parser"
	"github.com/prometheus/prometheus/rules"
	"github.com/prometheus/prometheus/storage"
	"github.com/prometheus/prometheus/tsdb"
	"github.com/prometheus/prometheus/util/teststorage"

	"verif/harness/internal/gallina"
	"verif/harness/internal/gen"
)

// ---------- the small universe of names ----------
var labelNames = []string{"__name__", "a", "b", "c", "d"} // id = index; byte order = id order

const (
	nRawNames  = 3              // m0..m2  -> name ids 0..2
	nRuleNames = 6              // r0..r5  -> name ids 10..15
	ruleBase   = 10             //
	nVals      = 4              // x0..x3
	encOff     = int64(1) << 20 // shift of expression constants
	sampleOff  = int64(1) << 23 // shift of sample values
	wallBase   = int64(50_000_000)
)

func nameStr(id int) string {
	if id >= ruleBase {
		return "r" + strconv.Itoa(id-ruleBase)
	}
	return "m" + strconv.Itoa(id)
}

func nameID(s string) (int, bool) {
	if len(s) < 2 {
		return 0, false
	}
	n, err := strconv.Atoi(s[1:])
	if err != nil {
		return 0, false
	}
	switch s[0] {
	case 'm':
		return n, true
	case 'r':
		return n + ruleBase, true
	}
	return 0, false
}

func valStr(id int) string { return "x" + strconv.Itoa(id) }

type lset [][2]int // sorted by label id

func (l lset) key() string {
	var sb strings.Builder
	for _, p := range l {
		fmt.Fprintf(&sb, "%d=%d,", p[0], p[1])
	}
	return sb.String()
}

func (l lset) toLabels() labels.Labels {
	b := labels.NewScratchBuilder(len(l))
	for _, p := range l {
		if p[0] == 0 {
			b.Add("__name__", nameStr(p[1]))
		} else {
			b.Add(labelNames[p[0]], valStr(p[1]))
		}
	}
	b.Sort()
	return b.Labels()
}

func fromLabels(ls labels.Labels) (lset, bool) {
	var out lset
	ok := true
	ls.Range(func(l labels.Label) {
		id := -1
		for i, n := range labelNames {
			if n == l.Name {
				id = i
			}
		}
		if id < 0 {
			ok = false
			return
		}
		if id == 0 {
			n, k := nameID(l.Value)
			if !k {
				ok = false
				return
			}
			out = append(out, [2]int{0, n})
			return
		}
		if len(l.Value) < 2 || l.Value[0] != 'x' {
			ok = false
			return
		}
		n, err := strconv.Atoi(l.Value[1:])
		if err != nil {
			ok = false
			return
		}
		out = append(out, [2]int{id, n})
	})
	sort.Slice(out, func(i, j int) bool { return out[i][0] < out[j][0] })
	return out, ok
}

// ---------- specs of rules, groups, operations ----------
type exprSpec struct {
	Name   int   `json:"name"`
	MK     int   `json:"mk,omitempty"` // matcher label id (0 = none)
	MV     int   `json:"mv,omitempty"`
	By     bool  `json:"by,omitempty"`
	ByMask int   `json:"bymask,omitempty"` // bit i = label id i
	Mul    int64 `json:"mul"`
	Add    int64 `json:"add"`
	GT     bool  `json:"gt,omitempty"`
	GTV    int64 `json:"gtv,omitempty"`
	NameRe []int `json:"namere,omitempty"` // Go-side only: {__name__=~"n1|n2"} instead of the name
}

func (e exprSpec) String() string {
	s := nameStr(e.Name)
	if e.MK != 0 {
		s += fmt.Sprintf(`{%s="%s"}`, labelNames[e.MK], valStr(e.MV))
	}
	if len(e.NameRe) > 0 {
		ns := make([]string, len(e.NameRe))
		for i, n := range e.NameRe {
			ns[i] = nameStr(n)
		}
		s = `{__name__=~"` + strings.Join(ns, "|") + `"`
		if e.MK != 0 {
			s += fmt.Sprintf(`,%s="%s"`, labelNames[e.MK], valStr(e.MV))
		}
		s += "}"
	}
	if e.By {
		var ls []string
		for i := 1; i < len(labelNames); i++ {
			if e.ByMask&(1<<i) != 0 {
				ls = append(ls, labelNames[i])
			}
		}
		s = "sum by (" + strings.Join(ls, ", ") + ") (" + s + ")"
	}
	s = fmt.Sprintf("(%s * %d + %d)", s, e.Mul, e.Add)
	if e.GT {
		s += fmt.Sprintf(" > %d", e.GTV)
	}
	return s
}

type ruleSpec struct {
	Name   int      `json:"name"`
	Labels lset     `json:"labels,omitempty"`
	E      exprSpec `json:"e"`
}

func (r ruleSpec) keyStr() string { return strconv.Itoa(r.Name) + "|" + r.Labels.key() }

type op struct {
	Kind  string     `json:"op"` // raw load eval remove
	L     lset       `json:"l,omitempty"`
	T     int64      `json:"t,omitempty"`
	V     int64      `json:"v,omitempty"`
	Stale bool       `json:"stale,omitempty"`
	G     int        `json:"g,omitempty"`
	Rules []ruleSpec `json:"rules,omitempty"`
	Off   int64      `json:"off,omitempty"`
	Limit int        `json:"limit,omitempty"`
	What  string     `json:"what,omitempty"` // kind of reload (statistics only)
}

// ---------- recorded behaviour ----------
type arec struct {
	L    labels.Labels
	T    int64
	V    float64
	Code int // 0 ok, 1 out of order, 2 duplicate sample for timestamp, 3 other error
}

type appLog struct {
	q     int // number of rule queries issued before this appender was opened
	recs  []arec
	done  bool
	cerr  error
	rback bool
}

type event struct {
	Kind  int // 0 raw, 1 rule, 2 cleanup
	Code  int
	G, RI int
	Has   bool
	Recs  []arec
}

type sut struct {
	mtx     sync.Mutex
	st      *teststorage.TestStorage
	qf      rules.QueryFunc
	opts    *rules.ManagerOptions
	groups  map[int]*rules.Group
	gspec   map[int]op
	iter    map[int]chan struct{} // signalled by the group's (no-op) evaluation iteration function
	conc    bool                  // concurrent rule evaluation enabled (comparison run)
	delays  map[string]time.Duration
	base    int64
	apps    []*appLog
	queries int
	commit  chan struct{}
	windows []window
	viol    []string
	parser  parser.Parser
	stats   map[string]int
}

type window struct{ lo, hi, canon int64 }

type logApp struct {
	storage.Appender
	s   *sut
	log *appLog
}

func classify(err error) int {
	switch {
	case err == nil:
		return 0
	case errors.Is(err, storage.ErrOutOfOrderSample):
		return 1
	case errors.Is(err, storage.ErrDuplicateSampleForTimestamp):
		return 2
	}
	return 3
}

func (a *logApp) Append(ref storage.SeriesRef, l labels.Labels, t int64, v float64) (storage.SeriesRef, error) {
	r, err := a.Appender.Append(ref, l, t, v)
	a.s.mtx.Lock()
	a.log.recs = append(a.log.recs, arec{L: l.Copy(), T: t, V: v, Code: classify(err)})
	a.s.mtx.Unlock()
	return r, err
}

func (a *logApp) Commit() error {
	err := a.Appender.Commit()
	a.s.mtx.Lock()
	a.log.done, a.log.cerr = true, err
	a.s.mtx.Unlock()
	select {
	case a.s.commit <- struct{}{}:
	default:
	}
	return err
}

func (a *logApp) Rollback() error {
	a.s.mtx.Lock()
	a.log.rback = true
	a.s.mtx.Unlock()
	return a.Appender.Rollback()
}

func (s *sut) Appender(ctx context.Context) storage.Appender {
	s.mtx.Lock()
	defer s.mtx.Unlock()
	l := &appLog{q: s.queries}
	s.apps = append(s.apps, l)
	return &logApp{Appender: s.st.Appender(ctx), s: s, log: l}
}

func (s *sut) violf(f string, a ...any) { s.viol = append(s.viol, fmt.Sprintf(f, a...)) }

const delayUnit = 10 * time.Millisecond

func newSut(eng *promql.Engine, metrics *rules.Metrics, conc bool) (*sut, error) {
	st, err := teststorage.NewWithError(func(o *tsdb.Options) {
		// per-case storages: no WAL, small series-map striping, no exemplar ring (none is used);
		// sample admission and querying are unaffected
		o.WALSegmentSize = -1
		o.StripeSize = 64
		o.EnableExemplarStorage = false
		o.MaxExemplars = 0
	})
	if err != nil {
		return nil, err
	}
	s := &sut{st: st, groups: map[int]*rules.Group{}, gspec: map[int]op{}, iter: map[int]chan struct{}{}, commit: make(chan struct{}, 16),
		parser: parser.NewParser(parser.Options{}), stats: map[string]int{}, conc: conc, delays: map[string]time.Duration{}}
	s.base = (time.Now().UnixMilli()/1000)*1000 - 3*3600*1000
	inner := rules.EngineQueryFunc(eng, st)
	s.qf = func(ctx context.Context, q string, t time.Time) (promql.Vector, error) {
		s.mtx.Lock()
		s.queries++
		d := s.delays[q]
		s.mtx.Unlock()
		if d > 0 {
			// concurrent comparison run: earlier rules answer later, so that a consumer that is
			// wrongly batched with its producer really runs first
			time.Sleep(d)
		}
		return inner(ctx, q, t)
	}
	s.opts = &rules.ManagerOptions{Context: context.Background(), Queryable: st, Appendable: s,
		QueryFunc: s.qf, Metrics: metrics}
	if conc {
		// as cmd/prometheus with --enable-feature=concurrent-rule-eval: NewManager fills in the
		// concurrent RuleConcurrencyController and the RuleDependencyController
		s.opts.ConcurrentEvalsEnabled = true
		s.opts.MaxConcurrentEvals = 4
		rules.NewManager(s.opts)
	}
	return s, nil
}

func (s *sut) close() { _ = s.st.Close() }

func (s *sut) newGroup(o op) (*rules.Group, chan struct{}, error) {
	rs := make([]rules.Rule, len(o.Rules))
	for i, r := range o.Rules {
		e, err := s.parser.ParseExpr(r.E.String())
		if err != nil {
			return nil, nil, fmt.Errorf("parse %q: %w", r.E.String(), err)
		}
		rs[i] = rules.NewRecordingRule(nameStr(r.Name), e, r.Labels.toLabels())
	}
	if s.conc {
		// Manager.LoadGroups: dependencies between the rules are analysed and stored on the rules
		s.opts.RuleDependencyController.AnalyseRules(rs)
		s.mtx.Lock()
		for i, r := range o.Rules {
			if d := time.Duration(len(o.Rules)-1-i) * delayUnit; d > s.delays[r.E.String()] {
				s.delays[r.E.String()] = d
			}
		}
		s.mtx.Unlock()
	}
	off := time.Duration(o.Off) * time.Millisecond
	ch := make(chan struct{}, 1)
	return rules.NewGroup(rules.GroupOptions{Name: "g" + strconv.Itoa(o.G), File: "f", Interval: time.Millisecond,
		Limit: o.Limit, Rules: rs, Opts: s.opts, QueryOffset: &off,
		EvalIterationFunc: func(context.Context, *rules.Group, time.Time) {
			select {
			case ch <- struct{}{}:
			default:
			}
		}}), ch, nil
}

func (s *sut) resetLog() {
	s.mtx.Lock()
	s.apps, s.queries = nil, 0
	s.mtx.Unlock()
	for {
		select {
		case <-s.commit:
			continue
		default:
		}
		break
	}
}

func (s *sut) exec(o op) []event {
	ctx := context.Background()
	switch o.Kind {
	case "raw":
		app := s.st.Appender(ctx)
		v := float64(o.V)
		if o.Stale {
			v = math.Float64frombits(value.StaleNaN)
		}
		_, err := app.Append(0, o.L.toLabels(), s.base+o.T, v)
		if cerr := app.Commit(); cerr != nil {
			s.violf("raw commit: %v", cerr)
		}
		return []event{{Kind: 0, Code: classify(err)}}
	case "load":
		ng, ch, err := s.newGroup(o)
		if err != nil {
			s.violf("%v", err)
			return nil
		}
		if old, ok := s.groups[o.G]; ok {
			ng.CopyState(old)
		}
		s.groups[o.G], s.gspec[o.G], s.iter[o.G] = ng, o, ch
		return nil
	case "eval":
		g, ok := s.groups[o.G]
		if !ok {
			return nil
		}
		if s.conc {
			g.Eval(ctx, time.UnixMilli(s.base+o.T)) // only the storage contents are compared
			return nil
		}
		n := len(s.gspec[o.G].Rules)
		cleanupExpected := len(g.VerifStaleSeries()) > 0
		s.resetLog()
		g.Eval(ctx, time.UnixMilli(s.base+o.T))
		s.mtx.Lock()
		apps, queries := s.apps, s.queries
		s.mtx.Unlock()
		var evs []event
		if queries != n {
			s.violf("group %d: %d rule queries for %d rules", o.G, queries, n)
		}
		perRule := make([]*appLog, n)
		var cl *appLog
		for k, a := range apps {
			if !a.done || a.cerr != nil || a.rback {
				s.violf("group %d: appender %d not committed cleanly (%v)", o.G, k, a.cerr)
			}
			if cleanupExpected && k == len(apps)-1 {
				cl = a
				continue
			}
			ri := a.q - 1
			if ri < 0 || ri >= n || perRule[ri] != nil {
				s.violf("group %d: cannot attribute appender %d (q=%d)", o.G, k, a.q)
				continue
			}
			perRule[ri] = a
		}
		if cleanupExpected && (cl == nil || cl.q != n) {
			s.violf("group %d: staleSeries not empty but no cleanup appender", o.G)
		}
		for i := 0; i < n; i++ {
			e := event{Kind: 1, G: o.G, RI: i}
			if perRule[i] != nil {
				e.Has, e.Recs = true, perRule[i].recs
			}
			evs = append(evs, e)
		}
		if cl != nil {
			evs = append(evs, event{Kind: 2, G: o.G, Recs: cl.recs})
		}
		return evs
	case "remove":
		g, ok := s.groups[o.G]
		if !ok {
			return nil
		}
		expected := len(g.VerifStaleSeries())
		for _, m := range g.VerifSeriesInPreviousEval() {
			expected += len(m)
		}
		off := s.gspec[o.G].Off
		s.resetLog()
		time.Sleep(2 * time.Millisecond)
		// start the group's loop, wait until it is past its initial wait (first iteration), then
		// do what Manager.Update does to a removed group
		go g.VerifRun(ctx)
		select {
		case <-s.iter[o.G]:
		case <-time.After(60 * time.Second):
			s.violf("group %d: run loop did not start", o.G)
		}
		w0 := time.Now().UnixMilli()
		g.VerifMarkStaleAndStop()
		var evs []event
		if expected > 0 {
			select {
			case <-s.commit:
			case <-time.After(60 * time.Second):
				s.violf("group %d: no staleness markers committed within 60s of removal", o.G)
			}
			s.mtx.Lock()
			apps := s.apps
			s.mtx.Unlock()
			if len(apps) != 1 {
				s.violf("group %d removal: %d appenders", o.G, len(apps))
			}
			for _, a := range apps {
				evs = append(evs, event{Kind: 2, G: o.G, Recs: a.recs})
			}
		} else {
			time.Sleep(5 * time.Millisecond)
		}
		w1 := time.Now().UnixMilli()
		s.windows = append(s.windows, window{lo: w0 - off - s.base, hi: w1 - off - s.base, canon: o.T - off})
		time.Sleep(2 * time.Millisecond)
		delete(s.groups, o.G)
		delete(s.gspec, o.G)
		return evs
	}
	return nil
}

// canonical relative time: wall-clock stamps of removals are mapped to the removal's nominal time
func (s *sut) canonT(t int64) int64 {
	r := t - s.base
	for _, w := range s.windows {
		if w.lo <= r && r <= w.hi {
			return w.canon
		}
	}
	return r
}

type seriesDump struct {
	L  labels.Labels
	Ts []int64
	Vs []float64
}

func (s *sut) dump() []seriesDump {
	q, err := s.st.Querier(math.MinInt64, math.MaxInt64)
	if err != nil {
		s.violf("querier: %v", err)
		return nil
	}
	defer q.Close()
	ss := q.Select(context.Background(), true, nil, labels.MustNewMatcher(labels.MatchRegexp, "__name__", ".+"))
	var out []seriesDump
	for ss.Next() {
		sr := ss.At()
		d := seriesDump{L: sr.Labels().Copy()}
		it := sr.Iterator(nil)
		for it.Next() != 0 {
			t, v := it.At()
			d.Ts = append(d.Ts, t)
			d.Vs = append(d.Vs, v)
		}
		if it.Err() != nil {
			s.violf("iterator: %v", it.Err())
		}
		out = append(out, d)
	}
	if ss.Err() != nil {
		s.violf("select: %v", ss.Err())
	}
	return out
}

// batches: what the real dependency analysis and the real concurrent controller make of the
// rules of a (re)load: rule indexes + 1, every batch terminated by 0.
func (s *sut) batches(ana *rules.ManagerOptions, o op) []int64 {
	rs := make([]rules.Rule, len(o.Rules))
	for i, r := range o.Rules {
		e, err := s.parser.ParseExpr(r.E.String())
		if err != nil {
			s.violf("parse %q: %v", r.E.String(), err)
			return nil
		}
		rs[i] = rules.NewRecordingRule(nameStr(r.Name), e, r.Labels.toLabels())
	}
	ana.RuleDependencyController.AnalyseRules(rs)
	g := rules.NewGroup(rules.GroupOptions{Name: "ana", File: "f", Interval: time.Minute, Rules: rs, Opts: ana})
	var out []int64
	for _, b := range ana.RuleConcurrencyController.SplitGroupIntoBatches(context.Background(), g) {
		for _, i := range b {
			out = append(out, int64(i)+1)
		}
		out = append(out, 0)
	}
	return out
}

// canonical text of the storage contents (relative timestamps), for comparing two runs
func (s *sut) dumpText() []string {
	var out []string
	for _, d := range s.dump() {
		var sb strings.Builder
		sb.WriteString(d.L.String())
		for i := range d.Ts {
			fmt.Fprintf(&sb, " %d:%x", s.canonT(d.Ts[i]), math.Float64bits(d.Vs[i]))
		}
		out = append(out, sb.String())
	}
	sort.Strings(out)
	return out
}

// ---------- printing ----------
type printer struct {
	tbl      map[string]int
	lsets    []lset
	s        *sut
	overflow bool // a value / index exceeded the transport range: the case is dropped (counted)
}

func (p *printer) idx(l lset) int {
	k := l.key()
	if i, ok := p.tbl[k]; ok {
		return i
	}
	p.tbl[k] = len(p.lsets)
	p.lsets = append(p.lsets, l)
	return len(p.lsets) - 1
}

func (p *printer) idxLabels(ls labels.Labels) int {
	l, ok := fromLabels(ls)
	if !ok {
		p.s.violf("labels outside the universe: %s", ls.String())
		return 1 << 30
	}
	return p.idx(l)
}

func ints(vs ...int64) string {
	it := make([]string, len(vs))
	for i, v := range vs {
		if v < 0 {
			panic("negative primitive integer")
		}
		it[i] = strconv.FormatInt(v, 10)
	}
	return "[" + strings.Join(it, ";") + "]"
}

// encT: timestamps / offsets are printed as they are (non-negative on the unchanged tree)
func encT(t int64) int64 {
	if t < 0 || t >= 1<<60 {
		return 1 << 61 // absurd value -> mismatch on the Coq side
	}
	return t
}

func enc(v int64) int64 {
	if v <= -encOff || v >= encOff {
		return 2*encOff - 1 // an absurd value -> mismatch on the Coq side
	}
	return v + encOff
}

func (p *printer) encVal(v float64) int64 {
	if value.IsStaleNaN(v) {
		return 0
	}
	if v != math.Trunc(v) || math.IsNaN(v) || math.IsInf(v, 0) {
		p.s.violf("non-integer sample value %v", v)
		return 2*sampleOff - 1
	}
	if math.Abs(v) >= float64(sampleOff) {
		p.overflow = true
		return 2*sampleOff - 1
	}
	return int64(v) + sampleOff
}

func b2i(b bool) int64 {
	if b {
		return 1
	}
	return 0
}

// pack one Append call / sample into one primitive integer:
// t (28 bits) | value+2^23, 0 = marker (24 bits) | error class (2 bits) | label set index (9 bits)
func (p *printer) pack(li int, code int, v int64, t int64) int64 {
	if t < 0 || t >= 1<<28 {
		p.s.violf("timestamp %d outside the transport range", t)
		t = 1<<28 - 1
	}
	if v < 0 || v >= 1<<24 {
		p.s.violf("value outside the transport range")
		v = 1<<24 - 1
	}
	if li < 0 || li >= 1<<9 {
		p.overflow = true
		li = 1<<9 - 1
	}
	return t | v<<28 | int64(code&3)<<52 | int64(li)<<54
}

func (p *printer) op(o op) string {
	switch o.Kind {
	case "raw":
		v := o.V + sampleOff
		if o.Stale {
			v = 0
		}
		return ints(0, p.pack(p.idx(o.L), 0, v, o.T))
	case "load":
		vs := []int64{1 + 4*int64(o.G) + 16*int64(o.Limit) + 256*encT(o.Off)}
		for _, r := range o.Rules {
			a := int64(r.Name) | int64(p.idx(r.Labels))<<5 | int64(r.E.Name)<<17 | int64(r.E.MK)<<22 | int64(r.E.MV)<<25 |
				b2i(r.E.By)<<28 | int64(r.E.ByMask)<<29 | b2i(r.E.GT)<<36
			b := enc(r.E.Mul) | enc(r.E.Add)<<21 | enc(r.E.GTV)<<42
			vs = append(vs, a, b)
		}
		return ints(vs...)
	case "eval":
		return ints(2 + 4*int64(o.G) + 16*encT(o.T))
	case "remove":
		return ints(3 + 4*int64(o.G) + 16*encT(o.T))
	}
	panic("op kind")
}

func (p *printer) recs(vs []int64, rs []arec) []int64 {
	for _, r := range rs {
		vs = append(vs, p.pack(p.idxLabels(r.L), r.Code, p.encVal(r.V), p.s.canonT(r.T)))
	}
	return vs
}

func (p *printer) event(e event) string {
	switch e.Kind {
	case 0:
		return ints(0 + 4*int64(e.Code))
	case 1:
		return ints(p.recs([]int64{1 + 4*int64(e.G) + 16*b2i(e.Has) + 32*int64(e.RI)}, e.Recs)...)
	default:
		return ints(p.recs([]int64{2 + 4*int64(e.G)}, e.Recs)...)
	}
}

// a label set as one integer: 9 bits per label (k*32 + v + 1), first label lowest
func packLset(l lset) int64 {
	var x int64
	for i := len(l) - 1; i >= 0; i-- {
		x = x<<9 | int64(l[i][0]*32+l[i][1]+1)
	}
	return x
}

func list(items []string) string {
	if len(items) == 0 {
		return "[]"
	}
	return "[" + strings.Join(items, ";\n   ") + "]"
}

// ---------- generators ----------
type genState struct {
	r      *gen.Rand
	groups map[int]*op // current configuration of each loaded group
	lastTS map[int]int64
}

func (g *genState) genLabels() lset {
	r := g.r
	switch r.Intn(10) {
	case 0, 1, 2, 3:
		return nil
	case 4, 5:
		return lset{{3, r.Intn(2)}}
	case 6:
		return lset{{1, r.Intn(2)}} // overrides a: may merge series -> duplicate label sets
	case 7:
		return lset{{4, r.Intn(2)}}
	case 8:
		return lset{{2, r.Intn(2)}, {3, r.Intn(2)}}
	default:
		return lset{{3, 0}}
	}
}

func (g *genState) genExpr() exprSpec {
	r := g.r
	var e exprSpec
	if r.Chance(55, 100) {
		e.Name = r.Intn(nRawNames)
	} else {
		e.Name = ruleBase + r.Intn(nRuleNames)
	}
	if r.Chance(3, 10) {
		e.MK = 1 + r.Intn(3)
		e.MV = r.Intn(3)
	}
	if r.Chance(1, 4) {
		e.By = true
		e.ByMask = (r.Intn(8)) << 1 // subset of a,b,c
	}
	e.Mul = r.PickI64(1, 1, 1, 2, -1, 3)
	e.Add = r.Range(-3, 3)
	if r.Chance(3, 10) {
		e.GT = true
		e.GTV = r.Range(-4, 10)
	}
	return e
}

func (g *genState) genRule() ruleSpec {
	return fixDeps(g.r, ruleSpec{Name: ruleBase + g.r.Intn(nRuleNames), Labels: g.genLabels(), E: g.genExpr()})
}

// fixDeps keeps the values bounded: a rule reads raw metrics, rules with a smaller name, or
// itself (then only with factor +-1 and without aggregation), so that no multiplicative cycle
// exists.  Position in the group / which group is unconstrained, so rules still read results
// of earlier rules (same timestamp) and of later rules or other groups (previous evaluation).
func fixDeps(r *gen.Rand, rs ruleSpec) ruleSpec {
	if rs.E.Name < ruleBase {
		return rs
	}
	if rs.E.Name > rs.Name {
		rs.E.Name = ruleBase + r.Intn(rs.Name-ruleBase+1)
	}
	if rs.E.Name == rs.Name {
		rs.E.By = false
		rs.E.ByMask = 0
		if rs.E.Mul != 1 && rs.E.Mul != -1 {
			rs.E.Mul = 1
		}
	}
	return rs
}

func cloneRules(rs []ruleSpec) []ruleSpec { return append([]ruleSpec(nil), rs...) }

func (g *genState) load(gid int, rs []ruleSpec, off int64, limit int, what string) op {
	o := op{Kind: "load", G: gid, Rules: rs, Off: off, Limit: limit, What: what}
	g.groups[gid] = &o
	return o
}

func (g *genState) newGroupOp(gid int) op {
	r := g.r
	n := 1 + r.Intn(4)
	rs := make([]ruleSpec, n)
	for i := range rs {
		rs[i] = g.genRule()
		// dependent chains: often read what an earlier / later rule of the group records
		if i > 0 && r.Chance(1, 2) {
			rs[i].E.Name = rs[r.Intn(i)].Name
		} else if i == 0 && n > 1 && r.Chance(1, 5) {
			rs[i].E.Name = ruleBase + r.Intn(nRuleNames)
		}
		rs[i] = fixDeps(r, rs[i])
	}
	var off int64
	if r.Chance(1, 5) {
		off = r.PickI64(5000, 15000, 30000)
	}
	limit := 0
	if r.Chance(1, 5) {
		limit = 1 + r.Intn(3)
	}
	return g.load(gid, rs, off, limit, "new")
}

// reloads: add, remove, move, duplicate, change expression (same key), change labels (new key),
// move a rule to another group, identical reload, change limit/offset
func (g *genState) reload() []op {
	ids := g.gids()
	if len(ids) == 0 {
		return nil
	}
	return g.reloadOf(ids[g.r.Intn(len(ids))])
}

func (g *genState) reloadOf(gid int) []op {
	r := g.r
	ids := g.gids()
	cur, ok := g.groups[gid]
	if !ok {
		return nil
	}
	rs := cloneRules(cur.Rules)
	off, limit := cur.Off, cur.Limit
	switch k := r.Intn(11); {
	case k == 0 || len(rs) == 0:
		nr := g.genRule()
		if len(rs) > 0 && r.Bool() {
			nr.E.Name = rs[r.Intn(len(rs))].Name
			nr = fixDeps(r, nr)
		}
		at := r.Intn(len(rs) + 1)
		rs = append(rs[:at], append([]ruleSpec{nr}, rs[at:]...)...)
		return []op{g.load(gid, rs, off, limit, "add")}
	case k == 1 || k == 2:
		at := r.Intn(len(rs))
		rs = append(rs[:at], rs[at+1:]...)
		return []op{g.load(gid, rs, off, limit, "remove-rule")}
	case k == 3:
		i, j := r.Intn(len(rs)), r.Intn(len(rs))
		rs[i], rs[j] = rs[j], rs[i]
		return []op{g.load(gid, rs, off, limit, "reorder")}
	case k == 4:
		d := rs[r.Intn(len(rs))]
		if r.Bool() {
			d.E = g.genExpr()
			d = fixDeps(r, d)
		}
		at := r.Intn(len(rs) + 1)
		rs = append(rs[:at], append([]ruleSpec{d}, rs[at:]...)...)
		return []op{g.load(gid, rs, off, limit, "duplicate-key")}
	case k == 5:
		i := r.Intn(len(rs))
		rs[i].E = g.genExpr()
		rs[i] = fixDeps(r, rs[i])
		return []op{g.load(gid, rs, off, limit, "change-expr")}
	case k == 6:
		i := r.Intn(len(rs))
		rs[i].Labels = g.genLabels()
		return []op{g.load(gid, rs, off, limit, "change-labels")}
	case k == 7 && len(ids) > 1:
		// move a rule to another group (both groups are reloaded, as Manager.Update does)
		to := ids[r.Intn(len(ids))]
		if to == gid {
			to = ids[(r.Intn(len(ids)-1)+1+indexOf(ids, gid))%len(ids)]
		}
		at := r.Intn(len(rs))
		mv := rs[at]
		rs = append(rs[:at], rs[at+1:]...)
		trs := cloneRules(g.groups[to].Rules)
		tat := r.Intn(len(trs) + 1)
		trs = append(trs[:tat], append([]ruleSpec{mv}, trs[tat:]...)...)
		toOp := g.groups[to]
		a := g.load(gid, rs, off, limit, "move-out")
		b := g.load(to, trs, toOp.Off, toOp.Limit, "move-in")
		if r.Bool() {
			return []op{a, b}
		}
		return []op{b, a}
	case k == 8:
		return []op{g.load(gid, rs, off, limit, "identical")}
	case k == 9:
		if r.Bool() {
			limit = r.Intn(4)
		} else {
			off = r.PickI64(0, 0, 5000, 15000)
		}
		return []op{g.load(gid, rs, off, limit, "limit-offset")}
	default:
		// drop everything but one rule
		at := r.Intn(len(rs))
		return []op{g.load(gid, []ruleSpec{rs[at]}, off, limit, "shrink")}
	}
}

func indexOf(xs []int, x int) int {
	for i, v := range xs {
		if v == x {
			return i
		}
	}
	return 0
}

func (g *genState) gids() []int {
	var ids []int
	for id := range g.groups {
		ids = append(ids, id)
	}
	sort.Ints(ids)
	return ids
}

type rawSeries struct {
	l       lset
	present bool
	v       int64
}

func genCase(r *gen.Rand, tier string) []op {
	g := &genState{r: r, groups: map[int]*op{}, lastTS: map[int]int64{}}
	var ops []op
	// raw series
	seen := map[string]bool{}
	var raws []*rawSeries
	for n := 3 + r.Intn(5); len(raws) < n; {
		l := lset{{0, r.Intn(nRawNames)}}
		if r.Chance(9, 10) {
			l = append(l, [2]int{1, r.Intn(3)})
		}
		if r.Bool() {
			l = append(l, [2]int{2, r.Intn(2)})
		}
		if seen[l.key()] {
			n--
			continue
		}
		seen[l.key()] = true
		raws = append(raws, &rawSeries{l: l, present: r.Chance(4, 5), v: r.Range(-2, 8)})
	}
	nGroups := 1 + r.Intn(3)
	for i := 0; i < nGroups; i++ {
		ops = append(ops, g.newGroupOp(i))
	}
	steps := 6 + r.Intn(9)
	if tier == "thorough" {
		steps += r.Intn(8)
	}
	T := int64(600000)
	bigJumps, removals := 0, 0
	for s := 0; s < steps; s++ {
		if r.Chance(1, 10) && bigJumps < 3 {
			T += 300000 + r.Range(0, 100000)
			bigJumps++
		} else {
			T += r.PickI64(15000, 15000, 15000, 30000, 60000)
		}
		for _, rs := range raws {
			if r.Chance(15, 100) {
				rs.present = !rs.present
				if !rs.present && r.Bool() {
					ops = append(ops, op{Kind: "raw", L: rs.l, T: T, Stale: true})
				}
			}
			if rs.present {
				rs.v += r.Range(-3, 3)
				if rs.v < -5 {
					rs.v = -5
				}
				if rs.v > 14 {
					rs.v = 14
				}
				ops = append(ops, op{Kind: "raw", L: rs.l, T: T, V: rs.v})
			}
		}
		if r.Chance(35, 100) {
			rl := g.reload()
			ops = append(ops, rl...)
			// a second reload of the same group before it was evaluated: the pending
			// staleSeries of the first reload must survive the second CopyState
			if len(rl) > 0 && r.Chance(1, 3) {
				ops = append(ops, g.reloadOf(rl[len(rl)-1].G)...)
			}
		}
		if len(g.groups) < 3 && r.Chance(1, 10) {
			for id := 0; id < 3; id++ {
				if _, ok := g.groups[id]; !ok {
					ops = append(ops, g.newGroupOp(id))
					break
				}
			}
		}
		if len(g.groups) > 0 && r.Chance(7, 100) && s > 2 {
			ids := g.gids()
			id := ids[r.Intn(len(ids))]
			ops = append(ops, op{Kind: "remove", G: id, T: wallBase + 1000*int64(removals)})
			removals++
			delete(g.groups, id)
		}
		ids := g.gids()
		// random evaluation order of the groups
		for i := len(ids) - 1; i > 0; i-- {
			j := r.Intn(i + 1)
			ids[i], ids[j] = ids[j], ids[i]
		}
		for _, id := range ids {
			if !r.Chance(85, 100) {
				continue
			}
			ts := T + r.PickI64(0, 0, 0, 1000, 2000)
			if last, ok := g.lastTS[id]; ok {
				switch r.Intn(40) {
				case 0:
					ts = last // a second evaluation with the same timestamp
				case 1:
					ts = last - 15000 // time goes back
				}
			}
			g.lastTS[id] = ts
			ops = append(ops, op{Kind: "eval", G: id, T: ts})
		}
	}
	return ops
}

// ---------- fixed reproducers ----------
func sel(name int) exprSpec { return exprSpec{Name: name, Mul: 1, Add: 0} }

func corpus() [][]op {
	m0a0 := lset{{0, 0}, {1, 0}}
	m0a1 := lset{{0, 0}, {1, 1}}
	r0 := ruleSpec{Name: 10, E: sel(0)}
	r1 := ruleSpec{Name: 11, E: exprSpec{Name: 10, Mul: 2, Add: 1}}
	r2 := ruleSpec{Name: 12, Labels: lset{{1, 0}}, E: sel(0)}
	var out [][]op
	// 1: TestStaleness: a series vanishes (scrape staleness marker) -> marker for the recorded series
	out = append(out, []op{
		{Kind: "load", G: 0, Rules: []ruleSpec{r0}},
		{Kind: "raw", L: m0a0, T: 600000, V: 1}, {Kind: "raw", L: m0a1, T: 600000, V: 2},
		{Kind: "eval", G: 0, T: 600000},
		{Kind: "raw", L: m0a0, T: 615000, V: 3}, {Kind: "raw", L: m0a1, T: 615000, Stale: true},
		{Kind: "eval", G: 0, T: 615000},
		{Kind: "raw", L: m0a0, T: 630000, V: 4},
		{Kind: "eval", G: 0, T: 630000},
	})
	// 2: order dependency: r1 reads r0; in order (sees the same timestamp), then reversed (lags)
	out = append(out, []op{
		{Kind: "load", G: 0, Rules: []ruleSpec{r0, r1}},
		{Kind: "load", G: 1, Rules: []ruleSpec{{Name: 13, E: exprSpec{Name: 14, Mul: 2, Add: 1}}, {Name: 14, E: sel(0)}}},
		{Kind: "raw", L: m0a0, T: 600000, V: 5},
		{Kind: "eval", G: 0, T: 600000}, {Kind: "eval", G: 1, T: 600000},
		{Kind: "raw", L: m0a0, T: 615000, V: 7},
		{Kind: "eval", G: 0, T: 615000}, {Kind: "eval", G: 1, T: 615000},
	})
	// 3: TestDeletedRuleMarkedStale / rule removed on reload, then group removed
	out = append(out, []op{
		{Kind: "load", G: 0, Rules: []ruleSpec{r0, r1}},
		{Kind: "raw", L: m0a0, T: 600000, V: 5},
		{Kind: "eval", G: 0, T: 600000},
		{Kind: "load", G: 0, Rules: []ruleSpec{r1}},
		{Kind: "raw", L: m0a0, T: 615000, V: 6},
		{Kind: "eval", G: 0, T: 615000},
		{Kind: "eval", G: 0, T: 630000},
		{Kind: "remove", G: 0, T: wallBase},
	})
	// 4: TestRuleMovedBetweenGroups: the marker of the old group is rejected (duplicate) when
	// the new group already wrote the series at that timestamp, written when it did not
	out = append(out, []op{
		{Kind: "load", G: 0, Rules: []ruleSpec{r0}},
		{Kind: "load", G: 1, Rules: []ruleSpec{r1}},
		{Kind: "raw", L: m0a0, T: 600000, V: 5},
		{Kind: "eval", G: 0, T: 600000}, {Kind: "eval", G: 1, T: 600000},
		{Kind: "load", G: 0, Rules: nil}, {Kind: "load", G: 1, Rules: []ruleSpec{r1, r0}},
		{Kind: "raw", L: m0a0, T: 615000, V: 6},
		{Kind: "eval", G: 1, T: 615000}, {Kind: "eval", G: 0, T: 615000},
		{Kind: "eval", G: 1, T: 630000}, {Kind: "eval", G: 0, T: 630000},
	})
	// 5: duplicate keys: two rules with the same name and labels, one of them removed
	out = append(out, []op{
		{Kind: "load", G: 0, Rules: []ruleSpec{r0, {Name: 10, E: exprSpec{Name: 0, MK: 1, MV: 1, Mul: 1}}}},
		{Kind: "raw", L: m0a0, T: 600000, V: 5}, {Kind: "raw", L: m0a1, T: 600000, V: 6},
		{Kind: "eval", G: 0, T: 600000},
		{Kind: "load", G: 0, Rules: []ruleSpec{r0}, Limit: 1},
		{Kind: "raw", L: m0a0, T: 615000, V: 5}, {Kind: "raw", L: m0a1, T: 615000, V: 6},
		{Kind: "eval", G: 0, T: 615000},
		{Kind: "eval", G: 0, T: 630000},
	})
	// 7: two reloads without an evaluation in between: the series of the rule removed by the
	// first reload are still marked at the next evaluation (CopyState inherits staleSeries)
	out = append(out, []op{
		{Kind: "load", G: 0, Rules: []ruleSpec{r0, r1}},
		{Kind: "raw", L: m0a0, T: 600000, V: 5},
		{Kind: "eval", G: 0, T: 600000},
		{Kind: "load", G: 0, Rules: []ruleSpec{r1}},
		{Kind: "load", G: 0, Rules: []ruleSpec{{Name: 11, E: exprSpec{Name: 10, Mul: 3, Add: 1}}}},
		{Kind: "load", G: 0, Rules: []ruleSpec{{Name: 11, E: exprSpec{Name: 10, Mul: 3, Add: 2}}}, Limit: 3},
		{Kind: "raw", L: m0a0, T: 615000, V: 6},
		{Kind: "eval", G: 0, T: 615000},
		{Kind: "eval", G: 0, T: 630000},
	})
	// 6: rule labels merge two series -> ErrDuplicateRecordingLabelSet: nothing written, no markers,
	// previous series kept; limit exceeded likewise
	out = append(out, []op{
		{Kind: "load", G: 0, Rules: []ruleSpec{r2, r0}, Limit: 0},
		{Kind: "raw", L: m0a0, T: 600000, V: 5},
		{Kind: "eval", G: 0, T: 600000},
		{Kind: "raw", L: m0a0, T: 615000, V: 5}, {Kind: "raw", L: m0a1, T: 615000, V: 6},
		{Kind: "eval", G: 0, T: 615000},
		{Kind: "load", G: 0, Rules: []ruleSpec{r2, r0}, Limit: 1},
		{Kind: "raw", L: m0a0, T: 630000, V: 5}, {Kind: "raw", L: m0a1, T: 630000, Stale: true},
		{Kind: "eval", G: 0, T: 630000},
		{Kind: "eval", G: 0, T: 1000000},
	})
	return out
}

func hasRegex(ops []op) bool {
	for _, o := range ops {
		for _, r := range o.Rules {
			if len(r.E.NameRe) > 0 {
				return true
			}
		}
	}
	return false
}

// concurrent evaluation: base = m0; lvl{c=x0} = base*..; lvl{c=x1} = base*..; total = sum(lvl)
// (several earlier rules with the SAME name consumed by a later rule), and the variant whose
// consumer selects two differently named producers with a regex __name__ matcher.
func concCorpus() [][]op {
	m0a0 := lset{{0, 0}, {1, 0}}
	m0a1 := lset{{0, 0}, {1, 1}}
	mk := func(cons exprSpec, p2name int) []op {
		rs := []ruleSpec{
			{Name: 10, E: sel(0)},
			{Name: 11, Labels: lset{{3, 0}}, E: exprSpec{Name: 10, Mul: 2, Add: 0}},
			{Name: p2name, Labels: lset{{3, 1}}, E: exprSpec{Name: 10, Mul: 3, Add: 1}},
			{Name: 13, E: cons},
		}
		ops := []op{{Kind: "load", G: 0, Rules: rs, What: "new"}}
		for k := int64(0); k < 4; k++ {
			t := 600000 + 15000*k
			ops = append(ops, op{Kind: "raw", L: m0a0, T: t, V: 1 + k}, op{Kind: "raw", L: m0a1, T: t, V: 10 + 2*k},
				op{Kind: "eval", G: 0, T: t})
		}
		return ops
	}
	return [][]op{
		mk(exprSpec{Name: 11, By: true, ByMask: 1 << 1, Mul: 1, Add: 0}, 11),
		mk(exprSpec{Name: 11, Mul: 1, Add: 0}, 11),
		mk(exprSpec{Name: 11, NameRe: []int{11, 12}, By: true, ByMask: 1<<1 | 1<<3, Mul: 1, Add: 0}, 12),
	}
}

// genConcCase: one group in which every rule reads raw metrics or EARLIER rules only and all
// rules write distinct series, so that concurrent evaluation must give the sequential result.
func genConcCase(r *gen.Rand, regex bool) []op {
	var raws []lset
	seen := map[string]bool{}
	for n := 2 + r.Intn(3); len(raws) < n; {
		l := lset{{0, r.Intn(2)}, {1, r.Intn(3)}}
		if r.Bool() {
			l = append(l, [2]int{2, r.Intn(2)})
		}
		if !seen[l.key()] {
			seen[l.key()] = true
			raws = append(raws, l)
		}
	}
	arith := func(name int) exprSpec {
		e := exprSpec{Name: name, Mul: r.PickI64(1, 2, -1, 3), Add: r.Range(-3, 3)}
		if r.Chance(1, 4) {
			e.GT, e.GTV = true, r.Range(-4, 6)
		}
		return e
	}
	// base rules (names 10, 14), producers (name 11, optionally 12), consumers (13, 15)
	rs := []ruleSpec{{Name: 10, E: arith(r.Intn(2))}}
	if r.Bool() {
		rs = append(rs, ruleSpec{Name: 14, E: arith(r.Intn(2))})
	}
	np := 2 + r.Intn(2)
	for k := 0; k < np; k++ {
		name := 11
		if regex && k == np-1 {
			name = 12
		}
		rs = append(rs, ruleSpec{Name: name, Labels: lset{{3, k}}, E: arith(10)})
	}
	if r.Bool() { // an unrelated rule between producers and consumer
		rs = append(rs, ruleSpec{Name: 15, Labels: lset{{4, 0}}, E: arith(r.Intn(2))})
	}
	cons := exprSpec{Name: 11, Mul: r.PickI64(1, 2), Add: r.Range(0, 2)}
	if regex {
		cons.NameRe = []int{11, 12}
		cons.By, cons.ByMask = true, 1<<1|1<<3
	} else if r.Bool() {
		cons.By, cons.ByMask = true, (r.Intn(4))<<1
	}
	rs = append(rs, ruleSpec{Name: 13, E: cons})
	if r.Chance(1, 3) { // a second consumer, of the first consumer
		rs = append(rs, ruleSpec{Name: 15, Labels: lset{{4, 1}}, E: arith(13)})
	}
	ops := []op{{Kind: "load", G: 0, Rules: rs, What: "new"}}
	vals := make([]int64, len(raws))
	T := int64(600000)
	for s := 0; s < 3+r.Intn(3); s++ {
		T += r.PickI64(15000, 30000)
		for i, l := range raws {
			vals[i] += 1 + r.Range(0, 3) // always changes: a missed same-timestamp result shows
			if r.Chance(1, 8) {
				ops = append(ops, op{Kind: "raw", L: l, T: T, Stale: true})
				continue
			}
			ops = append(ops, op{Kind: "raw", L: l, T: T, V: vals[i]})
		}
		ops = append(ops, op{Kind: "eval", G: 0, T: T})
	}
	return ops
}

// ---------- main ----------
type desc struct {
	Shape  string   `json:"shape"`
	Corpus bool     `json:"corpus,omitempty"`
	Ops    []op     `json:"ops"`
	Viol   []string `json:"viol,omitempty"`
}

func main() {
	f := gallina.ParseFlags()
	if pf := os.Getenv("VERIF_C45_PROF"); pf != "" {
		w, err := os.Create(pf)
		if err == nil {
			_ = pprof.StartCPUProfile(w)
			defer pprof.StopCPUProfile()
		}
	}
	tmp, err := os.MkdirTemp(f.Out, "tsdb")
	if err != nil {
		panic(err)
	}
	defer os.RemoveAll(tmp)
	os.Setenv("TMPDIR", tmp)

	meta := gallina.NewMeta("C45", f.Seed, f.Tier)
	meta.Rule = "fixed corpus histories + seeded random histories (3-7 scraped series with churn and scrape staleness markers, 1-3 groups of 1-4 recording rules with dependent/independent expressions, 6-22 time steps with evaluations in random group order, reloads adding/removing/reordering/duplicating/moving rules, group removals); a history is non-trivial if the implementation wrote at least one accepted staleness marker from a rule evaluation and at least one reload or removal happened; distinct by the printed operation list"
	perShard := 80
	if f.Tier == "thorough" {
		perShard = 150 // fewer coqc start-ups
	}
	cf := &gallina.CaseFile{Dir: f.Out, Type: "case", PerShard: perShard,
		Preamble: "From Coq Require Import List ZArith Uint63.\nFrom Verif Require Import model.RuleGroup corr.CorrC45.\nImport ListNotations.\nOpen Scope uint63_scope.\n",
		Footer:   gallina.StdFooter}

	eng := promql.NewEngine(promql.EngineOpts{MaxSamples: 1000000, Timeout: 100 * time.Second, LookbackDelta: 5 * time.Minute})
	metrics := rules.NewGroupMetrics(nil)
	distinct := map[string]bool{}

	// the real dependency analysis + concurrent controller, used to record the batches of every load
	ana := &rules.ManagerOptions{ConcurrentEvalsEnabled: true, MaxConcurrentEvals: 4, Metrics: metrics}
	rules.NewManager(ana)

	// mode 0: sequential run, judged by Coq.  mode 1: additionally the same history with
	// concurrent rule evaluation enabled (delayed producer queries); the storage contents must
	// be those of the sequential run.  mode 2: like 1 but Go-side only (expressions outside
	// the model's language: regex __name__ matchers).
	runCase := func(id int, ops []op, isCorpus bool, mode int) {
		s, err := newSut(eng, metrics, false)
		if err != nil {
			panic(err)
		}
		p := &printer{tbl: map[string]int{}, s: s}
		var opStr, evStr, btStr []string
		for _, o := range ops {
			if o.Kind == "load" {
				btStr = append(btStr, ints(s.batches(ana, o)...))
			}
		}
		markersOK, reloads := 0, 0
		for _, o := range ops {
			opStr = append(opStr, p.op(o))
			evs := s.exec(o)
			for _, e := range evs {
				evStr = append(evStr, p.event(e))
				switch e.Kind {
				case 1:
					if !e.Has {
						meta.Hit("rule-eval-failed")
					} else {
						meta.Hit("rule-eval-ok")
					}
					for _, a := range e.Recs {
						st := value.IsStaleNaN(a.V)
						switch {
						case st && a.Code == 0:
							meta.Hit("marker-written")
							markersOK++
						case st:
							meta.Hit("marker-rejected")
						case a.Code == 0:
							meta.Hit("result-written")
						case a.Code == 1:
							meta.Hit("result-out-of-order")
						case a.Code == 2:
							meta.Hit("result-duplicate")
						default:
							meta.Hit("result-other-error")
						}
					}
				case 2:
					meta.Hit("cleanup")
					for _, a := range e.Recs {
						if a.Code == 0 {
							meta.Hit("cleanup-marker-written")
						} else {
							meta.Hit("cleanup-marker-rejected")
						}
					}
				}
			}
			switch o.Kind {
			case "load":
				meta.Hit("load-" + o.What)
				if o.What != "new" {
					reloads++
				}
				// dependent rules in evaluation order
				for i, r := range o.Rules {
					for j, q := range o.Rules {
						if q.Name == r.E.Name {
							if j < i {
								meta.Hit("dep-on-earlier-rule")
							} else {
								meta.Hit("dep-on-later-or-self")
							}
							break
						}
					}
				}
			case "remove":
				meta.Hit("group-removed")
				reloads++
			case "eval":
				meta.Hit("group-eval")
			}
		}
		if mode > 0 {
			meta.Hit("concurrent-comparison")
			seqText := s.dumpText()
			cs, err := newSut(eng, metrics, true)
			if err != nil {
				panic(err)
			}
			for _, o := range ops {
				cs.exec(o)
			}
			concText := cs.dumpText()
			if strings.Join(seqText, "\n") != strings.Join(concText, "\n") {
				what := "storage contents after concurrent rule evaluation differ from sequential evaluation"
				for i := 0; i < len(seqText) || i < len(concText); i++ {
					a, b := "", ""
					if i < len(seqText) {
						a = seqText[i]
					}
					if i < len(concText) {
						b = concText[i]
					}
					if a != b {
						what += fmt.Sprintf(": sequential %q concurrent %q", a, b)
						break
					}
				}
				s.viol = append(s.viol, what)
			}
			s.viol = append(s.viol, cs.viol...)
			cs.close()
		}
		if mode == 2 {
			s.close()
			meta.Case(id, desc{Shape: "concurrent-go-only", Corpus: isCorpus, Ops: ops, Viol: s.viol})
			for _, v := range s.viol {
				meta.GoViol = append(meta.GoViol, gallina.GoViolation{ID: strconv.Itoa(id), Shape: "concurrent-differs", What: v})
			}
			meta.Evaluations += len(ops)
			return
		}
		var stStr []string
		for _, d := range s.dump() {
			vs := []int64{int64(p.idxLabels(d.L))}
			for i := range d.Ts {
				vs = append(vs, p.pack(0, 0, p.encVal(d.Vs[i]), s.canonT(d.Ts[i])))
			}
			stStr = append(stStr, ints(vs...))
		}
		s.close()
		tb := make([]int64, len(p.lsets))
		for i, l := range p.lsets {
			tb[i] = packLset(l)
		}
		if p.overflow {
			// values grew beyond the transport range (long multiplicative rule chains): not judged
			meta.Hit("dropped-transport-range")
			meta.Case(id, desc{Shape: "dropped-transport-range", Corpus: isCorpus, Ops: ops, Viol: s.viol})
			return
		}
		cf.Add(fmt.Sprintf("mkCase %d\n  %s\n  %s\n  %s\n  %s\n  %s", id, ints(tb...), list(opStr), list(evStr), list(stStr), list(btStr)))
		key := strings.Join(opStr, "")
		if markersOK > 0 && reloads > 0 && !distinct[key] {
			distinct[key] = true
			meta.Nontrivial++
		}
		meta.Case(id, desc{Shape: "history", Corpus: isCorpus, Ops: ops, Viol: s.viol})
		for _, v := range s.viol {
			shape := "harness-observation"
			if strings.HasPrefix(v, "storage contents after concurrent") {
				shape = "concurrent-differs"
			}
			meta.GoViol = append(meta.GoViol, gallina.GoViolation{ID: strconv.Itoa(id), Shape: shape, What: v})
		}
		meta.Evaluations += len(ops)
	}

	id := 0
	for _, ops := range corpus() {
		runCase(id, ops, true, 0)
		id++
	}
	for _, ops := range concCorpus() {
		mode := 1
		if hasRegex(ops) {
			mode = 2
		}
		runCase(id, ops, true, mode)
		id++
	}
	n := f.Count(56, 1300)
	for i := 0; i < n; i++ {
		runCase(id, genCase(gen.Fork(f.Seed, i), f.Tier), false, 0)
		id++
	}
	// concurrent evaluation stream (independent generator indexes)
	nc := f.Count(8, 120)
	for i := 0; i < nc; i++ {
		ops := genConcCase(gen.Fork(f.Seed, 1000000+i), i%3 == 2)
		mode := 1
		if hasRegex(ops) {
			mode = 2
		}
		runCase(id, ops, false, mode)
		id++
	}
	cf.Flush()
	_ = filepath.Join
	meta.Write(f.Out)
}

// h_c03: crash-recovery harness for C03 (acknowledged writes survive a process crash).
//
// The parent generates workloads; for each it re-executes ITSELF as a child process
// (-mode child) that runs the workload against a real tsdb.DB directory.  The reference run is
// not crashed: it logs every c03.* verifhook hit (this enumerates the persistence boundaries
// (site, n-th hit)), the acknowledgements, and at the selected hits copies the directory from
// inside the hook - the state a process kill at that hit leaves behind.  Additionally a few
// fresh children per workload really exit (137) inside a hook, and a few are SIGKILLed at a
// random time.  The parent reopens every such directory with the same options, queries
// everything and writes, per crash, a Coq case: the model operations (derived from the workload
// and the reference run's log), the number of persistence steps completed, the acknowledgement
// state from the child's log and the recovered samples.
package main

import (
	"bufio"
	"context"
	"encoding/json"
	"flag"
	"fmt"
	"math"
	"os"
	"os/exec"
	"path/filepath"
	"sort"
	"strconv"
	"strings"
	"sync"
	"syscall"
	"time"

	"github.com/prometheus/prometheus/tsdb/chunkenc"

	"verif/harness/internal/gallina"
	"verif/harness/internal/gen"
	"verif/harness/internal/tsdbx"
)

type hit struct {
	Site    string
	N       int
	Kind    int
	Payload string
	Op      int // API op in flight
}

type runLog struct {
	Hits    []hit
	Begun   int // number of "begin" lines
	Acked   map[int]bool
	Errs    map[int]string
	Res     map[int][]int
	Class   map[int][]int
	Done    bool
	Crashed bool
	OpenErr string
}

func parseLog(path string) *runLog {
	rl := &runLog{Acked: map[int]bool{}, Errs: map[int]string{}, Res: map[int][]int{}, Class: map[int][]int{}}
	f, err := os.Open(path)
	if err != nil {
		return rl
	}
	defer f.Close()
	sc := bufio.NewScanner(f)
	sc.Buffer(make([]byte, 1<<20), 1<<24)
	cur := -1
	for sc.Scan() {
		ln := sc.Text()
		fs := strings.SplitN(ln, " ", 5)
		switch fs[0] {
		case "begin":
			if len(fs) < 2 {
				continue
			}
			cur, _ = strconv.Atoi(fs[1])
			rl.Begun = cur + 1
		case "ack":
			if len(fs) < 2 {
				continue
			}
			i, err := strconv.Atoi(fs[1])
			if err == nil {
				rl.Acked[i] = true
			}
		case "err":
			i, _ := strconv.Atoi(fs[1])
			rl.Errs[i] = strings.Join(fs[2:], " ")
		case "res", "class":
			if len(fs) < 3 {
				continue
			}
			i, _ := strconv.Atoi(fs[1])
			var v []int
			if json.Unmarshal([]byte(strings.Join(fs[2:], " ")), &v) == nil {
				if fs[0] == "res" {
					rl.Res[i] = v
				} else {
					rl.Class[i] = v
				}
			}
		case "hit":
			if len(fs) < 4 {
				continue
			}
			n, e1 := strconv.Atoi(fs[2])
			k, e2 := strconv.Atoi(fs[3])
			if e1 != nil || e2 != nil {
				continue
			}
			p := ""
			if len(fs) > 4 {
				p = fs[4]
			}
			rl.Hits = append(rl.Hits, hit{Site: fs[1], N: n, Kind: k, Payload: p, Op: cur})
		case "done":
			rl.Done = true
		case "CRASH":
			rl.Crashed = true
		case "openerr":
			rl.OpenErr = ln
		}
	}
	return rl
}

// ---- model operations (printed as Gallina) ----

type mop struct {
	API  int    // API op it belongs to
	Text string // Gallina term, except for deletes whose order may be overridden
	// delete
	IsDelete bool
	Order    []string
	// merge classification
	Empty      bool // compaction with an empty result: only the parents are deleted
	Parents    []int
	MixedMerge bool
	RenameHit  int // index (in the semantic-hit sequence) of this op's BlkRename, -1 if none
}

type blkInfo struct {
	ID         int
	MinT, MaxT int64
	OOO        bool
	Level      int
	Parents    []string
}

func smp(s WSample) string { return fmt.Sprintf("sm %d %d %d", s.S, s.T, s.code()) }

func listInts(v []int) string {
	it := make([]string, len(v))
	for i, x := range v {
		it[i] = strconv.Itoa(x)
	}
	return gallina.List(it)
}

// deleteOrder extracts the order in which the steps of the delete API op `api` happened.
func deleteOrder(rl *runLog, api int, ids map[string]int) []string {
	var out []string
	for _, h := range rl.Hits {
		if h.Op != api {
			continue
		}
		switch h.Kind {
		case kBlkTomb:
			if id, ok := ids[h.Payload]; ok {
				out = append(out, fmt.Sprintf("tb %d", id))
			}
		case kWalWrite:
			out = append(out, "th")
		}
	}
	return out
}

func blockIDs(rl *runLog) (map[string]int, map[string]blkInfo) {
	ids := map[string]int{}
	infos := map[string]blkInfo{}
	for _, h := range rl.Hits {
		if h.Kind == kBlkRename && h.Payload != "" {
			fs := strings.Split(h.Payload, " ")
			if len(fs) < 5 {
				continue
			}
			bi := blkInfo{ID: len(ids) + 1}
			bi.MinT, _ = strconv.ParseInt(fs[1], 10, 64)
			bi.MaxT, _ = strconv.ParseInt(fs[2], 10, 64)
			bi.OOO = fs[3] == "1"
			bi.Level, _ = strconv.Atoi(fs[4])
			if len(fs) > 5 && fs[5] != "" {
				bi.Parents = strings.Split(fs[5], ",")
			}
			ids[fs[0]] = bi.ID
			infos[fs[0]] = bi
		}
	}
	return ids, infos
}

func delText(op WOp, order []string) string {
	return fmt.Sprintf("odelete %d %d %s %s", op.Mint, op.Maxt, listInts(op.Sel), gallina.List(order))
}

// buildOps derives the model operations of a workload from the dry run's log.
func buildOps(w *Workload, rl *runLog) (ops []mop, hist []string, accepted map[int][]WSample, degraded bool) {
	ids, infos := blockIDs(rl)
	accepted = map[int][]WSample{}
	semIdx := 0
	hi := 0
	for api, op := range w.Ops {
		var mine []hit
		for hi < len(rl.Hits) && rl.Hits[hi].Op <= api {
			if rl.Hits[hi].Op == api {
				mine = append(mine, rl.Hits[hi])
			}
			hi++
		}
		switch op.Kind {
		case "tx":
			var acc, hacc []string
			res, cls := rl.Res[api], rl.Class[api]
			for j, s := range op.Samples {
				if j < len(res) && res[j] == int(tsdbx.OK) {
					o := "false"
					if j < len(cls) && cls[j] == 1 {
						o = "true"
					}
					acc = append(acc, fmt.Sprintf("(%s, %s)", smp(s), o))
					hacc = append(hacc, smp(s))
					accepted[api] = append(accepted[api], s)
				}
			}
			ops = append(ops, mop{API: api, Text: "Commit " + gallina.List(acc), RenameHit: -1})
			hist = append(hist, "HTx "+gallina.List(hacc))
		case "rollback":
			hist = append(hist, "HNop")
		case "delete":
			ord := deleteOrder(rl, api, ids)
			ops = append(ops, mop{API: api, IsDelete: true, Order: ord, Text: delText(op, ord), RenameHit: -1})
			hist = append(hist, fmt.Sprintf("hdel %d %d %s", op.Mint, op.Maxt, listInts(op.Sel)))
		case "restart":
			hist = append(hist, "HNop")
		case "compact", "compactooo", "compactooo_race":
			hist = append(hist, "HNop")
			lastCut := int64(math.MinInt64)
			var curMerge *mop
			flush := func() {
				if curMerge != nil {
					if curMerge.Empty {
						curMerge.Text = "omerge " + listInts(curMerge.Parents)
					}
					curMerge.Text = fmt.Sprintf("%s %s", curMerge.Text, gallina.List(curMerge.Order))
					ops = append(ops, *curMerge)
					curMerge = nil
				}
			}
			s := semIdx
			for _, h := range mine {
				if h.Kind > 0 {
					s++
				}
				switch h.Kind {
				case kWalNewSeg:
					flush()
					if lastCut == math.MinInt64 {
						// the WAL was truncated although no head block appeared: the block came out
						// empty (everything in its range was deleted); its range is not in the log
						degraded = true
						lastCut = 0
					}
					ops = append(ops, mop{API: api, Text: fmt.Sprintf("otrunc %d", lastCut), RenameHit: -1})
				case kWblNewSeg:
					flush()
					ops = append(ops, mop{API: api, Text: "CutOOO", RenameHit: -1})
				case kBlkRename:
					fs := strings.Split(h.Payload, " ")
					bi, ok := infos[fs[0]]
					if !ok {
						continue
					}
					switch {
					case len(bi.Parents) > 0:
						flush()
						var ps []int
						mixed, maxIO := false, int64(math.MinInt64)
						anyOOO, anyIO := false, false
						for _, p := range bi.Parents {
							ps = append(ps, ids[p])
							pi := infos[p]
							if pi.OOO {
								anyOOO = true
							} else {
								anyIO = true
								if pi.MaxT > maxIO {
									maxIO = pi.MaxT
								}
							}
						}
						if anyOOO && anyIO && bi.MaxT > maxIO {
							mixed = true
						}
						curMerge = &mop{API: api, Text: "omerge " + listInts(ps), MixedMerge: mixed, RenameHit: s - 1}
					case bi.OOO:
						// part of the current CutOOO
					default:
						flush()
						ops = append(ops, mop{API: api, Text: fmt.Sprintf("ocut %d %d", bi.MinT, bi.MaxT), RenameHit: s - 1})
						lastCut = bi.MaxT
					}
				case kBlkToDel:
					if curMerge == nil {
						// parents deleted without a new block: the compaction result was empty
						curMerge = &mop{API: api, Empty: true, RenameHit: -1}
					}
					if id, ok := ids[h.Payload]; ok {
						curMerge.Order = append(curMerge.Order, fmt.Sprintf("tb %d", id))
						if curMerge.Empty {
							curMerge.Parents = append(curMerge.Parents, id)
						}
					}
				}
			}
			flush()
		}
		for _, h := range mine {
			if h.Kind > 0 {
				semIdx++
			}
		}
	}
	return ops, hist, accepted, degraded
}

func semKinds(rl *runLog) []int {
	var out []int
	for _, h := range rl.Hits {
		if h.Kind > 0 {
			out = append(out, h.Kind)
		}
	}
	return out
}

// ---- running children ----

type childArgs struct {
	Dir, Wl, Log, Crash string
	Classify            bool
	SnapDir             string
	SnapRate            int
	SnapSeed            uint64
	KillAfter           time.Duration
}

func runChild(self string, a childArgs) (exit int, dur time.Duration) {
	args := []string{"-mode", "child", "-dir", a.Dir, "-wl", a.Wl, "-log", a.Log}
	if a.Crash != "" {
		args = append(args, "-crash", a.Crash)
	}
	if a.Classify {
		args = append(args, "-classify")
	}
	if a.SnapDir != "" {
		args = append(args, "-snapdir", a.SnapDir, "-snaprate", strconv.Itoa(a.SnapRate), "-snapseed", strconv.FormatUint(a.SnapSeed, 10))
	}
	cmd := exec.Command(self, args...)
	cmd.Env = append(os.Environ(), "GOMAXPROCS=2")
	t0 := time.Now()
	if err := cmd.Start(); err != nil {
		return -1, 0
	}
	done := make(chan error, 1)
	go func() { done <- cmd.Wait() }()
	var timer <-chan time.Time
	if a.KillAfter > 0 {
		timer = time.After(a.KillAfter)
	}
	select {
	case <-done:
	case <-timer:
		cmd.Process.Signal(syscall.SIGKILL)
		<-done
	case <-time.After(300 * time.Second):
		cmd.Process.Signal(syscall.SIGKILL)
		<-done
		return -2, time.Since(t0)
	}
	return cmd.ProcessState.ExitCode(), time.Since(t0)
}

type obsSample struct {
	S int64
	T int64
	V int64
}

// reopen opens the directory like the child did and returns everything a querier sees.
func reopen(dir string, w *Workload) (obs []obsSample, openErr string) {
	db, err := tsdbx.Open(dir, w.options())
	if err != nil {
		return nil, err.Error()
	}
	defer db.Close()
	q, err := db.DB.Querier(math.MinInt64, math.MaxInt64)
	if err != nil {
		return nil, "querier: " + err.Error()
	}
	defer q.Close()
	const alien = int64(1) << 50 // not a value code of the workload
	code := func(f float64, kind int64) int64 {
		if f == math.Trunc(f) && f >= 0 && f < kindTag {
			return kind*kindTag + int64(f)
		}
		return alien
	}
	ss := q.Select(context.Background(), true, nil, tsdbx.MatchAll("k"))
	for ss.Next() {
		sr := ss.At()
		ls := sr.Labels().String()
		var sid int64 = 1 << 40
		if i := strings.Index(ls, `s="`); i >= 0 {
			fmt.Sscanf(ls[i+3:], "%d", &sid)
		}
		it := sr.Iterator(nil)
		for vt := it.Next(); vt != chunkenc.ValNone; vt = it.Next() {
			var t, v int64
			switch vt {
			case chunkenc.ValFloat:
				tt, f := it.At()
				t, v = tt, code(f, 0)
			case chunkenc.ValHistogram:
				tt, h := it.AtHistogram(nil)
				kind := int64(1)
				if h.UsesCustomBuckets() {
					kind = 3
				}
				t, v = tt, code(h.Sum, kind)
				if h.Count != 3 || len(h.PositiveBuckets) != 2 {
					v = alien
				}
			case chunkenc.ValFloatHistogram:
				tt, fh := it.AtFloatHistogram(nil)
				kind := int64(2)
				if fh.UsesCustomBuckets() {
					kind = 4
				}
				t, v = tt, code(fh.Sum, kind)
				if fh.Count != 3 || len(fh.PositiveBuckets) != 2 {
					v = alien
				}
			}
			if t < 0 {
				t = alien
			}
			obs = append(obs, obsSample{sid, t, v})
		}
		if it.Err() != nil {
			return nil, "iterate: " + it.Err().Error()
		}
	}
	if ss.Err() != nil {
		return nil, "query: " + ss.Err().Error()
	}
	sort.Slice(obs, func(i, j int) bool {
		if obs[i].S != obs[j].S {
			return obs[i].S < obs[j].S
		}
		if obs[i].T != obs[j].T {
			return obs[i].T < obs[j].T
		}
		return obs[i].V < obs[j].V
	})
	return obs, ""
}

type caseDesc struct {
	Workload string `json:"workload"`
	How      string `json:"how"` // snapshot | kill-at-hit | sigkill
	Crash    string `json:"crash"`
	K        int    `json:"steps_done"`
	InFlight int    `json:"op_in_flight"`
	Acked    int    `json:"ops_acked"`
	OpKind   string `json:"op_kind"`
	Obs      int    `json:"recovered_samples"`
	Shape    string `json:"shape"`
	Seed     uint64 `json:"seed"`
	WlIndex  int    `json:"workload_index"`
	OpenErr  string `json:"open_error,omitempty"`
	Note     string `json:"note,omitempty"`
}

func main() {
	cdir := flag.String("dir", "", "child: database directory")
	cwl := flag.String("wl", "", "child: workload json")
	clog := flag.String("log", "", "child: log file")
	ccrash := flag.String("crash", "", "child: site:n")
	cclass := flag.Bool("classify", false, "child: log the in-order/out-of-order classification")
	csnap := flag.String("snapdir", "", "child: directory for crash-state snapshots")
	crate := flag.Int("snaprate", 0, "child: per-mille of hits to snapshot beyond the first two of each kind")
	cseed := flag.Uint64("snapseed", 0, "child: snapshot selection seed")
	mode := flag.String("mode", "parent", "parent|child")
	for _, a := range os.Args[1:] {
		if a == "reopen" {
			// debugging aid: print what a reopen of -dir returns (workload options from -wl)
			flag.Parse()
			var w Workload
			b, _ := os.ReadFile(*cwl)
			json.Unmarshal(b, &w)
			obs, oerr := reopen(*cdir, &w)
			fmt.Println(obs, oerr)
			return
		}
		if a == "child" {
			flag.Parse()
			childMain(*cdir, *cwl, *clog, *ccrash, *cclass, *csnap, *crate, *cseed)
			return
		}
	}
	_ = mode
	f := gallina.ParseFlags()
	parent(f)
}

type pendingCase struct {
	id   int
	term string
}

type wctx struct {
	w         *Workload
	wi        int
	wname     string
	ops       []mop
	kinds     []int
	mixedFrom int
	seed      uint64
}

func parent(f gallina.Flags) {
	self, err := os.Executable()
	if err != nil {
		panic(err)
	}
	meta := gallina.NewMeta("C03", f.Seed, f.Tier)
	meta.Rule = "a case = one (workload, crash point): the state a process kill leaves at the n-th hit of a c03.* verifhook site (directory snapshot taken inside the hook, or the child really exits there, or is SIGKILLed at a random time), reopened with the same options; non-trivial = at least one transaction was acknowledged before the crash and the reopened database returned at least one sample; distinct by (workload, site, hit) resp. (workload, kill delay)"
	scratch, err := os.MkdirTemp(f.Out, "c03_")
	if err != nil {
		panic(err)
	}
	defer os.RemoveAll(scratch)

	nWork, snapRate, nHookKill, nSigKill, phases := 2, 90, 2, 1, 6
	if f.Tier == "thorough" {
		nWork, snapRate, nHookKill, nSigKill, phases = 8, 1000, 6, 4, 7
	}
	nWork *= f.Scale

	var pre strings.Builder
	pre.WriteString("From Coq Require Import List ZArith Uint63.\nFrom Verif Require Import lib.Int64 model.Durable corr.CorrC03.\nImport ListNotations.\nOpen Scope uint63_scope.\n")
	var cases []pendingCase
	var mu sync.Mutex
	id := 0

	// process turns one crashed directory + the child's log up to the crash into a case
	process := func(c *wctx, dir string, rl *runLog, how, crash string) {
		w := c.w
		desc := caseDesc{Workload: w.Name, How: how, Crash: crash, Seed: c.seed, WlIndex: c.wi, Shape: "ok"}
		kTerm, over := "None", "None"
		nAcked := 0
		for nAcked < len(w.Ops) && rl.Acked[nAcked] {
			nAcked++
		}
		inflight := rl.Begun > nAcked
		ck := semKinds(rl)
		if how != "sigkill" && !w.NoModel {
			k := len(ck)
			desc.K = k
			kTerm = fmt.Sprintf("(Some %d)", k)
			// the run must have taken the same persistence steps as the reference run
			same := len(ck) <= len(c.kinds)
			if same {
				apiOf := make([]int, 0, len(ck))
				for _, h := range rl.Hits {
					if h.Kind > 0 {
						apiOf = append(apiOf, h.Op)
					}
				}
				for i := range ck {
					if ck[i] != c.kinds[i] && (apiOf[i] < 0 || w.Ops[apiOf[i]].Kind != "delete") {
						same = false
					}
				}
			}
			if !same {
				desc.Note = "persistence steps differ from the reference run"
			}
			// the order of the steps of an in-flight delete, as this run took them
			if inflight && nAcked < len(w.Ops) && w.Ops[nAcked].Kind == "delete" {
				ids, _ := blockIDs(rl)
				ord := deleteOrder(rl, nAcked, ids)
				for i, o := range c.ops {
					if o.API == nAcked && o.IsDelete {
						over = fmt.Sprintf("(Some (%d, %s))", i, delText(w.Ops[nAcked], append(ord, o.Order...)))
					}
				}
			}
		}
		if c.mixedFrom >= 0 && len(ck) > c.mixedFrom {
			desc.Shape = "mixed-merge-advances-minvalidtime"
		}
		// an out-of-order commit landed after the out-of-order compaction m-mapped its series' chunk
		// and the kill comes before the out-of-order block is in place (second finding)
		for r, op := range w.Ops {
			if op.Kind != "compactooo_race" || r < 1 || !w.Ops[r-1].Nested || rl.Acked[r] {
				continue
			}
			renamed, logged := false, rl.Acked[r-1]
			for _, h := range rl.Hits {
				if h.Kind == kBlkRename {
					renamed = true
				}
				if h.Op == r-1 && h.Kind == kWblWrite {
					logged = true // its WBL records (m-map marker 0 + sample) are durable
				}
			}
			if logged && !renamed {
				desc.Shape = "ooo-commit-after-compaction-mmap-drops-earlier-sample"
			}
		}
		obs, oerr := reopen(dir, w)
		desc.OpenErr = oerr
		desc.Obs = len(obs)
		desc.Acked = nAcked
		desc.InFlight = -1
		if inflight && nAcked < len(w.Ops) {
			desc.InFlight = nAcked
			desc.OpKind = w.Ops[nAcked].Kind
		}
		ot := make([]string, len(obs))
		for i, o := range obs {
			ot[i] = fmt.Sprintf("sm %d %d %d", o.S, o.T, o.V)
		}
		opened := "true"
		if oerr != "" {
			opened = "false"
		}
		mu.Lock()
		defer mu.Unlock()
		id++
		term := fmt.Sprintf("mkCase %d %s_cfg %s_ops %s_trace %s_kinds %s_hist %s %s %d %s %s %s",
			id, c.wname, c.wname, c.wname, c.wname, c.wname, kTerm, over, nAcked, gallina.Bool(inflight), opened, gallina.List(ot))
		cases = append(cases, pendingCase{id, term})
		meta.Case(id, desc)
		meta.Evaluations++
		if nAcked > 0 && len(obs) > 0 {
			meta.Nontrivial++
		}
		meta.Hit("how:" + how)
		if how != "sigkill" && len(rl.Hits) > 0 {
			meta.Hit("site:" + rl.Hits[len(rl.Hits)-1].Site)
		}
		if desc.InFlight >= 0 {
			meta.Hit("in-flight:" + desc.OpKind)
		}
		if desc.Shape != "ok" {
			meta.Hit("shape:" + desc.Shape)
		}
		if desc.Note != "" {
			meta.Hit("note:" + desc.Note)
		}
	}

	corpus := []Workload{corpusMixedMerge(), corpusDeleteStraddle(), corpusOOORace(), corpusKindPairs(),
		genKindsWorkload(gen.Fork(f.Seed^0x6b696e64, 0), "kinds-random", f.Count(12, 40))}
	for wi := -len(corpus); wi < nWork; wi++ {
		var w Workload
		rate := snapRate
		if wi < 0 {
			w = corpus[-wi-1]
			rate = 0
			if wi < -1 {
				rate = 1000 // small workloads: every hit
			}
			if w.Kinds {
				rate = 0 // many short transactions: the first hit of each kind, and after every acknowledgement
				if f.Tier == "thorough" {
					rate = 300
				}
			}
		} else {
			ph := phases
			if f.Tier != "thorough" && wi%2 == 1 {
				ph = 3 // quick tier: every second workload is short (its cases are cheap)
			}
			w = genWorkload(gen.Fork(f.Seed, wi), fmt.Sprintf("w%d", wi), ph)
		}
		wname := fmt.Sprintf("wl_%d", wi+1)
		if wi < 0 {
			wname = fmt.Sprintf("wl_c%d", -wi)
		}
		wlPath := filepath.Join(scratch, wname+".json")
		wb, _ := json.Marshal(w)
		os.WriteFile(wlPath, wb, 0o644)

		// reference run: uncrashed, logs every hit, takes the directory snapshots
		refDir := filepath.Join(scratch, wname+"_ref")
		refLog := filepath.Join(scratch, wname+"_ref.log")
		snapDir := filepath.Join(scratch, wname+"_snap")
		os.MkdirAll(refDir, 0o755)
		os.MkdirAll(snapDir, 0o755)
		ec, refDur := runChild(self, childArgs{Dir: refDir, Wl: wlPath, Log: refLog, Classify: true, SnapDir: snapDir, SnapRate: rate, SnapSeed: f.Seed + uint64(wi+1)*7919})
		ref := parseLog(refLog)
		if ec != 0 || !ref.Done {
			meta.GoViol = append(meta.GoViol, gallina.GoViolation{ID: fmt.Sprintf("%s/ref", wname), Shape: "reference-run-failed", What: fmt.Sprintf("reference run of workload %s exited %d (done=%v, open=%s)", w.Name, ec, ref.Done, ref.OpenErr)})
			continue
		}
		for i, e := range ref.Errs {
			meta.GoViol = append(meta.GoViol, gallina.GoViolation{ID: fmt.Sprintf("%s/op%d", wname, i), Shape: "operation-failed", What: fmt.Sprintf("workload %s: op %d (%s) returned an error: %s", w.Name, i, w.Ops[i].Kind, e)})
		}
		ops, hist, _, degraded := buildOps(&w, ref)
		if degraded && !w.NoModel {
			// a head compaction with an empty result: the model operations cannot be derived from
			// the log; the cases of this workload are judged by `holds` only
			w.NoModel = true
			meta.Hit("no-model:empty-head-block")
		}
		kinds := semKinds(ref)
		mixedFrom := -1
		for _, o := range ops {
			if o.MixedMerge && (mixedFrom < 0 || o.RenameHit < mixedFrom) {
				mixedFrom = o.RenameHit
			}
		}
		c := &wctx{w: &w, wi: wi, wname: wname, ops: ops, kinds: kinds, mixedFrom: mixedFrom, seed: f.Seed}

		opTexts := make([]string, len(ops))
		for i, o := range ops {
			opTexts[i] = o.Text
		}
		ooo := "false"
		if w.OOOWindow > 0 {
			ooo = "true"
		}
		fmt.Fprintf(&pre, "Definition %s_cfg := mk_cfg %d %s.\n", wname, w.BlockRange, ooo)
		fmt.Fprintf(&pre, "Definition %s_ops : list op := %s.\n", wname, gallina.List(opTexts))
		fmt.Fprintf(&pre, "Definition %s_trace : list fsop := Eval vm_compute in (fs_trace %s_cfg %s_ops).\n", wname, wname, wname)
		fmt.Fprintf(&pre, "Definition %s_kinds : list int := %s.\n", wname, listInts(kinds))
		fmt.Fprintf(&pre, "Definition %s_hist : list hop := %s.\n", wname, gallina.List(hist))
		meta.Hit("workloads")
		meta.Dist["hook-hits-in-reference-runs"] += len(ref.Hits)
		meta.Dist["persistence-steps-in-reference-runs"] += len(kinds)

		// the final state of the uncrashed run is a case too (everything acknowledged)
		var wg sync.WaitGroup
		sem := make(chan struct{}, 4)
		spawn := func(fn func()) {
			wg.Add(1)
			sem <- struct{}{}
			go func() { defer wg.Done(); defer func() { <-sem }(); fn() }()
		}
		spawn(func() { process(c, refDir, ref, "snapshot", "end of run") })

		// snapshots
		ents, _ := os.ReadDir(snapDir)
		for _, e := range ents {
			if !e.IsDir() {
				continue
			}
			d := filepath.Join(snapDir, e.Name())
			spawn(func() {
				rl := parseLog(d + ".log")
				crash := "?"
				if len(rl.Hits) > 0 {
					h := rl.Hits[len(rl.Hits)-1]
					crash = fmt.Sprintf("%s:%d", h.Site, h.N)
					if w.Kinds {
						crash += " (or right after the acknowledgement that follows it)"
					}
				}
				process(c, d, rl, "snapshot", crash)
			})
		}

		// real kills: the child exits inside the hook, resp. is SIGKILLed at a random time
		r := gen.Fork(f.Seed^0xc03, wi+1000)
		nh, ns := nHookKill, nSigKill
		if wi < 0 {
			nh, ns = 1, 0
		}
		for k := 0; k < nh+ns; k++ {
			k := k
			var crash string
			var kill time.Duration
			if k < nh {
				lim := len(ref.Hits)
				if f.Tier != "thorough" && wi >= 0 {
					lim = lim * 2 / 5 // quick tier: early crash points (a child re-runs the workload up to the crash)
				}
				if wi < 0 {
					// corpus: right after the last persistence step of the run
					last := ref.Hits[len(ref.Hits)-1]
					for _, h := range ref.Hits {
						if h.Kind > 0 {
							last = h
						}
					}
					if w.Kinds {
						last = ref.Hits[len(ref.Hits)-1] // the very last hit: nothing is compacted or m-mapped yet
					}
					crash = fmt.Sprintf("%s:%d", last.Site, last.N)
				} else {
					h := ref.Hits[r.Intn(lim)]
					crash = fmt.Sprintf("%s:%d", h.Site, h.N)
				}
			} else {
				frac := 0.1 + 0.8*r.Float()
				if f.Tier != "thorough" {
					frac = 0.1 + 0.35*r.Float()
				}
				kill = time.Duration(float64(refDur) * frac)
			}
			spawn(func() {
				dir := filepath.Join(scratch, fmt.Sprintf("%s_k%d", wname, k))
				lg := dir + ".log"
				os.MkdirAll(dir, 0o755)
				ec, _ := runChild(self, childArgs{Dir: dir, Wl: wlPath, Log: lg, Crash: crash, KillAfter: kill})
				rl := parseLog(lg)
				if crash != "" {
					if ec != 137 || !rl.Crashed {
						mu.Lock()
						meta.GoViol = append(meta.GoViol, gallina.GoViolation{ID: fmt.Sprintf("%s/%s", wname, crash), Shape: "crash-point-not-reached", What: fmt.Sprintf("workload %s: child did not exit at %s (exit %d): the run diverged from the reference run", w.Name, crash, ec)})
						mu.Unlock()
						return
					}
					process(c, dir, rl, "kill-at-hit", crash)
				} else {
					process(c, dir, rl, "sigkill", fmt.Sprintf("SIGKILL after %v", kill))
				}
				os.RemoveAll(dir)
			})
		}
		wg.Wait()
		os.RemoveAll(snapDir)
		os.RemoveAll(refDir)
	}
	sort.Slice(cases, func(i, j int) bool { return cases[i].id < cases[j].id })
	// starting coqc and loading the libraries costs more than evaluating a case: few shards
	shards := 2
	if len(cases) > 400 {
		shards = 8
	}
	per := (len(cases) + shards - 1) / shards
	if per < 1 {
		per = 1
	}
	cf := &gallina.CaseFile{Dir: f.Out, Type: "case", PerShard: per, Preamble: pre.String(), Footer: gallina.StdFooter}
	for _, c := range cases {
		cf.Add(c.term)
	}
	cf.Flush()
	meta.Notes = append(meta.Notes, "process-kill crashes only (completed syscalls are durable); power-loss reordering of un-fsynced writes is outside this check",
		"most crash states are directory snapshots taken inside the hook (what a kill at that hit leaves on disk); a few children per workload really exit inside a hook or are SIGKILLed")
	meta.Write(f.Out)
}

package main

// The child process: runs a workload against a real tsdb.DB directory, logs every
// acknowledgement and every c03.* hook hit (with the kind of persistence step it stands for),
// and exits (137) at the chosen hit.

import (
	"context"
	"encoding/json"
	"fmt"
	"os"
	"path/filepath"
	"runtime"
	"runtime/pprof"
	"sort"
	"strings"
	"sync"
	"syscall"

	"github.com/oklog/ulid/v2"

	"github.com/prometheus/prometheus/model/histogram"
	"github.com/prometheus/prometheus/model/labels"
	"github.com/prometheus/prometheus/storage"
	"github.com/prometheus/prometheus/util/verifhook"

	"verif/harness/internal/tsdbx"
)

// kinds of persistence steps (the codes of model/Durable.v `kind`); 0 = no effect on the model
const (
	kNop        = 0
	kWalWrite   = 1
	kWalNewSeg  = 2
	kWalRemove  = 3
	kCpTmpWrite = 4
	kCpRename   = 5
	kCpRemove   = 6
	kWblWrite   = 7
	kWblNewSeg  = 8
	kWblRemove  = 9
	kTmpFill    = 10
	kBlkRename  = 11
	kBlkToDel   = 12
	kDelRemove  = 13
	kBlkTomb    = 14
)

type childLog struct {
	mu sync.Mutex
	f  *os.File
}

func (l *childLog) line(sync bool, format string, a ...any) {
	l.mu.Lock()
	defer l.mu.Unlock()
	fmt.Fprintf(l.f, format+"\n", a...)
	if sync {
		l.f.Sync()
	}
}

func stackFuncs() string {
	pcs := make([]uintptr, 48)
	n := runtime.Callers(3, pcs)
	fr := runtime.CallersFrames(pcs[:n])
	var sb strings.Builder
	for {
		f, more := fr.Next()
		sb.WriteString(f.Function)
		sb.WriteByte('\n')
		if !more {
			break
		}
	}
	return sb.String()
}

type blockMetaJSON struct {
	ULID       string `json:"ulid"`
	MinTime    int64  `json:"minTime"`
	MaxTime    int64  `json:"maxTime"`
	Compaction struct {
		Level   int `json:"level"`
		Parents []struct {
			ULID string `json:"ulid"`
		} `json:"parents"`
		Hints []string `json:"hints"`
	} `json:"compaction"`
}

func readMeta(dir string) (blockMetaJSON, error) {
	var m blockMetaJSON
	b, err := os.ReadFile(filepath.Join(dir, "meta.json"))
	if err != nil {
		return m, err
	}
	return m, json.Unmarshal(b, &m)
}

func inode(p string) uint64 {
	fi, err := os.Stat(p)
	if err != nil {
		return 0
	}
	if st, ok := fi.Sys().(*syscall.Stat_t); ok {
		return st.Ino
	}
	return 0
}

type hooker struct {
	dir       string
	log       *childLog
	crashSite string
	crashHit  int
	mu        sync.Mutex
	hits      map[string]int
	logctx    string
	known     map[string]uint64 // block ulid -> inode of its tombstones file
	// snapshots: instead of dying at a hit, copy the directory as a process kill would leave it
	snapDir  string
	snapRate int
	snapSeed uint64
	snapSeen map[string]int
	snapN    int
	logPath  string
	// nested transactions to run while the out-of-order compaction is paused at a race site
	pending []int
	runTx   func(i int)
}

// copyTree copies the database directory as it is on disk right now.  The contents of
// *.tmp-for-creation directories are not copied (tsdb.Open removes those directories by name
// without reading them); everything else is copied byte for byte.
func copyTree(src, dst string) error {
	return filepath.Walk(src, func(p string, fi os.FileInfo, err error) error {
		if err != nil {
			return nil // a file that vanished while walking
		}
		rel, _ := filepath.Rel(src, p)
		to := filepath.Join(dst, rel)
		if fi.IsDir() {
			if err := os.MkdirAll(to, 0o755); err != nil {
				return err
			}
			if strings.HasSuffix(fi.Name(), ".tmp-for-creation") {
				return filepath.SkipDir
			}
			return nil
		}
		b, err := os.ReadFile(p)
		if err != nil {
			return nil
		}
		return os.WriteFile(to, b, 0o644)
	})
}

func fnv(s string, n int, seed uint64) uint64 {
	h := uint64(1469598103934665603) ^ seed
	for i := 0; i < len(s); i++ {
		h = (h ^ uint64(s[i])) * 1099511628211
	}
	h = (h ^ uint64(n)) * 1099511628211
	h ^= h >> 29
	h *= 0xBF58476D1CE4E5B9
	return h ^ (h >> 32)
}

func (h *hooker) blockDirs() []string {
	es, _ := os.ReadDir(h.dir)
	var out []string
	for _, e := range es {
		if e.IsDir() {
			out = append(out, e.Name())
		}
	}
	sort.Strings(out)
	return out
}

// snapshot copies the directory and the log as they are now (h.mu held).
func (h *hooker) snapshot() {
	h.snapN++
	d := filepath.Join(h.snapDir, fmt.Sprintf("s%d", h.snapN))
	if err := copyTree(h.dir, d); err == nil {
		if b, err := os.ReadFile(h.logPath); err == nil {
			os.WriteFile(d+".log", b, 0o644)
		}
	}
}

func (h *hooker) handle(site string, _ int) {
	if !strings.HasPrefix(site, "c03.") {
		return
	}
	h.mu.Lock()
	h.hits[site]++
	n := h.hits[site]
	kind, payload := kNop, ""
	switch site {
	case "c03.head.log.series":
		h.logctx = "series"
	case "c03.head.log.samples":
		h.logctx = "samples"
	case "c03.wlog.log.flushed":
		st := stackFuncs()
		switch {
		case strings.Contains(st, "wlog.Checkpoint"):
			kind = kCpTmpWrite
		case strings.Contains(st, "tsdb.(*Head).Delete"):
			kind = kWalWrite
		case strings.Contains(st, "tsdb.(*headAppenderBase).log"):
			if h.logctx == "samples" {
				kind = kWalWrite
			}
			h.logctx = ""
		case strings.Contains(st, "tsdb.(*headAppenderBase).Commit"):
			kind = kWblWrite
		}
	case "c03.wlog.nextSegment.created":
		st := stackFuncs()
		switch {
		case strings.Contains(st, "tsdb.(*Head).truncateWAL"):
			kind = kWalNewSeg
		case strings.Contains(st, "tsdb.NewOOOCompactionHead"):
			kind = kWblNewSeg
		}
	case "c03.wlog.truncate.removed":
		st := stackFuncs()
		switch {
		case strings.Contains(st, "tsdb.(*Head).truncateWAL"):
			kind = kWalRemove
		case strings.Contains(st, "tsdb.(*Head).truncateOOO"):
			kind = kWblRemove
		}
	case "c03.compact.write.metaWritten":
		kind = kTmpFill
	case "c03.db.deleteBlocks.removed":
		kind = kDelRemove
	case "c03.checkpoint.deleted":
		kind = kCpRemove
	case "c03.fileutil.rename.renamed":
		st := stackFuncs()
		inWrite := strings.Contains(st, "tsdb.(*LeveledCompactor).write")
		switch {
		case strings.Contains(st, "tombstones.WriteFile"):
			if !inWrite {
				kind = kBlkTomb
				for _, d := range h.blockDirs() {
					if _, err := ulid.ParseStrict(d); err != nil {
						continue
					}
					ino := inode(filepath.Join(h.dir, d, "tombstones"))
					if old, ok := h.known[d]; ok && old != ino && payload == "" {
						payload = d
						h.known[d] = ino
					}
				}
			}
		case strings.Contains(st, "tsdb.writeMetaFile"):
		case strings.Contains(st, "wlog.Checkpoint"):
			kind = kCpRename
		case inWrite:
			kind = kBlkRename
			for _, d := range h.blockDirs() {
				if _, err := ulid.ParseStrict(d); err != nil {
					continue
				}
				if _, ok := h.known[d]; ok {
					continue
				}
				m, err := readMeta(filepath.Join(h.dir, d))
				if err != nil {
					continue
				}
				h.known[d] = inode(filepath.Join(h.dir, d, "tombstones"))
				ooo := 0
				for _, x := range m.Compaction.Hints {
					if x == "from-out-of-order" {
						ooo = 1
					}
				}
				var ps []string
				for _, p := range m.Compaction.Parents {
					if p.ULID != "00000000000000000000000000" {
						ps = append(ps, p.ULID)
					}
				}
				payload = fmt.Sprintf("%s %d %d %d %d %s", d, m.MinTime, m.MaxTime, ooo, m.Compaction.Level, strings.Join(ps, ","))
			}
		case strings.Contains(st, "tsdb.(*DB).deleteBlocks"):
			kind = kBlkToDel
			for _, d := range h.blockDirs() {
				if strings.HasSuffix(d, ".tmp-for-deletion") {
					payload = strings.TrimSuffix(d, ".tmp-for-deletion")
				}
			}
		}
	}
	h.log.line(false, "hit %s %d %d %s", site, n, kind, payload)
	if h.snapDir != "" {
		key := fmt.Sprintf("%s/%d", site, kind)
		h.snapSeen[key]++
		if h.snapSeen[key] <= 1 || int(fnv(site, n, h.snapSeed)%1000) < h.snapRate {
			h.snapshot()
		}
	}
	h.mu.Unlock()
	if h.crashSite == site && h.crashHit == n {
		h.log.line(false, "CRASH %s %d", site, n)
		os.Exit(137)
	}
	if site == "c03.ooo.compactionHead.nextSegment" || site == "c03.ooo.compactionHead.mmapped" {
		// the compaction goroutine is "paused" here: commit the next nested transaction
		h.mu.Lock()
		next := -1
		if len(h.pending) > 0 {
			next, h.pending = h.pending[0], h.pending[1:]
		}
		h.mu.Unlock()
		if next >= 0 {
			h.runTx(next)
		}
	}
}

// histograms of the four histogram kinds with Sum = code, Count 3, two buckets (1 and 2)
func mkHist(k int, code int64) (*histogram.Histogram, *histogram.FloatHistogram) {
	switch k {
	case 1:
		return &histogram.Histogram{Schema: 0, Count: 3, Sum: float64(code), PositiveSpans: []histogram.Span{{Offset: 0, Length: 2}}, PositiveBuckets: []int64{1, 1}}, nil
	case 2:
		return nil, &histogram.FloatHistogram{Schema: 0, Count: 3, Sum: float64(code), PositiveSpans: []histogram.Span{{Offset: 0, Length: 2}}, PositiveBuckets: []float64{1, 2}}
	case 3:
		return &histogram.Histogram{Schema: histogram.CustomBucketsSchema, CustomValues: []float64{1, 2}, Count: 3, Sum: float64(code), PositiveSpans: []histogram.Span{{Offset: 0, Length: 2}}, PositiveBuckets: []int64{1, 1}}, nil
	case 4:
		return nil, &histogram.FloatHistogram{Schema: histogram.CustomBucketsSchema, CustomValues: []float64{1, 2}, Count: 3, Sum: float64(code), PositiveSpans: []histogram.Span{{Offset: 0, Length: 2}}, PositiveBuckets: []float64{1, 2}}
	}
	return nil, nil
}

// appendAll runs one appender (classic or V2) over the samples of op and commits / rolls back.
func appendAll(db *tsdbx.DB, op WOp) (res []tsdbx.ErrKind, endErr error) {
	ctx := context.Background()
	commit := op.Kind == "tx"
	if op.V2 {
		app := db.DB.AppenderV2(ctx)
		for _, s := range op.Samples {
			h, fh := mkHist(s.K, s.V)
			v := 0.0
			if s.K == 0 {
				v = float64(s.V)
			}
			_, err := app.Append(0, seriesLabels(s.S), 0, s.T, v, h, fh, storage.AppendV2Options{})
			res = append(res, tsdbx.Kind(err))
		}
		if commit {
			return res, app.Commit()
		}
		return res, app.Rollback()
	}
	app := db.DB.Appender(ctx)
	for _, s := range op.Samples {
		var err error
		if s.K == 0 {
			_, err = app.Append(0, seriesLabels(s.S), s.T, float64(s.V))
		} else {
			h, fh := mkHist(s.K, s.V)
			_, err = app.AppendHistogram(0, seriesLabels(s.S), s.T, h, fh)
		}
		res = append(res, tsdbx.Kind(err))
	}
	if commit {
		return res, app.Commit()
	}
	return res, app.Rollback()
}

func seriesLabels(sid int) labels.Labels {
	return labels.FromStrings("k", "x", "s", fmt.Sprint(sid))
}

func selMatcher(sel []int) *labels.Matcher {
	var alts []string
	for _, s := range sel {
		alts = append(alts, fmt.Sprint(s))
	}
	return labels.MustNewMatcher(labels.MatchRegexp, "s", strings.Join(alts, "|"))
}

func (w *Workload) options() tsdbx.Options {
	return tsdbx.Options{BlockRange: w.BlockRange, OOOWindow: w.OOOWindow, Overlapping: true}
}

func childMain(dir, wlPath, logPath, crash string, classify bool, snapDir string, snapRate int, snapSeed uint64) {
	if pp := os.Getenv("C03_PROF"); pp != "" {
		pf, _ := os.Create(pp)
		pprof.StartCPUProfile(pf)
		defer pprof.StopCPUProfile()
	}
	var wl Workload
	b, err := os.ReadFile(wlPath)
	if err != nil {
		panic(err)
	}
	if err := json.Unmarshal(b, &wl); err != nil {
		panic(err)
	}
	lf, err := os.OpenFile(logPath, os.O_CREATE|os.O_WRONLY|os.O_APPEND, 0o644)
	if err != nil {
		panic(err)
	}
	cl := &childLog{f: lf}
	hk := &hooker{dir: dir, log: cl, hits: map[string]int{}, known: map[string]uint64{}, snapDir: snapDir, snapRate: snapRate, snapSeed: snapSeed, snapSeen: map[string]int{}, logPath: logPath}
	if crash != "" {
		i := strings.LastIndex(crash, ":")
		hk.crashSite = crash[:i]
		fmt.Sscan(crash[i+1:], &hk.crashHit)
	}
	db, err := tsdbx.Open(dir, wl.options())
	if err != nil {
		cl.line(true, "openerr %v", err)
		os.Exit(3)
	}
	verifhook.SetHandler(hk.handle)
	runTx := func(i int) error {
		op := wl.Ops[i]
		cl.line(true, "begin %d", i)
		res, err := appendAll(db, op)
		codes := make([]int, len(res))
		for j, r := range res {
			codes[j] = int(r)
		}
		cj, _ := json.Marshal(codes)
		cl.line(false, "res %d %s", i, cj)
		if classify && op.Kind == "tx" && err == nil && !op.Nested && !wl.Kinds {
			// which accepted samples sit in the out-of-order part of the head
			oooSet := map[[2]int64]bool{}
			for _, hs := range db.HeadDump() {
				var sid int
				fmt.Sscanf(strings.TrimSuffix(strings.SplitN(hs.Labels, `s="`, 2)[1], `"}`), "%d", &sid)
				for _, c := range hs.OOO {
					for _, x := range c.Samples {
						oooSet[[2]int64{int64(sid), x.T}] = true
					}
				}
			}
			cls := make([]int, len(res))
			for j, s := range op.Samples {
				if res[j] == tsdbx.OK && oooSet[[2]int64{int64(s.S), s.T}] {
					cls[j] = 1
				}
			}
			cj, _ := json.Marshal(cls)
			cl.line(false, "class %d %s", i, cj)
		}
		if err != nil {
			cl.line(true, "err %d %v", i, err)
		} else {
			cl.line(true, "ack %d", i)
		}
		if wl.Kinds && hk.snapDir != "" {
			// a kill right after the acknowledgement: the WAL is the only durable copy
			hk.mu.Lock()
			hk.snapshot()
			hk.mu.Unlock()
		}
		return err
	}
	hk.runTx = func(i int) { runTx(i) }
	for i, op := range wl.Ops {
		if op.Kind == "tx" || op.Kind == "rollback" {
			if !op.Nested {
				runTx(i)
			}
			continue
		}
		cl.line(true, "begin %d", i)
		var opErr error
		switch op.Kind {
		case "delete":
			opErr = db.Delete(op.Mint, op.Maxt, selMatcher(op.Sel))
		case "restart":
			opErr = db.Reopen()
		case "compact":
			opErr = db.CompactWithPlanner()
		case "compactooo":
			opErr = db.CompactOOOHead()
		case "compactooo_race":
			// the nested transactions just before this op run from inside the hooks of NewOOOCompactionHead
			hk.mu.Lock()
			for j := 0; j < i; j++ {
				if wl.Ops[j].Nested {
					hk.pending = append(hk.pending, j)
				}
			}
			hk.mu.Unlock()
			opErr = db.CompactOOOHead()
			hk.mu.Lock()
			left := hk.pending
			hk.pending = nil
			hk.mu.Unlock()
			for _, j := range left {
				runTx(j)
			}
		default:
			panic("unknown op " + op.Kind)
		}
		if opErr != nil {
			cl.line(true, "err %d %v", i, opErr)
		} else {
			cl.line(true, "ack %d", i)
		}
	}
	cl.line(true, "done")
	verifhook.SetHandler(nil)
	db.Close()
	pprof.StopCPUProfile()
	os.Exit(0)
}

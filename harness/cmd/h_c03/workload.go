package main

import (
	"sort"

	"verif/harness/internal/gen"
)

// WSample is one attempted append: series, timestamp, value code (unique per workload).
type WSample struct {
	S int   `json:"s"`
	T int64 `json:"t"`
	V int64 `json:"v"`
	// K: kind of the sample: 0 float, 1 integer histogram, 2 float histogram, 3 integer
	// custom-bucket histogram (NHCB), 4 float NHCB.  The value code of a histogram is its Sum.
	K int `json:"k,omitempty"`
}

// kindTag is folded into the value code the Coq side sees (an uninterpreted tag: a sample that
// comes back with another kind is an alien value).
const kindTag = 1000000

func (s WSample) code() int64 { return int64(s.K)*kindTag + s.V }

// WOp is one API-level operation of a workload.
type WOp struct {
	Kind    string    `json:"kind"` // tx | rollback | delete | compact | compactooo
	Samples []WSample `json:"samples,omitempty"`
	Mint    int64     `json:"mint,omitempty"`
	Maxt    int64     `json:"maxt,omitempty"`
	Sel     []int     `json:"sel,omitempty"`
	// V2: the transaction goes through DB.AppenderV2 instead of the classic DB.Appender
	V2 bool `json:"v2,omitempty"`
	// Nested: a transaction that is not run by the main loop but from inside a hook of the
	// following compactooo_race operation (while the out-of-order compaction is paused there)
	Nested bool `json:"nested,omitempty"`
}

// Workload is a history plus the database options.
type Workload struct {
	Name       string `json:"name"`
	BlockRange int64  `json:"block_range"`
	OOOWindow  int64  `json:"ooo_window"`
	Ops        []WOp  `json:"ops"`
	// NoModel: the history interleaves operations (a commit inside a compaction); its cases are
	// judged by `holds` on the acknowledgement log only
	NoModel bool `json:"no_model,omitempty"`
	// Kinds: a workload over all sample kinds and both appenders (always NoModel)
	Kinds bool `json:"kinds,omitempty"`
}

// corpusKindPairs: for both appenders and every ordered pair (k1, k2) of sample kinds one
// transaction in which series 1 gets a sample of kind k1 and then, 5 ms later, one of kind k2
// (series 2 gets one of kind k2 in between).  No compaction: the WAL is the only durable copy.
func corpusKindPairs() Workload {
	w := Workload{Name: "corpus-kind-switch-pairs", BlockRange: 100000, OOOWindow: 0, NoModel: true, Kinds: true}
	t, v := int64(10), int64(1)
	for _, v2 := range []bool{false, true} {
		for k1 := 0; k1 < 5; k1++ {
			for k2 := 0; k2 < 5; k2++ {
				w.Ops = append(w.Ops, WOp{Kind: "tx", V2: v2, Samples: []WSample{
					{S: 1, T: t, V: v, K: k1}, {S: 2, T: t + 2, V: v + 1, K: k2}, {S: 1, T: t + 5, V: v + 2, K: k2}}})
				t += 20
				v += 3
			}
		}
		w.Ops = append(w.Ops, WOp{Kind: "restart"})
	}
	return w
}

// genKindsWorkload: random in-order transactions over three series, all sample kinds, both
// appenders, rollbacks, a clean restart in the middle; no compaction.
func genKindsWorkload(r *gen.Rand, name string, ntx int) Workload {
	w := Workload{Name: name, BlockRange: 100000, OOOWindow: 0, NoModel: true, Kinds: true}
	t, v := int64(r.Intn(50)), int64(1)
	for i := 0; i < ntx; i++ {
		op := WOp{Kind: "tx", V2: r.Bool()}
		if r.Chance(1, 10) {
			op.Kind = "rollback"
		}
		n := 2 + r.Intn(4)
		last := -1
		for j := 0; j < n; j++ {
			sid := 1 + r.Intn(3)
			if last > 0 && r.Chance(1, 2) {
				sid = last // the same series again: a kind switch inside the transaction is likely
			}
			last = sid
			t += 1 + int64(r.Intn(9))
			op.Samples = append(op.Samples, WSample{S: sid, T: t, V: v, K: r.Intn(5)})
			v++
		}
		w.Ops = append(w.Ops, op)
		if i == ntx/2 {
			w.Ops = append(w.Ops, WOp{Kind: "restart"})
		}
	}
	return w
}

// corpusMixedMerge is the reproducer of the finding "mixed-merge-advances-minvalidtime".
func corpusMixedMerge() Workload {
	v := int64(1)
	mk := func(s int, ts ...int64) []WSample {
		var out []WSample
		for _, t := range ts {
			out = append(out, WSample{S: s, T: t, V: v})
			v++
		}
		return out
	}
	return Workload{Name: "corpus-mixed-merge", BlockRange: 1000, OOOWindow: 2000, Ops: []WOp{
		{Kind: "tx", Samples: mk(1, 0, 600, 1100, 1600, 2050, 2600, 3200, 3500)},
		{Kind: "tx", Samples: mk(1, 2100, 3100)},
		{Kind: "compact"},
	}}
}

// corpusDeleteStraddle: a deletion acknowledged while its whole range is in the head, then a head
// compaction whose block boundary (2000) falls strictly inside the deleted range: after a
// restart the tombstone record straddles minValidTime and must still hide 2200 and 2400.
func corpusDeleteStraddle() Workload {
	return Workload{Name: "corpus-delete-straddles-block-boundary", BlockRange: 1000, OOOWindow: 0, Ops: []WOp{
		{Kind: "tx", Samples: []WSample{{S: 1, T: 100, V: 1}, {S: 2, T: 1600, V: 2}, {S: 1, T: 1700, V: 3}, {S: 2, T: 1800, V: 4}, {S: 2, T: 2200, V: 5}, {S: 1, T: 2300, V: 6}, {S: 2, T: 2400, V: 7}, {S: 2, T: 2600, V: 8}, {S: 1, T: 3400, V: 9}}},
		{Kind: "delete", Mint: 1500, Maxt: 2500, Sel: []int{2}},
		{Kind: "compact"},
		{Kind: "tx", Samples: []WSample{{S: 1, T: 3450, V: 10}, {S: 2, T: 3460, V: 11}}},
	}}
}

// corpusOOORace: out-of-order samples are committed (and acknowledged) while DB.CompactOOOHead
// is paused inside NewOOOCompactionHead, once before the WBL segment cut and once after the
// per-series m-map loop; after truncateOOO both must survive a kill.
func corpusOOORace() Workload {
	return Workload{Name: "corpus-ooo-commit-during-ooo-compaction", BlockRange: 1000, OOOWindow: 2000, NoModel: true, Ops: []WOp{
		{Kind: "tx", Samples: []WSample{{S: 1, T: 100, V: 1}, {S: 1, T: 600, V: 2}, {S: 2, T: 700, V: 3}, {S: 1, T: 1200, V: 4}, {S: 2, T: 1300, V: 5}}},
		{Kind: "tx", Samples: []WSample{{S: 1, T: 300, V: 6}, {S: 2, T: 400, V: 7}}},
		{Kind: "tx", Nested: true, Samples: []WSample{{S: 1, T: 350, V: 8}}},
		{Kind: "tx", Nested: true, Samples: []WSample{{S: 2, T: 450, V: 9}}},
		{Kind: "compactooo_race"},
		{Kind: "tx", Samples: []WSample{{S: 1, T: 1400, V: 10}}},
	}}
}

// genWorkload builds a structured history: `phases` rounds, each advancing time by roughly one
// block range with transactions over a few series (in-order samples above the global maximum,
// out-of-order samples strictly below the series' own newest sample, attempts that must be
// rejected, rolled back transactions), deletions that avoid out-of-order timestamps, and a
// DB.Compact (head compaction, WAL truncation / checkpoint, OOO compaction, block compaction
// with the real planner); now and then DB.CompactOOOHead.
func genWorkload(r *gen.Rand, name string, phases int) Workload {
	w := Workload{Name: name, BlockRange: 1000}
	w.OOOWindow = r.PickI64(0, 700, 2000, 2000)
	nser := 3 + r.Intn(2) // series 1 is the keeper: never deleted, a sample in every phase
	v := int64(1)
	seriesMax := map[int]int64{}
	globalMax := int64(-1)
	oooTimes := map[int]map[int64]bool{} // timestamps used by out-of-order attempts, per series
	used := map[[2]int64]bool{}
	now := int64(r.Intn(3)) * 50 // first timestamp 0, 50 or 100
	first := true
	for ph := 0; ph < phases; ph++ {
		ntx := 2 + r.Intn(3)
		span := int64(1000 + r.Intn(350))
		if ph == 0 {
			span = 1550 + int64(r.Intn(200)) // make the head compactable in the first round
		}
		phaseEnd := now + span
		for tx := 0; tx < ntx; tx++ {
			var ss []WSample
			kind := "tx"
			if r.Chance(1, 8) {
				kind = "rollback"
			}
			n := 2 + r.Intn(4)
			for i := 0; i < n; i++ {
				sid := 1 + r.Intn(nser)
				if first || (tx == 0 && i == 0) {
					sid = 1
				}
				var t int64
				switch {
				case first:
					t = now
				case r.Chance(1, 4) && seriesMax[sid] > 0 && kind == "tx":
					// below the series' newest sample: out-of-order (accepted inside the window)
					// or rejected (outside / window 0); never closer than 550 to the global maximum
					hi := seriesMax[sid] - 1
					if hi > globalMax-550 {
						hi = globalMax - 550
					}
					lo := globalMax - w.OOOWindow - 150
					if r.Chance(1, 5) {
						lo = globalMax - w.OOOWindow - 600
					}
					if lo < 0 {
						lo = 0
					}
					if hi < lo {
						continue
					}
					t = r.Range(lo, hi)
				default:
					// above everything appended so far: in order for every series
					step := (phaseEnd - globalMax) / int64((ntx-tx)*n-i+1)
					if step < 1 {
						step = 1
					}
					t = globalMax + 1 + int64(r.Intn(int(step)+1))
					if b := (t/1000 + 1) * 1000; r.Chance(1, 5) && b <= phaseEnd {
						t = b - int64(r.Intn(2)) // block boundary and boundary-1
					}
				}
				if used[[2]int64{int64(sid), t}] {
					continue
				}
				used[[2]int64{int64(sid), t}] = true
				ss = append(ss, WSample{S: sid, T: t, V: v})
				v++
				first = false
				if kind == "tx" {
					if t > globalMax {
						// in order for the series (first samples of a series included)
						if t > seriesMax[sid] || seriesMax[sid] == 0 {
							seriesMax[sid] = t
						}
						globalMax = t
					} else {
						if oooTimes[sid] == nil {
							oooTimes[sid] = map[int64]bool{}
						}
						oooTimes[sid][t] = true
					}
				} else if t > globalMax {
					// rolled back: nothing stored, but keep later timestamps above it anyway
				}
			}
			if len(ss) > 0 {
				w.Ops = append(w.Ops, WOp{Kind: kind, Samples: ss})
			}
			if r.Chance(1, 5) && globalMax > 200 {
				// a deletion over series 2.. that avoids every out-of-order timestamp of the selected series
				var sel []int
				for s := 2; s <= nser; s++ {
					if r.Bool() {
						sel = append(sel, s)
					}
				}
				if len(sel) == 0 {
					sel = []int{2}
				}
				a := r.Range(0, globalMax)
				b := a + r.Range(0, 900)
				if r.Chance(1, 4) {
					b = globalMax + 500
				}
				ok := true
				for _, s := range sel {
					for t := range oooTimes[s] {
						if t >= a && t <= b {
							ok = false
						}
					}
				}
				if ok {
					sort.Ints(sel)
					w.Ops = append(w.Ops, WOp{Kind: "delete", Mint: a, Maxt: b, Sel: sel})
					// a later out-of-order append under this tombstone is finding F3 of C01: block the range
					for _, s := range sel {
						if oooTimes[s] == nil {
							oooTimes[s] = map[int64]bool{}
						}
						for t := a; t <= b && t <= globalMax; t++ {
							used[[2]int64{int64(s), t}] = true
						}
					}
				}
			}
		}
		if globalMax > 1700 && r.Chance(1, 2) {
			// a deletion around the block boundary the coming head compaction will most likely stop
			// at: its tombstone record then straddles minValidTime at the next open
			b := ((globalMax-1500)/1000 + 1) * 1000
			a, e := b-int64(100+r.Intn(400)), b+int64(100+r.Intn(400))
			var sel []int
			for s := 2; s <= nser; s++ {
				if r.Chance(2, 3) {
					sel = append(sel, s)
				}
			}
			ok := len(sel) > 0 && a >= 0
			for _, s := range sel {
				for t := range oooTimes[s] {
					if t >= a && t <= e {
						ok = false
					}
				}
			}
			if ok {
				w.Ops = append(w.Ops, WOp{Kind: "delete", Mint: a, Maxt: e, Sel: sel})
				for _, s := range sel {
					if oooTimes[s] == nil {
						oooTimes[s] = map[int64]bool{}
					}
					for t := a; t <= e && t <= globalMax; t++ {
						used[[2]int64{int64(s), t}] = true
					}
				}
			}
		}
		now = globalMax + 1
		w.Ops = append(w.Ops, WOp{Kind: "compact"})
		if w.OOOWindow > 0 && r.Chance(1, 4) {
			w.Ops = append(w.Ops, WOp{Kind: "compactooo"})
		}
	}
	return w
}

// h_c54: correspondence harness for C54 (fanout storage: best-effort secondaries, commit order).
// Builds a real storage.NewFanout over fake primary / secondary storages (fakes.go) with
// generated contents and failure injections at every stage, drives it like the PromQL engine /
// the scrape loop do, and writes configuration + everything observed as Gallina terms.
package main

import (
	"context"
	"encoding/json"
	"fmt"
	"io"
	"log/slog"
	"sort"
	"strings"

	"github.com/prometheus/prometheus/model/labels"
	"github.com/prometheus/prometheus/storage"

	"verif/harness/internal/gallina"
	"verif/harness/internal/gen"
)

// ---------------------------------------------------------------- printers
func zl(v []int64) string { return gallina.ListZ(v) }

func natl(v []int) string {
	it := make([]string, len(v))
	for i, x := range v {
		it[i] = gallina.Nat(x)
	}
	return gallina.List(it)
}

func booll(v []bool) string {
	it := make([]string, len(v))
	for i, x := range v {
		it[i] = gallina.Bool(x)
	}
	return gallina.List(it)
}

func (s ser) gal() string {
	it := make([]string, len(s.Smp))
	for i, p := range s.Smp {
		it[i] = "(" + gallina.Z(p[0]) + ", " + gallina.Z(p[1]) + ")"
	}
	return "(mkSer " + gallina.Z(s.Key) + " " + gallina.List(it) + ")"
}

func serl(l []ser) string {
	it := make([]string, len(l))
	for i, s := range l {
		it[i] = s.gal()
	}
	return gallina.List(it)
}

func (c setCfg) gal() string {
	f := "None"
	if c.FailN >= 0 {
		f = fmt.Sprintf("(Some (%s, %s))", gallina.Nat(c.FailN), gallina.Z(c.Err))
	}
	return "(mkSet " + serl(c.Series) + " " + f + " " + zl(c.Warns) + ")"
}

func (l lblCfg) gal() string {
	f := "None"
	if l.Fail {
		f = "(Some " + gallina.Z(l.Err) + ")"
	}
	return "(mkLbl " + zl(l.Vals) + " " + f + " " + zl(l.Warns) + ")"
}

func (q qCfg) gal() string {
	switch q.Kind {
	case "noop":
		return "QNoop"
	case "createfail":
		return "(QCreateFail " + gallina.Z(q.Err) + ")"
	}
	it := make([]string, len(q.Sels))
	for i, s := range q.Sels {
		it[i] = s.gal()
	}
	return "(QOk " + gallina.List(it) + " " + q.LV.gal() + " " + q.LN.gal() + ")"
}

func (o obsSel) gal() string {
	return "(" + serl(o.Series) + ", " + zl(o.Errs) + ", " + zl(o.Warns) + ")"
}

func (o obsLbl) gal() string {
	return "(" + zl(o.Vals) + ", " + zl(o.Warns) + ", " + zl(o.Errs) + ")"
}

func (o qObs) gal() string {
	if o.CreateFail {
		return "(OCreateFail " + zl(o.Errs) + " " + booll(o.Closed) + ")"
	}
	it := make([]string, len(o.Sels))
	for i, s := range o.Sels {
		it[i] = s.gal()
	}
	return "(OOk " + gallina.List(it) + " " + o.LV.gal() + " " + o.LN.gal() + " " + booll(o.Closed) + ")"
}

func (a appCfg) gal() string {
	return fmt.Sprintf("(mkApp %s %s %s %s)", natl(a.Fail), gallina.Bool(a.Commit), gallina.Bool(a.Rollback), gallina.Z(a.Code))
}

func optz(p *int64) string {
	if p == nil {
		return "None"
	}
	return "(Some " + gallina.Z(*p) + ")"
}

func entries(l [][2]int64) string {
	it := make([]string, len(l))
	for i, e := range l {
		it[i] = "(" + gallina.Z(e[0]) + ", " + gallina.Z(e[1]) + ")"
	}
	return gallina.List(it)
}

func (s sessCfg) gal() string {
	it := make([]string, len(s.Secs))
	for i, a := range s.Secs {
		it[i] = a.gal()
	}
	return fmt.Sprintf("(mkSession %s %s %s %s %s)", gallina.Bool(s.V2), s.Prim.gal(), gallina.List(it), zl(s.Samples), gallina.Bool(s.Commit))
}

func (o sessObs) gal() string {
	ap := make([]string, len(o.Appends))
	for i, a := range o.Appends {
		ap[i] = "(" + gallina.Z(a.Ref) + ", " + optz(a.Err) + ")"
	}
	st := make([]string, len(o.Stores))
	for i, s := range o.Stores {
		st[i] = entries(s)
	}
	return fmt.Sprintf("(mkSessRes %s %s %s %s)", gallina.List(ap), optz(o.End), gallina.List(o.Calls), gallina.List(st))
}

// ---------------------------------------------------------------- query cases
type queryCase struct {
	Kind   string `json:"kind"` // "query"
	Chunk  bool   `json:"chunk"`
	Prim   qCfg   `json:"prim"`
	Secs   []qCfg `json:"secs"`
	NSel   int    `json:"nsel"`
	Order  []int  `json:"order"`
	Currs  []int  `json:"currs"`
	Obs    qObs   `json:"obs"`
	Shape  string `json:"shape"`
	Corpus string `json:"corpus,omitempty"`
	Seed   string `json:"gen,omitempty"`
}

var logger = slog.New(slog.NewTextHandler(io.Discard, nil))

func selMatcher(a int) *labels.Matcher {
	return labels.MustNewMatcher(labels.MatchEqual, "__sel__", fmt.Sprint(a))
}

// runQuery drives the real fanout.
func runQuery(c *queryCase) {
	h := &hub{curSel: -1}
	mk := func(idx int, q qCfg) storage.Storage {
		return &fakeStorage{h: h, idx: idx, q: q}
	}
	prim := mk(0, c.Prim)
	var secs []storage.Storage
	for i, q := range c.Secs {
		secs = append(secs, mk(i+1, q))
	}
	h.firedAt = make([]int, len(c.Secs)+1)
	for i := range h.firedAt {
		h.firedAt[i] = -1
	}
	h.queriers = make([]*fakeQuerier, len(c.Secs)+1)
	fan := storage.NewFanout(logger, prim, secs...)
	ctx := context.Background()

	closedFlags := func() []bool {
		r := make([]bool, len(h.queriers))
		for i, q := range h.queriers {
			r[i] = q != nil && q.closed
		}
		return r
	}
	defer func() {
		if r := recover(); r != nil {
			c.Obs = qObs{CreateFail: true, Errs: []int64{-99}, Panic: fmt.Sprint(r)}
		}
		// currs: one per live secondary
		c.Currs = nil
		for i, q := range c.Secs {
			if q.Kind != "ok" {
				continue
			}
			cu := h.firedAt[i+1]
			if cu < 0 {
				cu = 0
				if len(c.Order) > 0 {
					cu = c.Order[0]
				}
			}
			c.Currs = append(c.Currs, cu)
		}
	}()

	var sq storage.Querier
	var cq storage.ChunkQuerier
	var lq storage.LabelQuerier
	var err error
	if c.Chunk {
		cq, err = fan.ChunkQuerier(0, 1000)
		lq = cq
	} else {
		sq, err = fan.Querier(0, 1000)
		lq = sq
	}
	if err != nil {
		c.Obs = qObs{CreateFail: true, Errs: errCodes(err), Closed: closedFlags()}
		return
	}
	sets := make([]drainable, c.NSel)
	for a := 0; a < c.NSel; a++ {
		if c.Chunk {
			sets[a] = chunkDrain{cq.Select(ctx, a%2 == 0, nil, selMatcher(a))}
		} else {
			sets[a] = sampleDrain{sq.Select(ctx, a%2 == 0, nil, selMatcher(a))}
		}
	}
	obs := qObs{Sels: make([]obsSel, c.NSel)}
	for _, a := range c.Order {
		h.curSel = a
		obs.Sels[a] = drain(sets[a])
	}
	h.curSel = -1
	vals, ws, err := lq.LabelValues(ctx, "k", nil)
	obs.LV = obsLbl{Vals: lblRanks(vals), Warns: warnCodes(ws), Errs: errCodes(err)}
	vals, ws, err = lq.LabelNames(ctx, nil)
	obs.LN = obsLbl{Vals: lblRanks(vals), Warns: warnCodes(ws), Errs: errCodes(err)}
	if cerr := lq.Close(); cerr != nil {
		obs.LN.Errs = append(obs.LN.Errs, -98)
	}
	obs.Closed = closedFlags()
	c.Obs = obs
}

func shapeOfQuery(c *queryCase) string {
	if c.Prim.Kind != "createfail" {
		for _, s := range c.Secs {
			if s.Kind == "createfail" {
				return "secondary-querier-creation-failure"
			}
		}
	}
	for _, s := range c.Secs {
		if s.Kind != "ok" {
			continue
		}
		for _, sc := range s.Sels {
			if sc.FailN >= 1 && sc.FailN <= len(sc.Series) {
				return "secondary-late-iteration-failure"
			}
		}
	}
	return "query"
}

// ---------------------------------------------------------------- generators
const nKeys = 8

func genSeries(r *gen.Rand, dens int) []ser {
	var out []ser
	for k := 0; k < nKeys; k++ {
		if !r.Chance(dens, 8) {
			continue
		}
		s := ser{Key: int64(k)}
		for t := int64(0); t < 6; t++ {
			if r.Chance(1, 2) {
				s.Smp = append(s.Smp, [2]int64{t * 10, valBits(int64(k), t*10)})
			}
		}
		if len(s.Smp) == 0 {
			t := r.Range(0, 5) * 10
			s.Smp = [][2]int64{{t, valBits(int64(k), t)}}
		}
		out = append(out, s)
	}
	return out
}

func genLbl(r *gen.Rand, base int64, failP int) lblCfg {
	l := lblCfg{Err: base + 1}
	for v := int64(0); v < 6; v++ {
		if r.Chance(1, 2) {
			l.Vals = append(l.Vals, v)
		}
	}
	if r.Chance(failP, 16) {
		l.Fail = true
	}
	if r.Chance(1, 4) {
		l.Warns = []int64{base + 2}
	}
	return l
}

// fault: "", "create", "select", "first", "late", "end"
func genQ(r *gen.Rand, idx, nsel int, fault string, faultSel int, lblFailP int) qCfg {
	base := int64(idx+1) * 1000
	if fault == "create" {
		return qCfg{Kind: "createfail", Err: base + 1}
	}
	q := qCfg{Kind: "ok"}
	for a := 0; a < nsel; a++ {
		sb := base + 100 + int64(a)*10
		sc := setCfg{Series: genSeries(r, r.Intn(7)+1), FailN: -1, Err: sb + 1}
		if r.Chance(1, 10) {
			sc.Series = nil
		}
		if r.Chance(1, 4) {
			sc.Warns = []int64{sb + 2}
		}
		if fault != "" && a == faultSel {
			switch fault {
			case "select":
				sc.FailN, sc.ErrNow = 0, true
			case "first":
				sc.FailN = 0
			case "late":
				if len(sc.Series) == 0 {
					sc.Series = genSeries(r, 8)
				}
				sc.FailN = 1 + r.Intn(len(sc.Series))
			case "beyond": // configured failure that is never reached
				sc.FailN = len(sc.Series) + 1 + r.Intn(2)
			}
		}
		q.Sels = append(q.Sels, sc)
	}
	q.LV = genLbl(r, base+50, lblFailP)
	q.LN = genLbl(r, base+60, lblFailP)
	return q
}

func perm(r *gen.Rand, n int) []int {
	p := make([]int, n)
	for i := range p {
		p[i] = i
	}
	for i := n - 1; i > 0; i-- {
		j := r.Intn(i + 1)
		p[i], p[j] = p[j], p[i]
	}
	return p
}

func genQueryCase(r *gen.Rand, allowKnown bool) *queryCase {
	c := &queryCase{Kind: "query", Chunk: r.Chance(1, 3)}
	nsec := r.Intn(5)
	c.NSel = []int{1, 1, 1, 2, 2, 3, 0}[r.Intn(7)]
	secFaults := []string{"", "", "", "select", "first", "first", "beyond"}
	if allowKnown {
		secFaults = append(secFaults, "late", "late", "create")
	}
	primFaults := []string{"", "", "", "", "", "", "select", "first", "late", "create", "beyond"}
	lblP := r.Intn(5)
	pf := gen.Pick(r, primFaults)
	if r.Chance(1, 25) {
		c.Prim = qCfg{Kind: "noop"}
	} else {
		c.Prim = genQ(r, 0, c.NSel, pf, r.Intn(max(c.NSel, 1)), lblP)
	}
	for i := 0; i < nsec; i++ {
		if r.Chance(1, 12) {
			c.Secs = append(c.Secs, qCfg{Kind: "noop"})
			continue
		}
		c.Secs = append(c.Secs, genQ(r, i+1, c.NSel, gen.Pick(r, secFaults), r.Intn(max(c.NSel, 1)), lblP))
	}
	c.Order = perm(r, c.NSel)
	return c
}

// ---------------------------------------------------------------- append cases
type appendCase struct {
	Kind     string    `json:"kind"` // "append"
	Sessions []sessCfg `json:"sessions"`
	Obs      []sessObs `json:"obs"`
	Shape    string    `json:"shape"`
	Corpus   string    `json:"corpus,omitempty"`
}

func genAppendCase(r *gen.Rand) *appendCase {
	c := &appendCase{Kind: "append", Shape: "append"}
	nsec := r.Intn(4)
	v2 := r.Bool()
	ns := 1 + r.Intn(3)
	faulty := r.Intn(4) // 0: no faults at all
	for s := 0; s < ns; s++ {
		sc := sessCfg{V2: v2, Commit: r.Chance(3, 4)}
		n := r.Intn(6)
		for i := 0; i < n; i++ {
			sc.Samples = append(sc.Samples, int64(s*100+i+1))
		}
		mkA := func(idx int) appCfg {
			a := appCfg{Code: int64((s*10+idx+1)*10), Fail: []int{}}
			if faulty > 0 {
				for i := 0; i < n; i++ {
					if r.Chance(1, 6) {
						a.Fail = append(a.Fail, i)
					}
				}
				a.Commit = r.Chance(faulty, 8)
				a.Rollback = r.Chance(faulty, 8)
			}
			return a
		}
		sc.Prim = mkA(0)
		sc.Secs = []appCfg{}
		for j := 0; j < nsec; j++ {
			sc.Secs = append(sc.Secs, mkA(j+1))
		}
		c.Sessions = append(c.Sessions, sc)
	}
	return c
}

func runAppend(c *appendCase) {
	if len(c.Sessions) == 0 {
		return
	}
	n := 1 + len(c.Sessions[0].Secs)
	sts := make([]*fakeStorage, n)
	for i := range sts {
		sts[i] = &fakeStorage{idx: i, q: qCfg{Kind: "noop"}}
	}
	secs := make([]storage.Storage, 0, n-1)
	for _, s := range sts[1:] {
		secs = append(secs, s)
	}
	fan := storage.NewFanout(logger, sts[0], secs...)
	ctx := context.Background()
	for _, s := range c.Sessions {
		sts[0].app = s.Prim
		for j := range s.Secs {
			sts[j+1].app = s.Secs[j]
		}
		for _, st := range sts {
			st.lastApp = nil
		}
		var o sessObs
		func() {
			defer func() {
				if r := recover(); r != nil {
					o.Panic = fmt.Sprint(r)
					m := int64(-99)
					o.End = &m
				}
			}()
			var endErr error
			if s.V2 {
				ap := fan.AppenderV2(ctx)
				for _, x := range s.Samples {
					ref, err := ap.Append(0, lblFor(x), 0, x, float64(x), nil, nil, storage.AOptions{})
					o.Appends = append(o.Appends, appObs{Ref: int64(ref), Err: errCode1(err)})
				}
				if s.Commit {
					endErr = ap.Commit()
				} else {
					endErr = ap.Rollback()
				}
			} else {
				ap := fan.Appender(ctx)
				for _, x := range s.Samples {
					ref, err := ap.Append(0, lblFor(x), x, float64(x))
					o.Appends = append(o.Appends, appObs{Ref: int64(ref), Err: errCode1(err)})
				}
				if s.Commit {
					endErr = ap.Commit()
				} else {
					endErr = ap.Rollback()
				}
			}
			o.End = errCode1(endErr)
		}()
		for _, st := range sts {
			call := "ENone"
			if st.lastApp != nil && len(st.lastApp.calls) == 1 {
				call = st.lastApp.calls[0]
			}
			o.Calls = append(o.Calls, call)
			o.Stores = append(o.Stores, append([][2]int64{}, st.stored...))
		}
		if o.Appends == nil {
			o.Appends = []appObs{}
		}
		c.Obs = append(c.Obs, o)
	}
}

// ---------------------------------------------------------------- main
func main() {
	f := gallina.ParseFlags()
	meta := gallina.NewMeta("C54", f.Seed, f.Tier)
	meta.Rule = "corpus (late-iteration failures at Next #2/#3, creation failure, all-or-nothing across two Selects, commit ordering) + seeded random fanouts: 0-4 secondaries (incl. noop queriers), 0-3 Selects drained in a random order, Querier and ChunkQuerier paths, one optional fault per storage at creation / Select / first Next / later Next / unreachable position, label-query faults, warnings; append histories of 1-3 sessions (Appender and AppenderV2) with Append / Commit / Rollback faults per appender; non-trivial = a query case with >= 1 live secondary and >= 1 injected fault anywhere, or an append case with >= 1 secondary and >= 1 fault; distinct by full case description"
	perShard := 100
	if f.Tier == "thorough" {
		perShard = 300
	}
	cf := &gallina.CaseFile{Dir: f.Out, Type: "case", PerShard: perShard,
		Preamble: "From Coq Require Import List ZArith.\nFrom Verif Require Import model.Fanout corr.CorrC54.\nImport ListNotations.\nOpen Scope Z_scope.\n",
		Footer:   gallina.StdFooter}
	id := 0
	seen := map[string]bool{}

	emitQ := func(c *queryCase) {
		runQuery(c)
		c.Shape = shapeOfQuery(c)
		key, _ := json.Marshal([]any{c.Chunk, c.Prim, c.Secs, c.NSel, c.Order})
		secL := make([]string, len(c.Secs))
		for i, s := range c.Secs {
			secL[i] = s.gal()
		}
		cf.Add(fmt.Sprintf("CQ %s (mkQ %s %s %s %s %s %s)", gallina.Z(int64(id)), c.Prim.gal(), gallina.List(secL),
			gallina.Nat(c.NSel), natl(c.Currs), natl(c.Order), c.Obs.gal()))
		meta.Case(id, c)
		meta.Evaluations++
		// classes
		faults, live := 0, 0
		cls := func(who string, q qCfg) {
			switch q.Kind {
			case "noop":
				meta.Hit(who + "-noop")
			case "createfail":
				meta.Hit(who + "-create-fail")
				faults++
			default:
				if who == "sec" {
					live++
				}
				for _, sc := range q.Sels {
					switch {
					case sc.FailN < 0:
					case sc.ErrNow:
						meta.Hit(who + "-select-fail")
						faults++
					case sc.FailN == 0:
						meta.Hit(who + "-first-next-fail")
						faults++
					case sc.FailN <= len(sc.Series):
						meta.Hit(who + "-late-next-fail")
						faults++
					default:
						meta.Hit(who + "-unreached-fault")
					}
				}
				if q.LV.Fail || q.LN.Fail {
					meta.Hit(who + "-label-fail")
					faults++
				}
			}
		}
		cls("prim", c.Prim)
		nfs := faults
		for _, s := range c.Secs {
			cls("sec", s)
		}
		if faults-nfs >= 2 {
			meta.Hit("multi-secondary-faults")
		}
		if faults == 0 {
			meta.Hit("no-fault")
		}
		meta.Hit(fmt.Sprintf("nsel=%d", c.NSel))
		meta.Hit(fmt.Sprintf("nsec=%d", len(c.Secs)))
		if c.Chunk {
			meta.Hit("chunk-querier")
		} else {
			meta.Hit("sample-querier")
		}
		meta.Hit("shape:" + c.Shape)
		if c.Obs.Panic != "" {
			meta.Hit("PANIC")
		}
		if live >= 1 && faults >= 1 && !seen[string(key)] {
			meta.Nontrivial++
		}
		seen[string(key)] = true
		id++
	}
	emitA := func(c *appendCase) {
		runAppend(c)
		ss := make([]string, len(c.Sessions))
		os := make([]string, len(c.Obs))
		for i := range c.Sessions {
			ss[i] = c.Sessions[i].gal()
		}
		for i := range c.Obs {
			os[i] = c.Obs[i].gal()
		}
		cf.Add(fmt.Sprintf("CA %s (mkA %s %s)", gallina.Z(int64(id)), gallina.List(ss), gallina.List(os)))
		meta.Case(id, c)
		meta.Evaluations++
		faults := 0
		for _, s := range c.Sessions {
			for i, a := range append([]appCfg{s.Prim}, s.Secs...) {
				who := "sec"
				if i == 0 {
					who = "prim"
				}
				if len(a.Fail) > 0 {
					meta.Hit("append-fail-" + who)
					faults++
				}
				if a.Commit && s.Commit {
					meta.Hit("commit-fail-" + who)
					faults++
				}
				if a.Rollback {
					meta.Hit("rollback-fail-" + who)
					faults++
				}
			}
			if s.Commit {
				meta.Hit("session-commit")
			} else {
				meta.Hit("session-rollback")
			}
		}
		if len(c.Sessions) > 0 && c.Sessions[0].V2 {
			meta.Hit("appender-v2")
		} else {
			meta.Hit("appender-v1")
		}
		key, _ := json.Marshal(c.Sessions)
		if faults > 0 && len(c.Sessions[0].Secs) > 0 && !seen[string(key)] {
			meta.Nontrivial++
		}
		seen[string(key)] = true
		id++
	}

	for _, c := range corpusQueries() {
		emitQ(c)
	}
	for _, c := range corpusAppends() {
		emitA(c)
	}

	nq := f.Count(300, 8000)
	na := f.Count(120, 2500)
	for i := 0; i < nq; i++ {
		r := gen.Fork(f.Seed, i)
		// 1 in 12 generated cases may contain the two known-finding fault positions
		emitQ(genQueryCase(r, r.Chance(1, 12)))
	}
	for i := 0; i < na; i++ {
		emitA(genAppendCase(gen.Fork(f.Seed, 1_000_000+i)))
	}
	cf.Flush()
	keys := make([]string, 0, len(meta.Dist))
	for k := range meta.Dist {
		keys = append(keys, k)
	}
	sort.Strings(keys)
	meta.Notes = append(meta.Notes, "classes: "+strings.Join(keys, ","))
	meta.Write(f.Out)
}

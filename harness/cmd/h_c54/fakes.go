package main

import (
	"context"
	"errors"
	"fmt"
	"math"
	"sort"
	"strconv"
	"strings"

	"github.com/prometheus/prometheus/model/exemplar"
	"github.com/prometheus/prometheus/model/histogram"
	"github.com/prometheus/prometheus/model/labels"
	"github.com/prometheus/prometheus/model/metadata"
	"github.com/prometheus/prometheus/storage"
	"github.com/prometheus/prometheus/tsdb/chunkenc"
	"github.com/prometheus/prometheus/tsdb/chunks"
	"github.com/prometheus/prometheus/util/annotations"
)

// ---------------------------------------------------------------- configuration types
type ser struct {
	Key int64      `json:"k"`
	Smp [][2]int64 `json:"s"` // (t, value bits)
}

type setCfg struct {
	Series []ser   `json:"series"`
	FailN  int     `json:"fail_after"` // -1: never; n: the Next call made after n yielded series fails
	ErrNow bool    `json:"err_at_select,omitempty"`
	Err    int64   `json:"err"`
	Warns  []int64 `json:"warns,omitempty"`
}

type lblCfg struct {
	Vals  []int64 `json:"vals"`
	Fail  bool    `json:"fail,omitempty"`
	Err   int64   `json:"err"`
	Warns []int64 `json:"warns,omitempty"`
}

type qCfg struct {
	Kind string   `json:"kind"` // noop | createfail | ok
	Err  int64    `json:"err,omitempty"`
	Sels []setCfg `json:"sels,omitempty"`
	LV   lblCfg   `json:"lv"`
	LN   lblCfg   `json:"ln"`
}

type obsSel struct {
	Series []ser   `json:"series"`
	Errs   []int64 `json:"errs"`
	Warns  []int64 `json:"warns"`
}

type obsLbl struct {
	Vals  []int64 `json:"vals"`
	Warns []int64 `json:"warns"`
	Errs  []int64 `json:"errs"`
}

type qObs struct {
	CreateFail bool     `json:"create_fail,omitempty"`
	Errs       []int64  `json:"errs,omitempty"`
	Closed     []bool   `json:"closed"`
	Sels       []obsSel `json:"sels,omitempty"`
	LV         obsLbl   `json:"lv"`
	LN         obsLbl   `json:"ln"`
	Panic      string   `json:"panic,omitempty"`
}

type appCfg struct {
	Fail     []int `json:"fail"`
	Commit   bool  `json:"commit_fails"`
	Rollback bool  `json:"rollback_fails"`
	Code     int64 `json:"code"`
}

type sessCfg struct {
	V2      bool     `json:"v2"`
	Prim    appCfg   `json:"prim"`
	Secs    []appCfg `json:"secs"`
	Samples []int64  `json:"samples"`
	Commit  bool     `json:"commit"`
}

type appObs struct {
	Ref int64  `json:"ref"`
	Err *int64 `json:"err"`
}

type sessObs struct {
	Appends []appObs     `json:"appends"`
	End     *int64       `json:"end"`
	Calls   []string     `json:"calls"`
	Stores  [][][2]int64 `json:"stores"`
	Panic   string       `json:"panic,omitempty"`
}

// ---------------------------------------------------------------- errors and codes
type codeErr struct{ code int64 }

func (e codeErr) Error() string { return "verif-c54-" + strconv.FormatInt(e.code, 10) }

// collectCodes finds every codeErr reachable through Unwrap (single and multi).
func collectCodes(err error, out map[int64]bool) {
	if err == nil {
		return
	}
	if ce, ok := err.(codeErr); ok {
		out[ce.code] = true
		return
	}
	switch u := err.(type) {
	case interface{ Unwrap() error }:
		collectCodes(u.Unwrap(), out)
	case interface{ Unwrap() []error }:
		for _, e := range u.Unwrap() {
			collectCodes(e, out)
		}
	default:
		out[-2] = true // an error that is not one of ours
	}
}

func sortedCodes(m map[int64]bool) []int64 {
	r := make([]int64, 0, len(m))
	for c := range m {
		r = append(r, c)
	}
	sort.Slice(r, func(i, j int) bool { return r[i] < r[j] })
	return r
}

func errCodes(err error) []int64 {
	m := map[int64]bool{}
	collectCodes(err, m)
	if err != nil && len(m) == 0 {
		m[-2] = true
	}
	return sortedCodes(m)
}

func errCode1(err error) *int64 {
	if err == nil {
		return nil
	}
	c := errCodes(err)
	v := int64(-2)
	if len(c) == 1 {
		v = c[0]
	}
	return &v
}

func warnCodes(ws annotations.Annotations) []int64 {
	m := map[int64]bool{}
	for _, e := range ws {
		collectCodes(e, m)
	}
	return sortedCodes(m)
}

func mkWarns(codes []int64) annotations.Annotations {
	if len(codes) == 0 {
		return nil
	}
	ws := annotations.Annotations{} // fresh map on every call: callers may Add to it
	for _, c := range codes {
		ws.Add(codeErr{c})
	}
	return ws
}

// ---------------------------------------------------------------- data encoding
// sample values are small integers (as float64); they are printed as that integer
func valBits(k, t int64) int64 { return k*1000 + t }

func valOf(v float64) int64 {
	if v != math.Trunc(v) || math.Abs(v) > 1e15 {
		return -7
	}
	return int64(v)
}

func lblsOf(k int64) []string { return []string{"__name__", "m", "k", fmt.Sprintf("k%04d", k)} }

func lblFor(x int64) labels.Labels { return labels.FromStrings("__name__", "m", "k", fmt.Sprintf("k%04d", x%3)) }

func lblStr(v int64) string { return fmt.Sprintf("v%04d", v) }

func lblRanks(vs []string) []int64 {
	r := []int64{}
	for _, v := range vs {
		n, err := strconv.ParseInt(strings.TrimPrefix(v, "v"), 10, 64)
		if err != nil || !strings.HasPrefix(v, "v") {
			n = -1
		}
		r = append(r, n)
	}
	return r
}

func keyOf(l labels.Labels) int64 {
	if l.Len() != 2 || l.Get("__name__") != "m" {
		return -1
	}
	n, err := strconv.ParseInt(strings.TrimPrefix(l.Get("k"), "k"), 10, 64)
	if err != nil {
		return -1
	}
	return n
}

type fsample struct {
	t int64
	f float64
}

func (s fsample) T() int64                      { return s.t }
func (s fsample) ST() int64                     { return 0 }
func (s fsample) F() float64                    { return s.f }
func (s fsample) H() *histogram.Histogram       { return nil }
func (s fsample) FH() *histogram.FloatHistogram { return nil }
func (s fsample) Type() chunkenc.ValueType      { return chunkenc.ValFloat }
func (s fsample) Copy() chunks.Sample           { return s }

func mkSeries(s ser) storage.Series {
	l := make([]chunks.Sample, len(s.Smp))
	for i, p := range s.Smp {
		l[i] = fsample{t: p[0], f: float64(p[1])}
	}
	return storage.NewListSeries(labels.FromStrings(lblsOf(s.Key)...), l)
}

// ---------------------------------------------------------------- fake storage / querier
type hub struct {
	curSel   int   // Select index of the merged set the consumer is draining
	firedAt  []int // per storage: curSel at the first Next of any of its sets
	queriers []*fakeQuerier
}

type fakeStorage struct {
	h   *hub
	idx int
	q   qCfg

	app     appCfg
	lastApp *fakeAppender
	stored  [][2]int64
}

func (s *fakeStorage) newQ() (*fakeQuerier, error) {
	if s.q.Kind == "createfail" {
		return nil, codeErr{s.q.Err}
	}
	fq := &fakeQuerier{s: s}
	s.h.queriers[s.idx] = fq
	return fq, nil
}

func (s *fakeStorage) Querier(_, _ int64) (storage.Querier, error) {
	if s.q.Kind == "noop" {
		return storage.NoopQuerier(), nil
	}
	fq, err := s.newQ()
	if err != nil {
		return nil, err
	}
	return sampleQuerier{fq}, nil
}

func (s *fakeStorage) ChunkQuerier(_, _ int64) (storage.ChunkQuerier, error) {
	if s.q.Kind == "noop" {
		return storage.NoopChunkedQuerier(), nil
	}
	fq, err := s.newQ()
	if err != nil {
		return nil, err
	}
	return chunkQuerier{fq}, nil
}

func (*fakeStorage) StartTime() (int64, error) { return 0, nil }
func (*fakeStorage) Close() error              { return nil }

type fakeQuerier struct {
	s      *fakeStorage
	closed bool
}

func (q *fakeQuerier) Close() error { q.closed = true; return nil }

func (q *fakeQuerier) lbl(l lblCfg) ([]string, annotations.Annotations, error) {
	if l.Fail {
		return nil, mkWarns(l.Warns), codeErr{l.Err}
	}
	vs := make([]string, len(l.Vals))
	for i, v := range l.Vals {
		vs[i] = lblStr(v)
	}
	return vs, mkWarns(l.Warns), nil
}

func (q *fakeQuerier) LabelValues(_ context.Context, name string, _ *storage.LabelHints, _ ...*labels.Matcher) ([]string, annotations.Annotations, error) {
	if name != "k" {
		return nil, nil, codeErr{-3}
	}
	return q.lbl(q.s.q.LV)
}

func (q *fakeQuerier) LabelNames(context.Context, *storage.LabelHints, ...*labels.Matcher) ([]string, annotations.Annotations, error) {
	return q.lbl(q.s.q.LN)
}

// sel finds the configured set from the matcher the consumer passed.
func (q *fakeQuerier) sel(ms []*labels.Matcher) *fakeSet {
	if len(ms) != 1 || ms[0].Name != "__sel__" {
		return &fakeSet{q: q, cfg: setCfg{FailN: 0, ErrNow: true, Err: -4}}
	}
	a, err := strconv.Atoi(ms[0].Value)
	if err != nil || a < 0 || a >= len(q.s.q.Sels) {
		return &fakeSet{q: q, cfg: setCfg{FailN: 0, ErrNow: true, Err: -4}}
	}
	return &fakeSet{q: q, cfg: q.s.q.Sels[a]}
}

type fakeSet struct {
	q      *fakeQuerier
	cfg    setCfg
	i      int
	failed bool
	seen   bool
}

func (s *fakeSet) Next() bool {
	if !s.seen {
		s.seen = true
		h := s.q.s.h
		if h.firedAt[s.q.s.idx] < 0 {
			h.firedAt[s.q.s.idx] = h.curSel
		}
	}
	if s.failed {
		return false
	}
	if s.cfg.FailN == s.i {
		s.failed = true
		return false
	}
	if s.i >= len(s.cfg.Series) {
		return false
	}
	s.i++
	return true
}

func (s *fakeSet) Err() error {
	if s.failed || (s.cfg.ErrNow && s.cfg.FailN == 0) {
		return codeErr{s.cfg.Err}
	}
	return nil
}

func (s *fakeSet) Warnings() annotations.Annotations { return mkWarns(s.cfg.Warns) }

type sampleQuerier struct{ *fakeQuerier }

func (q sampleQuerier) Select(_ context.Context, _ bool, _ *storage.SelectHints, ms ...*labels.Matcher) storage.SeriesSet {
	return sampleSet{q.sel(ms)}
}

type sampleSet struct{ *fakeSet }

func (s sampleSet) At() storage.Series { return mkSeries(s.cfg.Series[s.i-1]) }

type chunkQuerier struct{ *fakeQuerier }

func (q chunkQuerier) Select(_ context.Context, _ bool, _ *storage.SelectHints, ms ...*labels.Matcher) storage.ChunkSeriesSet {
	return chunkSet{q.sel(ms)}
}

type chunkSet struct{ *fakeSet }

func (s chunkSet) At() storage.ChunkSeries {
	return storage.NewSeriesToChunkEncoder(mkSeries(s.cfg.Series[s.i-1]))
}

// ---------------------------------------------------------------- consumer
type drainable interface {
	Next() bool
	Err() error
	Warnings() annotations.Annotations
	at() ser
}

type sampleDrain struct{ storage.SeriesSet }

func readSamples(it chunkenc.Iterator, out *[][2]int64) {
	for vt := it.Next(); vt != chunkenc.ValNone; vt = it.Next() {
		if vt != chunkenc.ValFloat {
			*out = append(*out, [2]int64{-1, -1})
			continue
		}
		t, v := it.At()
		*out = append(*out, [2]int64{t, valOf(v)})
	}
	if it.Err() != nil {
		*out = append(*out, [2]int64{-2, -2})
	}
}

func (d sampleDrain) at() ser {
	s := d.At()
	r := ser{Key: keyOf(s.Labels()), Smp: [][2]int64{}}
	readSamples(s.Iterator(nil), &r.Smp)
	return r
}

type chunkDrain struct{ storage.ChunkSeriesSet }

func (d chunkDrain) at() ser {
	s := d.At()
	r := ser{Key: keyOf(s.Labels()), Smp: [][2]int64{}}
	it := s.Iterator(nil)
	for it.Next() {
		readSamples(it.At().Chunk.Iterator(nil), &r.Smp)
	}
	if it.Err() != nil {
		r.Smp = append(r.Smp, [2]int64{-3, -3})
	}
	return r
}

func drain(d drainable) obsSel {
	o := obsSel{Series: []ser{}}
	for n := 0; d.Next(); n++ {
		if n > 10000 {
			o.Series = append(o.Series, ser{Key: -5})
			break
		}
		o.Series = append(o.Series, d.at())
	}
	o.Errs = errCodes(d.Err())
	o.Warns = warnCodes(d.Warnings())
	return o
}

// ---------------------------------------------------------------- fake appender
type fakeAppender struct {
	s     *fakeStorage
	cfg   appCfg
	n     int // Append calls seen so far
	buf   [][2]int64
	calls []string
}

func (s *fakeStorage) newApp() *fakeAppender {
	a := &fakeAppender{s: s, cfg: s.app}
	s.lastApp = a
	return a
}

func (s *fakeStorage) Appender(context.Context) storage.Appender     { return v1App{s.newApp()} }
func (s *fakeStorage) AppenderV2(context.Context) storage.AppenderV2 { return v2App{s.newApp()} }

// The fanout calls Append on appender j only for the fanout-level calls that reached it, so
// the fake identifies the fanout-level call number by the sample id (t = x, ids are
// session*100 + i + 1).
func (a *fakeAppender) append(ref storage.SeriesRef, t int64) (storage.SeriesRef, error) {
	i := int(t%100) - 1
	for _, f := range a.cfg.Fail {
		if f == i {
			if a.s.idx == 0 {
				return 7, codeErr{a.cfg.Code + 1}
			}
			return 0, codeErr{a.cfg.Code + 1}
		}
	}
	a.buf = append(a.buf, [2]int64{t, int64(ref)})
	return storage.SeriesRef(t + 1000), nil
}

func (a *fakeAppender) Commit() error {
	if a.cfg.Commit {
		a.calls = append(a.calls, "ECommitFail")
		a.buf = nil
		return codeErr{a.cfg.Code + 2}
	}
	a.calls = append(a.calls, "ECommitOk")
	a.s.stored = append(a.s.stored, a.buf...)
	a.buf = nil
	return nil
}

func (a *fakeAppender) Rollback() error {
	a.buf = nil
	if a.cfg.Rollback {
		a.calls = append(a.calls, "ERollbackFail")
		return codeErr{a.cfg.Code + 3}
	}
	a.calls = append(a.calls, "ERollbackOk")
	return nil
}

type v1App struct{ *fakeAppender }

func (a v1App) Append(ref storage.SeriesRef, _ labels.Labels, t int64, _ float64) (storage.SeriesRef, error) {
	return a.append(ref, t)
}
func (v1App) SetOptions(*storage.AppendOptions) {}
func (v1App) AppendExemplar(storage.SeriesRef, labels.Labels, exemplar.Exemplar) (storage.SeriesRef, error) {
	return 0, errors.New("unused")
}
func (v1App) AppendHistogram(storage.SeriesRef, labels.Labels, int64, *histogram.Histogram, *histogram.FloatHistogram) (storage.SeriesRef, error) {
	return 0, errors.New("unused")
}
func (v1App) AppendHistogramSTZeroSample(storage.SeriesRef, labels.Labels, int64, int64, *histogram.Histogram, *histogram.FloatHistogram) (storage.SeriesRef, error) {
	return 0, errors.New("unused")
}
func (v1App) UpdateMetadata(storage.SeriesRef, labels.Labels, metadata.Metadata) (storage.SeriesRef, error) {
	return 0, errors.New("unused")
}
func (v1App) AppendSTZeroSample(storage.SeriesRef, labels.Labels, int64, int64) (storage.SeriesRef, error) {
	return 0, errors.New("unused")
}

type v2App struct{ *fakeAppender }

func (a v2App) Append(ref storage.SeriesRef, _ labels.Labels, _, t int64, _ float64, _ *histogram.Histogram, _ *histogram.FloatHistogram, _ storage.AOptions) (storage.SeriesRef, error) {
	return a.append(ref, t)
}

// ---------------------------------------------------------------- corpus
func s1(k int64, ts ...int64) ser {
	s := ser{Key: k}
	for _, t := range ts {
		s.Smp = append(s.Smp, [2]int64{t, valBits(k, t)})
	}
	return s
}

func okQ(idx int, sels ...setCfg) qCfg {
	base := int64(idx+1) * 1000
	for a := range sels {
		sels[a].Err = base + 100 + int64(a)*10 + 1
	}
	return qCfg{Kind: "ok", Sels: sels,
		LV: lblCfg{Vals: []int64{int64(idx), 4}, Err: base + 51},
		LN: lblCfg{Vals: []int64{0, 1}, Err: base + 61}}
}

func corpusQueries() []*queryCase {
	var out []*queryCase
	add := func(name string, chunk bool, prim qCfg, secs []qCfg, nsel int, order []int) {
		out = append(out, &queryCase{Kind: "query", Chunk: chunk, Prim: prim, Secs: secs, NSel: nsel, Order: order, Corpus: name})
	}
	prim := func() qCfg { return okQ(0, setCfg{Series: []ser{s1(0, 0, 10), s1(3, 20)}, FailN: -1}) }
	three := []ser{s1(1, 0, 30), s1(3, 10, 20), s1(5, 40)}
	for _, chunk := range []bool{false, true} {
		// known finding: secondary fails at Next #2 / #3 / after its last series
		add("finding9-secondary-fails-at-next-2", chunk, prim(), []qCfg{okQ(1, setCfg{Series: three, FailN: 1})}, 1, []int{0})
		add("finding9-secondary-fails-at-next-3", chunk, prim(), []qCfg{okQ(1, setCfg{Series: three, FailN: 2})}, 1, []int{0})
		add("finding9-secondary-fails-after-last", chunk, prim(), []qCfg{okQ(1, setCfg{Series: three, FailN: 3}), okQ(2, setCfg{Series: []ser{s1(7, 50)}, FailN: -1})}, 1, []int{0})
		// the supported positions: Select, first Next
		add("secondary-fails-at-next-1", chunk, prim(), []qCfg{okQ(1, setCfg{Series: three, FailN: 0}), okQ(2, setCfg{Series: []ser{s1(7, 50)}, FailN: -1})}, 1, []int{0})
		add("secondary-fails-at-select", chunk, prim(), []qCfg{okQ(1, setCfg{Series: three, FailN: 0, ErrNow: true})}, 1, []int{0})
		// creation failure of a secondary
		add("secondary-creation-fails", chunk, prim(), []qCfg{okQ(1, setCfg{Series: three, FailN: -1}), {Kind: "createfail", Err: 3001}}, 1, []int{0})
		add("primary-creation-fails", chunk, qCfg{Kind: "createfail", Err: 1001}, []qCfg{okQ(1, setCfg{Series: three, FailN: -1})}, 1, []int{0})
		// primary failures
		add("primary-fails-at-next-1", chunk, okQ(0, setCfg{Series: three, FailN: 0}), []qCfg{okQ(1, setCfg{Series: three, FailN: -1})}, 1, []int{0})
		add("primary-fails-at-next-2", chunk, okQ(0, setCfg{Series: three, FailN: 1}), []qCfg{okQ(1, setCfg{Series: []ser{s1(7, 50)}, FailN: -1})}, 1, []int{0})
		add("primary-alone-fails-late", chunk, okQ(0, setCfg{Series: three, FailN: 2}), nil, 1, []int{0})
		// all-or-nothing across two Selects: the secondary fails in Select 1 only
		p2 := okQ(0, setCfg{Series: []ser{s1(0, 0)}, FailN: -1}, setCfg{Series: []ser{s1(2, 0)}, FailN: -1})
		add("all-or-nothing-two-selects", chunk, p2, []qCfg{okQ(1, setCfg{Series: three, FailN: -1}, setCfg{Series: three, FailN: 0})}, 2, []int{0, 1})
		add("all-or-nothing-two-selects-rev", chunk, p2, []qCfg{okQ(1, setCfg{Series: three, FailN: -1}, setCfg{Series: three, FailN: 0})}, 2, []int{1, 0})
		// primary fails first Next in the first drained Select; secondary fails in the other
		p3 := okQ(0, setCfg{Series: []ser{s1(0, 0)}, FailN: 0}, setCfg{Series: []ser{s1(2, 0)}, FailN: -1})
		add("primary-first-fail-then-secondary", chunk, p3, []qCfg{okQ(1, setCfg{Series: three, FailN: -1}, setCfg{Series: three, FailN: 0}), okQ(2, setCfg{Series: three, FailN: 0}, setCfg{Series: three, FailN: -1})}, 2, []int{0, 1})
		// noop primary with one / two secondaries
		add("noop-primary-one-secondary", chunk, qCfg{Kind: "noop"}, []qCfg{okQ(1, setCfg{Series: three, FailN: 0})}, 1, []int{0})
		add("noop-primary-two-secondaries", chunk, qCfg{Kind: "noop"}, []qCfg{okQ(1, setCfg{Series: three, FailN: -1}), okQ(2, setCfg{Series: []ser{s1(3, 50)}, FailN: -1})}, 1, []int{0})
	}
	// label query failures
	lf := okQ(1, setCfg{Series: three, FailN: -1})
	lf.LV.Fail, lf.LN.Fail = true, true
	lf.LV.Warns = []int64{2052}
	add("secondary-label-queries-fail", false, prim(), []qCfg{lf, okQ(2, setCfg{Series: three, FailN: -1})}, 1, []int{0})
	pf := prim()
	pf.LV.Fail = true
	add("primary-label-values-fail", false, pf, []qCfg{okQ(1, setCfg{Series: three, FailN: -1}), okQ(2, setCfg{Series: three, FailN: -1})}, 1, []int{0})
	return out
}

func corpusAppends() []*appendCase {
	var out []*appendCase
	for _, v2 := range []bool{false, true} {
		mk := func(name string, commit bool, prim appCfg, secs ...appCfg) {
			cs := append([]appCfg{prim}, secs...)
			for i := range cs {
				cs[i].Code = int64((i + 1) * 10)
				if cs[i].Fail == nil {
					cs[i].Fail = []int{}
				}
			}
			out = append(out, &appendCase{Kind: "append", Shape: "append", Corpus: name,
				Sessions: []sessCfg{{V2: v2, Prim: cs[0], Secs: cs[1:], Samples: []int64{1, 2, 3}, Commit: commit}}})
		}
		mk("all-commit", true, appCfg{}, appCfg{}, appCfg{})
		mk("primary-commit-fails", true, appCfg{Commit: true}, appCfg{}, appCfg{Rollback: true})
		mk("first-secondary-commit-fails", true, appCfg{}, appCfg{Commit: true}, appCfg{})
		mk("last-secondary-commit-fails", true, appCfg{}, appCfg{}, appCfg{Commit: true})
		mk("rollback-with-errors", false, appCfg{}, appCfg{Rollback: true}, appCfg{Rollback: true})
		mk("append-fails-on-secondary", true, appCfg{}, appCfg{Fail: []int{1}}, appCfg{})
		mk("append-fails-on-primary", true, appCfg{Fail: []int{0, 2}}, appCfg{}, appCfg{})
	}
	return out
}

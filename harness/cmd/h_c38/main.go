// h_c38: correspondence harness for C38 (relabel.ProcessBuilder + labels.Builder).
//
// For every case it builds a real labels.Builder over a generated label set and applies a
// generated chain of validated relabel configs ONE RULE AT A TIME through the real
// relabel.ProcessBuilder on that same builder, recording after each rule keep/drop/panic and
// Builder.Range in its exact order, and Builder.Labels() at the end. The whole chain is also
// run in one ProcessBuilder call on a second builder and must give the same Labels().
//
// Oracles (tabulated per rule application on the arguments the implementation uses, computed
// with the Go STANDARD library regexp on "^(?s:" + regex + ")$", crypto/md5, strings.ToLower/
// ToUpper and model.ValidationScheme.IsValidLabelName) travel with the case.
package main

import (
	"crypto/md5"
	"encoding/binary"
	"fmt"
	"regexp"
	"sort"
	"strings"

	"github.com/prometheus/common/model"

	"github.com/prometheus/prometheus/model/labels"
	"github.com/prometheus/prometheus/model/relabel"

	"verif/harness/internal/gallina"
	"verif/harness/internal/gen"
)

type ruleSpec struct {
	Action    string   `json:"action"`
	Src       []string `json:"src,omitempty"`
	Sep       string   `json:"sep"`
	Regex     string   `json:"regex"`
	DefaultRe bool     `json:"default_regex,omitempty"` // cfg.Regex is DefaultRelabelConfig.Regex itself
	Modulus   uint64   `json:"modulus,omitempty"`
	Target    string   `json:"target,omitempty"`
	Repl      string   `json:"replacement"`
	UTF8      bool     `json:"utf8,omitempty"`
}

type desc struct {
	Base   [][2]string `json:"base"`
	Rules  []ruleSpec  `json:"rules"`
	Obs    []string    `json:"obs"`
	Final  string      `json:"final"`
	Shape  string      `json:"shape"`
	Corpus string      `json:"corpus,omitempty"`
}

var actionCtor = map[string]string{
	"replace": "Replace", "keep": "Keep", "drop": "Drop", "keepequal": "KeepEqual", "dropequal": "DropEqual",
	"hashmod": "HashMod", "labelmap": "LabelMap", "labeldrop": "LabelDrop", "labelkeep": "LabelKeep",
	"lowercase": "Lowercase", "uppercase": "Uppercase",
}

func (r ruleSpec) scheme() model.ValidationScheme {
	if r.UTF8 {
		return model.UTF8Validation
	}
	return model.LegacyValidation
}

func (r ruleSpec) config() (cfg *relabel.Config, err error) {
	defer func() {
		if p := recover(); p != nil {
			err = fmt.Errorf("regex: %v", p)
		}
	}()
	cfg = &relabel.Config{
		Action: relabel.Action(r.Action), Separator: r.Sep, Modulus: r.Modulus,
		TargetLabel: r.Target, Replacement: r.Repl, NameValidationScheme: r.scheme(),
	}
	for _, s := range r.Src {
		cfg.SourceLabels = append(cfg.SourceLabels, model.LabelName(s))
	}
	if r.DefaultRe {
		cfg.Regex = relabel.DefaultRelabelConfig.Regex
	} else {
		cfg.Regex = relabel.MustNewRegexp(r.Regex)
	}
	return cfg, nil
}

func (r ruleSpec) gallina() string {
	src := make([]string, len(r.Src))
	for i, s := range r.Src {
		src[i] = gallina.Str(s)
	}
	return fmt.Sprintf("(mkRule %s %s %s %s %s %s %s %s %s)", actionCtor[r.Action], gallina.List(src), gallina.Str(r.Sep),
		gallina.Str(r.Regex), gallina.Bool(r.DefaultRe), gallina.ZU(r.Modulus), gallina.Str(r.Target), gallina.Str(r.Repl), gallina.Bool(r.UTF8))
}

func lblsTerm(ls []labels.Label) string {
	it := make([]string, len(ls))
	for i, l := range ls {
		it[i] = gallina.Pair(gallina.Str(l.Name), gallina.Str(l.Value))
	}
	if len(it) == 0 {
		return "([] : list label)"
	}
	return gallina.List(it)
}

func lblsStr(ls []labels.Label) string {
	var sb strings.Builder
	for i, l := range ls {
		if i > 0 {
			sb.WriteByte(',')
		}
		fmt.Fprintf(&sb, "%q=%q", l.Name, l.Value)
	}
	return sb.String()
}

func rangeOf(lb *labels.Builder) []labels.Label {
	var out []labels.Label
	lb.Range(func(l labels.Label) { out = append(out, l) })
	return out
}

// ---- oracle tables of one rule application
type tables struct {
	match, find, expand, replAll, md5, lower, upper, valid []string
	seen                                                    map[string]bool
	class                                                   string // partition class of a replace application

}

func (t *tables) once(k string) bool {
	if t.seen == nil {
		t.seen = map[string]bool{}
	}
	if t.seen[k] {
		return false
	}
	t.seen[k] = true
	return true
}

func zlist(idx []int) string {
	it := make([]string, len(idx))
	for i, v := range idx {
		it[i] = gallina.Z(int64(v))
	}
	return gallina.List(it)
}

func (t *tables) term() string {
	l := func(items []string, ty string) string {
		if len(items) == 0 {
			return "([] : list (" + ty + "))"
		}
		return gallina.List(items)
	}
	return "(mkT " + l(t.match, "str * bool") + " " + l(t.find, "str * option (list Z)") + " " +
		l(t.expand, "(str * str * list Z) * str") + " " + l(t.replAll, "(str * str) * str") + " " +
		l(t.md5, "str * Z") + " " + l(t.lower, "str * str") + " " + l(t.upper, "str * str") + " " + l(t.valid, "str * bool") + ")"
}

// tabulate computes, with reference library calls only, the oracle results the rule application
// needs in the builder's current state.
func tabulate(r ruleSpec, lb *labels.Builder) *tables {
	t := &tables{}
	re := regexp.MustCompile("^(?s:" + r.Regex + ")$") // documented: fully anchored
	vals := make([]string, len(r.Src))
	for i, s := range r.Src {
		vals[i] = lb.Get(s)
	}
	val := strings.Join(vals, r.Sep)
	addMatch := func(s string) bool {
		m := re.MatchString(s)
		if t.once("m" + s) {
			t.match = append(t.match, gallina.Pair(gallina.Str(s), gallina.Bool(m)))
		}
		return m
	}
	addValid := func(s string) {
		if t.once("v" + s) {
			t.valid = append(t.valid, gallina.Pair(gallina.Str(s), gallina.Bool(r.scheme().IsValidLabelName(s))))
		}
	}
	switch r.Action {
	case "keep", "drop":
		addMatch(val)
	case "replace":
		addValid(r.Target)
		idx := re.FindStringSubmatchIndex(val)
		if idx == nil {
			t.find = append(t.find, gallina.Pair(gallina.Str(val), "None"))
			t.class = "replace-no-match"
			break
		}
		t.find = append(t.find, gallina.Pair(gallina.Str(val), gallina.Some(zlist(idx))))
		exp := func(tpl string) string {
			res := string(re.ExpandString([]byte{}, tpl, val, idx))
			if t.once("e" + tpl) {
				t.expand = append(t.expand, gallina.Pair("("+gallina.Str(tpl)+", "+gallina.Str(val)+", "+zlist(idx)+")", gallina.Str(res)))
			}
			return res
		}
		tgt := exp(r.Target)
		addValid(tgt)
		res := exp(r.Repl)
		switch {
		case val == "" && r.DefaultRe && !strings.Contains(r.Target, "$") && !strings.Contains(r.Repl, "$"):
			t.class = "replace-fast-path"
		case !r.scheme().IsValidLabelName(tgt):
			t.class = "replace-invalid-target"
		case res == "":
			t.class = "replace-delete"
		case strings.Contains(r.Target, "$"):
			t.class = "replace-template-target"
		default:
			t.class = "replace-set"
		}
	case "lowercase":
		t.lower = append(t.lower, gallina.Pair(gallina.Str(val), gallina.Str(strings.ToLower(val))))
	case "uppercase":
		t.upper = append(t.upper, gallina.Pair(gallina.Str(val), gallina.Str(strings.ToUpper(val))))
	case "hashmod":
		h := md5.Sum([]byte(val))
		t.md5 = append(t.md5, gallina.Pair(gallina.Str(val), gallina.ZU(binary.BigEndian.Uint64(h[8:]))))
	case "labelmap":
		for _, l := range rangeOf(lb) {
			if addMatch(l.Name) && t.once("r"+l.Name) {
				t.replAll = append(t.replAll, gallina.Pair(gallina.Pair(gallina.Str(l.Name), gallina.Str(r.Repl)),
					gallina.Str(re.ReplaceAllString(l.Name, r.Repl))))
			}
		}
	case "labeldrop", "labelkeep":
		for _, l := range rangeOf(lb) {
			addMatch(l.Name)
		}
	}
	return t
}

// collisionOrder reports whether a labelmap application has colliding targets at all, and
// whether the winner in Builder.Range order differs from the winner in name order.
func collisionOrder(r ruleSpec, rng []labels.Label) (collision, orderMatters bool) {
	re := regexp.MustCompile("^(?s:" + r.Regex + ")$")
	type w struct {
		n    int
		last string
	}
	win := func(ls []labels.Label) map[string]w {
		m := map[string]w{}
		for _, l := range ls {
			if re.MatchString(l.Name) {
				k := re.ReplaceAllString(l.Name, r.Repl)
				m[k] = w{m[k].n + 1, l.Value}
			}
		}
		return m
	}
	sorted := append([]labels.Label{}, rng...)
	sort.Slice(sorted, func(i, j int) bool { return sorted[i].Name < sorted[j].Name })
	a, b := win(rng), win(sorted)
	for k, v := range a {
		if v.n > 1 {
			collision = true
		}
		if b[k].last != v.last {
			orderMatters = true
		}
	}
	return collision, orderMatters
}

// ---- generators
var (
	namePool = []string{"a", "b", "c", "a1", "a2", "ab", "b1", "__name__", "job", "instance", "__meta_x", "__meta_y", "__tmp", "B", "x"}
	valPool  = []string{"x", "y", "foo", "bar", "foo;bar", "Foo", "BAR", "a1", "a2", "b", "1", "0", "x;y", "Grüße", "x\ny", "job", "", "ÀÉ", "a-b"}
	sepPool  = []string{";", ";", ";", "", "-", ";;", "@"}
	rePool   = []string{"(.*)", ".*", "", "x", "(x|y)", "foo;(.*)", "(.+);(.+)", "([^;]*);?(.*)", "a(.)", "a.*", "(a|b)(.*)",
		"(?P<name>[a-zA-Z_]+)(\\d*)", "__meta_(.+)", "[^;]+", ".+", "(.)(.*)", "(?i)foo", "x.y", "b|a1", "(.*)(\\d)", "()"}
	replPool = []string{"$1", "${1}", "$2", "${2}", "${name}", "z", "", "$1-$2", "${1}_x", "b", "$0", "$$", "$1x", "c", "${2}${1}", "$name", "foo", "$3"}
	tgtPool  = []string{"a", "b", "c", "a1", "t", "job", "__tmp", "${1}", "a$1", "t_${name}", "$1", "${2}", "x_${1}_y", "B"}
)

func genBase(r *gen.Rand) []labels.Label {
	n := r.Intn(7)
	if r.Chance(1, 12) {
		n = 10 + r.Intn(5)
	}
	m := map[string]string{}
	for i := 0; i < n; i++ {
		v := gen.Pick(r, valPool)
		if v == "" && !r.Chance(1, 3) {
			v = "v"
		}
		m[gen.Pick(r, namePool)] = v
	}
	var out []labels.Label
	for k, v := range m {
		out = append(out, labels.Label{Name: k, Value: v})
	}
	sort.Slice(out, func(i, j int) bool { return out[i].Name < out[j].Name })
	return out
}

func genSrc(r *gen.Rand) []string {
	n := r.Intn(4)
	if r.Chance(1, 10) { // around the 16-slot stack array of relabel()
		n = []int{15, 16, 17, 18, 20, 40}[r.Intn(6)]
	}
	var s []string
	for i := 0; i < n; i++ {
		s = append(s, gen.Pick(r, namePool))
	}
	return s
}

var actions = []string{"replace", "replace", "replace", "replace", "keep", "drop", "keepequal", "dropequal", "hashmod",
	"labelmap", "labelmap", "labeldrop", "labelkeep", "lowercase", "uppercase"}

func genRule(r *gen.Rand) ruleSpec {
	for {
		rs := ruleSpec{Action: gen.Pick(r, actions), Sep: ";", Regex: "(.*)", Repl: "$1", UTF8: r.Chance(1, 4)}
		switch rs.Action {
		case "replace":
			rs.Src, rs.Sep, rs.Target, rs.Repl = genSrc(r), gen.Pick(r, sepPool), gen.Pick(r, tgtPool), gen.Pick(r, replPool)
			if r.Chance(1, 3) {
				rs.DefaultRe = true
				if r.Chance(1, 2) {
					rs.Src = nil // fast path candidates
				}
			} else if r.Chance(1, 2) {
				rs.Regex = gen.Pick(r, []string{"(.*)", ".*", "([^;]*);?(.*)", "(.)(.*)", "(?P<name>[a-zA-Z_]*)(.*)", "(.*?);?(.*)"})
			} else {
				rs.Regex = gen.Pick(r, rePool)
			}
		case "keep", "drop":
			rs.Src, rs.Sep, rs.Regex = genSrc(r), gen.Pick(r, sepPool), gen.Pick(r, rePool)
		case "keepequal", "dropequal":
			rs.Src, rs.Target, rs.DefaultRe = genSrc(r), gen.Pick(r, namePool), true
		case "hashmod":
			rs.Src, rs.Sep, rs.Target = genSrc(r), gen.Pick(r, sepPool), gen.Pick(r, namePool)
			rs.Modulus = []uint64{1, 2, 7, 10, 1000, 1 << 63, ^uint64(0), 0}[r.Intn(8)]
		case "labelmap":
			rs.Regex, rs.Repl = gen.Pick(r, rePool), gen.Pick(r, replPool)
		case "labeldrop", "labelkeep":
			rs.Regex = gen.Pick(r, rePool)
		case "lowercase", "uppercase":
			rs.Src, rs.Sep, rs.Target = genSrc(r), gen.Pick(r, sepPool), gen.Pick(r, namePool)
		}
		cfg, err := rs.config()
		if err != nil {
			continue
		}
		if err := cfg.Validate(rs.scheme()); err != nil {
			// malformed stream: only the zero modulus is kept (Go panics: integer divide by zero)
			if rs.Action == "hashmod" && rs.Modulus == 0 {
				return rs
			}
			continue
		}
		return rs
	}
}

func main() {
	f := gallina.ParseFlags()
	meta := gallina.NewMeta("C38", f.Seed, f.Tier)
	meta.Rule = "corpus of fixed chains + seeded random (label set, chain of 1..6 Validate()-accepted rules over all eleven actions; hashmod with modulus 0 as the only malformed rule); every rule applied singly through relabel.ProcessBuilder on one builder; non-trivial = at least one rule application changed the label set, dropped it or panicked; distinct by (base, rules)"
	perShard := 60
	if f.Tier == "thorough" {
		perShard = 250
	}
	cf := &gallina.CaseFile{Dir: f.Out, Type: "case", PerShard: perShard,
		Preamble: "From Coq Require Import List ZArith NArith.\nFrom Verif Require Import model.Relabel corr.CorrC38.\nImport ListNotations.\nOpen Scope Z_scope.\n",
		Footer:   gallina.StdFooter}
	id := 0
	seen := map[string]bool{}

	emit := func(base []labels.Label, rules []ruleSpec, corpus string) {
		key := fmt.Sprintf("%q %+v", base, rules)
		if seen[key] {
			return
		}
		seen[key] = true
		lb := labels.NewBuilder(labels.New(base...))
		var steps, obsS []string
		var cfgs []*relabel.Config
		shape, nontrivial, stopped := "ok", false, false
		prev := lblsStr(rangeSorted(lb))
		for _, rs := range rules {
			cfg, err := rs.config()
			if err != nil {
				panic(err)
			}
			pre := rangeOf(lb)
			tab := tabulate(rs, lb)
			if rs.Action == "labelmap" {
				c, o := collisionOrder(rs, pre)
				if c {
					meta.Hit("labelmap-collision")
				}
				if o {
					meta.Hit("labelmap-collision-order")
					shape = "labelmap-collision-order"
				}
			}
			keep, panicked := runOne(lb, cfg)
			cfgs = append(cfgs, cfg)
			rng := rangeOf(lb)
			meta.Hit("action-" + rs.Action)
			if len(rs.Src) > 16 {
				meta.Hit("source-labels-over-16")
			}
			var obs string
			switch {
			case panicked:
				obs, stopped = "ObsPanic", true
				obsS = append(obsS, "panic")
				meta.Hit("panic")
				if shape == "ok" {
					shape = "panic"
				}
			case keep:
				obs = "(ObsKeep " + lblsTerm(rng) + ")"
				obsS = append(obsS, "keep "+lblsStr(rng))
			default:
				obs, stopped = "(ObsDrop "+lblsTerm(rng)+")", true
				obsS = append(obsS, "drop")
				meta.Hit("dropped")
			}
			now := lblsStr(rangeSorted(lb))
			if now != prev || stopped {
				nontrivial = true
			} else {
				meta.Hit("noop-step")
			}
			if tab.class != "" {
				meta.Hit(tab.class)
			}
			prev = now
			steps = append(steps, "mkStep "+rs.gallina()+" "+tab.term()+" "+obs)
			if stopped {
				break
			}
		}
		var final []labels.Label
		lb.Labels().Range(func(l labels.Label) { final = append(final, l) })
		// the same chain in ONE ProcessBuilder call on a fresh builder
		if !stopped || true {
			lb2 := labels.NewBuilder(labels.New(base...))
			runAll(lb2, cfgs)
			var f2 []labels.Label
			lb2.Labels().Range(func(l labels.Label) { f2 = append(f2, l) })
			if lblsStr(f2) != lblsStr(final) {
				meta.GoViol = append(meta.GoViol, gallina.GoViolation{ID: fmt.Sprint(id), Shape: "chain-vs-single-steps",
					What: "one ProcessBuilder call over the chain gave " + lblsStr(f2) + ", rule-by-rule calls gave " + lblsStr(final)})
			}
		}
		if nontrivial {
			meta.Nontrivial++
		}
		meta.Hit(fmt.Sprintf("chain-len-%d", len(steps)))
		bp := make([][2]string, len(base))
		for i, l := range base {
			bp[i] = [2]string{l.Name, l.Value}
		}
		if len(steps) == 0 {
			cf.Add(fmt.Sprintf("mkCase %s %s ([] : list step) %s", gallina.Z(int64(id)), lblsTerm(base), lblsTerm(final)))
		} else {
			cf.Add(fmt.Sprintf("mkCase %s %s %s %s", gallina.Z(int64(id)), lblsTerm(base), gallina.List(steps), lblsTerm(final)))
		}
		meta.Case(id, desc{Base: bp, Rules: rules, Obs: obsS, Final: lblsStr(final), Shape: shape, Corpus: corpus})
		meta.Evaluations++
		id++
	}

	L := func(kv ...string) []labels.Label {
		var out []labels.Label
		for i := 0; i+1 < len(kv); i += 2 {
			out = append(out, labels.Label{Name: kv[i], Value: kv[i+1]})
		}
		sort.Slice(out, func(i, j int) bool { return out[i].Name < out[j].Name })
		return out
	}
	def := func(a string) ruleSpec { return ruleSpec{Action: a, Sep: ";", Regex: "(.*)", Repl: "$1"} }
	with := func(r ruleSpec, fn func(*ruleSpec)) ruleSpec { fn(&r); return r }

	// ---- corpus
	emit(L("a1", "x", "a2", "y"), []ruleSpec{
		with(def("replace"), func(r *ruleSpec) { r.Target, r.Repl = "a1", "z" }),
		with(def("labelmap"), func(r *ruleSpec) { r.Regex, r.Repl = "a(.)", "b" })}, "labelmap-collision-after-set")
	emit(L("a1", "x", "a2", "y"), []ruleSpec{
		with(def("labelmap"), func(r *ruleSpec) { r.Regex, r.Repl = "a(.)", "b" })}, "labelmap-collision-fresh")
	emit(L("a", "foo", "b", "bar"), []ruleSpec{
		with(def("replace"), func(r *ruleSpec) { r.DefaultRe, r.Target, r.Repl = true, "c", "lit" }),
		with(def("replace"), func(r *ruleSpec) { r.DefaultRe, r.Target, r.Repl = true, "a", "" }),
		with(def("replace"), func(r *ruleSpec) { r.Src, r.Regex, r.Target, r.Repl = []string{"a", "b"}, "(.*);(.*)", "${2}", "$1" })}, "fast-path-add-delete")
	emit(L("a", "foo", "b", "bar"), []ruleSpec{
		with(def("replace"), func(r *ruleSpec) { r.Src, r.Regex, r.Target, r.Repl = []string{"a"}, "f(oo)", "d", "" }),
		with(def("replace"), func(r *ruleSpec) { r.Src, r.Regex, r.Target, r.Repl = []string{"a"}, "fo", "d", "unanchored" }),
		with(def("keep"), func(r *ruleSpec) { r.Src, r.Regex = []string{"b"}, "ba" })}, "anchoring")
	emit(L("a", "Foo", "b", ""), []ruleSpec{
		with(def("labeldrop"), func(r *ruleSpec) { r.Regex = "a" }),
		with(def("uppercase"), func(r *ruleSpec) { r.Src, r.Target = []string{"a", "b"}, "a" }),
		with(def("labelkeep"), func(r *ruleSpec) { r.Regex = "a|b" }),
		with(def("hashmod"), func(r *ruleSpec) { r.Src, r.Target, r.Modulus = []string{"a"}, "h", 1000 }),
		with(def("dropequal"), func(r *ruleSpec) { r.DefaultRe, r.Src, r.Target = true, []string{"a"}, "h" }),
		with(def("keepequal"), func(r *ruleSpec) { r.DefaultRe, r.Src, r.Target = true, []string{"h"}, "h" })}, "del-then-set")
	emit(L("a", "x"), []ruleSpec{with(def("hashmod"), func(r *ruleSpec) { r.Src, r.Target = []string{"a"}, "h" })}, "modulus-zero")
	emit(nil, nil, "empty")

	// ---- many source labels: relabel() collects the values in a 16-slot stack array and falls back
	// to the heap above 16; every action that consumes the concatenation, at 0,1,15,16,17,18,20,40
	// source labels (absent ones among them), with the separators ";", "", "-", multi-byte.
	{
		cyc := []string{"a", "nope1", "b", "c", "nope2", "job", "a"}
		mbase := map[string]string{"a": "x1", "b": "y", "c": "Foo", "job": "J"}
		seps := []string{";", "", "-", "é·", ";;"}
		k := 0
		for _, cnt := range []int{0, 1, 15, 16, 17, 18, 20, 40} {
			src := make([]string, cnt)
			vals := make([]string, cnt)
			for i := range src {
				src[i] = cyc[i%len(cyc)]
				vals[i] = mbase[src[i]]
			}
			for _, act := range []string{"keep", "drop", "replace", "hashmod", "lowercase", "uppercase", "keepequal", "dropequal"} {
				sep := seps[k%len(seps)]
				k++
				rs := def(act)
				rs.Src, rs.Sep = src, sep
				bl := []string{"a", "x1", "b", "y", "c", "Foo", "job", "J"}
				switch act {
				case "keep", "drop":
					rs.Regex = "x1.*|" // the correct concatenation starts with a's value (or is empty)
				case "replace":
					rs.Target, rs.Repl = "t", "<$1>"
				case "hashmod":
					rs.Target, rs.Modulus = "t", 1000003
				case "lowercase", "uppercase":
					rs.Target = "t"
				case "keepequal", "dropequal":
					rs.Sep, rs.DefaultRe, rs.Target = ";", true, "t"
					bl = append(bl, "t", strings.Join(vals, ";"))
				}
				cfg, err := rs.config()
				if err != nil {
					panic(err)
				}
				if err := cfg.Validate(rs.scheme()); err != nil {
					panic(fmt.Sprintf("many-sources corpus rule invalid: %v", err))
				}
				meta.Hit(fmt.Sprintf("source-labels-%d", cnt))
				// follow with a rule that makes the label set depend on the outcome of keep/drop too
				emit(L(bl...), []ruleSpec{rs, with(def("uppercase"), func(r *ruleSpec) { r.Src, r.Target = []string{"t"}, "u" })},
					fmt.Sprintf("many-sources-%d-%s", cnt, act))
			}
		}
	}

	// ---- seeded random chains
	n := f.Count(350, 6000)
	for i := 0; i < n; i++ {
		r := gen.Fork(f.Seed, i)
		base := genBase(r)
		k := 1 + r.Intn(4)
		if r.Chance(1, 5) {
			k += 2
		}
		rules := make([]ruleSpec, k)
		for j := range rules {
			rules[j] = genRule(r)
		}
		emit(base, rules, "")
	}
	cf.Flush()
	meta.Write(f.Out)
}

func rangeSorted(lb *labels.Builder) []labels.Label {
	r := rangeOf(lb)
	sort.Slice(r, func(i, j int) bool { return r[i].Name < r[j].Name })
	return r
}

func runOne(lb *labels.Builder, cfg *relabel.Config) (keep, panicked bool) {
	defer func() {
		if r := recover(); r != nil {
			panicked = true
		}
	}()
	return relabel.ProcessBuilder(lb, cfg), false
}

func runAll(lb *labels.Builder, cfgs []*relabel.Config) (keep, panicked bool) {
	defer func() {
		if r := recover(); r != nil {
			panicked = true
		}
	}()
	return relabel.ProcessBuilder(lb, cfgs...), false
}

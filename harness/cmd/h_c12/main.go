// h_c12: correspondence harness for C12 (counter-reset hints returned by queries are sound).
//
// Two kinds of cases (corr/CorrC12.v):
//
//	chunk cases: a generated sequence of (cut, t, histogram) is appended through the real
//	  chunkenc.HistogramAppender.AppendHistogram / FloatHistogramAppender.AppendFloatHistogram exactly as
//	  the head does it (fresh chunk + prev appender on a forced cut, following the returned chunk/appender
//	  otherwise); every resulting chunk is read back with the real iterator (AtHistogram /
//	  AtFloatHistogram, fresh or re-used target). Observed: chunk headers, per sample (t, hint, value).
//	  The model must predict all of it; `holds` is the property on the concatenated read.
//
//	merge cases: two or three overlapping series (timestamps shared between them carry equal or different
//	  values) are appended through the real appenders; every resulting chunk is one input of the real
//	  chained sample iterator (ChainSampleIteratorFromIterables / FromIterators / ChainedSeriesMerge).
//	  The model must predict the merged list from the appended operations alone (chunk model + merge
//	  model); `holds` is the property on the merged list.
//
//	query cases: a real tsdb.DB (head, out-of-order head, blocks from head and OOO compaction,
//	  vertical merges of overlapping blocks, reopen, deletes) is filled with a generated histogram series
//	  and queried at generated ranges through the queriers DB.Querier builds (block queriers, range head,
//	  HeadAndOOOQuerier) merged by storage.NewMergeQuerier(ChainedSeriesMerge). Every part querier is
//	  wrapped so that the samples each source yields are recorded. Observed: per source list, merged
//	  list (checked equal to what DB.Querier itself returns). The model's chained merge of the source
//	  lists must give the merged list; `holds` is the property on the merged list.
package main

import (
	"context"
	"fmt"
	"io"
	"log/slog"
	"math"
	"os"
	"sort"
	"strings"
	"time"

	"github.com/prometheus/prometheus/model/histogram"
	"github.com/prometheus/prometheus/model/labels"
	"github.com/prometheus/prometheus/model/value"
	"github.com/prometheus/prometheus/storage"
	"github.com/prometheus/prometheus/tsdb"
	"github.com/prometheus/prometheus/tsdb/chunkenc"
	"github.com/prometheus/prometheus/tsdb/tombstones"

	"verif/harness/internal/gallina"
	"verif/harness/internal/gen"
	"verif/harness/internal/tsdbx"
)

// ---------------------------------------------------------------- Gallina printing

// All values are written as one flat list of numbers per case (variable-length parts prefixed by
// their length), packed into primitive 63-bit literals; corr/CorrC12.v unpacks and parses it.
type enc []int64

func (e *enc) n(v int64) { *e = append(*e, v) }

func (e *enc) b(v bool) {
	if v {
		e.n(1)
	} else {
		e.n(0)
	}
}

func (e *enc) bits(f float64) {
	u := math.Float64bits(f)
	e.n(int64(u >> 32))
	e.n(int64(u & 0xffffffff))
}

func (e *enc) spans(ss []histogram.Span) {
	e.n(int64(len(ss)))
	for _, s := range ss {
		e.n(int64(s.Offset))
		e.n(int64(s.Length))
	}
}

func (e *enc) ints(vs []int64) {
	e.n(int64(len(vs)))
	for _, v := range vs {
		e.n(v)
	}
}

func (e *enc) custom(vs []float64) {
	e.n(int64(len(vs)))
	for _, v := range vs {
		e.bits(v)
	}
}

// String packs the numbers: zigzag, then base-2^14 digits with a continuation bit (15-bit symbols),
// four symbols per 63-bit literal (Coq parses literals slowly, so fewer is better).
func (e enc) String() string {
	var syms []uint64
	for _, v := range e {
		u := uint64(v<<1) ^ uint64(v>>63)
		for {
			s := u & 0x3fff
			u >>= 14
			if u != 0 {
				s |= 0x4000
			}
			syms = append(syms, s)
			if u == 0 {
				break
			}
		}
	}
	for len(syms)%4 != 0 {
		syms = append(syms, 0)
	}
	var sb strings.Builder
	sb.WriteByte('[')
	for i := 0; i < len(syms); i += 4 {
		if i > 0 {
			sb.WriteByte(';')
		}
		fmt.Fprintf(&sb, "%d", syms[i]|syms[i+1]<<15|syms[i+2]<<30|syms[i+3]<<45)
	}
	sb.WriteByte(']')
	return sb.String()
}

func floatsAsInts(vs []float64) []int64 {
	out := make([]int64, len(vs))
	for i, v := range vs {
		out[i] = fint(v)
	}
	return out
}

func fint(v float64) int64 {
	if v != math.Trunc(v) || math.Abs(v) > 1e15 {
		panic(fmt.Sprintf("non-integral float count %v", v))
	}
	return int64(v)
}

// hist writes an integer histogram (delta buckets).
func (e *enc) hist(h *histogram.Histogram) {
	e.n(1)
	e.n(int64(h.CounterResetHint))
	e.b(value.IsStaleNaN(h.Sum))
	e.n(int64(h.Schema))
	e.bits(h.ZeroThreshold)
	e.custom(h.CustomValues)
	e.n(int64(h.Count))
	e.n(int64(h.ZeroCount))
	e.spans(h.PositiveSpans)
	e.spans(h.NegativeSpans)
	e.ints(h.PositiveBuckets)
	e.ints(h.NegativeBuckets)
}

// fhist writes a float histogram (absolute buckets; all counts are integral by construction).
func (e *enc) fhist(h *histogram.FloatHistogram) {
	e.n(0)
	e.n(int64(h.CounterResetHint))
	e.b(value.IsStaleNaN(h.Sum))
	e.n(int64(h.Schema))
	e.bits(h.ZeroThreshold)
	e.custom(h.CustomValues)
	e.n(fint(h.Count))
	e.n(fint(h.ZeroCount))
	e.spans(h.PositiveSpans)
	e.spans(h.NegativeSpans)
	e.ints(floatsAsInts(h.PositiveBuckets))
	e.ints(floatsAsInts(h.NegativeBuckets))
}

// obs is one returned sample.
type obs struct {
	t  int64
	h  *histogram.Histogram
	fh *histogram.FloatHistogram
}

func (o obs) hint() histogram.CounterResetHint {
	if o.h != nil {
		return o.h.CounterResetHint
	}
	return o.fh.CounterResetHint
}

func (o obs) stale() bool {
	if o.h != nil {
		return value.IsStaleNaN(o.h.Sum)
	}
	return value.IsStaleNaN(o.fh.Sum)
}

func (e *enc) obs(o obs) {
	e.n(o.t)
	if o.h != nil {
		e.hist(o.h)
	} else {
		e.fhist(o.fh)
	}
}

func (e *enc) obsList(l []obs) {
	e.n(int64(len(l)))
	for _, o := range l {
		e.obs(o)
	}
}

func obsStr(l []obs) string {
	var e enc
	e.obsList(l)
	return e.String()
}

// ---------------------------------------------------------------- histogram generator

// world is the evolving counter the series reports.
type world struct {
	schema int32
	zth    float64
	custom []float64
	zc     int64
	pos    map[int]int64
	neg    map[int]int64
	// layout noise: indices kept as explicit zero buckets
	zeroPos map[int]bool
}

func newWorld(r *gen.Rand) *world {
	w := &world{schema: int32(r.Intn(4)), zth: 0.001, pos: map[int]int64{}, neg: map[int]int64{}, zeroPos: map[int]bool{}}
	if r.Chance(1, 6) {
		w.schema = histogram.CustomBucketsSchema
		w.zth = 0
		w.custom = []float64{1, 2.5, 5, 10, 25, 50}
	}
	w.grow(r)
	w.grow(r)
	return w
}

func (w *world) isCustom() bool { return w.schema == histogram.CustomBucketsSchema }

func (w *world) pickIdx(r *gen.Rand, m map[int]int64) int {
	if w.isCustom() {
		return r.Intn(len(w.custom) + 1)
	}
	if len(m) > 0 && r.Chance(2, 3) {
		ks := keys(m)
		k := ks[r.Intn(len(ks))]
		return k + int(r.Range(-2, 2))
	}
	return int(r.Range(-6, 12))
}

func keys(m map[int]int64) []int {
	var ks []int
	for k := range m {
		ks = append(ks, k)
	}
	sort.Ints(ks)
	return ks
}

// grow adds observations (counts only increase; new buckets may appear).
func (w *world) grow(r *gen.Rand) {
	n := 1 + r.Intn(3)
	for i := 0; i < n; i++ {
		switch {
		case !w.isCustom() && r.Chance(1, 5):
			w.zc += r.Range(1, 5)
		case !w.isCustom() && r.Chance(1, 4):
			w.neg[w.pickIdx(r, w.neg)] += r.Range(1, 9)
		default:
			w.pos[w.pickIdx(r, w.pos)] += r.Range(1, 9)
		}
	}
}

func (w *world) reset(r *gen.Rand) {
	w.zc = 0
	w.pos = map[int]int64{}
	w.neg = map[int]int64{}
	w.zeroPos = map[int]bool{}
	w.grow(r)
}

func buildSide(m map[int]int64, extraZero map[int]bool) ([]histogram.Span, []int64) {
	idx := map[int]int64{}
	for k, v := range m {
		idx[k] = v
	}
	for k := range extraZero {
		if _, ok := idx[k]; !ok {
			idx[k] = 0
		}
	}
	ks := keys(idx)
	var spans []histogram.Span
	var deltas []int64
	prev := int64(0)
	last := 0
	for i, k := range ks {
		if i == 0 {
			spans = append(spans, histogram.Span{Offset: int32(k), Length: 1})
		} else if k == last+1 {
			spans[len(spans)-1].Length++
		} else {
			spans = append(spans, histogram.Span{Offset: int32(k - last - 1), Length: 1})
		}
		deltas = append(deltas, idx[k]-prev)
		prev = idx[k]
		last = k
	}
	return spans, deltas
}

func (w *world) hist() *histogram.Histogram {
	h := &histogram.Histogram{Schema: w.schema, ZeroThreshold: w.zth, ZeroCount: uint64(w.zc)}
	if w.isCustom() {
		h.CustomValues = append([]float64(nil), w.custom...)
	}
	h.PositiveSpans, h.PositiveBuckets = buildSide(w.pos, w.zeroPos)
	h.NegativeSpans, h.NegativeBuckets = buildSide(w.neg, nil)
	c := w.zc
	for _, v := range w.pos {
		c += v
	}
	for _, v := range w.neg {
		c += v
	}
	h.Count = uint64(c)
	h.Sum = float64(c) * 1.5
	return h
}

// event classes steered by the case splits of appendable (and of the proofs).
var events = []string{"grow", "grow", "grow", "grow", "same", "new-bucket", "reset", "bucket-decrease", "bucket-vanish",
	"neg-bucket-decrease", "neg-bucket-vanish",
	"zero-bucket-vanish", "zero-decrease", "schema", "zth", "custom", "stale", "hint-reset", "gauge", "explicit-zero"}

// next evolves the world by one event and returns the histogram to append.
func (w *world) next(r *gen.Rand, m *gallina.Meta) *histogram.Histogram {
	ev := events[r.Intn(len(events))]
	m.Hit("event/" + ev)
	switch ev {
	case "grow":
		w.grow(r)
	case "same":
	case "new-bucket":
		if w.isCustom() {
			w.pos[r.Intn(len(w.custom)+1)] += r.Range(1, 5)
		} else {
			w.pos[int(r.Range(-10, 20))] += r.Range(1, 5)
		}
	case "reset":
		w.reset(r)
	case "bucket-decrease":
		// one bucket goes down while the total count goes up
		if ks := keys(w.pos); len(ks) > 0 {
			k := ks[r.Intn(len(ks))]
			if w.pos[k] > 0 {
				d := r.Range(1, w.pos[k])
				w.pos[k] -= d
				w.pos[w.pickIdx(r, w.pos)] += d + r.Range(0, 5)
			}
		}
	case "bucket-vanish":
		if ks := keys(w.pos); len(ks) > 1 {
			k := ks[r.Intn(len(ks))]
			d := w.pos[k]
			delete(w.pos, k)
			delete(w.zeroPos, k)
			k2 := keys(w.pos)[0]
			w.pos[k2] += d + 1
		}
	case "neg-bucket-decrease":
		// one-sided: a negative bucket goes down, count, zero count and the positive side go up
		if ks := keys(w.neg); len(ks) > 0 && !w.isCustom() {
			k := ks[r.Intn(len(ks))]
			if w.neg[k] > 0 {
				d := r.Range(1, w.neg[k])
				w.neg[k] -= d
				w.pos[w.pickIdx(r, w.pos)] += d + r.Range(0, 5)
				if r.Bool() {
					w.zc += r.Range(1, 3)
				}
			}
		}
	case "neg-bucket-vanish":
		if ks := keys(w.neg); len(ks) > 0 && !w.isCustom() {
			k := ks[r.Intn(len(ks))]
			d := w.neg[k]
			delete(w.neg, k)
			w.pos[w.pickIdx(r, w.pos)] += d + 1
		}
	case "zero-bucket-vanish":
		w.zeroPos = map[int]bool{}
		for k, v := range w.pos {
			if v == 0 {
				delete(w.pos, k)
			}
		}
	case "zero-decrease":
		if w.zc > 0 {
			d := r.Range(1, w.zc)
			w.zc -= d
			w.pos[w.pickIdx(r, w.pos)] += d + 1
		}
	case "schema":
		if !w.isCustom() {
			w.schema = int32((int(w.schema) + 1 + r.Intn(3)) % 4)
			if r.Bool() {
				w.grow(r)
			}
		}
	case "zth":
		if !w.isCustom() {
			w.zth = []float64{0.001, 0.002, 0.0005}[r.Intn(3)]
			w.grow(r)
		}
	case "custom":
		if w.isCustom() {
			if len(w.custom) == 6 {
				w.custom = []float64{1, 2.5, 5, 10, 25, 50, 100}
			} else {
				w.custom = []float64{1, 2.5, 5, 10, 25, 50}
				delete(w.pos, 7)
				delete(w.zeroPos, 7)
			}
			w.grow(r)
		}
	case "stale":
		return &histogram.Histogram{Sum: math.Float64frombits(value.StaleNaN)}
	case "hint-reset":
		w.grow(r)
		h := w.hist()
		h.CounterResetHint = histogram.CounterReset
		return h
	case "gauge":
		h := w.hist()
		h.CounterResetHint = histogram.GaugeType
		return h
	case "explicit-zero":
		if !w.isCustom() {
			w.zeroPos[w.pickIdx(r, w.pos)] = true
		} else {
			w.zeroPos[r.Intn(len(w.custom)+1)] = true
		}
	}
	return w.hist()
}

// ---------------------------------------------------------------- chunk cases

type chunkOp struct {
	Cut bool   `json:"cut"`
	T   int64  `json:"t"`
	H   string `json:"h"`
}

type chunkDesc struct {
	Shape string     `json:"shape"`
	Kind  string     `json:"kind"`
	Read  string     `json:"read"`
	Ops   []chunkOp  `json:"ops"`
	Ivs   [][2]int64 `json:"deleted"`
}

type hop struct {
	cut bool
	t   int64
	h   *histogram.Histogram
}

func headerCode(c chunkenc.CounterResetHeader) int {
	switch c {
	case chunkenc.CounterReset:
		return 1
	case chunkenc.NotCounterReset:
		return 2
	case chunkenc.GaugeType:
		return 3
	}
	return 0
}

// appendAll mirrors memSeries.appendHistogram / appendFloatHistogram: on a forced cut a fresh chunk is
// created and the old appender is passed as prev; otherwise the returned chunk replaces (recoded) or
// follows (new chunk) the current one.
// useST selects the start-timestamp capable chunk encodings (EncHistogramST / EncFloatHistogramST and,
// for databases, Options.EnableHistogramSTEncoding) for the cases emitted next.
var useST bool

func stTag() string {
	if useST {
		return "st"
	}
	return "plain"
}

func stOf(t int64) int64 {
	if useST {
		return t - 1
	}
	return 0
}

func appendAll(float bool, ops []hop) []chunkenc.Chunk {
	var chks []chunkenc.Chunk
	var app chunkenc.Appender
	for _, op := range ops {
		var prev chunkenc.Appender
		if app == nil || op.cut {
			prev = app
			var c chunkenc.Chunk
			switch {
			case float && useST:
				c = chunkenc.NewFloatHistogramSTChunk()
			case float:
				c = chunkenc.NewFloatHistogramChunk()
			case useST:
				c = chunkenc.NewHistogramSTChunk()
			default:
				c = chunkenc.NewHistogramChunk()
			}
			a, err := c.Appender()
			if err != nil {
				panic(err)
			}
			chks = append(chks, c)
			app = a
		}
		var nc chunkenc.Chunk
		var recoded bool
		var err error
		if float {
			nc, recoded, app, err = app.AppendFloatHistogram(prev, stOf(op.t), op.t, op.h.ToFloat(nil), false)
		} else {
			nc, recoded, app, err = app.AppendHistogram(prev, stOf(op.t), op.t, op.h.Copy(), false)
		}
		if err != nil {
			panic(err)
		}
		if nc != nil {
			if recoded {
				chks[len(chks)-1] = nc
			} else {
				chks = append(chks, nc)
			}
		}
	}
	return chks
}

func readChunk(c chunkenc.Chunk, mode int) []obs { return readIter(c.Iterator(nil), mode) }

func readIter(it chunkenc.Iterator, mode int) []obs {
	var out []obs
	var reuseH *histogram.Histogram
	var reuseFH *histogram.FloatHistogram
	for vt := it.Next(); vt != chunkenc.ValNone; vt = it.Next() {
		switch {
		case vt == chunkenc.ValHistogram && mode == 0:
			t, h := it.AtHistogram(nil)
			out = append(out, obs{t: t, h: h.Copy()})
		case vt == chunkenc.ValHistogram && mode == 1:
			if reuseH == nil {
				reuseH = &histogram.Histogram{}
			}
			t, h := it.AtHistogram(reuseH)
			out = append(out, obs{t: t, h: h.Copy()})
		case mode == 2 || mode == 0:
			t, fh := it.AtFloatHistogram(nil)
			out = append(out, obs{t: t, fh: fh.Copy()})
		default:
			if reuseFH == nil {
				reuseFH = &histogram.FloatHistogram{}
			}
			t, fh := it.AtFloatHistogram(reuseFH)
			out = append(out, obs{t: t, fh: fh.Copy()})
		}
	}
	if it.Err() != nil {
		panic(it.Err())
	}
	return out
}

// readDeleted reads the chunks the way populateWithDelSeriesIterator does: a chunk that overlaps
// deletion intervals (tombstones, or the intervals the query range is trimmed with) goes through the
// real tsdb.DeletedIterator holding exactly the overlapping intervals, any other chunk is read with
// its bare iterator.
func readDeleted(chks []chunkenc.Chunk, ivs [][2]int64, mode int) (out [][]obs, firstT []int64) {
	for _, c := range chks {
		plain := readChunk(c, 0)
		if len(plain) == 0 {
			continue
		}
		firstT = append(firstT, plain[0].t)
		lo, hi := plain[0].t, plain[len(plain)-1].t
		var over tombstones.Intervals
		for _, iv := range ivs {
			if iv[0] <= hi && lo <= iv[1] {
				over = over.Add(tombstones.Interval{Mint: iv[0], Maxt: iv[1]})
			}
		}
		if len(over) == 0 {
			out = append(out, readChunk(c, mode))
			continue
		}
		out = append(out, readIter(&tsdb.DeletedIterator{Iter: c.Iterator(nil), Intervals: over}, mode))
	}
	return out, firstT
}

func isMarked(o obs) bool { return !o.stale() && o.hint() == histogram.NotCounterReset }

// chunkShape classifies a chunk case by the two recorded findings, from the inputs and the hints
// only: the first returned sample is marked and everything before it in its chunk was trimmed by a
// range interval [MinInt64, x] (first-sample-of-range-restricted-result); or the first surviving
// sample of a chunk is marked because a tombstone covers the chunk's start
// (sample-after-deleted-chunk-start).
func chunkShape(per [][]obs, firstT []int64, ivs [][2]int64, dflt string) string {
	seen := false
	shape := dflt
	for i, l := range per {
		if len(l) == 0 {
			continue
		}
		if isMarked(l[0]) {
			switch {
			case !seen && trimmedByRange(ivs, firstT[i], l[0].t):
				if shape == dflt {
					shape = shapeFirst
				}
			default:
				shape = shapeDeleted
			}
		}
		seen = true
	}
	return shape
}

// trimmedByRange: a range-trimming interval [MinInt64, x] covers the chunk's first sample (at lo) and
// ends before the first returned sample (at hi).
func trimmedByRange(ivs [][2]int64, lo, hi int64) bool {
	for _, iv := range ivs {
		if iv[0] == math.MinInt64 && iv[1] >= lo && iv[1] < hi {
			return true
		}
	}
	return false
}

func chunkHeader(c chunkenc.Chunk) int {
	switch x := c.(type) {
	case *chunkenc.HistogramChunk:
		return headerCode(x.GetCounterResetHeader())
	case *chunkenc.FloatHistogramChunk:
		return headerCode(x.GetCounterResetHeader())
	case *chunkenc.HistogramSTChunk:
		return headerCode(x.GetCounterResetHeader())
	case *chunkenc.FloatHistogramSTChunk:
		return headerCode(x.GetCounterResetHeader())
	}
	panic("unexpected chunk type")
}

// safely runs f; a panic of the implementation under test becomes a failure of case id (decided on
// the Go side) instead of a crash of the harness.
func safely(m *gallina.Meta, id int, shape string, f func()) {
	defer func() {
		if r := recover(); r != nil {
			what := fmt.Sprint("the implementation panicked: ", r)
			m.GoViol = append(m.GoViol, gallina.GoViolation{ID: fmt.Sprint(id), Shape: shape, What: what})
			if _, ok := m.Cases[fmt.Sprint(id)]; !ok {
				m.Case(id, map[string]string{"shape": shape, "panic": what, "encoding": stTag()})
			}
			m.Hit("panic")
		}
	}()
	f()
}

func emitChunkCase(cf *gallina.CaseFile, m *gallina.Meta, id int, float bool, mode int, ops []hop, ivs [][2]int64, shape string) {
	safely(m, id, shape, func() { emitChunkCase1(cf, m, id, float, mode, ops, ivs, shape) })
}

func emitChunkCase1(cf *gallina.CaseFile, m *gallina.Meta, id int, float bool, mode int, ops []hop, ivs [][2]int64, shape string) {
	chks := appendAll(float, ops)
	desc := chunkDesc{Shape: shape, Kind: map[bool]string{false: "int", true: "float"}[float], Read: fmt.Sprint(mode)}
	var e enc
	e.n(0)
	e.n(int64(id))
	e.b(float)
	e.n(int64(len(ops)))
	for _, op := range ops {
		e.b(op.cut)
		e.n(op.t)
		if float {
			e.fhist(op.h.ToFloat(nil))
		} else {
			e.hist(op.h)
		}
		desc.Ops = append(desc.Ops, chunkOp{op.cut, op.t, op.h.String()})
	}
	nonFirst := 0
	e.n(int64(len(chks)))
	for _, c := range chks {
		o := readChunk(c, mode)
		if len(o) > 1 {
			nonFirst += len(o) - 1
		}
		e.n(int64(chunkHeader(c)))
		e.obsList(o)
	}
	e.n(int64(len(ivs)))
	for _, iv := range ivs {
		e.n(iv[0])
		e.n(iv[1])
	}
	per, firstT := readDeleted(chks, ivs, mode)
	var dobs []obs
	for _, l := range per {
		dobs = append(dobs, l...)
	}
	e.obsList(dobs)
	desc.Ivs = ivs
	desc.Shape = chunkShape(per, firstT, ivs, shape)
	m.Hit(fmt.Sprintf("chunk/intervals=%d", len(ivs)))
	m.Hit("chunk/shape=" + desc.Shape)
	desc.Kind += "/" + stTag()
	m.Hit(fmt.Sprintf("chunk/%s/chunks=%s", desc.Kind, bucket(len(chks))))
	cf.Add(e.String())
	m.Case(id, desc)
	if len(chks) > 1 && nonFirst > 0 {
		m.Nontrivial++
	}
}

func bucket(n int) string {
	switch {
	case n <= 1:
		return fmt.Sprint(n)
	case n <= 3:
		return "2-3"
	case n <= 7:
		return "4-7"
	}
	return "8+"
}

func genChunkCase(r *gen.Rand, m *gallina.Meta) (bool, int, []hop, [][2]int64) {
	w := newWorld(r)
	n := 2 + r.Intn(14)
	var ops []hop
	t := r.Range(-500, 500)
	for i := 0; i < n; i++ {
		t += r.Range(1, 50)
		ops = append(ops, hop{cut: r.Chance(1, 8), t: t, h: w.next(r, m)})
	}
	float := r.Chance(1, 3)
	mode := r.Intn(4)
	// deletion intervals: tombstones around sample timestamps and/or a query window
	var ivs [][2]int64
	pickT := func() int64 { return ops[r.Intn(len(ops))].t + r.PickI64(0, 0, 1, -1) }
	if r.Chance(1, 2) {
		ivs = append(ivs, [2]int64{math.MinInt64, pickT() - 1}) // trimFront: mint-1
	}
	if r.Chance(1, 3) {
		ivs = append(ivs, [2]int64{pickT() + 1, math.MaxInt64}) // trimBack: maxt+1
	}
	for k := r.Intn(3); k > 0; k-- {
		lo := pickT()
		ivs = append(ivs, [2]int64{lo, lo + r.PickI64(0, 0, 10, 60)})
	}
	return float, mode, ops, ivs
}

// ---------------------------------------------------------------- merge cases (chained iterator over real chunks)

type mergeDesc struct {
	Shape  string      `json:"shape"`
	Kind   string      `json:"kind"`
	Read   string      `json:"read"`
	Via    string      `json:"via"`
	Series [][]chunkOp `json:"series"`
}

type chunkSeries struct{ c chunkenc.Chunk }

func (s chunkSeries) Labels() labels.Labels                           { return lset }
func (s chunkSeries) Iterator(it chunkenc.Iterator) chunkenc.Iterator { return s.c.Iterator(it) }

// emitMergeCase appends every series through the real appenders and feeds every resulting chunk as one
// input to the real chained sample iterator (the way mergedOOOChunks / ChainedSeriesMerge do).
func emitMergeCase(cf *gallina.CaseFile, m *gallina.Meta, id int, float bool, mode, via int, series [][]hop, shape string) {
	safely(m, id, shape, func() { emitMergeCase1(cf, m, id, float, mode, via, series, shape) })
}

func emitMergeCase1(cf *gallina.CaseFile, m *gallina.Meta, id int, float bool, mode, via int, series [][]hop, shape string) {
	desc := mergeDesc{Shape: shape, Kind: map[bool]string{false: "int", true: "float"}[float], Read: fmt.Sprint(mode),
		Via: []string{"ChainSampleIteratorFromIterables", "ChainSampleIteratorFromIterators", "ChainedSeriesMerge"}[via]}
	var e enc
	e.n(2)
	e.n(int64(id))
	e.b(float)
	e.n(int64(len(series)))
	var chks []chunkenc.Chunk
	seen := map[int64]int{}
	for _, ops := range series {
		e.n(int64(len(ops)))
		var d []chunkOp
		for _, op := range ops {
			e.b(op.cut)
			e.n(op.t)
			if float {
				e.fhist(op.h.ToFloat(nil))
			} else {
				e.hist(op.h)
			}
			d = append(d, chunkOp{op.cut, op.t, op.h.String()})
			seen[op.t]++
		}
		desc.Series = append(desc.Series, d)
		chks = append(chks, appendAll(float, ops)...)
	}
	desc.Kind += "/" + stTag()
	var it chunkenc.Iterator
	switch via {
	case 0:
		var its []chunkenc.Iterable
		for _, c := range chks {
			its = append(its, c)
		}
		it = storage.ChainSampleIteratorFromIterables(nil, its)
	case 1:
		var its []chunkenc.Iterator
		for _, c := range chks {
			its = append(its, c.Iterator(nil))
		}
		it = storage.ChainSampleIteratorFromIterators(nil, its)
	default:
		var ss []storage.Series
		for _, c := range chks {
			ss = append(ss, chunkSeries{c})
		}
		it = storage.ChainedSeriesMerge(ss...).Iterator(nil)
	}
	merged := readIter(it, mode)
	e.obsList(merged)
	cf.Add(e.String())
	m.Case(id, desc)
	dups := 0
	for _, n := range seen {
		if n > 1 {
			dups++
		}
	}
	m.Hit("merge/" + stTag() + "/inputs=" + bucket(len(chks)))
	m.Hit("merge/equal-timestamps=" + bucket(dups))
	if dups > 0 {
		m.Nontrivial++
	}
}

// genMergeCase: two or three overlapping sources cut out of one series; timestamps shared between
// sources carry the same value or (from a second, independent counter) a different one.
func genMergeCase(r *gen.Rand, m *gallina.Meta) (bool, int, int, [][]hop) {
	w, alt := newWorld(r), newWorld(r)
	n := 3 + r.Intn(10)
	type smp struct {
		t int64
		h *histogram.Histogram
	}
	var base []smp
	t := r.Range(-200, 200)
	for i := 0; i < n; i++ {
		t += r.Range(1, 50)
		base = append(base, smp{t, w.next(r, m)})
	}
	nsrc := 2 + r.Intn(2)
	series := make([][]hop, nsrc)
	held := map[int]bool{}
	pick := func(k, i int) *histogram.Histogram {
		if k > 0 && held[i] {
			switch r.Intn(3) {
			case 0:
				return alt.next(r, m)
			case 1:
				return w.hist() // the newest state: larger counts than the samples that follow index i
			}
		}
		return base[i].h
	}
	for k := 0; k < nsrc; k++ {
		a := r.Intn(n)
		b := a + r.Intn(n-a)
		if k == 0 || r.Chance(1, 3) {
			a, b = 0, n-1
		}
		for i := a; i <= b; i++ {
			if r.Chance(3, 4) {
				series[k] = append(series[k], hop{cut: r.Chance(1, 8), t: base[i].t, h: pick(k, i)})
				held[i] = true
			}
		}
	}
	// make sure some timestamp is held twice with different values
	if len(series[0]) > 0 {
		j := []int{0, len(series[0]) / 2, len(series[0]) - 1}[r.Intn(3)]
		tj := series[0][j].t
		var out []hop
		done := false
		for _, op := range series[1] {
			if op.t == tj {
				done = true
			}
			if !done && op.t > tj {
				out = append(out, hop{t: tj, h: w.hist()})
				done = true
			}
			out = append(out, op)
		}
		if !done {
			out = append(out, hop{t: tj, h: w.hist()})
		}
		series[1] = out
	}
	var nonEmpty [][]hop
	for _, ops := range series {
		if len(ops) > 0 {
			nonEmpty = append(nonEmpty, ops)
		}
	}
	return r.Chance(1, 3), r.Intn(4), r.Intn(3), nonEmpty
}

// ---------------------------------------------------------------- query cases (real DB)

// tee wrappers: record what every part querier yields for the series.
type teeQuerier struct {
	storage.Querier
	rec *[][]obs
}

func (q *teeQuerier) Select(ctx context.Context, sorted bool, hints *storage.SelectHints, ms ...*labels.Matcher) storage.SeriesSet {
	return &teeSet{SeriesSet: q.Querier.Select(ctx, sorted, hints, ms...), rec: q.rec}
}

type teeSet struct {
	storage.SeriesSet
	rec *[][]obs
}

func (s *teeSet) At() storage.Series { return &teeSeries{Series: s.SeriesSet.At(), rec: s.rec} }

type teeSeries struct {
	storage.Series
	rec *[][]obs
}

func (s *teeSeries) Iterator(chunkenc.Iterator) chunkenc.Iterator {
	*s.rec = append(*s.rec, nil)
	return &teeIter{Iterator: s.Series.Iterator(nil), rec: s.rec, slot: len(*s.rec) - 1, lastT: math.MinInt64}
}

type teeIter struct {
	chunkenc.Iterator
	rec   *[][]obs
	slot  int
	lastT int64
	any   bool
}

func (it *teeIter) record(vt chunkenc.ValueType) {
	if vt == chunkenc.ValNone {
		return
	}
	t := it.Iterator.AtT()
	if it.any && t == it.lastT {
		return
	}
	it.any, it.lastT = true, t
	switch vt {
	case chunkenc.ValHistogram:
		_, h := it.Iterator.AtHistogram(nil)
		(*it.rec)[it.slot] = append((*it.rec)[it.slot], obs{t: t, h: h.Copy()})
	case chunkenc.ValFloatHistogram:
		_, fh := it.Iterator.AtFloatHistogram(nil)
		(*it.rec)[it.slot] = append((*it.rec)[it.slot], obs{t: t, fh: fh.Copy()})
	default:
		panic("float sample in a histogram series")
	}
}

func (it *teeIter) Next() chunkenc.ValueType {
	vt := it.Iterator.Next()
	it.record(vt)
	return vt
}

func (it *teeIter) Seek(t int64) chunkenc.ValueType {
	vt := it.Iterator.Seek(t)
	it.record(vt)
	return vt
}

var lset = labels.FromStrings("a", "b")

func drain(q storage.Querier) []obs {
	ss := q.Select(context.Background(), true, nil, tsdbx.MatchEq("a", "b"))
	var out []obs
	n := 0
	for ss.Next() {
		n++
		it := ss.At().Iterator(nil)
		for vt := it.Next(); vt != chunkenc.ValNone; vt = it.Next() {
			switch vt {
			case chunkenc.ValHistogram:
				t, h := it.AtHistogram(nil)
				out = append(out, obs{t: t, h: h.Copy()})
			case chunkenc.ValFloatHistogram:
				t, fh := it.AtFloatHistogram(nil)
				out = append(out, obs{t: t, fh: fh.Copy()})
			default:
				panic("float sample in a histogram series")
			}
		}
		if it.Err() != nil {
			panic(it.Err())
		}
	}
	if ss.Err() != nil {
		panic(ss.Err())
	}
	if n > 1 {
		panic("more than one series")
	}
	return out
}

// parts rebuilds the list of queriers DB.Querier merges (same calls, same order), each wrapped in a tee.
func parts(db *tsdb.DB, mint, maxt int64, rec *[][]obs) []storage.Querier {
	var out []storage.Querier
	head := db.Head()
	overlapsOOO := mint <= head.MaxOOOTime() && head.MinOOOTime() <= maxt
	var headQ storage.Querier
	inoMint := max(head.MinTime(), mint)
	if maxt >= head.MinTime() || overlapsOOO {
		var err error
		headQ, err = tsdb.NewBlockQuerier(tsdb.NewRangeHead(head, mint, maxt), mint, maxt)
		if err != nil {
			panic(err)
		}
		shouldClose, getNew, newMint := head.IsQuerierCollidingWithTruncation(mint, maxt)
		if shouldClose || getNew {
			panic(fmt.Sprint("unexpected truncation collision ", newMint))
		}
	}
	if overlapsOOO {
		headQ = tsdb.NewHeadAndOOOQuerier(inoMint, mint, maxt, head, db.VerifC12OOOIsoState(), headQ)
	}
	if headQ != nil {
		out = append(out, &teeQuerier{Querier: headQ, rec: rec})
	}
	for _, b := range db.Blocks() {
		if b.OverlapsClosedInterval(mint, maxt) {
			q, err := tsdb.NewBlockQuerier(b, mint, maxt)
			if err != nil {
				panic(err)
			}
			out = append(out, &teeQuerier{Querier: q, rec: rec})
		}
	}
	return out
}

func sameObs(a, b []obs) bool {
	if len(a) != len(b) {
		return false
	}
	for i := range a {
		if obsStr(a[i:i+1]) != obsStr(b[i:i+1]) {
			return false
		}
	}
	return true
}

type dbOp struct {
	Op   string `json:"op"`
	T    int64  `json:"t,omitempty"`
	T2   int64  `json:"t2,omitempty"`
	H    string `json:"h,omitempty"`
	Kind string `json:"kind,omitempty"`
	Res  string `json:"res,omitempty"`
}

type queryDesc struct {
	Shape string `json:"shape"`
	Opts  string `json:"opts"`
	ST    bool   `json:"histogram_st_encoding"`
	Ops   []dbOp `json:"ops"`
	Mint  int64  `json:"mint"`
	Maxt  int64  `json:"maxt"`
	Srcs  int    `json:"sources"`
	N     int    `json:"returned"`
}

type delIv struct{ lo, hi int64 }

type dbRun struct {
	db      *tsdbx.DB
	ops     []dbOp
	opts    tsdbx.Options
	shadow  map[int64]bool // accepted sample timestamps
	deletes []delIv
	st      bool // opened with Options.EnableHistogramSTEncoding (raw tsdb.Open, not tsdbx)
}

func (d *dbRun) appendOne(t int64, h *histogram.Histogram, float bool) {
	app := d.db.DB.Appender(context.Background())
	var err error
	kind := "int"
	if float {
		kind = "float"
		_, err = app.AppendHistogram(0, lset, t, nil, h.ToFloat(nil))
	} else {
		_, err = app.AppendHistogram(0, lset, t, h.Copy(), nil)
	}
	res := "ok"
	if err != nil {
		res = tsdbx.Kind(err).String()
		if e := app.Rollback(); e != nil {
			panic(e)
		}
	} else {
		if e := app.Commit(); e != nil {
			panic(e)
		}
		d.shadow[t] = true
	}
	d.ops = append(d.ops, dbOp{Op: "append", T: t, H: h.String(), Kind: kind, Res: res})
}

func (d *dbRun) do(op string, f func() error) {
	res := "ok"
	if err := f(); err != nil {
		res = "error: " + err.Error()
	}
	d.ops = append(d.ops, dbOp{Op: op, Res: res})
}

func (d *dbRun) deleted(t int64) bool {
	for _, iv := range d.deletes {
		if iv.lo <= t && t <= iv.hi {
			return true
		}
	}
	return false
}

const (
	shapeFirst   = "first-sample-of-range-restricted-result"
	shapeDeleted = "sample-after-deleted-chunk-start"
)

// pred is the newest accepted sample older than t (ok=false if there is none).
func (d *dbRun) pred(t int64) (int64, bool) {
	best, ok := int64(0), false
	for s := range d.shadow {
		if s < t && (!ok || s > best) {
			best, ok = s, true
		}
	}
	return best, ok
}

// queryShape classifies a query case by the two recorded findings, from the inputs and the hints
// only. first-sample-of-range-restricted-result: the first returned sample is marked and the accepted
// sample right before it lies before the query range. sample-after-deleted-chunk-start: a returned
// sample is marked and the accepted sample right before it is not returned because a Delete covers it.
func (d *dbRun) queryShape(direct []obs, mint int64) string {
	shape := "query"
	for j, o := range direct {
		if !isMarked(o) {
			continue
		}
		p, ok := d.pred(o.t)
		if !ok {
			continue
		}
		switch {
		case j == 0 && p < mint:
			if shape == "query" {
				shape = shapeFirst
			}
		case (j == 0 || p > direct[j-1].t) && d.deleted(p):
			shape = shapeDeleted
		}
	}
	return shape
}

// query emits one query case.
func (d *dbRun) query(cf *gallina.CaseFile, m *gallina.Meta, id int, mint, maxt int64) {
	var rec [][]obs
	ps := parts(d.db.DB, mint, maxt, &rec)
	var merged []obs
	if len(ps) > 0 {
		mq := storage.NewMergeQuerier(ps, nil, storage.ChainedSeriesMerge)
		merged = drain(mq)
		if err := mq.Close(); err != nil {
			panic(err)
		}
	}
	// the same query through DB.Querier itself
	q, err := d.db.DB.Querier(mint, maxt)
	if err != nil {
		panic(err)
	}
	direct := drain(q)
	if err := q.Close(); err != nil {
		panic(err)
	}
	if !sameObs(merged, direct) {
		panic(fmt.Sprintf("harness-built merge differs from DB.Querier for [%d,%d]:\n%s\n%s", mint, maxt, obsStr(merged), obsStr(direct)))
	}
	shape := d.queryShape(direct, mint)
	var e enc
	e.n(1)
	e.n(int64(id))
	e.n(int64(len(rec)))
	for _, s := range rec {
		e.obsList(s)
	}
	e.obsList(direct)
	cf.Add(e.String())
	m.Case(id, queryDesc{ST: d.st, Shape: shape, Opts: fmt.Sprintf("%+v", d.opts), Ops: d.ops, Mint: mint, Maxt: maxt, Srcs: len(rec), N: len(direct)})
	m.Hit("query/sources=" + bucket(len(rec)))
	if d.st {
		m.Hit("query/st-encoding")
	}
	m.Hit("query/shape=" + shape)
	nr := 0
	for _, o := range direct {
		if !o.stale() && o.hint() == histogram.NotCounterReset {
			nr++
		}
	}
	m.Hit("query/not-reset=" + bucket(nr))
	if len(rec) > 1 || nr > 0 {
		m.Nontrivial++
	}
}

func openRun(base string, o tsdbx.Options) *dbRun {
	dir, err := os.MkdirTemp(base, "db")
	if err != nil {
		panic(err)
	}
	if useST {
		return &dbRun{db: &tsdbx.DB{DB: openST(dir, o), Dir: dir, Opts: o}, opts: o, shadow: map[int64]bool{}, st: true}
	}
	db, err := tsdbx.Open(dir, o)
	if err != nil {
		panic(err)
	}
	return &dbRun{db: db, opts: o, shadow: map[int64]bool{}}
}

// openST opens the database with the ST-capable histogram chunk encodings
// (Options.EnableHistogramSTEncoding), which tsdbx.Options cannot express; the other options mirror
// tsdbx. Compaction then runs through the unmodified DB.Compact (real planner).
func openST(dir string, o tsdbx.Options) *tsdb.DB {
	t := tsdb.DefaultOptions()
	t.MinBlockDuration = o.BlockRange
	t.MaxBlockDuration = o.BlockRange * 27
	t.RetentionDuration = 0
	t.MaxBytes = 0
	t.OutOfOrderTimeWindow = o.OOOWindow
	if o.OOOCapMax > 0 {
		t.OutOfOrderCapMax = o.OOOCapMax
	}
	t.EnableOverlappingCompaction = o.Overlapping
	t.EnableHistogramSTEncoding = true
	t.NoLockfile = true
	t.StripeSize = 64
	t.BlockReloadInterval = 24 * time.Hour
	t.WALSegmentSize = 1 << 20
	t.HeadChunksWriteBufferSize = 64 * 1024
	t.EnableDelayedCompaction = false
	db, err := tsdb.Open(dir, slog.New(slog.NewTextHandler(io.Discard, nil)), nil, t, nil)
	if err != nil {
		panic(err)
	}
	db.DisableCompactions()
	return db
}

func (d *dbRun) compact() error {
	if d.st {
		return d.db.DB.Compact(context.Background())
	}
	return d.db.Compact()
}

func (d *dbRun) reopen() error {
	if d.st {
		if err := d.db.DB.Close(); err != nil {
			return err
		}
		d.db.DB = openST(d.db.Dir, d.opts)
		return nil
	}
	return d.db.Reopen()
}

func (d *dbRun) close() {
	d.db.DB.Close()
	os.RemoveAll(d.db.Dir)
}

// genDB runs one generated history and emits its query cases; returns the next free id.
func genDB(r *gen.Rand, cf *gallina.CaseFile, m *gallina.Meta, base string, id int, nq int) int {
	// a panic of the database (e.g. in Commit) fails the first case of this history; the database is
	// then abandoned without Close (it may hold locks)
	safely(m, id, "query", func() { genDB1(r, cf, m, base, id, nq) })
	return id + nq
}

func genDB1(r *gen.Rand, cf *gallina.CaseFile, m *gallina.Meta, base string, id int, nq int) int {
	o := tsdbx.Options{BlockRange: r.PickI64(1000, 2000, 5000), Overlapping: true}
	if r.Chance(3, 4) {
		o.OOOWindow = 20 * o.BlockRange
		o.OOOCapMax = r.PickI64(4, 6, 32)
	}
	d := openRun(base, o)
	w, alt := newWorld(r), newWorld(r)
	float := r.Chance(1, 4)
	n := 8 + r.Intn(30)
	type pend struct {
		t int64
		h *histogram.Histogram
	}
	var held []pend
	var ts []int64
	t := int64(0)
	allowDelete := r.Chance(1, 6)
	for i := 0; i < n; i++ {
		t += r.Range(20, 200)
		h := w.next(r, m)
		if h.CounterResetHint == histogram.GaugeType && !r.Chance(1, 4) {
			h.CounterResetHint = histogram.UnknownCounterReset
		}
		ts = append(ts, t)
		if o.OOOWindow > 0 && r.Chance(1, 5) {
			held = append(held, pend{t, h})
		} else {
			if r.Chance(1, 25) {
				float = !float
			}
			d.appendOne(t, h, float)
		}
		if len(held) > 0 && r.Chance(1, 4) {
			k := r.Intn(len(held))
			d.appendOne(held[k].t, held[k].h, float)
			held = append(held[:k], held[k+1:]...)
		}
		// an out-of-order sample at a timestamp the series already holds, with another value (accepted
		// by the head as long as it is not the newest timestamp): equal timestamps in overlapping sources
		if o.OOOWindow > 0 && len(ts) > 2 && r.Chance(1, 5) {
			tt := ts[r.Intn(len(ts)-1)]
			dh := w.hist() // newest state: larger counts than the samples that follow tt
			if r.Chance(1, 3) {
				dh = alt.next(r, m)
			}
			if dh.CounterResetHint == histogram.GaugeType {
				dh.CounterResetHint = histogram.UnknownCounterReset
			}
			m.Hit("query/equal-timestamp-ooo-append")
			d.appendOne(tt, dh, float)
		}
		switch r.Intn(40) {
		case 0, 1:
			d.do("compact", d.compact)
		case 2, 3:
			d.do("compact-ooo", d.db.CompactOOOHead)
		case 4:
			d.do("reopen", d.reopen)
		case 5:
			if bs := d.db.Blocks(); len(bs) >= 2 && !d.db.Compactable() && !d.st {
				k := r.Intn(len(bs) - 1)
				d.do("merge-blocks", func() error { return d.db.MergeBlocks([]string{bs[k].ULID, bs[k+1].ULID}) })
			}
		case 6:
			if allowDelete && len(ts) > 2 {
				lo := ts[r.Intn(len(ts))]
				hi := lo + r.Range(0, 150)
				d.deletes = append(d.deletes, delIv{lo, hi})
				d.ops = append(d.ops, dbOp{Op: "delete", T: lo, T2: hi})
				if err := d.db.Delete(lo, hi, tsdbx.MatchEq("a", "b")); err != nil {
					panic(err)
				}
			}
		}
	}
	for _, p := range held {
		d.appendOne(p.t, p.h, float)
	}
	if r.Chance(1, 3) {
		d.do("compact-ooo", d.db.CompactOOOHead)
	}
	for k := 0; k < nq; k++ {
		var mint, maxt int64
		switch {
		case k == 0:
			mint, maxt = math.MinInt64, math.MaxInt64
		default:
			mint = ts[r.Intn(len(ts))] + r.PickI64(0, 0, 1, -1, 7)
			maxt = mint + r.Range(0, 3000)
			if r.Chance(1, 3) {
				maxt = math.MaxInt64
			}
		}
		d.query(cf, m, id, mint, maxt)
		id++
	}
	d.close()
	return id
}

// ---------------------------------------------------------------- corpus

func mkH(c int64) *histogram.Histogram {
	return &histogram.Histogram{Schema: 0, Count: uint64(c), Sum: float64(c), ZeroThreshold: 0.001,
		PositiveSpans: []histogram.Span{{Offset: 0, Length: 1}}, PositiveBuckets: []int64{c}}
}

// corpus: fixed reproducers first.
func corpus(cf *gallina.CaseFile, m *gallina.Meta, base string, id int) int {
	// chunk level: growth, new bucket (recode), reset, bucket vanishing, zero bucket vanishing, stale, cut
	h1 := &histogram.Histogram{Schema: 1, ZeroThreshold: 0.001, ZeroCount: 1, Count: 6, Sum: 1,
		PositiveSpans: []histogram.Span{{Offset: 0, Length: 2}}, PositiveBuckets: []int64{2, 1}}
	h2 := &histogram.Histogram{Schema: 1, ZeroThreshold: 0.001, ZeroCount: 1, Count: 9, Sum: 1,
		PositiveSpans: []histogram.Span{{Offset: 0, Length: 2}, {Offset: 2, Length: 1}}, PositiveBuckets: []int64{3, 0, -1}}
	h3 := &histogram.Histogram{Schema: 1, ZeroThreshold: 0.001, ZeroCount: 1, Count: 10, Sum: 1,
		PositiveSpans: []histogram.Span{{Offset: 0, Length: 1}, {Offset: 3, Length: 1}}, PositiveBuckets: []int64{7, -5}}
	h4 := &histogram.Histogram{Schema: 1, ZeroThreshold: 0.001, ZeroCount: 2, Count: 12, Sum: 1,
		PositiveSpans: []histogram.Span{{Offset: 0, Length: 2}, {Offset: 2, Length: 1}}, PositiveBuckets: []int64{3, 1, -1}}
	st := &histogram.Histogram{Sum: math.Float64frombits(value.StaleNaN)}
	seq := []hop{{false, 10, h1}, {false, 20, h2}, {false, 30, h3}, {false, 40, h4}, {true, 50, h4}, {false, 60, st}, {false, 70, st}, {false, 80, h4}, {false, 90, h1}}
	for _, fl := range []bool{false, true} {
		for mode := 0; mode < 4; mode += 3 {
			emitChunkCase(cf, m, id, fl, mode, seq, [][2]int64{{math.MinInt64, 19}, {35, 45}, {85, math.MaxInt64}}, "chunk-corpus")
			id++
		}
	}
	// query level: the recorded finding (five counter histograms at 1000..5000, query [3000,10000])
	d := openRun(base, tsdbx.Options{BlockRange: 100000})
	for i, c := range []int64{10, 20, 30, 40, 50} {
		d.appendOne(int64(1000*(i+1)), mkH(c), false)
	}
	d.query(cf, m, id, math.MinInt64, math.MaxInt64)
	d.query(cf, m, id+1, 3000, 10000)
	d.query(cf, m, id+2, 1000, 10000)
	id += 3
	d.close()
	// query level: a tombstone over the first sample of the second chunk
	d = openRun(base, tsdbx.Options{BlockRange: 100000})
	for i, c := range []int64{10, 20, 5, 6, 7} {
		d.appendOne(int64(1000*(i+1)), mkH(c), false)
	}
	d.deletes = append(d.deletes, delIv{2500, 3500})
	d.ops = append(d.ops, dbOp{Op: "delete", T: 2500, T2: 3500})
	if err := d.db.Delete(2500, 3500, tsdbx.MatchEq("a", "b")); err != nil {
		panic(err)
	}
	d.query(cf, m, id, math.MinInt64, math.MaxInt64)
	id++
	d.close()
	// the same two findings on the real tsdb.DeletedIterator alone (chunk cases 8 and 9)
	grow := []hop{{false, 10, mkH(10)}, {false, 20, mkH(20)}, {false, 30, mkH(30)}, {false, 40, mkH(40)}, {false, 50, mkH(50)}}
	emitChunkCase(cf, m, id, false, 0, grow, [][2]int64{{math.MinInt64, 29}}, "chunk-corpus")
	id++
	reset := []hop{{false, 10, mkH(10)}, {false, 20, mkH(20)}, {false, 30, mkH(5)}, {false, 40, mkH(6)}, {false, 50, mkH(7)}}
	emitChunkCase(cf, m, id, false, 0, reset, [][2]int64{{25, 35}}, "chunk-corpus")
	id++
	// equal timestamps with different values in overlapping inputs of the chained iterator
	// (merge cases 10..15): duplicate at the first / middle / last position, several in a row, in both
	a3 := []hop{{false, 100, mkH(30)}, {false, 200, mkH(60)}, {false, 300, mkH(90)}, {false, 400, mkH(120)}}
	for k, b := range [][]hop{
		{{false, 200, mkH(3000)}},
		{{false, 100, mkH(3000)}},
		{{false, 400, mkH(3000)}},
		{{false, 200, mkH(3000)}, {false, 300, mkH(4000)}},
		{{false, 100, mkH(1)}, {false, 200, mkH(3000)}, {false, 300, mkH(2)}, {false, 500, mkH(5000)}},
		{{false, 50, mkH(1)}, {false, 200, mkH(60)}, {false, 300, mkH(3000)}},
	} {
		emitMergeCase(cf, m, id, k%2 == 1, k%4, k%3, [][]hop{a3, b}, "merge-corpus")
		id++
	}
	// the same through the head and the out-of-order head, then through overlapping blocks
	// (query cases 16..18): head chunk 30,60,90 at 100,200,300 plus an out-of-order 3000 at 200
	d = openRun(base, tsdbx.Options{BlockRange: 100000, OOOWindow: 1000000, Overlapping: true})
	for i, c := range []int64{30, 60, 90} {
		d.appendOne(int64(100*(i+1)), mkH(c), false)
	}
	d.appendOne(200, mkH(3000), false)
	d.query(cf, m, id, math.MinInt64, math.MaxInt64)
	id++
	d.do("compact-ooo", d.db.CompactOOOHead)
	d.query(cf, m, id, math.MinInt64, math.MaxInt64)
	id++
	d.do("force-compact-head", func() error { return d.db.ForceCompactHead(0, 99999) })
	d.query(cf, m, id, math.MinInt64, math.MaxInt64)
	id++
	d.close()
	// one-sided bucket resets (a positive / a negative bucket goes down or vanishes while count, zero
	// count and the other side grow), all four appenders: int, float, int-ST, float-ST (chunk cases
	// 19..26), and through a database with the ST encodings (query cases 27, 28)
	side := func(zc, p0, p1, n0 int64) *histogram.Histogram {
		return &histogram.Histogram{Schema: 0, ZeroThreshold: 0.001, ZeroCount: uint64(zc), Count: uint64(zc + p0 + p1 + n0), Sum: 1,
			PositiveSpans: []histogram.Span{{Offset: 0, Length: 2}}, PositiveBuckets: []int64{p0, p1 - p0},
			NegativeSpans: []histogram.Span{{Offset: 0, Length: 1}}, NegativeBuckets: []int64{n0}}
	}
	posDown := []hop{{false, 100, side(1, 10, 10, 5)}, {false, 200, side(2, 12, 11, 6)}, {false, 300, side(3, 4, 30, 7)}, {false, 400, side(4, 5, 33, 8)}}
	negDown := []hop{{false, 100, side(1, 10, 10, 9)}, {false, 200, side(2, 12, 11, 10)}, {false, 300, side(3, 13, 30, 2)}, {false, 400, side(4, 14, 33, 3)}}
	for _, st := range []bool{false, true} {
		for _, fl := range []bool{false, true} {
			useST = st
			emitChunkCase(cf, m, id, fl, 0, posDown, nil, "chunk-corpus")
			id++
			emitChunkCase(cf, m, id, fl, 0, negDown, nil, "chunk-corpus")
			id++
		}
	}
	useST = true
	for _, seq := range [][]hop{posDown, negDown} {
		safely(m, id, "query", func() {
			d := openRun(base, tsdbx.Options{BlockRange: 100000})
			for _, op := range seq {
				d.appendOne(op.t, op.h, true)
			}
			d.query(cf, m, id, math.MinInt64, math.MaxInt64)
			d.close()
		})
		id++
	}
	useST = false
	return id
}

func main() {
	f := gallina.ParseFlags()
	m := gallina.NewMeta("C12", f.Seed, f.Tier)
	m.Rule = "chunk cases: more than one chunk and at least one non-first sample; merge cases: at least one timestamp held by two inputs; query cases: more than one source or at least one returned sample marked NotCounterReset"
	cf := &gallina.CaseFile{Dir: f.Out,
		Preamble: "From Coq Require Import List ZArith Uint63.\nFrom Verif Require Import corr.CorrC12.\nImport ListNotations.\nOpen Scope uint63_scope.\n",
		Type:     "list int", Footer: gallina.StdFooter, PerShard: 100}
	base, err := os.MkdirTemp(f.Out, "scratch")
	if err != nil {
		panic(err)
	}
	defer os.RemoveAll(base)

	id := corpus(cf, m, base, 0)
	nChunk := f.Count(60, 1200)
	nMerge := f.Count(40, 800)
	nDB := f.Count(16, 250)
	for i := 0; i < nChunk; i++ {
		r := gen.Fork(f.Seed, id)
		fl, mode, ops, ivs := genChunkCase(r, m)
		useST = r.Chance(1, 2)
		emitChunkCase(cf, m, id, fl, mode, ops, ivs, "chunk")
		id++
	}
	for i := 0; i < nMerge; i++ {
		r := gen.Fork(f.Seed, id)
		fl, mode, via, series := genMergeCase(r, m)
		useST = r.Chance(1, 2)
		emitMergeCase(cf, m, id, fl, mode, via, series, "merge")
		id++
	}
	for i := 0; i < nDB; i++ {
		r := gen.Fork(f.Seed, id)
		useST = i%2 == 1
		id = genDB(r, cf, m, base, id, 6)
	}
	cf.Flush()
	m.Evaluations = id
	m.Write(f.Out)
}

package main

import (
	"context"
	"fmt"
	"os"

	"github.com/prometheus/prometheus/model/histogram"
	"github.com/prometheus/prometheus/model/labels"
	"github.com/prometheus/prometheus/tsdb/chunkenc"

	"verif/harness/internal/tsdbx"
)

func mk(c int64) *histogram.Histogram {
	return &histogram.Histogram{Schema: 0, Count: uint64(c), Sum: float64(c), ZeroThreshold: 0.001,
		PositiveSpans: []histogram.Span{{Offset: 0, Length: 1}}, PositiveBuckets: []int64{c}}
}

func dump(db *tsdbx.DB, mint, maxt int64) {
	q, err := db.DB.Querier(mint, maxt)
	if err != nil {
		panic(err)
	}
	defer q.Close()
	ss := q.Select(context.Background(), true, nil, labels.MustNewMatcher(labels.MatchEqual, "a", "b"))
	for ss.Next() {
		it := ss.At().Iterator(nil)
		for it.Next() == chunkenc.ValHistogram {
			t, h := it.AtHistogram(nil)
			fmt.Printf("  t=%d count=%d hint=%d\n", t, h.Count, h.CounterResetHint)
		}
	}
}

func main() {
	dir, _ := os.MkdirTemp("", "c12")
	defer os.RemoveAll(dir)
	db, err := tsdbx.Open(dir, tsdbx.Options{BlockRange: 100000})
	if err != nil {
		panic(err)
	}
	lb := labels.FromStrings("a", "b")
	app := db.DB.Appender(context.Background())
	for i, c := range []int64{10, 20, 5, 6, 7} {
		if _, err := app.AppendHistogram(0, lb, int64(1000*(i+1)), mk(c), nil); err != nil {
			panic(err)
		}
	}
	if err := app.Commit(); err != nil {
		panic(err)
	}
	fmt.Println("full")
	dump(db, 0, 10000)
	fmt.Println("range 4000..")
	dump(db, 4000, 10000)
	if err := db.DB.Delete(context.Background(), 2500, 3500, labels.MustNewMatcher(labels.MatchEqual, "a", "b")); err != nil {
		panic(err)
	}
	fmt.Println("after delete [2500,3500] (head)")
	dump(db, 0, 10000)
	db.DB.Close()
}

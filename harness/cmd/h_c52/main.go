// h_c52: correspondence harness for C52 (the head's reported counters match its contents).
//
// Every case is one seeded single-threaded history driven against a real tsdb.DB (through
// harness/internal/tsdbx): appenders that are opened, used (floats, staleness markers, integer /
// float / gauge native histograms, in order and out of order) and committed or rolled back —
// possibly interleaved with other operations while still open —, Head.mmapHeadChunks,
// Head.Truncate, DB.CompactOOOHead, DB.CompactStaleHead, DB.CompactSelectedSeries, DB.Delete and
// Close+Open (WAL replay or chunk snapshot).  After EVERY step the harness reads
//   - the reported numbers: Head.NumSeries / NumStaleSeries / NumNativeHistogramSeries /
//     NumNativeHistogramBuckets and the gauges prometheus_tsdb_head_chunks /
//     prometheus_tsdb_head_active_appenders (export shim /repo/tsdb/zz_verif_export_c52.go),
//   - a walk over the head's series (chunks, OOO chunks, last-value fields, pendingCommit).
//
// Coq then checks `holds` (reported numbers = recount over the walk; active appenders = appenders
// the harness still holds open) and `agree` (model/HeadStats.v driven by the same operations
// predicts the same numbers and the same per-series structure) — see coq/corr/CorrC52.v.
package main

import (
	"context"
	"fmt"
	"math"
	"os"
	"path/filepath"
	"sort"
	"strings"
	"sync"

	"github.com/prometheus/prometheus/model/histogram"
	"github.com/prometheus/prometheus/model/labels"
	"github.com/prometheus/prometheus/model/value"
	"github.com/prometheus/prometheus/storage"
	"github.com/prometheus/prometheus/tsdb"

	"verif/harness/internal/gallina"
	"verif/harness/internal/gen"
	"verif/harness/internal/tsdbx"
)

const blockRange = 100

// sample kinds of a request
const (
	kFloat = iota
	kFloatStale
	kHist
	kHistStale
	kFHist
	kFHistStale
	kGaugeHist
)

var kindNames = [...]string{"float", "float-stale", "hist", "hist-stale", "fhist", "fhist-stale", "gauge-hist"}

type req struct {
	S    int    `json:"s"`
	T    int64  `json:"t"`
	Kind int    `json:"kind"`
	NB   int    `json:"nb,omitempty"`  // bucket entries of the submitted histogram
	Off  int    `json:"off,omitempty"` // offset of the first positive bucket
	C    int64  `json:"c,omitempty"`   // per-bucket count
	Err  string `json:"err,omitempty"`

	h  *histogram.Histogram      // the object handed to AppendHistogram (the commit may change it in place)
	fh *histogram.FloatHistogram //
}

type hop struct {
	Op     string   `json:"op"`
	App    int      `json:"app,omitempty"`
	Req    *req     `json:"req,omitempty"`
	Mint   int64    `json:"mint,omitempty"`
	Maxt   int64    `json:"maxt,omitempty"`
	Sel    []int    `json:"sel,omitempty"`
	Note   string   `json:"note,omitempty"`
	Shapes []string `json:"shapes,omitempty"`
}

type caseDesc struct {
	Seed     uint64   `json:"seed"`
	Index    int      `json:"index"`
	Corpus   string   `json:"corpus,omitempty"`
	Series   int      `json:"series"`
	OOOWin   int64    `json:"ooo_window"`
	OOOCap   int64    `json:"ooo_cap"`
	SPC      int      `json:"samples_per_chunk"`
	Snapshot bool     `json:"snapshot"`
	Ops      []hop    `json:"ops"`
	Shape    string   `json:"shape"`
	Shapes   []string `json:"shapes,omitempty"`
	Info     []string `json:"info,omitempty"`
}

func lbl(i int) labels.Labels { return labels.FromStrings("__name__", "m", "s", fmt.Sprintf("s%d", i)) }

var staleNaN = math.Float64frombits(value.StaleNaN)

func mkHist(kind, nb, off int, c int64) (*histogram.Histogram, *histogram.FloatHistogram) {
	switch kind {
	case kHistStale:
		return &histogram.Histogram{Sum: staleNaN}, nil
	case kFHistStale:
		return nil, &histogram.FloatHistogram{Sum: staleNaN}
	case kHist, kGaugeHist:
		h := &histogram.Histogram{Schema: 0, ZeroThreshold: 0.001, ZeroCount: 1, Count: uint64(int64(nb)*c) + 1, Sum: float64(c)}
		if nb > 0 {
			h.PositiveSpans = []histogram.Span{{Offset: int32(off), Length: uint32(nb)}}
			h.PositiveBuckets = make([]int64, nb)
			h.PositiveBuckets[0] = c
		}
		if kind == kGaugeHist {
			h.CounterResetHint = histogram.GaugeType
		}
		return h, nil
	case kFHist:
		fh := &histogram.FloatHistogram{Schema: 0, ZeroThreshold: 0.001, ZeroCount: 1, Count: float64(int64(nb)*c) + 1, Sum: float64(c)}
		if nb > 0 {
			fh.PositiveSpans = []histogram.Span{{Offset: int32(off), Length: uint32(nb)}}
			fh.PositiveBuckets = make([]float64, nb)
			for i := range fh.PositiveBuckets {
				fh.PositiveBuckets[i] = float64(c)
			}
		}
		return nil, fh
	}
	panic("mkHist")
}

// ---- runner ----

type openApp struct {
	app     storage.Appender
	reqs    []req          // accepted by Append (err == nil)
	touched []uint64       // refs of series in the batches or created by this appender
	orphan  map[int]uint64 // series index -> ref returned by Append
}

type runner struct {
	d         *tsdbx.DB
	n         int
	opt       tsdbx.Options
	oooCap    int64
	apps      map[int]*openApp
	nextApp   int
	now       int64
	sentMax   map[int]int64 // per series: highest timestamp ever sent
	owner     map[int]int   // per series: the open appender that has appended to it (generator constraint, see notes)
	hcount    int64
	steps     []string
	descs     []hop
	classes   map[string]int
	shapes    map[string]bool
	goViol    []string
	stopped   bool
	restarts  int
	created   map[int]int // per series index: memSeries created through appenders so far
	dupRefs   bool        // some label set has had two refs
	lastWalk  string
	gaugeSeen int64 // gauge histograms accepted by appenders so far
	info      []string
	haveWalk  bool
}

type walkT struct {
	ser    []tsdb.VerifC52Series
	byRef  map[uint64]*tsdb.VerifC52Series
	byHash int
	c      tsdb.VerifC52Counters
}

func (r *runner) walk() walkT {
	h := r.d.DB.Head()
	ser, bh := h.VerifC52Walk()
	w := walkT{ser: ser, byHash: bh, c: h.VerifC52Counters(), byRef: map[uint64]*tsdb.VerifC52Series{}}
	for i := range w.ser {
		w.byRef[w.ser[i].Ref] = &w.ser[i]
	}
	return w
}

// ---- Gallina printers (primitive uint63 literals; the case file opens uint63_scope) ----

func gi(v int64) string {
	if v < 0 {
		panic(fmt.Sprintf("negative value %d in an unsigned position", v))
	}
	return fmt.Sprintf("%d", v)
}
func gs(v int64) string {
	if v < 0 {
		return fmt.Sprintf("(M %d)", -v)
	}
	return fmt.Sprintf("(P %d)", v)
}
func gl(vs []int64) string {
	it := make([]string, len(vs))
	for i, v := range vs {
		it[i] = gi(v)
	}
	return "[" + strings.Join(it, "; ") + "]"
}
func gpairs(ps [][2]int64) string {
	it := make([]string, len(ps))
	for i, p := range ps {
		it[i] = fmt.Sprintf("(%s, %s)", gi(p[0]), gi(p[1]))
	}
	return "[" + strings.Join(it, "; ") + "]"
}
func gopt(ok bool, v int64) string {
	if !ok {
		return "None"
	}
	return "(Some " + gi(v) + ")"
}

func isStaleBits(b uint64) bool { return b == value.StaleNaN }

func gLast(kind int, stale bool, nb int) string {
	if kind == 0 {
		return "(RF " + gallina.Bool(stale) + ")"
	}
	return fmt.Sprintf("(RH %s %d)", gallina.Bool(stale), nb)
}

func serLast(s *tsdb.VerifC52Series) (kind int, stale bool, nb int) {
	if s.LastKind == 0 {
		return 0, isStaleBits(s.LastValueBits), 0
	}
	return s.LastKind, isStaleBits(s.LastSumBits), s.LastBuckets
}

func gSer(s *tsdb.VerifC52Series, snap int) string {
	var mm, hc []int64
	for _, c := range s.Mmapped {
		mm = append(mm, c.MaxTime)
	}
	for i := len(s.Head) - 1; i >= 0; i-- {
		hc = append(hc, s.Head[i].MaxTime)
	}
	k, st, nb := serLast(s)
	last, ss := gLast(k, st, nb), gLast(b2i(s.SSHist), s.SSStale, s.SSBuckets)
	if !s.OOOStruct && s.OOOMmapped == 0 && !s.OOOHead && snap == 0 && int(s.HeadChunkCount) == len(hc) && last == ss {
		return fmt.Sprintf("W %s %s %s %s %s", gi(int64(s.Ref)), gl(mm), gl(hc), last, gallina.Bool(s.PendingCommit))
	}
	return fmt.Sprintf("mkW %s %s %s %s %s %s %s %s %s %s %s", gi(int64(s.Ref)), gl(mm), gl(hc), gi(int64(s.OOOMmapped)),
		gopt(s.OOOHead, int64(s.OOOHeadN)), gallina.Bool(s.OOOStruct), last, gallina.Bool(s.PendingCommit), gi(int64(snap)),
		gi(int64(s.HeadChunkCount)), ss)
}

func b2i(b bool) int {
	if b {
		return 1
	}
	return 0
}

func gWalk(w walkT, snap map[uint64]int) string {
	it := make([]string, len(w.ser))
	for i := range w.ser {
		it[i] = gSer(&w.ser[i], snap[w.ser[i].Ref])
	}
	return "[" + strings.Join(it, "; ") + "]"
}

func f2i(f float64) int64 {
	if f != math.Trunc(f) || math.IsNaN(f) || math.Abs(f) > 1e15 {
		panic(fmt.Sprintf("gauge value %v", f))
	}
	return int64(f)
}

func (r *runner) gObs(w walkT) string {
	c := w.c
	walk := gWalk(w, nil)
	ws := "(Some " + walk + ")"
	if r.haveWalk && walk == r.lastWalk {
		ws = "None"
	}
	r.lastWalk, r.haveWalk = walk, true
	v := []int64{int64(c.NumSeries), int64(c.NumStale), int64(c.NumHistSeries), int64(c.NumHistBuckets), f2i(c.Chunks), f2i(c.ActiveAppenders)}
	neg := false
	for _, x := range v {
		neg = neg || x < 0
	}
	if !neg {
		return fmt.Sprintf("K %d %d %d %d %d %d %d %d %s", v[0], v[1], v[2], v[3], v[4], v[5], len(r.apps), w.byHash, ws)
	}
	return fmt.Sprintf("mkO %s %s %s %s %s %s %s %s %s", gs(v[0]), gs(v[1]), gs(v[2]), gs(v[3]), gs(v[4]), gs(v[5]), gi(int64(len(r.apps))), gi(int64(w.byHash)), ws)
}

// Go-side evaluation of the property (for class statistics and shape tagging only; the verdict is Coq's).
func (r *runner) classify(w walkT) []string {
	var out []string
	var ser, stale, hist, buckets, chunks int64
	for i := range w.ser {
		s := &w.ser[i]
		ser++
		_, st, nb := serLast(s)
		if st {
			stale++
		}
		if s.LastKind != 0 {
			hist++
			buckets += int64(nb)
		}
		chunks += int64(len(s.Mmapped) + len(s.Head) + s.OOOMmapped + b2i(s.OOOHead))
		var nc *tsdb.VerifC52Chunk
		if n := len(s.Head); n > 0 {
			nc = &s.Head[n-1]
		} else if n := len(s.Mmapped); n > 0 {
			nc = &s.Mmapped[n-1]
		}
		if nc != nil && nc.N > 0 {
			k, st, _ := serLast(s)
			if (k != 0) != (nc.LastKind != 0) || st != nc.LastStale {
				r.classes["info:last-value-fields-differ-from-newest-chunk"]++
				r.info = append(r.info, fmt.Sprintf("step %d ref %d: last-value fields kind=%d stale=%v, newest chunk kind=%d stale=%v", len(r.descs), s.Ref, k, st, nc.LastKind, nc.LastStale))
				if os.Getenv("C52_TRACE") != "" {
					fmt.Printf("    !! ref=%d last-value fields kind=%d stale=%v, newest chunk kind=%d stale=%v\n", s.Ref, k, st, nc.LastKind, nc.LastStale)
				}
			}
		}
	}
	c := w.c
	if int64(c.NumSeries) != ser {
		out = append(out, "series-count")
	}
	if int64(c.NumStale) != stale {
		out = append(out, "stale-count")
	}
	if int64(c.NumHistSeries) != hist {
		out = append(out, "hist-series-count")
	}
	if int64(c.NumHistBuckets) != buckets {
		out = append(out, "hist-buckets-count")
	}
	if f2i(c.Chunks) != chunks {
		out = append(out, "chunks-gauge")
	}
	if f2i(c.ActiveAppenders) != int64(len(r.apps)) {
		out = append(out, "active-appenders")
	}
	if c.SeriesGauge != float64(c.NumSeries) || c.StaleGauge != float64(c.NumStale) || c.HistSeriesGauge != float64(c.NumHistSeries) || c.HistBucketsGauge != float64(c.NumHistBuckets) {
		out = append(out, "gaugefunc-differs")
	}
	return out
}

func (r *runner) emit(o hop, term string, w walkT, note string) {
	bad := r.classify(w)
	for _, b := range bad {
		r.classes["differs:"+b]++
	}
	o.Shapes = bad
	r.trace(o, term, w, bad)
	r.descs = append(r.descs, o)
	r.steps = append(r.steps, fmt.Sprintf("(%s,\n    %s)", term, r.gObs(w)))
	r.classes["op:"+o.Op]++
}

func (r *runner) trace(o hop, term string, w walkT, bad []string) {
	if os.Getenv("C52_TRACE") == "" {
		return
	}
	fmt.Printf("%-3d %s %v\n    reported: series=%d stale=%d hist=%d buckets=%d chunks=%v active=%v\n", len(r.descs), term, bad,
		w.c.NumSeries, w.c.NumStale, w.c.NumHistSeries, w.c.NumHistBuckets, w.c.Chunks, w.c.ActiveAppenders)
	for i := range w.ser {
		s := &w.ser[i]
		k, st, nb := serLast(s)
		fmt.Printf("      ref=%d %s mm=%d hc=%d(%d) ooo=%v/%d/%v(%d,k=%d) last=%d/%v/%d pend=%v\n", s.Ref, s.Labels, len(s.Mmapped), len(s.Head), s.HeadChunkCount,
			s.OOOStruct, s.OOOMmapped, s.OOOHead, s.OOOHeadN, s.OOOHeadK, k, st, nb, s.PendingCommit)
	}
}

func (r *runner) refsOf(w walkT) map[int]uint64 {
	out := map[int]uint64{}
	for i := 0; i < r.n; i++ {
		name := lbl(i).String()
		for j := range w.ser {
			if w.ser[j].Labels == name {
				out[i] = w.ser[j].Ref
			}
		}
	}
	return out
}

type flatSample struct {
	tsdb.VerifC52Sample
	chunk int
	first bool
}

func flatten(s *tsdb.VerifC52Series) (out []flatSample, nchunks int) {
	if s == nil {
		return nil, 0
	}
	ci := 0
	add := func(c tsdb.VerifC52Chunk) {
		for j, x := range c.Samples {
			out = append(out, flatSample{x, ci, j == 0})
		}
		ci++
	}
	for _, c := range s.Mmapped {
		add(c)
	}
	for _, c := range s.Head {
		add(c)
	}
	return out, ci
}

func (r *runner) doOpen(o hop) {
	id := r.nextApp
	r.nextApp++
	o.App = id
	r.apps[id] = &openApp{app: r.d.DB.Appender(context.Background()), orphan: map[int]uint64{}}
	r.emit(o, fmt.Sprintf("ROpen %d", id), r.walk(), "")
}

func (r *runner) doAppend(o hop) {
	a := r.apps[o.App]
	q := *o.Req
	before := r.walk()
	var ref storage.SeriesRef
	var err error
	switch q.Kind {
	case kFloat:
		ref, err = a.app.Append(0, lbl(q.S), q.T, float64(q.C))
	case kFloatStale:
		ref, err = a.app.Append(0, lbl(q.S), q.T, staleNaN)
	default:
		q.h, q.fh = mkHist(q.Kind, q.NB, q.Off, q.C)
		ref, err = a.app.AppendHistogram(0, lbl(q.S), q.T, q.h, q.fh)
	}
	after := r.walk()
	created := int64(-1)
	for i := range after.ser {
		if _, ok := before.byRef[after.ser[i].Ref]; !ok {
			if created >= 0 {
				panic("two series created by one append")
			}
			created = int64(after.ser[i].Ref)
			r.created[q.S]++
			if r.created[q.S] > 1 {
				r.dupRefs = true
			}
			a.touched = append(a.touched, after.ser[i].Ref)
		}
	}
	if err == nil {
		a.reqs = append(a.reqs, q)
		a.touched = append(a.touched, uint64(ref))
		a.orphan[q.S] = uint64(ref)
		r.classes["append:"+kindNames[q.Kind]]++
		if q.Kind == kGaugeHist {
			r.gaugeSeen++
		}
	} else {
		q.Err = tsdbx.Kind(err).String()
		r.classes["append-error:"+q.Err]++
	}
	o.Req = &q
	if q.T > r.sentMax[q.S] && err == nil {
		r.sentMax[q.S] = q.T
	}
	r.emit(o, fmt.Sprintf("RAppend %d %s %s", o.App, gopt(created >= 0, created), gopt(err == nil, int64(ref))), after, "")
}

func uniq(in []uint64) []int64 {
	seen := map[uint64]bool{}
	var out []int64
	for _, x := range in {
		if !seen[x] {
			seen[x] = true
			out = append(out, int64(x))
		}
	}
	return out
}

func (r *runner) doClose(o hop, commit bool) {
	a := r.apps[o.App]
	before := r.walk()
	refs := r.refsOf(before)
	var err error
	if commit {
		err = a.app.Commit()
	} else {
		err = a.app.Rollback()
	}
	if err != nil {
		panic(fmt.Sprintf("close appender: %v", err))
	}
	delete(r.apps, o.App)
	for s, own := range r.owner {
		if own == o.App {
			delete(r.owner, s)
		}
	}
	after := r.walk()
	if !commit {
		r.emit(o, fmt.Sprintf("RRollback %d %s", o.App, gl(uniq(a.touched))), after, "")
		return
	}
	// reconstruct what landed, per series
	var landed []string
	bySeries := map[int][]req{}
	var order []int
	for _, q := range a.reqs {
		if _, ok := bySeries[q.S]; !ok {
			order = append(order, q.S)
		}
		bySeries[q.S] = append(bySeries[q.S], q)
	}
	for _, si := range order {
		ref, ok := refs[si]
		if !ok {
			// the series was garbage collected while this appender held uncommitted samples for it
			// (only in the fixed corpus; the generator keeps one open appender per series): the sample
			// lands in a memSeries nobody can reach; a series is only removed without chunks, so the
			// first sample cuts a chunk
			if len(bySeries[si]) != 1 || bySeries[si][0].Kind > kFloatStale || a.orphan[si] == 0 {
				panic("committed series without ref")
			}
			q := bySeries[si][0]
			landed = append(landed, fmt.Sprintf("RIn %s %s false %s 0 0 true", gi(int64(a.orphan[si])), gi(q.T), gallina.Bool(q.Kind == kFloatStale)))
			r.shapes["commit-into-garbage-collected-series"] = true
			continue
		}
		bs, as := before.byRef[ref], after.byRef[ref]
		if as == nil {
			panic("series vanished during commit")
		}
		bf, bn := flatten(bs)
		af, _ := flatten(as)
		if len(af) < len(bf) {
			panic("in-order samples vanished during commit")
		}
		newS := af[len(bf):]
		inT := map[int64]bool{}
		for j, x := range newS {
			inT[x.T] = true
			var q *req
			for k := range bySeries[si] {
				if bySeries[si][k].T == x.T {
					q = &bySeries[si][k]
					break
				}
			}
			if q == nil {
				panic("landed sample without request")
			}
			nbIn := 0
			if q.Kind == kHist || q.Kind == kFHist || q.Kind == kGaugeHist {
				nbIn = q.NB
			}
			nbAfter := nbIn
			switch {
			case q.h != nil: // the appender kept this pointer; it is what lastHistogramValue pointed to
				nbAfter = len(q.h.PositiveBuckets) + len(q.h.NegativeBuckets)
			case q.fh != nil:
				nbAfter = len(q.fh.PositiveBuckets) + len(q.fh.NegativeBuckets)
			case j == len(newS)-1 && x.Kind != 0: // converted staleness marker
				nbAfter = as.LastBuckets
			}
			if j == len(newS)-1 && x.Kind != 0 && nbAfter != as.LastBuckets {
				panic(fmt.Sprintf("bucket entries of the last landed histogram: %d, lastHistogramValue has %d", nbAfter, as.LastBuckets))
			}
			if x.Kind == 0 {
				nbIn, nbAfter = 0, 0
			}
			cut := x.first && x.chunk >= bn
			landed = append(landed, fmt.Sprintf("RIn %s %s %s %s %s %s %s", gi(int64(ref)), gi(x.T), gallina.Bool(x.Kind != 0), gallina.Bool(x.Stale), gi(int64(nbIn)), gi(int64(nbAfter)), gallina.Bool(cut)))
			r.classes["landed-inorder"]++
			if cut {
				r.classes["landed-cut"]++
			}
			if nbIn != nbAfter {
				r.shapes["histogram-buckets-changed-by-append"] = true
			}
			if (q.Kind == kFloatStale) && x.Kind != 0 {
				r.classes["stale-marker-converted"]++
			}
		}
		// out-of-order: at most one candidate per series and transaction
		var cands []req
		for _, q := range bySeries[si] {
			if !inT[q.T] {
				cands = append(cands, q)
			}
		}
		var bo [4]int // mmapped chunks, samples in them, head chunk?, samples in it
		if bs != nil {
			bo = [4]int{bs.OOOMmapped, bs.OOOMmappedN, b2i(bs.OOOHead), bs.OOOHeadN}
		}
		ao := [4]int{as.OOOMmapped, as.OOOMmappedN, b2i(as.OOOHead), as.OOOHeadN}
		if bo != ao {
			inserted := ao[1] + ao[3] - bo[1] - bo[3]
			if inserted < 1 || inserted > len(cands) {
				panic(fmt.Sprintf("OOO state changed: %d inserted, %d candidates", inserted, len(cands)))
			}
			// simulate memSeries.insert to find where the head chunk was flushed
			have, n := bo[2] == 1, bo[3]
			var flushAt []int
			for j := 0; j < inserted; j++ {
				if !have || int64(n) == r.oooCap {
					if have {
						flushAt = append(flushAt, j)
					}
					have, n = true, 0
				}
				n++
			}
			ktotal := ao[0] - bo[0]
			if (len(flushAt) == 0) != (ktotal == 0) || ktotal < len(flushAt) || n != ao[3] {
				panic(fmt.Sprintf("OOO flushes: simulated %d, m-mapped chunks +%d, head %d vs %d", len(flushAt), ktotal, n, ao[3]))
			}
			for j := 0; j < inserted; j++ {
				k := 1
				if len(flushAt) > 0 && j == flushAt[0] {
					// only the sum over the flushes of one commit is observable
					k = ktotal - (len(flushAt) - 1)
					if j == 0 && len(flushAt) == 1 && k != bs.OOOHeadK {
						panic(fmt.Sprintf("OOO flush produced %d chunks, ToEncodedChunks said %d", k, bs.OOOHeadK))
					}
					if k != 1 {
						r.shapes["ooo-head-chunk-flushed-into-several-chunks"] = true
					}
					r.classes["ooo-flush"]++
				}
				landed = append(landed, fmt.Sprintf("ROoo %s %s false", gi(int64(ref)), gi(int64(k))))
				r.classes["landed-ooo"]++
			}
			r.classes["not-landed"] += len(cands) - inserted
		} else if len(cands) > 0 {
			r.classes["not-landed"] += len(cands)
		}
	}
	r.emit(o, fmt.Sprintf("RCommit %d %s [%s]", o.App, gl(uniq(a.touched)), strings.Join(landed, "; ")), after, "")
}

func oooDelta(before, after walkT, flushed bool) (flush, rm [][2]int64, several bool) {
	for i := range before.ser {
		b := &before.ser[i]
		have := b.OOOMmapped
		if flushed && b.OOOHead {
			flush = append(flush, [2]int64{int64(b.Ref), int64(b.OOOHeadK)})
			have += b.OOOHeadK
			if b.OOOHeadK != 1 {
				several = true
			}
		}
		left := 0
		if a := after.byRef[b.Ref]; a != nil {
			left = a.OOOMmapped
		}
		if have-left > 0 {
			rm = append(rm, [2]int64{int64(b.Ref), int64(have - left)})
		}
	}
	return flush, rm, several
}

func (r *runner) doTrunc(o hop) {
	before := r.walk()
	if err := r.d.DB.Head().Truncate(o.Mint); err != nil {
		panic(fmt.Sprintf("truncate: %v", err))
	}
	after := r.walk()
	ran := after.c.GCCount != before.c.GCCount
	_, rm, _ := oooDelta(before, after, false)
	if len(after.ser) < len(before.ser) {
		r.classes["gc-deleted-series"]++
	}
	r.emit(o, fmt.Sprintf("RTrunc %s %s [] %s", gallina.Bool(ran), gi(o.Mint), gpairs(rm)), after, "")
}

func (r *runner) doCompactOOO(o hop) {
	before := r.walk()
	mint := r.d.DB.Head().MinTime()
	if err := r.d.CompactOOOHead(); err != nil {
		panic(fmt.Sprintf("compact ooo: %v", err))
	}
	after := r.walk()
	ran := after.c.GCCount != before.c.GCCount
	// the OOO head chunks are m-mapped whenever the compaction head is built
	flushed := false
	for i := range before.ser {
		if b := &before.ser[i]; b.OOOHead {
			if a := after.byRef[b.Ref]; a == nil || !a.OOOHead {
				flushed = true
			}
		}
	}
	flush, rm, several := oooDelta(before, after, flushed)
	if several {
		r.shapes["ooo-head-chunk-flushed-into-several-chunks"] = true
	}
	if mint == math.MaxInt64 || mint < 0 {
		mint = 0
	}
	if len(flush) > 0 {
		r.classes["ooo-compaction-flush"]++
	}
	r.emit(o, fmt.Sprintf("RTrunc %s %s %s %s", gallina.Bool(ran), gi(mint), gpairs(flush), gpairs(rm)), after, "")
}

func (r *runner) doEvict(o hop, staleOnly bool) {
	before := r.walk()
	h := r.d.DB.Head()
	maxt := h.MaxTime()
	skip := h.MinTime() > maxt
	var refs []int64
	var err error
	if staleOnly {
		for i := range before.ser {
			refs = append(refs, int64(before.ser[i].Ref))
		}
		err = r.d.DB.CompactStaleHead()
	} else {
		byS := r.refsOf(before)
		var sr []storage.SeriesRef
		for _, si := range o.Sel {
			if ref, ok := byS[si]; ok {
				refs = append(refs, int64(ref))
				sr = append(sr, storage.SeriesRef(ref))
			} else {
				refs = append(refs, int64(1000+si)) // a ref that does not exist
				sr = append(sr, storage.SeriesRef(1000+si))
			}
		}
		err = r.d.DB.CompactSelectedSeries(sr)
	}
	if err != nil {
		panic(fmt.Sprintf("evict: %v", err))
	}
	after := r.walk()
	if skip || maxt < 0 {
		refs, maxt = nil, 0
	}
	if len(after.ser) < len(before.ser) {
		r.classes["evicted-series"]++
	}
	r.emit(o, fmt.Sprintf("REvict %s %s %s", gallina.Bool(staleOnly), gl(refs), gi(maxt)), after, "")
}

// damageSnapshot cuts the last chunk snapshot's segment file in half (probe only, C52_PROBE).
func damageSnapshot(dir string) string {
	ms, _ := filepath.Glob(filepath.Join(dir, "chunk_snapshot.*", "*"))
	if len(ms) == 0 {
		return "no snapshot"
	}
	sort.Strings(ms)
	f := ms[len(ms)-1]
	st, err := os.Stat(f)
	if err != nil {
		return err.Error()
	}
	if err := os.Truncate(f, 1500); err != nil {
		return err.Error()
	}
	return fmt.Sprintf("%s cut from %d to %d bytes", filepath.Base(f), st.Size(), 1500)
}

func (r *runner) doRestart(o hop) {
	if o.Note == "damage-snapshot" {
		if err := r.d.DB.Close(); err != nil {
			panic(err)
		}
		fmt.Println("probe:", damageSnapshot(r.d.Dir))
		d, err := tsdbx.Open(r.d.Dir, r.opt)
		if err != nil {
			panic(err)
		}
		r.d = d
	} else if err := r.d.Reopen(); err != nil {
		panic(fmt.Sprintf("reopen: %v", err))
	}
	r.restarts++
	after := r.walk()
	logs := r.d.Logs()
	snap := map[uint64]int{}
	note := "-wal"
	if r.opt.Snapshot && after.c.SnapshotReplayErrors == 0 {
		note = "-snapshot"
		for i := range after.ser {
			snap[after.ser[i].Ref] = len(after.ser[i].Head)
		}
	}
	for _, l := range logs {
		if strings.Contains(l, "ERROR") {
			o.Note += l + "; "
		}
	}
	bad := r.classify(after)
	for _, b := range bad {
		r.classes["differs:"+b]++
	}
	// head chunks created by the replay and then dropped by resetSeriesWithMMappedChunks cannot be
	// seen in the head afterwards; when the WAL can hold two series records for one label set the
	// surplus of the gauge is attributed to them (see notes)
	var recount, snapTotal int64
	for i := range after.ser {
		s := &after.ser[i]
		recount += int64(len(s.Mmapped) + len(s.Head) + s.OOOMmapped + b2i(s.OOOHead))
		snapTotal += int64(snap[s.Ref])
	}
	extra := int64(0)
	if r.dupRefs {
		// at most one dropped head chunk per additional series record of a label set
		bound := int64(0)
		for _, n := range r.created {
			if n > 1 {
				bound += int64(n - 1)
			}
		}
		if e := f2i(after.c.Chunks) - (recount - snapTotal); e >= 0 && e <= bound {
			extra = e
		}
	}
	// the same for bucket entries added in place by a replayed append of a gauge histogram
	var bucketsHeld int64
	for i := range after.ser {
		if s := &after.ser[i]; s.LastKind != 0 {
			bucketsHeld += int64(s.LastBuckets)
		}
	}
	bextra := int64(0)
	if r.gaugeSeen > 0 {
		// every accepted gauge histogram can be widened in place by at most 8 entries (layouts span
		// offsets 0..6), once per replay
		if e := bucketsHeld - int64(after.c.NumHistBuckets); e >= 0 && e <= 8*r.gaugeSeen {
			bextra = e
		}
	}
	if bextra != 0 {
		r.shapes["histogram-buckets-changed-by-append"] = true
	}
	if snapTotal > 0 {
		r.shapes["snapshot-head-chunks-uncounted"] = true
	}
	if extra != 0 {
		r.shapes["wal-replay-duplicate-series-record-drops-head-chunk"] = true
	}
	o.Shapes = bad
	o.Op = "restart" + note
	r.trace(o, "RRestart", after, bad)
	r.descs = append(r.descs, o)
	r.lastWalk, r.haveWalk = gWalk(after, nil), true
	r.steps = append(r.steps, fmt.Sprintf("(RRestart %s %s %s,\n    %s)", gWalk(after, snap), gs(extra), gs(bextra), r.gObs(after)))
	r.classes["op:restart"+note]++
}

func (r *runner) apply(o hop) {
	switch o.Op {
	case "open":
		r.doOpen(o)
	case "append":
		r.doAppend(o)
	case "commit":
		r.doClose(o, true)
	case "rollback":
		r.doClose(o, false)
	case "mmap":
		r.d.DB.Head().VerifC52MmapHeadChunks()
		r.emit(o, "RMmap", r.walk(), "")
	case "truncate":
		r.doTrunc(o)
	case "compact-ooo":
		r.doCompactOOO(o)
	case "evict-stale":
		r.doEvict(o, true)
	case "evict-selected":
		r.doEvict(o, false)
	case "delete":
		sel := make([]string, len(o.Sel))
		for i, s := range o.Sel {
			sel[i] = fmt.Sprintf("s%d", s)
		}
		if err := r.d.Delete(o.Mint, o.Maxt, labels.MustNewMatcher(labels.MatchRegexp, "s", strings.Join(sel, "|"))); err != nil {
			panic(err)
		}
		r.emit(o, "RNop", r.walk(), "")
	case "restart":
		r.doRestart(o)
	default:
		panic("unknown op " + o.Op)
	}
}

// ---- generator ----

func (r *runner) genReqs(g *gen.Rand, hist bool) []req {
	var out []req
	nser := 1 + g.Intn(r.n)
	perm := make([]int, r.n)
	for i := range perm {
		perm[i] = i
	}
	for i := range perm {
		j := i + g.Intn(r.n-i)
		perm[i], perm[j] = perm[j], perm[i]
	}
	for _, s := range perm[:nser] {
		if own, ok := r.owner[s]; ok && own != r.nextApp {
			continue // another open appender has uncommitted samples for this series
		}
		r.owner[s] = r.nextApp
		mk := func(t int64, allowStale bool) req {
			q := req{S: s, T: t, Kind: kFloat, C: 1 + int64(g.Intn(50))}
			if hist && g.Chance(1, 2) {
				q.Kind = gen.Pick(g, []int{kHist, kHist, kFHist, kGaugeHist, kGaugeHist})
				q.NB = g.Intn(5)
				q.Off = g.Intn(3)
				r.hcount += int64(g.Intn(5))
				q.C = r.hcount
				if g.Chance(1, 6) {
					q.C = 1 + int64(g.Intn(3)) // counter reset
				}
			}
			if allowStale && g.Chance(1, 4) {
				q.Kind = gen.Pick(g, []int{kFloatStale, kFloatStale, kFloatStale, kHistStale, kFHistStale})
				q.NB, q.Off = 0, 0
			}
			return q
		}
		base := r.sentMax[s]
		if base < r.now-40 {
			base = r.now - 40
		}
		if r.opt.OOOWindow > 0 && r.sentMax[s] > 0 && g.Chance(1, 4) {
			// one out-of-order candidate (or duplicate / too old)
			t := r.sentMax[s] - int64(g.Intn(int(min64(r.opt.OOOWindow, 60))+10))
			if g.Chance(1, 8) {
				t = r.sentMax[s]
			}
			if t < 1 {
				t = 1
			}
			q := mk(t, false)
			if q.Kind == kGaugeHist && g.Chance(1, 2) {
				q.Kind = kHist
			}
			out = append(out, q)
			continue
		}
		k := 1 + g.Intn(3)
		if g.Chance(1, 6) {
			k += 4 + g.Intn(6)
		}
		t := base
		for j := 0; j < k; j++ {
			t += 1 + int64(g.Intn(25))
			q := mk(t, j == k-1)
			out = append(out, q)
		}
		if t > r.now {
			r.now = t
		}
	}
	return out
}

func min64(a, b int64) int64 {
	if a < b {
		return a
	}
	return b
}

func (r *runner) genStep(g *gen.Rand, hist bool) []hop {
	pickSel := func() []int {
		var sel []int
		for i := 0; i < r.n; i++ {
			if g.Chance(1, 2) {
				sel = append(sel, i)
			}
		}
		if len(sel) == 0 {
			sel = []int{g.Intn(r.n)}
		}
		return sel
	}
	var openIDs []int
	for id := range r.apps {
		openIDs = append(openIDs, id)
	}
	sort.Ints(openIDs)
	p := g.Intn(100)
	switch {
	case p < 42: // a whole transaction, possibly left open
		id := r.nextApp
		out := []hop{{Op: "open"}}
		for _, q := range r.genReqs(g, hist) {
			q := q
			out = append(out, hop{Op: "append", App: id, Req: &q})
		}
		switch {
		case g.Chance(1, 6) && len(openIDs) < 2:
			// stays open
		case g.Chance(1, 6):
			out = append(out, hop{Op: "rollback", App: id})
		default:
			out = append(out, hop{Op: "commit", App: id})
		}
		return out
	case p < 50 && len(openIDs) > 0:
		id := gen.Pick(g, openIDs)
		if g.Chance(1, 4) {
			return []hop{{Op: "rollback", App: id}}
		}
		return []hop{{Op: "commit", App: id}}
	case p < 56:
		return []hop{{Op: "mmap"}}
	case p < 68:
		return []hop{{Op: "truncate", Mint: max64(0, r.now-int64(g.Intn(150))+int64(g.Intn(40)))}}
	case p < 74 && len(openIDs) == 0 && r.opt.OOOWindow > 0:
		return []hop{{Op: "compact-ooo"}}
	case p < 80 && len(openIDs) == 0:
		return []hop{{Op: "evict-stale"}}
	case p < 86 && len(openIDs) == 0:
		return []hop{{Op: "evict-selected", Sel: pickSel()}}
	case p < 90:
		lo := max64(0, r.now-int64(g.Intn(200)))
		return []hop{{Op: "delete", Mint: lo, Maxt: lo + int64(g.Intn(100)), Sel: pickSel()}}
	case p < 97 && len(openIDs) == 0:
		return []hop{{Op: "restart"}}
	}
	return []hop{{Op: "mmap"}}
}

func max64(a, b int64) int64 {
	if a > b {
		return a
	}
	return b
}

// ---- fixed corpus ----

type fixed struct {
	name string
	opt  tsdbx.Options
	n    int
	ops  []hop
}

func fl(s int, t int64) *req { return &req{S: s, T: t, Kind: kFloat, C: 1} }
func st(s int, t int64) *req { return &req{S: s, T: t, Kind: kFloatStale} }
func hi(s int, t int64, kind, nb, off int, c int64) *req {
	return &req{S: s, T: t, Kind: kind, NB: nb, Off: off, C: c}
}

func tx(id int, commit bool, reqs ...*req) []hop {
	out := []hop{{Op: "open"}}
	for _, q := range reqs {
		out = append(out, hop{Op: "append", App: id, Req: q})
	}
	if commit {
		return append(out, hop{Op: "commit", App: id})
	}
	return append(out, hop{Op: "rollback", App: id})
}

func cat(l ...[]hop) []hop {
	var out []hop
	for _, x := range l {
		out = append(out, x...)
	}
	return out
}

func corpus() []fixed {
	return []fixed{
		{name: "stale-then-evict", n: 2, opt: tsdbx.Options{BlockRange: blockRange, SamplesPerChunk: 4}, ops: cat(
			tx(0, true, fl(0, 1000), fl(1, 1000)), tx(1, true, st(0, 1010), fl(1, 1010)),
			[]hop{{Op: "evict-stale"}}, tx(2, true, fl(0, 1020)), []hop{{Op: "restart"}})},
		{name: "hist-float-stale", n: 1, opt: tsdbx.Options{BlockRange: blockRange, SamplesPerChunk: 4}, ops: cat(
			tx(0, true, hi(0, 1000, kHist, 3, 0, 5)), tx(1, true, hi(0, 1010, kHist, 4, 0, 9)), tx(2, true, st(0, 1020)),
			tx(3, true, fl(0, 1030)), tx(4, true, hi(0, 1040, kFHist, 2, 1, 3)), []hop{{Op: "truncate", Mint: 1200}})},
		{name: "rollback-keeps-series", n: 2, opt: tsdbx.Options{BlockRange: blockRange}, ops: cat(
			tx(0, false, fl(0, 1000), fl(1, 1001)), []hop{{Op: "truncate", Mint: 900}}, tx(1, true, fl(0, 1002)), []hop{{Op: "truncate", Mint: 1001}})},
		{name: "snapshot-restart", n: 2, opt: tsdbx.Options{BlockRange: blockRange, SamplesPerChunk: 4, Snapshot: true}, ops: cat(
			tx(0, true, fl(0, 1000), fl(0, 1001), fl(0, 1002), fl(0, 1003), fl(0, 1004), fl(0, 1005), fl(1, 1000)),
			[]hop{{Op: "mmap"}, {Op: "restart"}}, tx(1, true, st(1, 1010)), []hop{{Op: "restart"}, {Op: "truncate", Mint: 1300}})},
		{name: "ooo-mixed-flush", n: 1, opt: tsdbx.Options{BlockRange: blockRange, OOOWindow: 500, OOOCapMax: 4}, ops: cat(
			tx(0, true, fl(0, 1300)), tx(1, true, fl(0, 1200)), tx(2, true, hi(0, 1210, kHist, 2, 0, 5)), tx(3, true, fl(0, 1220)),
			tx(4, true, hi(0, 1230, kHist, 2, 0, 3)), tx(5, true, fl(0, 1240)), []hop{{Op: "compact-ooo"}})},
		{name: "gauge-hist-backward-insert", n: 1, opt: tsdbx.Options{BlockRange: blockRange}, ops: cat(
			tx(0, true, hi(0, 1000, kGaugeHist, 4, 0, 5)), tx(1, true, hi(0, 1010, kGaugeHist, 2, 1, 5)),
			tx(2, true, hi(0, 1020, kGaugeHist, 1, 0, 5)), tx(3, true, fl(0, 1030)))},
		{name: "commit-after-series-gc", n: 1, opt: tsdbx.Options{BlockRange: blockRange}, ops: []hop{
			{Op: "open"}, {Op: "open"}, {Op: "append", App: 0, Req: fl(0, 1000)}, {Op: "append", App: 1, Req: fl(0, 1001)},
			{Op: "commit", App: 1}, {Op: "truncate", Mint: 2000}, {Op: "commit", App: 0}, {Op: "truncate", Mint: 2100}}},
		{name: "two-appenders-open", n: 2, opt: tsdbx.Options{BlockRange: blockRange}, ops: []hop{
			{Op: "open"}, {Op: "open"}, {Op: "append", App: 0, Req: fl(0, 1000)}, {Op: "append", App: 1, Req: fl(1, 1000)},
			{Op: "truncate", Mint: 2000}, {Op: "commit", App: 1}, {Op: "rollback", App: 0}, {Op: "truncate", Mint: 2100}}},
		{name: "wal-duplicate-series-record", n: 1, opt: tsdbx.Options{BlockRange: blockRange}, ops: cat(
			tx(0, true, fl(0, 978), fl(0, 987)), []hop{{Op: "truncate", Mint: 998}}, tx(1, true, fl(0, 1009)),
			[]hop{{Op: "restart"}, {Op: "truncate", Mint: 1500}})},
	}
}

func main() {
	f := gallina.ParseFlags()
	meta := gallina.NewMeta("C52", f.Seed, f.Tier)
	meta.Rule = "fixed corpus + seeded single-threaded histories (6-30 generator steps = 15-120 recorded steps) over 1-5 series on a real tsdb.DB (block range 100, samples per chunk in {4,8,120}, OOO window in {0,60,1000}, OOO cap in {4,32}, chunk snapshot on/off); after every recorded step the reported numbers and a walk of the head are compared; a history is non-trivial when at least one sample landed in the head and at least one series-removing or restarting step changed the set of series or chunks; distinct by the printed step list"
	cf := &gallina.CaseFile{Dir: f.Out, Type: "case", PerShard: 50,
		Preamble: "From Coq Require Import List ZArith Uint63.\nFrom Verif Require Import model.HeadStats corr.CorrC52.\nImport ListNotations.\nOpen Scope uint63_scope.\n",
		Footer:   gallina.StdFooter}
	type outcome struct {
		term       string
		sig        string
		cd         caseDesc
		classes    map[string]int
		nontrivial bool
	}

	runCase := func(idx int, fx *fixed) outcome {
		g := gen.Fork(f.Seed, idx)
		n := 1 + g.Intn(5)
		opt := tsdbx.Options{BlockRange: blockRange,
			OOOWindow:       gen.Pick(g, []int64{0, 0, 60, 1000, 1000}),
			OOOCapMax:       gen.Pick(g, []int64{4, 4, 32}),
			SamplesPerChunk: gen.Pick(g, []int{4, 4, 8, 120}),
			Snapshot:        g.Chance(1, 3)}
		hist := g.Chance(2, 3)
		nsteps := 5 + g.Intn(18)
		if fx != nil {
			n, opt = fx.n, fx.opt
			if opt.OOOCapMax == 0 {
				opt.OOOCapMax = 32
			}
		}
		dir, err := os.MkdirTemp(f.Out, "db")
		if err != nil {
			panic(err)
		}
		defer os.RemoveAll(dir)
		d, err := tsdbx.Open(dir, opt)
		if err != nil {
			panic(err)
		}
		r := &runner{d: d, n: n, opt: opt, oooCap: opt.OOOCapMax, apps: map[int]*openApp{}, now: 1000, sentMax: map[int]int64{}, owner: map[int]int{}, created: map[int]int{},
			hcount: 1, classes: map[string]int{}, shapes: map[string]bool{}}
		defer func() {
			for _, a := range r.apps {
				_ = a.app.Rollback()
			}
			r.d.Close()
		}()
		if fx != nil {
			for _, o := range fx.ops {
				r.apply(o)
			}
		} else {
			for k := 0; k < nsteps; k++ {
				for _, o := range r.genStep(g, hist) {
					r.apply(o)
				}
			}
			// close everything: "once every appender has committed or rolled back ..."
			var ids []int
			for id := range r.apps {
				ids = append(ids, id)
			}
			sort.Ints(ids)
			for _, id := range ids {
				if g.Bool() {
					r.apply(hop{Op: "commit", App: id})
				} else {
					r.apply(hop{Op: "rollback", App: id})
				}
			}
			r.apply(hop{Op: "truncate", Mint: r.now + 500})
		}
		term := fmt.Sprintf("mkCase @ID@%%Z %d [\n  %s]", opt.OOOCapMax, strings.Join(r.steps, ";\n  "))
		var shapes []string
		for s := range r.shapes {
			shapes = append(shapes, s)
		}
		sort.Strings(shapes)
		shape := "clean"
		if len(shapes) > 0 {
			shape = strings.Join(shapes, "+")
		}
		cd := caseDesc{Seed: f.Seed, Index: idx, Series: n, OOOWin: opt.OOOWindow, OOOCap: opt.OOOCapMax, SPC: opt.SamplesPerChunk,
			Snapshot: opt.Snapshot, Ops: r.descs, Shape: shape, Shapes: shapes, Info: r.info}
		if fx != nil {
			cd.Corpus = fx.name
		}
		nt := r.classes["landed-inorder"] > 0 && (r.classes["gc-deleted-series"]+r.classes["evicted-series"]+r.classes["op:restart-wal"]+r.classes["op:restart-snapshot"] > 0)
		return outcome{term: term, sig: strings.Join(r.steps, ";"), cd: cd, classes: r.classes, nontrivial: nt}
	}

	cp := corpus()
	if os.Getenv("C52_PROBE") != "" { // not part of the check: a damaged chunk snapshot (see notes)
		var reqs []*req
		for i := 0; i < 40; i++ {
			reqs = append(reqs, fl(i, 1000))
		}
		var stale []*req
		for i := 0; i < 40; i++ {
			stale = append(stale, st(i, 1010))
		}
		cp = []fixed{{name: "probe-damaged-snapshot", n: 40, opt: tsdbx.Options{BlockRange: blockRange, Snapshot: true}, ops: cat(
			tx(0, true, reqs...), tx(1, true, stale...), []hop{{Op: "restart", Note: "damage-snapshot"}})}}
		os.Setenv("C52_ONLY", "0")
	}
	if v := os.Getenv("C52_ONLY"); v != "" { // debugging aid: run one generated case
		var idx int
		fmt.Sscan(v, &idx)
		var fx *fixed
		if idx < len(cp) {
			fx = &cp[idx]
		}
		o := runCase(idx, fx)
		if os.Getenv("C52_TRACE") == "" {
			fmt.Println(o.term)
		}
		fmt.Println(o.cd.Shapes)
		return
	}
	total := len(cp) + f.Count(40, 1000)
	outs := make([]outcome, total)
	var wg sync.WaitGroup
	sem := make(chan struct{}, 8)
	for k := 0; k < total; k++ {
		wg.Add(1)
		sem <- struct{}{}
		go func(k int) {
			defer wg.Done()
			defer func() { <-sem }()
			if k < len(cp) {
				outs[k] = runCase(k, &cp[k])
			} else {
				outs[k] = runCase(k, nil)
			}
		}(k)
	}
	wg.Wait()
	seen := map[string]bool{}
	shapeCount := map[string]int{}
	for k, o := range outs {
		cf.Add(strings.ReplaceAll(o.term, "@ID@", fmt.Sprint(k)))
		meta.Case(k, o.cd)
		meta.Evaluations++
		for c, n := range o.classes {
			meta.Dist[c] += n
		}
		for _, s := range o.cd.Shapes {
			shapeCount[s]++
		}
		meta.Dist["history-shape:"+o.cd.Shape]++
		if o.nontrivial && !seen[o.sig] {
			seen[o.sig] = true
			meta.Nontrivial++
		}
	}
	for s, n := range shapeCount {
		meta.Notes = append(meta.Notes, fmt.Sprintf("shape %s: %d histories", s, n))
	}
	sort.Strings(meta.Notes)
	cf.Flush()
	meta.Write(f.Out)
}

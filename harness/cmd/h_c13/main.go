// h_c13: correspondence harness for C13 (tsdb/wlog: WL.Log, Reader, LiveReader).
// Each case is one real write-ahead log in a scratch directory: records are written through
// wlog.NewSize(...).Log in batches, the segment files are read back byte for byte, the real
// wlog.Reader reads the directory, and one real wlog.LiveReader per segment is fed the bytes of
// that segment in pieces (at the real flush boundaries, inside headers, around page ends, at
// random points, byte by byte for small logs).  Everything is written as Gallina terms.
package main

import (
	"bytes"
	"encoding/binary"
	"errors"
	"fmt"
	"hash/crc32"
	"io"
	"os"
	"path/filepath"
	"sort"
	"strconv"
	"strings"
	"time"

	"github.com/prometheus/common/promslog"

	"github.com/prometheus/prometheus/tsdb/wlog"
	"github.com/prometheus/prometheus/util/compression"

	"verif/harness/internal/gallina"
	"verif/harness/internal/gen"
)

const (
	P   = 32 * 1024 // wlog.pageSize (a constant of the package)
	hdr = 7
)

var castagnoli = crc32.MakeTable(crc32.Castagnoli)

// ---------------------------------------------------------------- compact byte strings

// 16-bit Galois LFSR, taps 0xB400 (the same generator as CorrC13.lfsr)
func xs(x uint16) uint16 {
	l := x & 1
	x >>= 1
	if l == 1 {
		x ^= 0xB400
	}
	return x
}

func prngBytes(x uint16, n int) []byte {
	b := make([]byte, 0, n+1)
	for len(b) < n {
		b = append(b, byte(x>>8), byte(x))
		x = xs(x)
	}
	return b[:n]
}

// compact prints b as a Gallina `list chunk`.
func compact(b []byte) string {
	var items []string
	var lit []byte
	flush := func() {
		if len(lit) > 0 {
			it := make([]string, len(lit))
			for i, v := range lit {
				it[i] = strconv.Itoa(int(v))
			}
			items = append(items, "CLit ["+strings.Join(it, ";")+"]%N")
			lit = nil
		}
	}
	for i := 0; i < len(b); {
		r := 1
		for i+r < len(b) && b[i+r] == b[i] {
			r++
		}
		if r >= 12 {
			flush()
			items = append(items, fmt.Sprintf("CRun %d%%N %d", b[i], r))
			i += r
			continue
		}
		if i+1 < len(b) {
			x := uint16(b[i])<<8 | uint16(b[i+1])
			if x != 0 {
				m := 0
				y := x
				for i+m < len(b) {
					if b[i+m] != byte(y>>8) {
						break
					}
					m++
					if i+m >= len(b) || b[i+m] != byte(y) {
						break
					}
					m++
					y = xs(y)
				}
				if m >= 40 {
					flush()
					items = append(items, fmt.Sprintf("CPrng %d%%N %d", x, m))
					i += m
					continue
				}
			}
		}
		lit = append(lit, b[i])
		i++
	}
	flush()
	return gallina.List(items)
}

// ---------------------------------------------------------------- parsing real segment files

type frag struct {
	off, typ, flag, length int
}

// parseSeg walks a segment file the way the format prescribes; ok=false when it does not parse.
func parseSeg(b []byte) (fr []frag, pads int, ok bool) {
	off := 0
	for off < len(b) {
		if b[off] == 0 {
			end := (off/P + 1) * P
			if end > len(b) {
				end = len(b)
			}
			for _, c := range b[off:end] {
				if c != 0 {
					return fr, pads, false
				}
			}
			pads++
			off = end
			continue
		}
		if off+hdr > len(b) {
			return fr, pads, false
		}
		l := int(binary.BigEndian.Uint16(b[off+1:]))
		if off+hdr+l > len(b) {
			return fr, pads, false
		}
		fr = append(fr, frag{off, int(b[off] & 7), int(b[off] >> 3), l})
		off += hdr + l
	}
	return fr, pads, true
}

// ---------------------------------------------------------------- live reader plumbing

type feeder struct {
	data       []byte
	pos, avail int
}

func (f *feeder) Read(p []byte) (int, error) {
	n := copy(p, f.data[f.pos:f.avail])
	f.pos += n
	if n == 0 {
		return 0, io.EOF
	}
	return n, nil
}

func readerCode(err error) int {
	if err == nil {
		return 0
	}
	s := err.Error()
	switch {
	case strings.Contains(s, "last record is torn"):
		return 1
	case errors.Is(err, io.ErrUnexpectedEOF):
		return 2
	case strings.Contains(s, "non-zero byte in padded page"):
		return 3
	case strings.Contains(s, "invalid record size"):
		return 4
	case strings.Contains(s, "unexpected checksum"):
		return 5
	case strings.Contains(s, "unexpected full record"), strings.Contains(s, "unexpected first record"),
		strings.Contains(s, "unexpected middle record"), strings.Contains(s, "unexpected last record"),
		strings.Contains(s, "unexpected record type"):
		return 6
	}
	return 7
}

func liveCode(err error) int {
	if err == nil {
		return 8 // Next()=false with Err()=nil: the feeder never produces that
	}
	if errors.Is(err, io.EOF) {
		return 0
	}
	s := err.Error()
	switch {
	case strings.Contains(s, "non-zero byte in page term"):
		return 1
	case strings.Contains(s, "record length greater than a single page"):
		return 2
	case strings.Contains(s, "unexpected checksum"):
		return 3
	case strings.Contains(s, "unexpected full record"), strings.Contains(s, "unexpected first record"),
		strings.Contains(s, "unexpected middle record"), strings.Contains(s, "unexpected last record"),
		strings.Contains(s, "unexpected record type"):
		return 4
	}
	return 5
}

// ---------------------------------------------------------------- one case

type caseSpec struct {
	compr  compression.Type
	pps    int
	close  bool
	cutMod int
	// either fixed lengths (corpus) or generated from the writer's position
	fixed   [][]int
	isFixed bool
	hiFill  bool  // first record: 0xFF payload (or incompressible bytes with 0xFF at the indices in stale)
	stale   []int // payload indices of the first record forced to 0xFF
	small   bool // only small records: no page is ever filled
	corpus  string
}

type desc struct {
	Compr   string  `json:"compr"`
	PPS     int     `json:"pps"`
	Close   bool    `json:"close"`
	Batches [][]int `json:"batch_record_lengths"`
	Cuts    string  `json:"cuts"`
	NSeg    int     `json:"segments"`
	Shape   string  `json:"shape"`
	Corpus  string  `json:"corpus,omitempty"`
	Seed    uint64  `json:"seed"`
	Index   int     `json:"index"`
	Stale   int     `json:"stale_high_header_cuts"`
}

func comprN(c compression.Type) int {
	switch c {
	case compression.Snappy:
		return 1
	case compression.Zstd:
		return 2
	}
	return 0
}

func genRecord(r *gen.Rand, n int, c compression.Type, exact bool) []byte {
	if n <= 0 {
		return []byte{}
	}
	if n <= 48 && r.Chance(1, 2) {
		b := make([]byte, n)
		for i := range b {
			b[i] = byte(r.Intn(256))
		}
		return b
	}
	// when the stored length must be exactly n under compression, the content must not compress
	if c != compression.None && exact {
		return prngBytes(uint16(1+r.Intn(65535)), n)
	}
	switch r.Intn(6) {
	case 0:
		return prngBytes(uint16(1+r.Intn(65535)), n)
	case 1: // run + literal + run
		b := bytes.Repeat([]byte{byte(r.Intn(256))}, n)
		k := r.Intn(n)
		for i := k; i < n && i < k+8; i++ {
			b[i] = byte(r.Intn(256))
		}
		return b
	case 2:
		return make([]byte, n) // all zero bytes: looks like page padding
	default:
		if r.Chance(2, 3) { // high bytes: what a LiveReader's page buffer keeps from the previous page
			return bytes.Repeat([]byte{byte(0x80 + r.Intn(128))}, n)
		}
		return bytes.Repeat([]byte{byte(1 + r.Intn(255))}, n)
	}
}

var cutNames = []string{"flush", "random", "headers", "pages", "bytewise", "whole", "hdr-prefix"}

func main() {
	f := gallina.ParseFlags()
	meta := gallina.NewMeta("C13", f.Seed, f.Tier)
	meta.Rule = "one case = one real WAL directory written by wlog.WL.Log and read by wlog.Reader and wlog.LiveReader; fixed corpus of boundary layouts first, then logs generated from the writer's own position (LastSegmentAndOffset): record lengths aimed at page remainder -8..+2, segment remainder -1..+1, k pages -1..+1, larger than a segment, plus small/medium records, x compression {none,snappy,zstd} x pagesPerSegment {1,2,3,4} x close/no close x 7 release patterns for the live reader (incl. 1..6 bytes into every fragment header, with previous-page payloads of 0xFF / high bytes); non-trivial = the log has a record split into fragments, a zero-padded page or more than one segment; distinct by (compression, pps, batch record lengths, cut pattern)"
	cf := &gallina.CaseFile{Dir: f.Out, Type: "case", PerShard: 8,
		Preamble: "From Coq Require Import List ZArith NArith.\nFrom Verif Require Import model.Wal corr.CorrC13.\nImport ListNotations.\nOpen Scope Z_scope.\n",
		Footer:   gallina.StdFooter}
	if f.Tier == "thorough" {
		cf.PerShard = 40
	}
	scratch, err := os.MkdirTemp(f.Out, "wal")
	if err != nil {
		panic(err)
	}
	defer os.RemoveAll(scratch)

	id := 0
	seen := map[string]bool{}
	budget := 70 * 1024
	if f.Tier == "thorough" {
		budget = 200 * 1024
	}

	runCase := func(idx int, cs caseSpec) {
		// watchdog: a writer, Reader or LiveReader that loops forever is a finding, not a stuck run
		wd := time.AfterFunc(2*time.Minute, func() {
			meta.GoViol = append(meta.GoViol, gallina.GoViolation{ID: fmt.Sprintf("hang-%d", idx), Shape: "hang",
				What: fmt.Sprintf("case index %d (compr=%s pps=%d corpus=%q seed=%d) did not finish within 2 minutes: WL.Log, Reader.Next or LiveReader.Next does not terminate", idx, cs.compr, cs.pps, cs.corpus, f.Seed)})
			cf.Flush()
			meta.Write(f.Out)
			os.RemoveAll(scratch)
			os.Exit(0)
		})
		defer wd.Stop()
		r := gen.Fork(f.Seed, idx)
		dir := filepath.Join(scratch, fmt.Sprintf("c%d", idx))
		w, err := wlog.NewSize(nil, nil, dir, cs.pps*P, cs.compr)
		if err != nil {
			panic(err)
		}
		var recs [][]byte
		var batchLens [][]int
		var batchesG []string
		var sizes []string
		type sz struct{ seg, size int }
		var szs []sz
		total := 0
		logBatch := func(b [][]byte) {
			if err := w.Log(b...); err != nil {
				panic(err)
			}
			_, last, err := wlog.Segments(dir)
			if err != nil {
				panic(err)
			}
			st, err := os.Stat(wlog.SegmentName(dir, last))
			if err != nil {
				panic(err)
			}
			szs = append(szs, sz{last, int(st.Size())})
			sizes = append(sizes, gallina.Pair(gallina.Z(int64(last)), gallina.Z(st.Size())))
			var lens []int
			var it []string
			for _, rec := range b {
				recs = append(recs, rec)
				lens = append(lens, len(rec))
				it = append(it, compact(rec))
				total += len(rec)
			}
			batchLens = append(batchLens, lens)
			batchesG = append(batchesG, gallina.List(it))
		}
		if cs.isFixed {
			for bi, bl := range cs.fixed {
				var b [][]byte
				for ri, n := range bl {
					rec := genRecord(r, n, cs.compr, true)
					if cs.hiFill && bi == 0 && ri == 0 {
						// the page buffer of a LiveReader keeps these bytes when it moves to the next page
						if cs.compr == compression.None {
							rec = bytes.Repeat([]byte{0xFF}, n)
						} else {
							rec = prngBytes(0xACE1, n)
							for _, j := range cs.stale {
								if j >= 0 && j < n {
									rec[j] = 0xFF
								}
							}
						}
					}
					b = append(b, rec)
				}
				logBatch(b)
			}
		} else {
			nsteps := 1 + r.Intn(6)
			small := cs.small
			for s := 0; s < nsteps; s++ {
				_, off, err := w.LastSegmentAndOffset()
				if err != nil {
					panic(err)
				}
				alloc, done := off%P, off/P
				rem := P - alloc - hdr
				left := rem + (P-hdr)*(cs.pps-done-1)
				n := 0
				exact := true
				t := r.Intn(10)
				if s == 0 && r.Chance(1, 2) {
					t = 1
				}
				if small {
					t = 6 + r.Intn(4)
				}
				switch t {
				case 0, 1, 2:
					n = rem + int(r.Range(-30, 2))
					if r.Chance(1, 2) {
						n = rem + int(r.Range(-8, 2))
					}
				case 3:
					n = left + int(r.Range(-1, 1))
				case 4:
					n = rem + (1+r.Intn(2))*(P-hdr) + int(r.Range(-1, 1))
				case 5:
					if cs.pps <= 2 {
						n = cs.pps*(P-hdr) + int(r.Range(1, 100))
					} else {
						n = int(r.Range(100, 3000))
						exact = false
					}
				case 6:
					n = int(r.Range(100, 3000))
					exact = false
				default:
					n = int(r.Range(0, 40))
					exact = false
				}
				if n < 0 {
					n = 0
				}
				if total+n > budget || (small && total+n > 1500) {
					n = int(r.Range(0, 40))
				}
				b := [][]byte{genRecord(r, n, cs.compr, exact)}
				for k := r.Intn(4); k > 0; k-- { // more records in the same Log call
					m := int(r.Range(0, 24))
					if r.Chance(1, 8) && total+n+4000 < budget && !small {
						m = int(r.Range(100, 4000))
					}
					b = append(b, genRecord(r, m, cs.compr, false))
				}
				logBatch(b)
			}
		}
		if cs.close {
			if err := w.Close(); err != nil {
				panic(err)
			}
		}
		key := fmt.Sprint(cs.compr, cs.pps, cs.close, batchLens, cs.cutMod)
		if seen[key] {
			if !cs.close {
				w.Close()
			}
			os.RemoveAll(dir)
			return
		}
		seen[key] = true

		// the real files
		first, last, err := wlog.Segments(dir)
		if err != nil {
			panic(err)
		}
		var files [][]byte
		if first != 0 {
			panic("first segment is not 0")
		}
		for i := first; i <= last; i++ {
			b, err := os.ReadFile(wlog.SegmentName(dir, i))
			if err != nil {
				panic(err)
			}
			files = append(files, b)
		}

		// the real Reader over the directory
		mapRec := func(next *int, got []byte) string {
			j := *next
			*next = j + 1
			if j < len(recs) && bytes.Equal(got, recs[j]) {
				return "Idx " + strconv.Itoa(j)
			}
			return "Raw " + compact(got)
		}
		sr, err := wlog.NewSegmentsReader(dir)
		if err != nil {
			panic(err)
		}
		rd := wlog.NewReader(sr)
		var readG []string
		nx := 0
		for rd.Next() {
			readG = append(readG, mapRec(&nx, rd.Record()))
		}
		rcode := readerCode(rd.Err())
		sr.Close()

		// oracle tables
		crcSeen := map[string]bool{}
		var crcG []string
		addCrc := func(seg, off int, part []byte) {
			if crcSeen[string(part)] {
				return
			}
			crcSeen[string(part)] = true
			crcG = append(crcG, fmt.Sprintf("(KFile %d %d %d, %d%%N)", seg, off, len(part), crc32.Checksum(part, castagnoli)))
		}
		nfrag, nsplit, npad, nzero := 0, 0, 0, 0
		var fragOffs [][]int
		for si, b := range files {
			fr, pads, _ := parseSeg(b)
			npad += pads
			var offs []int
			for _, x := range fr {
				addCrc(si, x.off+hdr, b[x.off+hdr:x.off+hdr+x.length])
				nfrag++
				if x.typ != 1 {
					nsplit++
				}
				if x.typ == 2 && x.length == 0 {
					nzero++
				}
				offs = append(offs, x.off)
			}
			fragOffs = append(fragOffs, offs)
		}
		var encG []string
		if cs.compr != compression.None {
			encSeen := map[string]bool{}
			eb := compression.NewSyncEncodeBuffer()
			for ri, rec := range recs {
				if len(rec) == 0 || encSeen[string(rec)] {
					continue
				}
				encSeen[string(rec)] = true
				e, err := compression.Encode(cs.compr, rec, eb)
				if err != nil {
					panic(err)
				}
				e = append([]byte{}, e...)
				encG = append(encG, fmt.Sprintf("(%d, (%d, %s))", ri, len(e), compact(e)))
			}
		}

		// live readers: one per segment, fed in pieces
		var cutsG, liveG []string
		nxl := 0
		nstale := 0
		for si, b := range files {
			pts := map[int]bool{}
			switch cs.cutMod {
			case 0: // the real flush boundaries (file size after each Log call)
				for _, s := range szs {
					if s.seg == si {
						pts[s.size] = true
					}
				}
			case 1:
				for k := r.Intn(12); k > 0; k-- {
					pts[r.Intn(len(b)+1)] = true
				}
			case 2: // inside and just after fragment headers
				offs := fragOffs[si]
				for k := 0; k < 24 && len(offs) > 0; k++ {
					o := offs[r.Intn(len(offs))]
					pts[o+int(r.Range(0, 8))] = true
				}
			case 3: // around page ends
				for p := P; p <= len(b)+P; p += P {
					for k := 0; k < 3; k++ {
						pts[p+int(r.Range(-9, 2))] = true
					}
				}
			case 4: // byte by byte (small files), else in 2..9 byte steps over the first 200 bytes and the tail
				if len(b) <= 400 {
					for p := 1; p < len(b); p++ {
						pts[p] = true
					}
				} else {
					for p := 1; p < 150; p += 1 + r.Intn(6) {
						pts[p] = true
					}
					for p := len(b) - 100; p < len(b); p += 1 + r.Intn(6) {
						pts[p] = true
					}
				}
			case 6: // 1 byte (sometimes 2..6 bytes) into every fragment header: the reader must wait for the rest
				offs := fragOffs[si]
				step := 1
				if len(offs) > 40 {
					step = len(offs)/40 + 1
				}
				for k := 0; k < len(offs); k += step {
					pts[offs[k]+1] = true
					if r.Chance(1, 2) {
						pts[offs[k]+int(r.Range(2, 6))] = true
					}
				}
			}
			for p := range pts {
				// a release ending 1 byte into a header that is not at a page start, in a page whose
				// predecessor left a byte >= 0x80 where the length field will be
				for _, o := range fragOffs[si] {
					if p == o+1 && o%P != 0 && o >= P && b[o+1-P] >= 0x80 {
						meta.Hit("stale-high-header-cut")
						nstale++
					}
				}
			}
			var ps []int
			for p := range pts {
				if p > 0 && p < len(b) {
					ps = append(ps, p)
				}
			}
			sort.Ints(ps)
			if len(b) > 0 {
				ps = append(ps, len(b))
			}
			fd := &feeder{data: b}
			lr := wlog.NewLiveReader(promslog.NewNopLogger(), wlog.NewLiveReaderMetrics(nil), fd)
			var cuts []int64
			var outs []string
			code := 0
			prev := 0
			for _, p := range ps {
				cuts = append(cuts, int64(p-prev))
				prev = p
				fd.avail = p
				var got []string
				for lr.Next() {
					got = append(got, mapRec(&nxl, lr.Record()))
				}
				outs = append(outs, gallina.List(got))
				code = liveCode(lr.Err())
				if code != 0 {
					break
				}
			}
			cutsG = append(cutsG, gallina.ListZ(cuts))
			liveG = append(liveG, gallina.Pair(gallina.List(outs), gallina.Z(int64(code))))
		}
		if !cs.close {
			w.Close()
		}
		os.RemoveAll(dir)

		var filesG []string
		for _, b := range files {
			filesG = append(filesG, compact(b))
		}
		cf.Add(fmt.Sprintf("mkCase %s %d%%N %d %s\n %s\n %s\n %s\n %s\n %s\n (%s, %d)\n %s\n %s",
			gallina.Z(int64(id)), comprN(cs.compr), cs.pps, gallina.Bool(cs.close),
			gallina.List(batchesG), gallina.List(crcG), gallina.List(encG), gallina.List(sizes),
			gallina.List(filesG), gallina.List(readG), rcode, gallina.List(cutsG), gallina.List(liveG)))

		shape := "plain"
		switch {
		case len(files) > 1 && nsplit > 0:
			shape = "multi-segment+split"
		case len(files) > 1:
			shape = "multi-segment"
		case nsplit > 0:
			shape = "split"
		case npad > 0:
			shape = "padded"
		}
		meta.Hit("shape:" + shape)
		meta.Hit("compr:" + cs.compr)
		meta.Hit("cuts:" + cutNames[cs.cutMod])
		meta.Hit(fmt.Sprintf("pps:%d", cs.pps))
		if nzero > 0 {
			meta.Hit("zero-length-first-fragment")
		}
		for _, b := range files {
			if len(b) > cs.pps*P {
				meta.Hit("segment-larger-than-segment-size")
				break
			}
		}
		if len(recs) == 0 {
			meta.Hit("no-records")
		}
		if shape != "plain" {
			meta.Nontrivial++
		}
		meta.Case(id, desc{Compr: cs.compr, PPS: cs.pps, Close: cs.close, Batches: batchLens, Cuts: cutNames[cs.cutMod],
			NSeg: len(files), Shape: shape, Corpus: cs.corpus, Seed: f.Seed, Index: idx, Stale: nstale})
		meta.Evaluations++
		id++
	}

	// ---- corpus of boundary layouts (lengths are stored lengths; content does not compress)
	F := P - hdr // payload of a fragment filling an empty page
	idx := 0
	corpus := []struct {
		name string
		pps  int
		b    [][]int
	}{
		{"no-records", 2, nil},
		{"one-empty-record", 2, [][]int{{0}}},
		{"empty-records-batch", 2, [][]int{{0, 0, 0}, {0}}},
		{"exact-page", 2, [][]int{{F}}},
		{"exact-page+1", 2, [][]int{{F + 1}}},
		{"exact-page-1", 2, [][]int{{F - 1}, {3}}},
		{"leave-7:zero-length-first", 2, [][]int{{F - 7 - hdr}, {5}}},
		{"leave-7:empty-record-full", 2, [][]int{{F - 7 - hdr}, {0}, {1}}},
		{"leave-8", 2, [][]int{{F - 8 - hdr}, {5}}},
		{"leave-6:padded", 2, [][]int{{F - 6 - hdr}, {5}}},
		{"leave-1:padded", 2, [][]int{{F - 1 - hdr}, {0, 2}}},
		{"two-pages-exact", 3, [][]int{{2 * F}}},
		{"two-pages+1", 3, [][]int{{2*F + 1}, {4}}},
		{"segment-exact-then-empty", 1, [][]int{{F}, {0}, {2}}},
		{"segment-exact-then-one", 1, [][]int{{F}, {1}}},
		{"larger-than-segment", 1, [][]int{{3}, {F + 10}, {4}}},
		{"larger-than-segment-first", 1, [][]int{{2*F + 3}, {4}}},
		{"segment-remainder", 2, [][]int{{100}, {2*F - 100 - hdr}, {1}}},
		{"segment-remainder+1", 2, [][]int{{100}, {2*F - 100 - hdr + 1}, {1}}},
		{"batch-unflushed-crossing", 2, [][]int{{F - 40, 10, 10, 10, 10}, {5}}},
	}
	for li, c := range corpus {
		for ci, ct := range compression.Types() {
			if f.Tier != "thorough" && (li+int(f.Seed))%3 != ci {
				idx++
				continue
			}
			runCase(idx, caseSpec{compr: ct, pps: c.pps, close: ci == 1, cutMod: (idx + ci) % 5, fixed: c.b, isFixed: true, corpus: c.name})
			idx++
		}
	}
	// stale page-buffer content: page 0 of the segment is full of 0xFF (or of incompressible bytes with
	// 0xFF where later length fields will sit); the LiveReader is then shown 1..6 bytes of every
	// header of page 1 and must answer "not yet" rather than parse left-over bytes
	staleAt := func(hdrOffs ...int) []int { // page offsets of headers -> payload indices of the filler
		var js []int
		for _, o := range hdrOffs {
			js = append(js, o+1-hdr, o+2-hdr)
		}
		return js
	}
	for _, ct := range compression.Types() {
		// page 1: headers at 0, 12, 28, 35, 62
		runCase(idx, caseSpec{compr: ct, pps: 3, cutMod: 6, fixed: [][]int{{F}, {5}, {9}, {0}, {20, 3}}, isFixed: true,
			hiFill: true, stale: staleAt(12, 28, 35, 62), corpus: "stale-buffer:exact-page"})
		idx++
		// the filler spills 100 bytes into page 1: headers at 0 (last fragment), 107, 121, 128
		runCase(idx, caseSpec{compr: ct, pps: 2, close: true, cutMod: 6, fixed: [][]int{{F + 100}, {7}, {0}, {30}}, isFixed: true,
			hiFill: true, stale: staleAt(107, 121, 128), corpus: "stale-buffer:spill"})
		idx++
	}
	// a small log read byte by byte
	runCase(idx, caseSpec{compr: compression.Snappy, pps: 1, close: false, cutMod: 4, fixed: [][]int{{3, 0, 20}, {60}, {1}}, isFixed: true, corpus: "bytewise-small"})
	idx++

	// ---- generated logs
	n := f.Count(34, 450)
	for i := 0; i < n; i++ {
		r := gen.Fork(f.Seed, 1000000+i)
		cs := caseSpec{
			compr:  compression.Types()[r.Intn(3)],
			pps:    1 + r.Intn(4),
			close:  r.Chance(1, 3),
			cutMod: r.Intn(7),
			small:  r.Chance(1, 3),
		}
		if r.Chance(1, 5) {
			cs.cutMod = 6
		}
		if r.Chance(1, 8) { // occasionally a larger log
			budget, cs.small = 150*1024, false
		} else if f.Tier != "thorough" {
			budget = 70 * 1024
		}
		runCase(idx, cs)
		idx++
	}
	cf.Flush()
	meta.Write(f.Out)
}

// h_c34: correspondence harness for C34 (limit_ratio partition / monotonicity / labels-only).
//
// Drives the real code of /repo/promql:
//   - HashRatioSampler.AddRatioSampleWithOffset on (ratio, offset) pairs chosen at and around
//     the selection boundaries r and fl(1+fl(r-1))            -> CPair cases
//   - HashRatioSampler.SampleOffset on real label sets (labels.Hash tabulated) -> CHash cases
//   - the PromQL engine (NewInstantQuery / NewRangeQuery on a real TSDB from teststorage) with
//     limit_ratio(r, v), limit_ratio(r-1, v), limit_ratio(r2, v) and variants of the first
//     query (other sample values, by-grouping, sub-vector, range steps)   -> CQuery cases
//
// Floats are written as bit patterns; Coq recomputes everything with primitive floats.
package main

import (
	"context"
	"fmt"
	"math"
	"os"
	"sort"
	"strconv"
	"strings"
	"time"

	"github.com/prometheus/prometheus/model/labels"
	"github.com/prometheus/prometheus/promql"
	"github.com/prometheus/prometheus/promql/parser"
	"github.com/prometheus/prometheus/util/teststorage"

	"verif/harness/internal/gallina"
	"verif/harness/internal/gen"
)

var sampler = promql.NewHashRatioSampler()

func in01(x float64) bool { return x >= 0 && x <= 1 }

//go:noinline
func sub1(r float64) float64 { return r - 1.0 }

//go:noinline
func add1(c float64) float64 { return 1.0 + c }

// boundary the complementary selection really uses
func c1of(r float64) float64 { return add1(sub1(r)) }

func inGap(r, off float64) bool {
	c1 := c1of(r)
	return c1 != r && math.Min(r, c1) <= off && off < math.Max(r, c1)
}

func fb(f float64) string { return strconv.FormatUint(math.Float64bits(f), 10) }

func zi(v int) string { return strconv.Itoa(v) }

func fstr(f float64) string { return strconv.FormatFloat(f, 'g', -1, 64) }

type pairDesc struct {
	Kind   string  `json:"kind"`
	R      string  `json:"r"`
	Off    string  `json:"off"`
	C      string  `json:"c"`
	R2     string  `json:"r2"`
	Sel    [3]bool `json:"sel_r_c_r2"`
	Shape  string  `json:"shape"`
	Corpus string  `json:"corpus,omitempty"`
}

// Go-side mirror of holds for a pair, only used to name the shape of a failure.
func pairShape(r, off, r2 float64, sr, sc, sr2 bool) string {
	if !(in01(r) && in01(off)) {
		return "out-of-domain"
	}
	if sr == sc {
		switch {
		case inGap(r, off):
			return "complement-rounding"
		case r == 1 && off == 1:
			return "offset-one"
		default:
			return "partition-other"
		}
	}
	if in01(r2) && r <= r2 && sr && !sr2 {
		return "monotone"
	}
	return "ok"
}

func ulps(x float64, k int) float64 {
	for ; k > 0; k-- {
		x = math.Nextafter(x, math.Inf(1))
	}
	for ; k < 0; k++ {
		x = math.Nextafter(x, math.Inf(-1))
	}
	return x
}

func clamp01(x float64) float64 {
	if x < 0 {
		return 0
	}
	if x > 1 {
		return 1
	}
	return x
}

// a ratio in [0,1] of a random kind
func genRatio(r *gen.Rand) (float64, string) {
	switch r.Intn(9) {
	case 0: // dyadic: complement exact when the exponent range is small
		j := r.Intn(12) + 1
		return float64(r.Intn(1<<j+1)) / float64(int(1)<<j), "dyadic"
	case 1: // decimal literals as users write them
		j := []int{10, 100, 1000, 10000}[r.Intn(4)]
		return float64(r.Intn(j+1)) / float64(j), "decimal"
	case 2:
		return r.Float(), "uniform"
	case 3: // offset-like: hash / 2^64
		return float64(r.U64()) / float64(math.MaxUint64), "offset-like"
	case 4: // tiny
		return math.Ldexp(1+r.Float(), -(r.Intn(1070) + 1)), "tiny"
	case 5: // subnormal / smallest
		return math.Float64frombits(uint64(r.Intn(4096))), "subnormal"
	case 6: // just below 1
		return ulps(1, -r.Intn(6)), "near-one"
	case 7: // >= 0.5: complement exact (Sterbenz)
		return 0.5 + r.Float()/2, "upper-half"
	default:
		return []float64{0, 1, 0.5, 0.25, 0.75, math.Copysign(0, -1), 0.1, 0.2, 0.3, 0.7, 0.9}[r.Intn(11)], "fixed"
	}
}

func genOffset(g *gen.Rand, r float64) float64 {
	c1 := c1of(r)
	switch g.Intn(12) {
	case 0:
		return r
	case 1:
		return clamp01(ulps(r, g.Intn(7)-3))
	case 2:
		return clamp01(c1)
	case 3:
		return clamp01(ulps(c1, g.Intn(7)-3))
	case 4: // inside the gap if there is one
		lo, hi := math.Min(r, c1), math.Max(r, c1)
		return clamp01(lo + (hi-lo)*g.Float())
	case 5:
		return []float64{0, 1, ulps(1, -1), math.SmallestNonzeroFloat64, 0.5}[g.Intn(5)]
	case 6: // offset-like
		return float64(g.U64()) / float64(math.MaxUint64)
	case 7: // offset-like neighbour of r: same 2^-64 grid
		return clamp01(math.Floor(r*0x1p64)/0x1p64 + float64(g.Intn(5)-2)*0x1p-64)
	case 8:
		return clamp01(r * g.Float())
	case 9:
		return clamp01(r + (1-r)*g.Float())
	default:
		return g.Float()
	}
}

func genR2(g *gen.Rand, r, off float64) float64 {
	switch g.Intn(8) {
	case 0:
		return r
	case 1:
		return clamp01(ulps(r, 1))
	case 2:
		return clamp01(r + (1-r)*g.Float())
	case 3:
		return 1
	case 4:
		return clamp01(ulps(off, g.Intn(3)))
	case 5:
		return clamp01(ulps(r, -1))
	case 6:
		x, _ := genRatio(g)
		return x
	default:
		return g.Float()
	}
}

// ---------------------------------------------------------------- query machinery

type env struct {
	st  *teststorage.TestStorage
	ng  *promql.Engine
	ctx context.Context
}

type qres struct {
	err bool
	ids []int64
}

func zlist(vs []int64) string {
	it := make([]string, len(vs))
	for i, v := range vs {
		it[i] = strconv.FormatInt(v, 10)
	}
	return gallina.List(it)
}

func (q qres) gallina() string {
	if q.err {
		return "QErr"
	}
	return "(QSel " + zlist(q.ids) + ")"
}

func (e *env) instant(qs string, ts time.Time, idOf map[string]int64) (qres, string) {
	q, err := e.ng.NewInstantQuery(e.ctx, e.st, nil, qs, ts)
	if err != nil {
		return qres{err: true}, err.Error()
	}
	defer q.Close()
	res := q.Exec(e.ctx)
	if res.Err != nil {
		return qres{err: true}, res.Err.Error()
	}
	vec, err := res.Vector()
	if err != nil {
		return qres{err: true}, err.Error()
	}
	var ids []int64
	seen := map[int64]bool{}
	for _, s := range vec {
		id, ok := idOf[s.Metric.String()]
		if !ok || seen[id] {
			return qres{err: true}, "unknown or duplicate series in result: " + s.Metric.String()
		}
		seen[id] = true
		ids = append(ids, id)
	}
	sort.Slice(ids, func(i, j int) bool { return ids[i] < ids[j] })
	return qres{ids: ids}, ""
}

// rangeSteps runs a 2-step range query and returns the selection at each step.
func (e *env) rangeSteps(qs string, t0, t1 time.Time, idOf map[string]int64) ([2]qres, string) {
	var out [2]qres
	q, err := e.ng.NewRangeQuery(e.ctx, e.st, nil, qs, t0, t1, t1.Sub(t0))
	if err != nil {
		return [2]qres{{err: true}, {err: true}}, err.Error()
	}
	defer q.Close()
	res := q.Exec(e.ctx)
	if res.Err != nil {
		return [2]qres{{err: true}, {err: true}}, res.Err.Error()
	}
	mat, err := res.Matrix()
	if err != nil {
		return [2]qres{{err: true}, {err: true}}, err.Error()
	}
	for _, s := range mat {
		id, ok := idOf[s.Metric.String()]
		if !ok {
			return [2]qres{{err: true}, {err: true}}, "unknown series in result: " + s.Metric.String()
		}
		for _, p := range s.Floats {
			switch p.T {
			case t0.UnixMilli():
				out[0].ids = append(out[0].ids, id)
			case t1.UnixMilli():
				out[1].ids = append(out[1].ids, id)
			default:
				return [2]qres{{err: true}, {err: true}}, "unexpected step"
			}
		}
	}
	for k := range out {
		ids := out[k].ids
		sort.Slice(ids, func(i, j int) bool { return ids[i] < ids[j] })
	}
	return out, ""
}

type queryDesc struct {
	Kind    string   `json:"kind"`
	Metric  string   `json:"metric"`
	R       string   `json:"r"`
	C       string   `json:"c"`
	R2      string   `json:"r2"`
	Series  []string `json:"series"`
	Offsets []string `json:"offsets"`
	SelR    []int64  `json:"sel_r"`
	SelC    []int64  `json:"sel_c"`
	Errs    []string `json:"errs,omitempty"`
	Shape   string   `json:"shape"`
	Corpus  string   `json:"corpus,omitempty"`
}

func member(ids []int64, x int64) bool {
	for _, v := range ids {
		if v == x {
			return true
		}
	}
	return false
}

func subsetOf(a, b []int64) bool {
	for _, x := range a {
		if !member(b, x) {
			return false
		}
	}
	return true
}

func sameIDs(a, b []int64) bool {
	if len(a) != len(b) {
		return false
	}
	for i := range a {
		if a[i] != b[i] {
			return false
		}
	}
	return true
}

func main() {
	f := gallina.ParseFlags()
	meta := gallina.NewMeta("C34", f.Seed, f.Tier)
	meta.Rule = "corpus (finding reproducers first) + seeded pairs (r, offset, r2) with r of 9 kinds (dyadic, decimal, uniform, hash/2^64, tiny, subnormal, near 1, upper half, fixed) and the offset at/around r and fl(1+fl(r-1)) (+-3 ulp, inside the gap, 2^-64 grid neighbours, 0, 1) + out-of-domain pairs (negative, >1, NaN, Inf: correspondence only) + real label sets (Hash/SampleOffset) + limit_ratio queries through the engine on generated vectors with r at/next to a real series offset + range queries with a step-varying ratio (scalar(series) or time() arithmetic; profiles: touching 1, touching 0, all zero, exact, generic, at-offset, mixed sign, beyond +-1, NaN step) checked per step; non-trivial = pair whose offset is within 4 ulp of r or of fl(1+fl(r-1)) or inside the gap, or query / range query in which (at some step) both the selected and the unselected set are non-empty; distinct by (r, off, r2) bit patterns resp. by query case"
	cf := &gallina.CaseFile{Dir: f.Out, Type: "case", PerShard: 450,
		Preamble: "From Coq Require Import List ZArith Bool.\nFrom Verif Require Import model.LimitRatio corr.CorrC34.\nImport ListNotations.\nOpen Scope Z_scope.\n",
		Footer:   gallina.StdFooter}
	id := 0
	seenPair := map[[3]uint64]bool{}

	emitPair := func(kind string, r, off, r2 float64, corpus string) {
		key := [3]uint64{math.Float64bits(r), math.Float64bits(off), math.Float64bits(r2)}
		if seenPair[key] {
			return
		}
		seenPair[key] = true
		c := sub1(r)
		sr := sampler.AddRatioSampleWithOffset(r, off)
		sc := sampler.AddRatioSampleWithOffset(c, off)
		sr2 := sampler.AddRatioSampleWithOffset(r2, off)
		shape := pairShape(r, off, r2, sr, sc, sr2)
		cf.Add(fmt.Sprintf("CPair %s %s %s %s %s %s %s %s", zi(id), fb(r), fb(off), fb(c), fb(r2),
			gallina.Bool(sr), gallina.Bool(sc), gallina.Bool(sr2)))
		meta.Case(id, pairDesc{Kind: "pair/" + kind, R: fstr(r), Off: fstr(off), C: fstr(c), R2: fstr(r2), Sel: [3]bool{sr, sc, sr2}, Shape: shape, Corpus: corpus})
		meta.Evaluations++
		meta.Hit("pair/" + kind)
		if in01(r) && in01(off) {
			c1 := c1of(r)
			near := inGap(r, off)
			for k := -4; k <= 4 && !near; k++ {
				if ulps(r, k) == off || ulps(c1, k) == off {
					near = true
				}
			}
			if near {
				meta.Nontrivial++
				meta.Hit("pair-boundary-adjacent")
			}
			if c1 == r {
				meta.Hit("pair-complement-exact")
			} else {
				meta.Hit("pair-complement-inexact")
			}
			meta.Hit("pair-shape/" + shape)
		}
		id++
	}

	// ---- corpus: reproducers of the finding, always first (deterministic) ----
	emitPair("corpus", 0.1, 0.09999999999999998, 0.1, "r=0.1: offset selected by both r and r-1")
	emitPair("corpus", 0.1, 0.09999999999999999, 0.2, "r=0.1: offset selected by both r and r-1 (b)")
	emitPair("corpus", 0.3, 0.3, 0.3, "r=0.3: offset selected by neither r nor r-1")
	emitPair("corpus", 0.3, 0.30000000000000004, 0.5, "r=0.3: first offset selected by r-1")
	emitPair("corpus", 0.5, 0.5, 0.5, "dyadic: exact complement, boundary offset")
	emitPair("corpus", 0.5, ulps(0.5, -1), 0.5, "dyadic: exact complement, offset just below")
	emitPair("corpus", 0.25, 0.25, ulps(0.25, 1), "dyadic")
	emitPair("corpus", 0, 0, 0, "r=0")
	emitPair("corpus", 0, 1, 1, "r=0, offset 1")
	emitPair("corpus", 1, ulps(1, -1), 1, "r=1, largest offset below 1")
	emitPair("corpus", math.Copysign(0, -1), 0, 0, "r=-0")
	emitPair("corpus", 0.7, 0.7, 0.9, "r=0.7 (upper half: complement exact)")
	emitPair("corpus", 0x1p-60, 0, 0x1p-60, "tiny r: r-1 rounds to -1, complement selects everything")
	emitPair("corpus", 0x1p-60, 0x1p-61, 0x1p-59, "tiny r: offset below r is selected by both")

	// ---- seeded pairs ----
	n := f.Count(1500, 30000)
	for i := 0; i < n; i++ {
		g := gen.Fork(f.Seed, i)
		r, kind := genRatio(g)
		off := genOffset(g, r)
		r2 := genR2(g, r, off)
		emitPair(kind, r, off, r2, "")
	}
	// ---- out-of-domain pairs: correspondence only ----
	specials := []float64{math.NaN(), math.Inf(1), math.Inf(-1), -1, -0.5, -0.1, -0.9, -1.5, 1.5, 2, -2, ulps(1, 1), ulps(-1, -1), -math.SmallestNonzeroFloat64, math.MaxFloat64}
	n2 := f.Count(200, 3000)
	for i := 0; i < n2; i++ {
		g := gen.Fork(f.Seed^0x5151, i)
		var r float64
		switch g.Intn(3) {
		case 0:
			r = gen.Pick(g, specials)
		case 1:
			x, _ := genRatio(g)
			r = -x
		default:
			r = (g.Float() - 0.5) * 4
		}
		var off float64
		switch g.Intn(4) {
		case 0:
			off = gen.Pick(g, specials)
		case 1:
			off = clamp01(ulps(add1(r), g.Intn(5)-2))
		case 2:
			off = genOffset(g, clamp01(math.Abs(r)))
		default:
			off = (g.Float() - 0.25) * 2
		}
		r2 := gen.Pick(g, specials)
		if g.Bool() {
			r2 = g.Float()
		}
		emitPair("out-of-domain", r, off, r2, "")
	}

	// ---- real label sets: labels.Hash() and SampleOffset ----
	nh := f.Count(200, 5000)
	hiHash := 0
	for i := 0; i < nh; i++ {
		g := gen.Fork(f.Seed^0xA5A5, i)
		b := labels.NewBuilder(labels.EmptyLabels())
		b.Set("__name__", fmt.Sprintf("m%d", g.Intn(1000)))
		for k := g.Intn(5); k > 0; k-- {
			b.Set(fmt.Sprintf("l%d", g.Intn(8)), strconv.FormatUint(g.U64()>>uint(g.Intn(60)), 36))
		}
		ls := b.Labels()
		h := ls.Hash()
		off := sampler.SampleOffset(&ls)
		if h >= 1<<63 {
			hiHash++
		}
		cf.Add(fmt.Sprintf("CHash %s %d %s", zi(id), h, fb(off)))
		meta.Case(id, map[string]string{"kind": "hash", "labels": ls.String(), "hash": strconv.FormatUint(h, 10), "off": fstr(off), "shape": "hash"})
		meta.Evaluations++
		meta.Hit("hash")
		id++
	}
	meta.Dist["hash>=2^63"] = hiHash

	// ---- queries through the engine ----
	scratch, err := os.MkdirTemp(f.Out, "tsdb")
	if err != nil {
		panic(err)
	}
	defer os.RemoveAll(scratch)
	os.Setenv("TMPDIR", scratch)
	st, err := teststorage.NewWithError()
	if err != nil {
		panic(err)
	}
	defer st.Close()
	ng := promql.NewEngine(promql.EngineOpts{
		MaxSamples: 1000000, Timeout: 100 * time.Second, LookbackDelta: 5 * time.Minute,
		EnableAtModifier: true, EnableNegativeOffset: true,
		Parser: parser.NewParser(parser.Options{EnableExperimentalFunctions: true}),
	})
	defer ng.Close()
	e := &env{st: st, ng: ng, ctx: context.Background()}
	t0 := time.Unix(0, 0)
	t1 := time.Unix(60, 0)

	nqEmitted := 0
	runQuery := func(qi int, g *gen.Rand, mode string, corpus string) {
		metric := fmt.Sprintf("c%d_%s", qi, strings.ReplaceAll(mode, "-", "_"))
		ns := g.Intn(22) + 3
		if mode == "corpus" {
			ns = 24
		}
		type ser struct {
			ls  labels.Labels
			h   uint64
			off float64
			sub bool
		}
		var sers []ser
		idOf := map[string]int64{}
		app := st.Appender(e.ctx)
		valPool := []float64{0, 1, -1, math.NaN(), math.Inf(1), math.Inf(-1), 42}
		for len(sers) < ns {
			k := len(sers)
			var av string
			if mode == "corpus" {
				av = fmt.Sprintf("fixed%d", k)
			} else {
				av = strconv.FormatUint(g.U64(), 36)
			}
			sub := g.Bool()
			ls := labels.FromStrings("__name__", metric, "a", av, "g", fmt.Sprintf("g%d", g.Intn(4)), "sub", map[bool]string{true: "1", false: "0"}[sub])
			if _, dup := idOf[ls.String()]; dup {
				continue
			}
			idOf[ls.String()] = int64(k)
			v0, v1 := g.Float()*100, g.Float()*100
			if g.Chance(1, 4) {
				v0 = gen.Pick(g, valPool)
			}
			if g.Chance(1, 4) {
				v1 = gen.Pick(g, valPool)
			}
			if _, err := app.Append(0, ls, t0.UnixMilli(), v0); err != nil {
				panic(err)
			}
			if _, err := app.Append(0, ls, t1.UnixMilli(), v1); err != nil {
				panic(err)
			}
			sers = append(sers, ser{ls: ls, h: ls.Hash(), off: sampler.SampleOffset(&ls), sub: sub})
		}
		if err := app.Commit(); err != nil {
			panic(err)
		}
		// the ratio: at / next to a real series offset, or of a generic kind
		var r float64
		pick := sers[g.Intn(len(sers))].off
		switch mode {
		case "corpus":
			// first fixed series (offset < 1/2) whose own offset, used as r, falls into the gap [r, fl(1+fl(r-1)))
			r = -1
			for _, s := range sers {
				if s.off < 0.5 && c1of(s.off) > s.off {
					r = s.off
					break
				}
			}
			if r < 0 {
				r = sers[0].off
			}
		case "corpus-both":
			r = -1
			for _, s := range sers {
				if x := ulps(s.off, 1); s.off < 0.5 && c1of(x) <= s.off {
					r = x
					break
				}
			}
			if r < 0 {
				r = ulps(sers[0].off, 1)
			}
		case "at-offset":
			r = clamp01(ulps(pick, g.Intn(5)-2))
		case "exact": // ratios whose complement is exact: dyadic or in the upper half
			if g.Bool() {
				j := g.Intn(6) + 1
				r = float64(g.Intn(1<<j+1)) / float64(int(1)<<j)
			} else {
				r = 0.5 + math.Floor(g.Float()*0x1p20)/0x1p21
			}
		case "special":
			r = gen.Pick(g, []float64{0, 1, math.Copysign(0, -1), 1.5, -1.5, math.NaN(), math.Inf(1), 2, ulps(1, 1), ulps(1, -1)})
		default:
			r, _ = genRatio(g)
		}
		c := sub1(r)
		var r2 float64
		switch g.Intn(5) {
		case 0:
			r2 = r
		case 1:
			r2 = clamp01(ulps(r, 1))
		case 2:
			r2 = clamp01(ulps(sers[g.Intn(len(sers))].off, g.Intn(3)))
		case 3:
			r2 = 1
		default:
			r2 = clamp01(r + (1-r)*g.Float())
		}
		lit := func(x float64) string {
			switch {
			case math.IsNaN(x):
				return "NaN"
			case math.IsInf(x, 1):
				return "Inf"
			case math.IsInf(x, -1):
				return "-Inf"
			}
			return fstr(x)
		}
		var errs []string
		note := func(s string) {
			if s != "" {
				errs = append(errs, s)
			}
		}
		// complement either as the literal of Go's r-1 or evaluated by the engine itself
		cq := fmt.Sprintf("limit_ratio(%s, %s)", lit(c), metric)
		if g.Bool() && !math.IsNaN(r) && !math.IsInf(r, 0) {
			cq = fmt.Sprintf("limit_ratio(%s - 1, %s)", lit(r), metric)
		}
		oR, m := e.instant(fmt.Sprintf("limit_ratio(%s, %s)", lit(r), metric), t0, idOf)
		note(m)
		oC, m := e.instant(cq, t0, idOf)
		note(m)
		oR2, m := e.instant(fmt.Sprintf("limit_ratio(%s, %s)", lit(r2), metric), t0, idOf)
		note(m)
		all := make([]int64, len(sers))
		var subIDs []int64
		for k := range sers {
			all[k] = int64(k)
			if sers[k].sub {
				subIDs = append(subIDs, int64(k))
			}
		}
		type variant struct {
			sub []int64
			obs qres
		}
		var vars []variant
		o, m := e.instant(fmt.Sprintf("limit_ratio(%s, %s)", lit(r), metric), t1, idOf) // other values
		note(m)
		vars = append(vars, variant{all, o})
		o, m = e.instant(fmt.Sprintf("limit_ratio(%s, %s) by (g)", lit(r), metric), t0, idOf)
		note(m)
		vars = append(vars, variant{all, o})
		o, m = e.instant(fmt.Sprintf("limit_ratio(%s, %s) without (a)", lit(r), metric), t1, idOf)
		note(m)
		vars = append(vars, variant{all, o})
		o, m = e.instant(fmt.Sprintf("limit_ratio(%s, %s{sub=\"1\"})", lit(r), metric), t0, idOf)
		note(m)
		vars = append(vars, variant{subIDs, o})
		rs, m := e.rangeSteps(fmt.Sprintf("limit_ratio(%s, %s)", lit(r), metric), t0, t1, idOf)
		note(m)
		vars = append(vars, variant{all, rs[0]}, variant{all, rs[1]})

		// shape (Go-side mirror of holds, only to name a failure)
		shape := "ok"
		if in01(r) {
			if oR.err || oC.err {
				shape = "query-error"
			} else {
				otherOK := subsetOf(oR.ids, all) && subsetOf(oC.ids, all)
				if in01(r2) && r <= r2 && (oR2.err || !subsetOf(oR.ids, oR2.ids)) {
					otherOK = false
				}
				for _, v := range vars {
					var want []int64
					for _, x := range v.sub {
						if member(oR.ids, x) {
							want = append(want, x)
						}
					}
					if v.obs.err || !sameIDs(v.obs.ids, want) {
						otherOK = false
					}
				}
				nviol, gap, one := 0, 0, 0
				for k, s := range sers {
					if member(oR.ids, int64(k)) == member(oC.ids, int64(k)) {
						nviol++
						if inGap(r, s.off) {
							gap++
						} else if r == 1 && s.off == 1 {
							one++
						}
					}
				}
				switch {
				case nviol == 0 && otherOK:
					shape = "ok"
				case nviol == 0:
					shape = "monotone-or-labels"
				case !otherOK:
					shape = "partition-and-other"
				case gap == nviol:
					shape = "complement-rounding"
				case one == nviol:
					shape = "offset-one"
				default:
					shape = "partition-other"
				}
			}
		} else {
			shape = "out-of-domain"
		}

		rows := make([]string, len(sers))
		d := queryDesc{Kind: "query/" + mode, Metric: metric, R: fstr(r), C: fstr(c), R2: fstr(r2), SelR: oR.ids, SelC: oC.ids, Errs: errs, Shape: shape, Corpus: corpus}
		for k, s := range sers {
			rows[k] = fmt.Sprintf("mkRow %d %d %s", k, s.h, fb(s.off))
			d.Series = append(d.Series, s.ls.String())
			d.Offsets = append(d.Offsets, fstr(s.off))
		}
		vs := make([]string, len(vars))
		for k, v := range vars {
			vs[k] = fmt.Sprintf("mkVar %s %s", zlist(v.sub), v.obs.gallina())
		}
		cf.Add(fmt.Sprintf("CQuery %s %s %s %s\n  %s\n  %s %s %s\n  %s", zi(id), fb(r), fb(c), fb(r2),
			gallina.List(rows), oR.gallina(), oC.gallina(), oR2.gallina(), gallina.List(vs)))
		meta.Case(id, d)
		meta.Evaluations++
		meta.Hit("query/" + mode)
		meta.Hit("query-shape/" + shape)
		nqEmitted++
		if nqEmitted%25 == 0 {
			cf.Flush()
		}
		if !oR.err && len(oR.ids) > 0 && len(oR.ids) < len(sers) {
			meta.Nontrivial++
			meta.Hit("query-both-sides-nonempty")
		}
		id++
	}

	// corpus queries: the finding through the real engine with fixed label sets
	runQuery(0, gen.Fork(7, 0), "corpus", "r = SampleOffset of a fixed series with fl(1+fl(r-1)) > r: that series is selected by neither limit_ratio(r) nor limit_ratio(r-1)")
	runQuery(1, gen.Fork(7, 1), "corpus-both", "r = next float above the SampleOffset of a fixed series with fl(1+fl(r-1)) <= offset: selected by both")
	nq := f.Count(72, 1200)
	modes := []string{"at-offset", "at-offset", "at-offset", "exact", "exact", "generic", "generic", "special"}
	for i := 0; i < nq; i++ {
		g := gen.Fork(f.Seed^0xC34C34, i)
		runQuery(i+2, g, modes[i%len(modes)], "")
	}

	// ---- range queries with a step-varying ratio (fParams non-constant path of rangeEvalAgg) ----
	exactRatio := func(g *gen.Rand) float64 { // 0 < r < 1 with fl(1+fl(r-1)) == r
		if g.Bool() {
			j := g.Intn(6) + 1
			return float64(g.Intn(1<<j-1)+1) / float64(int(1)<<j)
		}
		return 0.5 + math.Floor(g.Float()*0x1p20)/0x1p21
	}
	type rangeDesc struct {
		Kind    string    `json:"kind"`
		Metric  string    `json:"metric"`
		QR      string    `json:"query_r"`
		QC      string    `json:"query_c"`
		Rs      []string  `json:"rs"`
		Cs      []string  `json:"cs"`
		Series  []string  `json:"series"`
		Offsets []string  `json:"offsets"`
		SelR    [][]int64 `json:"sel_r"`
		SelC    [][]int64 `json:"sel_c"`
		Errs    []string  `json:"errs,omitempty"`
		Shape   string    `json:"shape"`
		Corpus  string    `json:"corpus,omitempty"`
	}
	runRange := func(qi int, g *gen.Rand, profile string, corpus string) {
		metric := fmt.Sprintf("r%d_%s", qi, strings.ReplaceAll(profile, "-", "_"))
		K := g.Intn(4) + 2 // steps
		if profile == "time" {
			K = []int{2, 3, 4, 5}[g.Intn(4)]
		}
		ns := g.Intn(14) + 3
		stepT := func(k int) time.Time { return time.Unix(int64(60*k), 0) }
		type ser struct {
			ls  labels.Labels
			h   uint64
			off float64
		}
		var sers []ser
		idOf := map[string]int64{}
		app := st.Appender(e.ctx)
		for len(sers) < ns {
			k := len(sers)
			av := strconv.FormatUint(g.U64(), 36)
			if corpus != "" {
				av = fmt.Sprintf("fixed%d", k)
			}
			ls := labels.FromStrings("__name__", metric, "a", av, "g", fmt.Sprintf("g%d", g.Intn(3)))
			if _, dup := idOf[ls.String()]; dup {
				continue
			}
			idOf[ls.String()] = int64(k)
			for j := 0; j < K; j++ {
				if _, err := app.Append(0, ls, stepT(j).UnixMilli(), g.Float()*10); err != nil {
					panic(err)
				}
			}
			sers = append(sers, ser{ls: ls, h: ls.Hash(), off: sampler.SampleOffset(&ls)})
		}
		// the ratio profile
		rs := make([]float64, K)
		D := float64(60 * (K - 1))
		for k := range rs {
			switch profile {
			case "touch-one", "exact":
				rs[k] = exactRatio(g)
			case "touch-zero":
				rs[k] = exactRatio(g)
			case "all-zero":
				rs[k] = []float64{0, math.Copysign(0, -1)}[g.Intn(2)]
			case "generic":
				rs[k], _ = genRatio(g)
			case "at-offset":
				rs[k] = clamp01(ulps(sers[g.Intn(len(sers))].off, g.Intn(5)-2))
			case "mixed-sign":
				rs[k] = []float64{0, math.Copysign(0, -1), -exactRatio(g), exactRatio(g), -1, 1, g.Float()*2 - 1}[g.Intn(7)]
			case "beyond":
				rs[k] = []float64{1, -1, 1.5, -1.5, ulps(1, 1), ulps(-1, -1), 0, exactRatio(g), -exactRatio(g), math.Inf(1), math.Inf(-1)}[g.Intn(11)]
			case "nan":
				rs[k] = []float64{exactRatio(g), 0, -exactRatio(g), math.Inf(1)}[g.Intn(4)]
			case "time":
				rs[k] = float64(stepT(k).UnixMilli()) / 1000 / D
			}
		}
		switch profile {
		case "touch-one": // the complement then has maximum exactly 0 and negative values elsewhere
			rs[g.Intn(K)] = 1
			if g.Chance(1, 3) {
				rs[g.Intn(K)] = 0
			}
		case "touch-zero": // minimum exactly 0, positive elsewhere
			rs[g.Intn(K)] = []float64{0, math.Copysign(0, -1)}[g.Intn(2)]
		case "nan":
			rs[g.Intn(K)] = math.NaN()
		}
		cs := make([]float64, K)
		for k := range rs {
			cs[k] = sub1(rs[k])
		}
		var qr, qc string
		var errs []string
		if profile == "time" {
			qr = fmt.Sprintf("limit_ratio(time() / %s, %s)", fstr(D), metric)
			qc = fmt.Sprintf("limit_ratio(time() / %s - 1, %s)", fstr(D), metric)
		} else {
			pr, pc := labels.FromStrings("__name__", "p_"+metric), labels.FromStrings("__name__", "pc_"+metric)
			for k := range rs {
				if _, err := app.Append(0, pr, stepT(k).UnixMilli(), rs[k]); err != nil {
					panic(err)
				}
				if _, err := app.Append(0, pc, stepT(k).UnixMilli(), cs[k]); err != nil {
					panic(err)
				}
			}
			qr = fmt.Sprintf("limit_ratio(scalar(p_%s), %s)", metric, metric)
			if g.Bool() {
				qc = fmt.Sprintf("limit_ratio(scalar(pc_%s), %s)", metric, metric)
			} else {
				qc = fmt.Sprintf("limit_ratio(scalar(p_%s) - 1, %s)", metric, metric)
			}
		}
		if err := app.Commit(); err != nil {
			panic(err)
		}
		type robs struct {
			err   bool
			steps [][]int64
		}
		run := func(qs string) robs {
			q, err := e.ng.NewRangeQuery(e.ctx, e.st, nil, qs, stepT(0), stepT(K-1), time.Minute)
			if err != nil {
				errs = append(errs, err.Error())
				return robs{err: true}
			}
			defer q.Close()
			res := q.Exec(e.ctx)
			if res.Err != nil {
				errs = append(errs, res.Err.Error())
				return robs{err: true}
			}
			mat, err := res.Matrix()
			if err != nil {
				errs = append(errs, err.Error())
				return robs{err: true}
			}
			out := robs{steps: make([][]int64, K)}
			for _, sr := range mat {
				sid, ok := idOf[sr.Metric.String()]
				if !ok || len(sr.Histograms) > 0 {
					errs = append(errs, "unknown series in result: "+sr.Metric.String())
					return robs{err: true}
				}
				for _, pt := range sr.Floats {
					k := int(pt.T / 60000)
					if pt.T%60000 != 0 || k < 0 || k >= K {
						errs = append(errs, "unexpected step")
						return robs{err: true}
					}
					out.steps[k] = append(out.steps[k], sid)
				}
			}
			for k := range out.steps {
				ids := out.steps[k]
				sort.Slice(ids, func(i, j int) bool { return ids[i] < ids[j] })
			}
			return out
		}
		oR, oC := run(qr), run(qc)
		rg := func(o robs) string {
			if o.err {
				return "RErr"
			}
			it := make([]string, len(o.steps))
			for k, st := range o.steps {
				it[k] = zlist(st)
			}
			return "(RSteps " + gallina.List(it) + ")"
		}
		// shape: Go-side mirror of holds
		inDom := true
		for _, r := range rs {
			if !in01(r) {
				inDom = false
			}
		}
		shape := "out-of-domain"
		bothSides := false
		if inDom {
			switch {
			case oR.err || oC.err:
				shape = "range-error"
			default:
				nviol, gap, one := 0, 0, 0
				for k := 0; k < K; k++ {
					if n := len(oR.steps[k]); n > 0 && n < len(sers) {
						bothSides = true
					}
					for i, sr := range sers {
						if member(oR.steps[k], int64(i)) == member(oC.steps[k], int64(i)) {
							nviol++
							if inGap(rs[k], sr.off) {
								gap++
							} else if rs[k] == 1 && sr.off == 1 {
								one++
							}
						}
					}
				}
				switch {
				case nviol == 0:
					shape = "ok"
				case gap == nviol:
					shape = "complement-rounding"
				case one == nviol:
					shape = "offset-one"
				default:
					shape = "range-partition-other"
				}
			}
		}
		fl := func(xs []float64) (string, []string) {
			a, b := make([]string, len(xs)), make([]string, len(xs))
			for k, x := range xs {
				a[k], b[k] = fb(x), fstr(x)
			}
			return gallina.List(a), b
		}
		rsG, rsS := fl(rs)
		csG, csS := fl(cs)
		rows := make([]string, len(sers))
		d := rangeDesc{Kind: "range/" + profile, Metric: metric, QR: qr, QC: qc, Rs: rsS, Cs: csS, SelR: oR.steps, SelC: oC.steps, Errs: errs, Shape: shape, Corpus: corpus}
		for k, sr := range sers {
			rows[k] = fmt.Sprintf("mkRow %d %d %s", k, sr.h, fb(sr.off))
			d.Series = append(d.Series, sr.ls.String())
			d.Offsets = append(d.Offsets, fstr(sr.off))
		}
		cf.Add(fmt.Sprintf("CRange %s %s %s\n  %s\n  %s %s", zi(id), rsG, csG, gallina.List(rows), rg(oR), rg(oC)))
		meta.Case(id, d)
		meta.Evaluations++
		meta.Hit("range/" + profile)
		meta.Hit("range-shape/" + shape)
		if bothSides {
			meta.Nontrivial++
			meta.Hit("range-both-sides-nonempty")
		}
		id++
	}
	// corpus: the complement of a ratio that reaches 1.0 at one step (max over steps exactly 0, negative elsewhere)
	runRange(0, gen.Fork(11, 0), "touch-one", "r(t) exact-complement ratios reaching 1.0 at one step; r(t)-1 has maximum exactly 0")
	runRange(1, gen.Fork(11, 1), "touch-zero", "r(t) reaching 0 at one step (minimum exactly 0, positive elsewhere)")
	nr := f.Count(54, 600)
	profiles := []string{"touch-one", "touch-zero", "exact", "time", "touch-one", "mixed-sign", "generic", "at-offset", "touch-one", "beyond", "all-zero", "nan"}
	for i := 0; i < nr; i++ {
		g := gen.Fork(f.Seed^0x7A46E, i)
		runRange(i+2, g, profiles[i%len(profiles)], "")
		if (i+1)%30 == 0 {
			cf.Flush()
		}
	}

	meta.Notes = append(meta.Notes,
		"known finding (key complement-rounding): fl(1+fl(r-1)) != r, offsets between the two boundaries are selected by both or by neither of limit_ratio(r) and limit_ratio(r-1)",
		"corpus reproduces it on AddRatioSampleWithOffset (r=0.1, r=0.3) and through the engine (r = offset of a real series)")
	cf.Flush()
	meta.Write(f.Out)
}

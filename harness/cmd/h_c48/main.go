// h_c48: correspondence harness for C48 (agent-mode storage logs every accepted sample).
//
// Every case is one seeded history driven against a real agent.DB (agent.Open on a scratch directory,
// real WAL with 32 KiB segments): appends through both appender versions (floats, histograms, float
// histograms, custom-buckets variants, in and out of order, boundary timestamps, start-timestamp zero
// samples, invalid label sets and histograms, stale markers), exemplars (valid, repeated, too long,
// duplicate label names, unknown ref), commits, rollbacks, DB.truncate (series GC + wlog.Checkpoint +
// segment truncation), forced segment rollover, Close + Open, the querier constructors.  After every
// commit / rollback the records it added to the WAL are decoded with the real record.Decoder; after
// every truncation, restart and at the end the whole WAL directory is decoded.  Coq then evaluates
// `agree` (model/Agent.v predicts every observation) and `holds` (the property on the implementation's
// output only) — see coq/corr/CorrC48.v.
package main

import (
	"context"
	"errors"
	"fmt"
	"log/slog"
	"math"
	"os"
	"path/filepath"
	"sort"
	"strconv"
	"strings"

	"github.com/prometheus/prometheus/model/exemplar"
	"github.com/prometheus/prometheus/model/histogram"
	"github.com/prometheus/prometheus/model/labels"
	"github.com/prometheus/prometheus/model/value"
	"github.com/prometheus/prometheus/storage"
	"github.com/prometheus/prometheus/tsdb"
	"github.com/prometheus/prometheus/tsdb/agent"
	"github.com/prometheus/prometheus/tsdb/record"
	"github.com/prometheus/prometheus/tsdb/tsdbutil"
	"github.com/prometheus/prometheus/tsdb/wlog"

	"verif/harness/internal/gallina"
	"verif/harness/internal/gen"
)

func must(err error) {
	if err != nil {
		panic(err)
	}
}

// ---------------------------------------------------------------- Gallina printing

const off = int64(1) << 40

func zi(v int64) string {
	switch {
	case v == math.MinInt64:
		return "0"
	case v == math.MaxInt64:
		return "1"
	case v > math.MaxInt64-(1<<20):
		return strconv.FormatInt((1<<62)+(math.MaxInt64-v), 10)
	case v < math.MinInt64+(1<<20):
		return strconv.FormatInt((1<<61)+(v-math.MinInt64), 10)
	case v <= -off+2 || v >= off:
		panic(fmt.Sprintf("value out of literal range: %d", v))
	}
	return strconv.FormatInt(v+off, 10)
}

func li(vs []int64) string {
	it := make([]string, len(vs))
	for i, v := range vs {
		it[i] = zi(v)
	}
	return gallina.List(it)
}

// ---------------------------------------------------------------- interning

type interner struct {
	labs map[string]int64
	vals map[string]int64
}

func newInterner() *interner { return &interner{labs: map[string]int64{}, vals: map[string]int64{}} }

// lab interns a label set after WithoutEmpty (what getOrCreate stores); 0 = empty, -1 = duplicate name.
func (in *interner) lab(l labels.Labels) int64 {
	l = l.WithoutEmpty()
	if l.IsEmpty() {
		return 0
	}
	if _, dup := l.HasDuplicateLabelNames(); dup {
		return -1
	}
	k := l.String()
	if v, ok := in.labs[k]; ok {
		return v
	}
	v := int64(len(in.labs) + 1)
	in.labs[k] = v
	return v
}

// labStr interns a label set by its String() (what db.series / decoded series records give).
func (in *interner) labStr(k string) int64 {
	if v, ok := in.labs[k]; ok {
		return v
	}
	v := int64(len(in.labs) + 1)
	in.labs[k] = v
	return v
}

func (in *interner) val(s string) int64 {
	if v, ok := in.vals[s]; ok {
		return v
	}
	v := int64(len(in.vals) + 1)
	in.vals[s] = v
	return v
}

func (in *interner) fval(f float64) int64 { return in.val("f" + strconv.FormatUint(math.Float64bits(f), 16)) }
func (in *interner) hval(h *histogram.Histogram) int64 {
	return in.val(fmt.Sprintf("h%d|%d|%v|%v|%x|%s", h.CounterResetHint, h.Schema, h.ZeroThreshold, h.CustomValues, math.Float64bits(h.Sum), h.String()))
}

func (in *interner) fhval(h *histogram.FloatHistogram) int64 {
	return in.val(fmt.Sprintf("H%d|%d|%v|%v|%x|%s", h.CounterResetHint, h.Schema, h.ZeroThreshold, h.CustomValues, math.Float64bits(h.Sum), h.String()))
}

func (in *interner) eval(e exemplar.Exemplar) int64 {
	return in.val("e" + strconv.FormatUint(math.Float64bits(e.Value), 16) + "|" + strconv.FormatInt(e.Ts, 10) + e.Labels.String())
}

// ---------------------------------------------------------------- decoded records

type rec struct {
	Kind    int        // 0 series, 1 samples, 2 exemplars, 5 other
	K       int        // sample kind 0..4
	Pairs   [][2]int64 // series (ref, lab)
	Triples [][3]int64 // samples / exemplars (ref, t, v)
}

func decode(in *interner, dec *record.Decoder, b []byte) rec {
	typ := dec.Type(b)
	switch typ {
	case record.Series:
		ss, err := dec.Series(b, nil)
		must(err)
		r := rec{Kind: 0}
		for _, s := range ss {
			r.Pairs = append(r.Pairs, [2]int64{int64(s.Ref), in.labStr(s.Labels.String())})
		}
		return r
	case record.Samples, record.SamplesV2:
		ss, err := dec.Samples(b, nil)
		must(err)
		r := rec{Kind: 1}
		for _, s := range ss {
			r.Triples = append(r.Triples, [3]int64{int64(s.Ref), s.T, in.fval(s.V)})
		}
		return r
	case record.HistogramSamples, record.CustomBucketsHistogramSamples, record.HistogramSamplesV2:
		hs, err := dec.HistogramSamples(b, nil)
		must(err)
		r := rec{Kind: 1, K: 1}
		if typ == record.CustomBucketsHistogramSamples {
			r.K = 3
		}
		for _, s := range hs {
			r.Triples = append(r.Triples, [3]int64{int64(s.Ref), s.T, in.hval(s.H)})
		}
		return r
	case record.FloatHistogramSamples, record.CustomBucketsFloatHistogramSamples, record.FloatHistogramSamplesV2:
		hs, err := dec.FloatHistogramSamples(b, nil)
		must(err)
		r := rec{Kind: 1, K: 2}
		if typ == record.CustomBucketsFloatHistogramSamples {
			r.K = 4
		}
		for _, s := range hs {
			r.Triples = append(r.Triples, [3]int64{int64(s.Ref), s.T, in.fhval(s.FH)})
		}
		return r
	case record.Exemplars:
		es, err := dec.Exemplars(b, nil)
		must(err)
		r := rec{Kind: 2}
		for _, e := range es {
			r.Triples = append(r.Triples, [3]int64{int64(e.Ref), e.T, in.eval(exemplar.Exemplar{Labels: e.Labels, Value: e.V, Ts: e.T})})
		}
		return r
	default:
		return rec{Kind: 5}
	}
}

func (r rec) String() string {
	switch r.Kind {
	case 0:
		it := make([]string, len(r.Pairs))
		for i, p := range r.Pairs {
			it[i] = "p " + zi(p[0]) + " " + zi(p[1])
		}
		return "RSeries " + gallina.List(it)
	case 1, 2:
		it := make([]string, len(r.Triples))
		for i, t := range r.Triples {
			it[i] = "t3 " + zi(t[0]) + " " + zi(t[1]) + " " + zi(t[2])
		}
		if r.Kind == 1 {
			return "ksamples " + zi(int64(r.K)) + " " + gallina.List(it)
		}
		return "RExemplars " + gallina.List(it)
	}
	return "RUnknown"
}

func recList(rs []rec) string {
	it := make([]string, len(rs))
	for i, r := range rs {
		it[i] = r.String()
	}
	return gallina.List(it)
}

// ---------------------------------------------------------------- reading a WAL directory

type walDir struct {
	CpIdx       int
	Cp          []rec
	Segs        map[int][]rec
	First, Last int
}

func readRecords(in *interner, rd *wlog.Reader) []rec {
	dec := record.NewDecoder(labels.NewSymbolTable(), nil)
	var out []rec
	for rd.Next() {
		out = append(out, decode(in, &dec, rd.Record()))
	}
	must(rd.Err())
	return out
}

type segCache map[int][]rec

func readWAL(in *interner, dir string, cache segCache) walDir {
	w := walDir{CpIdx: -1, Segs: map[int][]rec{}}
	cpdir, idx, err := wlog.LastCheckpoint(dir)
	if err == nil {
		w.CpIdx = idx
		sr, err := wlog.NewSegmentsReader(cpdir)
		must(err)
		w.Cp = readRecords(in, wlog.NewReader(sr))
		sr.Close()
	} else if !errors.Is(err, record.ErrNotFound) {
		panic(err)
	}
	w.First, w.Last, err = wlog.Segments(dir)
	must(err)
	for i := w.First; i <= w.Last && w.First >= 0; i++ {
		if rs, ok := cache[i]; ok {
			w.Segs[i] = rs
			continue
		}
		seg, err := wlog.OpenReadSegment(wlog.SegmentName(dir, i))
		must(err)
		sr := wlog.NewSegmentBufReader(seg)
		w.Segs[i] = readRecords(in, wlog.NewReader(sr))
		sr.Close()
		if i < w.Last {
			cache[i] = w.Segs[i]
		}
	}
	return w
}

func (w walDir) segList() string {
	var it []string
	for s := w.First; s <= w.Last && w.First >= 0; s++ {
		for _, r := range w.Segs[s] {
			it = append(it, "sr "+zi(int64(s))+" ("+r.String()+")")
		}
	}
	return gallina.List(it)
}

// records in replay order: checkpoint, then segments above it
func (w walDir) replayOrder() []rec {
	out := append([]rec{}, w.Cp...)
	for s := w.First; s <= w.Last && w.First >= 0; s++ {
		if s > w.CpIdx {
			out = append(out, w.Segs[s]...)
		}
	}
	return out
}

// ---------------------------------------------------------------- error classes

const (
	eOK = iota
	eOOO
	eInvalid
	eUnknownRef
	eExLen
	eExDup
	eHist
	ePartial
	eUnsupported
)

func exClass(err error) int64 {
	switch {
	case err == nil:
		return eOK
	case errors.Is(err, storage.ErrExemplarLabelLength):
		return eExLen
	case errors.Is(err, tsdb.ErrInvalidExemplar):
		return eExDup
	case strings.Contains(err.Error(), "unknown series ref"):
		return eUnknownRef
	}
	return 90
}

func errClass(err error, histKind bool) (int64, []int64) {
	var pe *storage.AppendPartialError
	switch {
	case err == nil:
		return eOK, nil
	case errors.As(err, &pe):
		var cs []int64
		for _, e := range pe.ExemplarErrors {
			cs = append(cs, exClass(e))
		}
		return ePartial, cs
	case errors.Is(err, storage.ErrOutOfOrderSample):
		return eOOO, nil
	case errors.Is(err, tsdb.ErrInvalidSample):
		return eInvalid, nil
	case histKind:
		return eHist, nil
	}
	return 91, nil
}

// ---------------------------------------------------------------- the world

type world struct {
	root, walDir string
	db           *agent.DB
	opts         *agent.Options
	in           *interner
	cache        segCache
	seen         map[int]int // records already reported, per segment
	lastSeg      int
	events, obs  []string
	desc         []string
	shape        string
	meta         *gallina.Meta
	hasSeries    map[int64]bool // refs with a series record in the WAL (as last observed)
	interleaved  bool
	orderDep     bool // the last checkpoint holds two refs of one label set in one record (Go map order decides the replay)
	skipped      int
	openRefs     map[int64]map[int64]bool // open appender -> refs of its accepted appends
	openApps     map[int64]bool           // appenders that are open right now
	gcPending    map[int64]bool           // refs garbage collected while an open appender held data for them
	// statistics
	accepted, ooo, boundary, checkpoints, restarts, gcd, dupRefs, rollbacks, exAccepted, exRejected, zeroSamples, orphansAtCommit int
}

func (w *world) open() {
	db, err := agent.Open(slog.New(slog.DiscardHandler), nil, nil, w.root, w.opts)
	must(err)
	w.db = db
}

func (w *world) ev(e, o string) {
	w.events = append(w.events, e)
	w.obs = append(w.obs, o)
}

// newRecords returns what was added to the WAL since the last call, with segment numbers, and the
// rollover oracle (segments advanced before each record).
func (w *world) newRecords() (string, []int64, []rec) {
	d := readWAL(w.in, w.walDir, w.cache)
	var it []string
	var rolls []int64
	var recs []rec
	cur := w.lastSeg
	for s := d.First; s <= d.Last && d.First >= 0; s++ {
		rs := d.Segs[s]
		for i := w.seen[s]; i < len(rs); i++ {
			it = append(it, "sr "+zi(int64(s))+" ("+rs[i].String()+")")
			rolls = append(rolls, int64(s-cur))
			cur = s
			recs = append(recs, rs[i])
		}
		w.seen[s] = len(rs)
	}
	w.lastSeg = d.Last
	return gallina.List(it), rolls, recs
}

func (w *world) resync(d walDir) {
	w.seen = map[int]int{}
	for s, rs := range d.Segs {
		w.seen[s] = len(rs)
	}
	w.lastSeg = d.Last
	w.hasSeries = map[int64]bool{}
	for _, r := range d.replayOrder() {
		if r.Kind == 0 {
			for _, p := range r.Pairs {
				w.hasSeries[p[0]] = true
			}
		}
	}
}

func (w *world) seriesTerm() (string, []agent.VerifC48Series) {
	ss := w.db.VerifC48AllSeries()
	sort.Slice(ss, func(i, j int) bool { return ss[i].Ref < ss[j].Ref })
	it := make([]string, len(ss))
	for i, s := range ss {
		it[i] = "ms " + zi(int64(s.Ref)) + " " + zi(w.in.labStr(s.Labels)) + " " + zi(s.LastTs)
	}
	return gallina.List(it), ss
}

func (w *world) deletedTerm() string {
	del := w.db.VerifC48Deleted()
	ks := make([]uint64, 0, len(del))
	for k := range del {
		ks = append(ks, k)
	}
	sort.Slice(ks, func(i, j int) bool { return ks[i] < ks[j] })
	it := make([]string, len(ks))
	for i, k := range ks {
		it[i] = "p " + zi(int64(k)) + " " + zi(int64(del[k]))
	}
	return gallina.List(it)
}

func (w *world) snapshot() {
	d := readWAL(w.in, w.walDir, w.cache)
	w.ev("ESnap", fmt.Sprintf("osn %s %s %s %s %s", zi(int64(d.CpIdx)), recList(d.Cp), zi(int64(d.First)), zi(int64(d.Last)), d.segList()))
	w.resync(d)
}

func (w *world) truncate(ts int64) {
	before := len(w.db.VerifC48AllSeries())
	pre := readWAL(w.in, w.walDir, w.cache)
	must(w.db.VerifC48Truncate(ts))
	d := readWAL(w.in, w.walDir, w.cache)
	ser, ss := w.seriesTerm()
	w.gcd += before - len(ss)
	if d.CpIdx != pre.CpIdx {
		w.checkpoints++
	}
	w.ev("et "+zi(ts)+" "+zi(w.in.fval(0)), fmt.Sprintf("ot %s %s %s %s %s %s %s", zi(int64(d.CpIdx)), recList(d.Cp), zi(int64(d.First)), zi(int64(d.Last)),
		d.segList(), ser, w.deletedTerm()))
	w.resync(d)
	w.orderDep = false
	for _, r := range d.Cp {
		if r.Kind == 0 && w.opts.CheckpointFromInMemorySeries {
			labs := map[int64]bool{}
			for _, p := range r.Pairs {
				if labs[p[1]] {
					w.orderDep = true
				}
				labs[p[1]] = true
			}
		}
	}
	w.desc = append(w.desc, fmt.Sprintf("truncate(%d) gc=%d cp=%d", ts, before-len(ss), d.CpIdx))
	live := map[int64]bool{}
	for _, s := range ss {
		live[int64(s.Ref)] = true
	}
	for _, refs := range w.openRefs {
		for r := range refs {
			if !live[r] {
				w.gcPending[r] = true
			}
		}
	}
	// finding probe: data left in the WAL without a series record, all of it of refs collected while pending
	seenRef := map[int64]bool{}
	var orphans []int64
	all := true
	for _, r := range d.replayOrder() {
		switch r.Kind {
		case 0:
			for _, p := range r.Pairs {
				seenRef[p[0]] = true
			}
		case 1, 2:
			for _, t := range r.Triples {
				if !seenRef[t[0]] {
					orphans = append(orphans, t[0])
					if !w.gcPending[t[0]] {
						all = false
					}
				}
			}
		}
	}
	if len(orphans) > 0 && all && w.shape == "" {
		w.shape = "agent-gc-pending-series-orphan"
		w.desc = append(w.desc, fmt.Sprintf("FINDING: after truncate(%d) checkpoint.%08d + segments hold samples/exemplars of refs %v without series record; these series were garbage collected while an open appender held data for them", ts, d.CpIdx, orphans))
	}
}

func (w *world) restart() {
	if w.orderDep {
		// an in-memory checkpoint record lists two refs of one label set in Go map order: which of them
		// loadWAL makes the canonical series is not determined by the history — not replayed
		w.skipped++
		w.desc = append(w.desc, "restart skipped (order-dependent in-memory checkpoint)")
		return
	}
	must(w.db.Close())
	w.open()
	w.restarts++
	ser, ss := w.seriesTerm()
	first, last, err := wlog.Segments(w.walDir)
	must(err)
	w.ev("ERestart", fmt.Sprintf("ors %s %s %s %s %s", zi(int64(w.db.VerifC48NextRef())), ser, w.deletedTerm(), zi(int64(first)), zi(int64(last))))
	w.lastSeg = last
	w.dupRefs += len(w.db.VerifC48Deleted())
	w.desc = append(w.desc, fmt.Sprintf("restart series=%d", len(ss)))
}

func (w *world) roll() {
	_, err := w.db.VerifC48WAL().NextSegment()
	must(err)
	w.lastSeg++
	w.ev("ERoll", "ONone")
	w.desc = append(w.desc, "roll")
}

func (w *world) query(which int, mint, maxt int64) {
	var err error
	var q any
	switch which {
	case 0:
		q, err = w.db.Querier(mint, maxt)
		if sq, ok := q.(storage.Querier); ok && sq != nil {
			err = errors.New("querier returned")
		}
	case 1:
		q, err = w.db.ChunkQuerier(mint, maxt)
		if sq, ok := q.(storage.ChunkQuerier); ok && sq != nil {
			err = errors.New("chunk querier returned")
		}
	default:
		q, err = w.db.ExemplarQuerier(context.Background())
		if sq, ok := q.(storage.ExemplarQuerier); ok && sq != nil {
			err = errors.New("exemplar querier returned")
		}
	}
	code := int64(92)
	if errors.Is(err, agent.ErrUnsupported) {
		code = eUnsupported
	}
	w.ev(fmt.Sprintf("eq_ %s %s %s", zi(int64(which)), zi(mint), zi(maxt)), "oq "+zi(code))
}

// an open appender of either version
type appender struct {
	id  int64
	ver int64
	v1  storage.Appender
	v2  storage.AppenderV2
}

func (w *world) newAppender(id int64, ver int64) *appender {
	a := &appender{id: id, ver: ver}
	w.openApps[id] = true
	if ver == 1 {
		a.v1 = w.db.Appender(context.Background())
	} else {
		a.v2 = w.db.AppenderV2(context.Background())
	}
	return a
}

type exIn struct {
	e   exemplar.Exemplar
	bad int64
}

func exTerm(in *interner, x exIn) string {
	e := x.e
	e.Labels = e.Labels.WithoutEmpty()
	return "t3 " + zi(in.eval(e)) + " " + zi(e.Ts) + " " + zi(x.bad)
}

// sampleIn: one append call
type sampleIn struct {
	ref   uint64
	lset  labels.Labels
	st, t int64
	kind  int // 0..4
	f     float64
	h     *histogram.Histogram
	fh    *histogram.FloatHistogram
	hbad  bool
	exs   []exIn
}

func (w *world) zeroVal(s sampleIn) int64 {
	switch s.kind {
	case 0:
		return w.in.fval(0)
	case 1, 3:
		return w.in.hval(&histogram.Histogram{CounterResetHint: histogram.CounterReset, Schema: s.h.Schema, ZeroThreshold: s.h.ZeroThreshold, CustomValues: s.h.CustomValues})
	default:
		return w.in.fhval(&histogram.FloatHistogram{CounterResetHint: histogram.CounterReset, Schema: s.fh.Schema, ZeroThreshold: s.fh.ZeroThreshold, CustomValues: s.fh.CustomValues})
	}
}

func (w *world) append(a *appender, s sampleIn) (uint64, int64) {
	var ref storage.SeriesRef
	var err error
	stale := false
	var v int64
	switch s.kind {
	case 0:
		v = w.in.fval(s.f)
		stale = value.IsStaleNaN(s.f)
	case 1, 3:
		v = w.in.hval(s.h)
		stale = value.IsStaleNaN(s.h.Sum)
	default:
		v = w.in.fhval(s.fh)
		stale = value.IsStaleNaN(s.fh.Sum)
	}
	if a.ver == 1 {
		if s.kind == 0 {
			ref, err = a.v1.Append(storage.SeriesRef(s.ref), s.lset, s.t, s.f)
		} else {
			ref, err = a.v1.AppendHistogram(storage.SeriesRef(s.ref), s.lset, s.t, s.h, s.fh)
		}
	} else {
		var es []exemplar.Exemplar
		for _, x := range s.exs {
			es = append(es, x.e)
		}
		ref, err = a.v2.Append(storage.SeriesRef(s.ref), s.lset, s.st, s.t, s.f, s.h, s.fh, storage.AOptions{Exemplars: es})
	}
	code, pe := errClass(err, s.kind != 0)
	if code >= 90 {
		panic(fmt.Sprintf("unclassified append error: %v", err))
	}
	exs := make([]string, len(s.exs))
	for i, x := range s.exs {
		exs[i] = exTerm(w.in, x)
	}
	st := s.st
	if a.ver == 1 {
		st = 0
		exs = nil
	}
	w.ev(fmt.Sprintf("ea %s %s %s %s %s %s %s %s %s %s %s %s", zi(a.id), zi(a.ver), zi(int64(s.ref)), zi(w.in.lab(s.lset)), zi(st), zi(s.t),
		zi(v), zi(w.zeroVal(s)), zi(int64(s.kind)), gallina.Bool(s.hbad), gallina.Bool(stale), gallina.List(exs)),
		fmt.Sprintf("oa %s %s %s", zi(int64(ref)), zi(code), li(pe)))
	switch code {
	case eOK, ePartial:
		w.accepted++
		if w.openRefs[a.id] == nil {
			w.openRefs[a.id] = map[int64]bool{}
		}
		w.openRefs[a.id][int64(ref)] = true
	case eOOO:
		w.ooo++
	}
	return uint64(ref), code
}

func (w *world) appendExemplar(a *appender, ref uint64, lset labels.Labels, x exIn) int64 {
	r, err := a.v1.AppendExemplar(storage.SeriesRef(ref), lset, x.e)
	code := exClass(err)
	if code >= 90 {
		panic(fmt.Sprintf("unclassified exemplar error: %v", err))
	}
	e := x.e
	e.Labels = e.Labels.WithoutEmpty()
	w.ev(fmt.Sprintf("ee %s %s %s %s %s", zi(a.id), zi(int64(ref)), zi(w.in.eval(e)), zi(e.Ts), zi(x.bad)),
		fmt.Sprintf("oa %s %s []", zi(int64(r)), zi(code)))
	if code == eOK && r != 0 {
		w.exAccepted++
	} else {
		w.exRejected++
	}
	return code
}

func (w *world) finish(a *appender, commit bool) {
	var err error
	switch {
	case a.ver == 1 && commit:
		err = a.v1.Commit()
	case a.ver == 1:
		err = a.v1.Rollback()
	case commit:
		err = a.v2.Commit()
	default:
		err = a.v2.Rollback()
	}
	must(err)
	delete(w.openRefs, a.id)
	delete(w.openApps, a.id)
	term, rolls, recs := w.newRecords()
	name := "ec"
	if !commit {
		name = "er"
		w.rollbacks++
	}
	w.ev(fmt.Sprintf("%s %s %s", name, zi(a.id), li(rolls)), "OLog "+term)
	// finding probe: a data record whose ref has no series record in the WAL yet
	for _, r := range recs {
		if r.Kind == 0 {
			for _, p := range r.Pairs {
				w.hasSeries[p[0]] = true
			}
		} else if r.Kind == 1 || r.Kind == 2 {
			for _, t := range r.Triples {
				if !w.hasSeries[t[0]] {
					w.orphansAtCommit++
					// strict: only when another appender is still open (it holds the pending series record)
					if w.shape == "" && len(w.openApps) > 0 {
						w.shape = "agent-interleaved-appenders-sample-before-series"
						w.desc = append(w.desc, fmt.Sprintf("FINDING: appender %d committed a sample/exemplar of ref %d whose series record is still pending in another appender", a.id, t[0]))
					}
				}
			}
		}
	}
}

// ---------------------------------------------------------------- generation

type genState struct {
	r       *gen.Rand
	w       *world
	lsets   []labels.Labels
	refs    map[int]uint64 // last ref returned for label set i
	now     int64
	cnt     int
	nextApp int64
	maxTS   int64
}

func mkHist(kind int, i int64) (*histogram.Histogram, *histogram.FloatHistogram) {
	switch kind {
	case 1:
		return tsdbutil.GenerateTestHistogram(i), nil
	case 3:
		return tsdbutil.GenerateTestCustomBucketsHistogram(i), nil
	case 2:
		return nil, tsdbutil.GenerateTestFloatHistogram(i)
	default:
		return nil, tsdbutil.GenerateTestCustomBucketsFloatHistogram(i)
	}
}

func (g *genState) lastTs(i int) (int64, bool) {
	want := g.lsets[i].WithoutEmpty().String()
	for _, s := range g.w.db.VerifC48AllSeries() {
		if s.Labels == want {
			return s.LastTs, true
		}
	}
	return 0, false
}

func (g *genState) mkExemplar() exIn {
	r := g.r
	g.cnt++
	x := exIn{e: exemplar.Exemplar{Labels: labels.FromStrings("trace", fmt.Sprintf("t%d", g.cnt)), Value: float64(g.cnt), Ts: g.now - int64(r.Intn(3)), HasTs: true}}
	switch r.Intn(12) {
	case 0:
		x.e.Labels = labels.FromStrings("trace", strings.Repeat("x", 130))
		x.bad = 2
	case 1:
		x.e.Labels = labels.New(labels.Label{Name: "a", Value: "1"}, labels.Label{Name: "a", Value: "2"})
		x.bad = 1
	case 2:
		x.e.Labels = labels.FromStrings("trace", fmt.Sprintf("t%d", g.cnt), "empty", "")
	case 3, 4: // likely repetition of an earlier exemplar
		g.cnt--
		x.e.Labels = labels.FromStrings("trace", fmt.Sprintf("t%d", g.cnt))
		x.e.Value = float64(g.cnt)
		x.e.Ts = g.now
	}
	return x
}

// one append call on appender a
func (g *genState) oneAppend(a *appender) {
	r, w := g.r, g.w
	i := r.Intn(len(g.lsets))
	s := sampleIn{lset: g.lsets[i]}
	switch r.Intn(10) {
	case 0, 1, 2, 3:
		s.ref = g.refs[i]
	case 4:
		s.ref = g.refs[r.Intn(len(g.lsets))] // possibly another series' ref: labels are ignored then
	case 5:
		s.ref = uint64(900 + r.Intn(5)) // unknown ref
	}
	switch r.Intn(40) {
	case 0:
		s.lset = labels.EmptyLabels()
	case 1:
		s.lset = labels.FromStrings("onlyempty", "")
	case 2:
		s.lset = labels.New(labels.Label{Name: "d", Value: "1"}, labels.Label{Name: "d", Value: "2"})
	}
	s.kind = 0
	if r.Chance(1, 3) {
		s.kind = 1 + r.Intn(4)
	}
	g.cnt++
	// timestamp: mostly at `now`, sometimes behind the series' last timestamp (inside / at the edge of /
	// outside the out-of-order window), sometimes an int64 extreme
	s.t = g.now + int64(r.Intn(5))
	oow := w.opts.OutOfOrderTimeWindow
	if last, ok := g.lastTs(i); ok && last > math.MinInt64 && r.Chance(1, 3) {
		switch r.Intn(6) {
		case 0:
			s.t = last - oow // == minValidTime: rejected
			w.boundary++
		case 1:
			s.t = last - oow + 1 // first accepted timestamp
			w.boundary++
		case 2:
			s.t = last
		case 3:
			s.t = last - oow - 1 - int64(r.Intn(50))
		case 4:
			s.t = last - int64(r.Intn(int(oow)+2))
		default:
			s.t = last + 1
		}
	}
	switch r.Intn(60) {
	case 0:
		s.t = math.MinInt64
		w.boundary++
	case 1:
		s.t = math.MaxInt64
		w.boundary++
	}
	switch s.kind {
	case 0:
		s.f = float64(g.cnt)
		if r.Chance(1, 25) {
			s.f = math.Float64frombits(value.StaleNaN)
		}
	default:
		s.h, s.fh = mkHist(s.kind, int64(g.cnt%7))
		if r.Chance(1, 15) { // invalid histogram: spans and buckets disagree
			s.hbad = true
			if s.h != nil {
				s.h.PositiveBuckets = s.h.PositiveBuckets[:1]
			} else {
				s.fh.PositiveBuckets = s.fh.PositiveBuckets[:1]
			}
		} else if r.Chance(1, 25) {
			if s.h != nil {
				s.h.Sum = math.Float64frombits(value.StaleNaN)
			} else {
				s.fh.Sum = math.Float64frombits(value.StaleNaN)
			}
		}
	}
	if a.ver == 2 {
		if r.Chance(1, 3) {
			switch r.Intn(4) {
			case 0:
				s.st = s.t // not older than the sample: ignored
			case 1:
				s.st = -5 - int64(r.Intn(100)) // far in the past
			default:
				s.st = s.t - 1 - int64(r.Intn(3))
			}
			if s.t == math.MinInt64 || s.t == math.MaxInt64 {
				s.st = 0
			}
		}
		for k := r.Intn(4); k > 0 && r.Chance(1, 2); k-- {
			x := g.mkExemplar()
			x.e.Ts = min(x.e.Ts, s.t) // validity: an exemplar is not newer than its sample (see notes)
			s.exs = append(s.exs, x)
		}
	}
	ref, code := w.append(a, s)
	if (code == eOK || code == ePartial) && ref != 0 && w.in.lab(s.lset) > 0 && s.ref == 0 {
		g.refs[i] = ref
	}
	if a.ver == 1 && r.Chance(1, 3) {
		x := g.mkExemplar()
		x.e.Ts = min(x.e.Ts, s.t) // validity: an exemplar is not newer than its sample (see notes)
		switch {
		case r.Chance(1, 12):
			w.appendExemplar(a, uint64(950+r.Intn(3)), s.lset, x) // unknown series
		case code == eOK && ref != 0:
			w.appendExemplar(a, ref, s.lset, x)
		}
	}
}

func (g *genState) session(ver int64, n int, commit bool) {
	g.nextApp++
	a := g.w.newAppender(g.nextApp, ver)
	for k := 0; k < n; k++ {
		g.oneAppend(a)
	}
	g.w.finish(a, commit)
	g.w.desc = append(g.w.desc, fmt.Sprintf("appender %d v%d: %d appends, commit=%v @%d", a.id, ver, n, commit, g.now))
}

// two appenders (and possibly a truncation) overlapping in time
func (g *genState) interleavedSessions() {
	r, w := g.r, g.w
	w.interleaved = true
	g.nextApp++
	a := w.newAppender(g.nextApp, 1+int64(r.Intn(2)))
	g.nextApp++
	b := w.newAppender(g.nextApp, 1+int64(r.Intn(2)))
	for k := 2 + r.Intn(5); k > 0; k-- {
		if r.Bool() {
			g.oneAppend(a)
		} else {
			g.oneAppend(b)
		}
	}
	if r.Bool() {
		a, b = b, a
	}
	w.finish(a, !r.Chance(1, 6))
	if r.Chance(1, 3) {
		g.oneAppend(b)
	}
	w.finish(b, !r.Chance(1, 6))
	w.desc = append(w.desc, fmt.Sprintf("interleaved appenders %d,%d @%d", a.id, b.id, g.now))
}

func newWorld(outDir string, meta *gallina.Meta, oow int64, stz, inmem bool) *world {
	root, err := os.MkdirTemp(outDir, "c48_")
	must(err)
	w := &world{root: root, walDir: filepath.Join(root, "wal"), in: newInterner(), cache: segCache{}, seen: map[int]int{}, meta: meta, hasSeries: map[int64]bool{}, openRefs: map[int64]map[int64]bool{}, gcPending: map[int64]bool{}, openApps: map[int64]bool{}}
	w.opts = agent.DefaultOptions()
	w.opts.WALSegmentSize = 32 * 1024
	w.opts.NoLockfile = true
	w.opts.StripeSize = 16
	w.opts.OutOfOrderTimeWindow = oow
	w.opts.EnableSTAsZeroSample = stz
	w.opts.CheckpointFromInMemorySeries = inmem
	w.open()
	return w
}

func (w *world) term(idx int) string {
	return fmt.Sprintf("mkCase %s%%Z (mko %s %s %s)\n %s\n %s", strconv.Itoa(idx), zi(w.opts.OutOfOrderTimeWindow), gallina.Bool(w.opts.EnableSTAsZeroSample), gallina.Bool(w.opts.CheckpointFromInMemorySeries),
		gallina.List(w.events), gallina.List(w.obs))
}

// corpus 0: two appenders touch the same new series; the one that did not create it commits first
func corpusInterleaved(outDir string, meta *gallina.Meta) *world {
	w := newWorld(outDir, meta, 0, false, false)
	w.interleaved = true
	l := labels.FromStrings("__name__", "shared")
	a := w.newAppender(1, 1)
	b := w.newAppender(2, 1)
	w.append(a, sampleIn{lset: l, t: 1000, f: 1})
	w.append(b, sampleIn{lset: l, t: 1001, f: 2})
	w.finish(b, true)
	w.finish(a, true)
	w.snapshot()
	w.desc = append(w.desc, "corpus: appender 1 creates series {__name__=shared}, appender 2 appends to it and commits first")
	return w
}

// corpus 1: boundary timestamps and the underflow branch of minValidTime
func corpusBoundary(outDir string, meta *gallina.Meta) *world {
	w := newWorld(outDir, meta, 100, false, false)
	l := labels.FromStrings("__name__", "edge")
	m := labels.FromStrings("__name__", "edge2")
	a := w.newAppender(1, 1)
	w.append(a, sampleIn{lset: l, t: math.MinInt64, f: 1}) // new series: lastTs = MinInt64, rejected
	w.append(a, sampleIn{lset: l, t: 1000, f: 2})
	w.append(a, sampleIn{lset: l, t: 500, f: 3}) // not checked against pending samples
	w.append(a, sampleIn{lset: m, t: math.MaxInt64, f: 4})
	w.finish(a, true)
	b := w.newAppender(2, 2)
	w.append(b, sampleIn{lset: l, t: 900, f: 5})  // == lastTs - window: rejected
	w.append(b, sampleIn{lset: l, t: 901, f: 6})  // accepted
	w.append(b, sampleIn{lset: m, t: 2000, f: 7}) // far behind MaxInt64
	w.append(b, sampleIn{lset: m, t: math.MaxInt64 - 100, f: 8})
	w.append(b, sampleIn{lset: m, t: math.MaxInt64 - 99, f: 9})
	w.finish(b, true)
	w.restart()
	c := w.newAppender(3, 1)
	w.append(c, sampleIn{lset: l, t: 900, f: 10})
	w.append(c, sampleIn{lset: l, t: 901, f: 11})
	w.finish(c, false)
	w.snapshot()
	w.boundary += 6
	w.desc = append(w.desc, "corpus: boundary timestamps")
	return w
}

// corpus 2: a series created by an open appender is garbage collected before the commit
func corpusGCPending(outDir string, meta *gallina.Meta) *world {
	w := newWorld(outDir, meta, 0, false, false)
	w.interleaved = true
	l := labels.FromStrings("__name__", "late")
	k := labels.FromStrings("__name__", "keep")
	z := w.newAppender(1, 1)
	w.append(z, sampleIn{lset: k, t: 5000, f: 1})
	w.finish(z, true)
	a := w.newAppender(2, 1)
	w.append(a, sampleIn{lset: l, t: 5000, f: 1})
	w.roll()
	w.roll()
	w.truncate(4000) // series "late" has lastTs = MinInt64: collected
	w.finish(a, true)
	for i := 0; i < 4; i++ {
		w.roll()
	}
	w.truncate(4500)
	b := w.newAppender(3, 1)
	w.append(b, sampleIn{lset: k, t: 6000, f: 2})
	w.finish(b, true)
	for i := 0; i < 4; i++ {
		w.roll()
	}
	w.truncate(4600)
	w.snapshot()
	w.desc = append(w.desc, "corpus: series created by an open appender, DB.truncate before its commit")
	return w
}

// corpus 3: CheckpointFromInMemorySeries — the checkpoint keeps series records and last timestamps only
// (witness of C48_inmemory_refuted: the samples at 5000 and 6000 are gone after truncate(4000))
func corpusInMemory(outDir string, meta *gallina.Meta) *world {
	w := newWorld(outDir, meta, 0, false, true)
	l := labels.FromStrings("__name__", "inmem")
	a := w.newAppender(1, 1)
	w.append(a, sampleIn{lset: l, t: 5000, f: 1})
	w.finish(a, true)
	b := w.newAppender(2, 1)
	w.append(b, sampleIn{lset: l, t: 6000, f: 2})
	w.finish(b, true)
	w.roll()
	w.roll()
	w.roll()
	w.truncate(4000)
	w.snapshot()
	w.restart()
	c := w.newAppender(3, 2)
	w.append(c, sampleIn{lset: l, t: 6000, f: 3}) // == lastTs restored from the stand-in sample: rejected
	w.append(c, sampleIn{lset: l, t: 6001, f: 4})
	w.finish(c, true)
	w.snapshot()
	w.desc = append(w.desc, "corpus: in-memory checkpoint drops samples at or after the truncation time, keeps last timestamps")
	return w
}

func runCase(outDir string, meta *gallina.Meta, seed uint64, idx int) *world {
	r := gen.Fork(seed, idx)
	oow := int64(0)
	switch r.Intn(4) {
	case 1:
		oow = 1 + int64(r.Intn(300))
	case 2:
		oow = 5000
	}
	w := newWorld(outDir, meta, oow, r.Chance(1, 3), r.Chance(1, 6))
	g := &genState{r: r, w: w, refs: map[int]uint64{}, now: int64(1000 + r.Intn(500)), maxTS: math.MinInt64}
	nser := 3 + r.Intn(6)
	for i := 0; i < nser; i++ {
		ls := []string{"__name__", fmt.Sprintf("m%d", i)}
		if r.Chance(1, 4) {
			ls = append(ls, "pad", strings.Repeat("y", 4000+r.Intn(9000)))
		}
		if r.Chance(1, 6) {
			ls = append(ls, "blank", "")
		}
		g.lsets = append(g.lsets, labels.FromStrings(ls...))
	}
	inter := r.Chance(1, 6)
	nops := 12 + r.Intn(24)
	for op := 0; op < nops; op++ {
		g.now += int64(10 + r.Intn(400))
		switch k := r.Intn(100); {
		case k < 50:
			if inter && r.Chance(1, 3) {
				g.interleavedSessions()
			} else {
				g.session(1+int64(r.Intn(2)), 1+r.Intn(6), !r.Chance(1, 7))
			}
		case k < 70:
			ts := g.now - int64(r.Intn(1200))
			if ss := w.db.VerifC48AllSeries(); len(ss) > 0 && r.Chance(1, 3) {
				// boundary: exactly at (or one above) a series' last timestamp — GC keeps lastTs >= mint
				sort.Slice(ss, func(i, j int) bool { return ss[i].Ref < ss[j].Ref })
				if l := ss[r.Intn(len(ss))].LastTs; l > 0 && l < g.now+10 {
					ts = l + int64(r.Intn(2))
					w.boundary++
				}
			}
			if ts < g.maxTS { // truncation times grow (see notes: C15 finding agent-lower-mint-orphan)
				ts = g.maxTS
			}
			g.maxTS = ts
			w.truncate(ts)
		case k < 82:
			w.roll()
		case k < 90:
			w.restart()
			if r.Bool() {
				w.snapshot()
			}
		default:
			w.query(r.Intn(3), g.now-1000, g.now)
		}
	}
	g.now += 500
	g.session(1, 3, true)
	w.restart()
	g.now += 700
	g.session(2, 3, true)
	g.maxTS = max(g.maxTS, g.now-300)
	w.truncate(g.maxTS)
	w.snapshot()
	return w
}

func main() {
	f := gallina.ParseFlags()
	meta := gallina.NewMeta("C48", f.Seed, f.Tier)
	meta.Rule = "4 corpus histories + seeded histories of 12-35 operations on a real agent.DB; a history is non-trivial when it has at least one checkpoint-creating truncation, one restart and one out-of-order rejection; distinct by (seed, index)"
	cf := &gallina.CaseFile{Dir: f.Out, Type: "case", PerShard: 12,
		Preamble: "From Coq Require Import List ZArith Bool Uint63.\nFrom Verif Require Import lib.Int64 model.Checkpoint model.Agent corr.CorrC48.\nImport ListNotations.\nOpen Scope uint63_scope.\n",
		Footer:   gallina.StdFooter}
	n := f.Count(30, 400)
	emit := func(idx int, w *world, kind string) {
		must(w.db.Close())
		os.RemoveAll(w.root)
		cf.Add(w.term(idx))
		shape := kind
		if w.shape != "" {
			shape = w.shape
		}
		meta.Case(idx, map[string]any{"shape": shape, "seed": f.Seed, "index": idx, "oow": w.opts.OutOfOrderTimeWindow, "stz": w.opts.EnableSTAsZeroSample, "inmem": w.opts.CheckpointFromInMemorySeries, "ops": w.desc})
		meta.Evaluations++
		if w.checkpoints > 0 && w.restarts > 0 && w.ooo > 0 {
			meta.Nontrivial++
		}
		meta.Dist["appends-accepted"] += w.accepted
		meta.Dist["appends-ooo-rejected"] += w.ooo
		meta.Dist["appends-boundary"] += w.boundary
		meta.Dist["checkpoints"] += w.checkpoints
		meta.Dist["restarts"] += w.restarts
		meta.Dist["series-gc"] += w.gcd
		meta.Dist["deleted-after-restart"] += w.dupRefs
		meta.Dist["rollbacks"] += w.rollbacks
		meta.Dist["exemplars-accepted"] += w.exAccepted
		meta.Dist["exemplars-not-accepted"] += w.exRejected
		meta.Dist["orphans-at-commit"] += w.orphansAtCommit
		meta.Dist["restarts-skipped-order-dependent-checkpoint"] += w.skipped
		if w.opts.CheckpointFromInMemorySeries {
			meta.Hit("history-inmemory-checkpoint")
		}
		if w.interleaved {
			meta.Hit("history-interleaved")
		} else {
			meta.Hit("history-sequential")
		}
	}
	emit(0, corpusInterleaved(f.Out, meta), "corpus")
	emit(1, corpusBoundary(f.Out, meta), "corpus")
	emit(2, corpusGCPending(f.Out, meta), "corpus")
	emit(3, corpusInMemory(f.Out, meta), "corpus")
	only := map[int]bool{} // C48_ONLY=i,j,...: generate just these histories (debugging / replay)
	for _, x := range strings.Split(os.Getenv("C48_ONLY"), ",") {
		if v, err := strconv.Atoi(strings.TrimSpace(x)); err == nil {
			only[v] = true
		}
	}
	for i := 4; i < n+4; i++ {
		if len(only) > 0 && !only[i] {
			continue
		}
		emit(i, runCase(f.Out, meta, f.Seed, i), "history")
	}
	cf.Flush()
	meta.Write(f.Out)
}

// h_c53 — harness of property C53 (a read-only open returns what a read-write open would, and
// changes nothing).
//
// Per case: a generated history on a real tsdb.DB (tsdbx) leaves a data directory, taken either
// after Close or as a copy of the LIVE directory (unclean shutdown).  Copies of it are then
//   - decoded directly (blocks: meta.json + querier over the block),
//   - handed to the real Head.Init once per cut-off value (the model's oracle),
//   - opened read-write (tsdb.Open) and queried,
//   - opened read-only (tsdb.OpenDBReadOnly, sandbox inside the data directory or in a separate
//     directory), ONE Querier/ChunkQuerier per session, with the file tree (paths, inode
//     identity, content hashes) recorded before, while open, and after Close,
//   - flushed with DBReadOnly.FlushWAL.
//
// Everything is written as Gallina terms for corr/CorrC53.v.
package main

import (
	"context"
	"crypto/sha256"
	"encoding/binary"
	"fmt"
	"io"
	"io/fs"
	"math"
	"os"
	"path/filepath"
	"sort"
	"strings"
	"syscall"
	"time"

	"github.com/oklog/ulid/v2"

	"github.com/prometheus/prometheus/model/labels"
	"github.com/prometheus/prometheus/model/value"
	"github.com/prometheus/prometheus/storage"
	"github.com/prometheus/prometheus/tsdb"
	"github.com/prometheus/prometheus/tsdb/chunkenc"
	"github.com/prometheus/prometheus/tsdb/wlog"

	"verif/harness/internal/gallina"
	"verif/harness/internal/gen"
	"verif/harness/internal/tsdbx"
)

const blockRange = 1000

func lbl(i int) labels.Labels { return labels.FromStrings("a", fmt.Sprintf("s%d", i)) }

func sidOf(l string) int {
	var i int
	if _, err := fmt.Sscanf(l, `{a="s%d"}`, &i); err != nil {
		panic("unexpected labels " + l)
	}
	return i
}

func val(s int, t int64) float64 { return float64(int64(s)*10_000_000 + t) }

func code(v float64) int64 {
	if value.IsStaleNaN(v) {
		return -999
	}
	if math.IsNaN(v) || math.IsInf(v, 0) {
		return -998
	}
	return int64(v)
}

// ---------------------------------------------------------------- histories

type hop struct {
	Kind string  `json:"k"`
	S    []int   `json:"s,omitempty"`
	T    []int64 `json:"t,omitempty"`
	A    int64   `json:"a,omitempty"`
	B    int64   `json:"b,omitempty"`
}

type history struct {
	N       int   `json:"series"`
	Window  int64 `json:"ooo_window"`
	Ops     []hop `json:"ops"`
	Unclean bool  `json:"unclean"`
}

func tx(s int, ts ...int64) hop {
	ss := make([]int, len(ts))
	for i := range ss {
		ss[i] = s
	}
	return hop{Kind: "tx", S: ss, T: ts}
}

func manyTx(s, n int, step int64) hop {
	var ts []int64
	for i := 0; i < n; i++ {
		ts = append(ts, int64(i)*step)
	}
	return tx(s, ts...)
}

type runner struct {
	d   *tsdbx.DB
	log []string
}

func (r *runner) apply(o hop) {
	d := r.d
	var err error
	switch o.Kind {
	case "tx":
		var reqs []tsdbx.AppendReq
		for i, t := range o.T {
			reqs = append(reqs, tsdbx.AppendReq{Labels: lbl(o.S[i]), T: t, V: val(o.S[i], t)})
		}
		_, err = d.Tx(reqs, true)
	case "stale":
		var reqs []tsdbx.AppendReq
		for i, t := range o.T {
			reqs = append(reqs, tsdbx.AppendReq{Labels: lbl(o.S[i]), T: t, V: math.Float64frombits(value.StaleNaN)})
		}
		_, err = d.Tx(reqs, true)
		if err == nil {
			err = d.DB.CompactStaleHead()
		}
	case "compact":
		err = d.Compact()
	case "compactooo":
		err = d.CompactOOOHead()
	case "selected":
		var refs []storage.SeriesRef
		for _, hs := range d.HeadDump() {
			for _, s := range o.S {
				if hs.Labels == lbl(s).String() {
					refs = append(refs, storage.SeriesRef(hs.Ref))
				}
			}
		}
		err = d.DB.CompactSelectedSeries(refs)
	case "merge":
		bs := d.Blocks()
		if len(bs) >= 2 && !d.Compactable() {
			i := int(o.A) % len(bs)
			j := int(o.B) % len(bs)
			if i != j {
				err = d.MergeBlocks([]string{bs[i].ULID, bs[j].ULID})
			}
		}
	case "delete":
		var alts []string
		for _, s := range o.S {
			alts = append(alts, fmt.Sprintf("s%d", s))
		}
		err = d.Delete(o.A, o.B, labels.MustNewMatcher(labels.MatchRegexp, "a", strings.Join(alts, "|")))
	case "clean":
		err = d.DB.CleanTombstones()
	case "reopen":
		err = d.Reopen()
	default:
		panic("op " + o.Kind)
	}
	if err != nil {
		r.log = append(r.log, o.Kind+": "+err.Error())
	}
}

func genHistory(g *gen.Rand) history {
	h := history{N: 1 + g.Intn(3), Window: g.PickI64(0, 300, 2500, 100000, 100000), Unclean: g.Chance(1, 2)}
	cur := g.PickI64(-2600, -40, 0, 100, 950)
	nops := 4 + g.Intn(22)
	for i := 0; i < nops; i++ {
		switch k := g.Intn(20); {
		case k < 10:
			n := 1 + g.Intn(4)
			o := hop{Kind: "tx"}
			for j := 0; j < n; j++ {
				s := g.Intn(h.N)
				var t int64
				if h.Window > 0 && g.Chance(1, 3) {
					back := g.Range(1, min64(h.Window, 3000))
					t = cur - back
				} else {
					cur += g.PickI64(1, 7, 90, 350, 700, g.Range(1, 1200))
					t = cur
				}
				o.S, o.T = append(o.S, s), append(o.T, t)
			}
			h.Ops = append(h.Ops, o)
		case k < 13:
			h.Ops = append(h.Ops, hop{Kind: "compact"})
		case k < 14:
			h.Ops = append(h.Ops, hop{Kind: "compactooo"})
		case k < 15:
			if g.Bool() {
				cur++
				h.Ops = append(h.Ops, hop{Kind: "stale", S: []int{g.Intn(h.N)}, T: []int64{cur}})
				break
			}
			o := hop{Kind: "selected"}
			for s := 0; s < h.N; s++ {
				if g.Bool() {
					o.S = append(o.S, s)
				}
			}
			if len(o.S) > 0 {
				h.Ops = append(h.Ops, o)
			}
		case k < 16:
			if g.Chance(1, 4) {
				// more than 120 samples of one series: the read-only head cuts a chunk while replaying
				o := hop{Kind: "tx"}
				s := g.Intn(h.N)
				for j := 0; j < 125; j++ {
					cur += g.Range(1, 3)
					o.S, o.T = append(o.S, s), append(o.T, cur)
				}
				h.Ops = append(h.Ops, o)
				break
			}
			cur += g.Range(200, 1600)
			h.Ops = append(h.Ops, tx(g.Intn(h.N), cur))
		case k < 17:
			h.Ops = append(h.Ops, hop{Kind: "merge", A: int64(g.Intn(8)), B: int64(g.Intn(8))})
		case k < 18:
			a := cur - g.Range(0, 2500)
			o := hop{Kind: "delete", A: a, B: a + g.Range(0, 600)}
			for s := 0; s < h.N; s++ {
				if g.Bool() || s == 0 {
					o.S = append(o.S, s)
				}
			}
			h.Ops = append(h.Ops, o)
		case k < 19:
			h.Ops = append(h.Ops, hop{Kind: "clean"})
		default:
			h.Ops = append(h.Ops, hop{Kind: "reopen"})
		}
	}
	return h
}

func min64(a, b int64) int64 {
	if a < b {
		return a
	}
	return b
}

type fixed struct {
	Name string
	H    history
	Q    []query // asked after the full-range query, before the generated ones
}

func corpus() []fixed {
	return []fixed{
		// the fixed defect (old cut-off rule): an out-of-order block sorts last
		{Name: "ooo-block-last", H: history{N: 1, Window: 100000, Ops: []hop{tx(0, 100), tx(0, 200), tx(0, 150), {Kind: "compactooo"}}}},
		// out-of-order sample in the WBL below the in-order block's MaxTime
		{Name: "wbl-below-block-maxt", H: history{N: 1, Window: 100000, Ops: []hop{tx(0, 100), tx(0, 200), tx(0, 1700), tx(0, 1800), {Kind: "compact"}, tx(0, 500)}},
			Q: []query{{Mint: 0, Maxt: 900, Sel: []int{0}}}},
		// the same directory asked exactly at the cut-off: the head must be loaded
		{Name: "wbl-at-block-maxt", H: history{N: 1, Window: 100000, Ops: []hop{tx(0, 100), tx(0, 200), tx(0, 1700), tx(0, 1800), {Kind: "compact"}, tx(0, 500)}},
			Q: []query{{Mint: 0, Maxt: 1000, Sel: []int{0}, Outside: true}, {Mint: 400, Maxt: 1000, Sel: []int{0}, Chunk: true}}},
		// an in-order head sample exactly at the cut-off
		{Name: "sample-at-cutoff", H: history{N: 1, Window: 0, Unclean: true, Ops: []hop{tx(0, 100), tx(0, 1000), tx(0, 1700), {Kind: "compact"}}},
			Q: []query{{Mint: 900, Maxt: 1000, Sel: []int{0}}, {Mint: 1000, Maxt: 1000, Sel: []int{0}, Chunk: true, Outside: true}}},
		// head compaction, unclean shutdown, two series
		{Name: "unclean-after-compaction", H: history{N: 2, Window: 0, Unclean: true, Ops: []hop{tx(0, 100, 400), tx(1, 250), tx(0, 1100), tx(1, 1700), tx(0, 2600), {Kind: "compact"}, tx(1, 2700)}}},
		// out-of-order data only in the WBL, no block at all
		{Name: "wbl-only", H: history{N: 1, Window: 100000, Ops: []hop{tx(0, 100), tx(0, 200), tx(0, 300), tx(0, 150)}}},
		// a block compacted from selected series
		{Name: "selected-series-block", H: history{N: 2, Window: 0, Ops: []hop{tx(0, 100), tx(1, 120), tx(0, 200), tx(1, 220), {Kind: "selected", S: []int{0}}, tx(1, 300)}}},
		// negative times, unclean, out-of-order and in-order blocks overlapping
		{Name: "overlap-negative", H: history{N: 2, Window: 2500, Unclean: true, Ops: []hop{tx(0, -2600), tx(1, -2000), tx(0, -900), tx(0, 300), tx(1, 900), {Kind: "compact"}, tx(1, -500), tx(0, -1200), {Kind: "compactooo"}, tx(0, 1300)}}},
		// 130 samples of one series only in the WAL: the read-only head (120 samples per chunk) cuts and
		// m-maps a chunk while replaying - into the sandbox
		{Name: "replay-cuts-chunk", H: history{N: 1, Window: 0, Unclean: true, Ops: []hop{manyTx(0, 130, 10), {Kind: "reopen"}, tx(0, 5000)}}},
		// a head tombstone that ends below the read-only head's MinTime but not below the cut-off, over an
		// out-of-order sample that is still in a head chunk file (needs C01's finding
		// restart-reloads-compacted-ooo-chunk): the read-only open's Init drops the tombstone
		{Name: "dropped-tombstone", H: history{N: 1, Window: 100000, Ops: []hop{tx(0, 100), tx(0, 1700), tx(0, 1800), tx(0, 1750), {Kind: "compact"},
			tx(0, 2600), {Kind: "delete", S: []int{0}, A: 1720, B: 2100}, tx(0, 3400), {Kind: "compact"}}}},
		// empty directory
		{Name: "empty", H: history{N: 1, Window: 0}},
	}
}

// ---------------------------------------------------------------- directories

func copyDir(src, dst string) {
	err := filepath.WalkDir(src, func(p string, d fs.DirEntry, err error) error {
		if err != nil {
			return err
		}
		rel, _ := filepath.Rel(src, p)
		if d.IsDir() {
			return os.MkdirAll(filepath.Join(dst, rel), 0o777)
		}
		if rel == "lock" {
			return nil
		}
		in, err := os.Open(p)
		if err != nil {
			return err
		}
		defer in.Close()
		out, err := os.Create(filepath.Join(dst, rel))
		if err != nil {
			return err
		}
		if _, err := io.Copy(out, in); err != nil {
			out.Close()
			return err
		}
		return out.Close()
	})
	if err != nil {
		panic(err)
	}
}

// interner numbers path components; "chunks_head" is 1.
type interner struct {
	ids   map[string]int64
	names []string
	inos  map[[2]uint64]int64
}

func newInterner() *interner {
	return &interner{ids: map[string]int64{"chunks_head": 1}, names: []string{"", "chunks_head"}, inos: map[[2]uint64]int64{}}
}

func (in *interner) comp(s string) int64 {
	if id, ok := in.ids[s]; ok {
		return id
	}
	id := int64(len(in.names))
	in.ids[s] = id
	in.names = append(in.names, s)
	return id
}

func (in *interner) path(rel string) string {
	var cs []int64
	for _, c := range strings.Split(filepath.ToSlash(rel), "/") {
		cs = append(cs, in.comp(c))
	}
	return listZ(cs)
}

type entry struct {
	Rel  string
	Node int64 // -1 dir, else inode identity
	Hash int64
}

func (in *interner) snapshot(root string) []entry {
	var out []entry
	err := filepath.WalkDir(root, func(p string, d fs.DirEntry, err error) error {
		if err != nil {
			return err
		}
		if p == root {
			return nil
		}
		rel, _ := filepath.Rel(root, p)
		fi, err := os.Lstat(p)
		if err != nil {
			return err
		}
		if fi.IsDir() {
			out = append(out, entry{Rel: rel, Node: -1})
			return nil
		}
		st := fi.Sys().(*syscall.Stat_t)
		key := [2]uint64{uint64(st.Dev), st.Ino}
		id, ok := in.inos[key]
		if !ok {
			id = int64(len(in.inos))
			in.inos[key] = id
		}
		h := sha256.New()
		fmt.Fprintf(h, "%o %d\n", fi.Mode(), fi.Size())
		if fi.Mode().IsRegular() {
			f, err := os.Open(p)
			if err != nil {
				return err
			}
			_, err = io.Copy(h, f)
			f.Close()
			if err != nil {
				return err
			}
		}
		sum := h.Sum(nil)
		out = append(out, entry{Rel: rel, Node: id, Hash: int64(binary.BigEndian.Uint64(sum[:8]) >> 4)})
		return nil
	})
	if err != nil {
		panic(err)
	}
	sort.Slice(out, func(i, j int) bool { return out[i].Rel < out[j].Rel })
	return out
}

func (in *interner) gEntries(es []entry) string {
	items := make([]string, len(es))
	for i, e := range es {
		items[i] = fmt.Sprintf("(%s, %s, %s)", in.path(e.Rel), z(e.Node), z(e.Hash))
	}
	return gallina.List(items)
}

// diff returns the entries of b that are not (identically) in a, and those of a not in b.
func diff(a, b []entry) (added, gone []entry) {
	ina, inb := map[entry]bool{}, map[entry]bool{}
	for _, e := range a {
		ina[e] = true
	}
	for _, e := range b {
		inb[e] = true
		if !ina[e] {
			added = append(added, e)
		}
	}
	for _, e := range a {
		if !inb[e] {
			gone = append(gone, e)
		}
	}
	return added, gone
}

// z prints a Z numeral (the case files open Z_scope).
func z(v int64) string {
	if v < 0 {
		return fmt.Sprintf("(%d)", v)
	}
	return fmt.Sprintf("%d", v)
}

func listZ(vs []int64) string {
	it := make([]string, len(vs))
	for i, v := range vs {
		it[i] = z(v)
	}
	return gallina.List(it)
}

func sameEntries(a, b []entry) bool {
	if len(a) != len(b) {
		return false
	}
	for i := range a {
		if a[i] != b[i] {
			return false
		}
	}
	return true
}

// ---------------------------------------------------------------- decoding

type sdata map[int][]tsdbx.Sample

func collect(ss storage.SeriesSet) ([]tsdbx.Series, error) {
	var out []tsdbx.Series
	for ss.Next() {
		s := ss.At()
		r := tsdbx.Series{Labels: s.Labels().String()}
		it := s.Iterator(nil)
		for it.Next() == chunkenc.ValFloat {
			t, v := it.At()
			r.Samples = append(r.Samples, tsdbx.Sample{T: t, V: v})
		}
		if it.Err() != nil {
			return nil, it.Err()
		}
		out = append(out, r)
	}
	sort.SliceStable(out, func(i, j int) bool { return out[i].Labels < out[j].Labels })
	return out, ss.Err()
}

func collectChunks(ss storage.ChunkSeriesSet, mint, maxt int64) ([]tsdbx.Series, error) {
	var out []tsdbx.Series
	for ss.Next() {
		s := ss.At()
		r := tsdbx.Series{Labels: s.Labels().String()}
		it := s.Iterator(nil)
		for it.Next() {
			ci := it.At().Chunk.Iterator(nil)
			for ci.Next() == chunkenc.ValFloat {
				t, v := ci.At()
				r.Samples = append(r.Samples, tsdbx.Sample{T: t, V: v})
			}
			if ci.Err() != nil {
				return nil, ci.Err()
			}
		}
		if it.Err() != nil {
			return nil, it.Err()
		}
		out = append(out, r)
	}
	sort.SliceStable(out, func(i, j int) bool { return out[i].Labels < out[j].Labels })
	return tsdbx.InRange(out, mint, maxt), ss.Err()
}

type blockInfo struct {
	ULID       string
	MinT, MaxT int64
	Hint       bool
	Data       []tsdbx.Series
}

func readBlocks(dir string) []blockInfo {
	es, err := os.ReadDir(dir)
	if err != nil {
		panic(err)
	}
	var out []blockInfo
	for _, e := range es {
		if _, err := ulid.ParseStrict(e.Name()); err != nil || !e.IsDir() {
			continue
		}
		b, err := tsdb.OpenBlock(nil, filepath.Join(dir, e.Name()), nil, nil)
		if err != nil {
			panic(err)
		}
		m := b.Meta()
		q, err := tsdb.NewBlockQuerier(b, math.MinInt64, math.MaxInt64)
		if err != nil {
			panic(err)
		}
		data, err := collect(q.Select(context.Background(), true, nil, tsdbx.MatchAll("a")))
		if err != nil {
			panic(err)
		}
		q.Close()
		b.Close()
		out = append(out, blockInfo{ULID: e.Name(), MinT: m.MinTime, MaxT: m.MaxTime,
			Hint: m.Compaction.FromOutOfOrder() || m.Compaction.FromStaleSeries() || m.Compaction.FromSelectedSeries(), Data: data})
	}
	return out
}

func cutoffNew(bs []blockInfo) int64 {
	m := int64(math.MinInt64)
	for _, b := range bs {
		if !b.Hint && b.MaxT > m {
			m = b.MaxT
		}
	}
	return m
}

func cutoffOld(bs []blockInfo) int64 {
	if len(bs) == 0 {
		return math.MinInt64
	}
	s := append([]blockInfo(nil), bs...)
	sort.SliceStable(s, func(i, j int) bool { return s[i].MinT < s[j].MinT })
	return s[len(s)-1].MaxT
}

type headInfo struct {
	Min, Max, OOMin, OOMax int64
	IO, OOO                map[int][]int64
	Tomb                   [][3]int64 // series, mint, maxt
	Err                    string
}

// oracle runs the real Head.Init(mv) on a private copy of the directory, with the head options
// the read-only open uses: samples and times from a head that was not truncated before Init
// (like the read-only open's), the replayed tombstones from a second run with
// Head.Truncate(mv) first (like tsdb.Open's reload: Init's final gc then keeps every replayed
// tombstone, they all end at or above mv).
func oracle(src, scratch string, mv int64) headInfo {
	hi := oracleRun(src, scratch, mv, false)
	if hi.Err == "" && mv > math.MinInt64 {
		t := oracleRun(src, scratch, mv, true)
		if t.Err != "" {
			hi.Err = t.Err
		}
		hi.Tomb = t.Tomb
	}
	return hi
}

func oracleRun(src, scratch string, mv int64, truncateFirst bool) headInfo {
	dir, err := os.MkdirTemp(scratch, "oracle")
	if err != nil {
		panic(err)
	}
	defer os.RemoveAll(dir)
	copyDir(src, dir)
	w, err := wlog.Open(nil, filepath.Join(dir, "wal"))
	if err != nil {
		return headInfo{Err: err.Error()}
	}
	var wbl *wlog.WL
	if _, err := os.Stat(filepath.Join(dir, wlog.WblDirName)); !os.IsNotExist(err) {
		wbl, err = wlog.Open(nil, filepath.Join(dir, wlog.WblDirName))
		if err != nil {
			return headInfo{Err: err.Error()}
		}
	}
	opts := tsdb.DefaultHeadOptions()
	opts.ChunkDirRoot = dir
	h, err := tsdb.NewHead(nil, nil, w, wbl, opts, tsdb.NewHeadStats())
	if err != nil {
		return headInfo{Err: err.Error()}
	}
	defer h.Close()
	if truncateFirst {
		if err := h.Truncate(mv); err != nil {
			return headInfo{Err: err.Error()}
		}
	}
	if err := h.Init(mv); err != nil {
		return headInfo{Err: err.Error()}
	}
	hi := headInfo{Min: h.MinTime(), Max: h.MaxTime(), OOMin: h.MinOOOTime(), OOMax: h.MaxOOOTime(), IO: map[int][]int64{}, OOO: map[int][]int64{}}
	stones := h.VerifTombstones()
	if os.Getenv("C53_DEBUG") != "" {
		fmt.Fprintf(os.Stderr, "oracle(%d,%v) tombstones %v dump %+v\n", mv, truncateFirst, stones, h.VerifDump())
	}
	for _, s := range h.VerifDump() {
		i := sidOf(s.Labels.String())
		for _, c := range s.InOrder {
			for _, x := range c.Samples {
				hi.IO[i] = append(hi.IO[i], x.T)
			}
		}
		for _, c := range s.OOO {
			for _, x := range c.Samples {
				hi.OOO[i] = append(hi.OOO[i], x.T)
			}
		}
		for _, iv := range stones[s.Ref] {
			hi.Tomb = append(hi.Tomb, [3]int64{int64(i), iv[0], iv[1]})
		}
	}
	return hi
}

// visible applies the tombstones that survive Init's gc at Head.MinTime() = minT.
func (h headInfo) visible(minT int64, s int, ts []int64) []int64 {
	var out []int64
	for _, t := range ts {
		hid := false
		for _, tb := range h.Tomb {
			if tb[0] == int64(s) && tb[2] >= minT && tb[1] <= t && t <= tb[2] {
				hid = true
			}
		}
		if !hid {
			out = append(out, t)
		}
	}
	return out
}

// ---------------------------------------------------------------- Gallina

func gSdataT(m map[int][]int64) string {
	var ks []int
	for k := range m {
		ks = append(ks, k)
	}
	sort.Ints(ks)
	var items []string
	for _, k := range ks {
		items = append(items, gallina.Pair(z(int64(k)), listZ(m[k])))
	}
	return gallina.List(items)
}

func gSeriesT(ss []tsdbx.Series) string {
	m := map[int][]int64{}
	for _, s := range ss {
		i := sidOf(s.Labels)
		for _, x := range s.Samples {
			m[i] = append(m[i], x.T)
		}
	}
	return gSdataT(m)
}

// answer with values: list (sid * list (Z*Z)), series in label order (= sid order for < 10 series)
func gOAnswer(ss []tsdbx.Series) string {
	var items []string
	for _, s := range ss {
		var ps []string
		for _, x := range s.Samples {
			ps = append(ps, gallina.Pair(z(x.T), z(code(x.V))))
		}
		items = append(items, gallina.Pair(z(int64(sidOf(s.Labels))), gallina.List(ps)))
	}
	return gallina.List(items)
}

func gHead(h headInfo) string {
	var tb []string
	for _, t := range h.Tomb {
		tb = append(tb, fmt.Sprintf("(%s, (%s, %s))", z(t[0]), z(t[1]), z(t[2])))
	}
	return fmt.Sprintf("(mkH %s %s %s %s %s %s %s)", z(h.Min), z(h.Max), gSdataT(h.IO), gSdataT(h.OOO), z(h.OOMin), z(h.OOMax), gallina.List(tb))
}

func gSel(sel []int) string {
	var zs []int64
	for _, s := range sel {
		zs = append(zs, int64(s))
	}
	return listZ(zs)
}

func matcher(sel []int) *labels.Matcher {
	var alts []string
	for _, s := range sel {
		alts = append(alts, fmt.Sprintf("s%d", s))
	}
	return labels.MustNewMatcher(labels.MatchRegexp, "a", strings.Join(alts, "|"))
}

// ---------------------------------------------------------------- one case

type query struct {
	Mint, Maxt int64
	Sel        []int
	Chunk      bool
	Outside    bool
}

type caseDesc struct {
	Shape   string   `json:"shape"`
	Name    string   `json:"name"`
	Part    string   `json:"part"` // "sessions" | "flush"
	History history  `json:"history"`
	Blocks  []string `json:"blocks"`
	Cutoff  int64    `json:"cutoff"`
	CutOld  int64    `json:"cutoff_old"`
	Queries []query  `json:"queries,omitempty"`
	Notes   []string `json:"notes,omitempty"`
}

func seriesEqual(a, b []tsdbx.Series) bool {
	a, b = nonEmpty(a), nonEmpty(b)
	if len(a) != len(b) {
		return false
	}
	for i := range a {
		if a[i].Labels != b[i].Labels || len(a[i].Samples) != len(b[i].Samples) {
			return false
		}
		for j := range a[i].Samples {
			if a[i].Samples[j].T != b[i].Samples[j].T || code(a[i].Samples[j].V) != code(b[i].Samples[j].V) {
				return false
			}
		}
	}
	return true
}

// onlyDroppedTombstones: the read-only answer is the read-write answer plus samples that a head
// tombstone ending below the read-only head's MinTime (dropped by its Init's gc) covers.
func onlyDroppedTombstones(ro, rw []tsdbx.Series, h headInfo, cut int64) bool {
	roMinT := h.Min
	if roMinT < cut {
		roMinT = cut
	}
	in := func(ss []tsdbx.Series) map[[2]int64]bool {
		m := map[[2]int64]bool{}
		for _, s := range ss {
			for _, x := range s.Samples {
				m[[2]int64{int64(sidOf(s.Labels)), x.T}] = true
			}
		}
		return m
	}
	a, b := in(ro), in(rw)
	for k := range b {
		if !a[k] {
			return false
		}
	}
	extra := false
	for k := range a {
		if b[k] {
			continue
		}
		extra = true
		ok := false
		for _, tb := range h.Tomb {
			if tb[0] == k[0] && tb[2] < roMinT && tb[1] <= k[1] && k[1] <= tb[2] {
				ok = true
			}
		}
		if !ok {
			return false
		}
	}
	return extra
}

func nonEmpty(a []tsdbx.Series) []tsdbx.Series {
	var out []tsdbx.Series
	for _, s := range a {
		if len(s.Samples) > 0 {
			out = append(out, s)
		}
	}
	return out
}

func runCase(id int, name string, h history, fq []query, g *gen.Rand, outDir string, nq int, cf *gallina.CaseFile, meta *gallina.Meta) {
	t0 := time.Now()
	lap := func(what string) {
		if os.Getenv("C53_TRACE") != "" {
			fmt.Fprintf(os.Stderr, "case %d %s %v\n", id, what, time.Since(t0))
		}
	}
	base, err := os.MkdirTemp(outDir, "c53_")
	if err != nil {
		panic(err)
	}
	defer os.RemoveAll(base)
	opts := tsdbx.Options{BlockRange: blockRange, OOOWindow: h.Window, SamplesPerChunk: 1 << 20, Overlapping: true}

	// 1. the history
	live := filepath.Join(base, "live")
	d, err := tsdbx.Open(live, opts)
	if err != nil {
		panic(err)
	}
	r := &runner{d: d}
	for _, o := range h.Ops {
		r.apply(o)
	}
	master := filepath.Join(base, "master")
	if h.Unclean {
		copyDir(live, master)
		meta.Hit("end:unclean")
	}
	if err := r.d.DB.Close(); err != nil {
		panic(err)
	}
	if !h.Unclean {
		copyDir(live, master)
		meta.Hit("end:clean")
	}
	os.RemoveAll(live)
	for range r.log {
		meta.Hit("history-op-error")
	}

	lap("history")
	// 2. what is in the directory
	blocks := readBlocks(master)
	cNew, cOld := cutoffNew(blocks), cutoffOld(blocks)
	desc := caseDesc{Name: name, History: h, Cutoff: cNew, CutOld: cOld, Notes: r.log}
	var gBlocks []string
	hinted, overlap := 0, false
	for i, b := range blocks {
		desc.Blocks = append(desc.Blocks, fmt.Sprintf("%s [%d,%d) hint=%v", b.ULID, b.MinT, b.MaxT, b.Hint))
		gBlocks = append(gBlocks, fmt.Sprintf("(mkB %s %s %s %s)", z(b.MinT), z(b.MaxT), gallina.Bool(b.Hint), gSeriesT(b.Data)))
		if b.Hint {
			hinted++
		}
		for _, c := range blocks[:i] {
			if b.MinT < c.MaxT && c.MinT < b.MaxT {
				overlap = true
			}
		}
	}
	scratch := filepath.Join(base, "scratch")
	os.MkdirAll(scratch, 0o777)
	table := map[int64]headInfo{cNew: oracle(master, scratch, cNew)}
	if _, ok := table[cOld]; !ok {
		table[cOld] = oracle(master, scratch, cOld)
	}
	var gTable []string
	for _, k := range []int64{cNew, cOld} {
		if k == cOld && cOld == cNew && len(gTable) > 0 {
			continue
		}
		if table[k].Err != "" {
			meta.Hit("oracle-init-error")
			desc.Notes = append(desc.Notes, "oracle: "+table[k].Err)
		}
		gTable = append(gTable, gallina.Pair(z(k), gHead(table[k])))
	}
	lap("blocks+oracle")
	hN := table[cNew]
	all := make([]int, h.N)
	for i := range all {
		all[i] = i
	}

	// partition classes
	switch {
	case len(blocks) == 0:
		meta.Hit("blocks:none")
	case hinted == 0:
		meta.Hit("blocks:in-order-only")
	case hinted == len(blocks):
		meta.Hit("blocks:hinted-only")
	default:
		meta.Hit("blocks:mixed")
	}
	if overlap {
		meta.Hit("blocks:overlapping")
	}
	if cNew != cOld {
		meta.Hit("cutoff:old-rule-differs")
	}
	if len(hN.OOO) > 0 {
		meta.Hit("head:ooo-data")
	}
	if len(hN.IO) > 0 {
		meta.Hit("head:in-order-data")
	}

	// 3. queries
	var qs []query
	qs = append(qs, query{Mint: math.MinInt64, Maxt: math.MaxInt64, Sel: all})
	qs = append(qs, fq...)
	for len(qs) < nq {
		var q query
		q.Chunk = g.Chance(1, 3)
		q.Outside = g.Bool()
		q.Sel = all
		if h.N > 1 && g.Chance(1, 3) {
			q.Sel = nil
			for s := 0; s < h.N; s++ {
				if g.Bool() || (s == h.N-1 && len(q.Sel) == 0) {
					q.Sel = append(q.Sel, s)
				}
			}
		}
		pts := []int64{cNew - 1, cNew, cNew + 1, cOld - 1, cOld, hN.Min - 1, hN.Min, hN.Max, hN.OOMin, hN.OOMax, hN.OOMin - 1}
		var ok []int64
		for _, p := range pts {
			if p > math.MinInt64+2 && p < math.MaxInt64-2 {
				ok = append(ok, p)
			}
		}
		if len(ok) > 0 && g.Chance(2, 3) {
			q.Maxt = gen.Pick(g, ok)
		} else {
			q.Maxt = g.Range(-3000, 6000)
		}
		switch g.Intn(3) {
		case 0:
			q.Mint = math.MinInt64
		case 1:
			q.Mint = q.Maxt - g.Range(0, 3000)
		default:
			q.Mint = g.Range(-3000, 3000)
			if q.Mint > q.Maxt {
				q.Mint = q.Maxt
			}
		}
		qs = append(qs, q)
	}
	desc.Queries = qs

	// 4. read-write open of a copy
	rwDir := filepath.Join(base, "rw")
	copyDir(master, rwDir)
	rw, err := tsdbx.Open(rwDir, opts)
	if err != nil {
		panic(fmt.Sprintf("case %d: read-write open: %v", id, err))
	}
	rwMin, _, rwMV := rw.HeadTimes()
	if os.Getenv("C53_DEBUG") != "" {
		fmt.Fprintf(os.Stderr, "case %d rw head: %+v\n tombstones %v\n oracle %+v\n", id, rw.HeadDump(), rw.HeadTombstones(), hN)
	}
	rwRes := make([][]tsdbx.Series, len(qs))
	for i, q := range qs {
		if q.Chunk {
			rwRes[i], err = rw.ChunkQuery(q.Mint, q.Maxt, matcher(q.Sel))
		} else {
			rwRes[i], err = rw.Query(q.Mint, q.Maxt, matcher(q.Sel))
		}
		if err != nil {
			panic(err)
		}
	}
	for _, l := range rw.Logs() {
		if strings.Contains(l, "failed") {
			meta.Hit("rw-open:" + strings.SplitN(l, ": ", 2)[1])
		}
	}
	if err := rw.DB.Close(); err != nil {
		panic(err)
	}

	lap("rw")
	// 5. read-only sessions on another copy; the tree root holds the data directory "ro" and the
	// directory "sb" for sandboxes outside the data directory
	root := filepath.Join(base, "tree")
	roDir := filepath.Join(root, "ro")
	sbRoot := filepath.Join(root, "sb")
	copyDir(master, roDir)
	os.MkdirAll(sbRoot, 0o777)
	in := newInterner()
	before := in.snapshot(root)
	var gSess []string
	sessFail, belowFail, tombFail, otherFail := false, false, false, false
	for i, q := range qs {
		sroot := ""
		if q.Outside {
			sroot = sbRoot
			meta.Hit("sandbox:outside")
		} else {
			meta.Hit("sandbox:inside")
		}
		ro, err := tsdb.OpenDBReadOnly(roDir, sroot, nil)
		if err != nil {
			panic(err)
		}
		var res []tsdbx.Series
		var info tsdb.VerifROHead
		var during []entry
		if q.Chunk {
			cq, inf, err := ro.VerifChunkQuerier(q.Mint, q.Maxt)
			if err != nil {
				panic(fmt.Sprintf("case %d: read-only chunk querier: %v", id, err))
			}
			info = inf
			res, err = collectChunks(cq.Select(context.Background(), true, nil, matcher(q.Sel)), q.Mint, q.Maxt)
			if err != nil {
				panic(err)
			}
			during = in.snapshot(root)
			cq.Close()
		} else {
			qq, inf, err := ro.VerifQuerier(q.Mint, q.Maxt)
			if err != nil {
				panic(fmt.Sprintf("case %d: read-only querier: %v", id, err))
			}
			info = inf
			res, err = collect(qq.Select(context.Background(), true, nil, matcher(q.Sel)))
			if err != nil {
				panic(err)
			}
			during = in.snapshot(root)
			qq.Close()
		}
		sb, _ := filepath.Rel(root, ro.VerifSandboxDir())
		if err := ro.Close(); err != nil {
			panic(err)
		}
		after := in.snapshot(root)
		if !sameEntries(before, after) {
			meta.Hit("tree-changed-after-close")
			otherFail = true
		}
		if !seriesEqual(res, rwRes[i]) {
			sessFail = true
			switch {
			case q.Maxt < cNew:
				belowFail = true
				meta.Hit("ro!=rw:maxt-below-cutoff")
			case onlyDroppedTombstones(res, rwRes[i], hN, cNew):
				tombFail = true
				meta.Hit("ro!=rw:tombstone-dropped-by-read-only-head")
			default:
				otherFail = true
				meta.Hit("ro!=rw:other")
			}
		}
		if q.Maxt < cNew {
			meta.Hit("query:maxt-below-cutoff")
		} else {
			meta.Hit("query:wal-loaded")
		}
		dNew, dGone := diff(before, during)
		aNew, aGone := diff(before, after)
		if len(dGone) > 0 {
			meta.Hit("tree-changed-while-open")
			otherFail = true
		}
		gSess = append(gSess, fmt.Sprintf("(mkSess %s %s %s %s %s %s %s %s %s %s %s %s)",
			z(q.Mint), z(q.Maxt), gSel(q.Sel), gOAnswer(res), gOAnswer(rwRes[i]),
			z(info.MinValidTime), z(info.MinTime), in.path(sb),
			in.gEntries(dNew), in.gEntries(dGone), in.gEntries(aNew), in.gEntries(aGone)))
	}
	_ = sessFail
	sdesc := desc
	sdesc.Part = "sessions"
	sdesc.Shape = "clean"
	if (belowFail || tombFail) && !otherFail {
		var keys []string
		if belowFail {
			keys = append(keys, "ro-skips-head-when-blocks-cover-maxt")
		}
		if tombFail {
			keys = append(keys, "ro-drops-head-tombstone-below-head-mintime")
		}
		sdesc.Shape = strings.Join(keys, "+")
	}
	dirPath := in.path("ro")
	cf.Add(fmt.Sprintf("(mkCase %s %s %s %s %s %s %s %s %s false None)",
		z(int64(2*id)), gallina.List(gBlocks), gallina.List(gTable), gSel(all),
		z(rwMV), z(rwMin), dirPath, in.gEntries(before), gallina.List(gSess)))
	meta.Case(2*id, sdesc)

	lap("sessions")
	// 6. FlushWAL on yet another copy
	flRoot := filepath.Join(base, "fl")
	flDir := filepath.Join(flRoot, "ro")
	flOut := filepath.Join(base, "flout")
	copyDir(master, flDir)
	os.MkdirAll(flOut, 0o777)
	in2 := newInterner()
	flBefore := in2.snapshot(flRoot)
	ro, err := tsdb.OpenDBReadOnly(flDir, "", nil)
	if err != nil {
		panic(err)
	}
	ferr := ro.FlushWAL(flOut)
	if err := ro.Close(); err != nil {
		panic(err)
	}
	gFlush := "None"
	fdesc := desc
	if flAfter := in2.snapshot(flRoot); !sameEntries(flBefore, flAfter) {
		meta.Hit("observation:flushwal-changed-data-dir")
		added, gone := diff(flBefore, flAfter)
		for _, e := range added {
			fdesc.Notes = append(fdesc.Notes, "FlushWAL left new/changed "+e.Rel)
		}
		for _, e := range gone {
			fdesc.Notes = append(fdesc.Notes, "FlushWAL removed/changed "+e.Rel)
		}
	}
	fdesc.Part = "flush"
	fdesc.Queries = nil
	fdesc.Shape = "clean"
	var flushed []tsdbx.Series
	if ferr != nil {
		meta.Hit("flushwal-error")
		fdesc.Notes = append(fdesc.Notes, "FlushWAL: "+ferr.Error())
		fdesc.Shape = "flushwal-error"
	} else {
		fb := readBlocks(flOut)
		switch len(fb) {
		case 0:
			meta.Hit("flush:no-block")
		case 1:
			meta.Hit("flush:block")
			flushed = fb[0].Data
			gFlush = fmt.Sprintf("(Some (%s, %s, %s))", z(fb[0].MinT), z(fb[0].MaxT), gSeriesT(fb[0].Data))
		default:
			meta.Hit("flush:several-blocks")
			fdesc.Shape = "flushwal-several-blocks"
		}
	}
	lap("flush")
	// expected head data, for the shape only (holds decides in Coq)
	want := map[int]map[int64]bool{}
	roMinT := hN.Min
	if roMinT < cNew {
		roMinT = cNew
	}
	for _, m := range []map[int][]int64{hN.IO, hN.OOO} {
		for s, ts := range m {
			for _, t := range hN.visible(roMinT, s, ts) {
				if want[s] == nil {
					want[s] = map[int64]bool{}
				}
				want[s][t] = true
			}
		}
	}
	got := map[int]map[int64]bool{}
	for _, s := range flushed {
		for _, x := range s.Samples {
			i := sidOf(s.Labels)
			if got[i] == nil {
				got[i] = map[int64]bool{}
			}
			got[i][x.T] = true
		}
	}
	// which part of the head data is missing / what is there in excess
	missIO, missOOO, extra := false, false, false
	isOOO := map[[2]int64]bool{}
	for s, ts := range hN.OOO {
		for _, t := range ts {
			isOOO[[2]int64{int64(s), t}] = true
		}
	}
	for s, ts := range want {
		for t := range ts {
			if !got[s][t] {
				if isOOO[[2]int64{int64(s), t}] {
					missOOO = true
				} else {
					missIO = true
				}
			}
		}
	}
	for s, ts := range got {
		for t := range ts {
			if !want[s][t] {
				extra = true
			}
		}
	}
	if (missIO || missOOO || extra) && fdesc.Shape == "clean" {
		var causes []string
		if (missIO || extra) && cOld != cNew {
			causes = append(causes, "flushwal-cutoff-from-last-block")
		}
		if missOOO {
			causes = append(causes, "flushwal-omits-out-of-order-head-data")
		}
		if len(causes) > 0 && !((missIO || extra) && cOld == cNew) {
			fdesc.Shape = strings.Join(causes, "+")
		}
		meta.Hit("flush!=head-data:" + fdesc.Shape)
	}
	cf.Add(fmt.Sprintf("(mkCase %s %s %s %s %s %s %s [] [] %s %s)",
		z(int64(2*id+1)), gallina.List(gBlocks), gallina.List(gTable), gSel(all),
		z(rwMV), z(rwMin), dirPath, gallina.Bool(ferr == nil), gFlush))
	meta.Case(2*id+1, fdesc)
}

func main() {
	f := gallina.ParseFlags()
	meta := gallina.NewMeta("C53", f.Seed, f.Tier)
	cf := &gallina.CaseFile{Dir: f.Out, PerShard: 40,
		Preamble: "From Coq Require Import List ZArith Bool.\nFrom Verif Require Import lib.Int64 model.ReadOnly corr.CorrC53.\nImport ListNotations.\nOpen Scope Z_scope.\n",
		Type:     "case", Footer: gallina.StdFooter}
	nq := 3
	if f.Tier == "thorough" {
		nq = 5
	}
	id := 0
	only := -1
	if s := os.Getenv("C53_ONLY"); s != "" {
		fmt.Sscanf(s, "%d", &only)
	}
	distinct := map[string]bool{}
	run := func(name string, h history, fq []query, g *gen.Rand) {
		if only < 0 || only == id {
			runCase(id, name, h, fq, g, f.Out, nq, cf, meta)
			distinct[fmt.Sprintf("%v", h)] = true
		}
		id++
	}
	for _, c := range corpus() {
		run(c.Name, c.H, c.Q, gen.Fork(f.Seed, id))
	}
	n := f.Count(5, 150)
	for i := 0; i < n; i++ {
		g := gen.Fork(f.Seed, id)
		run("random", genHistory(g), nil, g)
	}
	cf.Flush()
	meta.Evaluations = 2 * id
	meta.Nontrivial = len(distinct)
	meta.Rule = "distinct histories (each gives one sessions case and one FlushWAL case); a history is counted once whatever its queries"
	meta.Write(f.Out)
}

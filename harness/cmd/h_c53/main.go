package main

import (
	"fmt"
	"math"
	"os"
	"path/filepath"

	"github.com/prometheus/prometheus/model/labels"
	"github.com/prometheus/prometheus/tsdb"
	"github.com/prometheus/prometheus/tsdb/chunkenc"
	"context"

	"verif/harness/internal/tsdbx"
)

func lbl(i int) labels.Labels { return labels.FromStrings("a", fmt.Sprintf("s%d", i)) }

func roQuery(dir string, mint, maxt int64) ([]tsdbx.Series, error) {
	ro, err := tsdb.OpenDBReadOnly(dir, "", nil)
	if err != nil {
		return nil, err
	}
	defer ro.Close()
	q, err := ro.Querier(mint, maxt)
	if err != nil {
		return nil, err
	}
	defer q.Close()
	ss := q.Select(context.Background(), true, nil, tsdbx.MatchAll("a"))
	var out []tsdbx.Series
	for ss.Next() {
		s := ss.At()
		r := tsdbx.Series{Labels: s.Labels().String()}
		it := s.Iterator(nil)
		for it.Next() == chunkenc.ValFloat {
			t, v := it.At()
			r.Samples = append(r.Samples, tsdbx.Sample{T: t, V: v})
		}
		out = append(out, r)
	}
	return out, ss.Err()
}

func main() {
	base, _ := os.MkdirTemp("", "c53x")
	defer os.RemoveAll(base)
	opts := tsdbx.Options{BlockRange: 1000, OOOWindow: 100000, SamplesPerChunk: 1 << 20}
	tx := func(d *tsdbx.DB, ts ...int64) {
		var reqs []tsdbx.AppendReq
		for _, t := range ts {
			reqs = append(reqs, tsdbx.AppendReq{Labels: lbl(0), T: t, V: float64(t)})
		}
		res, err := d.Tx(reqs, true)
		fmt.Println("tx", ts, res, err)
	}
	{
		dir := filepath.Join(base, "e1")
		d, err := tsdbx.Open(dir, opts)
		if err != nil { panic(err) }
		tx(d, 100); tx(d, 200); tx(d, 150)
		fmt.Println(d.CompactOOOHead())
		fmt.Println(d.Blocks())
		d.DB.Close()
		r, err := roQuery(dir, math.MinInt64, math.MaxInt64)
		fmt.Println("E1 ro", r, err)
		ro, _ := tsdb.OpenDBReadOnly(dir, "", nil)
		fl := filepath.Join(base, "e1flush")
		os.MkdirAll(fl, 0o777)
		fmt.Println("flush", ro.FlushWAL(fl))
		ro.Close()
		es, _ := os.ReadDir(fl)
		for _, e := range es { fmt.Println(" flushed:", e.Name()) }
		d2, _ := tsdbx.Open(fl, opts)
		fmt.Println(d2.Blocks())
		r2, _ := d2.Query(math.MinInt64, math.MaxInt64, tsdbx.MatchAll("a"))
		fmt.Println("E3 flushed content", r2)
		d2.DB.Close()
		d, _ = tsdbx.Open(dir, opts)
		r, err = d.Query(math.MinInt64, math.MaxInt64, tsdbx.MatchAll("a"))
		fmt.Println("E1 rw", r, err)
		d.DB.Close()
	}
	{
		dir := filepath.Join(base, "e2")
		d, err := tsdbx.Open(dir, opts)
		if err != nil { panic(err) }
		tx(d, 100); tx(d, 200); tx(d, 1700); tx(d, 1800)
		fmt.Println(d.Compact())
		fmt.Println(d.Blocks())
		tx(d, 500)
		d.DB.Close()
		for _, mx := range []int64{900, 999, 1000, 5000} {
			r, err := roQuery(dir, 0, mx)
			fmt.Println("E2 ro", mx, r, err)
		}
		d, _ = tsdbx.Open(dir, opts)
		for _, mx := range []int64{900, 999, 1000, 5000} {
			r, err := d.Query(0, mx, tsdbx.MatchAll("a"))
			fmt.Println("E2 rw", mx, r, err)
		}
		d.DB.Close()
	}
}

// Package tsdbx drives a real tsdb.DB for the verification harnesses (C01 and the TSDB
// properties built on the same model: C02, C22, C23, C52, C53, ...).
//
// It opens a DB in a caller supplied directory with explicit options (background compaction
// disabled, small block range, explicit out-of-order window), applies operations one at a time
// (transactions of float appends with per-sample error capture, Delete, Compact,
// CompactOOOHead, "merge these blocks", CleanTombstones, Close+reopen) and returns canonical
// observations (query results as sorted sample lists, block metas, head times, a dump of the
// head's chunks). Everything is single threaded; no wall-clock value is ever returned.
//
// Needs the build tag `verif` (it uses /repo/tsdb/zz_verif_export_c01.go).
package tsdbx

import (
	"context"
	"errors"
	"fmt"
	"log/slog"
	"math"
	"path/filepath"
	"sort"
	"strings"
	"sync"
	"time"

	"github.com/oklog/ulid/v2"
	"github.com/prometheus/client_golang/prometheus"

	"github.com/prometheus/prometheus/model/histogram"
	"github.com/prometheus/prometheus/model/labels"
	"github.com/prometheus/prometheus/model/value"
	"github.com/prometheus/prometheus/storage"
	"github.com/prometheus/prometheus/tsdb"
	"github.com/prometheus/prometheus/tsdb/chunkenc"
	"github.com/prometheus/prometheus/tsdb/chunks"
)

// Options are the knobs the harnesses vary. Zero values mean "Prometheus default".
type Options struct {
	BlockRange      int64 // MinBlockDuration (= head chunk range); MaxBlockDuration is 27x
	OOOWindow       int64 // OutOfOrderTimeWindow (0 = out-of-order ingestion disabled)
	OOOCapMax       int64 // OutOfOrderCapMax (0 = default 32)
	SamplesPerChunk int   // 0 = default 120
	IsolationOff    bool
	Overlapping     bool // EnableOverlappingCompaction
	Snapshot        bool // EnableMemorySnapshotOnShutdown
	XOR2            bool // FloatChunkEncoding = XOR2
}

// Sample is one float sample.
type Sample struct {
	T int64
	V float64
}

// Series is one series of a query result (samples in the order the querier returned them).
type Series struct {
	Labels  string // labels.Labels.String()
	Samples []Sample
}

// ErrKind is a small enum of append / operation results.
type ErrKind int

const (
	OK ErrKind = iota
	ErrOutOfOrder
	ErrOutOfBounds
	ErrTooOld
	ErrDuplicate
	ErrOther
)

func (e ErrKind) String() string {
	return [...]string{"ok", "out-of-order", "out-of-bounds", "too-old", "duplicate", "other"}[e]
}

// Kind maps an error of the storage layer to ErrKind.
func Kind(err error) ErrKind {
	switch {
	case err == nil:
		return OK
	case errors.Is(err, storage.ErrOutOfOrderSample):
		return ErrOutOfOrder
	case errors.Is(err, storage.ErrOutOfBounds):
		return ErrOutOfBounds
	case errors.Is(err, storage.ErrTooOldSample):
		return ErrTooOld
	case errors.Is(err, storage.ErrDuplicateSampleForTimestamp):
		return ErrDuplicate
	default:
		return ErrOther
	}
}

// BlockInfo is the part of a block's meta.json the models talk about.
type BlockInfo struct {
	ULID       string
	MinT, MaxT int64
	OOO        bool // Compaction.FromOutOfOrder()
	Level      int
	NumSamples uint64
	NumSeries  uint64
	NumStones  uint64
	Parents    int
}

// plannedCompactor wraps the real LeveledCompactor; Plan returns what the harness queued
// (so that "merge these blocks" goes through the real DB.Compact -> compactBlocks ->
// LeveledCompactor.Compact -> reloadBlocks path) or, with UsePlanner, the real plan.
type plannedCompactor struct {
	tsdb.Compactor
	next       [][]string
	usePlanner bool
}

func (p *plannedCompactor) Plan(dir string) ([]string, error) {
	if p.usePlanner {
		return p.Compactor.Plan(dir)
	}
	if len(p.next) == 0 {
		return nil, nil
	}
	n := p.next[0]
	p.next = p.next[1:]
	return n, nil
}

// logBuf is a slog.Handler that keeps the messages of level Warn and above (and any message
// containing "failed").
type logBuf struct {
	mu   sync.Mutex
	msgs []string
}

func (l *logBuf) Enabled(_ context.Context, lv slog.Level) bool { return lv >= slog.LevelInfo }
func (l *logBuf) Handle(_ context.Context, r slog.Record) error {
	if r.Level < slog.LevelWarn && !strings.Contains(r.Message, "failed") {
		return nil
	}
	l.mu.Lock()
	l.msgs = append(l.msgs, r.Level.String()+": "+r.Message)
	l.mu.Unlock()
	return nil
}
func (l *logBuf) WithAttrs([]slog.Attr) slog.Handler { return l }
func (l *logBuf) WithGroup(string) slog.Handler      { return l }

// DB is an open database plus what is needed to reopen it.
type DB struct {
	*tsdb.DB
	Dir  string
	Opts Options
	comp *plannedCompactor
	lb   *logBuf
}

// Logs returns (and clears) the warnings / errors / "... failed" messages the database logged
// since the last call (e.g. "Loading on-disk chunks failed" during Open).
func (d *DB) Logs() []string {
	d.lb.mu.Lock()
	defer d.lb.mu.Unlock()
	out := d.lb.msgs
	d.lb.msgs = nil
	return out
}

func (o Options) tsdbOptions(pc **plannedCompactor) *tsdb.Options {
	t := tsdb.DefaultOptions()
	if o.BlockRange > 0 {
		t.MinBlockDuration = o.BlockRange
		t.MaxBlockDuration = o.BlockRange * 27
	}
	t.RetentionDuration = 0
	t.MaxBytes = 0
	t.OutOfOrderTimeWindow = o.OOOWindow
	if o.OOOCapMax > 0 {
		t.OutOfOrderCapMax = o.OOOCapMax
	}
	if o.SamplesPerChunk > 0 {
		t.SamplesPerChunk = o.SamplesPerChunk
	}
	t.IsolationDisabled = o.IsolationOff
	t.EnableOverlappingCompaction = o.Overlapping
	t.EnableMemorySnapshotOnShutdown = o.Snapshot
	if o.XOR2 {
		t.FloatChunkEncoding = chunkenc.EncXOR2
	}
	t.NoLockfile = true
	// keep Open cheap: the harnesses open thousands of tiny databases
	t.StripeSize = 64
	t.BlockReloadInterval = 24 * time.Hour // no periodic reloadBlocks / mmapHeadChunks behind the harness' back
	t.WALSegmentSize = 1 << 20
	t.HeadChunksWriteBufferSize = 64 * 1024
	t.EnableDelayedCompaction = false
	t.NewCompactorFunc = func(ctx context.Context, r prometheus.Registerer, l *slog.Logger, ranges []int64, pool chunkenc.Pool, opts *tsdb.Options) (tsdb.Compactor, error) {
		c, err := tsdb.NewLeveledCompactorWithOptions(ctx, r, l, ranges, pool, tsdb.LeveledCompactorOptions{
			MaxBlockChunkSegmentSize:    opts.MaxBlockChunkSegmentSize,
			EnableOverlappingCompaction: opts.EnableOverlappingCompaction,
			FloatChunkEncoding:          func() chunkenc.Encoding { return opts.FloatChunkEncoding },
		})
		if err != nil {
			return nil, err
		}
		*pc = &plannedCompactor{Compactor: c}
		return *pc, nil
	}
	return t
}

// Open opens (or reopens) the database in dir. The background compaction loop is disabled.
func Open(dir string, o Options) (*DB, error) { return open(dir, o, &logBuf{}) }

func open(dir string, o Options, lb *logBuf) (*DB, error) {
	d := &DB{Dir: dir, Opts: o, lb: lb}
	db, err := tsdb.Open(dir, slog.New(lb), nil, o.tsdbOptions(&d.comp), nil)
	if err != nil {
		return nil, err
	}
	db.DisableCompactions()
	d.DB = db
	return d, nil
}

// Reopen is Close followed by Open on the same directory with the same options.
func (d *DB) Reopen() error {
	if err := d.DB.Close(); err != nil {
		return fmt.Errorf("close: %w", err)
	}
	n, err := open(d.Dir, d.Opts, d.lb)
	if err != nil {
		return fmt.Errorf("open: %w", err)
	}
	*d = *n
	return nil
}

// AppendReq is one float append of a transaction.
type AppendReq struct {
	Labels labels.Labels
	T      int64
	V      float64
}

// Tx runs one appender: every request is appended in order (the per-sample result is
// recorded), then the appender is committed or rolled back.
func (d *DB) Tx(reqs []AppendReq, commit bool) (res []ErrKind, endErr error) {
	app := d.DB.Appender(context.Background())
	for _, r := range reqs {
		_, err := app.Append(0, r.Labels, r.T, r.V)
		res = append(res, Kind(err))
	}
	if commit {
		return res, app.Commit()
	}
	return res, app.Rollback()
}

func canonSeries(out []Series) []Series {
	sort.SliceStable(out, func(i, j int) bool { return out[i].Labels < out[j].Labels })
	return out
}

// Query runs Querier(mint,maxt).Select(matchers) and returns the series sorted by label string;
// samples are in iteration order (so a harness can check that they are strictly increasing).
func (d *DB) Query(mint, maxt int64, ms ...*labels.Matcher) ([]Series, error) {
	q, err := d.DB.Querier(mint, maxt)
	if err != nil {
		return nil, err
	}
	defer q.Close()
	ss := q.Select(context.Background(), true, nil, ms...)
	var out []Series
	for ss.Next() {
		s := ss.At()
		r := Series{Labels: s.Labels().String()}
		it := s.Iterator(nil)
		for it.Next() == chunkenc.ValFloat {
			t, v := it.At()
			r.Samples = append(r.Samples, Sample{t, v})
		}
		if it.Err() != nil {
			return nil, it.Err()
		}
		out = append(out, r)
	}
	if ss.Err() != nil {
		return nil, ss.Err()
	}
	return canonSeries(out), nil
}

// ChunkQuery runs ChunkQuerier(mint,maxt).Select(matchers) and decodes all chunks; samples of
// one series are concatenated in chunk order. Samples outside [mint,maxt] may legitimately be
// present (chunk granularity); InRange filters them.
func (d *DB) ChunkQuery(mint, maxt int64, ms ...*labels.Matcher) ([]Series, error) {
	q, err := d.DB.ChunkQuerier(mint, maxt)
	if err != nil {
		return nil, err
	}
	defer q.Close()
	ss := q.Select(context.Background(), true, nil, ms...)
	var out []Series
	for ss.Next() {
		s := ss.At()
		r := Series{Labels: s.Labels().String()}
		it := s.Iterator(nil)
		for it.Next() {
			m := it.At()
			ci := m.Chunk.Iterator(nil)
			for ci.Next() == chunkenc.ValFloat {
				t, v := ci.At()
				r.Samples = append(r.Samples, Sample{t, v})
			}
			if ci.Err() != nil {
				return nil, ci.Err()
			}
		}
		if it.Err() != nil {
			return nil, it.Err()
		}
		out = append(out, r)
	}
	if ss.Err() != nil {
		return nil, ss.Err()
	}
	return canonSeries(out), nil
}

// InRange keeps the samples with mint <= T <= maxt and drops series left empty.
func InRange(in []Series, mint, maxt int64) []Series {
	var out []Series
	for _, s := range in {
		r := Series{Labels: s.Labels}
		for _, x := range s.Samples {
			if x.T >= mint && x.T <= maxt {
				r.Samples = append(r.Samples, x)
			}
		}
		if len(r.Samples) > 0 {
			out = append(out, r)
		}
	}
	return out
}

// Blocks returns the loaded blocks' metas sorted by (MinT, MaxT, OOO, NumSamples).
func (d *DB) Blocks() []BlockInfo {
	var out []BlockInfo
	for _, b := range d.DB.Blocks() {
		m := b.Meta()
		out = append(out, BlockInfo{ULID: m.ULID.String(), MinT: m.MinTime, MaxT: m.MaxTime, OOO: m.Compaction.FromOutOfOrder(),
			Level: m.Compaction.Level, NumSamples: m.Stats.NumSamples, NumSeries: m.Stats.NumSeries, NumStones: m.Stats.NumTombstones,
			Parents: len(m.Compaction.Parents)})
	}
	sort.SliceStable(out, func(i, j int) bool {
		a, b := out[i], out[j]
		if a.MinT != b.MinT {
			return a.MinT < b.MinT
		}
		if a.MaxT != b.MaxT {
			return a.MaxT < b.MaxT
		}
		if a.OOO != b.OOO {
			return !a.OOO
		}
		return a.NumSamples < b.NumSamples
	})
	return out
}

// BlockSeries decodes a loaded block completely (tombstones NOT applied): series label string -> samples.
func (d *DB) BlockSeries(id string) (map[string][]Sample, error) {
	for _, b := range d.DB.Blocks() {
		if b.Meta().ULID.String() != id {
			continue
		}
		ir, err := b.Index()
		if err != nil {
			return nil, err
		}
		defer ir.Close()
		cr, err := b.Chunks()
		if err != nil {
			return nil, err
		}
		defer cr.Close()
		k, v := "", ""
		p, err := ir.Postings(context.Background(), k, v)
		if err != nil {
			return nil, err
		}
		out := map[string][]Sample{}
		var bld labels.ScratchBuilder
		var chks []chunks.Meta
		for p.Next() {
			if err := ir.Series(p.At(), &bld, &chks); err != nil {
				return nil, err
			}
			name := bld.Labels().String()
			for _, cm := range chks {
				c, _, err := cr.ChunkOrIterable(cm)
				if err != nil {
					return nil, err
				}
				it := c.Iterator(nil)
				for it.Next() == chunkenc.ValFloat {
					t, v := it.At()
					out[name] = append(out[name], Sample{t, v})
				}
			}
		}
		return out, p.Err()
	}
	return nil, fmt.Errorf("block %s not loaded", id)
}

// HeadTimes returns Head.MinTime, Head.MaxTime (math.MaxInt64 / math.MinInt64 when unset)
// and Head.minValidTime.
func (d *DB) HeadTimes() (mint, maxt, minValid int64) {
	h := d.DB.Head()
	return h.MinTime(), h.MaxTime(), h.VerifMinValidTime()
}

// HeadOOOTimes returns Head.MinOOOTime, Head.MaxOOOTime.
func (d *DB) HeadOOOTimes() (mint, maxt int64) {
	h := d.DB.Head()
	return h.MinOOOTime(), h.MaxOOOTime()
}

// HeadSeries is the head's in-memory state of one series: decoded in-order and out-of-order chunks.
type HeadSeries struct {
	Labels  string
	Ref     uint64
	InOrder []Chunk
	OOO     []Chunk
	NextAt  int64
}

// Chunk is one decoded head chunk with the bounds the head keeps for it.
type Chunk struct {
	MinT, MaxT int64
	Mmapped    bool
	Samples    []Sample
}

// HeadDump returns every series of the head sorted by label string.
func (d *DB) HeadDump() []HeadSeries {
	var out []HeadSeries
	conv := func(in []tsdb.VerifChunk) []Chunk {
		var r []Chunk
		for _, c := range in {
			x := Chunk{MinT: c.MinTime, MaxT: c.MaxTime, Mmapped: c.Mmapped}
			for _, s := range c.Samples {
				x.Samples = append(x.Samples, Sample{s.T, s.V})
			}
			r = append(r, x)
		}
		return r
	}
	for _, s := range d.DB.Head().VerifDump() {
		out = append(out, HeadSeries{Labels: s.Labels.String(), Ref: s.Ref, InOrder: conv(s.InOrder), OOO: conv(s.OOO), NextAt: s.NextAt})
	}
	sort.SliceStable(out, func(i, j int) bool { return out[i].Labels < out[j].Labels })
	return out
}

// HeadTombstones returns the head's tombstones keyed by series label string.
func (d *DB) HeadTombstones() map[string][][2]int64 {
	byRef := map[uint64]string{}
	for _, s := range d.DB.Head().VerifDump() {
		byRef[s.Ref] = s.Labels.String()
	}
	out := map[string][][2]int64{}
	for ref, ivs := range d.DB.Head().VerifTombstones() {
		name, ok := byRef[ref]
		if !ok {
			name = fmt.Sprintf("?ref=%d", ref)
		}
		out[name] = append(out[name], ivs...)
	}
	return out
}

// Delete is DB.Delete.
func (d *DB) Delete(mint, maxt int64, ms ...*labels.Matcher) error {
	return d.DB.Delete(context.Background(), mint, maxt, ms...)
}

// Compact is DB.Compact with block-to-block compaction switched off (the wrapped planner
// returns no plan): the head compaction loop, then - if a head block was cut - the
// out-of-order head compaction.
func (d *DB) Compact() error {
	d.comp.usePlanner, d.comp.next = false, nil
	return d.DB.Compact(context.Background())
}

// CompactWithPlanner is the unmodified DB.Compact (real LeveledCompactor.Plan).
func (d *DB) CompactWithPlanner() error {
	d.comp.usePlanner = true
	defer func() { d.comp.usePlanner = false }()
	return d.DB.Compact(context.Background())
}

// CompactOOOHead is DB.CompactOOOHead.
func (d *DB) CompactOOOHead() error { return d.DB.CompactOOOHead(context.Background()) }

// ForceCompactHead is DB.CompactHead(NewRangeHead(head, mint, maxt)): the caller picks the range
// (block [mint, maxt+1)), whatever Head.compactable() says.
func (d *DB) ForceCompactHead(mint, maxt int64) error {
	return d.DB.CompactHead(tsdb.NewRangeHead(d.DB.Head(), mint, maxt))
}

// MergeBlocks compacts exactly the given loaded blocks (by ULID) into one through
// DB.Compact -> compactBlocks -> LeveledCompactor.Compact -> reloadBlocks. The head must not be
// compactable (otherwise DB.Compact would first cut head blocks); MergeBlocks refuses then.
func (d *DB) MergeBlocks(ids []string) error {
	if d.DB.Head().VerifCompactable() {
		return errors.New("tsdbx: head is compactable; run Compact first")
	}
	var dirs []string
	for _, id := range ids {
		if _, err := ulid.ParseStrict(id); err != nil {
			return err
		}
		dirs = append(dirs, filepath.Join(d.Dir, id))
	}
	d.comp.usePlanner, d.comp.next = false, [][]string{dirs}
	return d.DB.Compact(context.Background())
}

// Compactable is Head.compactable().
func (d *DB) Compactable() bool { return d.DB.Head().VerifCompactable() }

// Unset reports the head's "no data yet" sentinels.
func Unset(mint, maxt int64) bool { return mint == math.MaxInt64 && maxt == math.MinInt64 }

// MatchAll selects every series carrying the label name.
func MatchAll(name string) *labels.Matcher {
	return labels.MustNewMatcher(labels.MatchRegexp, name, ".+")
}

// MatchEq selects series with name=value.
func MatchEq(name, value string) *labels.Matcher {
	return labels.MustNewMatcher(labels.MatchEqual, name, value)
}

// ---- open appenders, sample kinds (for "compaction while an appender is open") ----

// Kind is the kind of an appended sample.
type SampleKind int

const (
	KFloat SampleKind = iota
	KHistogram
	KFloatHistogram
	KNHCB      // integer native histogram with custom buckets
	KFloatNHCB // float native histogram with custom buckets
	KStale     // float staleness marker (value.StaleNaN); the head may store it as a histogram staleness marker
)

func (k SampleKind) String() string {
	return [...]string{"float", "histogram", "float-histogram", "nhcb", "float-nhcb", "stale"}[k]
}

// OpenTx is an appender that has not been committed or rolled back yet.
type OpenTx struct {
	v1 storage.Appender
	v2 storage.AppenderV2
}

// Begin opens an appender: DB.Appender (v2 = false) or DB.AppenderV2 (v2 = true).
func (d *DB) Begin(v2 bool) *OpenTx {
	if v2 {
		return &OpenTx{v2: d.DB.AppenderV2(context.Background())}
	}
	return &OpenTx{v1: d.DB.Appender(context.Background())}
}

func minimalHistograms(v float64) (*histogram.Histogram, *histogram.FloatHistogram) {
	h := &histogram.Histogram{Schema: 0, Count: 1, Sum: v, PositiveSpans: []histogram.Span{{Offset: 0, Length: 1}}, PositiveBuckets: []int64{1}}
	fh := &histogram.FloatHistogram{Schema: 0, Count: 1, Sum: v, PositiveSpans: []histogram.Span{{Offset: 0, Length: 1}}, PositiveBuckets: []float64{1}}
	return h, fh
}

// Append appends one sample of the given kind (histograms are minimal single-bucket ones with Sum = v).
func (o *OpenTx) Append(l labels.Labels, t int64, v float64, k SampleKind) error {
	h, fh := minimalHistograms(v)
	var err error
	switch k {
	case KNHCB:
		h = &histogram.Histogram{Schema: histogram.CustomBucketsSchema, Count: 1, Sum: v, PositiveSpans: []histogram.Span{{Offset: 0, Length: 1}}, PositiveBuckets: []int64{1}, CustomValues: []float64{1}}
		k = KHistogram
	case KFloatNHCB:
		fh = &histogram.FloatHistogram{Schema: histogram.CustomBucketsSchema, Count: 1, Sum: v, PositiveSpans: []histogram.Span{{Offset: 0, Length: 1}}, PositiveBuckets: []float64{1}, CustomValues: []float64{1}}
		k = KFloatHistogram
	case KStale:
		v = math.Float64frombits(value.StaleNaN)
		k = KFloat
	}
	switch {
	case o.v2 != nil && k == KFloat:
		_, err = o.v2.Append(0, l, 0, t, v, nil, nil, storage.AppendV2Options{})
	case o.v2 != nil && k == KHistogram:
		_, err = o.v2.Append(0, l, 0, t, 0, h, nil, storage.AppendV2Options{})
	case o.v2 != nil:
		_, err = o.v2.Append(0, l, 0, t, 0, nil, fh, storage.AppendV2Options{})
	case k == KFloat:
		_, err = o.v1.Append(0, l, t, v)
	case k == KHistogram:
		_, err = o.v1.AppendHistogram(0, l, t, h, nil)
	default:
		_, err = o.v1.AppendHistogram(0, l, t, nil, fh)
	}
	return err
}

func (o *OpenTx) Commit() error {
	if o.v2 != nil {
		return o.v2.Commit()
	}
	return o.v1.Commit()
}

func (o *OpenTx) Rollback() error {
	if o.v2 != nil {
		return o.v2.Rollback()
	}
	return o.v1.Rollback()
}

// SampleTimes runs Querier(mint,maxt).Select(matchers) and returns the timestamps of ALL samples
// (floats, histograms, float histograms) per series label string.
func (d *DB) SampleTimes(mint, maxt int64, ms ...*labels.Matcher) (map[string][]int64, error) {
	q, err := d.DB.Querier(mint, maxt)
	if err != nil {
		return nil, err
	}
	defer q.Close()
	ss := q.Select(context.Background(), true, nil, ms...)
	out := map[string][]int64{}
	for ss.Next() {
		s := ss.At()
		it := s.Iterator(nil)
		for it.Next() != chunkenc.ValNone {
			out[s.Labels().String()] = append(out[s.Labels().String()], it.AtT())
		}
		if it.Err() != nil {
			return nil, it.Err()
		}
	}
	return out, ss.Err()
}

// TypedSample is one sample of any kind as a query returned it: Kind is KFloat, KHistogram,
// KFloatHistogram, KNHCB, KFloatNHCB (by value type and schema) or KStale (a float or histogram whose
// value / Sum is the staleness NaN); Digest is the float value or the histogram's Sum (0 for
// KStale); Count is the histogram's Count (0 for floats).
type TypedSample struct {
	T      int64
	Kind   SampleKind
	Digest float64
	Count  float64
}

// TypedSeries is one series of a typed query result.
type TypedSeries struct {
	Labels  string
	Samples []TypedSample
}

func typedAt(it chunkenc.Iterator, vt chunkenc.ValueType) TypedSample {
	switch vt {
	case chunkenc.ValFloat:
		t, v := it.At()
		if value.IsStaleNaN(v) {
			return TypedSample{T: t, Kind: KStale}
		}
		return TypedSample{T: t, Kind: KFloat, Digest: v}
	case chunkenc.ValHistogram:
		t, h := it.AtHistogram(nil)
		if value.IsStaleNaN(h.Sum) {
			return TypedSample{T: t, Kind: KStale}
		}
		k := KHistogram
		if h.Schema == histogram.CustomBucketsSchema {
			k = KNHCB
		}
		return TypedSample{T: t, Kind: k, Digest: h.Sum, Count: float64(h.Count)}
	default:
		t, h := it.AtFloatHistogram(nil)
		if value.IsStaleNaN(h.Sum) {
			return TypedSample{T: t, Kind: KStale}
		}
		k := KFloatHistogram
		if h.Schema == histogram.CustomBucketsSchema {
			k = KFloatNHCB
		}
		return TypedSample{T: t, Kind: k, Digest: h.Sum, Count: h.Count}
	}
}

// QueryTyped is Query for all sample kinds (Querier.Select), ChunkQueryTyped the same through
// ChunkQuerier.Select with every chunk decoded (samples outside [mint,maxt] are dropped).
func (d *DB) QueryTyped(mint, maxt int64, ms ...*labels.Matcher) ([]TypedSeries, error) {
	q, err := d.DB.Querier(mint, maxt)
	if err != nil {
		return nil, err
	}
	defer q.Close()
	ss := q.Select(context.Background(), true, nil, ms...)
	var out []TypedSeries
	for ss.Next() {
		s := ss.At()
		r := TypedSeries{Labels: s.Labels().String()}
		it := s.Iterator(nil)
		for vt := it.Next(); vt != chunkenc.ValNone; vt = it.Next() {
			r.Samples = append(r.Samples, typedAt(it, vt))
		}
		if it.Err() != nil {
			return nil, it.Err()
		}
		out = append(out, r)
	}
	sort.SliceStable(out, func(i, j int) bool { return out[i].Labels < out[j].Labels })
	return out, ss.Err()
}

func (d *DB) ChunkQueryTyped(mint, maxt int64, ms ...*labels.Matcher) ([]TypedSeries, error) {
	q, err := d.DB.ChunkQuerier(mint, maxt)
	if err != nil {
		return nil, err
	}
	defer q.Close()
	ss := q.Select(context.Background(), true, nil, ms...)
	var out []TypedSeries
	for ss.Next() {
		s := ss.At()
		r := TypedSeries{Labels: s.Labels().String()}
		it := s.Iterator(nil)
		for it.Next() {
			ci := it.At().Chunk.Iterator(nil)
			for vt := ci.Next(); vt != chunkenc.ValNone; vt = ci.Next() {
				x := typedAt(ci, vt)
				if x.T >= mint && x.T <= maxt {
					r.Samples = append(r.Samples, x)
				}
			}
			if ci.Err() != nil {
				return nil, ci.Err()
			}
		}
		if it.Err() != nil {
			return nil, it.Err()
		}
		out = append(out, r)
	}
	sort.SliceStable(out, func(i, j int) bool { return out[i].Labels < out[j].Labels })
	return out, ss.Err()
}

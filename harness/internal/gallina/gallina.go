// Package gallina prints Go values as Gallina terms and writes case files / meta.json.
package gallina

import (
	"encoding/json"
	"fmt"
	"math"
	"os"
	"path/filepath"
	"strconv"
	"strings"
)

// Z prints an int64 as a Z literal.
func Z(v int64) string {
	if v < 0 {
		return "(" + strconv.FormatInt(v, 10) + ")%Z"
	}
	return strconv.FormatInt(v, 10) + "%Z"
}

// ZU prints a uint64 as a Z literal.
func ZU(v uint64) string { return strconv.FormatUint(v, 10) + "%Z" }

// N prints a uint64 as an N literal.
func N(v uint64) string { return strconv.FormatUint(v, 10) + "%N" }

// Nat prints a small int as nat (caller guarantees it is small).
func Nat(v int) string { return strconv.Itoa(v) + "%nat" }

func Bool(b bool) string {
	if b {
		return "true"
	}
	return "false"
}

// FloatBits prints a float64 as its bit pattern (Z).
func FloatBits(f float64) string { return ZU(math.Float64bits(f)) }

// List prints a Gallina list.
func List(items []string) string {
	if len(items) == 0 {
		return "[]"
	}
	return "[" + strings.Join(items, "; ") + "]"
}

func ListZ(vs []int64) string {
	it := make([]string, len(vs))
	for i, v := range vs {
		it[i] = Z(v)
	}
	return List(it)
}

// Bytes prints a byte slice as list N.
func Bytes(b []byte) string {
	it := make([]string, len(b))
	for i, v := range b {
		it[i] = strconv.Itoa(int(v))
	}
	if len(it) == 0 {
		return "([] : list N)"
	}
	return "([" + strings.Join(it, "; ") + "]%N : list N)"
}

// Str prints a Go string as a list of byte values (list N); models use byte lists for strings.
func Str(s string) string { return Bytes([]byte(s)) }

func Option(s *string) string {
	if s == nil {
		return "None"
	}
	return "(Some " + *s + ")"
}

func Some(s string) string { return "(Some " + s + ")" }

func Pair(a, b string) string { return "(" + a + ", " + b + ")" }

// Meta is what a harness reports besides the case file.
type Meta struct {
	Property    string                     `json:"property"`
	Seed        uint64                     `json:"seed"`
	Tier        string                     `json:"tier"`
	Evaluations int                        `json:"evaluations"`
	Nontrivial  int                        `json:"distinct_nontrivial"`
	Rule        string                     `json:"rule"`
	Dist        map[string]int             `json:"distribution"`
	Samples     []any                      `json:"samples"`
	Cases       map[string]json.RawMessage `json:"cases"` // case id -> replayable description (incl. "shape")
	GoViol      []GoViolation              `json:"go_violations"` // property failures decided on the Go side
	Notes       []string                   `json:"notes"`
}

// GoViolation is a failure of the property observed directly on the implementation
// by the harness (used where the statement is checked in Go rather than by Coq's holds_*).
type GoViolation struct {
	ID    string `json:"id"`
	Shape string `json:"shape"`
	What  string `json:"what"`
}

func NewMeta(prop string, seed uint64, tier string) *Meta {
	return &Meta{Property: prop, Seed: seed, Tier: tier, Dist: map[string]int{}, Cases: map[string]json.RawMessage{}}
}

func (m *Meta) Hit(class string) { m.Dist[class]++ }

// Case records a replayable description of case id. desc must contain a "shape" key when
// the case can match a known finding.
func (m *Meta) Case(id int, desc any) {
	b, err := json.Marshal(desc)
	if err != nil {
		panic(err)
	}
	m.Cases[strconv.Itoa(id)] = b
	if len(m.Samples) < 5 {
		m.Samples = append(m.Samples, json.RawMessage(b))
	}
}

func (m *Meta) Write(dir string) {
	b, err := json.MarshalIndent(m, "", " ")
	if err != nil {
		panic(err)
	}
	if err := os.WriteFile(filepath.Join(dir, "meta.json"), b, 0o644); err != nil {
		panic(err)
	}
}

// CaseFile accumulates `Definition cases : list <ty> := [...]` shards.
type CaseFile struct {
	Dir      string
	Preamble string // Require Import lines
	Type     string // Gallina type of one case
	Footer   string // commands after the cases definition; must Print M (mismatching ids) and H (failing holds ids)
	PerShard int
	items    []string
	shard    int
}

func (c *CaseFile) Add(term string) {
	c.items = append(c.items, term)
	if c.PerShard > 0 && len(c.items) >= c.PerShard {
		c.Flush()
	}
}

func (c *CaseFile) Flush() {
	if len(c.items) == 0 && c.shard > 0 {
		return
	}
	var sb strings.Builder
	sb.WriteString(c.Preamble)
	sb.WriteString("\nDefinition cases : list (" + c.Type + ") := [\n")
	sb.WriteString(strings.Join(c.items, ";\n"))
	sb.WriteString("\n].\n")
	sb.WriteString(c.Footer)
	sb.WriteString("\n")
	name := fmt.Sprintf("cases_%03d.v", c.shard)
	if err := os.WriteFile(filepath.Join(c.Dir, name), []byte(sb.String()), 0o644); err != nil {
		panic(err)
	}
	c.shard++
	c.items = nil
}

// StdFooter: cases are checked by `mismatches` and `failing_holds` (both : list case -> list Z).
const StdFooter = `Definition M := Eval vm_compute in mismatches cases.
Definition H := Eval vm_compute in failing_holds cases.
Print M.
Print H.`
